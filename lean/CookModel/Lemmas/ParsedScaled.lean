import CookModel.Props.C06
import CookModel.Num.Scale
import CookModel.Side.BindingsSpec
/-
  The link between the parser/analysis model (C06) and the consumers of a scaled recipe (C10 grouping and
  listing — Lemmas/ParsedScaledRefs.lean —, C19 FFI view): every recipe `parse` returns, scaled by any factor (`ScalableRecipe::scale`) or
  by `default_scale`, satisfies the invariants that the C10 / C19 theorems take as hypotheses
  (`RefsConsistent`, `RefsInRange`, `IndicesInRange`).  Scaling copies sections, relations and table
  lengths, so the invariants of the collector's tables carry over.

  `Col.toRecipe` is vocabulary, not model: the collector state the analysis returns, read as the
  `Recipe` that `RecipeContent` → `Recipe` packs (sections and the four tables, in order).
-/
namespace Cook
open Arith

/-- the recipe held by the collector the analysis returns -/
def Col.toRecipe {α : Type} (c : Col α) : ScalableRecipe α :=
  { sections := c.sections, ingredients := c.ingredients.toList, cookware := c.cookware.toList,
    timers := c.timers.toList, inlineQuantities := c.inlineQ.toList }

/-- `r'` has the sections, relations and table lengths of `r` (what scaling keeps) -/
structure ParsedSameShape (r : ScalableRecipe Rat) (r' : ScaledRecipe Rat) : Prop where
  sections : r'.sections = r.sections
  ingredientRels : r'.ingredients.map (·.relation) = r.ingredients.map (·.relation)
  cookwareRels : r'.cookware.map (·.relation) = r.cookware.map (·.relation)
  timers : r'.timers.length = r.timers.length

theorem parsed_sameShape_scale (cv : Converter Rat) (r : ScalableRecipe Rat) (f : Rat) :
    ParsedSameShape r (recipeScale cv r f).1 := by
  refine ⟨rfl, ?_, ?_, ?_⟩
  · simp [recipeScale, scaleIngredient, Function.comp_def]
  · simp only [recipeScale, List.map_map]
    apply List.map_congr_left
    intro k _
    simp only [Function.comp_def, scaleCookware]
    cases k.quantity <;> rfl
  · simp [recipeScale]

theorem parsed_sameShape_default (r : ScalableRecipe Rat) :
    ParsedSameShape r (recipeDefaultScale r) := by
  refine ⟨rfl, ?_, ?_, ?_⟩
  · simp [recipeDefaultScale, Function.comp_def]
  · simp [recipeDefaultScale, Function.comp_def]
  · simp [recipeDefaultScale]

/-- a scaled recipe obtained from the parser: `parse` (any environment, any input, valid or with
    diagnostics) followed by `scale(factor)` with any converter, or by `default_scale` -/
def ParsedScaled (r : ScaledRecipe Rat) : Prop :=
  ∃ (env : Env) (input : Str) (c : Col Rat), (parseRecipe (α := Rat) env input).output = some c ∧
    ((∃ (cv : Converter Rat) (f : Rat), r = (recipeScale cv c.toRecipe f).1) ∨ r = recipeDefaultScale c.toRecipe)

theorem ParsedScaled.sameShape {r : ScaledRecipe Rat} (h : ParsedScaled r) :
    ∃ (env : Env) (input : Str) (c : Col Rat), (parseRecipe (α := Rat) env input).output = some c ∧
      ParsedSameShape c.toRecipe r := by
  obtain ⟨env, input, c, hc, h | h⟩ := h
  · obtain ⟨cv, f, rfl⟩ := h
    exact ⟨env, input, c, hc, parsed_sameShape_scale cv _ f⟩
  · subst h
    exact ⟨env, input, c, hc, parsed_sameShape_default _⟩

/-- every step item of a recipe obtained from the parser addresses an existing component -/
theorem ParsedScaled.indicesInRange {r : ScaledRecipe Rat} (h : ParsedScaled r) :
    Ffi.IndicesInRange r := by
  obtain ⟨env, input, c, hc, hs⟩ := h.sameShape
  have hinv := (C06_holds env input c hc).1
  have hil : r.ingredients.length = c.ingredients.size := by
    have := congrArg List.length hs.ingredientRels
    simpa [Col.toRecipe] using this
  have hcl : r.cookware.length = c.cookware.size := by
    have := congrArg List.length hs.cookwareRels
    simpa [Col.toRecipe] using this
  have htl : r.timers.length = c.timers.size := by
    have := hs.timers
    simpa [Col.toRecipe] using this
  intro sec hsec s hstep it hit
  rw [hs.sections] at hsec
  have := hinv sec hsec (.step s) hstep s rfl it hit
  cases it with
  | text _ => trivial
  | inlineQuantity _ => trivial
  | ingredient i => simp only [Ffi.ItemInRange]; rw [hil]; exact this.1 i rfl
  | cookware i => simp only [Ffi.ItemInRange]; rw [hcl]; exact this.2.1 i rfl
  | timer i => simp only [Ffi.ItemInRange]; rw [htl]; exact this.2.2.1 i rfl

end Cook
