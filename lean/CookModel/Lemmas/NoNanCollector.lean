import CookModel.Lemmas.SerdeModsCollector
import CookModel.Lemmas.NoNanStream
/-
  C15 — "no number has a NaN value" for parsed recipes, analysis side (wave `w7c15nan`): an invariant of the collector
  fold.  Every quantity value stored in the four tables (ingredients, cookware, timers, inline quantities) is
  `Value.ParsedOK`: its fractions have `den ≠ 0` and parts within `u32`, its plain numbers are not NaN.
  `ingredientA` / `cookwareA` / `timerA` wrap the event's value (`EvNumOK`, Lemmas/NoNanStream.lean) in `Fixed` /
  `Linear` (`valueOf`); the reference machinery copies the quantity; `find_inline_quantity` builds `Regular(±literal)`.
  Pattern: Lemmas/SerdeModsCollector.lean.  Prefix `nnc_`.
-/
set_option linter.unusedSectionVars false
set_option linter.unusedVariables false
set_option linter.unusedSimpArgs false
namespace Cook
variable {α : Type} [Arith α] [IeeeHypC α]

/-- every stored quantity value is one the parser's readers built -/
def ColNumOK (s : Col α) : Prop :=
  (∀ i ∈ s.ingredients.toList, ∀ q, i.quantity = some q → q.value.val.ParsedOK) ∧
  (∀ c ∈ s.cookware.toList, ∀ v, c.quantity = some v → v.val.ParsedOK) ∧
  (∀ t ∈ s.timers.toList, ∀ q, t.quantity = some q → q.value.val.ParsedOK) ∧
  (∀ q ∈ s.inlineQ.toList, q.value.ParsedOK)

theorem ColNumOK.init : ColNumOK (α := α) {} :=
  ⟨fun i hi => (by simp at hi), fun c hc => (by simp at hc), fun c hc => (by simp at hc), fun c hc => (by simp at hc)⟩

theorem ColNumOK.of_tabs {s s' : Col α} (h : ColNumOK s) (hi : s'.ingredients = s.ingredients)
    (hc : s'.cookware = s.cookware) (ht : s'.timers = s.timers) (hq : s'.inlineQ = s.inlineQ) : ColNumOK s' := by
  unfold ColNumOK; rw [hi, hc, ht, hq]; exact h

theorem ColNumOK.of_coreEq {s s' : Col α} (h : ColNumOK s) (he : CoreEq s s') : ColNumOK s' :=
  h.of_tabs he.2.2.1 he.2.2.2.1 he.2.2.2.2.1 he.2.2.2.2.2.1

/-- `m` keeps `ColNumOK` and returns a result satisfying `R` -/
structure NKeeps {β : Type} (m : A α β) (R : β → Prop) : Prop where
  run : ∀ s : Col α, ColNumOK s → ColNumOK (m s).2 ∧ R (m s).1

namespace NKeeps
variable {β γ : Type}

theorem pure {a : β} {R : β → Prop} (h : R a) : NKeeps (Pure.pure a : A α β) R := ⟨fun s hs => ⟨hs, h⟩⟩

theorem bind {m : A α β} {k : β → A α γ} {R : β → Prop} {R' : γ → Prop}
    (hm : NKeeps m R) (hk : ∀ a, R a → NKeeps (k a) R') : NKeeps (m >>= k) R' :=
  ⟨fun s hs => (hk _ (hm.run s hs).2).run _ (hm.run s hs).1⟩

theorem mono {m : A α β} {R R' : β → Prop} (h : NKeeps m R) (hr : ∀ a, R a → R' a) : NKeeps m R' :=
  ⟨fun s hs => ⟨(h.run s hs).1, hr _ (h.run s hs).2⟩⟩

theorem get_bind {k : Col α → A α γ} {R' : γ → Prop} (h : ∀ s0 : Col α, ColNumOK s0 → NKeeps (k s0) R') :
    NKeeps (get >>= k) R' := ⟨fun s hs => (h s hs).run s hs⟩

theorem modifyOK (f : Col α → Col α) (h : ∀ s, ColNumOK s → ColNumOK (f s)) :
    NKeeps (modify f : A α PUnit) (fun _ => True) := ⟨fun s hs => ⟨h s hs, trivial⟩⟩

theorem modify (f : Col α → Col α) (h : ∀ s, (f s).ingredients = s.ingredients ∧ (f s).cookware = s.cookware ∧
    (f s).timers = s.timers ∧ (f s).inlineQ = s.inlineQ) :
    NKeeps (modify f : A α PUnit) (fun _ => True) :=
  modifyOK f (fun s hs => hs.of_tabs (h s).1 (h s).2.1 (h s).2.2.1 (h s).2.2.2)

theorem set {s1 : Col α} (h : ColNumOK s1) : NKeeps (set s1 : A α PUnit) (fun _ => True) :=
  ⟨fun s hs => ⟨h, trivial⟩⟩

theorem of_coreOnly {m : A α β} (h : CoreOnly m) : NKeeps m (fun _ => True) :=
  ⟨fun s hs => ⟨hs.of_coreEq (h.out s), trivial⟩⟩

theorem of_diagOnly {m : A α β} (h : DiagOnly m) : NKeeps m (fun _ => True) := of_coreOnly h.coreOnly

theorem of_diagOnly_val {m : A α β} {R : β → Prop} (h : DiagOnly m) (hv : ∀ s, R (m s).1) : NKeeps m R :=
  ⟨fun s hs => ⟨((of_diagOnly h).run s hs).1, hv s⟩⟩

end NKeeps

syntax "nkeeps_leaf" : tactic
macro_rules | `(tactic| nkeeps_leaf) => `(tactic| first
  | ((with_reducible refine NKeeps.pure (R := fun _ => True) ?_) <;> exact True.intro)
  | ((with_reducible refine NKeeps.pure ?_) <;> exact True.intro)
  | with_reducible exact NKeeps.modify _ (fun _ => ⟨rfl, rfl, rfl, rfl⟩)
  | with_reducible exact NKeeps.of_diagOnly (DiagOnly.apanic _)
  | with_reducible exact NKeeps.of_diagOnly (DiagOnly.aerr _ _)
  | with_reducible exact NKeeps.of_diagOnly (DiagOnly.awarn _ _)
  | ((with_reducible refine NKeeps.set ?_) <;> (refine ColNumOK.of_tabs ?_ rfl rfl rfl rfl; assumption))
  | with_reducible assumption)

macro "nkeeps" : tactic => `(tactic|
  repeat' (first
    | intro _
    | nkeeps_leaf
    | with_reducible apply NKeeps.get_bind
    | with_reducible apply NKeeps.bind
    | dsimp only
    | split))

/-- the quantity of a stored ingredient / timer, the value of a stored cookware item -/
def QOK (q : Option (Quantity (ScalableValue α))) : Prop := ∀ x, q = some x → x.value.val.ParsedOK
def VOK (q : Option (ScalableValue α)) : Prop := ∀ x, q = some x → x.val.ParsedOK

/-! ### the readers of the event's quantity -/

theorem nnc_valueOf_val (env : Env) (v : PQValue α) (b : Bool) (s : Col α) :
    (valueOf env v b s).1.val = v.value.val := by
  unfold valueOf
  simp +instances only [A_bind, A_pure, A_ite, awarn, A_modify]
  repeat' split
  all_goals rfl

theorem nnc_optQuantityOf_val (env : Env) (q : Option (Loc (PQuantity α))) (b : Bool)
    (hq : ∀ x, q = some x → x.val.value.value.val.ParsedOK) (s : Col α) : QOK (optQuantityOf env q b s).1 := by
  intro x hx
  cases q with
  | none => cases hx
  | some q0 =>
    simp +instances only [optQuantityOf, quantityOf, A_bind, A_pure, Option.some.injEq] at hx
    subst hx
    show (valueOf env q0.val.value b s).1.val.ParsedOK
    rw [nnc_valueOf_val]
    exact hq q0 rfl

theorem nnc_optValueOf_val (env : Env) (q : Option (Loc (PQValue α)))
    (hq : ∀ x, q = some x → x.val.value.val.ParsedOK) (s : Col α) : VOK (optValueOf env q s).1 := by
  intro x hx
  cases q with
  | none => cases hx
  | some q0 =>
    simp +instances only [optValueOf, A_bind, A_pure, Option.some.injEq] at hx
    subst hx
    rw [nnc_valueOf_val]
    exact hq q0 rfl

theorem nnc_timerQuantity_val (env : Env) (q : Option (Loc (PQuantity α)))
    (hq : ∀ x, q = some x → x.val.value.value.val.ParsedOK) (s : Col α) : QOK (timerQuantity env q s).1 := by
  intro x hx
  cases q with
  | none => cases hx
  | some q0 =>
    simp +instances only [timerQuantity, quantityOf, A_bind, A_pure, Option.some.injEq] at hx
    subst hx
    show (valueOf env q0.val.value false s).1.val.ParsedOK
    rw [nnc_valueOf_val]
    exact hq q0 rfl

/-! ### the back-link update keeps the quantity of the entry it rewrites -/

theorem nnc_ingrSetReferencedFrom (refTo newIndex : Nat) (defn : Ingredient (ScalableValue α))
    (hd : QOK defn.quantity) : NKeeps (ingrSetReferencedFrom (α := α) refTo newIndex defn) (fun _ => True) := by
  unfold ingrSetReferencedFrom
  split
  · refine NKeeps.modifyOK _ (fun s hs => ⟨?_, hs.2⟩)
    intro i hi
    rcases mods_mem_setIfInBounds _ _ _ _ hi with h | h
    · exact hs.1 i h
    · rw [h]; exact hd
  · exact NKeeps.of_diagOnly (DiagOnly.apanic _)

theorem nnc_cwSetReferencedFrom (refTo newIndex : Nat) (defn : Cookware (ScalableValue α))
    (hd : VOK defn.quantity) : NKeeps (cwSetReferencedFrom (α := α) refTo newIndex defn) (fun _ => True) := by
  unfold cwSetReferencedFrom
  split
  · refine NKeeps.modifyOK _ (fun s hs => ⟨hs.1, ?_, hs.2.2⟩)
    intro i hi
    rcases mods_mem_setIfInBounds _ _ _ _ hi with h | h
    · exact hs.2.1 i h
    · rw [h]; exact hd
  · exact NKeeps.of_diagOnly (DiagOnly.apanic _)

/-! ### ingredients -/

theorem nnc_ingrRegular (env : Env) (input : Str) (li : Loc (PIngredient α)) (igr0 : Ingredient (ScalableValue α))
    (h0 : QOK igr0.quantity) :
    NKeeps (ingrRegular env input li igr0) (fun r => QOK r.quantity) := by
  unfold ingrRegular
  apply NKeeps.get_bind
  intro s hs
  dsimp only
  refine NKeeps.bind (NKeeps.of_diagOnly (resolveReference_diagOnly ..)) (fun r _ => ?_)
  split
  · exact NKeeps.pure h0
  · apply NKeeps.get_bind
    intro s' hs'
    split
    · rename_i defn defLoc hdefn _
      refine NKeeps.bind (NKeeps.of_diagOnly (ingrRefChecks_diagOnly ..)) (fun _ _ => ?_)
      refine NKeeps.bind (R := fun _ => True) ?_ (fun _ _ => NKeeps.pure h0)
      exact nnc_ingrSetReferencedFrom _ _ _ (hs'.1 defn (getElem?_mem' _ _ _ (by simpa using hdefn)))
    · exact NKeeps.bind (NKeeps.of_diagOnly (DiagOnly.apanic _)) (fun _ _ => NKeeps.pure h0)

theorem nnc_ingrInter (i : PIngredient α) (igr : Ingredient (ScalableValue α)) (d : Loc InterData)
    (h0 : QOK igr.quantity) : NKeeps (ingrInter i igr d) (fun r => QOK r.quantity) := by
  refine NKeeps.of_diagOnly_val (ingrInter_diagOnly i igr d) (fun s => ?_)
  rcases ingrInter_val i igr d s with h | ⟨rel, _, h⟩ <;> rw [h] <;> exact h0

theorem nnc_ingrBuild (env : Env) (input : Str) (li : Loc (PIngredient α)) (igr0 : Ingredient (ScalableValue α))
    (h0 : QOK igr0.quantity) : NKeeps (ingrBuild env input li igr0) (fun _ => True) := by
  unfold ingrBuild
  apply NKeeps.bind (R := fun r => QOK r.quantity)
  · split
    · exact nnc_ingrInter _ _ _ h0
    · exact nnc_ingrRegular env input li igr0 h0
  · intro igr higr
    refine NKeeps.bind (R := fun _ => True) ?_ (fun _ _ => ?_)
    · refine NKeeps.modifyOK _ (fun s hs => ⟨?_, hs.2⟩)
      intro i hi
      simp only [Array.toList_push, List.mem_append, List.mem_singleton] at hi
      rcases hi with hi | rfl
      · exact hs.1 i hi
      · exact higr
    · nkeeps

theorem nnc_ingredientA (env : Env) (input : Str) (li : Loc (PIngredient α))
    (h0 : EvNumOK (.ingredient li)) : NKeeps (ingredientA env input li) (fun _ => True) := by
  unfold ingredientA
  dsimp only
  refine NKeeps.bind (NKeeps.of_diagOnly_val (optQuantityOf_diagOnly ..)
    (nnc_optQuantityOf_val env _ true h0)) (fun q hq => ?_)
  apply NKeeps.get_bind
  intro s0 _
  exact nnc_ingrBuild env input li _ hq

/-! ### cookware -/

theorem nnc_cwResolve (env : Env) (input : Str) (lc : Loc (PCookware α)) (cw0 : Cookware (ScalableValue α))
    (h0 : VOK cw0.quantity) :
    NKeeps (cwResolve env input lc cw0) (fun r => VOK r.quantity) := by
  unfold cwResolve
  apply NKeeps.get_bind
  intro s hs
  dsimp only
  refine NKeeps.bind (NKeeps.of_diagOnly (resolveReference_diagOnly ..)) (fun r _ => ?_)
  split
  · exact NKeeps.pure h0
  · apply NKeeps.get_bind
    intro s' hs'
    split
    · rename_i defn defLoc hdefn _
      refine NKeeps.bind (NKeeps.of_diagOnly (cwRefChecks_diagOnly ..)) (fun _ _ => ?_)
      refine NKeeps.bind (R := fun _ => True) ?_ (fun _ _ => NKeeps.pure h0)
      exact nnc_cwSetReferencedFrom _ _ _ (hs'.2.1 defn (getElem?_mem' _ _ _ (by simpa using hdefn)))
    · exact NKeeps.bind (NKeeps.of_diagOnly (DiagOnly.apanic _)) (fun _ _ => NKeeps.pure h0)

theorem nnc_cwBuild (env : Env) (input : Str) (lc : Loc (PCookware α)) (cw0 : Cookware (ScalableValue α))
    (h0 : VOK cw0.quantity) : NKeeps (cwBuild env input lc cw0) (fun _ => True) := by
  unfold cwBuild
  refine NKeeps.bind (nnc_cwResolve env input lc cw0 h0) (fun cw hcw => ?_)
  refine NKeeps.bind (R := fun _ => True) ?_ (fun _ _ => ?_)
  · refine NKeeps.modifyOK _ (fun s hs => ⟨hs.1, ?_, hs.2.2⟩)
    intro i hi
    simp only [Array.toList_push, List.mem_append, List.mem_singleton] at hi
    rcases hi with hi | rfl
    · exact hs.2.1 i hi
    · exact hcw
  · nkeeps

theorem nnc_cookwareA (env : Env) (input : Str) (lc : Loc (PCookware α))
    (h0 : EvNumOK (.cookware lc)) : NKeeps (cookwareA env input lc) (fun _ => True) := by
  unfold cookwareA
  dsimp only
  refine NKeeps.bind (NKeeps.of_diagOnly_val (optValueOf_diagOnly ..) (nnc_optValueOf_val env _ h0)) (fun q hq => ?_)
  apply NKeeps.get_bind
  intro s0 _
  exact nnc_cwBuild env input lc _ hq

/-! ### timers -/

theorem nnc_timerA (env : Env) (lt : Loc (PTimer α)) (h0 : EvNumOK (.timer lt)) :
    NKeeps (timerA env lt) (fun _ => True) := by
  unfold timerA
  dsimp only
  refine NKeeps.bind (NKeeps.of_diagOnly_val (timerQuantity_diagOnly ..) (nnc_timerQuantity_val env _ h0))
    (fun q hq => ?_)
  refine NKeeps.bind (R := fun _ => True) ?_ (fun _ _ => ?_)
  · refine NKeeps.modifyOK _ (fun s hs => ⟨hs.1, hs.2.1, ?_, hs.2.2.2⟩)
    intro i hi
    simp only [Array.toList_push, List.mem_append, List.mem_singleton] at hi
    rcases hi with hi | rfl
    · exact hs.2.2.1 i hi
    · exact hq
  · nkeeps

theorem nnc_pushItem (it : Item) : NKeeps (pushItem (α := α) it) (fun _ => True) := by
  unfold pushItem
  nkeeps

theorem nnc_inStepComponent (env : Env) (input : Str) (ev : Ev α) (hev : EvNumOK ev) :
    NKeeps (inStepComponent env input ev) (fun _ => True) := by
  have hp : NKeeps (apanic (α := α) "Unexpected event in step") (fun _ => True) :=
    NKeeps.of_diagOnly (DiagOnly.apanic _)
  cases ev with
  | ingredient li => exact NKeeps.bind (nnc_ingredientA env input li hev) (fun _ _ => nnc_pushItem _)
  | cookware lc => exact NKeeps.bind (nnc_cookwareA env input lc hev) (fun _ _ => nnc_pushItem _)
  | timer lt => exact NKeeps.bind (nnc_timerA env lt hev) (fun _ _ => nnc_pushItem _)
  | frontMatter _ => exact hp
  | metadata _ _ => exact hp
  | «section» _ => exact hp
  | start _ => exact hp
  | stop _ => exact hp
  | text _ => exact hp
  | error _ => exact hp
  | warning _ => exact hp

theorem nnc_inBlockComponent (env : Env) (input : Str) (ev : Ev α) (hev : EvNumOK ev) :
    NKeeps (inBlockComponent env input ev) (fun _ => True) := by
  unfold inBlockComponent
  apply NKeeps.get_bind
  intro s hs
  split
  · exact nnc_inStepComponent env input ev hev
  · exact NKeeps.of_coreOnly (inTextComponent_coreOnly ..)
  · exact NKeeps.of_diagOnly (DiagOnly.apanic _)

/-! ### inline quantities: `Regular(±literal)` -/

theorem nnc_parseSimpleFloat (s : Str) (x : α) (h : parseSimpleFloat (α := α) s = some x) : notNaN x := by
  unfold parseSimpleFloat at h
  simp only at h
  repeat' split at h
  all_goals first
    | (cases h; exact (IeeeHypC.out (α := α)).decimal _ _)
    | cases h

theorem nnc_findInlineQuantity (env : Env) (fuel : Nat) (pre rest : Str) (hit : InlineHit α)
    (h : findInlineQuantity (α := α) env fuel pre rest = some hit) : hit.q.value.ParsedOK := by
  induction fuel generalizing pre rest with
  | zero => simp [findInlineQuantity] at h
  | succ fuel ih =>
    unfold findInlineQuantity at h
    simp only at h
    split at h
    · cases h
    · split at h
      · cases h
      · split at h
        · rename_i n _ hn _
          cases h
          refine ⟨trivial, fun v hv => ?_⟩
          cases hv
          have := nnc_parseSimpleFloat _ _ hn
          split
          · exact IeeeHypC.neg _ this
          · exact this
        · exact ih _ _ h

theorem nnc_inlineLoop (env : Env) (fuel : Nat) (hay : Str) (items : List Item) (iq : Array (Quantity (Value α)))
    (h : ∀ q ∈ iq.toList, q.value.ParsedOK) :
    ∀ q ∈ (inlineLoop env fuel hay items iq).2.toList, q.value.ParsedOK := by
  induction fuel generalizing hay items iq with
  | zero => exact h
  | succ fuel ih =>
    unfold inlineLoop
    split
    · rename_i hit hh
      apply ih
      intro q hq
      simp only [Array.toList_push, List.mem_append, List.mem_singleton] at hq
      rcases hq with hq | rfl
      · exact h q hq
      · exact nnc_findInlineQuantity env _ _ _ hit hh
    · exact h

theorem nnc_inStepText (env : Env) (t : Text) : NKeeps (inStepText (α := α) env t) (fun _ => True) := by
  unfold inStepText
  apply NKeeps.get_bind
  intro s hs
  split
  · unfold inStepTextStep
    apply NKeeps.get_bind
    intro s1 hs1
    dsimp only
    split
    · nkeeps
    · split
      · exact NKeeps.modifyOK _ (fun s2 hs2 => ⟨hs2.1, hs2.2.1, hs2.2.2.1, nnc_inlineLoop env _ _ _ _ hs1.2.2.2⟩)
      · nkeeps
  · nkeeps
  · nkeeps

theorem nnc_endBlock (kind : BlockKind) : NKeeps (endBlock (α := α) kind) (fun _ => True) := by
  unfold endBlock
  refine NKeeps.bind (NKeeps.of_diagOnly (endBlockContent_diagOnly kind)) (fun c _ => ?_)
  dsimp only
  split
  · refine NKeeps.bind (R := fun _ => True) ?_ (fun _ _ => by nkeeps)
    unfold pushContent
    nkeeps
  · nkeeps

/-- **one event keeps the invariant**, provided its own quantity value is one the parser built -/
theorem nnc_processEvent (env : Env) (input : Str) (ev : Ev α) (hev : EvNumOK ev) :
    NKeeps (processEvent env input ev) (fun _ => True) := by
  cases ev with
  | frontMatter t => simp only [processEvent]; nkeeps
  | metadata k v => simp only [processEvent]; exact NKeeps.of_coreOnly (metadataA_coreOnly env k v)
  | «section» name => simp only [processEvent]; nkeeps
  | start kind => simp only [processEvent]; nkeeps
  | stop kind => simp only [processEvent]; exact nnc_endBlock kind
  | text t => simp only [processEvent]; exact nnc_inStepText env t
  | ingredient i => simp only [processEvent]; exact nnc_inBlockComponent env input _ hev
  | cookware c => simp only [processEvent]; exact nnc_inBlockComponent env input _ hev
  | timer t => simp only [processEvent]; exact nnc_inBlockComponent env input _ hev
  | error d => simp only [processEvent]; nkeeps
  | warning d => simp only [processEvent]; nkeeps

/-! ### the fold -/

theorem nnc_parseEventsLoop (env : Env) (input : Str) (evs : List (Ev α)) (s c : Col α) (hs : ColNumOK s)
    (hev : ∀ ev ∈ evs, EvNumOK ev) (hc : (parseEventsLoop env input evs s).output = some c) : ColNumOK c := by
  induction evs generalizing s with
  | nil =>
    simp only [parseEventsLoop, Option.some.injEq] at hc
    subst hc
    split <;> split <;> exact hs.of_tabs rfl rfl rfl rfl
  | cons ev rest ih =>
    by_cases he : ∃ d0, ev = .error d0
    · obtain ⟨d0, rfl⟩ := he
      simp only [parseEventsLoop] at hc
      cases hc
    · rw [parseEventsLoop_cons_nonerror env input ev rest s he] at hc
      exact ih _ ((nnc_processEvent env input ev (hev ev List.mem_cons_self)).run s hs).1
        (fun e he' => hev e (List.mem_cons_of_mem _ he')) hc

/-- **every quantity value stored in the collector `parse` returns is one the parser's readers built** -/
theorem nnc_parseRecipe_numOK (env : Env) (input : Str) (c : Col α)
    (h : (parseRecipe (α := α) env input).output = some c) : ColNumOK c := by
  unfold parseRecipe parseEvents at h
  exact nnc_parseEventsLoop env input _ {} c ColNumOK.init (nn_pullEvents_numOK env.cs env.ext input) h

end Cook
