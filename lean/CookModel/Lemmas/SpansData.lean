import CookModel.Lemmas.SpansEv
import CookModel.Lemmas.Diag
/-
  C04, "faithful" for the located items that carry DERIVED data (wave 5): the value of a quantity, the scaling
  lock, the modifier set, the intermediate-reference data.

  The block parser never slices the input: it works on the tokens.  So "the datum is the parse of the input slice at
  its span" is stated over tokens: the datum is what the PURE reader (`readValue`, `readModifiers`, `readInterRef`)
  yields on a run of ADJACENT TOKENS of the block whose span (`tokensSpan`) is the span reported with the datum
  (`ValueAt`, `LockAt`, `ModsAt`, `InterAt`, relative to a reference token list `T`).  The readers are not new model
  code to be trusted: they are proved to be what the model's parsers return, for every parser state
  (`sdat_parseValue_fst`, `parseInterRef_data`, `parseModifiersLoop_data`).  Lemmas/SpansDataDoc.lean lifts this to the
  token stream of the document, where the run is determined by the span alone (`toksIn`).
-/
set_option linter.unusedSectionVars false
set_option linter.unusedSimpArgs false
set_option linter.unusedVariables false
namespace Cook
variable {α : Type} [Arith α]

/-- what `parse_value` reads from a run of tokens -/
def readValue (cs : CharSpec) (rangeExt : Bool) (o : Nat) (toks : List Tok) : Value α :=
  match numOrRange (α := α) rangeExt toks with
  | some (.ok v) => v
  | some (.error _) => recoverValue
  | none => .text ((buildText o toks).trimmed cs)

theorem sdat_bpText_run (o : Nat) (toks : List Tok) (s : BP α) :
    (bpText (α := α) o toks s).1 = buildText o toks ∧ (bpText (α := α) o toks s).2.cs = s.cs := by
  unfold bpText
  by_cases hb : (buildText o toks).bad = true
  · simp only [hb, if_true]
    constructor
    · rfl
    · show (panicWith (α := α) "text: offset/order assertion" s).2.cs = s.cs
      unfold panicWith
      show (if s.panic.isNone = true then _ else s).cs = _
      split <;> rfl
  · simp only [hb]
    exact ⟨rfl, rfl⟩

theorem Sat.bpTextAny {o : Nat} {toks : List Tok} {s : BP α} {Q : Text → BP α → Prop}
    (h : ∀ s' : BP α, s'.cs = s.cs → Q (buildText o toks) s') : Sat (bpText o toks) s Q := by
  unfold Sat
  rw [(sdat_bpText_run o toks s).1]
  exact h _ (sdat_bpText_run o toks s).2

theorem sdat_textValue_fst (toks : List Tok) (o : Nat) (s : BP α) :
    Sat (textValue (α := α) toks o) s (fun r _ => r = .text ((buildText o toks).trimmed s.cs)) := by
  unfold textValue
  refine Sat.bind (Sat.bpTextAny ?_)
  intro s' hs'
  refine Sat.bind (Sat.get ?_)
  dsimp only
  split
  · refine Sat.bind (Sat.perrE ?_)
    exact Sat.pure (by rw [hs'])
  · exact Sat.pure (by rw [hs'])

/-- `parse_value` returns what `readValue` reads from its tokens, whatever the state -/
theorem sdat_parseValue_fst (toks : List Tok) (s : BP α) :
    Sat (parseValue toks) s (fun r _ => r =
      ⟨readValue s.cs (s.ext.has Gen.EXT_RANGE_VALUES) ((toks.head?.map (·.start)).getD (offAt s.toks s.cur)) toks,
        ⟨(toks.head?.map (·.start)).getD (offAt s.toks s.cur), offAt s.toks s.cur⟩⟩) := by
  unfold parseValue readValue
  refine Sat.bind (Sat.currentOffset ?_)
  dsimp only
  refine Sat.bind (Sat.hasExt ?_)
  split
  · rename_i v hv; rw [hv]; exact Sat.pure rfl
  · rename_i d hd; rw [hd]
    refine Sat.bind (Sat.pushEv ?_)
    exact Sat.pure rfl
  · rename_i hn; rw [hn]
    refine Sat.bind (Sat.mono (sdat_textValue_fst _ _ _) ?_)
    rintro v s1 rfl
    exact Sat.pure rfl

/-! ### the data predicates, relative to a reference token list `T` (a block, or the token stream of the document) -/

/-- `sp` is the span of the token run `toks`: first start to last end; an empty run has an empty span -/
def TokSpanOf (sp : Span) (toks : List Tok) : Prop :=
  (toks ≠ [] → sp = tokensSpan toks) ∧ (toks = [] → sp.start = sp.stop)

/-- the located value is what `parse_value` reads from a run of adjacent tokens of `T` whose span is its span -/
def ValueAt (cs : CharSpec) (e : Ext) (T : List Tok) (v : Loc (Value α)) : Prop :=
  ∃ toks, toks <:+: T ∧ TokSpanOf v.span toks ∧
    v.val = readValue cs (e.has Gen.EXT_RANGE_VALUES) v.span.start toks

/-- the scaling lock is the span of an `=` token of `T` -/
def LockAt (T : List Tok) (sp : Span) : Prop := ∃ t, [t] <:+: T ∧ t.kind = .eq ∧ sp = ⟨t.start, t.stop⟩

def QValAt (cs : CharSpec) (e : Ext) (T : List Tok) (v : PQValue α) : Prop :=
  ValueAt cs e T v.value ∧ ∀ sp, v.lock = some sp → LockAt T sp

theorem sdat_slice_infix (ts : List Tok) (i j : Nat) : slice ts i j <:+: ts := by
  unfold slice
  exact (List.drop_suffix _ _).isInfix.trans (List.take_prefix _ _).isInfix

theorem sdat_tok_infix {ts : List Tok} {i : Nat} {t : Tok} (h : ts[i]? = some t) : [t] <:+: ts := by
  rw [← slice_one h]; exact sdat_slice_infix _ _ _

theorem sdat_spanOf (o : Nat) (vt : List Tok) :
    TokSpanOf ⟨(vt.head?.map (·.start)).getD (lastStop o vt), lastStop o vt⟩ vt := by
  constructor
  · intro hne
    cases vt with
    | nil => exact absurd rfl hne
    | cons t r =>
      unfold tokensSpan lastStop
      cases hl : (t :: r).getLast? with
      | none => simp at hl
      | some x => simp
  · intro h0; subst h0; rfl

theorem ValueAt.mono {cs : CharSpec} {e : Ext} {T T' : List Tok} {v : Loc (Value α)} (h : ValueAt cs e T v)
    (hi : T <:+: T') : ValueAt cs e T' v := by
  obtain ⟨toks, h1, h2, h3⟩ := h
  exact ⟨toks, h1.trans hi, h2, h3⟩

theorem LockAt.mono {T T' : List Tok} {sp : Span} (h : LockAt T sp) (hi : T <:+: T') : LockAt T' sp := by
  obtain ⟨t, h1, h2, h3⟩ := h
  exact ⟨t, h1.trans hi, h2, h3⟩

theorem QValAt.mono {cs : CharSpec} {e : Ext} {T T' : List Tok} {v : PQValue α} (h : QValAt cs e T v)
    (hi : T <:+: T') : QValAt cs e T' v :=
  ⟨h.1.mono hi, fun sp hsp => (h.2 sp hsp).mono hi⟩

variable {ts : List Tok} {e : Ext} {s : BP α}

/-- the conjunction of two facts about one run -/
theorem Sat.sdatBoth {β : Type} {m : P α β} {Q Q' : β → BP α → Prop} (h : Sat m s Q) (h' : Sat m s Q') :
    Sat m s (fun r s' => Q r s' ∧ Q' r s') := ⟨h, h'⟩

/-- the character tables are kept -/
theorem Sat.sdatCs {β : Type} {m : P α β} (hm : FG m) {Q : β → BP α → Prop} (h : Sat m s Q) :
    Sat m s (fun r s' => Q r s' ∧ s'.cs = s.cs) := ⟨h, (hm.out s).1⟩

theorem scalingLock_data (h : G ts e s) :
    Sat scalingLock s (fun r s' => G ts e s' ∧ s.cur ≤ s'.cur ∧ s'.cs = s.cs ∧ ∀ sp, r = some sp → LockAt ts sp) := by
  unfold scalingLock wsComments
  refine Sat.bind (Sat.mono (Sat.sdatCs (FQ.consumeWhile _).toFG (consumeWhile_sat _ h)) ?_)
  rintro r s1 ⟨⟨g1, c1, -⟩, cs1⟩
  refine Sat.bind (atK_sat g1 ?_)
  split
  · rename_i hc
    obtain ⟨t, ht, hk⟩ := atK_true hc
    refine Sat.bind (Sat.mono (Sat.sdatCs FQ.bumpAny.toFG (bumpAny_sat g1 ht)) ?_)
    rintro r2 s2 ⟨⟨rfl, g2, c2⟩, cs2⟩
    refine Sat.pure ⟨g2, by omega, cs2.trans cs1, ?_⟩
    intro sp hsp
    simp only [Option.some.injEq] at hsp
    exact ⟨r2, sdat_tok_infix ht, hk, hsp.symm⟩
  · exact Sat.pure ⟨g1, c1, cs1, fun sp hsp => by cases hsp⟩

theorem qvalue_data (h : G ts e s) : Sat (qvalue (α := α)) s (fun r _ => QValAt s.cs e ts r) := by
  unfold qvalue
  refine Sat.bind (Sat.mono (scalingLock_data h) ?_)
  rintro lock s1 ⟨g1, c1, cs1, hlock⟩
  refine Sat.bind (Sat.mono (Sat.sdatCs (FQ.consumeWhile _).toFG (consumeWhile_sat _ g1)) ?_)
  rintro vt s2 ⟨⟨g2, c2, hvt, -, -⟩, cs2⟩
  refine Sat.bind (Sat.mono (sdat_parseValue_fst vt s2) ?_)
  rintro v s3 rfl
  refine Sat.pure ⟨⟨vt, by rw [hvt]; exact sdat_slice_infix _ _ _, ?_, ?_⟩, hlock⟩
  · rw [g2.toks, ← offAt_slice c2, ← hvt]
    exact sdat_spanOf _ _
  · rw [g2.ext, cs2, cs1]

theorem parseRegularQuantity_data (hw : WF ts) (h : G ts e s) :
    Sat (parseRegularQuantity (α := α)) s (fun r _ => QValAt s.cs e ts r.quantity.val.value) := by
  unfold parseRegularQuantity
  refine Sat.bind (Sat.mono (Sat.sdatBoth (qvalue_sat hw h) (qvalue_data h)) ?_)
  rintro value s1 ⟨⟨g1, c1⟩, hval⟩
  apply Sat.bind
  apply Sat.mono (Q := fun _ s' => G ts e s')
  · refine Sat.bind (peekK_sat g1 ?_)
    split
    · rename_i hk
      obtain ⟨t, ht, -⟩ := peek_some hk
      refine Sat.bind (Sat.mono (bumpAny_sat g1 ht) ?_)
      rintro sep s2 ⟨rfl, g2, c2⟩
      refine Sat.bind (Sat.mono (consumeRest_sat g2) ?_)
      rintro ut s3 ⟨g3, c3, hut⟩
      have hr : RunAt sep.stop ut := by
        rw [hut, ← offAt_succ ht, ← c2]; exact slice_runAt hw.run g2.le
      refine Sat.bind (bpText_sat hr ?_)
      exact Sat.pure g3
    · exact Sat.pure g1
  · intro unit s2 g2
    refine Sat.bind (Sat.get ?_)
    dsimp only
    split
    · split
      · refine Sat.bind (Sat.pwarn ?_); intro evs
        refine Sat.bind (Sat.get ?_)
        refine Sat.bind (tokensSpanP_sat (by rw [(g2.setEvs evs).toks]; exact hw.ne) ?_)
        exact Sat.pure hval
      · refine Sat.bind (Sat.get ?_)
        refine Sat.bind (tokensSpanP_sat (by rw [g2.toks]; exact hw.ne) ?_)
        exact Sat.pure hval
    · refine Sat.bind (Sat.get ?_)
      refine Sat.bind (tokensSpanP_sat (by rw [g2.toks]; exact hw.ne) ?_)
      exact Sat.pure hval

theorem sdat_rtrim_infix (p : Tok → Bool) (l : List Tok) : (l.reverse.dropWhile p).reverse <:+: l := by
  obtain ⟨suf, hsuf⟩ := rtrim_prefix p l
  exact ⟨[], suf, by simpa using hsuf.symm⟩

theorem sdat_spanOf_ne {l : List Tok} (hne : l ≠ []) : TokSpanOf (tokensSpan l) l :=
  ⟨fun _ => rfl, fun h0 => absurd h0 hne⟩

theorem parseAdvancedQuantity_data (hw : WF ts) (h : G ts e s) :
    Sat (parseAdvancedQuantity (α := α)) s
      (fun r _ => ∀ pq, r = some pq → QValAt s.cs e ts pq.quantity.val.value) := by
  have none_ok : ∀ s' : BP α, Sat (pure none : P α (Option (ParsedQuantity α))) s'
      (fun r _ => ∀ pq, r = some pq → QValAt s.cs e ts pq.quantity.val.value) :=
    fun s' => Sat.pure (fun pq hpq => by cases hpq)
  unfold parseAdvancedQuantity
  refine Sat.bind (allToks_sat h ?_)
  dsimp only
  split
  · exact none_ok _
  refine Sat.bind (Sat.mono (scalingLock_data h) ?_)
  rintro lock s1 ⟨g1, c1, cs1, hlock⟩
  unfold wsComments
  refine Sat.bind (Sat.mono (consumeWhile_sat _ g1) ?_)
  rintro _ s2 ⟨g2, c2, -, -, hend2⟩
  refine Sat.bind (Sat.mono (consumeWhile_sat _ g2) ?_)
  rintro vt s3 ⟨g3, c3, hvt, -, -⟩
  split
  · exact none_ok _
  rename_i l hl
  split
  · exact none_ok _
  have hne : (vt.reverse.dropWhile (fun t => t.kind == .ws || t.kind == .blockComment)).reverse ≠ [] := by
    cases hv : vt with
    | nil => rw [hv] at hl; simp at hl
    | cons t rest =>
      rw [hv] at hvt
      have ht := hend2 t (slice_head hvt.symm)
      apply rtrim_ne_nil _ _ t (by simp)
      simp only [isWsComment, Bool.or_eq_false_iff] at ht
      simp [ht.1.1, ht.2]
  split
  · rename_i hemp
    exfalso; apply hne
    simpa using hemp
  refine Sat.bind (Sat.mono (consumeRest_sat g3) ?_)
  rintro ut s5 ⟨g5, c5, hut⟩
  split
  · exact none_ok _
  try dsimp only
  refine Sat.bind (hasExt_sat g5 ?_)
  split
  · exact none_ok _
  rename_i r hr
  have hrun : RunAt (offAt ts s3.cur) ut := by rw [hut]; exact slice_runAt hw.run g3.le
  have hinf : (vt.reverse.dropWhile (fun t => t.kind == .ws || t.kind == .blockComment)).reverse <:+: ts :=
    (sdat_rtrim_infix _ vt).trans (by rw [hvt]; exact sdat_slice_infix _ _ _)
  apply Sat.bind
  apply Sat.mono (Q := fun v s' => G ts e s' ∧
    v = readValue s.cs (e.has Gen.EXT_RANGE_VALUES)
      (tokensSpan (vt.reverse.dropWhile (fun t => t.kind == .ws || t.kind == .blockComment)).reverse).start
      (vt.reverse.dropWhile (fun t => t.kind == .ws || t.kind == .blockComment)).reverse)
  · unfold readValue
    rw [hr]
    split
    · exact Sat.pure ⟨g5, rfl⟩
    · refine Sat.bind (Sat.pushEv ?_)
      exact Sat.pure ⟨g5.setEvs _, rfl⟩
  rintro v s6 ⟨g6, hv⟩
  refine Sat.bind (bpText_sat (hrun.headStart 0) ?_)
  refine Sat.bind (tokensSpanP_sat hw.ne ?_)
  refine Sat.pure ?_
  intro pq hpq
  simp only [Option.some.injEq] at hpq
  subst hpq
  exact ⟨⟨_, hinf, sdat_spanOf_ne hne, hv⟩, hlock⟩

/-- `parse_quantity`: the value of the returned quantity is read from tokens of `q`, the tokens between the braces -/
theorem parseQuantity_data {q : List Tok} (hq : WF q) (h : G ts e s) :
    Sat (parseQuantity (α := α) q) s (fun r _ => QValAt s.cs e q r.quantity.val.value) := by
  unfold parseQuantity
  have hne : q.isEmpty = false := by
    have := hq.ne
    cases q <;> simp_all
  simp only [hne, Bool.false_eq_true, if_false]
  refine Sat.bind (Sat.get ?_)
  refine Sat.bind (Sat.set ?_)
  have g0 : G q e ({ s with toks := q, cur := 0 } : BP α) := ⟨rfl, h.ext, h.panic, Nat.zero_le _⟩
  apply Sat.bind
  apply Sat.mono (Q := fun r s' => G q e s' ∧ s'.cs = s.cs ∧
    ∀ pq, r = some pq → QValAt s.cs e q pq.quantity.val.value)
  · refine Sat.bind (hasExt_sat g0 ?_)
    split
    · apply withRecover_sat
      refine Sat.mono (Sat.sdatBoth (Sat.sdatCs FG.parseAdvancedQuantity (parseAdvancedQuantity_sat hq g0))
        (parseAdvancedQuantity_data hq g0)) ?_
      rintro r s1 ⟨⟨g1, cs1⟩, hd⟩
      cases r with
      | none => exact ⟨g1.setCur (Nat.zero_le _), cs1, fun pq hpq => by cases hpq⟩
      | some b => exact ⟨g1, cs1, hd⟩
    · exact Sat.pure ⟨g0, rfl, fun pq hpq => by cases hpq⟩
  rintro adv s1 ⟨g1, cs1, hadv⟩
  apply Sat.bind
  apply Sat.mono (Q := fun r _ => QValAt s.cs e q r.quantity.val.value)
  · split
    · rename_i pq
      exact Sat.pure (hadv pq rfl)
    · have := parseRegularQuantity_data hq g1
      rw [cs1] at this
      exact this
  intro r s2 hr
  refine Sat.bind (Sat.modify ?_)
  exact Sat.pure hr

/-! ### intermediate references -/

/-- the shape test of `parse_intermediate_ref_data` on the significant tokens between the parentheses:
    the number token, "relative" (`~`), "section" (`=`) -/
def interRefShape (f : List Tok) : Option (Tok × Bool × Bool) :=
  match f with
  | [i] => if i.kind == .int then some (i, false, false) else none
  | [a, i] =>
    if a.kind == .tilde && i.kind == .int then some (i, true, false)
    else if a.kind == .eq && i.kind == .int then some (i, false, true) else none
  | [a, b, i] => if a.kind == .eq && b.kind == .tilde && i.kind == .int then some (i, true, true) else none
  | _ => none

/-- the reading of a parenthesised group `( … )`: white space and block comments between the parentheses are
    skipped; what remains must be `n`, `~n`, `=n` or `=~n` with `n` an `int` token that fits `i16` -/
def readInterRef (grp : List Tok) : Option InterData :=
  match interRefShape (((grp.drop 1).take (grp.length - 2)).filter
      (fun t => !(t.kind == .ws || t.kind == .blockComment))) with
  | some (i, rel, sec) => if digitsToNat i.text ≤ 32767 then some ⟨rel, sec, digitsToNat i.text⟩ else none
  | none => none

/-- the remaining modifier tokens after an optional group -/
def interRefRest (toks : List Tok) : List Tok :=
  match toks with
  | [] => []
  | t0 :: _ =>
    if t0.kind != .openParen then toks else
    match toks.findIdx? (fun t => t.kind == .closeParen) with
    | none => []
    | some endPos => toks.drop (endPos + 1)

theorem Sat.tokensSpanPAny {site : String} {l : List Tok} {Q : Span → BP α → Prop}
    (h : ∀ s' : BP α, Q (tokensSpan l) s') : Sat (tokensSpanP (α := α) site l) s Q := by
  unfold tokensSpanP
  by_cases hl : l.isEmpty = true
  · simp only [hl, if_true]
    refine Sat.bind (Sat.modify ?_)
    exact Sat.pure (h _)
  · simp only [hl]
    exact Sat.pure (h _)

/-- `parse_intermediate_ref_data` returns the reading of the group at the head of its tokens -/
theorem parseInterRef_data (toks : List Tok) :
    Sat (parseInterRef (α := α) toks) s (fun r _ => r.2 = interRefRest toks ∧
      ∀ d, r.1 = some d → (toks.head?.map (·.kind)) = some .openParen ∧
        ∃ endPos, toks.findIdx? (fun t => t.kind == .closeParen) = some endPos ∧
        d.span = tokensSpan (toks.take (endPos + 1)) ∧ readInterRef (toks.take (endPos + 1)) = some d.val) := by
  cases toks with
  | nil => unfold parseInterRef; exact Sat.pure ⟨rfl, fun d hd => by cases hd⟩
  | cons t0 tail =>
  by_cases hk : (t0.kind != .openParen) = true
  · have hr : interRefRest (t0 :: tail) = t0 :: tail := by simp only [interRefRest, hk, if_true]
    rw [hr]
    unfold parseInterRef
    simp only [hk, if_true]
    exact Sat.pure ⟨rfl, fun d hd => by cases hd⟩
  cases hpos : (t0 :: tail).findIdx? (fun t => t.kind == .closeParen) with
  | none =>
    have hr : interRefRest (t0 :: tail) = [] := by simp only [interRefRest, hk, hpos]; rfl
    rw [hr]
    unfold parseInterRef
    simp only [hk, hpos]
    refine Sat.bind (Sat.modify ?_)
    exact Sat.pure ⟨rfl, fun d hd => by cases hd⟩
  | some pos =>
  have hr : interRefRest (t0 :: tail) = (t0 :: tail).drop (pos + 1) := by simp only [interRefRest, hk, hpos]; rfl
  rw [hr]
  have fin : ∀ (s' : BP α), Sat (pure (none, List.drop (pos + 1) (t0 :: tail)) : P α (Option (Loc InterData) × List Tok)) s'
      (fun r _ => r.2 = List.drop (pos + 1) (t0 :: tail) ∧
        ∀ d, r.1 = some d → ((t0 :: tail).head?.map (·.kind)) = some .openParen ∧ ∃ endPos, some pos = some endPos ∧
          d.span = tokensSpan ((t0 :: tail).take (endPos + 1)) ∧ readInterRef ((t0 :: tail).take (endPos + 1)) = some d.val) :=
    fun s' => Sat.pure ⟨rfl, fun d hd => by cases hd⟩
  unfold parseInterRef
  simp only [hk, hpos, Bool.false_eq_true, if_false]
  generalize hf : List.filter (fun t => !(t.kind == TK.ws || t.kind == TK.blockComment))
      (List.take ((List.take (pos + 1) (t0 :: tail)).length - 2) (List.drop 1 (List.take (pos + 1) (t0 :: tail)))) = f
  split
  · rename_i i rel sec hshape
    split
    · rename_i hn
      refine Sat.pure ⟨rfl, ?_⟩
      intro d hd
      simp only [Option.some.injEq] at hd
      subst hd
      refine ⟨by simpa using hk, pos, rfl, rfl, ?_⟩
      unfold readInterRef
      simp only [hf]
      have : interRefShape f = some (i, rel, sec) := hshape
      rw [this]
      simp only [hn, if_true]
    · refine Sat.bind (Sat.perrE ?_)
      exact fin _
  · split
    · refine Sat.bind (Sat.perrE ?_)
      exact fin _
    · split
      · refine Sat.bind (Sat.perrE ?_)
        exact fin _
      · split
        · refine Sat.bind (Sat.perrE ?_)
          exact fin _
        · refine Sat.bind (Sat.tokensSpanPAny ?_)
          intro s'
          refine Sat.bind (Sat.perrE ?_)
          exact fin _

/-! ### modifiers -/

/-- the modifier tokens outside the parenthesised groups (`inside`: a group is open) -/
def modTop : Bool → List Tok → List Tok
  | _, [] => []
  | false, t :: r => if t.kind == .openParen then modTop true r else t :: modTop false r
  | true, t :: r => if t.kind == .closeParen then modTop false r else modTop true r

def modInsert (m : Modifiers) (t : Tok) : Modifiers := m.insert ((modifierFlag t.kind).getD 0)

/-- the bit set read from a run of modifier tokens: the flags of `@ & ? + -` outside the groups -/
def readModifiers (mtoks : List Tok) : Modifiers := (modTop false mtoks).foldl modInsert Modifiers.empty

/-- the located reference data is the reading of a group `( … )` of adjacent tokens of `T` whose span is its span -/
def InterAt (T : List Tok) (d : Loc InterData) : Prop :=
  ∃ grp, grp <:+: T ∧ grp ≠ [] ∧ d.span = tokensSpan grp ∧ readInterRef grp = some d.val

theorem InterAt.mono {T T' : List Tok} {d : Loc InterData} (h : InterAt T d) (hi : T <:+: T') : InterAt T' d := by
  obtain ⟨g, h1, h2, h3, h4⟩ := h
  exact ⟨g, h1.trans hi, h2, h3, h4⟩

theorem sdat_or_of_and (a f : Nat) (h : a &&& f = f) : a ||| f = a := by
  apply Nat.eq_of_testBit_eq
  intro i
  have := congrArg (fun x => x.testBit i) h
  simp only [Nat.testBit_and] at this
  rw [Nat.testBit_or]
  cases ha : a.testBit i <;> cases hf : f.testBit i <;> simp_all

theorem sdat_insert_of_contains (m : Modifiers) (f : Nat) (h : m.contains f = true) : m.insert f = m := by
  unfold Modifiers.contains at h
  unfold Modifiers.insert
  rw [sdat_or_of_and _ _ (by simpa using h)]

theorem modTop_true_skip (mid rest : List Tok) (c : Tok) (hmid : ∀ t ∈ mid, (t.kind == .closeParen) = false)
    (hc : c.kind = .closeParen) : modTop true (mid ++ c :: rest) = modTop false rest := by
  induction mid with
  | nil => simp [modTop, hc]
  | cons x xs ih =>
    have hx := hmid x (by simp)
    simp only [List.cons_append, modTop, hx, Bool.false_eq_true, if_false]
    exact ih (fun t ht => hmid t (by simp [ht]))

theorem parseModifiersLoop_data (span : Span) (ie : Bool) (fuel : Nat) (mtoks : List Tok) (m : Modifiers)
    (d : Option (Loc InterData)) (hm : ModSeq ie mtoks) (hfuel : mtoks.length ≤ fuel) :
    Sat (parseModifiersLoop (α := α) span ie fuel mtoks m d) s (fun r _ =>
      r.1 = (modTop false mtoks).foldl modInsert m ∧ ∀ x, r.2 = some x → d = some x ∨ InterAt mtoks x) := by
  induction fuel generalizing mtoks m d s with
  | zero =>
    have : mtoks = [] := List.length_eq_zero_iff.mp (by omega)
    subst this
    unfold parseModifiersLoop
    exact Sat.pure ⟨rfl, fun x hx => Or.inl hx⟩
  | succ fuel ih =>
    cases mtoks with
    | nil =>
      unfold parseModifiersLoop
      exact Sat.pure ⟨rfl, fun x hx => Or.inl hx⟩
    | cons tok rest =>
      unfold parseModifiersLoop
      have hflag := hm.head_flag
      obtain ⟨f, hf⟩ := Option.isSome_iff_exists.mp hflag
      have hnop : (tok.kind == .openParen) = false := by
        cases hk : tok.kind <;> simp_all [modifierFlag]
      simp only [hf]
      refine Sat.bind (Sat.pure ?_)
      have tail : ∀ (s1 : BP α) (rest' : List Tok) (d' : Option (Loc InterData)), ModSeq ie rest' →
          rest'.length ≤ fuel → rest' <:+ (tok :: rest) → modTop false (tok :: rest) = tok :: modTop false rest' →
          (∀ x, d' = some x → d = some x ∨ InterAt (tok :: rest) x) →
          Sat (if (decide (f ≠ 0) && m.contains f) = true then do
                perr "duplicate-modifier" [span]
                parseModifiersLoop (α := α) span ie fuel rest' m d'
              else parseModifiersLoop span ie fuel rest' (m.insert f) d') s1
            (fun r _ => r.1 = (modTop false (tok :: rest)).foldl modInsert m ∧
              ∀ x, r.2 = some x → d = some x ∨ InterAt (tok :: rest) x) := by
        intro s1 rest' d' hm' hlen hsuf htop hd'
        have hfin : ∀ (m' : Modifiers) (s2 : BP α), m' = modInsert m tok →
            Sat (parseModifiersLoop (α := α) span ie fuel rest' m' d') s2
              (fun r _ => r.1 = (modTop false (tok :: rest)).foldl modInsert m ∧
                ∀ x, r.2 = some x → d = some x ∨ InterAt (tok :: rest) x) := by
          intro m' s2 hm2
          refine Sat.mono (ih rest' m' d' hm' hlen) ?_
          rintro r s3 ⟨h1, h2⟩
          refine ⟨by rw [h1, htop, List.foldl_cons, hm2], ?_⟩
          intro x hx
          rcases h2 x hx with h3 | h3
          · exact hd' x h3
          · exact Or.inr (h3.mono hsuf.isInfix)
        have hins : modInsert m tok = m.insert f := by unfold modInsert; rw [hf]; rfl
        split
        · rename_i hdup
          simp only [Bool.and_eq_true] at hdup
          refine Sat.bind (Sat.perrE ?_)
          exact hfin _ _ (by rw [hins, sdat_insert_of_contains m f hdup.2])
        · exact hfin _ _ hins.symm
      try dsimp only
      split
      · rename_i hcnd
        simp only [Bool.and_eq_true] at hcnd
        have hie : ie = true := hcnd.2
        subst hie
        refine Sat.bind (Sat.mono (parseInterRef_data rest) ?_)
        rintro r s1 ⟨hr2, hr1⟩
        cases hm with
        | tok _ _ _ hrest =>
          have hhead : (rest.head?.map (·.kind)) ≠ some .openParen := by
            cases rest with
            | nil => simp
            | cons x l =>
              have := hrest.head_flag
              intro h0
              simp only [List.head?_cons, Option.map_some, Option.some.injEq] at h0
              rw [h0, modifierFlag_openParen] at this; cases this
          have hrr : interRefRest rest = rest := by
            cases rest with
            | nil => rfl
            | cons x l =>
              have : (x.kind != .openParen) = true := by
                simp only [List.head?_cons, Option.map_some, ne_eq, Option.some.injEq] at hhead
                simpa using hhead
              simp only [interRefRest, this, if_true]
          rw [hr2, hrr]
          refine tail s1 rest r.1 hrest (by simpa using hfuel) (List.suffix_cons _ _) ?_ ?_
          · simp only [modTop, hnop, Bool.false_eq_true, if_false]
          · intro x hx
            exact absurd (hr1 x hx).1 hhead
        | ref _ o c mid rest' _ ha ho hmid hcl hrest =>
          have hfind := findIdx_ref (fun t => t.kind == .closeParen) o c mid rest'
            (by simp [ho]) hmid (by simp [hcl])
          have hdrop : List.drop (mid.length + 1 + 1) (o :: (mid ++ c :: rest')) = rest' := by
            simp [List.drop_append]
          have htake : List.take (mid.length + 1 + 1) (o :: (mid ++ c :: rest')) = o :: (mid ++ [c]) := by
            have h1 : List.take (mid.length + 1) mid = mid := List.take_of_length_le (by omega)
            simp [List.take_append, h1]
          have hrr : interRefRest (o :: (mid ++ c :: rest')) = rest' := by
            have hk : (o.kind != .openParen) = false := by simp [ho]
            simp only [interRefRest, hk, hfind, Bool.false_eq_true, if_false]
            exact hdrop
          rw [hr2, hrr]
          refine tail s1 rest' r.1 hrest ?_ ?_ ?_ ?_
          · simp only [List.length_cons, List.length_append] at hfuel; omega
          · exact ⟨tok :: o :: (mid ++ [c]), by simp⟩
          · have ho' : (o.kind == .openParen) = true := by simp [ho]
            simp only [modTop, hnop, ho', Bool.false_eq_true, if_false, if_true]
            rw [modTop_true_skip mid rest' c hmid hcl]
          · intro x hx
            obtain ⟨-, endPos, h1, h2, h3⟩ := hr1 x hx
            rw [hfind] at h1
            simp only [Option.some.injEq] at h1
            subst h1
            rw [htake] at h2 h3
            refine Or.inr ⟨o :: (mid ++ [c]), ?_, by simp, h2, h3⟩
            exact ⟨[tok], rest', by simp⟩
      · rename_i hcnd
        refine tail s rest d ?_ (by simpa using hfuel) (List.suffix_cons _ _) ?_ (fun x hx => Or.inl hx)
        · cases hm with
          | tok _ _ _ hrest => exact hrest
          | ref _ o c mid rest' hi ha _ _ _ _ =>
            exfalso; apply hcnd; simp [ha, hi]
        · simp only [modTop, hnop, Bool.false_eq_true, if_false]

/-- the located modifier set is the reading of a run of adjacent tokens of `T` whose span is its span -/
def ModsAt (T : List Tok) (m : Loc Modifiers) : Prop :=
  ∃ mtoks, mtoks <:+: T ∧ TokSpanOf m.span mtoks ∧ m.val = readModifiers mtoks

theorem ModsAt.mono {T T' : List Tok} {m : Loc Modifiers} (h : ModsAt T m) (hi : T <:+: T') : ModsAt T' m := by
  obtain ⟨g, h1, h2, h3⟩ := h
  exact ⟨g, h1.trans hi, h2, h3⟩

theorem parseModifiers_data (mtoks : List Tok) (pos : Nat) (h : G ts e s)
    (hm : ModSeq (e.has Gen.EXT_INTERMEDIATE_PREPARATIONS) mtoks) :
    Sat (parseModifiers (α := α) mtoks pos) s (fun r _ => TokSpanOf r.flags.span mtoks ∧
      r.flags.val = readModifiers mtoks ∧ ∀ x, r.inter = some x → InterAt mtoks x) := by
  unfold parseModifiers
  split
  · rename_i hemp
    have : mtoks = [] := by cases mtoks <;> simp_all
    subst this
    exact Sat.pure ⟨⟨fun h0 => absurd rfl h0, fun _ => rfl⟩, rfl, fun x hx => by cases hx⟩
  rename_i hne
  have hne' : mtoks ≠ [] := by intro h0; apply hne; rw [h0]; rfl
  dsimp only
  refine Sat.bind (hasExt_sat h ?_)
  refine Sat.bind (Sat.mono (parseModifiersLoop_data _ _ _ mtoks _ _ hm (Nat.le_succ _)) ?_)
  rintro r s1 ⟨h1, h2⟩
  refine Sat.pure ⟨sdat_spanOf_ne hne', h1, ?_⟩
  intro x hx
  rcases h2 x hx with h3 | h3
  · cases h3
  · exact h3

/-- the quantity tokens of a parsed component body are adjacent tokens of the block -/
theorem compBody_qinfix (h : G ts e s) :
    Sat (compBody (α := α)) s (fun r _ => ∀ b q, r = some b → b.quantity = some q → q <:+: ts) := by
  have none_ok : ∀ s' : BP α, Sat (pure none : P α (Option Body)) s'
      (fun r _ => ∀ b q, r = some b → b.quantity = some q → q <:+: ts) :=
    fun s' => Sat.pure (fun b q hb => by cases hb)
  have hlong : Sat (compBodyLong (α := α)) s (fun r s' => G ts e s' ∧
      ∀ b q, r = some b → b.quantity = some q → q <:+: ts) := by
    unfold compBodyLong
    apply withRecover_sat
    refine Sat.bind (Sat.mono (untilK_sat _ h) ?_)
    rintro r1 s1 ⟨g1, h1⟩
    cases r1 with
    | none => exact Sat.pure ⟨g1.setCur h.le, fun b q hb => by cases hb⟩
    | some name =>
      obtain ⟨c1, hname, -, -⟩ := h1
      refine Sat.bind (Sat.mono (consumeK_sat _ g1) ?_)
      rintro r2 s2 ⟨g2, h2⟩
      cases r2 with
      | none => exact Sat.pure ⟨g2.setCur h.le, fun b q hb => by cases hb⟩
      | some ob =>
        obtain ⟨hob, -, c2⟩ := h2
        refine Sat.bind (Sat.mono (untilK_sat _ g2) ?_)
        rintro r3 s3 ⟨g3, h3⟩
        cases r3 with
        | none => exact Sat.pure ⟨g3.setCur h.le, fun b q hb => by cases hb⟩
        | some q =>
          obtain ⟨c3, hq, ⟨t, ht, hk⟩, -⟩ := h3
          refine Sat.bind (Sat.mono (bump_sat g3 ht (by simpa using hk)) ?_)
          rintro cb s4 ⟨rfl, g4, c4⟩
          refine Sat.pure ⟨g4, ?_⟩
          intro b q' hb hq'
          simp only [Option.some.injEq] at hb
          subst hb
          dsimp only at hq'
          split at hq'
          · simp only [Option.some.injEq] at hq'
            subst hq'
            rw [hq]; exact sdat_slice_infix _ _ _
          · cases hq'
  unfold compBody
  refine Sat.bind (Sat.mono hlong ?_)
  rintro r s1 ⟨g1, h1⟩
  cases r with
  | some b => exact Sat.pure h1
  | none =>
    dsimp only
    unfold compBodyShort
    apply withRecover_sat
    refine Sat.bind (Sat.mono (consumeWhile_sat _ g1) ?_)
    rintro toks s2 ⟨g2, c2, htoks, -, -⟩
    split
    · refine Sat.bind (restToks_sat g2 ?_)
      refine Sat.bind (atK_sat g2 ?_)
      split
      · refine Sat.bind (currentOffset_sat g2 ?_)
        refine Sat.bind (Sat.pwarnE ?_)
        exact Sat.pure (fun b q hb => by cases hb)
      · exact Sat.pure (fun b q hb => by cases hb)
    · refine Sat.pure ?_
      intro b q hb hq
      simp only [Option.some.injEq] at hb
      subst hb
      cases hq

/-! ### the three component parsers -/

variable {off : Nat} {w : List Char} {Pv : Array (Ev α) → Prop} {ts : List Tok} {e : Ext} {s : BP α}

/-- the derived data of an event are read from adjacent tokens of `T` at their spans; the recovered quantity of a
    timer (documented span `(0, 0)`, value 1, emitted with an error) is the one exception -/
def EvDataAt (cs : CharSpec) (e : Ext) (T : List Tok) : Ev α → Prop
  | .ingredient i => ModsAt T i.val.modifiers ∧ OptOK (InterAt T) i.val.inter ∧
      OptOK (fun q : Loc (PQuantity α) => QValAt cs e T q.val.value) i.val.quantity
  | .cookware c => ModsAt T c.val.modifiers ∧ OptOK (fun q : Loc (PQValue α) => QValAt cs e T q.val) c.val.quantity
  | .timer t => OptOK (fun q : Loc (PQuantity α) => QValAt cs e T q.val.value ∨ q = recoverPQuantity) t.val.quantity
  | _ => True

theorem sdat_optOK_of_forall {β : Type} {p : β → Prop} {o : Option β} (h : ∀ x, o = some x → p x) : OptOK p o := by
  cases o with
  | none => trivial
  | some x => exact h x rfl

theorem ingredientP_data (hc : Ctx off w Pv ts) (h : GE Pv ts e s) :
    Sat (ingredientP (α := α)) s (fun r s' => s'.cs = s.cs ∧ ∀ ev, r = some ev → EvDataAt s.cs e ts ev) := by
  have none_ok : ∀ s' : BP α, s'.cs = s.cs → Sat (pure none : P α (Option (Ev α))) s'
      (fun r s' => s'.cs = s.cs ∧ ∀ ev, r = some ev → EvDataAt s.cs e ts ev) :=
    fun s' hs' => Sat.pure ⟨hs', fun ev hev => by cases hev⟩
  unfold ingredientP
  refine Sat.bind (currentOffset_sat h.g ?_)
  refine Sat.bind (Sat.mono (Sat.sdatCs (FQ.consumeK _).toFG (consumeK_ge _ h)) ?_)
  rintro r1 s1 ⟨⟨g1, h1⟩, cs1⟩
  cases r1 with
  | none => exact none_ok _ cs1
  | some m =>
    obtain ⟨-, -, c1⟩ := h1
    refine Sat.bind (currentOffset_sat g1.g ?_)
    refine Sat.bind (Sat.mono (Sat.sdatCs FQ.modifiersP.toFG (modifiersP_ev g1)) ?_)
    rintro mtoks s2 ⟨⟨g2, c2, hm, hmt⟩, cs2⟩
    have hrm : RunIn off w (offAt ts s1.cur) mtoks := by rw [hmt]; exact hc.wfi.slice c2
    refine Sat.bind (currentOffset_sat g2.g ?_)
    refine Sat.bind (Sat.mono (Sat.sdatBoth (Sat.sdatCs FG.compBody (compBody_ev hc g2)) (compBody_qinfix g2.g)) ?_)
    rintro r3 s3 ⟨⟨⟨g3, h3⟩, cs3⟩, hqi⟩
    cases r3 with
    | none => exact none_ok _ (by rw [cs3, cs2, cs1])
    | some body =>
      obtain ⟨c3, hname, hq, -⟩ := h3
      refine Sat.bind (Sat.mono (Sat.sdatCs FQ.noteP.toFG (noteP_ev hc g3)) ?_)
      rintro note s4 ⟨⟨g4, c4, hnote⟩, cs4⟩
      refine Sat.bind (currentOffset_sat g4.g ?_)
      refine Sat.bind (Sat.mono (Sat.sdatCs (FG.parseAlias _ _ _) (parseAlias_ev hc "ingredient" hname g4)) ?_)
      rintro ⟨name, alias⟩ s5 ⟨⟨g5, c5, hnm, hal⟩, cs5⟩
      dsimp only at hnm hal ⊢
      refine Sat.bind (Sat.mono (Sat.sdatCs (FG.checkEmptyName _ _) (checkEmptyName_ev hc "ingredient" name hnm g5)) ?_)
      rintro _ s6 ⟨⟨g6, c6⟩, cs6⟩
      refine Sat.bind (Sat.mono (Sat.sdatBoth (Sat.sdatCs (FG.parseModifiers _ _)
        (parseModifiers_ev hc mtoks _ g6 hm hrm (hc.wfi.offAt _))) (parseModifiers_data mtoks _ g6.g hm)) ?_)
      rintro pm s7 ⟨⟨⟨g7, c7, -, hfsp, hint⟩, cs7⟩, hsp, hbits, hinter⟩
      have hcs7 : s7.cs = s.cs := by rw [cs7, cs6, cs5, cs4, cs3, cs2, cs1]
      have hmi : mtoks <:+: ts := by rw [hmt]; exact sdat_slice_infix _ _ _
      apply Sat.bind
      apply Sat.mono (Q := fun r s' => s'.cs = s.cs ∧
        OptOK (fun q : Loc (PQuantity α) => QValAt s.cs e ts q.val.value) r)
      · split
        · rename_i qt hqt
          refine Sat.bind (Sat.mono (Sat.sdatCs (FG.parseQuantity _) (parseQuantity_data (hq qt hqt).wf g7.g)) ?_)
          rintro q s8 ⟨hqd, cs8⟩
          rw [hcs7] at hqd
          exact Sat.pure ⟨by rw [cs8, hcs7], hqd.mono (hqi body qt rfl hqt)⟩
        · exact Sat.pure ⟨hcs7, trivial⟩
      rintro quantity s8 ⟨hcs8, hqo⟩
      refine Sat.pure ⟨hcs8, ?_⟩
      intro ev hev
      simp only [Option.some.injEq] at hev
      subst hev
      refine ⟨⟨mtoks, hmi, hsp, hbits⟩, ?_, hqo⟩
      exact sdat_optOK_of_forall (fun x hx => (hinter x hx).mono hmi)

theorem cookwareP_data (hc : Ctx off w Pv ts) (h : GE Pv ts e s) :
    Sat (cookwareP (α := α)) s (fun r s' => s'.cs = s.cs ∧ ∀ ev, r = some ev → EvDataAt s.cs e ts ev) := by
  have none_ok : ∀ s' : BP α, s'.cs = s.cs → Sat (pure none : P α (Option (Ev α))) s'
      (fun r s' => s'.cs = s.cs ∧ ∀ ev, r = some ev → EvDataAt s.cs e ts ev) :=
    fun s' hs' => Sat.pure ⟨hs', fun ev hev => by cases hev⟩
  unfold cookwareP
  refine Sat.bind (currentOffset_sat h.g ?_)
  refine Sat.bind (Sat.mono (Sat.sdatCs (FQ.consumeK _).toFG (consumeK_ge _ h)) ?_)
  rintro r1 s1 ⟨⟨g1, h1⟩, cs1⟩
  cases r1 with
  | none => exact none_ok _ cs1
  | some m =>
    obtain ⟨-, -, c1⟩ := h1
    refine Sat.bind (currentOffset_sat g1.g ?_)
    refine Sat.bind (Sat.mono (Sat.sdatCs FQ.modifiersP.toFG (modifiersP_ev g1)) ?_)
    rintro mtoks s2 ⟨⟨g2, c2, hm, hmt⟩, cs2⟩
    have hrm : RunIn off w (offAt ts s1.cur) mtoks := by rw [hmt]; exact hc.wfi.slice c2
    refine Sat.bind (currentOffset_sat g2.g ?_)
    refine Sat.bind (Sat.mono (Sat.sdatBoth (Sat.sdatCs FG.compBody (compBody_ev hc g2)) (compBody_qinfix g2.g)) ?_)
    rintro r3 s3 ⟨⟨⟨g3, h3⟩, cs3⟩, hqi⟩
    cases r3 with
    | none => exact none_ok _ (by rw [cs3, cs2, cs1])
    | some body =>
      obtain ⟨c3, hname, hq, -⟩ := h3
      refine Sat.bind (Sat.mono (Sat.sdatCs FQ.noteP.toFG (noteP_ev hc g3)) ?_)
      rintro note s4 ⟨⟨g4, c4, hnote⟩, cs4⟩
      refine Sat.bind (currentOffset_sat g4.g ?_)
      refine Sat.bind (Sat.mono (Sat.sdatCs (FG.parseAlias _ _ _) (parseAlias_ev hc "cookware" hname g4)) ?_)
      rintro ⟨name, alias⟩ s5 ⟨⟨g5, c5, hnm, hal⟩, cs5⟩
      dsimp only at hnm hal ⊢
      refine Sat.bind (Sat.mono (Sat.sdatCs (FG.checkEmptyName _ _) (checkEmptyName_ev hc "cookware" name hnm g5)) ?_)
      rintro _ s6 ⟨⟨g6, c6⟩, cs6⟩
      have hcs6 : s6.cs = s.cs := by rw [cs6, cs5, cs4, cs3, cs2, cs1]
      have hmi : mtoks <:+: ts := by rw [hmt]; exact sdat_slice_infix _ _ _
      apply Sat.bind
      apply Sat.mono (Q := fun r s' => GE Pv ts e s' ∧ s'.cur = s6.cur ∧ s'.cs = s.cs ∧
        OptOK (fun q : Loc (PQValue α) => QValAt s.cs e ts q.val) r)
      · split
        · rename_i qt hqt
          refine Sat.bind (Sat.mono (Sat.sdatBoth (Sat.sdatCs (FG.parseQuantity _) (parseQuantity_ev hc (hq qt hqt) g6))
            (parseQuantity_data (hq qt hqt).wf g6.g)) ?_)
          rintro q s7 ⟨⟨⟨g7, c7, hqr⟩, cs7⟩, hqd⟩
          rw [hcs6] at hqd
          have hcs7 : s7.cs = s.cs := by rw [cs7, hcs6]
          have hqd' := hqd.mono (hqi body qt rfl hqt)
          split
          · rename_i unit hunit
            have hut : TextOK off w unit := by
              have := hqr.1.2.2
              rw [hunit] at this; exact this
            refine Sat.bind (Sat.perrE ?_)
            refine Sat.pure ⟨g7.err hc (one_label ?_), c7, hcs7, hqd'⟩
            split
            · rename_i sep hsep
              have hs : SpanOK off w sep := by
                have := hqr.2.1
                rw [hsep] at this; exact this
              exact ⟨hs.1, hut.1.2.1, hqr.2.2 sep unit hsep hunit⟩
            · exact hut.1
          · exact Sat.pure ⟨g7, c7, hcs7, hqd'⟩
        · exact Sat.pure ⟨g6, rfl, hcs6, trivial⟩
      rintro quantity s7 ⟨g7, c7, hcs7, hqo⟩
      refine Sat.bind (Sat.mono (Sat.sdatCs (FG.parseModifiers _ _) (parseModifiers_data mtoks _ g7.g hm)) ?_)
      rintro pm s8 ⟨⟨hsp, hbits, hinter⟩, cs8⟩
      have hcs8 : s8.cs = s.cs := by rw [cs8, hcs7]
      have fin : ∀ s9 : BP α, s9.cs = s.cs →
          Sat (pure (some (Ev.cookware ⟨⟨pm.flags, name, alias, quantity, note⟩,
              ⟨offAt ts s.cur, offAt ts s4.cur⟩⟩)) : P α (Option (Ev α))) s9
            (fun r s' => s'.cs = s.cs ∧ ∀ ev, r = some ev → EvDataAt s.cs e ts ev) := by
        intro s9 hcs9
        refine Sat.pure ⟨hcs9, ?_⟩
        intro ev hev
        simp only [Option.some.injEq] at hev
        subst hev
        exact ⟨⟨mtoks, hmi, hsp, hbits⟩, hqo⟩
      have hrcp : ∀ s9 : BP α, s9.cs = s.cs →
          Sat (do
            if pm.flags.val.contains Modifiers.RECIPE then
              match mtoks.find? (fun t => t.kind == .at) with
              | some t => perr "cookware-recipe-modifier" [⟨t.start, t.stop⟩]
              | none => panicWith "no recipe token in modifiers with recipe"
            return some (Ev.cookware ⟨⟨pm.flags, name, alias, quantity, note⟩,
              ⟨offAt ts s.cur, offAt ts s4.cur⟩⟩) : P α (Option (Ev α))) s9
            (fun r s' => s'.cs = s.cs ∧ ∀ ev, r = some ev → EvDataAt s.cs e ts ev) := by
        intro s9 hcs9
        split
        · split
          · refine Sat.bind (Sat.perrE ?_)
            exact fin _ hcs9
          · refine Sat.bind (Sat.modify ?_)
            refine fin _ ?_
            split
            · exact hcs9
            · exact hcs9
        · exact Sat.bind (Sat.pure (fin _ hcs9))
      split
      · refine Sat.bind (Sat.perrE ?_)
        exact hrcp _ hcs8
      · exact Sat.bind (Sat.pure (hrcp _ hcs8))

theorem timerP_data (hc : Ctx off w Pv ts) (h : GE Pv ts e s) :
    Sat (timerP (α := α)) s (fun r s' => s'.cs = s.cs ∧ ∀ ev, r = some ev → EvDataAt s.cs e ts ev) := by
  have none_ok : ∀ s' : BP α, s'.cs = s.cs → Sat (pure none : P α (Option (Ev α))) s'
      (fun r s' => s'.cs = s.cs ∧ ∀ ev, r = some ev → EvDataAt s.cs e ts ev) :=
    fun s' hs' => Sat.pure ⟨hs', fun ev hev => by cases hev⟩
  unfold timerP
  refine Sat.bind (currentOffset_sat h.g ?_)
  refine Sat.bind (Sat.mono (Sat.sdatCs (FQ.consumeK _).toFG (consumeK_ge _ h)) ?_)
  rintro r1 s1 ⟨⟨g1, h1⟩, cs1⟩
  cases r1 with
  | none => exact none_ok _ cs1
  | some m =>
    obtain ⟨-, -, c1⟩ := h1
    refine Sat.bind (Sat.mono (Sat.sdatCs FQ.modifiersP.toFG (modifiersP_ev g1)) ?_)
    rintro mtoks s2 ⟨⟨g2, c2, hm, hmt⟩, cs2⟩
    have hrm : RunIn off w (offAt ts s1.cur) mtoks := by rw [hmt]; exact hc.wfi.slice c2
    refine Sat.bind (currentOffset_sat g2.g ?_)
    refine Sat.bind (Sat.mono (Sat.sdatBoth (Sat.sdatCs FG.compBody (compBody_ev hc g2)) (compBody_qinfix g2.g)) ?_)
    rintro r3 s3 ⟨⟨⟨g3, h3⟩, cs3⟩, hqi⟩
    have hcs3 : s3.cs = s.cs := by rw [cs3, cs2, cs1]
    cases r3 with
    | none => exact none_ok _ hcs3
    | some body =>
      obtain ⟨c3, hname, hq, hclose⟩ := h3
      refine Sat.bind (currentOffset_sat g3.g ?_)
      have hnt := hname.text
      try simp -zeta only
      extract_lets +onlyGivenNames -underBinder jp1
      have hjp1 : ∀ (r : Unit) (s4 : BP α), GE Pv ts e s4 → s4.cs = s.cs → Sat (jp1 r) s4
          (fun r s' => s'.cs = s.cs ∧ ∀ ev, r = some ev → EvDataAt s.cs e ts ev) := by
        intro r s4 g4 cs4
        simp -zeta only [jp1]
        refine Sat.bind (hasExt_sat g4.g ?_)
        try simp -zeta only
        extract_lets +onlyGivenNames -underBinder jp2
        have hjp2 : ∀ (r : Unit) (s5 : BP α), GE Pv ts e s5 → s5.cs = s.cs → Sat (jp2 r) s5
            (fun r s' => s'.cs = s.cs ∧ ∀ ev, r = some ev → EvDataAt s.cs e ts ev) := by
          intro r s5 g5 cs5
          simp -zeta only [jp2]
          refine Sat.bind (Sat.mono (Sat.sdatCs FG.checkNoteTimer (checkNoteTimer_ev hc g5)) ?_)
          rintro _ s6 ⟨⟨g6, c6⟩, cs6⟩
          have hcs6 : s6.cs = s.cs := by rw [cs6, cs5]
          refine Sat.bind (Sat.mono (Sat.sdatCs (FQ.bpText _ _).toFG (bpText_sat hname.run (Q := fun _ s' => s' = s6) rfl)) ?_)
          rintro name s6' ⟨rfl, -⟩
          refine Sat.bind (Sat.get ?_)
          try simp -zeta only
          extract_lets +onlyGivenNames -underBinder cs
          apply Sat.bind
          apply Sat.mono (Q := fun r s' => s'.cs = s.cs ∧
            OptOK (fun q : Loc (PQuantity α) => QValAt s.cs e ts q.val.value ∨ q = recoverPQuantity) r)
          · split
            · rename_i qt hqt
              refine Sat.bind (Sat.mono (Sat.sdatCs (FG.parseQuantity _) (parseQuantity_data (hq qt hqt).wf g6.g)) ?_)
              rintro q s7 ⟨hqd, cs7⟩
              rw [hcs6] at hqd
              have hqd' := hqd.mono (hqi body qt rfl hqt)
              have hcs7 : s7.cs = s.cs := by rw [cs7, hcs6]
              dsimp only
              split
              · refine Sat.bind (Sat.perrE ?_)
                exact Sat.pure ⟨hcs7, Or.inl hqd'⟩
              · exact Sat.pure ⟨hcs7, Or.inl hqd'⟩
            · exact Sat.pure ⟨hcs6, trivial⟩
          rintro quantity s7 ⟨hcs7, hqo⟩
          refine Sat.bind (Sat.hasExt ?_)
          try simp -zeta only
          extract_lets +onlyGivenNames -underBinder jp3
          have hrec : OptOK (fun q : Loc (PQuantity α) => QValAt s.cs e ts q.val.value ∨ q = recoverPQuantity)
              (some (recoverPQuantity (α := α))) := Or.inr rfl
          have hjp3 : ∀ (r : Unit) (qo : Option (Loc (PQuantity α))) (s8 : BP α), s8.cs = s.cs →
              OptOK (fun q : Loc (PQuantity α) => QValAt s.cs e ts q.val.value ∨ q = recoverPQuantity) qo →
              Sat (jp3 r qo) s8 (fun r s' => s'.cs = s.cs ∧ ∀ ev, r = some ev → EvDataAt s.cs e ts ev) := by
            intro r qo s8 hcs8 hqo8
            simp -zeta only [jp3]
            try simp -zeta only
            extract_lets +onlyGivenNames -underBinder nameO jp4
            have hjp4 : ∀ (r : Unit) (qo : Option (Loc (PQuantity α))) (s9 : BP α), s9.cs = s.cs →
                OptOK (fun q : Loc (PQuantity α) => QValAt s.cs e ts q.val.value ∨ q = recoverPQuantity) qo →
                Sat (jp4 r qo) s9 (fun r s' => s'.cs = s.cs ∧ ∀ ev, r = some ev → EvDataAt s.cs e ts ev) := by
              intro r qo s9 hcs9 hqo9
              simp -zeta only [jp4]
              refine Sat.pure ⟨hcs9, ?_⟩
              intro ev hev
              simp only [Option.some.injEq] at hev
              subst hev
              exact hqo9
            clear_value jp4 nameO
            split
            · dsimp only
              refine Sat.bind (Sat.perrE ?_)
              exact hjp4 _ _ _ hcs8 hrec
            · exact hjp4 _ _ _ hcs8 hqo8
          clear_value jp3
          split
          · dsimp only
            refine Sat.bind (Sat.perrE ?_)
            exact hjp3 _ _ _ hcs7 hrec
          · exact hjp3 _ _ _ hcs7 hqo
        clear_value jp2
        split
        · split
          · rename_i i hfi
            have hlt : i < body.name.length := by
              rw [List.findIdx?_eq_some_iff_getElem] at hfi
              exact hfi.1
            have hget : body.name[i]? = some body.name[i] := List.getElem?_eq_getElem hlt
            simp only [hget, Option.getD_some]
            refine Sat.bind (Sat.perrE ?_)
            exact hjp2 _ _ (g4.err hc (one_label (hname.sepToEnd hget))) cs4
          · exact hjp2 _ _ g4 cs4
        · exact hjp2 _ _ g4 cs4
      clear_value jp1
      split
      · rename_i hne
        have hne' : mtoks ≠ [] := by intro h0; rw [h0] at hne; simp at hne
        refine Sat.bind (Sat.perrE ?_)
        exact hjp1 _ _ (g3.err hc (one_label (hrm.tokensSpan hne'))) hcs3
      · exact hjp1 _ _ g3 hcs3

/-! ### `readModifiers`, read flag by flag -/

theorem sdat_and_or_self (a f : Nat) : (a &&& f) ||| f = f := by
  apply Nat.eq_of_testBit_eq
  intro i
  rw [Nat.testBit_or, Nat.testBit_and]
  cases a.testBit i <;> cases f.testBit i <;> rfl

theorem sdat_contains_insert_self (m : Modifiers) (f : Nat) : (m.insert f).contains f = true := by
  unfold Modifiers.contains Modifiers.insert
  simp only [Nat.and_or_distrib_right, Nat.and_self, sdat_and_or_self, beq_self_eq_true]

theorem sdat_contains_insert_other (m : Modifiers) (g f : Nat) (h : g &&& f = 0) :
    (m.insert g).contains f = m.contains f := by
  unfold Modifiers.contains Modifiers.insert
  simp only [Nat.and_or_distrib_right, h, Nat.or_zero]

theorem sdat_flag_cases (k : TK) (f : Nat)
    (hf : f ∈ [Modifiers.RECIPE, Modifiers.REF, Modifiers.HIDDEN, Modifiers.OPT, Modifiers.NEW]) :
    ((modifierFlag k).getD 0 = f ∧ (modifierFlag k == some f) = true) ∨
    ((modifierFlag k).getD 0 &&& f = 0 ∧ (modifierFlag k == some f) = false) := by
  simp only [List.mem_cons, List.not_mem_nil, or_false] at hf
  rcases hf with rfl | rfl | rfl | rfl | rfl <;> cases k <;> decide

/-- one token: the flag `f` is set afterwards iff it was set before or the token is the character of `f` -/
theorem sdat_modInsert_contains (m : Modifiers) (t : Tok) (f : Nat)
    (hf : f ∈ [Modifiers.RECIPE, Modifiers.REF, Modifiers.HIDDEN, Modifiers.OPT, Modifiers.NEW]) :
    (modInsert m t).contains f = (m.contains f || modifierFlag t.kind == some f) := by
  unfold modInsert
  rcases sdat_flag_cases t.kind f hf with ⟨h1, h2⟩ | ⟨h1, h2⟩
  · rw [h1, h2, sdat_contains_insert_self, Bool.or_true]
  · rw [h2, sdat_contains_insert_other _ _ _ h1, Bool.or_false]

theorem sdat_foldl_contains (l : List Tok) (m : Modifiers) (f : Nat)
    (hf : f ∈ [Modifiers.RECIPE, Modifiers.REF, Modifiers.HIDDEN, Modifiers.OPT, Modifiers.NEW]) :
    (l.foldl modInsert m).contains f = (m.contains f || l.any (fun t => modifierFlag t.kind == some f)) := by
  induction l generalizing m with
  | nil => simp
  | cons t r ih => rw [List.foldl_cons, ih, sdat_modInsert_contains m t f hf, List.any_cons, Bool.or_assoc]

/-- **what `readModifiers` reads**: the flag of a modifier character is set iff that character occurs among the
    tokens outside the parenthesised groups -/
theorem readModifiers_contains (toks : List Tok) (f : Nat)
    (hf : f ∈ [Modifiers.RECIPE, Modifiers.REF, Modifiers.HIDDEN, Modifiers.OPT, Modifiers.NEW]) :
    (readModifiers toks).contains f = (modTop false toks).any (fun t => modifierFlag t.kind == some f) := by
  unfold readModifiers
  rw [sdat_foldl_contains _ _ _ hf]
  have : Modifiers.empty.contains f = false := by
    simp only [List.mem_cons, List.not_mem_nil, or_false] at hf
    rcases hf with rfl | rfl | rfl | rfl | rfl <;> decide
  rw [this, Bool.false_or]
end Cook
