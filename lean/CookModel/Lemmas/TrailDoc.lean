import CookModel.Lemmas.RoundtripDocRecipe
import CookModel.Lemmas.TrailBlocks
/-
  C17, recipe level for well-formed recipes (the quantifier of the property): a document in the
  grammar of the C01 round trip (`DocItem`s: steps made of text runs and components, section lines,
  `>>` lines) and the same document with whitespace / comment tokens inserted in the text runs of
  its steps (a trailing comment, trailing blanks, a block comment between two words) parse to
  recipes that are equal up to white space inside step text: the step items, with adjacent text
  items joined and split into words (`trailLoose`, the oracle's `loose`), are equal; component
  tables, metadata, validity are equal outright.
-/
set_option linter.unusedSectionVars false
set_option linter.unusedVariables false
set_option linter.unusedSimpArgs false
namespace Cook

variable {α : Type} [Arith α]

/-! ### words of a text -/

def trailFlush (cur : List Char) : List (List Char) := if cur.isEmpty then [] else [cur]

/-- `split_whitespace`: the maximal runs of non-white-space characters (`cur` = the run being read) -/
def trailWordsAux (ws : Char → Bool) : List Char → List Char → List (List Char)
  | cur, [] => trailFlush cur
  | cur, c :: t => if ws c then trailFlush cur ++ trailWordsAux ws [] t else trailWordsAux ws (cur ++ [c]) t

def trailWords (ws : Char → Bool) (s : List Char) : List (List Char) := trailWordsAux ws [] s

theorem trail_words_ws (ws : Char → Bool) (S : List Char) (hS : ∀ c ∈ S, ws c = true) (hne : S ≠ [])
    (cur t : List Char) : trailWordsAux ws cur (S ++ t) = trailFlush cur ++ trailWordsAux ws [] t := by
  induction S generalizing cur with
  | nil => exact absurd rfl hne
  | cons c S ih =>
    have hc := hS c (by simp)
    simp only [List.cons_append, trailWordsAux, hc, if_true]
    by_cases hS' : S = []
    · subst hS'; simp
    · rw [ih (fun x hx => hS x (by simp [hx])) hS' []]; simp [trailFlush]

theorem trail_words_prefix (ws : Char → Bool) (a b : List Char)
    (h : ∀ cur, trailWordsAux ws cur a = trailWordsAux ws cur b) (x : List Char) :
    ∀ cur, trailWordsAux ws cur (x ++ a) = trailWordsAux ws cur (x ++ b) := by
  induction x with
  | nil => exact h
  | cons c x ih =>
    intro cur
    simp only [List.cons_append, trailWordsAux]
    split <;> rw [ih]

/-- the inserted white space touches white space, or the end of the text -/
def BlankAdj (ws : Char → Bool) (x y : List Char) : Prop :=
  y = [] ∨ (∃ c r, y = c :: r ∧ ws c = true) ∨ (∃ r c, x = r ++ [c] ∧ ws c = true)

/-- **white space next to white space (or at the end) does not change the words** -/
theorem trail_words_ins (ws : Char → Bool) (x S y : List Char) (hS : ∀ c ∈ S, ws c = true)
    (hadj : BlankAdj ws x y) (pre : List Char) :
    trailWords ws (pre ++ (x ++ S ++ y)) = trailWords ws (pre ++ (x ++ y)) := by
  by_cases hne : S = []
  · subst hne; simp
  unfold trailWords
  rcases hadj with rfl | ⟨c, r, rfl, hc⟩ | ⟨r, c, rfl, hc⟩
  · have := trail_words_prefix ws S [] (fun cur => by
      have := trail_words_ws ws S hS hne cur []
      simp only [List.append_nil] at this
      rw [this]; simp [trailWordsAux, trailFlush]) (pre ++ x) []
    simpa using this
  · have := trail_words_prefix ws (S ++ c :: r) (c :: r) (fun cur => by
      rw [trail_words_ws ws S hS hne cur (c :: r)]
      simp [trailWordsAux, hc, trailFlush]) (pre ++ x) []
    simpa using this
  · have := trail_words_prefix ws ((c :: S) ++ y) ([c] ++ y) (fun cur => by
      rw [trail_words_ws ws (c :: S) (by intro z hz; rcases List.mem_cons.1 hz with rfl | hz; exact hc; exact hS z hz)
        (by simp) cur y, trail_words_ws ws [c] (by simpa using hc) (by simp) cur y]) (pre ++ r) []
    simpa using this

/-! ### step items up to white space -/

/-- step items with adjacent text items joined and split into words; blank text dropped -/
inductive LItem where
  | words (w : List (List Char))
  | item (it : Item)
deriving DecidableEq, Repr

def Item.textOf : Item → Option Str
  | .text t => some t
  | _ => none

def trailFlushW (ws : Char → Bool) (acc : Str) : List LItem :=
  if (trailWords ws acc).isEmpty then [] else [.words (trailWords ws acc)]

def trailLooseAux (ws : Char → Bool) : Str → List Item → List LItem
  | acc, [] => trailFlushW ws acc
  | acc, it :: r =>
    match it.textOf with
    | some t => trailLooseAux ws (acc ++ t) r
    | none => trailFlushW ws acc ++ LItem.item it :: trailLooseAux ws [] r

/-- the oracle's normal form of a step: `t:word word …` for every maximal run of text items that
    shows a word, components in between -/
def trailLoose (ws : Char → Bool) (items : List Item) : List LItem := trailLooseAux ws [] items

def HeadNotText (I : List Item) : Prop := ∀ it, I.head? = some it → it.textOf = none

theorem trail_loose_acc (ws : Char → Bool) (a' a : Str) (h : trailWords ws a' = trailWords ws a)
    (I : List Item) (hI : HeadNotText I) : trailLooseAux ws a' I = trailLooseAux ws a I := by
  cases I with
  | nil => simp only [trailLooseAux, trailFlushW, h]
  | cons it r =>
    have := hI it rfl
    simp only [trailLooseAux, this, trailFlushW, h]

theorem trail_loose_prefix (ws : Char → Bool) (I1 X Y : List Item)
    (h : ∀ acc, trailLooseAux ws acc X = trailLooseAux ws acc Y) :
    ∀ acc, trailLooseAux ws acc (I1 ++ X) = trailLooseAux ws acc (I1 ++ Y) := by
  induction I1 with
  | nil => exact h
  | cons it r ih =>
    intro acc
    simp only [List.cons_append, trailLooseAux]
    split <;> simp [ih]

/-! ### segments -/

def SegX.isText : SegX → Bool
  | .text _ => true
  | _ => false

/-- the components of a segment list -/
def trailComps (l : List SegX) : List SegX := l.filter (fun s => !s.isText)

theorem trail_comps_append (a b : List SegX) : trailComps (a ++ b) = trailComps a ++ trailComps b := by
  simp [trailComps]

theorem trail_ingr_comps (b : List SegX) : b.filterMap SegX.ingr? = (trailComps b).filterMap SegX.ingr? := by
  induction b with
  | nil => rfl
  | cons s r ih => cases s <;> simp_all [trailComps, SegX.isText, SegX.ingr?, List.filterMap_cons, List.filter_cons]

theorem trail_cw_comps (b : List SegX) : b.filterMap SegX.cw? = (trailComps b).filterMap SegX.cw? := by
  induction b with
  | nil => rfl
  | cons s r ih => cases s <;> simp_all [trailComps, SegX.isText, SegX.cw?, List.filterMap_cons, List.filter_cons]

theorem trail_timer_comps (b : List SegX) : b.filterMap SegX.timer? = (trailComps b).filterMap SegX.timer? := by
  induction b with
  | nil => rfl
  | cons s r ih => cases s <;> simp_all [trailComps, SegX.isText, SegX.timer?, List.filterMap_cons, List.filter_cons]

theorem trail_toItem_congr {b' b : List SegX} (h : trailComps b' = trailComps b) (sg : SegX) :
    sg.toItem b' = sg.toItem b := by
  cases sg <;>
    simp only [SegX.toItem, trail_ingr_comps b', trail_ingr_comps b, trail_cw_comps b', trail_cw_comps b,
      trail_timer_comps b', trail_timer_comps b, h]

theorem trail_toItem_textOf (b : List SegX) (sg : SegX) (h : sg.isText = false) : (sg.toItem b).textOf = none := by
  cases sg <;> simp_all [SegX.toItem, Item.textOf, SegX.isText]

theorem trail_absItems_congr : ∀ (segs b' b : List SegX), trailComps b' = trailComps b →
    absItemsFrom b' segs = absItemsFrom b segs := by
  intro segs
  induction segs with
  | nil => intro _ _ _; rfl
  | cons sg r ih =>
    intro b' b h
    simp only [absItemsFrom]
    rw [trail_toItem_congr h sg, ih (b' ++ [sg]) (b ++ [sg]) (by rw [trail_comps_append, trail_comps_append, h])]

theorem trail_absItems_append (x y : List SegX) : ∀ b, absItemsFrom b (x ++ y) = absItemsFrom b x ++ absItemsFrom (b ++ x) y := by
  induction x with
  | nil => intro b; simp [absItemsFrom]
  | cons sg r ih => intro b; simp [absItemsFrom, ih, List.append_assoc]

theorem trail_absItems_headNotText (b S2 : List SegX) (h : ∀ s, S2.head? = some s → s.isText = false) :
    HeadNotText (absItemsFrom b S2) := by
  cases S2 with
  | nil => intro it hit; simp [absItemsFrom] at hit
  | cons s r =>
    intro it hit
    simp only [absItemsFrom, List.head?_cons, Option.some.injEq] at hit
    rw [← hit]
    exact trail_toItem_textOf b s (h s rfl)

/-- the segments of a step with filler tokens `F` inserted in a text run (`inText`: behind `l1`,
    where what `F` shows is white space that touches white space or the end of the run, and the run
    is followed by a component or the end of the step, as in every well-formed step), or as a text
    run of its own between components / at the end of the step (`newText`) -/
inductive SegsIns (ws : Char → Bool) : List SegX → List SegX → Prop
  | inText (S1 S2 : List SegX) (l1 F l2 : List Tok) :
      (∀ c ∈ F.flatMap vis, ws c = true) → BlankAdj ws (l1.flatMap vis) (l2.flatMap vis) →
      (∀ s, S2.head? = some s → s.isText = false) →
      SegsIns ws (S1 ++ .text (l1 ++ F ++ l2) :: S2) (S1 ++ .text (l1 ++ l2) :: S2)
  | newText (S1 S2 : List SegX) (F : List Tok) :
      (∀ c ∈ F.flatMap vis, ws c = true) → (∀ s, S2.head? = some s → s.isText = false) →
      SegsIns ws (S1 ++ .text F :: S2) (S1 ++ S2)

theorem trail_comps_text (l : List Tok) (S : List SegX) : trailComps (SegX.text l :: S) = trailComps S := by
  simp [trailComps, SegX.isText]

/-- **one step**: the items of the step with the insertion and of the original step have the same
    normal form; the components are the same -/
theorem trail_segs_loose (ws : Char → Bool) {segs' segs : List SegX} (h : SegsIns ws segs' segs)
    (b' b : List SegX) (hb : trailComps b' = trailComps b) :
    trailLoose ws (absItemsFrom b' segs') = trailLoose ws (absItemsFrom b segs) ∧
    trailComps segs' = trailComps segs := by
  cases h with
  | inText S1 S2 l1 F l2 hF hadj hS2 =>
    refine ⟨?_, by simp only [trail_comps_append, trail_comps_text]⟩
    rw [trail_absItems_append, trail_absItems_append, trail_absItems_congr S1 b' b hb]
    simp only [absItemsFrom, SegX.toItem]
    have e2 : absItemsFrom (b' ++ S1 ++ [SegX.text (l1 ++ F ++ l2)]) S2 = absItemsFrom (b ++ S1 ++ [SegX.text (l1 ++ l2)]) S2 :=
      trail_absItems_congr S2 _ _ (by
        simp only [trail_comps_append, hb]
        congr 1)
    rw [e2]
    unfold trailLoose
    apply trail_loose_prefix
    intro acc
    simp only [trailLooseAux, Item.textOf]
    apply trail_loose_acc _ _ _ _ _ (trail_absItems_headNotText _ S2 hS2)
    simp only [List.flatMap_append]
    exact trail_words_ins ws _ _ _ hF hadj acc
  | newText S1 S2 F hF hS2 =>
    refine ⟨?_, by simp only [trail_comps_append, trail_comps_text]⟩
    rw [trail_absItems_append, trail_absItems_append, trail_absItems_congr S1 b' b hb]
    simp only [absItemsFrom, SegX.toItem]
    have e2 : absItemsFrom (b' ++ S1 ++ [SegX.text F]) S2 = absItemsFrom (b ++ S1) S2 :=
      trail_absItems_congr S2 _ _ (by
        simp only [trail_comps_append, hb]
        simp [trailComps, SegX.isText])
    rw [e2]
    unfold trailLoose
    apply trail_loose_prefix
    intro acc
    simp only [trailLooseAux, Item.textOf]
    apply trail_loose_acc _ _ _ _ _ (trail_absItems_headNotText _ S2 hS2)
    have := trail_words_ins ws [] (F.flatMap vis) [] hF (Or.inl rfl) acc
    simpa using this

/-! ### documents -/

/-- contents equal up to white space in the text of the recipe body: steps with the same number and
    the same items up to white space in their text runs; `>` paragraphs equal after collapsing runs
    of white space and trimming, i.e. with the same words (the oracle's `norm_ws`).  (Wave 5: a
    paragraph used to be compared by equality, which a trailing comment / trailing blanks / a block
    comment on a `>` line falsifies — by blanks only, see `trail_paraIns_content`.) -/
def LooseContent (ws : Char → Bool) : Content → Content → Prop
  | .step s', .step s => trailLoose ws s'.items = trailLoose ws s.items ∧ s'.number = s.number
  | .text t', .text t => trailWords ws t' = trailWords ws t
  | _, _ => False

theorem LooseContent.refl (ws : Char → Bool) (c : Content) : LooseContent ws c c := by
  cases c <;> simp [LooseContent]

/-- sections equal up to white space in step text: same name, as many contents, steps with the
    same number and the same items up to white space in their text -/
def LooseSection (ws : Char → Bool) (s' s : Section) : Prop :=
  s'.name = s.name ∧ LRel (LooseContent ws) s'.content s.content

theorem LooseSection.refl (ws : Char → Bool) (s : Section) : LooseSection ws s s :=
  ⟨rfl, LRel.refl_of (LooseContent.refl ws) _⟩

theorem LooseSection.isEmpty {ws : Char → Bool} {s' s : Section} (h : LooseSection ws s' s) : s'.isEmpty = s.isEmpty := by
  unfold Section.isEmpty
  rw [h.1, LRel.isEmpty h.2]

/-- the lines of a `>` paragraph with filler tokens `F` inserted in the body of one line: what `F`
    shows is white space that touches white space or the end of the paragraph text; the paragraph
    shows something -/
def ParaIns (ws : Char → Bool) (lines' lines : List PLine) : Prop :=
  ∃ (L1 L2 : List PLine) (l : PLine) (b1 F b2 : List Tok), lines = L1 ++ l :: L2 ∧ l.body = b1 ++ b2 ∧
    lines' = L1 ++ { l with body := b1 ++ F ++ b2 } :: L2 ∧ (∀ c ∈ F.flatMap vis, ws c = true) ∧
    BlankAdj ws (L1.flatMap PLine.text ++ b1.flatMap vis) ((b2 ++ l.nl).flatMap vis ++ L2.flatMap PLine.text) ∧
    lines.flatMap PLine.text ≠ []

/-- **how an insertion changes a paragraph**: the text of the paragraph gains the white space `S`
    the filler shows, at one place, next to white space or at the end — nothing else; so the two texts
    have the same words -/
theorem trail_paraIns_text (ws : Char → Bool) {lines' lines : List PLine} (h : ParaIns ws lines' lines) :
    ∃ A S B, lines'.flatMap PLine.text = A ++ S ++ B ∧ lines.flatMap PLine.text = A ++ B ∧
      (∀ c ∈ S, ws c = true) ∧ BlankAdj ws A B ∧
      trailWords ws (lines'.flatMap PLine.text) = trailWords ws (lines.flatMap PLine.text) := by
  obtain ⟨L1, L2, l, b1, F, b2, rfl, hb, rfl, hF, hadj, hne⟩ := h
  refine ⟨L1.flatMap PLine.text ++ b1.flatMap vis, F.flatMap vis, (b2 ++ l.nl).flatMap vis ++ L2.flatMap PLine.text,
    ?_, ?_, hF, hadj, ?_⟩
  · simp [PLine.text, List.flatMap_append, List.append_assoc]
  · simp [PLine.text, hb, List.flatMap_append, List.append_assoc]
  · have e1 : (L1 ++ { l with body := b1 ++ F ++ b2 } :: L2).flatMap PLine.text =
        [] ++ ((L1.flatMap PLine.text ++ b1.flatMap vis) ++ F.flatMap vis ++
          ((b2 ++ l.nl).flatMap vis ++ L2.flatMap PLine.text)) := by
      simp [PLine.text, List.flatMap_append, List.append_assoc]
    have e2 : (L1 ++ l :: L2).flatMap PLine.text =
        [] ++ ((L1.flatMap PLine.text ++ b1.flatMap vis) ++ ((b2 ++ l.nl).flatMap vis ++ L2.flatMap PLine.text)) := by
      simp [PLine.text, hb, List.flatMap_append, List.append_assoc]
    rw [e1, e2]
    exact trail_words_ins ws _ _ _ hF hadj []

theorem trail_paraIns_content (ws : Char → Bool) {lines' lines : List PLine} (h : ParaIns ws lines' lines) :
    LRel (LooseContent ws) (absParaContent lines') (absParaContent lines) := by
  obtain ⟨A, S, B, e', e, hS, hadj, hw⟩ := trail_paraIns_text ws h
  have hne : lines.flatMap PLine.text ≠ [] := h.choose_spec.choose_spec.choose_spec.choose_spec.choose_spec.choose_spec.2.2.2.2.2
  have hne' : lines'.flatMap PLine.text ≠ [] := by
    rw [e']
    rw [e] at hne
    intro h0
    simp only [List.append_eq_nil_iff] at h0
    exact hne (by rw [h0.1.1, h0.2]; rfl)
  unfold absParaContent
  have i1 : (lines'.flatMap PLine.text).isEmpty = false := by
    cases hx : lines'.flatMap PLine.text with
    | nil => exact absurd hx hne'
    | cons _ _ => rfl
  have i2 : (lines.flatMap PLine.text).isEmpty = false := by
    cases hx : lines.flatMap PLine.text with
    | nil => exact absurd hx hne
    | cons _ _ => rfl
  rw [i1, i2]
  exact .cons hw .nil

/-- a block of the document and the same block with an insertion in its step text / in a line of
    its paragraph -/
def ItemIns (ws : Char → Bool) (d' d : DocItem) : Prop :=
  d' = d ∨ (∃ segs' segs, d' = .step segs' ∧ d = .step segs ∧ SegsIns ws segs' segs) ∨
    (∃ lines' lines, d' = .para lines' ∧ d = .para lines ∧ ParaIns ws lines' lines)

theorem trail_absDocSecs_loose (ws : Char → Bool) {items' items : List DocItem} (h : LRel (ItemIns ws) items' items) :
    ∀ (b' b : List SegX) (hb : trailComps b' = trailComps b) (cur' cur : Section) (hc : LooseSection ws cur' cur)
      (num : Nat), LRel (LooseSection ws) (absDocSecs b' cur' num items') (absDocSecs b cur num items) := by
  induction h with
  | nil =>
    intro b' b hb cur' cur hc num
    simp only [absDocSecs, hc.isEmpty]
    split
    · exact .nil
    · exact .cons hc .nil
  | @cons d1 d2 _ _ hd _ ih =>
    intro b' b hb cur' cur hc num
    rcases hd with heq | ⟨segs', segs, rfl, rfl, hs⟩ | ⟨lines', lines, rfl, rfl, hp⟩
    · cases d2 with
      | step segs =>
        subst heq
        simp only [absDocSecs]
        apply ih _ _ (by rw [trail_comps_append, trail_comps_append, hb])
        refine ⟨hc.1, LRel.append hc.2 (.cons ?_ .nil)⟩
        rw [trail_absItems_congr segs b' b hb]
        exact LooseContent.refl ws _
      | sectionLine name p =>
        subst heq
        simp only [absDocSecs, hc.isEmpty]
        apply LRel.append
        · split
          · exact .nil
          · exact .cons hc .nil
        · exact ih _ _ hb _ _ (LooseSection.refl ws _) 1
      | metaLine k v p =>
        subst heq
        simp only [absDocSecs]
        exact ih _ _ hb _ _ hc num
      | para lines =>
        subst heq
        simp only [absDocSecs]
        apply ih _ _ hb
        exact ⟨hc.1, LRel.append hc.2 (LRel.refl_of (LooseContent.refl ws) _)⟩
    · simp only [absDocSecs]
      obtain ⟨h1, h2⟩ := trail_segs_loose ws hs b' b hb
      apply ih _ _ (by rw [trail_comps_append, trail_comps_append, hb, h2])
      refine ⟨hc.1, LRel.append hc.2 (.cons ?_ .nil)⟩
      exact ⟨h1, rfl⟩
    · simp only [absDocSecs]
      apply ih _ _ hb
      exact ⟨hc.1, LRel.append hc.2 (trail_paraIns_content ws hp)⟩

theorem trail_absDocSegs_comps (ws : Char → Bool) {items' items : List DocItem} (h : LRel (ItemIns ws) items' items) :
    trailComps (absDocSegs items') = trailComps (absDocSegs items) := by
  induction h with
  | nil => rfl
  | @cons d1 d2 _ _ hd _ ih =>
    rcases hd with heq | ⟨segs', segs, rfl, rfl, hs⟩ | ⟨lines', lines, rfl, rfl, hp⟩
    · cases d2 <;> subst heq <;> simp only [absDocSegs, trail_comps_append, ih]
    · simp only [absDocSegs, trail_comps_append, ih, (trail_segs_loose ws hs [] [] rfl).2]
    · simp only [absDocSegs, ih]

theorem trail_absDocMeta (ws : Char → Bool) {items' items : List DocItem} (h : LRel (ItemIns ws) items' items) :
    ∀ m, absDocMeta m items' = absDocMeta m items := by
  induction h with
  | nil => intro m; rfl
  | @cons d1 d2 _ _ hd _ ih =>
    intro m
    rcases hd with heq | ⟨segs', segs, rfl, rfl, hs⟩ | ⟨lines', lines, rfl, rfl, hp⟩
    · cases d2 <;> subst heq <;> simp only [absDocMeta, ih]
    · simp only [absDocMeta, ih]
    · simp only [absDocMeta, ih]

theorem trail_isMeta (ws : Char → Bool) {items' items : List DocItem} (h : LRel (ItemIns ws) items' items) :
    (items'.filter DocItem.isMeta).length = (items.filter DocItem.isMeta).length := by
  induction h with
  | nil => rfl
  | @cons d1 d2 _ _ hd _ ih =>
    rcases hd with heq | ⟨segs', segs, rfl, rfl, hs⟩ | ⟨lines', lines, rfl, rfl, hp⟩
    · cases d2 <;> subst heq <;> simp [List.filter_cons, DocItem.isMeta, ih]
    · simp [List.filter_cons, DocItem.isMeta, ih]
    · simp [List.filter_cons, DocItem.isMeta, ih]

/-- the well-formedness conditions of the C01 round trip on a printed document -/
structure DocWF (α : Type) [Arith α] (env : Env) (pre : List Tok) (doc : List (DocItem × List Tok)) : Prop where
  hpre : blankLinesOK pre = true
  ok : ∀ d ∈ doc, d.1.ok env.cs env.ext = true
  simple : ∀ d ∈ doc, d.1.simple = true
  plain : ∀ d ∈ doc, d.1.plain env
  ext : ∀ d ∈ doc, d.1.extOK α env
  seps : sepsOK (doc.map (·.2)) = true
  spelled : WellSpelled env.cs (pre ++ docSpec doc)
  noFront : parseFrontmatter env.cs (render (pre ++ docSpec doc)) = none

/-- **Whole input, well-formed recipes.**  Two printed documents, both within the grammar of the
    round trip, the first being the second with filler tokens inserted in step text: the parsed
    recipes are equal up to white space in step text. -/
theorem trail_recipe_doc (env : Env) (ws : Char → Bool) (pre' pre : List Tok) (doc' doc : List (DocItem × List Tok))
    (h' : DocWF α env pre' doc') (h : DocWF α env pre doc)
    (hins : LRel (ItemIns ws) (doc'.map (·.1)) (doc.map (·.1))) :
    ∃ c' c : Col α,
      parseRecipe env (render (pre' ++ docSpec doc')) = ⟨some c', c'.diags, none⟩ ∧
      parseRecipe env (render (pre ++ docSpec doc)) = ⟨some c, c.diags, none⟩ ∧
      LRel (LooseSection ws) c'.sections c.sections ∧
      c'.ingredients.toList = c.ingredients.toList ∧ c'.cookware.toList = c.cookware.toList ∧
      c'.timers.toList = c.timers.toList ∧ c'.metaMap = c.metaMap ∧ c'.inlineQ = c.inlineQ ∧
      c'.frontMatter = c.frontMatter ∧
      c'.diags.toList.map (fun d => (d.sev, d.stage, d.kind, d.labels.length)) =
        c.diags.toList.map (fun d => (d.sev, d.stage, d.kind, d.labels.length)) := by
  obtain ⟨c', sp', p', s', i', w', t', m', d', n', q', f'⟩ :=
    rtx_parseRecipe_doc (α := α) env pre' doc' h'.hpre h'.ok h'.simple h'.plain h'.ext h'.seps h'.spelled h'.noFront
  obtain ⟨c, sp, p, s, i, w, t, m, d, n, q, f⟩ :=
    rtx_parseRecipe_doc (α := α) env pre doc h.hpre h.ok h.simple h.plain h.ext h.seps h.spelled h.noFront
  have hcomps := trail_absDocSegs_comps ws hins
  refine ⟨c', c, p', p, ?_, ?_, ?_, ?_, ?_, by rw [q', q], by rw [f', f], ?_⟩
  · rw [s', s]
    exact trail_absDocSecs_loose ws hins [] [] rfl _ _ (LooseSection.refl ws _) 1
  · rw [i', i, trail_ingr_comps, hcomps, ← trail_ingr_comps]
  · rw [w', w, trail_cw_comps, hcomps, ← trail_cw_comps]
  · rw [t', t, trail_timer_comps, hcomps, ← trail_timer_comps]
  · rw [m', m, trail_absDocMeta ws hins]
  · have hl : sp'.length = sp.length := by rw [n', n, trail_isMeta ws hins]
    rw [d', d]
    unfold deprecation
    cases sp' with
    | nil =>
      cases sp with
      | nil => rfl
      | cons _ _ => simp at hl
    | cons a r =>
      cases sp with
      | nil => simp at hl
      | cons b r2 => simpa using hl

end Cook
