import CookModel.Lemmas.BuilderSI
/- C16 — the declared units are the first units of the converter, in declaration order, and keep their SI flags. -/
namespace Cook.Bld
open Cook

def declGroupUnits {α : Type} (q : PQ) : Option (UnitsDecl α) → List (UnitB α)
  | none => []
  | some (.unified us) => us.map (mkUnitB q none)
  | some (.bySystem m i u) => m.map (mkUnitB q (some .metric)) ++ i.map (mkUnitB q (some .imperial)) ++ u.map (mkUnitB q none)

/-- the units a layer declares, in the order `add_units_file` adds them -/
def declFile {α : Type} (f : UnitsFile α) : List (UnitB α) := f.quantity.flatMap (fun g => declGroupUnits g.quantity g.units)

/-- the units a stack of layers declares -/
def declared {α : Type} (files : List (UnitsFile α)) : List (UnitB α) := files.flatMap declFile

theorem addUnitsList_units {α : Type} {q : PQ} {sys : Option Sys} {es : List (UnitEntry α)} {c c' : Core α}
    (h : addUnitsList q sys es c = .ok c') : c'.units = c.units ++ es.map (mkUnitB q sys) := by
  induction es generalizing c with
  | nil => simp [addUnitsList] at h; subst h; simp
  | cons e es ih =>
    unfold addUnitsList at h
    split at h
    · cases h
    · rename_i r hr
      rw [ih h, (addUnit_ok hr).2.1]; simp

theorem addGroupUnits_units {α : Type} {q : PQ} {d : Option (UnitsDecl α)} {c c' : Core α}
    (h : addGroupUnits q d c = .ok c') : c'.units = c.units ++ declGroupUnits q d := by
  unfold addGroupUnits at h
  split at h
  · cases h; simp [declGroupUnits]
  · rw [addUnitsList_units h]; rfl
  · split at h
    · cases h
    · rename_i c1 h1
      split at h
      · cases h
      · rename_i c2 h2
        rw [addUnitsList_units h, addUnitsList_units h2, addUnitsList_units h1]
        simp [declGroupUnits]

theorem addGroup_units {α : Type} {b b' : Builder α} {g : QuantityGroup α} (h : addGroup b g = .ok b') :
    b'.core.units = b.core.units ++ declGroupUnits g.quantity g.units := by
  unfold addGroup at h
  split at h
  · cases h
  · rename_i c hc
    split at h
    · cases h; exact addGroupUnits_units hc
    · split at h
      · cases h
      · cases h; exact addGroupUnits_units hc

theorem addGroups_units {α : Type} {gs : List (QuantityGroup α)} {b b' : Builder α} (h : addGroups gs b = .ok b') :
    b'.core.units = b.core.units ++ gs.flatMap (fun g => declGroupUnits g.quantity g.units) := by
  induction gs generalizing b with
  | nil => simp [addGroups] at h; subst h; simp
  | cons g gs ih =>
    unfold addGroups at h
    split at h
    · cases h
    · rename_i b1 hb1
      rw [ih h, addGroup_units hb1]; simp

theorem addFiles_units {α : Type} {fs : List (UnitsFile α)} {b b' : Builder α} (h : addFiles fs b = .ok b') :
    b'.core.units = b.core.units ++ declared fs := by
  induction fs generalizing b with
  | nil => simp [addFiles] at h; subst h; simp [declared]
  | cons f fs ih =>
    unfold addFiles at h
    split at h
    · cases h
    · rename_i b1 hb1
      have : b1.core.units = b.core.units ++ declFile f := by
        unfold addUnitsFile at hb1
        split at hb1
        · cases hb1
        · rename_i b0 hb0; cases hb1
          rw [addFileSettings_core]; exact addGroups_units hb0
      rw [ih h, this]; simp [declared]

/-- the first units of `units` carry the SI flags of `d` -/
def FlagsFrom {α : Type} (d units : List (UnitB α)) : Prop :=
  ∀ (i : Nat) (x : UnitB α), d[i]? = some x → ∃ y, units[i]? = some y ∧ y.expandSi = x.expandSi ∧ y.isExpanded = x.isExpanded

theorem FlagsFrom.refl {α : Type} (d : List (UnitB α)) : FlagsFrom d d := fun _ x h => ⟨x, h, rfl, rfl⟩

theorem FlagsFrom.step {α : Type} {d a b : List (UnitB α)} (h : FlagsFrom d a)
    (hab : ∀ (i : Nat) (y : UnitB α), a[i]? = some y → ∃ z, b[i]? = some z ∧ z.expandSi = y.expandSi ∧ z.isExpanded = y.isExpanded) :
    FlagsFrom d b := by
  intro i x hx
  obtain ⟨y, hy, e1, e2⟩ := h i x hx
  obtain ⟨z, hz, f1, f2⟩ := hab i y hy
  exact ⟨z, hz, f1.trans e1, f2.trans e2⟩

theorem expandAt_flags {α : Type} [Arith α] (si : SIConf) (n0 i : Nat) (c c' : Core α) (hs : ExpState n0 i c) (hi : i < n0)
    (h : expandAt si c i = .ok c') :
    ∀ (j : Nat) (y : UnitB α), c.units[j]? = some y → ∃ z, c'.units[j]? = some z ∧ z.expandSi = y.expandSi ∧ z.isExpanded = y.isExpanded := by
  obtain ⟨u, hu, hcase⟩ := expandAt_shape si n0 i c c' hs hi h
  rcases hcase with ⟨_, rfl⟩ | ⟨_, pfx, sym, m, _, _, hunits, _, _⟩
  · exact fun j y hy => ⟨y, hy, rfl, rfl⟩
  · intro j y hy
    rw [hunits, getElem?_set']
    have hj := lt_of_getElem?_some hy
    by_cases hij : i = j
    · subst hij; rw [hu] at hy; cases hy
      refine ⟨{ u with expanded := some m }, ?_, rfl, rfl⟩
      simp
      exact Nat.lt_of_lt_of_le hj (Nat.le_add_right _ _)
    · exact ⟨y, by simp [hij, List.getElem?_append_left hj, hy], rfl, rfl⟩

theorem expandLoop_flags {α : Type} [Arith α] (si : SIConf) (n0 : Nat) (k i : Nat) (hik : i + k = n0) (c c' : Core α)
    (hs : ExpState n0 i c) (h : expandLoop si (List.range' i k) c = .ok c') (d : List (UnitB α)) (hd : FlagsFrom d c.units) :
    FlagsFrom d c'.units := by
  induction k generalizing i c with
  | zero => simp [expandLoop] at h; subst h; exact hd
  | succ k ih =>
    rw [List.range'_succ] at h
    unfold expandLoop at h
    have h1 := expandAt_good si n0 i c hs (by omega)
    split at h
    · cases h
    · rename_i c1 hc1; rw [hc1] at h1
      exact ih (i + 1) (by omega) c1 h1 h (hd.step (expandAt_flags si n0 i c c1 hs (by omega) hc1))

theorem applyExtendOne_flags {α : Type} [Arith α] (si : SIConf) (pr : Prec) (c c' : Core α) (ie : Nat × ExtendEntry α)
    (hc : Ready c) (hid : ie.1 < c.units.length) (h : applyExtendOne si pr c ie = .ok c') :
    ∀ (j : Nat) (y : UnitB α), c.units[j]? = some y → ∃ z, c'.units[j]? = some z ∧ z.expandSi = y.expandSi ∧ z.isExpanded = y.isExpanded := by
  obtain ⟨u0, hu0⟩ : ∃ u0, c.units[ie.1]? = some u0 := ⟨c.units[ie.1]'hid, by simp [hid]⟩
  obtain ⟨hat, hframe⟩ := applyExtendOne_effect si pr c c' ie u0 hc hu0 h
  intro j y hy
  by_cases hj : j = ie.1
  · subst hj; rw [hu0] at hy; cases hy; exact ⟨_, hat, rfl, rfl⟩
  · obtain ⟨z, hz, _, hs, _⟩ := hframe.2 j hj y hy
    exact ⟨z, hz, hs.2.2, hs.2.1⟩

theorem applyExtendList_flags {α : Type} [Arith α] (si : SIConf) (pr : Prec) (l : List (Nat × ExtendEntry α)) (c c' : Core α)
    (hc : Ready c) (hid : ∀ ie, ie ∈ l → ie.1 < c.units.length) (h : applyExtendList si pr l c = .ok c')
    (d : List (UnitB α)) (hd : FlagsFrom d c.units) : FlagsFrom d c'.units := by
  induction l generalizing c with
  | nil => simp [applyExtendList] at h; subst h; exact hd
  | cons ie rest ih =>
    unfold applyExtendList at h
    have hg := applyExtendOne_good si pr c ie hc (hid ie (by simp))
    split at h
    · cases h
    · rename_i c1 hc1; rw [hc1] at hg
      exact ih c1 hg.1 (fun x hx => by rw [hg.2]; exact hid x (by simp [hx])) h
        (hd.step (applyExtendOne_flags si pr c c1 ie hc (hid ie (by simp)) hc1))

theorem applyExtendGroups_flags {α : Type} [Arith α] (si : SIConf) (gs : List (Extend α)) (c c' : Core α) (hc : Ready c)
    (h : applyExtendGroups si gs c = .ok c') (d : List (UnitB α)) (hd : FlagsFrom d c.units) : FlagsFrom d c'.units := by
  induction gs generalizing c with
  | nil => simp [applyExtendGroups] at h; subst h; exact hd
  | cons g gs ih =>
    unfold applyExtendGroups at h
    have hg := applyExtendGroup_good si c g hc
    split at h
    · cases h
    · rename_i c1 hc1; rw [hc1] at hg
      refine ih c1 hg h ?_
      unfold applyExtendGroup at hc1
      split at hc1
      · cases hc1
      · rename_i upd hupd
        exact applyExtendList_flags si g.precedence upd c c1 hc ((resolveExtend_good c hc.1 g.units [] (by simp)).of_ok hupd) hc1 d hd

/-- the packaged state: the declared units come first and keep their flags -/
theorem buildCore_declared {α : Type} [Arith α] (files : List (UnitsFile α)) (b : Builder α) (c : Core α)
    (h : buildCore files = .ok (b, c)) : FlagsFrom (declared files) c.units ∧ SIInv b.si c.units ∧ Ready c := by
  unfold buildCore at h
  split at h
  · cases h
  · rename_i b0 hb0
    split at h
    · cases h
    · rename_i c1 hc1
      cases h
      have hbok := (addFiles_good files Builder.empty BOK.empty).of_ok hb0
      have hunits : b.core.units = declared files := by rw [addFiles_units hb0]; simp [Builder.empty]
      refine ⟨?_, finishCore_si b c hbok.1 hc1, (finishCore_good b hbok.1).of_ok hc1⟩
      unfold finishCore at hc1
      split at hc1
      · cases hc1
      · rename_i ce hce
        have hr := (expandAll_good b.si b.core hbok.1).of_ok hce
        refine applyExtendGroups_flags b.si b.extend ce c hr hc1 _ ?_
        unfold expandAll at hce
        rw [List.range_eq_range'] at hce
        have h0 : ExpState b.core.units.length 0 b.core := by
          refine ⟨hbok.1.1, Nat.le_refl _, ?_, ?_, ?_⟩
          · intro id u h; omega
          · intro id u _ _ h; exact hbok.1.2 id u h
          · intro id u hge h; have := lt_of_getElem?_some h; omega
        exact expandLoop_flags b.si _ _ 0 (by omega) b.core ce h0 hce _ (by rw [hunits]; exact FlagsFrom.refl _)

end Cook.Bld

namespace Cook.Bld
open Cook

/-- the first units of `units` are the units of `d` (up to the SI records) -/
def UnitsFrom {α : Type} (d units : List (UnitB α)) : Prop :=
  ∀ (i : Nat) (x : UnitB α), d[i]? = some x → ∃ y, units[i]? = some y ∧ y.unit = x.unit

theorem expandAt_unitfield {α : Type} [Arith α] (si : SIConf) (n0 i : Nat) (c c' : Core α) (hs : ExpState n0 i c) (hi : i < n0)
    (h : expandAt si c i = .ok c') :
    ∀ (j : Nat) (y : UnitB α), c.units[j]? = some y → ∃ z, c'.units[j]? = some z ∧ z.unit = y.unit := by
  obtain ⟨u, hu, hcase⟩ := expandAt_shape si n0 i c c' hs hi h
  rcases hcase with ⟨_, rfl⟩ | ⟨_, pfx, sym, m, _, _, hunits, _, _⟩
  · exact fun j y hy => ⟨y, hy, rfl⟩
  · intro j y hy
    rw [hunits, getElem?_set']
    have hj := lt_of_getElem?_some hy
    by_cases hij : i = j
    · subst hij; rw [hu] at hy; cases hy
      refine ⟨{ u with expanded := some m }, ?_, rfl⟩
      simp
      exact Nat.lt_of_lt_of_le hj (Nat.le_add_right _ _)
    · exact ⟨y, by simp [hij, List.getElem?_append_left hj, hy], rfl⟩

theorem expandLoop_unitfield {α : Type} [Arith α] (si : SIConf) (n0 : Nat) (k i : Nat) (hik : i + k = n0) (c c' : Core α)
    (hs : ExpState n0 i c) (h : expandLoop si (List.range' i k) c = .ok c') (d : List (UnitB α)) (hd : UnitsFrom d c.units) :
    UnitsFrom d c'.units := by
  induction k generalizing i c with
  | zero => simp [expandLoop] at h; subst h; exact hd
  | succ k ih =>
    rw [List.range'_succ] at h
    unfold expandLoop at h
    have h1 := expandAt_good si n0 i c hs (by omega)
    split at h
    · cases h
    · rename_i c1 hc1; rw [hc1] at h1
      refine ih (i + 1) (by omega) c1 h1 h ?_
      intro j x hx
      obtain ⟨y, hy, e⟩ := hd j x hx
      obtain ⟨z, hz, e'⟩ := expandAt_unitfield si n0 i c c1 hs (by omega) hc1 j y hy
      exact ⟨z, hz, e'.trans e⟩

/-- without extend blocks the declared units are, unchanged, the first units of the packaged state -/
theorem buildCore_declared_exact {α : Type} [Arith α] (files : List (UnitsFile α)) (b : Builder α) (c : Core α)
    (hne : ∀ f, f ∈ files → f.extend = none) (h : buildCore files = .ok (b, c)) : UnitsFrom (declared files) c.units := by
  unfold buildCore at h
  split at h
  · cases h
  · rename_i b0 hb0
    split at h
    · cases h
    · rename_i c1 hc1
      cases h
      have hbok := (addFiles_good files Builder.empty BOK.empty).of_ok hb0
      have hunits : b.core.units = declared files := by rw [addFiles_units hb0]; simp [Builder.empty]
      obtain ⟨hext, _⟩ := addFiles_settings hb0
      have hext' : b.extend = [] := by
        rw [hext]; simp only [Builder.empty, List.nil_append, List.filterMap_eq_nil_iff]
        intro f hf; exact hne f hf
      unfold finishCore at hc1
      split at hc1
      · cases hc1
      · rename_i ce hce
        rw [hext'] at hc1
        simp [applyExtendGroups] at hc1; subst hc1
        unfold expandAll at hce
        rw [List.range_eq_range'] at hce
        have h0 : ExpState b.core.units.length 0 b.core := by
          refine ⟨hbok.1.1, Nat.le_refl _, ?_, ?_, ?_⟩
          · intro id u h; omega
          · intro id u _ _ h; exact hbok.1.2 id u h
          · intro id u hge h; have := lt_of_getElem?_some h; omega
        exact expandLoop_unitfield b.si _ _ 0 (by omega) b.core ce h0 hce _ (by rw [hunits]; exact fun i x hx => ⟨x, hx, rfl⟩)

end Cook.Bld
