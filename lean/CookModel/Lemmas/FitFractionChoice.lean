import CookModel.Lemmas.Convert
/-
  Which candidate `ScaledQuantity::fit_fraction` (src/convert/mod.rs:531) selects.  Prefix `ffc_`.

  The code: for every unit of the target system's best list (in list order) whose fractions configuration is enabled,
  convert the value and try `Number::new_approx` with that unit's configuration; of the successful ones take
  `Iterator::min_by` of the key `(den, whole as f64, |err|)` (a plain number counts as `(1, value, 0)`), compared
  lexicographically with `partial_cmp(..).unwrap_or(Less)`.  `min_by` returns the FIRST minimal element.
  Over ℚ `partial_cmp` is total, so the `unwrap_or` never fires.

  Specification-side vocabulary only: `keyLt`, `fracCandOf`.
-/
namespace Cook
open Arith

/-- strict lexicographic order of the key triples -/
def keyLt (a b : FracKey Rat) : Prop :=
  a.den < b.den ∨ (a.den = b.den ∧ (a.whole < b.whole ∨ (a.whole = b.whole ∧ a.err < b.err)))

instance (a b : FracKey Rat) : Decidable (keyLt a b) := by unfold keyLt; infer_instance

theorem ffc_cmpA (a b : Rat) :
    cmpA a b = if a < b then some .lt else if a = b then some .eq else some .gt := by
  unfold cmpA
  simp only [rat_lt, rat_eq, decide_eq_true_eq]
  split
  · rfl
  · split
    · rfl
    · rename_i h1 h2
      have : b < a := by grind
      simp [this]

/-- over ℚ the comparison of the code is the strict lexicographic order -/
theorem ffc_cmpKey_lt (a b : FracKey Rat) : cmpKey a b = .lt ↔ keyLt a b := by
  unfold cmpKey keyLt
  rw [ffc_cmpA, ffc_cmpA]
  by_cases h1 : a.den < b.den
  · simp [h1]
  · by_cases h2 : b.den < a.den
    · simp only [h1, h2, if_true, if_false]
      constructor
      · intro h; cases h
      · intro h
        rcases h with h | ⟨h, _⟩
        · first | exact h.elim | omega
        · omega
    · have hden : a.den = b.den := by omega
      simp only [h1, h2, if_false, false_or, hden, true_and]
      by_cases h3 : a.whole < b.whole
      · simp [h3]
      · by_cases h4 : a.whole = b.whole
        · simp only [h3, h4, if_false, if_true, false_or, true_and]
          by_cases h5 : a.err < b.err
          · simp [h5]
          · by_cases h6 : a.err = b.err
            · simp [h6]
            · simp [h5, h6]
        · simp [h3, h4]

theorem ffc_keyLt_trans {a b c : FracKey Rat} (h1 : keyLt a b) (h2 : keyLt b c) : keyLt a c := by
  unfold keyLt at *
  rcases h1 with h1 | ⟨e1, h1 | ⟨e1', h1⟩⟩ <;> rcases h2 with h2 | ⟨e2, h2 | ⟨e2', h2⟩⟩
  · left; omega
  · left; omega
  · left; omega
  · left; omega
  · right; exact ⟨by omega, Or.inl (by grind)⟩
  · right; exact ⟨by omega, Or.inl (by grind)⟩
  · left; omega
  · right; exact ⟨by omega, Or.inl (by grind)⟩
  · right; exact ⟨by omega, Or.inr ⟨by grind, by grind⟩⟩

/-- `a < b` and `¬ c < b` give `a < c` (the order is a strict weak order) -/
theorem ffc_keyLt_of_lt_of_not_lt {a b c : FracKey Rat} (h1 : keyLt a b) (h2 : ¬ keyLt c b) : keyLt a c := by
  unfold keyLt at *
  by_cases hd : b.den < c.den
  · rcases h1 with h1 | ⟨e1, _⟩
    · left; omega
    · left; omega
  · have hd' : b.den = c.den := by
      rcases Nat.lt_trichotomy b.den c.den with h | h | h
      · exact absurd h hd
      · exact h
      · exact absurd (Or.inl h) h2
    have h2' : ¬ (c.whole < b.whole ∨ (c.whole = b.whole ∧ c.err < b.err)) := by
      intro h; exact h2 (Or.inr ⟨hd'.symm, h⟩)
    rcases h1 with h1 | ⟨e1, h1 | ⟨e1', h1⟩⟩
    · left; omega
    · right; refine ⟨by omega, ?_⟩
      by_cases hw : b.whole = c.whole
      · left; grind
      · left; grind
    · right; refine ⟨by omega, ?_⟩
      by_cases hw : b.whole = c.whole
      · right; constructor <;> grind
      · left; grind

theorem ffc_minStep (x y : Number Rat × Unit Rat) :
    minStep x y = if keyLt (fracKey y.1) (fracKey x.1) then y else x := by
  unfold minStep
  by_cases h : keyLt (fracKey y.1) (fracKey x.1)
  · simp [h, (ffc_cmpKey_lt _ _).mpr h]
  · have : cmpKey (fracKey y.1) (fracKey x.1) ≠ .lt := fun hc => h ((ffc_cmpKey_lt _ _).mp hc)
    simp [h, this]

/-- `min_by`: the result splits the list into a part before it whose keys are all strictly larger and a part after it
    none of whose keys is smaller — it is the FIRST minimal element -/
theorem ffc_foldl_min (xs : List (Number Rat × Unit Rat)) (x : Number Rat × Unit Rat) :
    ∃ pre post, x :: xs = pre ++ (xs.foldl minStep x) :: post ∧
      (∀ y ∈ pre, keyLt (fracKey (xs.foldl minStep x).1) (fracKey y.1)) ∧
      (∀ y ∈ post, ¬ keyLt (fracKey y.1) (fracKey (xs.foldl minStep x).1)) := by
  induction xs generalizing x with
  | nil => exact ⟨[], [], rfl, by simp, by simp⟩
  | cons y ys ih =>
    simp only [List.foldl_cons]
    obtain ⟨pre', post', hl, hpre, hpost⟩ := ih (minStep x y)
    rw [ffc_minStep] at hl hpre hpost ⊢
    by_cases hlt : keyLt (fracKey y.1) (fracKey x.1)
    · simp only [hlt, if_true] at hl hpre hpost ⊢
      refine ⟨x :: pre', post', by rw [List.cons_append, ← hl], ?_, hpost⟩
      intro z hz
      rcases List.mem_cons.mp hz with rfl | hz
      · cases pre' with
        | nil =>
          simp only [List.nil_append, List.cons.injEq] at hl
          rw [← hl.1]; exact hlt
        | cons p ps =>
          simp only [List.cons_append, List.cons.injEq] at hl
          have := hpre p (by simp)
          rw [← hl.1] at this
          exact ffc_keyLt_trans this hlt
      · exact hpre z hz
    · simp only [hlt, if_false] at hl hpre hpost ⊢
      cases pre' with
      | nil =>
        simp only [List.nil_append, List.cons.injEq] at hl
        refine ⟨[], y :: ys, by rw [← hl.1]; rfl, by simp, ?_⟩
        intro z hz
        rcases List.mem_cons.mp hz with rfl | hz
        · rw [← hl.1]; exact hlt
        · rw [hl.2] at hz; exact hpost z hz
      | cons p ps =>
        simp only [List.cons_append, List.cons.injEq] at hl
        refine ⟨x :: y :: ps, post', (by simp only [List.cons_append]; exact congrArg (fun l => x :: y :: l) hl.2), ?_, hpost⟩
        intro z hz
        rcases List.mem_cons.mp hz with rfl | hz
        · have := hpre p (by simp); rw [← hl.1] at this; exact this
        · rcases List.mem_cons.mp hz with rfl | hz
          · have := hpre p (by simp)
            rw [← hl.1] at this
            exact ffc_keyLt_of_lt_of_not_lt this hlt
          · exact hpre z (by simp [hz])

theorem ffc_minByKey {l : List (Number Rat × Unit Rat)} {x : Number Rat × Unit Rat}
    (h : minByKey l = some x) :
    ∃ pre post, l = pre ++ x :: post ∧ (∀ y ∈ pre, keyLt (fracKey x.1) (fracKey y.1)) ∧
      (∀ y ∈ post, ¬ keyLt (fracKey y.1) (fracKey x.1)) := by
  cases l with
  | nil => cases h
  | cons a as =>
    simp only [minByKey, Option.some.injEq] at h
    rw [← h]; exact ffc_foldl_min as a

/-! ### the candidates -/

/-- the candidate a best-list entry contributes (the body of the `filter_map` closure) -/
def fracCandOf (c : Converter Rat) (value : Rat) (unit : Unit Rat) (e : Rat × Unit Rat) :
    Option (Number Rat × Unit Rat) :=
  if (c.fractionsConfig e.2).enabled then
    match convertF64 value unit e.2 with
    | some nv => (c.approx nv (c.fractionsConfig e.2)).map (fun n => (n, e.2))
    | none => none
  else none

theorem ffc_candidates (c : Converter Rat) (value : Rat) (unit : Unit Rat) :
    ∀ (es : List (Rat × Unit Rat)) (cands : List (Number Rat × Unit Rat)),
      fracCandidates c value unit es = .ok cands → cands = es.filterMap (fracCandOf c value unit) := by
  intro es
  induction es with
  | nil =>
    intro cands h
    simp only [fracCandidates, Except.ok.injEq] at h
    subst h; rfl
  | cons e rest ih =>
    intro cands h
    unfold fracCandidates at h
    simp only [List.filterMap_cons, fracCandOf]
    split at h
    · rename_i hen
      have : (c.fractionsConfig e.2).enabled = false := by simpa using hen
      simp only [this, Bool.false_eq_true, if_false]
      exact ih cands h
    · rename_i hen
      have : (c.fractionsConfig e.2).enabled = true := by simpa using hen
      simp only [this, if_true]
      split at h
      · cases h
      · rename_i nv hnv
        simp only [hnv]
        split at h
        · rename_i hap
          simp only [hap, Option.map_none]
          exact ih cands h
        · rename_i n hap
          simp only [hap, Option.map_some]
          split at h
          · cases h
          · rename_i r hr
            simp only [Except.ok.injEq] at h; subst h
            rw [ih r hr]

theorem ffc_candOf_spec {c : Converter Rat} {value : Rat} {unit : Unit Rat} {e : Rat × Unit Rat}
    {p : Number Rat × Unit Rat} (h : fracCandOf c value unit e = some p) :
    p.2 = e.2 ∧ (c.fractionsConfig p.2).enabled = true ∧
      ∃ nv, convertF64 value unit p.2 = some nv ∧ c.approx nv (c.fractionsConfig p.2) = some p.1 := by
  unfold fracCandOf at h
  split at h
  · rename_i hen
    split at h
    · rename_i nv hnv
      simp only [Option.map_eq_some_iff] at h
      obtain ⟨n, hn, rfl⟩ := h
      exact ⟨rfl, hen, nv, hnv, hn⟩
    · cases h
  · cases h

end Cook
