import CookModel.Lemmas.Convert
/-
  Which candidate `ScaledQuantity::fit_fraction` (src/convert/mod.rs:531) selects.  Prefix `ffc_`.

  The code: for every unit of the target system's best list (in list order) whose fractions configuration is enabled,
  convert the value and try `Number::new_approx` with that unit's configuration; of the successful ones take
  `Iterator::min_by` of the key `(den, whole as f64, |err|)` (a plain number counts as `(1, value, 0)`), compared
  lexicographically with `partial_cmp(..).unwrap_or(Less)`.  `min_by` returns the FIRST minimal element.
  Over ℚ `partial_cmp` is total, so the `unwrap_or` never fires.

  Specification-side vocabulary only: `keyLt`, `fracCandOf`.
-/
namespace Cook
open Arith

/-- strict lexicographic order of the key triples -/
def keyLt (a b : FracKey Rat) : Prop :=
  a.den < b.den ∨ (a.den = b.den ∧ (a.whole < b.whole ∨ (a.whole = b.whole ∧ a.err < b.err)))

instance (a b : FracKey Rat) : Decidable (keyLt a b) := by unfold keyLt; infer_instance

theorem ffc_cmpA (a b : Rat) :
    cmpA a b = if a < b then some .lt else if a = b then some .eq else some .gt := by
  unfold cmpA
  simp only [rat_lt, rat_eq, decide_eq_true_eq]
  split
  · rfl
  · split
    · rfl
    · rename_i h1 h2
      have : b < a := by grind
      simp [this]

/-- over ℚ the comparison of the code is the strict lexicographic order -/
theorem ffc_cmpKey_lt (a b : FracKey Rat) : cmpKey a b = .lt ↔ keyLt a b := by
  unfold cmpKey keyLt
  rw [ffc_cmpA, ffc_cmpA]
  by_cases h1 : a.den < b.den
  · simp [h1]
  · by_cases h2 : b.den < a.den
    · simp only [h1, h2, if_true, if_false]
      constructor
      · intro h; cases h
      · intro h
        rcases h with h | ⟨h, _⟩
        · first | exact h.elim | omega
        · omega
    · have hden : a.den = b.den := by omega
      simp only [h1, h2, if_false, false_or, hden, true_and]
      by_cases h3 : a.whole < b.whole
      · simp [h3]
      · by_cases h4 : a.whole = b.whole
        · simp only [h3, h4, if_false, if_true, false_or, true_and]
          by_cases h5 : a.err < b.err
          · simp [h5]
          · by_cases h6 : a.err = b.err
            · simp [h6]
            · simp [h5, h6]
        · simp [h3, h4]

theorem ffc_keyLt_trans {a b c : FracKey Rat} (h1 : keyLt a b) (h2 : keyLt b c) : keyLt a c := by
  unfold keyLt at *
  rcases h1 with h1 | ⟨e1, h1 | ⟨e1', h1⟩⟩ <;> rcases h2 with h2 | ⟨e2, h2 | ⟨e2', h2⟩⟩
  · left; omega
  · left; omega
  · left; omega
  · left; omega
  · right; exact ⟨by omega, Or.inl (by grind)⟩
  · right; exact ⟨by omega, Or.inl (by grind)⟩
  · left; omega
  · right; exact ⟨by omega, Or.inl (by grind)⟩
  · right; exact ⟨by omega, Or.inr ⟨by grind, by grind⟩⟩

/-- `a < b` and `¬ c < b` give `a < c` (the order is a strict weak order) -/
theorem ffc_keyLt_of_lt_of_not_lt {a b c : FracKey Rat} (h1 : keyLt a b) (h2 : ¬ keyLt c b) : keyLt a c := by
  unfold keyLt at *
  by_cases hd : b.den < c.den
  · rcases h1 with h1 | ⟨e1, _⟩
    · left; omega
    · left; omega
  · have hd' : b.den = c.den := by
      rcases Nat.lt_trichotomy b.den c.den with h | h | h
      · exact absurd h hd
      · exact h
      · exact absurd (Or.inl h) h2
    have h2' : ¬ (c.whole < b.whole ∨ (c.whole = b.whole ∧ c.err < b.err)) := by
      intro h; exact h2 (Or.inr ⟨hd'.symm, h⟩)
    rcases h1 with h1 | ⟨e1, h1 | ⟨e1', h1⟩⟩
    · left; omega
    · right; refine ⟨by omega, ?_⟩
      by_cases hw : b.whole = c.whole
      · left; grind
      · left; grind
    · right; refine ⟨by omega, ?_⟩
      by_cases hw : b.whole = c.whole
      · right; constructor <;> grind
      · left; grind

theorem ffc_minStep (x y : Number Rat × Unit Rat) :
    minStep x y = if keyLt (fracKey y.1) (fracKey x.1) then y else x := by
  unfold minStep
  by_cases h : keyLt (fracKey y.1) (fracKey x.1)
  · simp [h, (ffc_cmpKey_lt _ _).mpr h]
  · have : cmpKey (fracKey y.1) (fracKey x.1) ≠ .lt := fun hc => h ((ffc_cmpKey_lt _ _).mp hc)
    simp [h, this]

/-- `min_by`: the result splits the list into a part before it whose keys are all strictly larger and a part after it
    none of whose keys is smaller — it is the FIRST minimal element -/
theorem ffc_foldl_min (xs : List (Number Rat × Unit Rat)) (x : Number Rat × Unit Rat) :
    ∃ pre post, x :: xs = pre ++ (xs.foldl minStep x) :: post ∧
      (∀ y ∈ pre, keyLt (fracKey (xs.foldl minStep x).1) (fracKey y.1)) ∧
      (∀ y ∈ post, ¬ keyLt (fracKey y.1) (fracKey (xs.foldl minStep x).1)) := by
  induction xs generalizing x with
  | nil => exact ⟨[], [], rfl, by simp, by simp⟩
  | cons y ys ih =>
    simp only [List.foldl_cons]
    obtain ⟨pre', post', hl, hpre, hpost⟩ := ih (minStep x y)
    rw [ffc_minStep] at hl hpre hpost ⊢
    by_cases hlt : keyLt (fracKey y.1) (fracKey x.1)
    · simp only [hlt, if_true] at hl hpre hpost ⊢
      refine ⟨x :: pre', post', by rw [List.cons_append, ← hl], ?_, hpost⟩
      intro z hz
      rcases List.mem_cons.mp hz with rfl | hz
      · cases pre' with
        | nil =>
          simp only [List.nil_append, List.cons.injEq] at hl
          rw [← hl.1]; exact hlt
        | cons p ps =>
          simp only [List.cons_append, List.cons.injEq] at hl
          have := hpre p (by simp)
          rw [← hl.1] at this
          exact ffc_keyLt_trans this hlt
      · exact hpre z hz
    · simp only [hlt, if_false] at hl hpre hpost ⊢
      cases pre' with
      | nil =>
        simp only [List.nil_append, List.cons.injEq] at hl
        refine ⟨[], y :: ys, by rw [← hl.1]; rfl, by simp, ?_⟩
        intro z hz
        rcases List.mem_cons.mp hz with rfl | hz
        · rw [← hl.1]; exact hlt
        · rw [hl.2] at hz; exact hpost z hz
      | cons p ps =>
        simp only [List.cons_append, List.cons.injEq] at hl
        refine ⟨x :: y :: ps, post', (by simp only [List.cons_append]; exact congrArg (fun l => x :: y :: l) hl.2), ?_, hpost⟩
        intro z hz
        rcases List.mem_cons.mp hz with rfl | hz
        · have := hpre p (by simp); rw [← hl.1] at this; exact this
        · rcases List.mem_cons.mp hz with rfl | hz
          · have := hpre p (by simp)
            rw [← hl.1] at this
            exact ffc_keyLt_of_lt_of_not_lt this hlt
          · exact hpre z (by simp [hz])

theorem ffc_minByKey {l : List (Number Rat × Unit Rat)} {x : Number Rat × Unit Rat}
    (h : minByKey l = some x) :
    ∃ pre post, l = pre ++ x :: post ∧ (∀ y ∈ pre, keyLt (fracKey x.1) (fracKey y.1)) ∧
      (∀ y ∈ post, ¬ keyLt (fracKey y.1) (fracKey x.1)) := by
  cases l with
  | nil => cases h
  | cons a as =>
    simp only [minByKey, Option.some.injEq] at h
    rw [← h]; exact ffc_foldl_min as a

/-! ### the candidates -/

/-- the candidate a best-list entry contributes (the body of the `filter_map` closure) -/
def fracCandOf (c : Converter Rat) (value : Rat) (unit : Unit Rat) (e : Rat × Unit Rat) :
    Option (Number Rat × Unit Rat) :=
  if (c.fractionsConfig e.2).enabled then
    match convertF64 value unit e.2 with
    | some nv => (c.approx nv (c.fractionsConfig e.2)).map (fun n => (n, e.2))
    | none => none
  else none

theorem ffc_candidates (c : Converter Rat) (value : Rat) (unit : Unit Rat) :
    ∀ (es : List (Rat × Unit Rat)) (cands : List (Number Rat × Unit Rat)),
      fracCandidates c value unit es = .ok cands → cands = es.filterMap (fracCandOf c value unit) := by
  intro es
  induction es with
  | nil =>
    intro cands h
    simp only [fracCandidates, Except.ok.injEq] at h
    subst h; rfl
  | cons e rest ih =>
    intro cands h
    unfold fracCandidates at h
    simp only [List.filterMap_cons, fracCandOf]
    split at h
    · rename_i hen
      have : (c.fractionsConfig e.2).enabled = false := by simpa using hen
      simp only [this, Bool.false_eq_true, if_false]
      exact ih cands h
    · rename_i hen
      have : (c.fractionsConfig e.2).enabled = true := by simpa using hen
      simp only [this, if_true]
      split at h
      · cases h
      · rename_i nv hnv
        simp only [hnv]
        split at h
        · rename_i hap
          simp only [hap, Option.map_none]
          exact ih cands h
        · rename_i n hap
          simp only [hap, Option.map_some]
          split at h
          · cases h
          · rename_i r hr
            simp only [Except.ok.injEq] at h; subst h
            rw [ih r hr]

theorem ffc_candOf_spec {c : Converter Rat} {value : Rat} {unit : Unit Rat} {e : Rat × Unit Rat}
    {p : Number Rat × Unit Rat} (h : fracCandOf c value unit e = some p) :
    p.2 = e.2 ∧ (c.fractionsConfig p.2).enabled = true ∧
      ∃ nv, convertF64 value unit p.2 = some nv ∧ c.approx nv (c.fractionsConfig p.2) = some p.1 := by
  unfold fracCandOf at h
  split at h
  · rename_i hen
    split at h
    · rename_i nv hnv
      simp only [Option.map_eq_some_iff] at h
      obtain ⟨n, hn, rfl⟩ := h
      exact ⟨rfl, hen, nv, hnv, hn⟩
    · cases h
  · cases h

/-! ### what `fit_fraction` leaves: the selected number in the selected unit, named by its symbol -/

/-- the first number a value states: the number, or the start of a range -/
def Value.leadNumber : Value Rat → Option (Number Rat)
  | .number n => some n
  | .range s _ => some s
  | .text _ => none

theorem ffc_apply {c : Converter Rat} {q q' : SQuantity Rat} {unit : Unit Rat} {sel : Number Rat × Unit Rat}
    {b : Bool} (h : fitFractionApply c q unit sel = (q', .ok b)) :
    b = true ∧ q'.unit = sel.2.symbol? ∧ q'.unit.isSome = true ∧ q'.value.leadNumber = some sel.1 := by
  unfold fitFractionApply at h
  split at h
  · cases h
  · rename_i sym hs
    split at h
    · simp only [Prod.mk.injEq, Except.ok.injEq] at h
      obtain ⟨rfl, rfl⟩ := h
      exact ⟨rfl, hs.symm, rfl, rfl⟩
    · split at h
      · cases h
      · simp only [Prod.mk.injEq, Except.ok.injEq] at h
        obtain ⟨rfl, rfl⟩ := h
        exact ⟨rfl, hs.symm, rfl, rfl⟩
    · cases h

/-- **The choice of `fit_fraction` with a target system.**  `cands` — the candidates — are, in the order of the
    system's best list of the unit's quantity, the units with fractions enabled in which the value (the number, or the
    start of the range) is approximated by `new_approx` under that unit's configuration.  If there is none the quantity
    is untouched and the answer is `false`.  Otherwise the answer is `true`, and the selected candidate `sel` is the
    FIRST one minimal in the lexicographic order of `(den, whole, |err|)` (`keyLt`); the quantity then carries
    `sel`'s number as its (leading) number and the unit text is `sel`'s unit's symbol. -/
theorem ffc_fitFractionWith {c : Converter Rat} (hc : c.Sound) (q : SQuantity Rat) (unit : Unit Rat)
    (system : System) (v : Rat) (hv : q.value.parts.head? = some v) (hu : unit ∈ c.allUnits) :
    (((c.best unit.pq).conversions system).entries.filterMap (fracCandOf c v unit) = [] ∧
      fitFractionWith c q unit system v = (q, .ok false)) ∨
    ∃ pre sel post q', ((c.best unit.pq).conversions system).entries.filterMap (fracCandOf c v unit)
        = pre ++ sel :: post ∧
      (∀ y ∈ pre, keyLt (fracKey sel.1) (fracKey y.1)) ∧ (∀ y ∈ post, ¬ keyLt (fracKey y.1) (fracKey sel.1)) ∧
      fitFractionWith c q unit system v = (q', .ok true) ∧
      q'.unit = sel.2.symbol? ∧ q'.value.leadNumber = some sel.1 := by
  have hq : ∀ e ∈ ((c.best unit.pq).conversions system).entries, e.2.pq = unit.pq :=
    fun e he => (hc.best_mem _ _ _ (List.mem_map.mpr ⟨e, he, rfl⟩)).2
  obtain ⟨cands, hcands⟩ := fracCandidates_ok c v unit _ hq
  have heq := ffc_candidates c v unit _ _ hcands
  unfold fitFractionWith
  rw [hcands, ← heq]
  simp only
  cases hm : minByKey cands with
  | none => exact Or.inl ⟨minByKey_none hm, rfl⟩
  | some sel =>
    right
    simp only
    obtain ⟨pre, post, hl, hpre, hpost⟩ := ffc_minByKey hm
    have hs := fracCandidates_spec c v unit _ _ hcands sel (minByKey_mem hm)
    have hb := hc.best_mem _ _ _ hs.1
    obtain ⟨q', hq', _, _, _⟩ := fitFractionApply_spec c q unit sel v hs.2 hv
      (hc.ratio_ne _ hb.1) (hc.id_inj _ _ hu hb.1) (hc.symbol _ hb.1) hb.2.symm
    obtain ⟨_, h2, _, h4⟩ := ffc_apply hq'
    exact ⟨pre, sel, post, q', hl, hpre, hpost, hq', h2, h4⟩

/-! ### the unit text after a conversion or a fit -/

theorem ffc_dropBool_fst (r : SQuantity Rat × Except ConvErr Bool) : (dropBool r).1 = r.1 := by
  obtain ⟨q, e⟩ := r
  cases e <;> rfl

/-- `fit_fraction` either keeps the unit text or writes the symbol of a unit of the converter -/
theorem ffc_fitFraction_unit {c : Converter Rat} (hc : c.Sound) (q : SQuantity Rat) (unit : Unit Rat)
    (target : Option System) :
    (fitFraction c q unit target).1.unit = q.unit ∨
    ∃ nu ∈ c.allUnits, (fitFraction c q unit target).1.unit = nu.symbol? := by
  unfold fitFraction
  cases target with
  | none => exact Or.inl (tryFraction_unit c q)
  | some system =>
    simp only
    have key : ∀ v, (fitFractionWith c q unit system v).1.unit = q.unit ∨
        ∃ nu ∈ c.allUnits, (fitFractionWith c q unit system v).1.unit = nu.symbol? := by
      intro v
      unfold fitFractionWith
      cases hcands : fracCandidates c v unit ((c.best unit.pq).conversions system).entries with
      | error e => exact Or.inl rfl
      | ok cands =>
        simp only
        cases hm : minByKey cands with
        | none => exact Or.inl rfl
        | some sel =>
          simp only
          have hs := fracCandidates_spec c v unit _ _ hcands sel (minByKey_mem hm)
          have hb := hc.best_mem _ _ _ hs.1
          cases hr : fitFractionApply c q unit sel with
          | mk q' res =>
            cases res with
            | ok b => exact Or.inr ⟨sel.2, hb.1, (ffc_apply hr).2.1⟩
            | error e =>
              left
              unfold fitFractionApply at hr
              repeat' split at hr
              all_goals (
                simp only [Prod.mk.injEq] at hr
                obtain ⟨h1, h2⟩ := hr
                cases h2 <;> rw [← h1])
    cases q.value with
    | text t => exact Or.inl rfl
    | number n => exact key _
    | range s e => exact key _

/-- **The unit text after a successful conversion is `new_unit.symbol()`**: the first symbol of the unit the quantity
    is now in — or, for a unit without symbols, its first name (`Unit.symbol?`) — and that text resolves to that unit. -/
theorem ffc_convertImpl_unit_text {c : Converter Rat} (hc : c.Sound) (q q' : SQuantity Rat) (to : ConvertTo Rat)
    (hto : ∀ x, to = .unit (.unit x) → x ∈ c.allUnits) (h : convertImpl c q to = (q', .ok ())) :
    ∃ nu, nu ∈ c.allUnits ∧ unitInfo c q' = some nu ∧ q'.unit = nu.symbol? := by
  have key : ∃ nu ∈ c.allUnits, q'.unit = nu.symbol? := by
    unfold convertImpl at h
    split at h
    · cases h
    · rename_i utext hqu
      split at h
      · cases h
      · rename_i u hf
        split at h
        · cases h
        · rename_i value hval
          split at h
          · cases h
          · rename_i r hconv
            have hs := convert_spec hc (findUnit_mem hf) hto (show c.convert value (.unit u) to = .ok (r.1, r.2) from hconv)
            split at h
            · cases h
            · rename_i sym hsym
              have fin : ∀ tgt, (fitFraction c ⟨r.1.toValue, some sym⟩ r.2 tgt).1 = q' →
                  ∃ nu ∈ c.allUnits, q'.unit = nu.symbol? := by
                intro tgt hq'
                rcases ffc_fitFraction_unit hc ⟨r.1.toValue, some sym⟩ r.2 tgt with h1 | ⟨nu, hnu, h1⟩
                · exact ⟨r.2, hs.1, by rw [← hq', h1, hsym]⟩
                · exact ⟨nu, hnu, by rw [← hq', h1]⟩
              split at h
              · simp only [Prod.mk.injEq, and_true] at h
                exact ⟨r.2, hs.1, by rw [← h, tryFraction_unit, hsym]⟩
              · have := congrArg Prod.fst h
                rw [ffc_dropBool_fst] at this
                exact fin _ this
              · have := congrArg Prod.fst h
                rw [ffc_dropBool_fst] at this
                exact fin _ this
  obtain ⟨nu, hnu, htext⟩ := key
  have hsome : q'.unit.isSome = true := by rw [htext]; exact hc.symbol nu hnu
  exact ⟨nu, hnu, unitInfo_symbol hc hnu htext hsome, htext⟩

/-- what `Unit::symbol` returns: the first symbol if there is one, else the first name, else the first alias -/
theorem ffc_symbol_rule (u : Unit Rat) :
    (∀ s rest, u.symbols = s :: rest → u.symbol? = some s) ∧
    (∀ s rest, u.symbols = [] → u.names = s :: rest → u.symbol? = some s) ∧
    (u.symbols = [] → u.names = [] → u.symbol? = u.aliases.head?) := by
  unfold Unit.symbol?
  refine ⟨?_, ?_, ?_⟩
  · intro s rest h; simp [h]
  · intro s rest h1 h2; simp [h1, h2]
  · intro h1 h2; simp [h1, h2]

end Cook
