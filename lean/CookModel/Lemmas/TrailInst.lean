import CookModel.Lemmas.TrailDoc
/-
  C17: the three insertion transformations as instances of `SegsIns` (recipe level, well-formed
  recipes) and of `InsHyp` (block level, any input).
-/
set_option linter.unusedSectionVars false
set_option linter.unusedVariables false
set_option linter.unusedSimpArgs false
namespace Cook

/-- filler tokens whose whitespace tokens consist of blanks show blanks only -/
theorem trail_vis_filler (ws : Char → Bool) (hsp : ws ' ' = true) (F : List Tok) (hF : IsFiller F)
    (hb : ∀ t ∈ F, t.kind = .ws → ∀ c ∈ t.text, c = ' ') : ∀ c ∈ F.flatMap vis, ws c = true := by
  intro c hc
  rw [List.mem_flatMap] at hc
  obtain ⟨t, ht, hct⟩ := hc
  have hk := hF t ht
  unfold isWsComment at hk
  unfold vis at hct
  cases hkind : t.kind <;> rw [hkind] at hk hct <;> simp at hk hct
  rw [hb t ht hkind c hct]; exact hsp

/-- **Trailing comment / trailing blanks inside a step**, in front of a line break that belongs
    to the text run (the step continues on the next line) or at the end of the run: `F` (blanks,
    optionally a line comment) inserted behind `l1`, in front of `l2` = nothing or a newline token. -/
theorem trail_segsIns_trailing (ws : Char → Bool) (hsp : ws ' ' = true) (S1 S2 : List SegX) (l1 F l2 : List Tok)
    (hF : IsFiller F) (hb : ∀ t ∈ F, t.kind = .ws → ∀ c ∈ t.text, c = ' ')
    (hl2 : l2 = [] ∨ ∃ nl r, l2 = nl :: r ∧ nl.kind = .newline ∧ nl.text ≠ [])
    (hS2 : ∀ s, S2.head? = some s → s.isText = false) :
    SegsIns ws (S1 ++ .text (l1 ++ F ++ l2) :: S2) (S1 ++ .text (l1 ++ l2) :: S2) := by
  refine SegsIns.inText S1 S2 l1 F l2 (trail_vis_filler ws hsp F hF hb) ?_ hS2
  rcases hl2 with rfl | ⟨nl, r, rfl, hk, ht⟩
  · exact Or.inl rfl
  · refine Or.inr (Or.inl ⟨' ', r.flatMap vis, ?_, hsp⟩)
    simp [vis, hk, ht]

/-- **Block comment between two words of step text**: behind a whitespace token `w` of blanks, the
    comment and a further whitespace token (`F`) are inserted. -/
theorem trail_segsIns_blockComment (ws : Char → Bool) (hsp : ws ' ' = true) (S1 S2 : List SegX) (l1 : List Tok) (w : Tok)
    (F l2 : List Tok) (hw : w.kind = .ws) (hwt : w.text ≠ []) (hwb : ∀ c ∈ w.text, c = ' ')
    (hF : IsFiller F) (hb : ∀ t ∈ F, t.kind = .ws → ∀ c ∈ t.text, c = ' ')
    (hS2 : ∀ s, S2.head? = some s → s.isText = false) :
    SegsIns ws (S1 ++ .text ((l1 ++ [w]) ++ F ++ l2) :: S2) (S1 ++ .text ((l1 ++ [w]) ++ l2) :: S2) := by
  refine SegsIns.inText S1 S2 (l1 ++ [w]) F l2 (trail_vis_filler ws hsp F hF hb) ?_ hS2
  refine Or.inr (Or.inr ?_)
  rcases List.eq_nil_or_concat w.text with h0 | ⟨r, c, hr⟩
  · exact absurd h0 hwt
  · have hr' : w.text = r ++ [c] := by simpa using hr
    refine ⟨l1.flatMap vis ++ r, c, ?_, ?_⟩
    · simp [vis, hw, hr']
    · rw [hwb c (by rw [hr']; simp)]; exact hsp

/-- **Trailing comment / blanks behind a component that ends a line of the step** (or the step):
    the filler is a text run of its own. -/
theorem trail_segsIns_afterComponent (ws : Char → Bool) (hsp : ws ' ' = true) (S1 S2 : List SegX) (F : List Tok)
    (hF : IsFiller F) (hb : ∀ t ∈ F, t.kind = .ws → ∀ c ∈ t.text, c = ' ')
    (hS2 : ∀ s, S2.head? = some s → s.isText = false) :
    SegsIns ws (S1 ++ .text F :: S2) (S1 ++ S2) :=
  SegsIns.newText S1 S2 F (trail_vis_filler ws hsp F hF hb) hS2

/-- one block of the document changed, the others as they were -/
theorem trail_itemIns_at (ws : Char → Bool) (D1 D2 : List DocItem) (segs' segs : List SegX) (h : SegsIns ws segs' segs) :
    LRel (ItemIns ws) (D1 ++ .step segs' :: D2) (D1 ++ .step segs :: D2) := by
  have hrefl : ∀ D : List DocItem, LRel (ItemIns ws) D D := LRel.refl_of (fun _ => Or.inl rfl)
  exact (hrefl D1).append (.cons (Or.inr (Or.inl ⟨segs', segs, rfl, rfl, h⟩)) (hrefl D2))

/-- inserting well-spelled filler into a well-spelled token list: the token in front must be
    complete in front of the filler, the filler complete in front of what follows -/
theorem trail_wellSpelled_insert (cs : CharSpec) (X F Y : List Tok) (h : WellSpelled cs (X ++ Y))
    (hFY : WellSpelled cs (F ++ Y)) (hX : ∀ l, X.getLast? = some l → spellOK cs l.kind l.text (render (F ++ Y)).head? = true) :
    WellSpelled cs (X ++ (F ++ Y)) := by
  rcases List.eq_nil_or_concat X with h0 | ⟨T, l, hT⟩
  · subst h0; exact hFY
  · have hT' : X = T ++ [l] := by simpa using hT
    subst hT'
    have hl := hX l (by simp)
    rw [List.append_assoc] at h ⊢
    apply trail_wellSpelled_replace cs T ([l] ++ Y) ([l] ++ (F ++ Y)) h
    · have hne := spellOK_nonempty hl
      cases ht : l.text with
      | nil => exact absurd ht hne
      | cons c r => simp [render, ht]
    · simp only [List.singleton_append, WellSpelled, wellSpelled, Bool.and_eq_true]
      exact ⟨hl, hFY⟩

/-! ### block level, from the source text (any input, no well-formedness) -/

/-- **Trailing comment in the source: the same blocks.**  Source `u a ⏎ x`: `u` lexes to complete
    lines, `a` is the non-empty text of a line (its tokens contain no newline token and the last one
    is complete in front of a blank and in front of the line feed).  Appending `sp --c` (blanks, a
    line comment) to the line: `next_block` cuts as many blocks from the transformed source as from
    the original, and each is — up to the positions of the tokens behind the insertion (`SameKT`:
    same kind and text) — the original block, or the original block with the whitespace token and
    the line-comment token inserted behind the tokens of `a` (`InsB`). -/
theorem trail_comment_blocks_source (cs : CharSpec) (hs : TrailSpec cs) (u a sp c x : List Char) (L : List (List Tok))
    (hu : lex cs u = L.flatten) (hL : ∀ l ∈ L, IsLine l)
    (hne : sp ≠ []) (hsp : ∀ y ∈ sp, y = ' ') (hc : '\n' ∉ c) (ha : a ≠ [])
    (hnl : ∀ t ∈ lexFrom cs (utf8Len u) a, (t.kind != .newline) = true)
    (hend : EndOK cs (some ' ') (lexFrom cs (utf8Len u) a)) (hend' : EndOK cs (some '\n') (lexFrom cs (utf8Len u) a)) :
    ∃ F nl, F = [⟨.ws, sp, utf8Len u + utf8Len a⟩, ⟨.lineComment, '-' :: '-' :: c, utf8Len u + utf8Len a + utf8Len sp⟩] ∧
      nl = (⟨.newline, ['\n'], utf8Len u + utf8Len a⟩ : Tok) ∧
      LRel (fun b' b => ∃ m, LRel SameKT b' m ∧ InsB (lexFrom cs (utf8Len u) a) F [nl] m b)
        (blocksOf (lex cs (u ++ (a ++ (sp ++ ('-' :: '-' :: c ++ '\n' :: x))))))
        (blocksOf (lex cs (u ++ (a ++ '\n' :: x)))) := by
  refine ⟨_, _, rfl, rfl, ?_⟩
  unfold lex at hu ⊢
  have hnu : EndsNL (lexFrom cs 0 u) := by rw [hu]; exact lines_endsNL L hL
  have hA : lexFrom cs (utf8Len u) a ≠ [] := by
    intro h0
    have := lexFrom_tile cs (utf8Len u) a
    rw [h0] at this
    exact ha (by simpa using this.symm)
  have hlf : ∀ o, lexFrom cs o ('\n' :: x) = ⟨.newline, ['\n'], o⟩ :: lexFrom cs (o + utf8Len ['\n']) x := by
    intro o
    rw [lexFrom_cons, lexOne_lf]
    simp
  have e1 : lexFrom cs 0 (u ++ (a ++ (sp ++ ('-' :: '-' :: c ++ '\n' :: x)))) =
      L.flatten ++ (lexFrom cs (utf8Len u) a ++
        [⟨.ws, sp, utf8Len u + utf8Len a⟩, ⟨.lineComment, '-' :: '-' :: c, utf8Len u + utf8Len a + utf8Len sp⟩] ++
        lexFrom cs (utf8Len u + utf8Len a + utf8Len sp + utf8Len ('-' :: '-' :: c)) ('\n' :: x)) := by
    rw [lexFrom_append_nl cs 0 u _ hnu, hu, Nat.zero_add,
      trail_lex_comment cs hs (utf8Len u) a sp c ('\n' :: x) hne hsp hc (Or.inr rfl) hend]
    simp
  have e2 : lexFrom cs 0 (u ++ (a ++ '\n' :: x)) =
      L.flatten ++ (lexFrom cs (utf8Len u) a ++ [⟨.newline, ['\n'], utf8Len u + utf8Len a⟩] ++
        lexFrom cs (utf8Len u + utf8Len a + utf8Len ['\n']) x) := by
    rw [lexFrom_append_nl cs 0 u _ hnu, hu, Nat.zero_add,
      trail_lexFrom_append cs (utf8Len u) a ('\n' :: x) (by simpa using hend'), hlf]
    simp
  rw [e1, e2]
  have hyp : InsHyp (lexFrom cs (utf8Len u) a)
      [⟨.ws, sp, utf8Len u + utf8Len a⟩, ⟨.lineComment, '-' :: '-' :: c, utf8Len u + utf8Len a + utf8Len sp⟩]
      [⟨.newline, ['\n'], utf8Len u + utf8Len a⟩] :=
    ⟨⟨lexFrom cs (utf8Len u) a, _, rfl, hnl, rfl⟩, hA, by simp, by
      intro t ht
      simp only [List.mem_cons, List.not_mem_nil, or_false] at ht
      rcases ht with rfl | rfl <;> rfl⟩
  apply trail_blocks_insert_rel sameKT_kindPres (fun _ => rfl) hyp L hL
  rw [hlf]
  exact .cons rfl (lexFrom_offset_sameKT cs _ _ x)

/-- **Trailing blanks in the source: the same blocks** (as `trail_comment_blocks_source`, the
    filler being the one whitespace token). -/
theorem trail_spaces_blocks_source (cs : CharSpec) (hs : TrailSpec cs) (hlf' : cs.ws '\n' = false)
    (u a sp x : List Char) (L : List (List Tok))
    (hu : lex cs u = L.flatten) (hL : ∀ l ∈ L, IsLine l)
    (hne : sp ≠ []) (hsp : ∀ y ∈ sp, y = ' ') (ha : a ≠ [])
    (hnl : ∀ t ∈ lexFrom cs (utf8Len u) a, (t.kind != .newline) = true)
    (hend : EndOK cs (some ' ') (lexFrom cs (utf8Len u) a)) (hend' : EndOK cs (some '\n') (lexFrom cs (utf8Len u) a)) :
    ∃ F nl, F = [(⟨.ws, sp, utf8Len u + utf8Len a⟩ : Tok)] ∧
      nl = (⟨.newline, ['\n'], utf8Len u + utf8Len a⟩ : Tok) ∧
      LRel (fun b' b => ∃ m, LRel SameKT b' m ∧ InsB (lexFrom cs (utf8Len u) a) F [nl] m b)
        (blocksOf (lex cs (u ++ (a ++ (sp ++ '\n' :: x)))))
        (blocksOf (lex cs (u ++ (a ++ '\n' :: x)))) := by
  refine ⟨_, _, rfl, rfl, ?_⟩
  unfold lex at hu ⊢
  have hnu : EndsNL (lexFrom cs 0 u) := by rw [hu]; exact lines_endsNL L hL
  have hA : lexFrom cs (utf8Len u) a ≠ [] := by
    intro h0
    have := lexFrom_tile cs (utf8Len u) a
    rw [h0] at this
    exact ha (by simpa using this.symm)
  have hlf : ∀ o, lexFrom cs o ('\n' :: x) = ⟨.newline, ['\n'], o⟩ :: lexFrom cs (o + utf8Len ['\n']) x := by
    intro o
    rw [lexFrom_cons, lexOne_lf]
    simp
  have e1 : lexFrom cs 0 (u ++ (a ++ (sp ++ '\n' :: x))) =
      L.flatten ++ (lexFrom cs (utf8Len u) a ++ [⟨.ws, sp, utf8Len u + utf8Len a⟩] ++
        lexFrom cs (utf8Len u + utf8Len a + utf8Len sp) ('\n' :: x)) := by
    rw [lexFrom_append_nl cs 0 u _ hnu, hu, Nat.zero_add,
      trail_lex_spaces cs hs (utf8Len u) a sp ('\n' :: x) hne hsp (by simp [hlf']) hend]
    simp
  have e2 : lexFrom cs 0 (u ++ (a ++ '\n' :: x)) =
      L.flatten ++ (lexFrom cs (utf8Len u) a ++ [⟨.newline, ['\n'], utf8Len u + utf8Len a⟩] ++
        lexFrom cs (utf8Len u + utf8Len a + utf8Len ['\n']) x) := by
    rw [lexFrom_append_nl cs 0 u _ hnu, hu, Nat.zero_add,
      trail_lexFrom_append cs (utf8Len u) a ('\n' :: x) (by simpa using hend'), hlf]
    simp
  rw [e1, e2]
  have hyp : InsHyp (lexFrom cs (utf8Len u) a) [⟨.ws, sp, utf8Len u + utf8Len a⟩]
      [⟨.newline, ['\n'], utf8Len u + utf8Len a⟩] :=
    ⟨⟨lexFrom cs (utf8Len u) a, _, rfl, hnl, rfl⟩, hA, by simp, by
      intro t ht
      simp only [List.mem_cons, List.not_mem_nil, or_false] at ht
      subst ht; rfl⟩
  apply trail_blocks_insert_rel sameKT_kindPres (fun _ => rfl) hyp L hL
  rw [hlf]
  exact .cons rfl (lexFrom_offset_sameKT cs _ _ x)

/-- which line ends are token boundaries in front of the line feed: as `trail_spellOK_space`, and
    a line comment may also stand there; the token must not be a lone CR (it would join the LF) -/
theorem trail_spellOK_lf (cs : CharSpec) (hcs : CrlfSpec cs) {k : TK} {text : List Char}
    (h : spellOK cs k text none = true) (hcr : text ≠ ['\r'])
    (hbc : k = .blockComment → ['-', ']'] <:+ text.tail.tail) (hesc : k = .escaped → text.length = 2) :
    spellOK cs k text (some '\n') = true := by
  have hlook : ∀ c : Char, c ≠ '\r' → ∀ look, fallsThrough c look = true → fallsThrough c (some '\n') = true := by
    intro c hc look hf
    simp only [fallsThrough, Bool.and_eq_true, bne_iff_ne, ne_eq, Bool.not_eq_true', Option.isNone_iff_eq_none] at hf ⊢
    obtain ⟨⟨⟨⟨⟨⟨⟨h1, h2⟩, h3⟩, h4⟩, h5⟩, h6⟩, _⟩, _⟩ := hf
    refine ⟨⟨⟨⟨⟨⟨⟨h1, h2⟩, h3⟩, h4⟩, h5⟩, h6⟩, ?_⟩, ?_⟩ <;> simp [hc]
  cases text with
  | nil => simp [spellOK] at h
  | cons c r =>
    cases k
    case ws =>
      simp only [spellOK, Bool.and_eq_true, Bool.not_eq_true'] at h ⊢
      obtain ⟨⟨⟨h1, h2⟩, h3⟩, _⟩ := h
      refine ⟨⟨⟨?_, h2⟩, h3⟩, by simpa using hcs.ws_lf⟩
      cases r with
      | nil =>
        have hc : c ≠ '\r' := by intro hc; subst hc; exact hcr rfl
        simpa using hlook c hc _ h1
      | cons d r => simpa using h1
    case lineComment =>
      simp only [spellOK, Bool.and_eq_true, Bool.or_eq_true] at h ⊢
      exact ⟨h.1, Or.inr (by simp)⟩
    case escaped =>
      have := hesc rfl
      simp only [spellOK, Bool.and_eq_true, beq_iff_eq, Bool.or_eq_true] at h ⊢
      refine ⟨h.1, Or.inl ?_⟩
      simpa using this
    case blockComment =>
      have := hbc rfl
      simp only [spellOK, Bool.and_eq_true, beq_iff_eq, Bool.or_eq_true, List.isSuffixOf_iff_suffix] at h ⊢
      refine ⟨h.1, Or.inl ?_⟩
      cases r with
      | nil => simp at h
      | cons d r => simpa using this
    case word =>
      simp only [spellOK, Bool.and_eq_true, Bool.not_eq_true'] at h ⊢
      obtain ⟨⟨⟨⟨h1, h2⟩, h3⟩, h4⟩, _⟩ := h
      refine ⟨⟨⟨⟨?_, h2⟩, h3⟩, h4⟩, by simpa using hcs.word_lf⟩
      cases r with
      | nil =>
        have hc : c ≠ '\r' := by intro hc; subst hc; exact hcr rfl
        simpa using hlook c hc _ h1
      | cons d r => simpa using h1
    case punct =>
      simp only [spellOK, Bool.and_eq_true, Bool.not_eq_true', List.isEmpty_iff] at h ⊢
      obtain ⟨⟨⟨h1, h2⟩, h3⟩, h4⟩ := h
      subst h4
      have hc : c ≠ '\r' := by intro hc; subst hc; exact hcr rfl
      exact ⟨⟨⟨by simpa using hlook c hc _ h1, h2⟩, h3⟩, rfl⟩
    case int =>
      simp only [spellOK, Bool.and_eq_true, Bool.not_eq_true'] at h ⊢
      exact ⟨h.1, by decide⟩
    case zeroInt =>
      simp only [spellOK, Bool.and_eq_true, Bool.not_eq_true'] at h ⊢
      exact ⟨h.1, by decide⟩
    case textStep =>
      simp only [spellOK, Bool.and_eq_true] at h ⊢
      exact ⟨h.1, by decide⟩
    case minus =>
      simp only [spellOK, Bool.and_eq_true] at h ⊢
      exact ⟨h.1, by decide⟩
    all_goals simpa [spellOK] using h

/-- the readable form of `EndOK … (some '\n')`: the line does not end inside a block comment, in a
    lone backslash or in a lone carriage return -/
def CleanEndLF (ts : List Tok) : Prop :=
  ∀ l, ts.getLast? = some l → l.text ≠ ['\r'] ∧
    (l.kind = .blockComment → ['-', ']'] <:+ l.text.tail.tail) ∧ (l.kind = .escaped → l.text.length = 2)

theorem trail_endOK_lf (cs : CharSpec) (hcs : CrlfSpec cs) (o : Nat) (a : List Char)
    (h : CleanEndLF (lexFrom cs o a)) : EndOK cs (some '\n') (lexFrom cs o a) := by
  intro l hl
  obtain ⟨h1, h3, h4⟩ := h l hl
  have hws := lexFrom_wellSpelled cs o a
  obtain ⟨T, hT⟩ : ∃ T, lexFrom cs o a = T ++ [l] := by
    rcases List.eq_nil_or_concat (lexFrom cs o a) with h0 | ⟨T, l', hT⟩
    · rw [h0] at hl; simp at hl
    · refine ⟨T, ?_⟩
      have : lexFrom cs o a = T ++ [l'] := by simpa using hT
      rw [this] at hl ⊢
      simp at hl
      rw [hl]
  rw [hT] at hws
  exact trail_spellOK_lf cs hcs (trail_wellSpelled_last cs T l hws) h1 h3 h4

end Cook
