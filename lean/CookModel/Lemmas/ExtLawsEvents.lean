import CookModel.Lemmas.ExtLawsAnalysisFull
import CookModel.Lemmas.ClosingStream
/-
  C02: the events the parser produces for `UsesNone` blocks carry none of the syntax that the
  MODES gate of `metadata` and the ADVANCED_UNITS gate of `ingredient` look at:
  a `>>` key is not `[…]`, an ingredient has no modifiers and no intermediate reference.
-/
set_option linter.unusedSectionVars false
set_option linter.unusedSimpArgs false
set_option linter.unusedVariables false
namespace Cook

variable {α : Type} [Arith α]

/-- what `UsesNone` guarantees about the events of a block, syntactically -/
def QSyn (cs : CharSpec) : Ev α → Prop
  | .metadata k _ => bracketedKey cs k = false
  | .ingredient i => i.val.modifiers.val = Modifiers.empty ∧ i.val.inter = none
  | _ => True

instance (cs : CharSpec) : DiagQ (QSyn (α := α) cs) := ⟨fun _ => trivial, fun _ => trivial⟩
instance (cs : CharSpec) : TextStable (AllQ (QSyn (α := α) cs)) := ⟨fun evs t h => h.push trivial⟩
instance : DiagStable (fun _ : Array (Ev α) => True) := ⟨fun _ _ _ => trivial, fun _ _ _ => trivial⟩

/-- the result, if any, satisfies `QSyn` -/
def RQ (cs : CharSpec) (r : Option (Ev α)) : Prop := ∀ ev, r = some ev → QSyn cs ev

theorem ingredientP_QSyn (cs : CharSpec) (s : BP α) (hs : stepCore s.toks = true) : RQ cs (ingredientP s).1 := by
  unfold ingredientP
  rw [P_bind_run, currentOffset_run]
  dsimp only
  rw [P_bind_run, consumeK_run]
  cases ht : s.toks[s.cur]? with
  | none => intro ev h; cases h
  | some t =>
    dsimp only
    by_cases hk : t.kind = .at
    · simp only [hk, if_true]
      have hcc := after_marker hs ht (by rw [hk]; rfl)
      rw [P_bind_run, currentOffset_run]
      dsimp only
      rw [P_bind_run, modifiersP_noop _ (compCore_noMod hcc)]
      dsimp only
      have hparse : ∀ pos, parseModifiers (α := α) [] pos = pure ⟨⟨Modifiers.empty, Span.pos pos⟩, none⟩ :=
        fun _ => rfl
      simp only [hparse, pure_bind]
      refine ((?_ : Keeps (fun _ => True) _ (RQ cs)).run _ trivial).2
      keeps
      all_goals (refine Keeps.pure ?_; intro ev h; first | (cases h; done) | (cases h; exact ⟨rfl, rfl⟩))
    · simp only [hk, if_false]
      intro ev h; cases h


variable {I : Array (Ev α) → Prop} [DiagStable I]

theorem cookwareP_shape : Keeps I (cookwareP (α := α)) (fun r => ∀ ev, r = some ev → ∃ c, ev = .cookware c) := by
  unfold cookwareP
  keeps
  all_goals (refine Keeps.pure ?_; intro ev h; first | (cases h; done) | (cases h; exact ⟨_, rfl⟩))

theorem timerP_shape : Keeps I (timerP (α := α)) (fun r => ∀ ev, r = some ev → ∃ c, ev = .timer c) := by
  unfold timerP
  keeps
  all_goals (refine Keeps.pure ?_; intro ev h; first | (cases h; done) | (cases h; exact ⟨_, rfl⟩))

/-! ### one iteration of the step loop -/

/-- the component attempt of `parse_step`'s loop body -/
def stepComp : P α (Option (Ev α)) := do
  match ← peekK with
  | some .at => withRecover ingredientP
  | some .hash => withRecover cookwareP
  | some .tilde => withRecover timerP
  | _ => return none

/-- the rest of the loop body -/
def stepTail (comp : Option (Ev α)) : P α Unit :=
  match comp with
  | some ev => pushEv ev
  | none => do
    let start ← currentOffset
    let c0 ← getCur
    let _ ← bumpAny
    let _ ← consumeWhile (fun k => !isMarker k)
    let s ← get
    let toks := (s.toks.take s.cur).drop c0
    let text ← bpText start toks
    if !text.frags.isEmpty then pushEv (.text text)

theorem stepOne_eq : stepOne (α := α) = stepComp >>= stepTail := rfl

theorem stepComp_QSyn (cs : CharSpec) (s : BP α) (hs : stepCore s.toks = true)
    (hI : AllQ (QSyn (α := α) cs) s.evs) :
    AllQ (QSyn cs) (stepComp s).2.evs ∧ RQ cs (stepComp s).1 := by
  unfold stepComp
  rw [P_bind_run]
  have hp : peekK s = ((s.toks[s.cur]?).map (·.kind), s) := rfl
  rw [hp]
  dsimp only
  generalize (s.toks[s.cur]?).map (·.kind) = k
  split
  · refine ⟨((Keeps.withRecover closing_ingredientP_keeps).run s hI).1, ?_⟩
    rw [withRecover_fst]
    exact ingredientP_QSyn cs s hs
  · have := (Keeps.withRecover (cookwareP_shape (α := α) (I := AllQ (QSyn cs)))).run s hI
    refine ⟨this.1, ?_⟩
    intro ev hev
    obtain ⟨c, rfl⟩ := this.2 ev hev
    trivial
  · have := (Keeps.withRecover (timerP_shape (α := α) (I := AllQ (QSyn cs)))).run s hI
    refine ⟨this.1, ?_⟩
    intro ev hev
    obtain ⟨c, rfl⟩ := this.2 ev hev
    trivial
  · exact ⟨hI, fun ev h => by cases h⟩

theorem stepTail_keeps (cs : CharSpec) (comp : Option (Ev α)) (hr : RQ cs comp) :
    Keeps (AllQ (QSyn (α := α) cs)) (stepTail comp) (fun _ => True) := by
  cases comp with
  | some ev => exact Keeps.pushEv (fun evs h => h.push (hr ev rfl))
  | none => unfold stepTail; keeps

theorem stepOne_QSyn (cs : CharSpec) (s : BP α) (hs : stepCore s.toks = true)
    (hI : AllQ (QSyn (α := α) cs) s.evs) : AllQ (QSyn cs) (stepOne s).2.evs := by
  rw [stepOne_eq, P_bind_run]
  obtain ⟨h1, h2⟩ := stepComp_QSyn cs s hs hI
  exact ((stepTail_keeps cs _ h2).run _ h1).1

theorem stepLoop_QSyn (cs : CharSpec) (fuel : Nat) (s : BP α) (hs : stepCore s.toks = true)
    (hI : AllQ (QSyn (α := α) cs) s.evs) : AllQ (QSyn cs) (stepLoop fuel s).2.evs := by
  induction fuel generalizing s with
  | zero =>
    have : Keeps (AllQ (QSyn (α := α) cs)) (stepLoop 0) (fun _ => True) := by unfold stepLoop; keeps
    exact (this.run s hI).1
  | succ fuel ih =>
    unfold stepLoop
    rw [P_bind_run]
    have hr : restToks s = (s.toks.drop s.cur, s) := rfl
    rw [hr]
    dsimp only
    split
    · exact hI
    · rw [P_bind_run]
      exact ih _ (by rw [(stepOne_ind s hs).toks]; exact hs) (stepOne_QSyn cs s hs hI)

theorem parseStep_QSyn (cs : CharSpec) (s : BP α) (hs : stepCore s.toks = true)
    (hI : AllQ (QSyn (α := α) cs) s.evs) : AllQ (QSyn cs) (parseStep s).2.evs := by
  have e : (parseStep s).2.evs =
      ((stepLoop ((s.toks.drop s.cur).length) ({ s with evs := s.evs.push (.start .step) } : BP α)).2.evs).push
        (.stop .step) := rfl
  rw [e]
  exact (stepLoop_QSyn cs _ ({ s with evs := s.evs.push (.start .step) } : BP α) hs
    (hI.push (ev := .start .step) trivial)).push (ev := .stop .step) trivial

theorem parseMultilineBlock_QSyn (cs : CharSpec) (s : BP α) (hs : stepCore s.toks = true)
    (hI : AllQ (QSyn (α := α) cs) s.evs) : AllQ (QSyn cs) (parseMultilineBlock s).2.evs := by
  have htext : Keeps (AllQ (QSyn (α := α) cs)) (parseTextBlock (α := α)) (fun _ => True) := by
    have h1 : Keeps (AllQ (QSyn (α := α) cs)) (pushEv (α := α) (.start .text)) (fun _ => True) :=
      Keeps.pushEv (fun _ h => h.push trivial)
    have h2 : Keeps (AllQ (QSyn (α := α) cs)) (pushEv (α := α) (.stop .text)) (fun _ => True) :=
      Keeps.pushEv (fun _ h => h.push trivial)
    unfold parseTextBlock; keeps
  unfold parseMultilineBlock
  rw [P_bind_run]
  have ha : allToks s = (s.toks, s) := rfl
  rw [ha]
  dsimp only
  split
  · have : Keeps (AllQ (QSyn (α := α) cs)) (do let _ ← consumeRest (α := α)) (fun _ => True) := by keeps
    exact (this.run s hI).1
  · rw [P_bind_run]
    have hp : peekK s = ((s.toks[s.cur]?).map (·.kind), s) := rfl
    rw [hp]
    dsimp only
    split
    · exact (htext.run s hI).1
    · exact parseStep_QSyn cs s hs hI


/-! ### `parse_block` -/

/-- the single-line attempt of `parse_block` -/
def blockHead (oldStyle : Bool) : P α (Option (Ev α)) := do
  match ← peekK with
  | some .metaStart => withRecover do
    match ← metadataEntry with
    | some (.metadata key value) =>
      let cs := (← get).cs
      let modes ← hasExt Gen.EXT_MODES
      if (isConfigKey cs key && modes) || oldStyle then return some (.metadata key value) else return none
    | _ => return none
  | some .eq => withRecover sectionP
  | _ => return none

theorem parseBlock_eq (oldStyle : Bool) : parseBlock (α := α) oldStyle =
    blockHead oldStyle >>= fun r => match r with
      | some ev => pushEv ev
      | none => parseMultilineBlock := rfl

theorem blockHead_keeps (oldStyle : Bool) : Keeps I (blockHead (α := α) oldStyle) (fun _ => True) := by
  have h1 := (closing_sectionP_keeps (α := α) (I := I)).weaken
  have h2 := (closing_metadataEntry_keeps (α := α) (I := I)).weaken
  unfold blockHead
  keeps

/-- the filter after `metadata_entry` -/
def metaFilter (oldStyle : Bool) (r : Option (Ev α)) : P α (Option (Ev α)) :=
  match r with
  | some (.metadata key value) => do
    let cs := (← get).cs
    let modes ← hasExt Gen.EXT_MODES
    if (isConfigKey cs key && modes) || oldStyle then return some (.metadata key value) else return none
  | _ => return none

theorem metaFilter_run (oldStyle : Bool) (r : Option (Ev α)) (s : BP α) :
    (metaFilter oldStyle r s).2 = s ∧ ((metaFilter oldStyle r s).1 = none ∨
      ∃ key value, r = some (.metadata key value) ∧ (metaFilter oldStyle r s).1 = r) := by
  unfold metaFilter
  split
  · rename_i key value
    show ((if (isConfigKey s.cs key && s.ext.has Gen.EXT_MODES || oldStyle) = true then
        (pure (some (Ev.metadata key value)) : P α _) else pure none) s).2 = s ∧ _
    split
    · exact ⟨rfl, Or.inr ⟨key, value, rfl, by
        show ((if (isConfigKey s.cs key && s.ext.has Gen.EXT_MODES || oldStyle) = true then
          (pure (some (Ev.metadata key value)) : P α _) else pure none) s).1 = _
        rw [if_pos (by assumption)]; rfl⟩⟩
    · exact ⟨rfl, Or.inl (by
        show ((if (isConfigKey s.cs key && s.ext.has Gen.EXT_MODES || oldStyle) = true then
          (pure (some (Ev.metadata key value)) : P α _) else pure none) s).1 = _
        rw [if_neg (by assumption)]; rfl)⟩
  · exact ⟨rfl, Or.inl rfl⟩


theorem blockHead_eq (oldStyle : Bool) : blockHead (α := α) oldStyle =
    peekK >>= fun k => match k with
      | some .metaStart => withRecover (metadataEntry >>= metaFilter oldStyle)
      | some .eq => withRecover sectionP
      | _ => pure none := rfl

theorem withRecover_toks {β : Type} (f : P α (Option β)) (s : BP α) : (withRecover f s).2.toks = (f s).2.toks := by
  rw [withRecover_run_ext]; split <;> rfl

/-- the single-line attempt keeps the token list, and returns a section event, or the metadata
    event that `metadata_entry` returned -/
theorem blockHead_fact (oldStyle : Bool) (s : BP α) :
    (blockHead oldStyle s).2.toks = s.toks ∧ (blockHead oldStyle s).2.cs = s.cs ∧
    ∀ ev, (blockHead oldStyle s).1 = some ev →
      (∃ n, ev = .«section» n) ∨ ∃ key value, ev = .metadata key value ∧
        (metadataEntry s).1 = some (.metadata key value) := by
  rw [blockHead_eq, P_bind_run]
  have hp : peekK s = ((s.toks[s.cur]?).map (·.kind), s) := rfl
  rw [hp]
  dsimp only
  generalize (s.toks[s.cur]?).map (·.kind) = k
  split
  · have hf := metaFilter_run oldStyle (metadataEntry s).1 (metadataEntry s).2
    have hi := metadataEntry_indA.all s
    refine ⟨?_, ?_, ?_⟩
    · rw [withRecover_toks, P_bind_run, hf.1]; exact hi.toks
    · rw [withRecover_run_ext]
      split
      · show ((metadataEntry >>= metaFilter oldStyle) s).2.cs = s.cs
        rw [P_bind_run, hf.1]; exact hi.cs
      · rw [P_bind_run, hf.1]; exact hi.cs
    · intro ev hev
      rw [withRecover_fst, P_bind_run] at hev
      rcases hf.2 with h0 | ⟨key, value, h1, h2⟩
      · rw [h0] at hev; cases hev
      · rw [h2, h1] at hev
        cases hev
        exact Or.inr ⟨key, value, rfl, h1⟩
  · have hi := (IndA.withRecover sectionP_indA).all s
    refine ⟨hi.toks, hi.cs, ?_⟩
    intro ev hev
    have := ((Keeps.withRecover (closing_sectionP_keeps (α := α) (I := fun _ => True))).run s trivial).2 ev hev
    exact Or.inl this
  · exact ⟨rfl, rfl, fun ev h => by cases h⟩


/-- the parser's and the analysis' test for a `[…]` key agree (they trim differently) -/
def KeyTestsAgree (cs : CharSpec) : Prop := ∀ key : Text, isConfigKey cs key = false → bracketedKey cs key = false

theorem parseBlock_QSyn (cs : CharSpec) (hkey : KeyTestsAgree cs) (oldStyle : Bool) (s : BP α)
    (hc : s.cur = 0) (hm : metaKeyCore cs s.toks = true) (hs : stepCore s.toks = true)
    (hI : AllQ (QSyn (α := α) cs) s.evs) : AllQ (QSyn cs) (parseBlock oldStyle s).2.evs := by
  rw [parseBlock_eq, P_bind_run]
  obtain ⟨ht, -, hev⟩ := blockHead_fact oldStyle s
  have hI1 := ((blockHead_keeps (I := AllQ (QSyn (α := α) cs)) oldStyle).run s hI).1
  cases hr : (blockHead oldStyle s).1 with
  | none =>
    dsimp only
    exact parseMultilineBlock_QSyn cs _ (by rw [ht]; exact hs) hI1
  | some ev =>
    dsimp only
    show AllQ _ ((blockHead oldStyle s).2.evs.push ev)
    apply hI1.push
    rcases hev ev hr with ⟨n, rfl⟩ | ⟨key, value, rfl, hme⟩
    · trivial
    · have hk := metadataEntry_key s hc key value hme
      unfold metaKeyCore at hm
      rw [hk] at hm
      exact hkey key (by simpa using hm)

theorem panicWith_fields (site : String) (s : BP α) :
    (panicWith site s).2.toks = s.toks ∧ (panicWith site s).2.cur = s.cur ∧ (panicWith site s).2.evs = s.evs := by
  unfold panicWith
  show (if s.panic.isNone then { s with panic := some site } else s).toks = s.toks ∧
    (if s.panic.isNone then { s with panic := some site } else s).cur = s.cur ∧
    (if s.panic.isNone then { s with panic := some site } else s).evs = s.evs
  split <;> exact ⟨rfl, rfl, rfl⟩

/-- the events of a `UsesNone` block satisfy `QSyn` -/
theorem runBlock_QSyn (cs : CharSpec) (hkey : KeyTestsAgree cs) (e : Ext) (oldStyle : Bool) (block : List Tok)
    (evs : Array (Ev α)) (p : Option String) (h : UsesNone cs block = true)
    (hI : AllQ (QSyn (α := α) cs) evs) : AllQ (QSyn cs) (runBlock cs e oldStyle block evs p).1 := by
  unfold UsesNone at h
  simp only [Bool.and_eq_true] at h
  rw [runBlock_eq]
  dsimp only
  unfold runBlockBody
  rw [P_bind_run]
  have h1 : ∀ s0 : BP α, ((if block.isEmpty then panicWith "BlockParser::new: empty tokens" else pure () : P α Unit) s0).2.toks = s0.toks ∧
      ((if block.isEmpty then panicWith "BlockParser::new: empty tokens" else pure () : P α Unit) s0).2.cur = s0.cur ∧
      ((if block.isEmpty then panicWith "BlockParser::new: empty tokens" else pure () : P α Unit) s0).2.evs = s0.evs := by
    intro s0
    split
    · exact panicWith_fields _ s0
    · exact ⟨rfl, rfl, rfl⟩
  obtain ⟨t1, c1, e1⟩ := h1 ⟨block, 0, e, cs, evs, p⟩
  rw [P_bind_run]
  have hpb := parseBlock_QSyn cs hkey oldStyle _ c1 (by rw [t1]; exact h.1) (by rw [t1]; exact h.2)
    (by rw [e1]; exact hI)
  have tail : Keeps (AllQ (QSyn (α := α) cs)) (get >>= fun s : BP α =>
      if s.cur ≠ s.toks.length then panicWith "Block tokens not parsed" else pure ()) (fun _ => True) := by
    keeps
  exact (tail.run _ hpb).1

theorem foldl_runBlock_QSyn (cs : CharSpec) (hkey : KeyTestsAgree cs) (e : Ext) (oldStyle : Bool)
    (bs : List (List Tok)) (h : ∀ b ∈ bs, UsesNone cs b = true) (acc : Array (Ev α) × Option String)
    (hI : AllQ (QSyn (α := α) cs) acc.1) :
    AllQ (QSyn cs) (bs.foldl (fun acc b => runBlock cs e oldStyle b acc.1 acc.2) acc).1 := by
  induction bs generalizing acc with
  | nil => exact hI
  | cons b bs ih =>
    rw [List.foldl_cons]
    exact ih (fun b' hb' => h b' (by simp [hb'])) _
      (runBlock_QSyn cs hkey e oldStyle b acc.1 acc.2 (h b (by simp)) hI)

/-- every event of an input whose blocks are all `UsesNone` satisfies `QSyn` -/
theorem pullEvents_QSyn (cs : CharSpec) (hkey : KeyTestsAgree cs) (e : Ext) (input : List Char)
    (h : UsesNoneInput cs input = true) :
    ∀ ev ∈ (pullEvents (α := α) cs e input).1.toList, QSyn cs ev := by
  unfold UsesNoneInput inputTokens at h
  unfold pullEvents
  rw [List.all_eq_true] at h
  cases hfm : parseFrontmatter cs input with
  | none =>
    rw [hfm] at h
    exact foldl_runBlock_QSyn cs hkey e true _ h _ (fun ev hev => by simp at hev)
  | some fm =>
    rw [hfm] at h
    refine foldl_runBlock_QSyn cs hkey e false _ h _ ?_
    intro ev hev
    simp only [List.mem_singleton] at hev
    subst hev
    trivial

/-! ### the two `[…]` tests agree when the ASCII space is whitespace -/

theorem collapse_head (k : List Char) (h : k.head? ≠ some ' ') : (collapseSpaces ' ' k).head? = k.head? := by
  cases k with
  | nil => rfl
  | cons c t =>
    have hc : c ≠ ' ' := by intro hc; apply h; rw [hc]; rfl
    unfold collapseSpaces
    simp only [hc, ne_eq, not_false_eq_true, true_or, if_true, List.head?_cons]

theorem collapse_last (p : Char) (k : List Char) (x : Char) (h : k.getLast? = some x) (hx : x ≠ ' ') :
    (collapseSpaces p k).getLast? = some x := by
  induction k generalizing p with
  | nil => cases h
  | cons c t ih =>
    cases t with
    | nil =>
      simp only [List.getLast?_singleton, Option.some.injEq] at h
      subst h
      unfold collapseSpaces
      simp only [hx, ne_eq, not_false_eq_true, true_or, if_true]
      rfl
    | cons d t' =>
      rw [List.getLast?_cons_cons] at h
      have := ih c h
      unfold collapseSpaces
      split
      · cases hl : collapseSpaces c (d :: t') with
        | nil => rw [hl] at this; cases this
        | cons a l => rw [hl] at this; rw [List.getLast?_cons_cons]; exact this
      · exact this

theorem trim_last_not_ws (ws : Char → Bool) (x : List Char) (c : Char) (h : (trim ws x).getLast? = some c) :
    ws c = false := by
  unfold trim trimEnd at h
  rw [List.getLast?_reverse] at h
  have := List.head?_dropWhile_not ws (trimStart ws x).reverse
  rw [h] at this
  simpa using this

theorem trim_head_not_ws (ws : Char → Bool) (x : List Char) (c : Char) (h : (trim ws x).head? = some c) :
    ws c = false := by
  unfold trim trimEnd at h
  have hp : ((trimStart ws x).reverse.dropWhile ws).reverse <+: trimStart ws x := by
    rw [← List.reverse_reverse (trimStart ws x)]
    rw [List.reverse_prefix]
    rw [List.reverse_reverse]
    exact List.dropWhile_suffix _
  obtain ⟨r, hr⟩ := hp
  cases hk : ((trimStart ws x).reverse.dropWhile ws).reverse with
  | nil => rw [hk] at h; cases h
  | cons a l =>
    rw [hk] at h hr
    simp only [List.head?_cons, Option.some.injEq] at h
    subst h
    have := List.head?_dropWhile_not ws x
    unfold trimStart at hr
    rw [← hr] at this
    simpa using this
/-- with the ASCII space classified as whitespace, the parser's test for a `[…]` key (on the
    outer-trimmed key) and the analysis' (on the key with runs of spaces collapsed) agree -/
theorem keyTestsAgree_of_space (cs : CharSpec) (h : cs.uws ' ' = true) : KeyTestsAgree cs := by
  intro key hk
  cases hb : bracketedKey cs key with
  | false => rfl
  | true =>
    exfalso
    unfold bracketedKey Text.trimmed at hb
    unfold isConfigKey at hk
    simp only [Bool.and_eq_true, beq_iff_eq] at hb
    dsimp only at hk hb
    generalize hkk : key.outerTrimmed cs = k at hk hb
    have hhead : k.head? ≠ some ' ' := by
      intro h'
      rw [← hkk] at h'
      have := trim_head_not_ws _ _ _ h'
      rw [h] at this; cases this
    by_cases hd : hasDoubleSpace k = true
    · simp only [hd, if_true] at hb
      rw [collapse_head k hhead] at hb
      cases hl : k.getLast? with
      | none =>
        rw [List.getLast?_eq_none_iff] at hl
        rw [hl] at hb
        cases hb.1
      | some x =>
        have hx : x ≠ ' ' := by
          intro hx
          rw [← hkk] at hl
          have := trim_last_not_ws _ _ _ hl
          rw [hx, h] at this; cases this
        have := collapse_last ' ' k x hl hx
        rw [hb.2] at this
        cases this
        rw [hb.1, hl] at hk
        simp at hk
    · simp only [hd, Bool.false_eq_true, if_false] at hb
      rw [hb.1, hb.2] at hk
      simp at hk

/-! ### parser and analysis together -/

/-- what remains to be asked of the events once the blocks are `UsesNone`: the two premises that
    depend on the CONVERTER (never on the extension set): a step text is not empty and the
    inline-quantity finder finds nothing in it; a timer's value is not text and its unit, if any,
    is a time unit -/
def evConvCore (α : Type) [Arith α] (env : Env) : Ev α → Bool
  | .text t => textCoreX α env t
  | .timer t => timerCoreX env t.val
  | _ => true

theorem evCoreX_of_QSyn (env : Env) (ev : Ev α) (h1 : QSyn env.cs ev) (h2 : evConvCore α env ev = true) :
    evCoreX α env ev = true := by
  cases ev with
  | metadata k v =>
    have h1' : bracketedKey env.cs k = false := h1
    simp only [evCoreX, h1', Bool.not_false]
  | ingredient i =>
    have h1' : i.val.modifiers.val = Modifiers.empty := h1.1
    have : Modifiers.empty.contains Modifiers.REF = false := by decide
    simp only [evCoreX, ingrCoreX, h1', this, Bool.not_false, Bool.true_or]
  | text t => exact h2
  | timer t => exact h2
  | _ => rfl

/-- C02 for `CooklangParser::parse`: every block `UsesNone`, the converter-dependent premise on
    texts and timers: the same full result under every extension set -/
theorem parseRecipe_ext_irrelevant (env : Env) (hkey : KeyTestsAgree env.cs) (e : Ext) (input : Str)
    (hu : UsesNoneInput env.cs input = true)
    (hconv : (pullEvents (α := α) env.cs env.ext input).1.toList.all (evConvCore α env) = true) :
    parseRecipe (α := α) (env.withExt e) input = parseRecipe env input := by
  apply parseRecipe_extX env e input hu
  rw [List.all_eq_true] at hconv ⊢
  intro ev hev
  exact evCoreX_of_QSyn env ev (pullEvents_QSyn env.cs hkey env.ext input hu ev hev) (hconv ev hev)

end Cook
