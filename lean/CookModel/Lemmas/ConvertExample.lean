import CookModel.Num.Convert
/-
  A small hand-written converter for the non-vacuity examples of Props/C09.lean and Props/C08.lean
  (independent of units.toml, so that the examples do not move when the shipped file is edited).
  The f64 bit patterns are irrelevant here (the examples run the `Rat` instance) and set to 0.
-/
namespace Cook.Ex
open Cook

def k (r : Rat) : Const := ⟨r, 0⟩

def mkUnit (id : Nat) (sym : UStr) (ratio diff : Rat) (pq : PhysQ) (sys : Option System) : Unit Const :=
  { id := id, names := [], symbols := [sym], aliases := [], ratio := k ratio, difference := k diff,
    pq := pq, system := sys }

def g := mkUnit 0 ['g'] 1 0 .mass (some .metric)
def kg := mkUnit 1 ['k','g'] 1000 0 .mass (some .metric)
def oz := mkUnit 2 ['o','z'] (28349523125/1000000000) 0 .mass (some .imperial)
def lb := mkUnit 3 ['l','b'] (45359237/100000) 0 .mass (some .imperial)
def l := mkUnit 4 ['l'] 1 0 .volume (some .metric)
def cup := mkUnit 5 ['c'] (2365882365/10000000000) 0 .volume (some .imperial)
def degC := mkUnit 6 ['C'] 1 (27315/100) .temperature (some .metric)
def degF := mkUnit 7 ['F'] (5/9) (45967/100) .temperature (some .imperial)
def m := mkUnit 8 ['m'] 1 0 .length (some .metric)
def s := mkUnit 9 ['s'] 1 0 .time none

def cfg (enabled : Bool) : FracCfg Const := { enabled := enabled, accuracy := k (1/20), maxDen := 4, maxWhole := 4294967295 }

def desc : ConverterDesc Const :=
  { allUnits := [g, kg, oz, lb, l, cup, degC, degF, m, s],
    best := fun q => match q with
      | .mass => .bySystem [g, kg] [oz, lb]
      | .volume => .bySystem [l] [cup]
      | .temperature => .bySystem [degC] [degF]
      | .length => .unified [m]
      | .time => .unified [s],
    fractions := { all := none, metric := some (cfg false), imperial := some (cfg true),
                   quantity := [(.temperature, cfg false)], unit := [] },
    defaultSystem := .metric }

/-- the example converter at `Rat` -/
def conv : Converter Rat :=
  match Converter.ofDesc desc (mkTable Rat Gen.DENOMS) with
  | some c => c
  | none => Converter.empty (mkTable Rat Gen.DENOMS)

end Cook.Ex
