import CookModel.Lemmas.MetaDiags
import CookModel.Lemmas.MetaFront
/-
  C14, diagnostics, parser side: every warning event the block parsers put in the queue is a
  parse-stage diagnostic (they all come from `pwarn`).  Same sweep as `ParserMeta.lean` with
  "analysis-stage warning" in the place of "metadata event".
-/
set_option linter.unusedSectionVars false
namespace Cook
variable {α : Type} [Arith α]

/-- a warning event that does not carry a parse-stage diagnostic -/
def Ev.isBadW : Ev α → Bool
  | .warning d => d.stage != .parse
  | _ => false

/-- the bad warning events of an event queue -/
def badOf (evs : Array (Ev α)) : List (Ev α) := evs.toList.filter Ev.isBadW

theorem badOf_push (evs : Array (Ev α)) (e : Ev α) :
    badOf (evs.push e) = badOf evs ++ (if e.isBadW then [e] else []) := by
  unfold badOf
  rw [Array.toList_push, List.filter_append]
  cases h : e.isBadW <;> simp [List.filter, h]

/-- `f` adds no metadata event to the queue, and its result satisfies `Q` -/
structure BF {β : Type} (Q : β → Prop) (f : P α β) : Prop where
  run : ∀ s, badOf (f s).2.evs = badOf s.evs ∧ Q (f s).1

theorem BF.pure {β : Type} {Q : β → Prop} (a : β) (h : Q a) : BF (α := α) Q (pure a) :=
  ⟨fun _ => ⟨rfl, h⟩⟩

theorem BF.bind {β γ : Type} {Q : β → Prop} {R : γ → Prop} {f : P α β} {g : β → P α γ}
    (hf : BF Q f) (hg : ∀ a, Q a → BF R (g a)) : BF R (f >>= g) := by
  refine ⟨fun s => ?_⟩
  have h1 := hf.run s
  have h2 := (hg (f s).1 h1.2).run (f s).2
  exact ⟨h2.1.trans h1.1, h2.2⟩

theorem BF.bind0 {β γ : Type} {R : γ → Prop} {f : P α β} {g : β → P α γ}
    (hf : BF (fun _ => True) f) (hg : ∀ a, BF R (g a)) : BF R (f >>= g) :=
  BF.bind hf (fun a _ => hg a)

theorem BF.weaken {β : Type} {Q R : β → Prop} {f : P α β} (hf : BF Q f) (h : ∀ a, Q a → R a) : BF R f :=
  ⟨fun s => ⟨(hf.run s).1, h _ (hf.run s).2⟩⟩

theorem BF.triv {β : Type} {Q : β → Prop} {f : P α β} (hf : BF Q f) : BF (fun _ => True) f :=
  hf.weaken (fun _ _ => trivial)

theorem BF.get : BF (α := α) (fun _ => True) (get : P α (BP α)) := ⟨fun _ => ⟨rfl, trivial⟩⟩

theorem BF.modify (k : BP α → BP α) (h : ∀ s, (k s).evs = s.evs) :
    BF (α := α) (fun _ => True) (modify k : P α Unit) := ⟨fun s => ⟨by show badOf (k s).evs = _; rw [h], trivial⟩⟩

syntax "bf_leaf" : tactic
macro_rules | `(tactic| bf_leaf) => `(tactic| with_reducible exact BF.get)
macro_rules | `(tactic| bf_leaf) => `(tactic| with_reducible exact BF.pure _ trivial)
macro_rules | `(tactic| bf_leaf) => `(tactic| assumption)

/-- structural decomposition of a `do` block -/
macro "bf" : tactic => `(tactic| repeat' (first
  | intro _
  | bf_leaf
  | dsimp only
  | with_reducible apply BF.bind0
  | split))

theorem bf_panicWith (site : String) : BF (α := α) (fun _ => True) (panicWith site) := by
  unfold panicWith
  apply BF.modify
  intro s; split <;> rfl
macro_rules | `(tactic| bf_leaf) => `(tactic| with_reducible exact bf_panicWith _)

theorem bf_pushEv (e : Ev α) (h : e.isBadW = false) : BF (α := α) (fun _ => True) (pushEv e) := by
  refine ⟨fun s => ⟨?_, trivial⟩⟩
  show badOf (s.evs.push e) = _
  rw [badOf_push, h]; simp

theorem bf_perr (k : String) (l : List Span) : BF (α := α) (fun _ => True) (perr k l) := bf_pushEv _ rfl
theorem bf_pwarn (k : String) (l : List Span) : BF (α := α) (fun _ => True) (pwarn k l) := bf_pushEv _ rfl
macro_rules | `(tactic| bf_leaf) => `(tactic| with_reducible exact bf_perr _ _)
macro_rules | `(tactic| bf_leaf) => `(tactic| with_reducible exact bf_pwarn _ _)

theorem bf_hasExt (f : Nat) : BF (α := α) (fun _ => True) (hasExt f) := by unfold hasExt; bf
macro_rules | `(tactic| bf_leaf) => `(tactic| with_reducible exact bf_hasExt _)
theorem bf_restToks : BF (α := α) (fun _ => True) restToks := by unfold restToks; bf
macro_rules | `(tactic| bf_leaf) => `(tactic| with_reducible exact bf_restToks)
theorem bf_allToks : BF (α := α) (fun _ => True) allToks := by unfold allToks; bf
macro_rules | `(tactic| bf_leaf) => `(tactic| with_reducible exact bf_allToks)
theorem bf_getCur : BF (α := α) (fun _ => True) getCur := by unfold getCur; bf
macro_rules | `(tactic| bf_leaf) => `(tactic| with_reducible exact bf_getCur)
theorem bf_setCur (c : Nat) : BF (α := α) (fun _ => True) (setCur c) := by
  unfold setCur; exact BF.modify _ (fun _ => rfl)
macro_rules | `(tactic| bf_leaf) => `(tactic| with_reducible exact bf_setCur _)
theorem bf_tokensSpanP (site : String) (ts : List Tok) : BF (α := α) (fun _ => True) (tokensSpanP site ts) := by
  unfold tokensSpanP; bf
macro_rules | `(tactic| bf_leaf) => `(tactic| with_reducible exact bf_tokensSpanP _ _)
theorem bf_baseOffset : BF (α := α) (fun _ => True) baseOffset := by unfold baseOffset; bf
macro_rules | `(tactic| bf_leaf) => `(tactic| with_reducible exact bf_baseOffset)
theorem bf_currentOffset : BF (α := α) (fun _ => True) currentOffset := by unfold currentOffset; bf
macro_rules | `(tactic| bf_leaf) => `(tactic| with_reducible exact bf_currentOffset)
theorem bf_bpSpan : BF (α := α) (fun _ => True) bpSpan := by unfold bpSpan; bf
macro_rules | `(tactic| bf_leaf) => `(tactic| with_reducible exact bf_bpSpan)
theorem bf_peekK : BF (α := α) (fun _ => True) peekK := by unfold peekK; bf
macro_rules | `(tactic| bf_leaf) => `(tactic| with_reducible exact bf_peekK)
theorem bf_atK (k : TK) : BF (α := α) (fun _ => True) (atK k) := by unfold atK; bf
macro_rules | `(tactic| bf_leaf) => `(tactic| with_reducible exact bf_atK _)

theorem bf_nextToken : BF (α := α) (fun _ => True) nextToken := by
  refine ⟨fun s => ⟨?_, trivial⟩⟩
  simp only [nextToken, bind, StateT.bind, get, getThe, MonadStateOf.get, StateT.get, set, pure]
  cases s.toks[s.cur]? <;> rfl
macro_rules | `(tactic| bf_leaf) => `(tactic| with_reducible exact bf_nextToken)

theorem bf_bumpAny : BF (α := α) (fun _ => True) bumpAny := by unfold bumpAny; bf
macro_rules | `(tactic| bf_leaf) => `(tactic| with_reducible exact bf_bumpAny)
theorem bf_bump (k : TK) : BF (α := α) (fun _ => True) (bump k) := by unfold bump; bf
macro_rules | `(tactic| bf_leaf) => `(tactic| with_reducible exact bf_bump _)

theorem bf_modCur (k : BP α → Nat) : BF (α := α) (fun _ => True) (modify fun s => { s with cur := k s } : P α Unit) :=
  BF.modify _ (fun _ => rfl)

theorem bf_untilK (f : TK → Bool) : BF (α := α) (fun _ => True) (untilK f) := by
  unfold untilK; bf
  exact BF.modify _ (fun _ => rfl)
macro_rules | `(tactic| bf_leaf) => `(tactic| with_reducible exact bf_untilK _)
theorem bf_consumeWhile (f : TK → Bool) : BF (α := α) (fun _ => True) (consumeWhile f) := by
  unfold consumeWhile; bf
  exact BF.modify _ (fun _ => rfl)
macro_rules | `(tactic| bf_leaf) => `(tactic| with_reducible exact bf_consumeWhile _)
theorem bf_wsComments : BF (α := α) (fun _ => True) wsComments := bf_consumeWhile _
macro_rules | `(tactic| bf_leaf) => `(tactic| with_reducible exact bf_wsComments)
theorem bf_consumeK (k : TK) : BF (α := α) (fun _ => True) (consumeK k) := by unfold consumeK; bf
macro_rules | `(tactic| bf_leaf) => `(tactic| with_reducible exact bf_consumeK _)
theorem bf_consumeRest : BF (α := α) (fun _ => True) consumeRest := by
  unfold consumeRest; bf
  exact BF.modify _ (fun _ => rfl)
macro_rules | `(tactic| bf_leaf) => `(tactic| with_reducible exact bf_consumeRest)

theorem bf_withRecover {β : Type} {Q : Option β → Prop} {f : P α (Option β)} (hf : BF Q f) :
    BF Q (withRecover f) := by
  unfold withRecover
  apply BF.bind0 bf_getCur
  intro old
  apply BF.bind hf
  intro r hr
  dsimp only
  split
  · apply BF.bind0 (bf_setCur _)
    intro _; exact BF.pure _ hr
  · exact BF.pure _ hr
macro_rules | `(tactic| bf_leaf) => `(tactic| with_reducible apply bf_withRecover)

theorem bf_bpText (o : Nat) (ts : List Tok) : BF (α := α) (fun _ => True) (bpText o ts) := by unfold bpText; bf
macro_rules | `(tactic| bf_leaf) => `(tactic| with_reducible exact bf_bpText _ _)

theorem bf_scalingLock : BF (α := α) (fun _ => True) scalingLock := by unfold scalingLock; bf
macro_rules | `(tactic| bf_leaf) => `(tactic| with_reducible exact bf_scalingLock)
theorem bf_textValue (ts : List Tok) (o : Nat) : BF (α := α) (fun _ => True) (textValue (α := α) ts o) := by
  unfold textValue; bf
macro_rules | `(tactic| bf_leaf) => `(tactic| with_reducible exact bf_textValue _ _)

macro_rules | `(tactic| bf_leaf) => `(tactic| (with_reducible refine bf_pushEv _ ?_) <;> rfl)

theorem bf_get_set {β : Type} {Q : β → Prop} (upd : BP α → BP α) (hupd : ∀ s, (upd s).evs = s.evs)
    (g : BP α → PUnit → P α β) (hg : ∀ o u, BF Q (g o u)) :
    BF Q ((get : P α (BP α)) >>= fun o => (set (upd o) : P α PUnit) >>= g o) := by
  refine ⟨fun s => ?_⟩
  have := (hg s ⟨⟩).run (upd s)
  rw [hupd] at this
  exact this

theorem bf_parseValue (ts : List Tok) : BF (α := α) (fun _ => True) (parseValue (α := α) ts) := by
  unfold parseValue; bf
macro_rules | `(tactic| bf_leaf) => `(tactic| with_reducible exact bf_parseValue _)
theorem bf_qvalue : BF (α := α) (fun _ => True) (qvalue (α := α)) := by unfold qvalue; bf
macro_rules | `(tactic| bf_leaf) => `(tactic| with_reducible exact bf_qvalue)
theorem bf_parseRegularQuantity : BF (α := α) (fun _ => True) (parseRegularQuantity (α := α)) := by
  unfold parseRegularQuantity; bf
macro_rules | `(tactic| bf_leaf) => `(tactic| with_reducible exact bf_parseRegularQuantity)
theorem bf_parseAdvancedQuantity : BF (α := α) (fun _ => True) (parseAdvancedQuantity (α := α)) := by
  unfold parseAdvancedQuantity; bf
macro_rules | `(tactic| bf_leaf) => `(tactic| with_reducible exact bf_parseAdvancedQuantity)

theorem bf_parseQuantity (ts : List Tok) : BF (α := α) (fun _ => True) (parseQuantity (α := α) ts) := by
  unfold parseQuantity
  dsimp only
  split
  · apply BF.bind0 (bf_panicWith _)
    intro _
    apply bf_get_set (upd := fun o => { o with toks := ts, cur := 0 }) (fun _ => rfl)
    intro o u
    bf
    exact BF.modify _ (fun _ => rfl)
  · apply bf_get_set (upd := fun o => { o with toks := ts, cur := 0 }) (fun _ => rfl)
    intro o u
    bf
    exact BF.modify _ (fun _ => rfl)
macro_rules | `(tactic| bf_leaf) => `(tactic| with_reducible exact bf_parseQuantity _)

theorem bf_compBodyLong : BF (α := α) (fun _ => True) (compBodyLong (α := α)) := by unfold compBodyLong; bf
macro_rules | `(tactic| bf_leaf) => `(tactic| with_reducible exact bf_compBodyLong)
theorem bf_compBodyShort : BF (α := α) (fun _ => True) (compBodyShort (α := α)) := by unfold compBodyShort; bf
macro_rules | `(tactic| bf_leaf) => `(tactic| with_reducible exact bf_compBodyShort)
theorem bf_compBody : BF (α := α) (fun _ => True) (compBody (α := α)) := by unfold compBody; bf
macro_rules | `(tactic| bf_leaf) => `(tactic| with_reducible exact bf_compBody)

theorem bf_modifiersLoop (inter : Bool) (fuel : Nat) : BF (α := α) (fun _ => True) (modifiersLoop (α := α) inter fuel) := by
  induction fuel with
  | zero => unfold modifiersLoop; bf
  | succ n ih => unfold modifiersLoop; bf
macro_rules | `(tactic| bf_leaf) => `(tactic| with_reducible exact bf_modifiersLoop _ _)
theorem bf_modifiersP : BF (α := α) (fun _ => True) (modifiersP (α := α)) := by unfold modifiersP; bf
macro_rules | `(tactic| bf_leaf) => `(tactic| with_reducible exact bf_modifiersP)
theorem bf_noteP : BF (α := α) (fun _ => True) (noteP (α := α)) := by unfold noteP; bf
macro_rules | `(tactic| bf_leaf) => `(tactic| with_reducible exact bf_noteP)
theorem bf_parseInterRef (ts : List Tok) : BF (α := α) (fun _ => True) (parseInterRef (α := α) ts) := by
  unfold parseInterRef; bf
macro_rules | `(tactic| bf_leaf) => `(tactic| with_reducible exact bf_parseInterRef _)

theorem bf_parseModifiersLoop (span : Span) (ie : Bool) (fuel : Nat) : ∀ (ts : List Tok) (m : Modifiers) (d : Option (Loc InterData)),
    BF (α := α) (fun _ => True) (parseModifiersLoop (α := α) span ie fuel ts m d) := by
  induction fuel with
  | zero => intro ts m d; unfold parseModifiersLoop; bf
  | succ n ih =>
    intro ts m d
    cases ts with
    | nil => unfold parseModifiersLoop; bf
    | cons t r =>
      unfold parseModifiersLoop; bf
      all_goals exact ih _ _ _
macro_rules | `(tactic| bf_leaf) => `(tactic| with_reducible exact bf_parseModifiersLoop _ _ _ _ _ _)
theorem bf_parseModifiers (ts : List Tok) (pos : Nat) : BF (α := α) (fun _ => True) (parseModifiers (α := α) ts pos) := by
  unfold parseModifiers; bf
macro_rules | `(tactic| bf_leaf) => `(tactic| with_reducible exact bf_parseModifiers _ _)
theorem bf_parseAlias (c : String) (ts : List Tok) (o : Nat) : BF (α := α) (fun _ => True) (parseAlias (α := α) c ts o) := by
  unfold parseAlias; bf
macro_rules | `(tactic| bf_leaf) => `(tactic| with_reducible exact bf_parseAlias _ _ _)
theorem bf_checkEmptyName (c : String) (n : Text) : BF (α := α) (fun _ => True) (checkEmptyName (α := α) c n) := by
  unfold checkEmptyName; bf
macro_rules | `(tactic| bf_leaf) => `(tactic| with_reducible exact bf_checkEmptyName _ _)

/-- an optional event that is not an analysis-stage warning -/
def NB (r : Option (Ev α)) : Prop := ∀ ev, r = some ev → ev.isBadW = false

macro_rules | `(tactic| bf_leaf) => `(tactic| (with_reducible refine BF.pure _ ?_) <;> (intro ev h; cases h <;> rfl))

theorem bf_ingredientP : BF (α := α) NB (ingredientP (α := α)) := by unfold ingredientP; bf
theorem bf_cookwareP : BF (α := α) NB (cookwareP (α := α)) := by unfold cookwareP; bf
theorem bf_checkNoteTimer : BF (α := α) (fun _ => True) (checkNoteTimer (α := α)) := by unfold checkNoteTimer; bf
macro_rules | `(tactic| bf_leaf) => `(tactic| with_reducible exact bf_checkNoteTimer)
theorem bf_timerP : BF (α := α) NB (timerP (α := α)) := by unfold timerP; bf
macro_rules | `(tactic| bf_leaf) => `(tactic| with_reducible exact bf_ingredientP)
macro_rules | `(tactic| bf_leaf) => `(tactic| with_reducible exact bf_cookwareP)
macro_rules | `(tactic| bf_leaf) => `(tactic| with_reducible exact bf_timerP)

theorem bf_stepOne : BF (α := α) (fun _ => True) (stepOne (α := α)) := by
  unfold stepOne
  apply BF.bind (Q := NB)
  · bf
  · intro comp hc
    split
    · rename_i ev
      exact bf_pushEv _ (hc ev rfl)
    · bf
macro_rules | `(tactic| bf_leaf) => `(tactic| with_reducible exact bf_stepOne)

theorem bf_stepLoop (fuel : Nat) : BF (α := α) (fun _ => True) (stepLoop (α := α) fuel) := by
  induction fuel with
  | zero => unfold stepLoop; bf
  | succ n ih => unfold stepLoop; bf
macro_rules | `(tactic| bf_leaf) => `(tactic| with_reducible exact bf_stepLoop _)
theorem bf_parseStep : BF (α := α) (fun _ => True) (parseStep (α := α)) := by unfold parseStep; bf
macro_rules | `(tactic| bf_leaf) => `(tactic| with_reducible exact bf_parseStep)

theorem bf_textBlockLoop (fuel : Nat) : BF (α := α) (fun _ => True) (textBlockLoop (α := α) fuel) := by
  induction fuel with
  | zero => unfold textBlockLoop; bf
  | succ n ih => unfold textBlockLoop; bf
macro_rules | `(tactic| bf_leaf) => `(tactic| with_reducible exact bf_textBlockLoop _)
theorem bf_parseTextBlock : BF (α := α) (fun _ => True) (parseTextBlock (α := α)) := by unfold parseTextBlock; bf
macro_rules | `(tactic| bf_leaf) => `(tactic| with_reducible exact bf_parseTextBlock)

theorem bf_sectionP : BF (α := α) NB (sectionP (α := α)) := by unfold sectionP; bf
macro_rules | `(tactic| bf_leaf) => `(tactic| with_reducible exact bf_sectionP)
theorem bf_metadataEntry : BF (α := α) (fun _ => True) (metadataEntry (α := α)) := by unfold metadataEntry; bf
macro_rules | `(tactic| bf_leaf) => `(tactic| with_reducible exact bf_metadataEntry)
theorem bf_parseMultilineBlock : BF (α := α) (fun _ => True) (parseMultilineBlock (α := α)) := by
  unfold parseMultilineBlock; bf
macro_rules | `(tactic| bf_leaf) => `(tactic| with_reducible exact bf_parseMultilineBlock)


theorem bf_metadataEntry_ret : BF (α := α) NB (metadataEntry (α := α)) := by
  unfold metadataEntry; bf

theorem bf_parseBlock (o : Bool) : BF (α := α) (fun _ => True) (parseBlock (α := α) o) := by
  unfold parseBlock
  apply BF.bind (Q := NB)
  · apply BF.bind0 bf_peekK
    intro k
    split
    · apply bf_withRecover
      apply BF.bind bf_metadataEntry_ret
      intro r hr
      split
      · apply BF.bind0 BF.get
        intro s0
        apply BF.bind0 (bf_hasExt _)
        intro modes
        split
        · exact BF.pure _ (fun ev h => by cases h; rfl)
        · exact BF.pure _ (fun ev h => by cases h)
      · exact BF.pure _ (fun ev h => by cases h)
    · exact bf_withRecover bf_sectionP
    · exact BF.pure _ (fun ev h => by cases h)
  · intro r hr
    split
    · rename_i ev
      exact bf_pushEv _ (hr ev rfl)
    · exact bf_parseMultilineBlock

theorem runBlock_bad (cs : CharSpec) (ext : Ext) (o : Bool) (b : List Tok) (evs : Array (Ev α)) (p : Option String) :
    badOf (runBlock (α := α) cs ext o b evs p).1 = badOf evs := by
  have h : BF (α := α) (fun _ => True) (do
      if b.isEmpty then panicWith "BlockParser::new: empty tokens"
      parseBlock o
      let s ← get
      if s.cur ≠ s.toks.length then panicWith "Block tokens not parsed") := by
    have := bf_parseBlock (α := α) o
    bf
  exact (h.run ⟨b, 0, ext, cs, evs, p⟩).1

theorem runMetaBlock_bad (cs : CharSpec) (ext : Ext) (b : List Tok) (evs : Array (Ev α)) (p : Option String) :
    badOf (runMetaBlock (α := α) cs ext b evs p).1 = badOf evs := by
  have h : BF (α := α) (fun _ => True) (do
      if b.isEmpty then panicWith "BlockParser::new: empty tokens"
      match ← metadataEntry with
      | some ev =>
        pushEv ev
        let s ← get
        if s.cur ≠ s.toks.length then panicWith "Block tokens not parsed"
      | none => pure ()) := by
    have hjp : BF (α := α) (fun _ => True) (do
        match ← metadataEntry with
        | some ev =>
          pushEv ev
          let s ← get
          if s.cur ≠ s.toks.length then panicWith "Block tokens not parsed"
        | none => pure ()) := by
      apply BF.bind bf_metadataEntry_ret
      intro r hr
      split
      · rename_i ev
        apply BF.bind0 (bf_pushEv _ (hr ev rfl))
        bf
      · bf
    dsimp only
    split
    · exact BF.bind0 (bf_panicWith _) (fun _ => hjp)
    · exact hjp
  exact (h.run ⟨b, 0, ext, cs, evs, p⟩).1

theorem fold_runBlock_bad (cs : CharSpec) (ext : Ext) (o : Bool) : ∀ (bs : List (List Tok))
    (acc : Array (Ev α) × Option String),
    badOf (bs.foldl (fun acc b => runBlock (α := α) cs ext o b acc.1 acc.2) acc).1 = badOf acc.1 := by
  intro bs
  induction bs with
  | nil => intro acc; rfl
  | cons b bs ih => intro acc; simp only [List.foldl_cons]; rw [ih, runBlock_bad]

theorem fold_runMetaBlock_bad (cs : CharSpec) (ext : Ext) : ∀ (bs : List (List Tok))
    (acc : Array (Ev α) × Option String),
    badOf (bs.foldl (fun acc b => runMetaBlock (α := α) cs ext b acc.1 acc.2) acc).1 = badOf acc.1 := by
  intro bs
  induction bs with
  | nil => intro acc; rfl
  | cons b bs ih => intro acc; simp only [List.foldl_cons]; rw [ih, runMetaBlock_bad]

theorem warnOK_of_badOf (evs : Array (Ev α)) (h : badOf evs = []) : ∀ ev ∈ evs.toList, WarnOK ev := by
  intro ev hev d hd
  subst hd
  by_cases hs : d.stage = .parse
  · exact hs
  · have : Ev.warning d ∈ badOf evs := List.mem_filter.2 ⟨hev, by simp [Ev.isBadW, hs]⟩
    rw [h] at this
    simp at this

/-- every warning event of the full pull parser carries a parse-stage diagnostic -/
theorem pullEvents_warnOK (cs : CharSpec) (ext : Ext) (input : List Char) :
    ∀ ev ∈ (pullEvents (α := α) cs ext input).1.toList, WarnOK ev := by
  apply warnOK_of_badOf
  unfold pullEvents
  cases parseFrontmatter cs input with
  | none => simp only; rw [fold_runBlock_bad]; rfl
  | some fm => simp only; rw [fold_runBlock_bad]; rfl

/-- … and of the metadata-only pull parser -/
theorem pullMetaEvents_warnOK (cs : CharSpec) (ext : Ext) (input : List Char) :
    ∀ ev ∈ (pullMetaEvents (α := α) cs ext input).1.toList, WarnOK ev := by
  apply warnOK_of_badOf
  unfold pullMetaEvents
  cases parseFrontmatter cs input with
  | none => simp only; rw [fold_runMetaBlock_bad]; rfl
  | some fm => rfl

/-- `C14_agree` with diagnostics, inputs WITHOUT front matter: whenever both analyses have output,
    the metadata parts and the analysis diagnostics about metadata agree -/
theorem analysis_agree_md (env : Env) (input : Str) (h : parseFrontmatter env.cs input = none)
    (r1 r2 : Col α) (h1 : (parseRecipe (α := α) env input).output = some r1)
    (h2 : (parseMetadata (α := α) env input).output = some r2) : r1.md = r2.md := by
  unfold parseRecipe at h1
  unfold parseMetadata at h2
  simp only at h1 h2
  exact events_agree_md env input _ _ (metadata_events_agree env.cs env.ext input h)
    (pullEvents_warnOK env.cs env.ext input) (pullMetaEvents_warnOK env.cs env.ext input) r1 r2 h1 h2

end Cook
