import CookModel.Analysis.Collector
/-
  The inline-quantity scan of the analysis (`find_inline_quantity` and the `while let` that splits a step
  text at the quantities it finds, src/analysis/event_consumer.rs:1330-1400): progress and fuel.

  In the code the scan carries `debug_assert!(prev < i)` ("to be sure no infinite loop").  In the model
  both loops run on fuel and return silently when it is exhausted, so "the assertion never fires / the scan
  terminates" is the statement that the fuel is never exhausted: every iteration strictly shortens the text
  still to scan (`inlineScan_progress`), hence any fuel above the length of the text gives the same result
  (`inlineScan_fuel`, `inlineLoop_fuel`) and with the fuel the model uses the functions satisfy their
  fuel-free recursion equations.

  One side condition on the character table: an ASCII digit is not white space (`char::is_whitespace`).
-/
set_option linter.unusedVariables false
set_option linter.unusedSectionVars false
namespace Cook
variable {α : Type} [Arith α]

/-- an ASCII digit is not Unicode white space -/
def DigitsNotWs (cs : CharSpec) : Prop := ∀ c, isAsciiDigitC c = true → cs.uws c = false

/-- outcome of one iteration of the `while let` of `find_inline_quantity` -/
inductive InlineStep (α : Type) where
  | stop
  | hit (h : InlineHit α)
  | retry (pre after : Str)

/-- one iteration (the body of `findInlineQuantity`, without the recursive call) -/
def inlineStep (env : Env) (pre rest : Str) : InlineStep α :=
  let skipped := rest.takeWhile (fun c => !isAsciiDigitC c)
  let r := rest.dropWhile (fun c => !isAsciiDigitC c)
  match r with
  | [] => .stop
  | _ :: _ =>
    let pre := skipped.reverse ++ pre
    let neg := pre.head? == some '-'
    let before := (if neg then pre.drop 1 else pre).reverse
    let w1 := r.takeWhile (fun c => !env.cs.uws c)
    let r1 := r.dropWhile (fun c => !env.cs.uws c)
    let firstNonDigit := w1.findIdx? (fun c => !isAsciiDigitC c && c != '.' && !env.cs.uws c)
    let cont : Option (Str × Str × Str) :=
      match firstNonDigit with
      | some mid => some (w1.take mid, w1.drop mid, r1)
      | none =>
        let r2 := if r1.any (fun c => !env.cs.uws c) then r1.dropWhile env.cs.uws else r1
        let w2 := r2.takeWhile (fun c => !env.cs.uws c)
        let r3 := r2.dropWhile (fun c => !env.cs.uws c)
        if r2.isEmpty then none else some (w1, w2, r3)
    match cont with
    | none => .stop
    | some (number, unit, after) =>
      let number := trim env.cs.uws number
      let unit := trim env.cs.uws unit
      let consumed := r.take (r.length - after.length)
      match parseSimpleFloat (α := α) number, env.findUnit unit with
      | some n, some _ =>
        let n := if neg then Arith.neg n else n
        .hit ⟨before, ⟨.number (.regular n), some unit⟩, after⟩
      | _, _ => .retry (consumed.reverse ++ pre) after

theorem findInlineQuantity_succ (env : Env) (fuel : Nat) (pre rest : Str) :
    findInlineQuantity (α := α) env (fuel + 1) pre rest =
      match inlineStep (α := α) env pre rest with
      | .stop => none
      | .hit h => some h
      | .retry pre' after => findInlineQuantity env fuel pre' after := by
  conv => lhs; unfold findInlineQuantity
  unfold inlineStep
  dsimp only
  cases hr : List.dropWhile (fun c => !isAsciiDigitC c) rest with
  | nil => rfl
  | cons d r' =>
    dsimp only
    cases hf : List.findIdx? (fun c => !isAsciiDigitC c && c != '.' && !env.cs.uws c)
        (List.takeWhile (fun c => !env.cs.uws c) (d :: r')) with
    | some mid =>
      dsimp only
      generalize parseSimpleFloat (α := α) _ = a
      generalize env.findUnit _ = b
      cases a <;> cases b <;> rfl
    | none =>
      dsimp only
      by_cases he : (if ((List.dropWhile (fun c => !env.cs.uws c) (d :: r')).any fun c => !env.cs.uws c) = true then
          List.dropWhile env.cs.uws (List.dropWhile (fun c => !env.cs.uws c) (d :: r'))
          else List.dropWhile (fun c => !env.cs.uws c) (d :: r')).isEmpty = true
      · simp only [he, if_true]
      · simp only [he, if_false, Bool.false_eq_true]
        generalize parseSimpleFloat (α := α) _ = a
        generalize env.findUnit _ = b
        cases a <;> cases b <;> rfl

theorem inlineScan_dropWhile_head {β : Type} (p : β → Bool) (l : List β) (d : β) (r : List β)
    (h : l.dropWhile p = d :: r) : p d = false := by
  induction l with
  | nil => simp at h
  | cons a t ih =>
    rw [List.dropWhile_cons] at h
    split at h
    · exact ih h
    · rename_i hp
      simp only [List.cons.injEq] at h
      rw [← h.1]; simpa using hp

/-- what one iteration hands on: the text after a hit, and the text a failed candidate leaves to scan -/
def InlineStep.after : InlineStep α → Option Str
  | .stop => none
  | .hit h => some h.after
  | .retry _ a => some a

/-- **progress** (`debug_assert!(prev < i)`): one iteration leaves strictly less text than it was given -/
theorem inlineStep_progress (env : Env) (hd : DigitsNotWs env.cs) (pre rest : Str) :
    ∀ a, (inlineStep (α := α) env pre rest).after = some a → a.length < rest.length := by
  unfold inlineStep
  dsimp only
  cases hr : List.dropWhile (fun c => !isAsciiDigitC c) rest with
  | nil => intro a h; simp [InlineStep.after] at h
  | cons d r' =>
    have hdig : isAsciiDigitC d = true := by
      have := inlineScan_dropWhile_head _ _ _ _ hr
      simpa using this
    have hlen : (d :: r').length ≤ rest.length := by
      rw [← hr]; exact (List.dropWhile_sublist _).length_le
    have hR1 : (List.dropWhile (fun c => !env.cs.uws c) (d :: r')).length ≤ r'.length := by
      rw [List.dropWhile_cons]
      simp only [hd d hdig, Bool.not_false, if_true]
      exact (List.dropWhile_sublist _).length_le
    simp only [List.length_cons] at hlen
    dsimp only
    cases hf : List.findIdx? (fun c => !isAsciiDigitC c && c != '.' && !env.cs.uws c)
        (List.takeWhile (fun c => !env.cs.uws c) (d :: r')) with
    | some mid =>
      dsimp only
      generalize parseSimpleFloat (α := α) _ = x
      generalize env.findUnit _ = y
      intro a h
      cases x <;> cases y <;> simp only [InlineStep.after, Option.some.injEq] at h <;> subst h <;> omega
    | none =>
      dsimp only
      by_cases he : (if ((List.dropWhile (fun c => !env.cs.uws c) (d :: r')).any fun c => !env.cs.uws c) = true then
          List.dropWhile env.cs.uws (List.dropWhile (fun c => !env.cs.uws c) (d :: r'))
          else List.dropWhile (fun c => !env.cs.uws c) (d :: r')).isEmpty = true
      · simp only [he, if_true]
        intro a h; simp [InlineStep.after] at h
      · simp only [he, if_false, Bool.false_eq_true]
        have h2 : (if ((List.dropWhile (fun c => !env.cs.uws c) (d :: r')).any fun c => !env.cs.uws c) = true then
            List.dropWhile env.cs.uws (List.dropWhile (fun c => !env.cs.uws c) (d :: r'))
            else List.dropWhile (fun c => !env.cs.uws c) (d :: r')).length ≤
            (List.dropWhile (fun c => !env.cs.uws c) (d :: r')).length := by
          split
          · exact (List.dropWhile_sublist _).length_le
          · exact Nat.le_refl _
        have h3 := (List.dropWhile_sublist (fun c => !env.cs.uws c)
          (l := if ((List.dropWhile (fun c => !env.cs.uws c) (d :: r')).any fun c => !env.cs.uws c) = true then
            List.dropWhile env.cs.uws (List.dropWhile (fun c => !env.cs.uws c) (d :: r'))
            else List.dropWhile (fun c => !env.cs.uws c) (d :: r'))).length_le
        generalize parseSimpleFloat (α := α) _ = x
        generalize env.findUnit _ = y
        intro a h
        cases x <;> cases y <;> simp only [InlineStep.after, Option.some.injEq] at h <;> subst h <;> omega

/-- a hit leaves strictly less text (`after`) than was scanned -/
theorem inlineScan_progress (env : Env) (hd : DigitsNotWs env.cs) :
    ∀ (fuel : Nat) (pre rest : Str) (hit : InlineHit α),
      findInlineQuantity env fuel pre rest = some hit → hit.after.length < rest.length := by
  intro fuel
  induction fuel with
  | zero => intro pre rest hit h; simp [findInlineQuantity] at h
  | succ fuel ih =>
    intro pre rest hit h
    rw [findInlineQuantity_succ] at h
    have hp := inlineStep_progress (α := α) env hd pre rest
    cases hs : inlineStep (α := α) env pre rest with
    | stop => rw [hs] at h; cases h
    | hit x =>
      rw [hs] at h hp
      simp only [Option.some.injEq] at h; subst h
      exact hp _ rfl
    | retry p a =>
      rw [hs] at h hp
      have := ih p a hit h
      have := hp a rfl
      omega

/-- **the fuel of `find_inline_quantity` never runs out**: any two fuels above the length of the text give the
    same result — the `0` case of the model (which stands for "the `while let` did not stop") is never the
    reason for the result -/
theorem inlineScan_fuel (env : Env) (hd : DigitsNotWs env.cs) :
    ∀ (f1 f2 : Nat) (pre rest : Str), rest.length < f1 → rest.length < f2 →
      findInlineQuantity (α := α) env f1 pre rest = findInlineQuantity env f2 pre rest := by
  intro f1
  induction f1 with
  | zero => intro f2 pre rest h; omega
  | succ f1 ih =>
    intro f2 pre rest h1 h2
    cases f2 with
    | zero => omega
    | succ f2 =>
      rw [findInlineQuantity_succ, findInlineQuantity_succ]
      have hp := inlineStep_progress (α := α) env hd pre rest
      cases hs : inlineStep (α := α) env pre rest with
      | stop => rfl
      | hit x => rfl
      | retry p a =>
        rw [hs] at hp
        have := hp a rfl
        exact ih f2 p a (by omega) (by omega)

/-- the fuel-free recursion equation of `find_inline_quantity`, with the fuel the model uses -/
theorem inlineScan_unfold (env : Env) (hd : DigitsNotWs env.cs) (pre rest : Str) :
    findInlineQuantity (α := α) env (rest.length + 1) pre rest =
      match inlineStep (α := α) env pre rest with
      | .stop => none
      | .hit h => some h
      | .retry pre' after => findInlineQuantity env (after.length + 1) pre' after := by
  rw [findInlineQuantity_succ]
  have hp := inlineStep_progress (α := α) env hd pre rest
  cases hs : inlineStep (α := α) env pre rest with
  | stop => rfl
  | hit x => rfl
  | retry p a =>
    rw [hs] at hp
    have := hp a rfl
    exact inlineScan_fuel env hd _ _ p a (by omega) (by omega)

/-- **the fuel of the splitting loop never runs out**: any two fuels above the length of the text give the
    same items and inline quantities -/
theorem inlineLoop_fuel (env : Env) (hd : DigitsNotWs env.cs) :
    ∀ (f1 f2 : Nat) (hay : Str) (items : List Item) (iq : Array (Quantity (Value α))),
      hay.length < f1 → hay.length < f2 → inlineLoop env f1 hay items iq = inlineLoop env f2 hay items iq := by
  intro f1
  induction f1 with
  | zero => intro f2 hay items iq h; omega
  | succ f1 ih =>
    intro f2 hay items iq h1 h2
    cases f2 with
    | zero => omega
    | succ f2 =>
      unfold inlineLoop
      cases hf : findInlineQuantity (α := α) env (hay.length + 1) [] hay with
      | none => rfl
      | some hit =>
        have := inlineScan_progress env hd _ _ _ hit hf
        exact ih f2 hit.after _ _ (by omega) (by omega)

/-- the fuel-free recursion equation of the splitting loop, with the fuel the model uses -/
theorem inlineLoop_unfold (env : Env) (hd : DigitsNotWs env.cs) (hay : Str) (items : List Item)
    (iq : Array (Quantity (Value α))) :
    inlineLoop env (hay.length + 1) hay items iq =
      match findInlineQuantity (α := α) env (hay.length + 1) [] hay with
      | some hit =>
        inlineLoop env (hit.after.length + 1) hit.after
          ((if hit.before.isEmpty then items else items ++ [.text hit.before]) ++ [.inlineQuantity iq.size])
          (iq.push hit.q)
      | none => (if hay.isEmpty then items else items ++ [.text hay], iq) := by
  conv => lhs; unfold inlineLoop
  cases hf : findInlineQuantity (α := α) env (hay.length + 1) [] hay with
  | none => rfl
  | some hit =>
    have := inlineScan_progress env hd _ _ _ hit hf
    exact inlineLoop_fuel env hd _ _ hit.after _ _ (by omega) (by omega)

end Cook
