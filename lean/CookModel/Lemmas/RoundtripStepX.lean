import CookModel.Lemmas.RoundtripStep
import CookModel.Lemmas.RoundtripInter
/-
  C01, step layer with all component forms: `parse_step` on a concatenation of text runs,
  ingredient / cookware spellings (braces and single-word form) and timers emits one event per
  segment, in order, and no diagnostic.  (`rtx_` prefix.)
-/
set_option linter.unusedSectionVars false
set_option linter.unusedSimpArgs false
set_option linter.unusedVariables false
namespace Cook

variable {α : Type} [Arith α]

/-- a segment of a step: a text run or a component in any of its spellings -/
inductive SegX where
  | text (l : List Tok)
  | ingredient (c : AComp) (p : CPad)
  | cookware (c : AComp) (p : CPad)
  | timer (c : ATimer) (p : CPad)
  /-- `@salt` -/
  | ingredient1 (c : AComp)
  /-- `#pan` -/
  | cookware1 (c : AComp)
  /-- `@&(~1)dough{}` -/
  | ingredientI (pre post : List TK) (i : AInter) (ip : IPad) (c : AComp) (p : CPad)

def SegX.spell : SegX → List Tok
  | .text l => l
  | .ingredient c p => spellIngredient c p
  | .cookware c p => spellCookware c p
  | .timer c p => spellTimer c p
  | .ingredient1 c => spellShortIngredient c
  | .cookware1 c => spellShortCookware c
  | .ingredientI pre post i ip c p => spellIngredientI pre post i ip c p

/-- a segment on its own (as `Seg.ok`, plus the side conditions of timers and of the single-word form) -/
def SegX.ok (cs : CharSpec) (e : Ext) : SegX → Bool
  | .text l => !l.isEmpty && l.all (fun t => !isMarker t.kind) && !(l.flatMap vis).isEmpty
  | .ingredient c p => c.wf cs e && p.ok cs
  | .cookware c p => c.wfCookware cs e && p.ok cs
  | .timer c p => c.wf cs e && p.ok cs
  | .ingredient1 c => c.wfShort cs e
  | .cookware1 c => c.wfShortCookware cs e
  | .ingredientI pre post i ip c p => wfInter cs e pre post i c && ip.ok cs && p.ok cs

/-- a segment and what follows it: two text runs do not touch; a braces component without note
    and a timer are not followed by `(`; a single-word component is followed as `shortRestOK` says
    (the condition looks at the whole rest of the step) -/
def SegX.followOK : SegX → List SegX → Bool
  | .text _, .text _ :: _ => false
  | .text _, _ => true
  | .ingredient c _, rest => restOK c (rest.flatMap SegX.spell)
  | .cookware c _, rest => restOK c (rest.flatMap SegX.spell)
  | .timer _ _, rest => noParenNext (rest.flatMap SegX.spell)
  | .ingredient1 c, rest => shortRestOK c (rest.flatMap SegX.spell)
  | .cookware1 c, rest => shortRestOK c (rest.flatMap SegX.spell)
  | .ingredientI _ _ _ _ c _, rest => restOK c (rest.flatMap SegX.spell)

def segsXOK (cs : CharSpec) (e : Ext) : List SegX → Bool
  | [] => true
  | seg :: rest => seg.ok cs e && seg.followOK rest && segsXOK cs e rest

/-- the event a segment must produce -/
def SegXEv (cs : CharSpec) : SegX → Ev α → Prop
  | .text l, .text t => t.text = l.flatMap vis
  | .ingredient c _, .ingredient i => IngrMatches cs c i.val
  | .cookware c _, .cookware i => CwMatches cs c i.val
  | .timer c _, .timer t => TimerMatches cs c t.val
  | .ingredient1 c, .ingredient i => IngrMatches cs c i.val
  | .cookware1 c, .cookware i => CwMatches cs c i.val
  | .ingredientI pre post i _ c _, .ingredient ing => IngrMatchesI cs (pre ++ .and :: post) i c ing.val
  | _, _ => False

/-- one event per segment, in order -/
inductive SegsXEvs (cs : CharSpec) : List SegX → List (Ev α) → Prop
  | nil : SegsXEvs cs [] []
  | cons {seg : SegX} {ev : Ev α} {segs : List SegX} {evs : List (Ev α)} :
      SegXEv cs seg ev → SegsXEvs cs segs evs → SegsXEvs cs (seg :: segs) (ev :: evs)

/-! ### one iteration on each kind of component -/

theorem timer_head {c : ATimer} {p : CPad} {ts : List Tok} (hs : Spells ts (spellTimer c p)) :
    ∃ tm r, ts = tm :: r ∧ tm.kind = .tilde := by
  obtain ⟨tm, nm, n1, tob, Q, tcb, rfl, htmk, -⟩ := rtt_timer_decomp hs
  exact ⟨tm, _, rfl, htmk⟩

theorem short_head {marker : Tok} {c : AComp} {ts : List Tok} (hs : Spells ts (spellShort marker c)) :
    ∃ tm r, ts = tm :: r ∧ tm.kind = marker.kind := by
  obtain ⟨tm, mt, W, nt, rfl, htmk, -⟩ := rts_short_decomp hs
  exact ⟨tm, _, rfl, htmk⟩

theorem stepOne_timer (c : ATimer) (p : CPad) (s : BP α) (hwf : c.wf s.cs s.ext = true) (hp : p.ok s.cs = true)
    (A ts rest : List Tok) (hs : Spells ts (spellTimer c p)) (ht : s.toks = A ++ (ts ++ rest))
    (hc : s.cur = A.length) (hrest : noParenNext rest = true) (hrun : RunAt (baseOff s.toks) s.toks) :
    ∃ i : Loc (PTimer α),
      stepOne s = ((), { s with cur := A.length + ts.length, evs := s.evs.push (.timer i) }) ∧
      TimerMatches s.cs c i.val := by
  obtain ⟨tmr, hrunI, hm⟩ := rt_timerP c p s hwf hp A ts rest hs ht hc hrest hrun
  obtain ⟨tm, r, hts, htmk⟩ := timer_head hs
  have h1 := peekK_split s A (ts ++ rest) ht hc
  refine ⟨⟨tmr, ⟨offAt s.toks A.length, offAt s.toks (A.length + ts.length)⟩⟩, ?_, hm⟩
  unfold stepOne
  simp only [bind, StateT.bind, h1, hts, List.cons_append, List.head?_cons, Option.map_some, htmk,
    withRecover_run, hrunI, Option.isNone_some, Bool.false_eq_true, if_false, pushEv_run]

theorem stepOne_ingredient1 (c : AComp) (s : BP α) (hwf : c.wfShort s.cs s.ext = true)
    (A ts rest : List Tok) (hs : Spells ts (spellShortIngredient c)) (ht : s.toks = A ++ (ts ++ rest))
    (hc : s.cur = A.length) (hrest : shortRestOK c rest = true) (hrun : RunAt (baseOff s.toks) s.toks) :
    ∃ i : Loc (PIngredient α),
      stepOne s = ((), { s with cur := A.length + ts.length, evs := s.evs.push (.ingredient i) }) ∧
      IngrMatches s.cs c i.val := by
  obtain ⟨ing, hrunI, hm⟩ := rt_ingredientP_short c s hwf A ts rest hs ht hc hrest hrun
  obtain ⟨tm, r, hts, htmk⟩ := short_head hs
  have h1 := peekK_split s A (ts ++ rest) ht hc
  refine ⟨⟨ing, ⟨offAt s.toks A.length, offAt s.toks (A.length + ts.length)⟩⟩, ?_, hm⟩
  unfold stepOne
  simp only [bind, StateT.bind, h1, hts, List.cons_append, List.head?_cons, Option.map_some, htmk, tk,
    withRecover_run, hrunI, Option.isNone_some, Bool.false_eq_true, if_false, pushEv_run]

theorem stepOne_cookware1 (c : AComp) (s : BP α) (hwf : c.wfShortCookware s.cs s.ext = true)
    (A ts rest : List Tok) (hs : Spells ts (spellShortCookware c)) (ht : s.toks = A ++ (ts ++ rest))
    (hc : s.cur = A.length) (hrest : shortRestOK c rest = true) (hrun : RunAt (baseOff s.toks) s.toks) :
    ∃ i : Loc (PCookware α),
      stepOne s = ((), { s with cur := A.length + ts.length, evs := s.evs.push (.cookware i) }) ∧
      CwMatches s.cs c i.val := by
  obtain ⟨cw, hrunI, hm⟩ := rt_cookwareP_short c s hwf A ts rest hs ht hc hrest hrun
  obtain ⟨tm, r, hts, htmk⟩ := short_head hs
  have h1 := peekK_split s A (ts ++ rest) ht hc
  refine ⟨⟨cw, ⟨offAt s.toks A.length, offAt s.toks (A.length + ts.length)⟩⟩, ?_, hm⟩
  unfold stepOne
  simp only [bind, StateT.bind, h1, hts, List.cons_append, List.head?_cons, Option.map_some, htmk, tk,
    withRecover_run, hrunI, Option.isNone_some, Bool.false_eq_true, if_false, pushEv_run]

theorem inter_head {pre post : List TK} {i : AInter} {ip : IPad} {c : AComp} {p : CPad} {ts : List Tok}
    (hs : Spells ts (spellIngredientI pre post i ip c p)) : ∃ tm r, ts = tm :: r ∧ tm.kind = .at := by
  simp only [spellIngredientI, List.append_assoc, List.cons_append, List.nil_append] at hs
  obtain ⟨tm, r, rfl, hk, -, -⟩ := hs.cons_inv
  exact ⟨tm, r, rfl, hk⟩

theorem stepOne_ingredientI (pre post : List TK) (i : AInter) (ip : IPad) (c : AComp) (p : CPad) (s : BP α)
    (hwf : wfInter s.cs s.ext pre post i c = true) (hip : ip.ok s.cs = true) (hp : p.ok s.cs = true)
    (A ts rest : List Tok) (hs : Spells ts (spellIngredientI pre post i ip c p)) (ht : s.toks = A ++ (ts ++ rest))
    (hc : s.cur = A.length) (hrest : restOK c rest = true) (hrun : RunAt (baseOff s.toks) s.toks) :
    ∃ ing : Loc (PIngredient α),
      stepOne s = ((), { s with cur := A.length + ts.length, evs := s.evs.push (.ingredient ing) }) ∧
      IngrMatchesI s.cs (pre ++ .and :: post) i c ing.val := by
  obtain ⟨ing, hrunI, hm⟩ := rt_ingredientP_inter pre post i ip c p s hwf hip hp A ts rest hs ht hc hrest hrun
  obtain ⟨tm, r, hts, htmk⟩ := inter_head hs
  have h1 := peekK_split s A (ts ++ rest) ht hc
  refine ⟨⟨ing, ⟨offAt s.toks A.length, offAt s.toks (A.length + ts.length)⟩⟩, ?_, hm⟩
  unfold stepOne
  simp only [bind, StateT.bind, h1, hts, List.cons_append, List.head?_cons, Option.map_some, htmk,
    withRecover_run, hrunI, Option.isNone_some, Bool.false_eq_true, if_false, pushEv_run]

/-! ### conditions on what follows depend on kinds only -/

theorem noParenNext_transfer {rest trest : List Tok} (hs : Spells trest rest) (h : noParenNext rest = true) :
    noParenNext trest = true := by
  unfold noParenNext at *
  have hk := hs.head_kind
  cases hr : rest.head? with
  | none =>
    rw [hr] at hk
    cases ht : trest.head? with
    | none => rfl
    | some t => rw [ht] at hk; simp at hk
  | some u =>
    rw [hr] at hk h
    cases ht : trest.head? with
    | none => rfl
    | some t =>
      rw [ht] at hk
      simp only [Option.map_some, Option.some.injEq] at hk
      simp only [Option.all_some, bne_iff_ne, ne_eq] at h ⊢
      rw [hk]; exact h

theorem shortRestOK_transfer {c : AComp} {rest trest : List Tok} (hs : Spells trest rest)
    (h : shortRestOK c rest = true) : shortRestOK c trest = true := by
  unfold shortRestOK at *
  simp only [Bool.and_eq_true] at h ⊢
  refine ⟨?_, ?_⟩
  · rw [← h.1]
    apply noBraceFirst_kinds
    rw [List.map_append, List.map_append, hs.kinds]
  · have h2 := h.2
    cases hn : c.note.isSome with
    | true => simp
    | false =>
      simp only [hn, Bool.false_or] at h2 ⊢
      have hk := hs.head_kind
      cases hr : rest.head? with
      | none =>
        rw [hr] at hk
        cases ht : trest.head? with
        | none => rfl
        | some t => rw [ht] at hk; simp at hk
      | some u =>
        rw [hr] at hk h2
        cases ht : trest.head? with
        | none => rfl
        | some t =>
          rw [ht] at hk
          simp only [Option.map_some, Option.some.injEq] at hk
          simp only [Option.all_some] at h2 ⊢
          rw [hk]; exact h2

/-- every component segment starts with a marker -/
theorem segX_head_marker {seg : SegX} {tsg : List Tok} (hs : Spells tsg seg.spell)
    (hnt : ∀ l, seg ≠ .text l) : ∃ tm r, tsg = tm :: r ∧ isMarker tm.kind = true := by
  cases seg with
  | text l => exact absurd rfl (hnt l)
  | ingredient c p => obtain ⟨tm, r, h, hk⟩ := comp_head hs; exact ⟨tm, r, h, by rw [hk]; rfl⟩
  | cookware c p => obtain ⟨tm, r, h, hk⟩ := comp_head hs; exact ⟨tm, r, h, by rw [hk]; rfl⟩
  | timer c p => obtain ⟨tm, r, h, hk⟩ := timer_head hs; exact ⟨tm, r, h, by rw [hk]; rfl⟩
  | ingredient1 c => obtain ⟨tm, r, h, hk⟩ := short_head hs; exact ⟨tm, r, h, by rw [hk]; rfl⟩
  | cookware1 c => obtain ⟨tm, r, h, hk⟩ := short_head hs; exact ⟨tm, r, h, by rw [hk]; rfl⟩
  | ingredientI pre post i ip c p => obtain ⟨tm, r, h, hk⟩ := inter_head hs; exact ⟨tm, r, h, by rw [hk]; rfl⟩

/-- the step loop over a list of segments: one event per segment, in order, nothing else -/
theorem stepLoop_segsX : ∀ (segs : List SegX) (fuel : Nat) (s : BP α) (A tsegs : List Tok),
    Spells tsegs (segs.flatMap SegX.spell) → s.toks = A ++ tsegs → s.cur = A.length →
    RunAt (baseOff s.toks) s.toks → segsXOK s.cs s.ext segs = true → tsegs.length ≤ fuel →
    ∃ (evs : List (Ev α)) (arr : Array (Ev α)),
      stepLoop fuel s = ((), { s with cur := A.length + tsegs.length, evs := arr }) ∧
      arr.toList = s.evs.toList ++ evs ∧ SegsXEvs s.cs segs evs := by
  intro segs
  induction segs with
  | nil =>
    intro fuel s A tsegs hs ht hc hrun hok hf
    simp only [List.flatMap_nil] at hs
    have := hs.nil_inv; subst this
    have hd : s.toks.drop s.cur = [] := by rw [ht, hc]; simp
    refine ⟨[], s.evs, ?_, by simp, SegsXEvs.nil⟩
    cases fuel with
    | zero =>
      unfold stepLoop
      simp only [bind, StateT.bind, restToks_run, hd, List.isEmpty_nil, Bool.not_true, Bool.false_eq_true, if_false,
        List.length_nil, Nat.add_zero, ← hc]
      rfl
    | succ f =>
      unfold stepLoop
      simp only [bind, StateT.bind, restToks_run, hd, List.isEmpty_nil, if_true, List.length_nil, Nat.add_zero, ← hc]
      rfl
  | cons seg rest ih =>
    intro fuel s A tsegs hs ht hc hrun hok hf
    simp only [List.flatMap_cons] at hs
    obtain ⟨tseg, trest, rfl, hseg, hrest⟩ := hs.append_inv
    simp only [segsXOK, Bool.and_eq_true] at hok
    obtain ⟨⟨hsok, hfol⟩, hrok⟩ := hok
    have key : ∀ (ev : Ev α), tseg ≠ [] →
        stepOne s = ((), { s with cur := A.length + tseg.length, evs := s.evs.push ev }) → SegXEv s.cs seg ev →
        ∃ (evs : List (Ev α)) (arr : Array (Ev α)),
          stepLoop fuel s = ((), { s with cur := A.length + (tseg ++ trest).length, evs := arr }) ∧
          arr.toList = s.evs.toList ++ evs ∧ SegsXEvs s.cs (seg :: rest) evs := by
      intro ev hne hstep hev
      have hpos : 0 < tseg.length := List.length_pos_iff.mpr hne
      obtain ⟨f, rfl⟩ : ∃ f, fuel = f + 1 := by
        cases tseg with
        | nil => exact absurd rfl hne
        | cons t r => exact ⟨fuel - 1, by simp at hf; omega⟩
      obtain ⟨evs', arr', hl, harr, hall⟩ := ih f ({ s with cur := A.length + tseg.length, evs := s.evs.push ev } : BP α)
        (A ++ tseg) trest hrest (by simp [ht]) (by simp) hrun hrok
        (by simp only [List.length_append] at hf; omega)
      refine ⟨ev :: evs', arr', ?_, by rw [harr]; simp, SegsXEvs.cons hev hall⟩
      have hd : (s.toks.drop s.cur).isEmpty = false := by
        rw [ht, hc, List.drop_left]
        cases tseg with
        | nil => exact absurd rfl hne
        | cons t r => rfl
      unfold stepLoop
      simp only [bind, StateT.bind, restToks_run, hd, Bool.false_eq_true, if_false, hstep, hl]
      congr 2
      simp only [List.length_append]; omega
    cases seg with
    | text l =>
      simp only [SegX.ok, Bool.and_eq_true, Bool.not_eq_true', List.isEmpty_eq_false_iff, List.all_eq_true] at hsok
      obtain ⟨⟨hlne, hlm⟩, hlv⟩ := hsok
      simp only [SegX.spell] at hseg
      cases tseg with
      | nil => have := hseg.length; simp at this; exact absurd (List.length_eq_zero_iff.mp this.symm) hlne
      | cons t0 tl =>
        have hnm : ∀ t ∈ t0 :: tl, isMarker t.kind = false := by
          intro t ht'
          obtain ⟨u, hu, hk, -⟩ := hseg.mem ht'
          rw [hk]; simpa using hlm u hu
        have hC : ∀ t, trest.head? = some t → isMarker t.kind = true := by
          intro t ht'
          cases rest with
          | nil => simp only [List.flatMap_nil] at hrest; rw [hrest.nil_inv] at ht'; simp at ht'
          | cons sg rest' =>
            simp only [List.flatMap_cons] at hrest
            obtain ⟨tsg, r', rfl, hsg, -⟩ := hrest.append_inv
            have hnt : ∀ l', sg ≠ .text l' := by
              intro l' he; subst he; simp [SegX.followOK] at hfol
            obtain ⟨tm, r, rfl, hk⟩ := segX_head_marker hsg hnt
            simp at ht'; subst ht'; exact hk
        have hvis : (t0 :: tl).flatMap vis ≠ [] := by
          rw [hseg.vis_eq]; intro h0; rw [h0] at hlv; simp at hlv
        obtain ⟨t, hstep, htx⟩ := stepOne_text s A t0 tl trest ht hc (hnm t0 (by simp))
          (fun x hx => hnm x (by simp [hx])) hC hvis hrun
        exact key (.text t) (by simp) hstep (by simp only [SegXEv]; rw [htx, hseg.vis_eq])
    | ingredient c p =>
      simp only [SegX.ok, Bool.and_eq_true] at hsok
      simp only [SegX.spell] at hseg
      simp only [SegX.followOK] at hfol
      obtain ⟨i, hstep, hm⟩ := stepOne_ingredient c p s hsok.1 hsok.2 A tseg trest hseg ht hc
        (restOK_transfer hrest hfol) hrun
      obtain ⟨tm, r, hts, -⟩ := comp_head hseg
      exact key (.ingredient i) (by rw [hts]; simp) hstep hm
    | cookware c p =>
      simp only [SegX.ok, Bool.and_eq_true] at hsok
      simp only [SegX.spell] at hseg
      simp only [SegX.followOK] at hfol
      obtain ⟨i, hstep, hm⟩ := stepOne_cookware c p s hsok.1 hsok.2 A tseg trest hseg ht hc
        (restOK_transfer hrest hfol) hrun
      obtain ⟨tm, r, hts, -⟩ := comp_head hseg
      exact key (.cookware i) (by rw [hts]; simp) hstep hm
    | timer c p =>
      simp only [SegX.ok, Bool.and_eq_true] at hsok
      simp only [SegX.spell] at hseg
      simp only [SegX.followOK] at hfol
      obtain ⟨i, hstep, hm⟩ := stepOne_timer c p s hsok.1 hsok.2 A tseg trest hseg ht hc
        (noParenNext_transfer hrest hfol) hrun
      obtain ⟨tm, r, hts, -⟩ := timer_head hseg
      exact key (.timer i) (by rw [hts]; simp) hstep hm
    | ingredient1 c =>
      simp only [SegX.ok] at hsok
      simp only [SegX.spell] at hseg
      simp only [SegX.followOK] at hfol
      obtain ⟨i, hstep, hm⟩ := stepOne_ingredient1 c s hsok A tseg trest hseg ht hc
        (shortRestOK_transfer hrest hfol) hrun
      obtain ⟨tm, r, hts, -⟩ := short_head hseg
      exact key (.ingredient i) (by rw [hts]; simp) hstep hm
    | cookware1 c =>
      simp only [SegX.ok] at hsok
      simp only [SegX.spell] at hseg
      simp only [SegX.followOK] at hfol
      obtain ⟨i, hstep, hm⟩ := stepOne_cookware1 c s hsok A tseg trest hseg ht hc
        (shortRestOK_transfer hrest hfol) hrun
      obtain ⟨tm, r, hts, -⟩ := short_head hseg
      exact key (.cookware i) (by rw [hts]; simp) hstep hm
    | ingredientI pre post i ip c p =>
      simp only [SegX.ok, Bool.and_eq_true] at hsok
      simp only [SegX.spell] at hseg
      simp only [SegX.followOK] at hfol
      obtain ⟨ing, hstep, hm⟩ := stepOne_ingredientI pre post i ip c p s hsok.1.1 hsok.1.2 hsok.2 A tseg trest hseg ht hc
        (restOK_transfer hrest hfol) hrun
      obtain ⟨tm, r, hts, -⟩ := inter_head hseg
      exact key (.ingredient ing) (by rw [hts]; simp) hstep hm

theorem rt_parseStepX (segs : List SegX) (s : BP α) (ts : List Tok) (hs : Spells ts (segs.flatMap SegX.spell))
    (ht : s.toks = ts) (hc : s.cur = 0) (hrun : RunAt (baseOff ts) ts) (hok : segsXOK s.cs s.ext segs = true) :
    ∃ (evs : List (Ev α)) (arr : Array (Ev α)),
      parseStep s = ((), { s with cur := ts.length, evs := arr }) ∧
      arr.toList = s.evs.toList ++ [.start .step] ++ evs ++ [.stop .step] ∧ SegsXEvs s.cs segs evs := by
  subst ht
  obtain ⟨evs, arr, hl, harr, hall⟩ := stepLoop_segsX segs s.toks.length
    ({ s with evs := s.evs.push (.start .step) } : BP α) [] s.toks hs (by simp) (by simpa using hc) hrun hok
    (Nat.le_refl _)
  refine ⟨evs, arr.push (.stop .step), ?_, by simp [harr], hall⟩
  unfold parseStep
  have hd : (s.toks.drop s.cur).length = s.toks.length := by rw [hc]; simp
  simp only [bind, StateT.bind, pushEv_run, restToks_run, hd, hl]
  simp

end Cook
