import CookModel.Lemmas.AisleText
import CookModel.Lemmas.AisleTotal
/-
  Every configuration returned by `parse` is well formed (`WF`): names carry no separator,
  newline or comment, ingredient names are trimmed, an ingredient's written line is neither
  blank nor a category line, and no category / ingredient name occurs twice.
-/
namespace Cook.Aisle

/-! ### first and last character of the joined trimmed pieces -/

theorem mem_joinSep_infix (sep : Char) (ps : List (List Char)) (p : List Char) (h : p ∈ ps) :
    ∃ a c, joinSep sep ps = a ++ p ++ c := by
  induction ps with
  | nil => simp at h
  | cons q qs ih =>
    cases qs with
    | nil => simp at h; subst h; exact ⟨[], [], by simp [joinSep]⟩
    | cons r rs =>
      rcases List.mem_cons.1 h with rfl | h
      · exact ⟨[], sep :: joinSep sep (r :: rs), by simp [joinSep]⟩
      · obtain ⟨a, c, hac⟩ := ih h
        exact ⟨q ++ sep :: a, c, by simp [joinSep, hac]⟩

theorem mem_pieces_infix (sep : Char) (l p : List Char) (h : p ∈ pieces sep l) : ∃ a c, l = a ++ p ++ c := by
  have := mem_joinSep_infix sep _ p h
  rwa [joinSep_pieces] at this

theorem bar_not_ws : isWhitespace '|' = false := by decide
theorem lbr_not_ws : isWhitespace '[' = false := by decide
theorem rbr_not_ws : isWhitespace ']' = false := by decide

/-- the join of the trimmed pieces of a text without leading white space starts like the text -/
theorem joinTrim_head (L : List Char) (hL : NoWsHead L) :
    (joinBar ((pieces '|' L).map trimChars)).head? = L.head? := by
  cases L with
  | nil => simp [pieces, splitOn, joinSep, trimChars_nil]
  | cons c cs =>
    have hc : isWhitespace c = false := hL c (by simp)
    by_cases hb : c = '|'
    · subst hb
      rw [pieces_cons_sep]
      simp only [pieces, List.map_cons, trimChars_nil, joinBar, joinSep_nil_cons]
      simp
    · rw [pieces_cons_ne _ _ _ hb]
      have hh := trimChars_head (c :: (splitOn '|' cs).1) c (by simp) hc
      cases ht : trimChars (c :: (splitOn '|' cs).1) with
      | nil => rw [ht] at hh; simp at hh
      | cons x xs =>
        rw [ht] at hh; simp at hh; subst hh
        simp only [List.map_cons, ht, joinBar, joinSep_cons_cons]
        simp

theorem getLast?_append_cons (x y : List Char) (c : Char) : (x ++ c :: y).getLast? = (c :: y).getLast? := by
  induction x with
  | nil => rfl
  | cons a x ih =>
    cases hx : x ++ c :: y with
    | nil => simp at hx
    | cons z zs => rw [List.cons_append, hx, List.getLast?_cons_cons, ← hx, ih]

/-- … and ends like the text when the text has no trailing white space -/
theorem joinTrim_last (L : List Char) (hL : NoWsLast L) :
    (joinBar ((pieces '|' L).map trimChars)).getLast? = L.getLast? := by
  obtain ⟨init, last, hp, _, hd⟩ := pieces_last '|' L
  rw [hp, List.map_append, List.map_cons, List.map_nil]
  have key : ∀ c, last.getLast? = some c → isWhitespace c = false → (trimChars last).getLast? = some c :=
    fun c h hc => trimChars_getLast last c h hc
  rcases hd with ⟨hi, hL'⟩ | ⟨hi, hL'⟩
  · subst hi; subst hL'
    simp only [List.map_nil, List.nil_append, joinBar, joinSep]
    cases hl : L.getLast? with
    | none => rw [List.getLast?_eq_none_iff] at hl; subst hl; rfl
    | some c => exact key c hl (hL c hl)
  · have hi' : init.map trimChars ≠ [] := by simpa using hi
    rw [joinBar, joinSep_append_singleton _ _ _ hi', hL', getLast?_append_cons, getLast?_append_cons]
    cases hl : last.getLast? with
    | none => rw [List.getLast?_eq_none_iff] at hl; subst hl; simp [trimChars_nil]
    | some c =>
      have hLl : L.getLast? = some c := by
        rw [hL', getLast?_append_cons]
        cases last with
        | nil => simp at hl
        | cons y ys => rw [List.getLast?_cons_cons]; exact hl
      have hk := key c hl (hL c hLl)
      cases hy : last with
      | nil => rw [hy] at hl; simp at hl
      | cons y ys =>
        cases ht : trimChars (y :: ys) with
        | nil => rw [hy, ht] at hk; simp at hk
        | cons z zs =>
          rw [hy] at hl; rw [hy, ht] at hk
          rw [List.getLast?_cons_cons, List.getLast?_cons_cons, hk, hl]

theorem isCatLine_joinTrim (L : List Char) (hL : trimChars L = L) :
    isCatLine (joinBar ((pieces '|' L).map trimChars)) = isCatLine L := by
  obtain ⟨h1, h2⟩ := noWs_of_trimmed L hL
  unfold isCatLine
  rw [joinTrim_head L h1, joinTrim_last L h2]

/-! ### what a line contributes is well formed -/

theorem not_mem_infix {x : Char} {l a m c : List Char} (h : x ∉ l) (e : l = a ++ m ++ c) : x ∉ m := by
  intro hm; exact h (by rw [e]; simp [hm])

theorem igrWF_of_line (L : List Char) (ht : trimChars L = L) (hc : hasComment L = false)
    (hn : '\n' ∉ L) (hcat : isCatLine L = false) (hne : L ≠ []) :
    IgrWF ((pieces '|' L).map trimChars) := by
  refine ⟨by simp [pieces], ?_, by rw [isCatLine_joinTrim L ht]; exact hcat, ?_⟩
  · intro n hnm
    obtain ⟨p, hp, rfl⟩ := List.mem_map.1 hnm
    obtain ⟨a, c, hac⟩ := mem_pieces_infix '|' L p hp
    obtain ⟨a', c', hac'⟩ := trimChars_infix p
    refine ⟨trimChars_idem p, not_mem_infix (pieces_noSep '|' L p hp) hac', ?_, ?_⟩
    · exact not_mem_infix (not_mem_infix hn hac) hac'
    · have := noComment_infix a p c (by rw [← hac]; exact hc)
      exact noComment_infix a' _ c' (by rw [← hac']; exact this)
  · obtain ⟨h1, _⟩ := noWs_of_trimmed L ht
    intro e
    have := joinTrim_head L h1
    rw [e] at this
    cases L with
    | nil => exact hne rfl
    | cons c cs => simp at this

theorem catNameOK_of_line (L : List Char) (hc : hasComment L = false) (hn : '\n' ∉ L)
    (hlen : 2 ≤ L.length) (hbar : '|' ∉ innerChars L) : CatNameOK (innerChars L) := by
  obtain ⟨c, hdec⟩ := inner_decomp L hlen
  exact ⟨hbar, not_mem_infix hn hdec, noComment_infix _ _ c (by rw [← hdec]; exact hc)⟩

/-! ### the invariant of the loop -/

structure Inv (st : St) : Prop where
  cats : ∀ c ∈ pushCur st, CatWF c
  catNames : (pushCur st).map (·.name) = (st.usedCats.map (·.chars)).reverse
  names : allNames (pushCur st) = (st.usedNames.map (·.chars)).reverse
  catsNodup : (st.usedCats.map (·.chars)).Nodup
  namesNodup : (st.usedNames.map (·.chars)).Nodup

theorem allNames_append (a b : List Category) : allNames (a ++ b) = allNames a ++ allNames b := by
  simp [allNames]

theorem catLine_ok {inLen : Nat} {st st' : St} {line : Slice} (h : catLine inLen st line = .ok st') :
    2 ≤ line.chars.length ∧ '|' ∉ innerChars line.chars ∧
    innerChars line.chars ∉ st.usedCats.map (·.chars) ∧
    st' = ⟨pushCur st, some ⟨innerChars line.chars, []⟩, inner line :: st.usedCats, st.usedNames⟩ := by
  unfold catLine at h
  split at h
  · cases h
  · rename_i hlen
    split at h
    · cases hc : calcSpan inLen (inner line) <;> simp [hc, Except.bind] at h
    · rename_i hbar
      split at h
      · rename_i other _
        cases hc : calcSpan inLen other <;> simp [hc, Except.bind] at h
        cases hc2 : calcSpan inLen (inner line) <;> simp [hc2] at h
      · rename_i hnone
        cases h
        exact ⟨by omega, by simpa [inner] using hbar, findUsed_none hnone, rfl⟩

theorem catLine_inv {inLen : Nat} {st st' : St} {line : Slice} (hinv : Inv st)
    (hc : hasComment line.chars = false) (hn : '\n' ∉ line.chars)
    (h : catLine inLen st line = .ok st') : Inv st' := by
  obtain ⟨hlen, hbar, hfresh, rfl⟩ := catLine_ok h
  have hp : pushCur (⟨pushCur st, some ⟨innerChars line.chars, []⟩, inner line :: st.usedCats, st.usedNames⟩ : St)
      = pushCur st ++ [⟨innerChars line.chars, []⟩] := rfl
  refine ⟨?_, ?_, ?_, ?_, hinv.namesNodup⟩
  · rw [hp]; intro c hcm
    rcases List.mem_append.1 hcm with hcm | hcm
    · exact hinv.cats c hcm
    · simp at hcm; subst hcm
      exact ⟨catNameOK_of_line _ hc hn hlen hbar, by simp⟩
  · rw [hp]; simp [hinv.catNames, inner]
  · rw [hp, allNames_append, hinv.names]; simp [allNames]
  · simp only [List.map_cons, List.nodup_cons]
    exact ⟨by simpa [inner] using hfresh, hinv.catsNodup⟩

theorem addNames_ok {inLen : Nat} (segs used used' : List Slice)
    (h : addNames inLen used segs = .ok used') (hnd : (used.map (·.chars)).Nodup) :
    used'.map (·.chars) = (segs.map fun s => trimChars s.chars).reverse ++ used.map (·.chars) ∧
    (used'.map (·.chars)).Nodup := by
  induction segs generalizing used with
  | nil => simp only [addNames] at h; cases h; exact ⟨by simp, hnd⟩
  | cons seg rest ih =>
    unfold addNames at h
    split at h
    · rename_i other _
      cases hc : calcSpan inLen other <;> simp [hc, Except.bind] at h
      cases hc2 : calcSpan inLen (trim seg) <;> simp [hc2] at h
    · rename_i hnone
      have hfresh := findUsed_none hnone
      obtain ⟨h1, h2⟩ := ih (trim seg :: used) h (by
        simp only [List.map_cons, List.nodup_cons]; exact ⟨hfresh, hnd⟩)
      refine ⟨?_, h2⟩
      rw [h1]; simp [trim_chars]

theorem slicesFrom_map_trim (off : Nat) (ps : List (List Char)) :
    ((slicesFrom off ps).map fun s => trimChars s.chars) = ps.map trimChars := by
  induction ps generalizing off with
  | nil => rfl
  | cons p qs ih => simp [slicesFrom, ih]

theorem igrLine_inv {inLen : Nat} {st st' : St} {line : Slice} (hinv : Inv st)
    (ht : trimChars line.chars = line.chars) (hc : hasComment line.chars = false)
    (hn : '\n' ∉ line.chars) (hcat : isCatLine line.chars = false) (hne : line.chars ≠ [])
    (h : igrLine inLen st line = .ok st') : Inv st' := by
  unfold igrLine at h
  split at h
  · cases h
  · rename_i used hused
    obtain ⟨hu1, hu2⟩ := addNames_ok _ _ _ hused hinv.namesNodup
    rw [slicesFrom_map_trim] at hu1
    split at h
    · rename_i cat hcat'
      cases h
      have hp0 : pushCur st = st.cats ++ [cat] := by simp [pushCur, hcat']
      have hp : pushCur (⟨st.cats, some ⟨cat.name, cat.ingredients ++ [⟨(pieces '|' line.chars).map trimChars⟩]⟩,
          st.usedCats, used⟩ : St) = st.cats ++ [⟨cat.name, cat.ingredients ++ [⟨(pieces '|' line.chars).map trimChars⟩]⟩] := rfl
      have hcats := hinv.cats
      have hcn := hinv.catNames
      have hnm := hinv.names
      rw [hp0] at hcats hcn hnm
      refine ⟨?_, ?_, ?_, hinv.catsNodup, hu2⟩
      · rw [hp]; intro c hcm
        rcases List.mem_append.1 hcm with hcm | hcm
        · exact hcats c (List.mem_append_left _ hcm)
        · simp at hcm; subst hcm
          have hcw := hcats cat (by simp)
          refine ⟨hcw.name, ?_⟩
          intro i hi
          rcases List.mem_append.1 hi with hi | hi
          · exact hcw.igrs i hi
          · simp at hi; subst hi
            exact igrWF_of_line _ ht hc hn hcat hne
      · rw [hp]; simpa using hcn
      · rw [hp, hu1, List.reverse_append, List.reverse_reverse, ← hnm]
        simp [allNames]
    · cases hcs : calcSpan inLen line <;> simp [hcs, Except.bind] at h

theorem stepLine_inv {inLen : Nat} {st st' : St} {raw : Slice} (hinv : Inv st) (hn : '\n' ∉ raw.chars)
    (h : stepLine inLen st raw = .ok st') : Inv st' := by
  have hch : (trim (stripComment raw)).chars = trimChars (stripCommentChars raw.chars) := by
    rw [trim_chars]; rfl
  obtain ⟨cpre, hpre⟩ := stripComment_prefix raw.chars
  obtain ⟨a, c, hac⟩ := trimChars_infix (stripCommentChars raw.chars)
  have hnl : '\n' ∉ (trim (stripComment raw)).chars := by
    rw [hch]
    have h1 : '\n' ∉ stripCommentChars raw.chars := by
      intro hm; exact hn (by rw [hpre]; exact List.mem_append_left _ hm)
    exact not_mem_infix h1 hac
  have hnc : hasComment (trim (stripComment raw)).chars = false := by
    rw [hch]
    exact noComment_infix a _ c (by rw [← hac]; exact hasComment_strip _)
  have htr : trimChars (trim (stripComment raw)).chars = (trim (stripComment raw)).chars := by
    rw [hch]; exact trimChars_idem _
  unfold stepLine at h
  split at h
  · exact catLine_inv hinv hnc hnl h
  · rename_i hcat
    split at h
    · rename_i hne
      exact igrLine_inv hinv htr hnc hnl (by simpa using hcat) (by simpa using hne) h
    · cases h; exact hinv

theorem parseLines_inv {inLen : Nat} (ls : List Slice) (st st' : St) (hinv : Inv st)
    (hn : ∀ l ∈ ls, '\n' ∉ l.chars) (h : parseLines inLen st ls = .ok st') : Inv st' := by
  induction ls generalizing st with
  | nil => simp only [parseLines] at h; cases h; exact hinv
  | cons l ls ih =>
    unfold parseLines at h
    split at h
    · cases h
    · rename_i st1 h1
      exact ih st1 (stepLine_inv hinv (hn l (by simp)) h1) (fun x hx => hn x (List.mem_cons_of_mem _ hx)) h

theorem inv_init : Inv St.init :=
  ⟨by simp [St.init, pushCur], by simp [St.init, pushCur], by simp [St.init, pushCur, allNames],
   by simp [St.init], by simp [St.init]⟩

/-- the configurations `parse` returns are well formed -/
theorem parse_wf (input : List Char) (c : Conf) (h : parse input = .ok c) : WF c := by
  unfold parse at h
  split at h
  · cases h
  · rename_i st hst
    cases h
    have hinv := parseLines_inv _ _ _ inv_init (lines_noNewline input) hst
    refine ⟨hinv.cats, ?_, ?_⟩
    · simp only; rw [hinv.catNames]; exact (List.reverse_perm _).nodup_iff.2 hinv.catsNodup
    · simp only; rw [hinv.names]; exact (List.reverse_perm _).nodup_iff.2 hinv.namesNodup

end Cook.Aisle
