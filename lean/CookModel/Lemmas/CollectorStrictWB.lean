import CookModel.Lemmas.CollectorInterRef
import CookModel.Lemmas.ClosingStream
/-
  The pull parser's event stream is STRICTLY bracketed: besides `WellBracketed`, a `Section` event is
  only emitted between blocks (`SectionsOutsideBlocks`, automaton `wbS`).  The proof is the one of
  `pullEvents_wellBracketed` (Lemmas/ClosingStream.lean) replayed for the stricter automaton: a block
  contributes either diagnostics, or one single-line event (section / metadata) while nothing is open, or
  `Start k … End k` around events of that block kind.
-/
set_option linter.unusedSectionVars false
set_option linter.unusedVariables false
set_option linter.unusedSimpArgs false
namespace Cook

variable {α : Type} [Arith α] {I : Array (Ev α) → Prop} [DiagStable I]

theorem wbS_diag {ev : Ev α} (h : QDiag ev) (o : Option BlockKind) : wbS o ev = some o := by
  rcases h with ⟨d, rfl⟩ | ⟨d, rfl⟩ <;> rfl

theorem wbS_step {ev : Ev α} (h : QStep ev) : wbS (some .step) ev = some (some .step) := by
  rcases h with h | ⟨t, rfl⟩ | ⟨_, hc⟩
  · exact wbS_diag h _
  · rfl
  · cases ev <;> first | rfl | cases hc

theorem wbS_text {ev : Ev α} (h : QText ev) : wbS (some .text) ev = some (some .text) := by
  rcases h with h | ⟨t, rfl⟩
  · exact wbS_diag h _
  · rfl

theorem wbS_stay (o : Option BlockKind) (l rest : List (Ev α)) (h : ∀ e ∈ l, wbS o e = some o)
    (hr : WBS o rest) : WBS o (l ++ rest) := by
  induction l with
  | nil => exact hr
  | cons e l ih =>
    exact ⟨o, h e List.mem_cons_self, ih (fun e' he' => h e' (List.mem_cons_of_mem _ he'))⟩

/-- the events one block contributes: from "no block open" back to "no block open" -/
def ClosedS (l : List (Ev α)) : Prop := ∀ rest, WBS none rest → WBS none (l ++ rest)

theorem ClosedS.nil : ClosedS ([] : List (Ev α)) := fun _ h => h

theorem ClosedS.append {a b : List (Ev α)} (ha : ClosedS a) (hb : ClosedS b) : ClosedS (a ++ b) := by
  intro rest hr
  rw [List.append_assoc]
  exact ha _ (hb _ hr)

theorem ClosedS.diag {l : List (Ev α)} (h : ∀ e ∈ l, QDiag e) : ClosedS l :=
  fun rest hr => wbS_stay none l rest (fun e he => wbS_diag (h e he) _) hr

theorem ClosedS.block (k : BlockKind) {l : List (Ev α)} (h : ∀ e ∈ l, wbS (some k) e = some (some k)) :
    ClosedS (Ev.start k :: (l ++ [Ev.stop k])) := by
  intro rest hr
  refine ⟨some k, rfl, ?_⟩
  show WBS (some k) ((l ++ [Ev.stop k]) ++ rest)
  rw [List.append_assoc]
  refine wbS_stay (some k) l _ h ?_
  exact ⟨none, by simp [wbS, wbStep], hr⟩


theorem parseStep_closedS (s : BP α) :
    ∃ l : List (Ev α), (parseStep s).2.evs = s.evs ++ l.toArray ∧ ClosedS l := by
  have hk : ∀ base, Keeps (ExtQ base (QStep (α := α))) (do stepLoop (α := α) ((← restToks).length)) (fun _ => True) := by
    intro base; keeps
  obtain ⟨l, h1, h2, -⟩ := appends_of_keeps hk { s with evs := s.evs.push (.start .step) }
  refine ⟨Ev.start .step :: (l ++ [Ev.stop .step]), ?_, ClosedS.block .step (fun e he => wbS_step (h2 e he))⟩
  show ((do stepLoop (α := α) ((← restToks).length)) { s with evs := s.evs.push (.start .step) }).2.evs.push (.stop .step) = _
  rw [h1]
  simp

theorem parseTextBlock_closedS (s : BP α) :
    ∃ l : List (Ev α), (parseTextBlock s).2.evs = s.evs ++ l.toArray ∧ ClosedS l := by
  have hk : ∀ base, Keeps (ExtQ base (QText (α := α))) (do textBlockLoop (α := α) ((← restToks).length)) (fun _ => True) := by
    intro base; keeps
  obtain ⟨l, h1, h2, -⟩ := appends_of_keeps hk { s with evs := s.evs.push (.start .text) }
  refine ⟨Ev.start .text :: (l ++ [Ev.stop .text]), ?_, ClosedS.block .text (fun e he => wbS_text (h2 e he))⟩
  show ((do textBlockLoop (α := α) ((← restToks).length)) { s with evs := s.evs.push (.start .text) }).2.evs.push (.stop .text) = _
  rw [h1]
  simp

/-- `m` appends a closed group of events and returns a result satisfying `R` -/
structure ClosedSM {β : Type} (m : P α β) (R : β → Prop) : Prop where
  run : ∀ s : BP α, ∃ l : List (Ev α), (m s).2.evs = s.evs ++ l.toArray ∧ ClosedS l ∧ R (m s).1

theorem ClosedSM.bind {β γ : Type} {m : P α β} {k : β → P α γ} {R : β → Prop} {R' : γ → Prop}
    (hm : ClosedSM m R) (hk : ∀ a, R a → ClosedSM (k a) R') : ClosedSM (m >>= k) R' := by
  constructor
  intro s
  obtain ⟨l1, h1, c1, r1⟩ := hm.run s
  obtain ⟨l2, h2, c2, r2⟩ := (hk _ r1).run (m s).2
  refine ⟨l1 ++ l2, ?_, c1.append c2, r2⟩
  show ((k (m s).1) (m s).2).2.evs = _
  rw [h2, h1]; simp

theorem ClosedSM.pure {β : Type} {a : β} {R : β → Prop} (h : R a) : ClosedSM (Pure.pure a : P α β) R :=
  ⟨fun s => ⟨[], by simp [Pure.pure, StateT.pure], ClosedS.nil, h⟩⟩

/-- a parser that only pushes diagnostics -/
theorem ClosedSM.of_diag {β : Type} {m : P α β} {R : β → Prop}
    (h : ∀ base, Keeps (ExtQ base (QDiag (α := α))) m R) : ClosedSM m R := by
  constructor
  intro s
  obtain ⟨l, h1, h2, h3⟩ := appends_of_keeps h s
  exact ⟨l, h1, ClosedS.diag h2, h3⟩

theorem strict_parseMultilineBlock_closed : ClosedSM (parseMultilineBlock (α := α)) (fun _ => True) := by
  unfold parseMultilineBlock
  refine ClosedSM.bind (ClosedSM.of_diag (fun _ => allToks_keeps)) (fun all _ => ?_)
  split
  · exact ClosedSM.bind (ClosedSM.of_diag (fun _ => consumeRest_keeps)) (fun _ _ => ClosedSM.pure trivial)
  · refine ClosedSM.bind (ClosedSM.of_diag (fun _ => peekK_keeps)) (fun k _ => ?_)
    split
    · exact ⟨fun s => by obtain ⟨l, h1, h2⟩ := parseTextBlock_closedS s; exact ⟨l, h1, h2, trivial⟩⟩
    · exact ⟨fun s => by obtain ⟨l, h1, h2⟩ := parseStep_closedS s; exact ⟨l, h1, h2, trivial⟩⟩


theorem strict_pushSingle_closed {ev : Ev α} (h : IsSingle ev) : ClosedSM (pushEv ev) (fun _ => True) := by
  constructor
  intro s
  refine ⟨[ev], by simp [pushEv, modify, modifyGet, MonadStateOf.modifyGet, StateT.modifyGet, Pure.pure], ?_, trivial⟩
  intro rest hr
  refine ⟨none, ?_, hr⟩
  rcases h with ⟨n, rfl⟩ | ⟨k, v, rfl⟩ <;> rfl

theorem strict_parseBlock_closed (oldStyle : Bool) : ClosedSM (parseBlock (α := α) oldStyle) (fun _ => True) := by
  unfold parseBlock
  apply ClosedSM.bind (R := RSingle)
  · apply ClosedSM.of_diag
    intro base
    have h1 := (closing_sectionP_keeps (α := α) (I := ExtQ base QDiag)).mono
      (R' := RSingle) (fun r hr ev he => Or.inl (hr ev he))
    have h2 := closing_metadataEntry_keeps (α := α) (I := ExtQ base QDiag)
    keeps
    all_goals (
      refine Keeps.pure ?_
      intro ev he
      first | (cases he; done) | (cases he; exact Or.inr ⟨_, _, rfl⟩))
  · intro r hr
    split
    · rename_i ev
      exact strict_pushSingle_closed (hr ev rfl)
    · exact strict_parseMultilineBlock_closed

theorem strict_runBlock_closed (cs : CharSpec) (ext : Ext) (oldStyle : Bool) (b : List Tok)
    (evs : Array (Ev α)) (panic : Option String) :
    ∃ l : List (Ev α), (runBlock cs ext oldStyle b evs panic).1 = evs ++ l.toArray ∧ ClosedS l := by
  have key : ClosedSM (do
      if b.isEmpty then panicWith "BlockParser::new: empty tokens"
      parseBlock (α := α) oldStyle
      let s ← get
      if s.cur ≠ s.toks.length then panicWith "Block tokens not parsed") (fun _ => True) := by
    have hp : ∀ site, ClosedSM (panicWith (α := α) site) (fun _ => True) :=
      fun site => ClosedSM.of_diag (fun _ => Keeps.panicWith site)
    have tail : ClosedSM (do
        parseBlock (α := α) oldStyle
        let s ← get
        if s.cur ≠ s.toks.length then panicWith "Block tokens not parsed") (fun _ => True) := by
      refine ClosedSM.bind (strict_parseBlock_closed oldStyle) (fun _ _ => ?_)
      refine ClosedSM.bind (R := fun _ => True) (ClosedSM.of_diag (fun _ => ⟨fun s hs => ⟨hs, trivial⟩⟩)) (fun s0 _ => ?_)
      split
      · exact hp _
      · exact ClosedSM.pure trivial
    dsimp only
    split
    · exact ClosedSM.bind (hp _) (fun _ _ => tail)
    · exact tail
  obtain ⟨l, h1, h2, -⟩ := key.run ⟨b, 0, ext, cs, evs, panic⟩
  exact ⟨l, h1, h2⟩

theorem strict_foldl_runBlock_closed (cs : CharSpec) (ext : Ext) (oldStyle : Bool) (blocks : List (List Tok))
    (acc : Array (Ev α) × Option String) :
    ∃ l : List (Ev α), (blocks.foldl (fun acc b => runBlock (α := α) cs ext oldStyle b acc.1 acc.2) acc).1 =
      acc.1 ++ l.toArray ∧ ClosedS l := by
  induction blocks generalizing acc with
  | nil => exact ⟨[], by simp, ClosedS.nil⟩
  | cons b bs ih =>
    rw [List.foldl_cons]
    obtain ⟨l1, h1, c1⟩ := strict_runBlock_closed cs ext oldStyle b acc.1 acc.2
    obtain ⟨l2, h2, c2⟩ := ih (runBlock cs ext oldStyle b acc.1 acc.2)
    exact ⟨l1 ++ l2, by rw [h2, h1]; simp, c1.append c2⟩

/-- **the pull parser emits `Section` events only between blocks** (and the stream is well bracketed) -/
theorem pullEvents_sectionsOutsideBlocks (cs : CharSpec) (ext : Ext) (input : List Char) :
    SectionsOutsideBlocks (pullEvents (α := α) cs ext input).1.toList := by
  unfold pullEvents
  split
  rename_i toks evs0 oldStyle heq
  obtain ⟨l, h1, c⟩ := strict_foldl_runBlock_closed (α := α) cs ext oldStyle
    (allBlocks (toks.length + 1) toks) (evs0, none)
  rw [h1]
  split at heq
  · simp only [Prod.mk.injEq] at heq
    rw [← heq.2.1]
    simp only [Array.toList_append, List.toList_toArray]
    exact ⟨none, rfl, by simpa using c [] trivial⟩
  · simp only [Prod.mk.injEq] at heq
    rw [← heq.2.1]
    simp only [Array.toList_append, List.toList_toArray]
    show WBS none _
    simpa using c [] trivial

/-- the strict automaton refines the bracketing automaton -/
theorem wbStep_of_wbS {o o' : Option BlockKind} {ev : Ev α} (h : wbS o ev = some o') : wbStep o ev = some o' := by
  cases ev <;> first | exact h | skip
  simp only [wbS] at h
  split at h
  · rename_i ho
    subst ho
    exact h
  · cases h

theorem WBFrom_of_WBS (o : Option BlockKind) (evs : List (Ev α)) (h : WBS o evs) : WBFrom o evs := by
  induction evs generalizing o with
  | nil => trivial
  | cons ev rest ih =>
    obtain ⟨o', h1, h2⟩ := h
    exact ⟨o', wbStep_of_wbS h1, ih o' h2⟩

end Cook
