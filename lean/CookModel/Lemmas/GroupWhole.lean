import CookModel.Lemmas.GroupConserve
/-
  The whole categorized list against the whole list (second audit of C10): everything found under all
  (category, common name) pairs and under all names of `other` together is everything the list held.
  Prefix `gw_`.
-/
namespace Cook
open Arith GroupedQuantity

/-- total weight of a list: all its entries -/
def gw_listW (w : SQuantity Rat → Rat) (l : IngredientList Rat) : Rat :=
  sumBy (fun e => GroupedQuantity.gsum w e.2) l

/-- total weight of a categorized list: all entries of all categories, and `other` -/
def gw_czW (w : SQuantity Rat → Rat) (cz : Categorized Rat) : Rat :=
  sumBy (fun cat => gw_listW w cat.2) cz.categories + gw_listW w cz.other

namespace BMap
variable {β : Type}

theorem gw_sum_replace (g : β → Rat) (k : Str) (v old : β) (m : BMap β) (h : m.get? k = some old) :
    sumBy (fun e => g e.2) (replace k v m) = sumBy (fun e => g e.2) m - g old + g v := by
  induction m with
  | nil => simp [get?] at h
  | cons e rest ih =>
    unfold replace
    by_cases he : e.1 = k
    · simp only [get?, he, if_true, Option.some.injEq] at h
      simp only [he, if_true, sumBy_cons, ← h]; grind
    · simp only [get?, he, if_false] at h
      simp only [he, if_false, sumBy_cons, ih h]; grind

theorem gw_sum_insertSorted (g : β → Rat) (k : Str) (v : β) (m : BMap β) :
    sumBy (fun e => g e.2) (insertSorted k v m) = sumBy (fun e => g e.2) m + g v := by
  induction m with
  | nil => simp only [insertSorted, sumBy_cons, sumBy_nil]; grind
  | cons e rest ih =>
    unfold insertSorted
    split
    · simp only [sumBy_cons, ih]; grind
    · simp only [sumBy_cons]; grind

/-- the total after `upsert`: the old value of the key (if any) is replaced by the new one -/
theorem gw_sum_upsert (g : β → Rat) (k : Str) (f : Option β → β) (m : BMap β) :
    sumBy (fun e => g e.2) (upsert k f m) =
      sumBy (fun e => g e.2) m - optW g (m.get? k) + g (f (m.get? k)) := by
  unfold upsert
  split
  · rename_i old hold
    rw [gw_sum_replace g k _ old m hold, hold]; rfl
  · rename_i hnone
    rw [gw_sum_insertSorted, hnone]; simp only [optW]; grind

end BMap

/-- one iteration of `categorize` adds exactly the entry's weight to the whole, provided the entry's name is
    not yet in `other` (names of a list are distinct) -/
theorem gw_categorizeStep {w : SQuantity Rat → Rat} (hw : JoinAdditive w) (ord : MapOrder Rat)
    (hord : ord.IsPerm) (aisle : Aisle.Conf) (acc : Categorized Rat) (e : Str × GroupedQuantity Rat)
    (hfresh : acc.other.get? e.1 = none) :
    gw_czW w (categorizeStep ord aisle acc e) = gw_czW w acc + GroupedQuantity.gsum w e.2 := by
  unfold categorizeStep
  cases hl : Aisle.lookup aisle e.1 with
  | none =>
    simp only [gw_czW, gw_listW]
    rw [BMap.gw_sum_upsert (GroupedQuantity.gsum w), hfresh]; simp only [optW]; grind
  | some info =>
    simp only [gw_czW]
    rw [BMap.gw_sum_upsert (gw_listW w)]
    have key : ∀ L : IngredientList Rat,
        gw_listW w (BMap.upsert info.common (intoCommon ord e.2) L) = gw_listW w L + GroupedQuantity.gsum w e.2 := by
      intro L
      unfold gw_listW
      rw [BMap.gw_sum_upsert (GroupedQuantity.gsum w)]
      cases hg : L.get? info.common with
      | none => simp only [intoCommon, optW]; grind
      | some g => simp only [intoCommon, optW, GroupedQuantity.absorb_gsum hw ord hord]; grind
    rw [key]
    cases hc : acc.categories.get? info.category with
    | none => simp only [Option.getD_none, optW, gw_listW, sumBy_nil]; grind
    | some L => simp only [Option.getD_some, optW]; grind

theorem gw_categorize_fold {w : SQuantity Rat → Rat} (hw : JoinAdditive w) (ord : MapOrder Rat)
    (hord : ord.IsPerm) (aisle : Aisle.Conf) (l : IngredientList Rat) (acc : Categorized Rat)
    (hnd : (BMap.keys l).Nodup) (hfresh : ∀ k ∈ BMap.keys l, acc.other.get? k = none) :
    gw_czW w (l.foldl (categorizeStep ord aisle) acc) = gw_czW w acc + gw_listW w l := by
  induction l generalizing acc with
  | nil => simp only [List.foldl_nil, gw_listW, sumBy_nil]; grind
  | cons e rest ih =>
    simp only [BMap.keys, List.map_cons, List.nodup_cons, List.mem_cons, forall_eq_or_imp] at hnd hfresh
    have hrest : ∀ k ∈ BMap.keys rest, (categorizeStep ord aisle acc e).other.get? k = none := by
      intro k hk
      rw [categorizeStep_other_get?]
      have : k ≠ e.1 := fun h => hnd.1 (h ▸ hk)
      simp [this, hfresh.2 k hk]
    simp only [List.foldl_cons]
    rw [ih _ hnd.2 hrest, gw_categorizeStep hw ord hord aisle acc e hfresh.1]
    simp only [gw_listW, sumBy_cons]; grind

/-- **the whole categorized list weighs what the whole list weighs** -/
theorem gw_categorize_total {w : SQuantity Rat → Rat} (hw : JoinAdditive w) (ord : MapOrder Rat)
    (hord : ord.IsPerm) (aisle : Aisle.Conf) (l : IngredientList Rat) (hnd : (BMap.keys l).Nodup) :
    gw_czW w (categorize ord aisle l) = gw_listW w l := by
  unfold categorize
  rw [gw_categorize_fold hw ord hord aisle l ⟨[], []⟩ hnd (fun _ _ => rfl)]
  simp only [gw_czW, gw_listW, sumBy_nil]; grind

/-! ### as lists of quantities -/

/-- everything a list holds: what `IngredientList::iter` yields, entry after entry -/
def allListed (ord : MapOrder Rat) (l : IngredientList Rat) : List (SQuantity Rat) :=
  l.flatMap (fun e => e.2.iter ord)

/-- everything a categorized list holds: what `CategorizedIngredientList::iter` yields (all categories, then
    `other`) -/
def allCategorized (ord : MapOrder Rat) (cz : Categorized Rat) : List (SQuantity Rat) :=
  cz.categories.flatMap (fun cat => allListed ord cat.2) ++ allListed ord cz.other

theorem gw_sumBy_allListed (w : SQuantity Rat → Rat) (ord : MapOrder Rat) (hord : ord.IsPerm)
    (l : IngredientList Rat) : sumBy w (allListed ord l) = gw_listW w l := by
  unfold allListed gw_listW
  rw [sumBy_flatMap]
  exact sumBy_congr _ (fun e _ => gsum_iter w ord hord e.2)

theorem gw_sumBy_allCategorized (w : SQuantity Rat → Rat) (ord : MapOrder Rat) (hord : ord.IsPerm)
    (cz : Categorized Rat) : sumBy w (allCategorized ord cz) = gw_czW w cz := by
  unfold allCategorized gw_czW
  rw [sumBy_append, sumBy_flatMap, gw_sumBy_allListed w ord hord]
  congr 1
  exact sumBy_congr _ (fun cat _ => gw_sumBy_allListed w ord hord cat.2)

end Cook
