import CookModel.Lemmas.CollectorTrans
import CookModel.Lemmas.ClosingFold
/-
  C06, intermediate references in the RETURNED recipe: an ingredient item whose ingredient targets a
  step addresses an earlier step of the section the item's step ends up in; one that targets a
  section addresses an earlier section.

  `interRefTarget` is evaluated against `cur.content` / `sections.length` at the time the ingredient
  is analysed.  The invariant `IRefInv` ties that to the final sections list: content only grows at
  the end, finished sections are never modified, the open block is pushed at the end of the current
  section.  It needs that a `Section` event never arrives while a block is open (otherwise the block
  would be pushed into the NEW section while its references address the old one): the strict
  bracketing automaton `wbS`, which the pull parser's stream satisfies (Lemmas/CollectorStrictWB.lean).
-/
set_option linter.unusedSectionVars false
set_option linter.unusedSimpArgs false
set_option linter.unusedVariables false
namespace Cook
variable {α : Type} [Arith α]

/-- ingredient `k`, used by an item of the block at position `p` of `content` in section number `si`:
    a step target is an earlier position of `content` holding a step, a section target is below `si` -/
def RefAt (ings : Array (Ingredient (ScalableValue α))) (content : List Content) (p si k : Nat) : Prop :=
  ∀ ig, ings[k]? = some ig → ∀ i,
    (ig.relation = ⟨.reference i, some .step⟩ → i < p ∧ ∃ st, content[i]? = some (.step st)) ∧
    (ig.relation = ⟨.reference i, some .section⟩ → i < si)

theorem RefAt.append {ings : Array (Ingredient (ScalableValue α))} {content : List Content} {p si k : Nat}
    (h : RefAt ings content p si k) (hp : p ≤ content.length) (more : List Content) :
    RefAt ings (content ++ more) p si k := by
  intro ig hig i
  obtain ⟨h1, h2⟩ := h ig hig i
  refine ⟨fun hr => ?_, h2⟩
  obtain ⟨hlt, st, hst⟩ := h1 hr
  refine ⟨hlt, st, ?_⟩
  rw [List.getElem?_append_left (by omega)]
  exact hst

/-- an entry of the old table that is a reference is not touched by `ingredientA` -/
theorem IngrStep.old_ref {env : Env} {s : Col α} {ings : Array (Ingredient (ScalableValue α))}
    {igr : Ingredient (ScalableValue α)} (hstep : IngrStep env s ings igr) (hsz : ings.size = s.ingredients.size)
    (k : Nat) (hk : k < s.ingredients.size) (ig' : Ingredient (ScalableValue α))
    (h : (ings.push igr)[k]? = some ig') (t : Nat) (hr : ig'.relation.relation = .reference t) :
    s.ingredients[k]? = some ig' := by
  rcases hstep with ⟨he, _⟩ | ⟨he, _⟩ | ⟨t0, defn, rf, b, h1, h2, h3, h4, h5, h6, he⟩
  · rw [Array.getElem?_push, if_neg (by omega), he] at h; exact h
  · rw [Array.getElem?_push, if_neg (by omega), he] at h; exact h
  · have ht : t0 < s.ingredients.size := lt_size_of_getElem? h1
    rw [he, getElem?_push_set _ _ _ _ _ ht, if_neg (by omega)] at h
    split at h
    · cases h; cases hr
    · exact h

theorem RefAt.step {env : Env} {s : Col α} {ings : Array (Ingredient (ScalableValue α))}
    {igr : Ingredient (ScalableValue α)} {content : List Content} {p si k : Nat}
    (h : RefAt s.ingredients content p si k) (hstep : IngrStep env s ings igr)
    (hsz : ings.size = s.ingredients.size) (hk : k < s.ingredients.size) :
    RefAt (ings.push igr) content p si k := by
  intro ig' hig' i
  refine ⟨fun hr => ?_, fun hr => ?_⟩
  · exact ((h ig' (hstep.old_ref hsz k hk ig' hig' i (by rw [hr]))) i).1 hr
  · exact ((h ig' (hstep.old_ref hsz k hk ig' hig' i (by rw [hr]))) i).2 hr

/-- the new ingredient: its intermediate target was computed against the current section -/
theorem RefAt.new {env : Env} {s : Col α} {ings : Array (Ingredient (ScalableValue α))}
    {igr : Ingredient (ScalableValue α)} (hstep : IngrStep env s ings igr) (hsz : ings.size = s.ingredients.size) :
    RefAt (ings.push igr) s.cur.content s.cur.content.length s.sections.length s.ingredients.size := by
  intro ig' hig' i
  rw [Array.getElem?_push, if_pos hsz.symm] at hig'
  cases hig'
  rcases hstep with ⟨_, b, hb⟩ | ⟨_, _, rel, d, hrel, hb⟩ | ⟨t, defn, rf, b, _, _, _, _, h5, _, _⟩
  · rw [hb]; exact ⟨fun hr => (by cases hr), fun hr => (by cases hr)⟩
  · rw [hb]
    rcases interRefTarget_inRange _ _ _ _ hrel with ⟨j, hj, hlt, hst⟩ | ⟨j, hj, hlt⟩
    · rw [hj]
      refine ⟨fun hr => ?_, fun hr => (by cases hr)⟩
      cases hr; exact ⟨hlt, hst⟩
    · rw [hj]
      refine ⟨fun hr => (by cases hr), fun hr => ?_⟩
      cases hr; exact hlt
  · rw [h5]; exact ⟨fun hr => (by cases hr), fun hr => (by cases hr)⟩

/-- all ingredient items of the steps of section `sec`, which is (or will be) section number `si` -/
def SecRef (ings : Array (Ingredient (ScalableValue α))) (sec : Section) (si : Nat) : Prop :=
  ∀ p st, sec.content[p]? = some (.step st) → ∀ k, Item.ingredient k ∈ st.items → RefAt ings sec.content p si k

structure IRefInv (s : Col α) : Prop where
  secs : ∀ si sec, s.sections[si]? = some sec → SecRef s.ingredients sec si
  cur : SecRef s.ingredients s.cur s.sections.length
  blk : ∀ k, Item.ingredient k ∈ blockItems s.block →
    RefAt s.ingredients s.cur.content s.cur.content.length s.sections.length k

theorem IRefInv.init : IRefInv (α := α) {} :=
  ⟨fun si sec h => by simp at h, fun p st h => by simp at h, fun k h => by cases h⟩

theorem getElem?_append_singleton {β : Type} (l : List β) (x y : β) (i : Nat) (h : (l ++ [x])[i]? = some y) :
    l[i]? = some y ∨ (i = l.length ∧ y = x) := by
  rw [List.getElem?_append] at h
  split at h
  · exact Or.inl h
  · rename_i hge
    right
    have : i - l.length = 0 := by
      rcases Nat.eq_zero_or_pos (i - l.length) with h0 | h0
      · exact h0
      · rw [List.getElem?_eq_none (by simp; omega)] at h; cases h
    rw [this] at h
    simp only [List.getElem?_cons_zero, Option.some.injEq] at h
    exact ⟨by omega, h.symm⟩

/-- the sections list after the current section is finished -/
theorem IRefInv.finish {s : Col α} (h : IRefInv s) (si : Nat) (sec : Section)
    (hs : (if (!s.cur.isEmpty) = true then s.sections ++ [s.cur] else s.sections)[si]? = some sec) :
    SecRef s.ingredients sec si := by
  split at hs
  · rcases getElem?_append_singleton _ _ _ _ hs with hs | ⟨rfl, rfl⟩
    · exact h.secs si sec hs
    · exact h.cur
  · exact h.secs si sec hs

theorem Inv.blk_ingr {env : Env} {s : Col α} (hi : Inv env s) (k : Nat)
    (hk : Item.ingredient k ∈ blockItems s.block) : k < s.ingredients.size := by
  cases hb : s.block with
  | none => rw [hb] at hk; cases hk
  | some buf =>
    cases buf with
    | text t => rw [hb] at hk; cases hk
    | step items =>
      rw [hb] at hk
      exact hi.blk items hb _ hk

theorem Inv.content_ingr {s : Col α} {content : List Content}
    (hc : ∀ ct ∈ content, ContentOK s.ingredients.size s.cookware.size s.timers.size s.inlineQ.size ct)
    (p : Nat) (st : Step) (hp : content[p]? = some (.step st)) (k : Nat) (hk : Item.ingredient k ∈ st.items) :
    k < s.ingredients.size :=
  ((hc _ (List.mem_of_getElem? hp)).2 st rfl).2 _ hk

theorem not_mem_of_filterMap_ingrIdx_nil {extra : List Item} (h : extra.filterMap Item.ingrIdx = []) (k : Nat) :
    Item.ingredient k ∉ extra := by
  intro hk
  have : k ∈ extra.filterMap Item.ingrIdx := List.mem_filterMap.mpr ⟨_, hk, rfl⟩
  rw [h] at this; cases this

/-- one change keeps the invariant; a new section needs that no block is open -/
theorem Trans.iref {env : Env} {b : Ev α} {s s' : Col α} (ht : Trans env b s s') (hi : Inv env s) (h : IRefInv s)
    (hb0 : b.isSec = true → blockItems s.block = []) : IRefInv s' := by
  cases ht with
  | keep hsec hcur hi' hc hb =>
    refine ⟨?_, ?_, ?_⟩
    · rw [hsec, hi']; exact h.secs
    · rw [hcur, hsec, hi']; exact h.cur
    · rw [hcur, hsec, hi']
      intro k hk
      rcases hb with hb | ⟨extra, hb, e1, _⟩
      · rw [hb] at hk; cases hk
      · rw [hb, List.mem_append] at hk
        rcases hk with hk | hk
        · exact h.blk k hk
        · exact absurd hk (not_mem_of_filterMap_ingrIdx_nil e1 k)
  | newSection name hse hsec hcur hi' hc hb =>
    refine ⟨?_, ?_, ?_⟩
    · rw [hsec, hi']
      exact fun si sec hs => h.finish si sec hs
    · rw [hcur]
      intro p st hp
      simp at hp
    · rw [hb, hb0 hse]
      intro k hk; cases hk
  | pushBlock c hsec hcur hi' hc hb hitems =>
    refine ⟨by rw [hsec, hi']; exact h.secs, ?_, by rw [hb]; intro k hk; cases hk⟩
    rw [hcur, hsec, hi']
    intro p st hp k hk
    dsimp only at hp ⊢
    rcases getElem?_append_singleton _ _ _ _ hp with hp | ⟨rfl, rfl⟩
    · exact (h.cur p st hp k hk).append (Nat.le_of_lt (List.getElem?_eq_some_iff.mp hp).1) [c]
    · exact (h.blk k (by rw [← hitems]; exact hk)).append (Nat.le_refl _) _
  | ingr ings igr hsec hcur hi' hsz hstep hc hb =>
    refine ⟨?_, ?_, ?_⟩
    · rw [hsec, hi']
      intro si sec hs p st hp k hk
      exact (h.secs si sec hs p st hp k hk).step hstep hsz
        (Inv.content_ingr (hi.secs sec (List.mem_of_getElem? hs)).2.2 p st hp k hk)
    · rw [hcur, hsec, hi']
      intro p st hp k hk
      exact (h.cur p st hp k hk).step hstep hsz (Inv.content_ingr hi.cur.2 p st hp k hk)
    · rw [hcur, hsec, hi', hb]
      intro k hk
      rw [List.mem_append, List.mem_singleton] at hk
      rcases hk with hk | hk
      · exact (h.blk k hk).step hstep hsz (hi.blk_ingr k hk)
      · cases hk
        exact RefAt.new hstep hsz
  | cw cws cwn hsec hcur hi' hc hsz hstep hb =>
    refine ⟨?_, ?_, ?_⟩
    · rw [hsec, hi']; exact h.secs
    · rw [hcur, hsec, hi']; exact h.cur
    · rw [hcur, hsec, hi', hb]
      intro k hk
      rw [List.mem_append, List.mem_singleton] at hk
      rcases hk with hk | hk
      · exact h.blk k hk
      · cases hk

/-! ### strict bracketing: a `Section` event only between blocks -/

/-- `wbStep`, except that a `Section` event is accepted only when no block is open -/
def wbS (o : Option BlockKind) (ev : Ev α) : Option (Option BlockKind) :=
  match ev with
  | .«section» _ => if o = none then some none else none
  | ev => wbStep o ev

def WBS : Option BlockKind → List (Ev α) → Prop
  | _, [] => True
  | o, ev :: rest => ∃ o', wbS o ev = some o' ∧ WBS o' rest

/-- `Section` events occur only outside `Start … End` -/
def SectionsOutsideBlocks (evs : List (Ev α)) : Prop := WBS none evs

/-- no block is buffered when the automaton says none is open -/
def BlockNone (s : Col α) (o : Option BlockKind) : Prop := o = none → s.block = none

theorem processEvent_blockNone (env : Env) (input : Str) (ev : Ev α) (s : Col α) (o o' : Option BlockKind)
    (hw : wbS o ev = some o') (hb : BlockNone s o) : BlockNone (processEvent env input ev s).2 o' := by
  cases ev with
  | frontMatter t =>
    simp only [wbS, wbStep, Option.some.injEq] at hw; subst hw
    simp only [processEvent, A_modify]; exact hb
  | warning d =>
    simp only [wbS, wbStep, Option.some.injEq] at hw; subst hw
    simp only [processEvent, A_modify]; exact hb
  | error d =>
    simp only [wbS, wbStep, Option.some.injEq] at hw; subst hw
    simp only [processEvent]; exact hb
  | «section» name =>
    simp only [wbS] at hw
    split at hw
    · rename_i ho
      simp only [Option.some.injEq] at hw; subst hw
      simp only [processEvent, A_modify]
      intro _; exact hb ho
    · cases hw
  | metadata k v =>
    simp only [wbS, wbStep] at hw
    split at hw
    · rename_i ho
      simp only [Option.some.injEq] at hw; subst hw
      simp only [processEvent]
      intro _
      have := (metadataA_pres (α := α) env k v).out s
      simp only [Prod.mk.injEq] at this
      rw [this.2]; exact hb ho
    · cases hw
  | start k =>
    simp only [wbS, wbStep] at hw
    split at hw
    · simp only [Option.some.injEq] at hw; subst hw
      intro hc; cases hc
    · cases hw
  | stop k =>
    simp only [wbS, wbStep] at hw
    split at hw
    · simp only [processEvent]
      intro _; exact endBlock_block k s
    · cases hw
  | text t =>
    simp only [wbS, wbStep] at hw
    split at hw
    · cases hw
    · rename_i ho
      simp only [Option.some.injEq] at hw; subst hw
      intro hc; exact absurd hc ho
  | ingredient i =>
    simp only [wbS, wbStep] at hw
    split at hw
    · rename_i ho
      simp only [Option.some.injEq] at hw; subst hw
      intro hc; rw [ho] at hc; cases hc
    · cases hw
  | cookware i =>
    simp only [wbS, wbStep] at hw
    split at hw
    · rename_i ho
      simp only [Option.some.injEq] at hw; subst hw
      intro hc; rw [ho] at hc; cases hc
    · cases hw
  | timer i =>
    simp only [wbS, wbStep] at hw
    split at hw
    · rename_i ho
      simp only [Option.some.injEq] at hw; subst hw
      intro hc; rw [ho] at hc; cases hc
    · cases hw

theorem wbS_section_none {o o' : Option BlockKind} {ev : Ev α} (hw : wbS o ev = some o') (he : ev.isSec = true) :
    o = none := by
  cases ev <;> simp only [Ev.isSec, Bool.false_eq_true] at he
  simp only [wbS] at hw
  split at hw
  · assumption
  · cases hw

/-- every event of a strictly bracketed stream keeps the invariant -/
theorem processEvent_iref (env : Env) (input : Str) (ev : Ev α) (s : Col α) (o o' : Option BlockKind)
    (hi : Inv env s) (h : IRefInv s) (hb : BlockNone s o) (hw : wbS o ev = some o') (hev : EvOK ev) :
    IRefInv (processEvent env input ev s).2 :=
  (processEvent_trans env input ev s hi hev).iref hi h
    (fun he => by rw [hb (wbS_section_none hw he)]; rfl)

/-- what holds of the returned collector -/
def IRefFinal (c : Col α) : Prop := ∀ si sec, c.sections[si]? = some sec → SecRef c.ingredients sec si

theorem parseEventsLoop_iref (env : Env) (input : Str) (evs : List (Ev α)) (s c : Col α) (o : Option BlockKind)
    (hi : Inv env s) (h : IRefInv s) (hb : BlockNone s o) (hw : WBS o evs)
    (hev : ∀ ev ∈ evs, EvOK ev) (hc : (parseEventsLoop env input evs s).output = some c) : IRefFinal c := by
  induction evs generalizing s o with
  | nil =>
    simp only [parseEventsLoop, Option.some.injEq] at hc
    subst hc
    have key : ∀ si sec, (if (!s.cur.isEmpty) = true then s.sections ++ [s.cur] else s.sections)[si]? = some sec →
        SecRef s.ingredients sec si := h.finish
    unfold IRefFinal
    split <;> split <;> rename_i h1 h2 <;> simp only [h1, if_true, if_false] at key <;> exact key
  | cons ev rest ih =>
    by_cases he : ∃ d0, ev = .error d0
    · obtain ⟨d0, rfl⟩ := he
      simp only [parseEventsLoop] at hc
      cases hc
    · rw [parseEventsLoop_cons_nonerror env input ev rest s he] at hc
      obtain ⟨o', hw1, hw2⟩ := hw
      exact ih _ o' (processEvent_inv env input ev s hi (hev ev List.mem_cons_self))
        (processEvent_iref env input ev s o o' hi h hb hw1 (hev ev List.mem_cons_self))
        (processEvent_blockNone env input ev s o o' hw1 hb) hw2
        (fun e he' => hev e (List.mem_cons_of_mem _ he')) hc

end Cook
