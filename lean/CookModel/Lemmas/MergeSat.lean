import CookModel.Lemmas.FitNumbers
import CookModel.Lemmas.FractionSat
import CookModel.Lemmas.Convert
/-
  Which numbers `merge`, `absorb` and `ScaledRecipe::convert` can write (wave 11, C10): the same argument as
  `fnum_addAll` — a sum is a plain number (`Value::try_add`), everything else is copied — for the two ways of
  putting one group into another, and `fnum_convertImpl` for every quantity of a recipe.  Generic in `P`.
-/
namespace Cook
open Arith GroupedQuantity

variable {c : Converter Rat} {P : Number Rat → Prop}

theorem msat_merge (hreg : ∀ x, P (.regular x)) (ord : MapOrder Rat) (hord : ord.IsPerm)
    {g other : GroupedQuantity Rat} (hg : g.AllNum P) (ho : other.AllNum P) : (merge ord c g other).AllNum P :=
  fnum_addAll hreg _ g hg (fnum_iter_of_allNum ord hord ho)

theorem msat_joinTo (hreg : ∀ x, P (.regular x)) {stored q n : SQuantity Rat} (h : joinTo stored q = some n) :
    n.value.AllNum P := by
  unfold joinTo at h
  split at h
  · split at h
    · rename_i v hv
      simp only [Option.some.injEq] at h
      subst h
      exact fnum_tryAdd hreg hv
    · cases h
  · cases h

theorem msat_absorbKnown (hreg : ∀ x, P (.regular x)) (known : PhysQ → Option (SQuantity Rat))
    (hk : ∀ pq q, known pq = some q → q.value.AllNum P) (l : List PhysQ) (g : GroupedQuantity Rat)
    (hg : g.AllNum P) : (absorbKnown g known l).AllNum P := by
  induction l generalizing g with
  | nil => exact hg
  | cons pq rest ih =>
    unfold absorbKnown
    split
    · exact ih g hg
    · rename_i q hq
      split
      · split
        · rename_i n hn
          exact ih _ (fnum_setKnown pq hg (msat_joinTo hreg hn))
        · exact ih _ (fnum_pushOther hg (hk _ _ hq))
      · exact ih _ (fnum_setKnown pq hg (hk _ _ hq))

theorem msat_absorbUnknown (hreg : ∀ x, P (.regular x)) (l : List (Str × SQuantity Rat))
    (hl : ∀ e ∈ l, e.2.value.AllNum P) (g : GroupedQuantity Rat) (hg : g.AllNum P) :
    (absorbUnknown g l).AllNum P := by
  induction l generalizing g with
  | nil => exact hg
  | cons e rest ih =>
    have he := hl e List.mem_cons_self
    have hrest : ∀ x ∈ rest, x.2.value.AllNum P := fun x hx => hl x (List.mem_cons_of_mem _ hx)
    unfold absorbUnknown
    split
    · split
      · rename_i n hn
        exact ih hrest _ ⟨hg.1, fnum_replaceUnknown _ _ _ hg.2.1 (msat_joinTo hreg hn), hg.2.2.1, hg.2.2.2⟩
      · exact ih hrest _ (fnum_pushOther hg he)
    · refine ih hrest _ ⟨hg.1, ?_, hg.2.2.1, hg.2.2.2⟩
      intro x hx
      simp only [List.mem_append, List.mem_singleton] at hx
      rcases hx with hx | rfl
      · exact hg.2.1 x hx
      · exact he

theorem msat_absorbNoUnit (hreg : ∀ x, P (.regular x)) (o : Option (SQuantity Rat))
    (ho : ∀ q, o = some q → q.value.AllNum P) (g : GroupedQuantity Rat) (hg : g.AllNum P) :
    (absorbNoUnit g o).AllNum P := by
  unfold absorbNoUnit
  split
  · exact hg
  · rename_i q
    have hq := ho q rfl
    split
    · split
      · rename_i n hn
        refine ⟨hg.1, hg.2.1, hg.2.2.1, ?_⟩
        intro x hx
        simp only [Option.some.injEq] at hx
        subst hx
        exact msat_joinTo hreg hn
      · exact fnum_pushOther hg hq
    · refine ⟨hg.1, hg.2.1, hg.2.2.1, ?_⟩
      intro x hx
      simp only [Option.some.injEq] at hx
      subst hx
      exact hq

theorem msat_absorb (hreg : ∀ x, P (.regular x)) (ord : MapOrder Rat) (hord : ord.IsPerm)
    {g other : GroupedQuantity Rat} (hg : g.AllNum P) (ho : other.AllNum P) : (absorb ord g other).AllNum P := by
  have h1 := msat_absorbKnown hreg other.known ho.1 PhysQ.all g hg
  have h2 := msat_absorbUnknown hreg (ord other.unknown)
    (fun e he => ho.2.1 e ((hord other.unknown).subset he)) _ h1
  have h3 := msat_absorbNoUnit hreg other.noUnit ho.2.2.2 _ h2
  unfold absorb
  refine ⟨h3.1, h3.2.1, ?_, h3.2.2.2⟩
  intro q hq
  simp only [List.mem_append] at hq
  rcases hq with hq | hq
  · exact h3.2.2.1 q hq
  · exact ho.2.2.1 q hq

/-- every quantity `ScaledRecipe::convert` visits (ingredients, timers, inline quantities) -/
def ScaledRecipe.AllNum (P : Number Rat → Prop) (r : ScaledRecipe Rat) : Prop :=
  (∀ i ∈ r.ingredients, ∀ q, i.quantity = some q → q.value.AllNum P) ∧
  (∀ t ∈ r.timers, ∀ q, t.quantity = some q → q.value.AllNum P) ∧
  (∀ q ∈ r.inlineQuantities, q.value.AllNum P)

theorem msat_convResult (H : ApproxClosed c P) (to : System) (o : Option (SQuantity Rat))
    (ho : ∀ q, o = some q → q.value.AllNum P) : ∀ q, convResult c to o = some q → q.value.AllNum P := by
  intro q hq
  cases o with
  | none => cases hq
  | some q0 =>
    simp only [convResult, Option.some.injEq] at hq
    subst hq
    exact fnum_convertImpl H q0 _ (ho q0 rfl)

theorem msat_recipeConvert (H : ApproxClosed c P) (to : System) (r : ScaledRecipe Rat) (hr : r.AllNum P) :
    (recipeConvert c to r).1.AllNum P := by
  obtain ⟨_, _, hi, ht, hq, _⟩ := recipeConvert_spec c to r
  refine ⟨?_, ?_, ?_⟩
  · rw [hi]
    intro i hi' q hq'
    simp only [List.mem_map] at hi'
    obtain ⟨i0, hi0, rfl⟩ := hi'
    exact msat_convResult H to _ (hr.1 i0 hi0) q hq'
  · rw [ht]
    intro t ht' q hq'
    simp only [List.mem_map] at ht'
    obtain ⟨t0, ht0, rfl⟩ := ht'
    exact msat_convResult H to _ (hr.2.1 t0 ht0) q hq'
  · rw [hq]
    intro q hq'
    simp only [List.mem_map] at hq'
    obtain ⟨q0, hq0, rfl⟩ := hq'
    exact fnum_convertImpl H q0 _ (hr.2.2 q0 hq0)

end Cook
