import CookModel.Lemmas.FitNumbers
import CookModel.Lemmas.FractionSat
import CookModel.Lemmas.Convert
import CookModel.Lemmas.IngList
/-
  Which numbers `merge`, `absorb` and `ScaledRecipe::convert` can write (wave 11, C10): the same argument as
  `fnum_addAll` — a sum is a plain number (`Value::try_add`), everything else is copied — for the two ways of
  putting one group into another, and `fnum_convertImpl` for every quantity of a recipe.  Generic in `P`.
-/
namespace Cook
open Arith GroupedQuantity

variable {c : Converter Rat} {P : Number Rat → Prop}

theorem msat_merge (hreg : ∀ x, P (.regular x)) (ord : MapOrder Rat) (hord : ord.IsPerm)
    {g other : GroupedQuantity Rat} (hg : g.AllNum P) (ho : other.AllNum P) : (merge ord c g other).AllNum P :=
  fnum_addAll hreg _ g hg (fnum_iter_of_allNum ord hord ho)

theorem msat_joinTo (hreg : ∀ x, P (.regular x)) {stored q n : SQuantity Rat} (h : joinTo stored q = some n) :
    n.value.AllNum P := by
  unfold joinTo at h
  split at h
  · split at h
    · rename_i v hv
      simp only [Option.some.injEq] at h
      subst h
      exact fnum_tryAdd hreg hv
    · cases h
  · cases h

theorem msat_absorbKnown (hreg : ∀ x, P (.regular x)) (known : PhysQ → Option (SQuantity Rat))
    (hk : ∀ pq q, known pq = some q → q.value.AllNum P) (l : List PhysQ) (g : GroupedQuantity Rat)
    (hg : g.AllNum P) : (absorbKnown g known l).AllNum P := by
  induction l generalizing g with
  | nil => exact hg
  | cons pq rest ih =>
    unfold absorbKnown
    split
    · exact ih g hg
    · rename_i q hq
      split
      · split
        · rename_i n hn
          exact ih _ (fnum_setKnown pq hg (msat_joinTo hreg hn))
        · exact ih _ (fnum_pushOther hg (hk _ _ hq))
      · exact ih _ (fnum_setKnown pq hg (hk _ _ hq))

theorem msat_absorbUnknown (hreg : ∀ x, P (.regular x)) (l : List (Str × SQuantity Rat))
    (hl : ∀ e ∈ l, e.2.value.AllNum P) (g : GroupedQuantity Rat) (hg : g.AllNum P) :
    (absorbUnknown g l).AllNum P := by
  induction l generalizing g with
  | nil => exact hg
  | cons e rest ih =>
    have he := hl e List.mem_cons_self
    have hrest : ∀ x ∈ rest, x.2.value.AllNum P := fun x hx => hl x (List.mem_cons_of_mem _ hx)
    unfold absorbUnknown
    split
    · split
      · rename_i n hn
        exact ih hrest _ ⟨hg.1, fnum_replaceUnknown _ _ _ hg.2.1 (msat_joinTo hreg hn), hg.2.2.1, hg.2.2.2⟩
      · exact ih hrest _ (fnum_pushOther hg he)
    · refine ih hrest _ ⟨hg.1, ?_, hg.2.2.1, hg.2.2.2⟩
      intro x hx
      simp only [List.mem_append, List.mem_singleton] at hx
      rcases hx with hx | rfl
      · exact hg.2.1 x hx
      · exact he

theorem msat_absorbNoUnit (hreg : ∀ x, P (.regular x)) (o : Option (SQuantity Rat))
    (ho : ∀ q, o = some q → q.value.AllNum P) (g : GroupedQuantity Rat) (hg : g.AllNum P) :
    (absorbNoUnit g o).AllNum P := by
  unfold absorbNoUnit
  split
  · exact hg
  · rename_i q
    have hq := ho q rfl
    split
    · split
      · rename_i n hn
        refine ⟨hg.1, hg.2.1, hg.2.2.1, ?_⟩
        intro x hx
        simp only [Option.some.injEq] at hx
        subst hx
        exact msat_joinTo hreg hn
      · exact fnum_pushOther hg hq
    · refine ⟨hg.1, hg.2.1, hg.2.2.1, ?_⟩
      intro x hx
      simp only [Option.some.injEq] at hx
      subst hx
      exact hq

theorem msat_absorb (hreg : ∀ x, P (.regular x)) (ord : MapOrder Rat) (hord : ord.IsPerm)
    {g other : GroupedQuantity Rat} (hg : g.AllNum P) (ho : other.AllNum P) : (absorb ord g other).AllNum P := by
  have h1 := msat_absorbKnown hreg other.known ho.1 PhysQ.all g hg
  have h2 := msat_absorbUnknown hreg (ord other.unknown)
    (fun e he => ho.2.1 e ((hord other.unknown).subset he)) _ h1
  have h3 := msat_absorbNoUnit hreg other.noUnit ho.2.2.2 _ h2
  unfold absorb
  refine ⟨h3.1, h3.2.1, ?_, h3.2.2.2⟩
  intro q hq
  simp only [List.mem_append] at hq
  rcases hq with hq | hq
  · exact h3.2.2.1 q hq
  · exact ho.2.2.1 q hq

/-- every quantity `ScaledRecipe::convert` visits (ingredients, timers, inline quantities) -/
def ScaledRecipe.AllNum (P : Number Rat → Prop) (r : ScaledRecipe Rat) : Prop :=
  (∀ i ∈ r.ingredients, ∀ q, i.quantity = some q → q.value.AllNum P) ∧
  (∀ t ∈ r.timers, ∀ q, t.quantity = some q → q.value.AllNum P) ∧
  (∀ q ∈ r.inlineQuantities, q.value.AllNum P)

theorem msat_convResult (H : ApproxClosed c P) (to : System) (o : Option (SQuantity Rat))
    (ho : ∀ q, o = some q → q.value.AllNum P) : ∀ q, convResult c to o = some q → q.value.AllNum P := by
  intro q hq
  cases o with
  | none => cases hq
  | some q0 =>
    simp only [convResult, Option.some.injEq] at hq
    subst hq
    exact fnum_convertImpl H q0 _ (ho q0 rfl)

theorem msat_recipeConvert (H : ApproxClosed c P) (to : System) (r : ScaledRecipe Rat) (hr : r.AllNum P) :
    (recipeConvert c to r).1.AllNum P := by
  obtain ⟨_, _, hi, ht, hq, _⟩ := recipeConvert_spec c to r
  refine ⟨?_, ?_, ?_⟩
  · rw [hi]
    intro i hi' q hq'
    simp only [List.mem_map] at hi'
    obtain ⟨i0, hi0, rfl⟩ := hi'
    exact msat_convResult H to _ (hr.1 i0 hi0) q hq'
  · rw [ht]
    intro t ht' q hq'
    simp only [List.mem_map] at ht'
    obtain ⟨t0, ht0, rfl⟩ := ht'
    exact msat_convResult H to _ (hr.2.1 t0 ht0) q hq'
  · rw [hq]
    intro q hq'
    simp only [List.mem_map] at hq'
    obtain ⟨q0, hq0, rfl⟩ := hq'
    exact fnum_convertImpl H q0 _ (hr.2.2 q0 hq0)

/-! ### the ingredient list: `group_quantities` (add all, fit), `add_recipe` (merge into the entry of the name) -/

theorem msat_group_fit (H : ApproxClosed c P) {g : GroupedQuantity Rat} (hg : g.AllNum P) : (g.fit c).1.AllNum P := by
  obtain ⟨h1, h2, h3, h4⟩ := fnum_fitKnown H PhysQ.all g
  unfold GroupedQuantity.fit
  refine ⟨h4 hg.1, ?_, ?_, ?_⟩
  · rw [h1]; exact hg.2.1
  · rw [h2]; exact hg.2.2.1
  · rw [h3]; exact hg.2.2.2

theorem msat_refQuantities (all : List (Ingredient (Value Rat)))
    (hall : ∀ i ∈ all, ∀ q, i.quantity = some q → q.value.AllNum P) (l : List Nat)
    (qs : List (Option (SQuantity Rat))) (h : refQuantities all l = some qs) :
    ∀ o ∈ qs, ∀ q, o = some q → q.value.AllNum P := by
  induction l generalizing qs with
  | nil =>
    simp only [refQuantities, Option.some.injEq] at h
    subst h
    intro o ho; cases ho
  | cons j rest ih =>
    unfold refQuantities at h
    split at h
    · cases h
    · rename_i i hi
      split at h
      · cases h
      · rename_i qs' hqs'
        simp only [Option.some.injEq] at h
        subst h
        intro o ho q hq
        rcases List.mem_cons.mp ho with rfl | ho
        · exact hall i (List.mem_of_getElem? hi) q hq
        · exact ih qs' hqs' o ho q hq

theorem msat_groupQuantities (H : ApproxClosed c P) (all : List (Ingredient (Value Rat)))
    (hall : ∀ i ∈ all, ∀ q, i.quantity = some q → q.value.AllNum P) (i : Ingredient (Value Rat))
    (hi : ∀ q, i.quantity = some q → q.value.AllNum P) (g : GroupedQuantity Rat)
    (h : groupQuantities c all i = some g) : g.AllNum P := by
  unfold groupQuantities at h
  split at h
  · cases h
  · rename_i qs hqs
    simp only [Option.some.injEq] at h
    subst h
    unfold allQuantities at hqs
    split at hqs
    · cases hqs
    · rename_i os hos
      simp only [Option.some.injEq] at hqs
      subst hqs
      refine msat_group_fit H (fnum_addAll H.regular _ _ fnum_empty ?_)
      intro q hq
      simp only [List.mem_filterMap, id] at hq
      obtain ⟨o, ho, rfl⟩ := hq
      rcases List.mem_cons.mp ho with ho | ho
      · exact hi q ho.symm
      · exact msat_refQuantities all hall _ os hos _ ho q rfl

theorem msat_groupFrom (H : ApproxClosed c P) (all : List (Ingredient (Value Rat)))
    (hall : ∀ i ∈ all, ∀ q, i.quantity = some q → q.value.AllNum P) (idx : Nat)
    (rest : List (Ingredient (Value Rat))) (hrest : ∀ i ∈ rest, ∀ q, i.quantity = some q → q.value.AllNum P)
    (l : List (GroupedIngredient Rat)) (h : groupFrom c all idx rest = some l) :
    ∀ e ∈ l, e.quantity.AllNum P := by
  induction rest generalizing idx l with
  | nil =>
    simp only [groupFrom, Option.some.injEq] at h
    subst h
    intro e he; cases he
  | cons i rest ih =>
    have hr : ∀ i ∈ rest, ∀ q, i.quantity = some q → q.value.AllNum P :=
      fun x hx => hrest x (List.mem_cons_of_mem _ hx)
    unfold groupFrom at h
    split at h
    · exact ih _ hr l h
    · split at h
      · cases h
      · rename_i g hg
        split at h
        · cases h
        · rename_i l' hl'
          simp only [Option.some.injEq] at h
          subst h
          intro e he
          rcases List.mem_cons.mp he with rfl | he
          · exact msat_groupQuantities H all hall i (hrest i List.mem_cons_self) g hg
          · exact ih _ hr l' hl' e he

namespace BMap
variable {β : Type}

theorem msat_get?_mem (m : BMap β) (k : Str) (v : β) (h : m.get? k = some v) : ∃ e ∈ m, e.2 = v := by
  induction m with
  | nil => cases h
  | cons e rest ih =>
    unfold get? at h
    split at h
    · simp only [Option.some.injEq] at h
      exact ⟨e, List.mem_cons_self, h⟩
    · obtain ⟨x, hx, hv⟩ := ih h
      exact ⟨x, List.mem_cons_of_mem _ hx, hv⟩

theorem msat_mem_replace (k : Str) (v : β) (m : BMap β) (x : Str × β) (h : x ∈ replace k v m) :
    x ∈ m ∨ x.2 = v := by
  induction m with
  | nil => cases h
  | cons e rest ih =>
    unfold replace at h
    split at h
    · rcases List.mem_cons.mp h with rfl | h
      · exact Or.inr rfl
      · exact Or.inl (List.mem_cons_of_mem _ h)
    · rcases List.mem_cons.mp h with rfl | h
      · exact Or.inl List.mem_cons_self
      · rcases ih h with h | h
        · exact Or.inl (List.mem_cons_of_mem _ h)
        · exact Or.inr h

theorem msat_mem_insertSorted (k : Str) (v : β) (m : BMap β) (x : Str × β) (h : x ∈ insertSorted k v m) :
    x ∈ m ∨ x.2 = v := by
  induction m with
  | nil =>
    simp only [insertSorted, List.mem_singleton] at h
    subst h
    exact Or.inr rfl
  | cons e rest ih =>
    unfold insertSorted at h
    split at h
    · rcases List.mem_cons.mp h with rfl | h
      · exact Or.inl List.mem_cons_self
      · rcases ih h with h | h
        · exact Or.inl (List.mem_cons_of_mem _ h)
        · exact Or.inr h
    · rcases List.mem_cons.mp h with rfl | h
      · exact Or.inr rfl
      · exact Or.inl h

theorem msat_mem_upsert (k : Str) (f : Option β → β) (m : BMap β) (x : Str × β) (h : x ∈ upsert k f m) :
    x ∈ m ∨ x.2 = f (m.get? k) := by
  unfold upsert at h
  split at h
  · rename_i old hold
    rw [hold]
    exact msat_mem_replace _ _ _ _ h
  · rename_i hnone
    rw [hnone]
    exact msat_mem_insertSorted _ _ _ _ h

end BMap

/-- every group of every entry of the list satisfies `P` -/
def IngredientList.AllNum (P : Number Rat → Prop) (list : IngredientList Rat) : Prop :=
  ∀ e ∈ list, e.2.AllNum P

theorem msat_addIngredient (hreg : ∀ x, P (.regular x)) (ord : MapOrder Rat) (hord : ord.IsPerm)
    {list : IngredientList Rat} (hl : IngredientList.AllNum P list) (name : Str) {g : GroupedQuantity Rat}
    (hg : g.AllNum P) : IngredientList.AllNum P (addIngredient ord c list name g) := by
  intro e he
  unfold addIngredient at he
  rcases BMap.msat_mem_upsert _ _ _ _ he with he | he
  · exact hl e he
  · rw [he]
    refine msat_merge hreg ord hord ?_ hg
    cases hget : BMap.get? list name with
    | none => exact fnum_empty
    | some old =>
      obtain ⟨x, hx, hv⟩ := BMap.msat_get?_mem _ _ _ hget
      simp only [Option.getD_some]
      rw [← hv]
      exact hl x hx

theorem msat_addRecipe (H : ApproxClosed c P) (ord : MapOrder Rat) (hord : ord.IsPerm)
    {list : IngredientList Rat} (hl : IngredientList.AllNum P list) (r : ScaledRecipe Rat)
    (hr : ∀ i ∈ r.ingredients, ∀ q, i.quantity = some q → q.value.AllNum P) (out : IngredientList Rat)
    (h : addRecipe ord c list r = some out) : IngredientList.AllNum P out := by
  unfold addRecipe at h
  split at h
  · cases h
  · rename_i entries hentries
    simp only [Option.some.injEq] at h
    subst h
    have he := msat_groupFrom H r.ingredients hr 0 r.ingredients hr entries hentries
    clear hentries
    induction entries generalizing list with
    | nil => exact hl
    | cons e rest ih =>
      simp only [List.foldl_cons]
      refine ih ?_ (fun x hx => he x (List.mem_cons_of_mem _ hx))
      unfold addEntry
      split
      · exact hl
      · exact msat_addIngredient H.regular ord hord hl _ (he e List.mem_cons_self)

end Cook
