import CookModel.Lemmas.ExtLawsLocal
import CookModel.Lemmas.C02LiftInter
/-
  C02, single-flag locality in the PARSER, with the other extensions' constructs present.

  `LocalTo G cs block`: for every parser flag that is NOT in `G` the syntax that flag reinterprets does
  not occur in the block (one token-level clause per flag).  Then two extension sets that agree on
  the flags of `G` give the same events on the block (`runBlock_local`).  With `G` = all parser
  flags but one this is the locality of that one flag: toggling it changes nothing on a block that
  does not contain ITS trigger, whatever other extension syntax the block contains.
-/
set_option linter.unusedSectionVars false
set_option linter.unusedSimpArgs false
set_option linter.unusedVariables false
namespace Cook

variable {α : Type} [Arith α]

/-! ### more rules for `IndG` -/
section rules
variable {β γ : Type} {G : List Nat}

theorem IndG.pure (a : β) (s : BP α) : IndG G (Pure.pure a : P α β) s := IndG.of_ind (Ind.pure a s)

theorem IndG.bindS {m : P α β} {k : β → P α γ} {s : BP α} {Q : β → BP α → Prop} (hm : IndG G m s)
    (hq : Sat m s Q)
    (hk : ∀ a s', s'.toks = s.toks → s'.cs = s.cs → s'.ext = s.ext → Q a s' → IndG G (k a) s') :
    IndG G (m >>= k) s :=
  IndG.bind hm (hk _ _ hm.toks hm.cs hm.extEq hq)

theorem IndG.bindRO {m : P α β} {k : β → P α γ} {s : BP α} (hm : IndA m) (hro : (m s).2 = s)
    (hk : ∀ a, IndG G (k a) s) : IndG G (m >>= k) s := by
  refine IndG.bind (IndG.of_ind (hm.all s)) ?_
  rw [hro]; exact hk _

/-- bind after a part that returns `a` and leaves the state alone under every extension set -/
theorem IndG.bindEq {m : P α β} {k : β → P α γ} {s : BP α} {a : β}
    (hm : ∀ e, m (s.withExt e) = (a, s.withExt e)) (hk : IndG G (k a) s) : IndG G (m >>= k) s := by
  have h0 : m s = (a, s) := hm s.ext
  constructor
  · intro e he
    rw [P_bind_run, hm e, P_bind_run, h0]
    exact hk.ext e he
  · rw [P_bind_run, h0]; exact hk.toks
  · rw [P_bind_run, h0]; exact hk.cs
  · rw [P_bind_run, h0]; exact hk.extEq

/-- reading a flag of `G`, at one state -/
theorem IndG.hasExtIn {g : Nat} {k : Bool → P α β} {s : BP α} (hg : g ∈ G) (hk : ∀ b, IndG G (k b) s) :
    IndG G (hasExt g >>= k) s := by
  have run : ∀ s' : BP α, (hasExt g >>= k) s' = k (s'.ext.has g) s' := fun _ => rfl
  constructor
  · intro e he
    rw [run, run]
    have : (s.withExt e).ext.has g = s.ext.has g := (he g hg).symm
    rw [this]
    exact (hk _).ext e he
  · rw [run]; exact (hk _).toks
  · rw [run]; exact (hk _).cs
  · rw [run]; exact (hk _).extEq

/-- reading a flag that is in `G`, or whose value does not matter for the continuation -/
theorem IndGA.hasExtBind' {g : Nat} {k : Bool → P α β} (h : g ∈ G ∨ ∀ b, k b = k false)
    (hk : ∀ b, IndGA G (k b)) : IndGA G (hasExt g >>= k) := by
  rcases h with h | h
  · exact IndGA.hasExtBind h hk
  · constructor
    intro s
    have run : ∀ s' : BP α, (hasExt g >>= k) s' = k false s' := fun s' => by
      show k (s'.ext.has g) s' = _
      rw [h]
    constructor
    · intro e he
      rw [run, run]
      exact ((hk false).all s).ext e he
    · rw [run]; exact ((hk false).all s).toks
    · rw [run]; exact ((hk false).all s).cs
    · rw [run]; exact ((hk false).all s).extEq

/-- bind with a fact about the result of the first part that holds from every state -/
theorem IndGA.bindR {m : P α β} {k : β → P α γ} (R : β → Prop) (hm : IndGA G m)
    (hr : ∀ s, R (m s).1) (hk : ∀ a, R a → IndGA G (k a)) : IndGA G (m >>= k) :=
  ⟨fun s => IndG.bind (hm.all s) ((hk _ (hr s)).all _)⟩

end rules

/-! ### the token-level clauses, one per flag -/

/-- `p` holds for the tokens from every position of the block to its end -/
def allPos (ts : List Tok) (p : List Tok → Bool) : Bool :=
  (List.range (ts.length + 1)).all (fun c => p (ts.drop c))

theorem allPos_rest {ts : List Tok} {p : List Tok → Bool} (h : allPos ts p = true) (s : BP α)
    (hs : s.toks = ts) : p s.rest = true := by
  unfold allPos at h
  rw [List.all_eq_true] at h
  unfold BP.rest
  rw [hs]
  by_cases hc : s.cur ≤ ts.length
  · exact h s.cur (List.mem_range.mpr (by omega))
  · have h1 : ts.drop s.cur = ts.drop ts.length := by
      rw [List.drop_eq_nil_of_le (by omega), List.drop_eq_nil_of_le (Nat.le_refl _)]
    rw [h1]
    exact h ts.length (List.mem_range.mpr (by omega))

/-- COMPONENT_ALIAS: there is no `|` among the name tokens of a long-form body `name{…}`, wherever
    the name is taken to start (i.e. no `|` between a `{` and the nearest marker or `{` before it;
    the single-word form cannot contain a `|`) -/
def aliasCore (ts : List Tok) : Bool :=
  allPos ts (fun r => match longBody r with
    | some (name, _) => !(name.any (fun t => t.kind == .or))
    | none => true)

/-- `p` holds for the tokens between the braces of every long-form body `name{quantity}` -/
def quantAll (p : List Tok → Bool) (ts : List Tok) : Bool :=
  allPos ts (fun r => match longBody r with
    | some (_, some q) => p q
    | _ => true)

def noMinus (q : List Tok) : Bool := !(q.any (fun t => t.kind == .minus))

/-- RANGE_VALUES: no `-` between the braces of a quantity -/
def rangeCore (ts : List Tok) : Bool := quantAll noMinus ts

/-- ADVANCED_UNITS: every quantity is one the advanced-units parser declines (`advNone`: it contains
    a `%`, or the tokens before the first word do not end in whitespace, block comments at their end not
    counted — the test of the code after the repair of defect F-C17-1) -/
def advCore (ts : List Tok) : Bool := quantAll advNone ts

/-- `p kind rest` holds for every marker token of the block and the tokens after it -/
def markerAll (p : TK → List Tok → Bool) : List Tok → Bool
  | [] => true
  | t :: rest => (!isMarker t.kind || p t.kind rest) && markerAll p rest

theorem markerAll_at {p : TK → List Tok → Bool} {ts : List Tok} (h : markerAll p ts = true) {i : Nat} {t : Tok}
    (ht : ts[i]? = some t) (hm : isMarker t.kind = true) : p t.kind (ts.drop (i + 1)) = true := by
  induction ts generalizing i with
  | nil => simp at ht
  | cons a ts ih =>
    unfold markerAll at h
    simp only [Bool.and_eq_true, Bool.or_eq_true, Bool.not_eq_true'] at h
    cases i with
    | zero =>
      simp only [List.getElem?_cons_zero, Option.some.injEq] at ht
      subst ht
      rcases h.1 with h1 | h1
      · rw [hm] at h1; cases h1
      · simpa using h1
    | succ i =>
      simp only [List.getElem?_cons_succ] at ht
      simpa using ih h.2 ht

def noModAhead (rest : List Tok) : Bool :=
  match rest.head? with
  | some t => !isModStart t.kind
  | none => true

/-- COMPONENT_MODIFIERS / INTERMEDIATE_PREPARATIONS: no marker is followed by one of `@ & ? + -` -/
def modsCore (ts : List Tok) : Bool := markerAll (fun _ rest => noModAhead rest) ts

/-- a `~` followed by `rest` starts a timer WITH a quantity, or no timer at all -/
def timerHasQ (rest : List Tok) : Bool :=
  noModAhead rest &&
  (match longBody rest with
   | some (_, q) => q.isSome
   | none =>
     match rest.head? with
     | some t => !isShortTok t.kind
     | none => true)

/-- TIMER_REQUIRES_TIME: every timer has a quantity (and no modifier character after the `~`) -/
def timerCore (ts : List Tok) : Bool := markerAll (fun k rest => k != .tilde || timerHasQ rest) ts

/-- for every parser flag outside `G`, the block does not contain the syntax that flag reinterprets
    (INTERMEDIATE_PREPARATIONS alone, with COMPONENT_MODIFIERS in `G`: no `&` directly followed by `(`,
    `interCore`) -/
structure LocalTo (G : List Nat) (cs : CharSpec) (ts : List Tok) : Prop where
  mods : (Gen.EXT_COMPONENT_MODIFIERS ∈ G ∧ (Gen.EXT_INTERMEDIATE_PREPARATIONS ∈ G ∨ interCore ts = true)) ∨
    modsCore ts = true
  alias : Gen.EXT_COMPONENT_ALIAS ∈ G ∨ aliasCore ts = true
  range : Gen.EXT_RANGE_VALUES ∈ G ∨ rangeCore ts = true
  adv : Gen.EXT_ADVANCED_UNITS ∈ G ∨ advCore ts = true
  timer : Gen.EXT_TIMER_REQUIRES_TIME ∈ G ∨ timerCore ts = true
  modes : Gen.EXT_MODES ∈ G ∨ metaKeyCore cs ts = true

/-! ### RANGE_VALUES inside the advanced-units parser -/

theorem mem_of_trimRev {p : Tok → Bool} {vt : List Tok} :
    ∀ t ∈ (vt.reverse.dropWhile p).reverse, t ∈ vt := by
  intro t ht
  rw [List.mem_reverse] at ht
  exact List.mem_reverse.mp ((List.dropWhile_sublist p).subset ht)

theorem parseAdvancedQuantity_ind (s : BP α) (h : s.toks.any (fun t => t.kind == .minus) = false) :
    Ind (parseAdvancedQuantity (α := α)) s := by
  unfold parseAdvancedQuantity
  refine Ind.bindRO allToks_indA rfl ?_
  intro all
  split
  · exact Ind.pure _ _
  · refine Ind.bindS (scalingLock_indA.all s) (Q := fun _ _ => True) trivial ?_
    intro lock s1 ht1 _
    refine Ind.bindS (wsComments_indA.all s1) (Q := fun _ _ => True) trivial ?_
    intro _ s2 ht2 _
    refine Ind.bindS ((consumeWhile_indA _).all s2) (Q := fun r _ => ∀ t ∈ r, t ∈ s2.toks)
      (consumeWhile_mem _ s2) ?_
    intro vt s3 ht3 hvt
    have hm : ((vt.reverse.dropWhile (fun t => t.kind == TK.ws || t.kind == TK.blockComment)).reverse).any
        (fun t => t.kind == .minus) = false := by
      apply any_false_of_subset h
      intro t ht
      rw [← ht1, ← ht2]
      exact hvt t (mem_of_trimRev t ht)
    refine (?_ : IndA _).all s3
    split
    · exact IndA.pure _
    · split
      · exact IndA.pure _
      · dsimp only
        split
        all_goals (try (apply IndA.bind (panicWith_indA _); intro _))
        all_goals
          apply IndA.bind consumeRest_indA; intro ut
          split
          · exact IndA.pure _
          · refine IndA.hasExtBind ?_ ?_
            · intro b; simp only [numOrRange_noMinus _ hm b]
            · ind_auto

/-! ### `parse_quantity`, each of its two gates either in `G` or irrelevant -/
section quantity
variable {G : List Nat}

theorem parseQuantityInner_indG_loc (s : BP α) (hc : s.cur = 0)
    (hr : Gen.EXT_RANGE_VALUES ∈ G ∨ noMinus s.toks = true)
    (ha : Gen.EXT_ADVANCED_UNITS ∈ G ∨ advNone s.toks = true) : IndG G (parseQuantityInner (α := α)) s := by
  have hreg : ∀ s1 : BP α, s1.toks = s.toks → IndG G (parseRegularQuantity (α := α)) s1 := by
    intro s1 h1
    rcases hr with hr | hr
    · exact (parseRegularQuantity_indGA hr).all s1
    · exact IndG.of_ind (parseRegularQuantity_ind s1 (by rw [h1]; simpa [noMinus] using hr))
  have hadvq : IndG G (withRecover (parseAdvancedQuantity (α := α))) s := by
    rcases hr with hr | hr
    · exact (IndGA.withRecover (parseAdvancedQuantity_indGA hr)).all s
    · exact IndG.of_ind (Ind.withRecover (parseAdvancedQuantity_ind s (by simpa [noMinus] using hr)))
  unfold parseQuantityInner
  rcases ha with ha | ha
  · refine IndG.bindS (Q := fun _ _ => True) ?_ trivial ?_
    · refine IndG.hasExtIn ha ?_
      intro b
      cases b
      · exact IndG.pure _ _
      · exact hadvq
    · intro r s1 ht1 _ _ _
      cases r with
      | some q => exact IndG.pure _ _
      | none => exact hreg s1 ht1
  · refine IndG.bindEq (a := none) ?_ (hreg s rfl)
    intro e
    rw [P_bind_run]
    have hx : hasExt (α := α) Gen.EXT_ADVANCED_UNITS (s.withExt e) = (e.has Gen.EXT_ADVANCED_UNITS, s.withExt e) := rfl
    rw [hx]
    cases e.has Gen.EXT_ADVANCED_UNITS
    · rfl
    · simp only [if_true]
      exact withRecover_none_ext (parseAdvancedQuantity_declines (s.withExt e) hc ha)

theorem parseQuantity_indGA_loc (q : List Tok) (hr : Gen.EXT_RANGE_VALUES ∈ G ∨ noMinus q = true)
    (ha : Gen.EXT_ADVANCED_UNITS ∈ G ∨ advNone q = true) : IndGA G (parseQuantity (α := α) q) := by
  have hp : IndA (if q.isEmpty then panicWith "parse_quantity: empty tokens" else pure () : P α Unit) := by
    ind_auto
  have hi : ∀ s0 : BP α, IndG G (parseQuantityInner (α := α)) ({ s0 with toks := q, cur := 0 } : BP α) :=
    fun s0 => parseQuantityInner_indG_loc _ rfl hr ha
  constructor
  intro s
  constructor
  · intro e he
    rw [parseQuantity_run, parseQuantity_run]
    dsimp only
    rw [(hp.all s).ext e]
    dsimp only
    have := (hi ((if q.isEmpty then panicWith "parse_quantity: empty tokens" else pure () : P α Unit) s).2).ext e (by
      show AgreeOn G ((if q.isEmpty then panicWith "parse_quantity: empty tokens" else pure () : P α Unit) s).2.ext e
      rw [(hp.all s).ext_eq]; exact he)
    have e1 : ∀ s0 : BP α, ({ s0.withExt e with toks := q, cur := 0 } : BP α) =
        ({ s0 with toks := q, cur := 0 } : BP α).withExt e := fun _ => rfl
    rw [e1, this]
    rfl
  · rw [parseQuantity_run]
    exact (hp.all s).toks
  · rw [parseQuantity_run]
    exact ((hi _).cs).trans (hp.all s).cs
  · rw [parseQuantity_run]
    exact ((hi _).extEq).trans (hp.all s).ext_eq

end quantity

/-! ### the component parsers -/
section comp
variable {G : List Nat}

theorem noModAhead_at {s : BP α} (h : noModAhead s.rest = true) :
    ∀ t, s.toks[s.cur]? = some t → isModStart t.kind = false := by
  intro t ht
  unfold noModAhead BP.rest at h
  rw [List.head?_drop, ht] at h
  simpa using h

/-- `modifiers()`: both of its flags are in `G`, or there is nothing for it to consume -/
theorem modifiersP_indG_loc (s : BP α)
    (h : (Gen.EXT_COMPONENT_MODIFIERS ∈ G ∧ (Gen.EXT_INTERMEDIATE_PREPARATIONS ∈ G ∨ interCore s.toks = true)) ∨
      noModAhead s.rest = true) :
    IndG G (modifiersP (α := α)) s := by
  rcases h with ⟨h1, h2 | h2⟩ | h
  · exact (modifiersP_indGA h1 h2).all s
  · exact c02inter_modifiersP_indG s h1 h2
  · have h0 := modifiersP_noop s (noModAhead_at h)
    constructor
    · intro e _
      rw [modifiersP_noop_ext s (noModAhead_at h) e, h0]
    · rw [h0]
    · rw [h0]
    · rw [h0]

theorem parseModifiers_indGA_loc (mtoks : List Tok) (pos : Nat)
    (h : Gen.EXT_INTERMEDIATE_PREPARATIONS ∈ G ∨ interCore mtoks = true) :
    IndGA G (parseModifiers (α := α) mtoks pos) := by
  rcases h with h | h
  · exact parseModifiers_indGA h mtoks pos
  · exact IndGA.of_indA (c02inter_parseModifiers_indA mtoks pos h)

/-- what `modifiers()` returns, under the clause of `modifiersP_indG_loc` -/
theorem modifiersP_sat_loc (s : BP α)
    (h : (Gen.EXT_COMPONENT_MODIFIERS ∈ G ∧ (Gen.EXT_INTERMEDIATE_PREPARATIONS ∈ G ∨ interCore s.toks = true)) ∨
      noModAhead s.rest = true) :
    Gen.EXT_INTERMEDIATE_PREPARATIONS ∈ G ∨ interCore (modifiersP s).1 = true := by
  rcases h with ⟨_, h2 | h2⟩ | h
  · exact Or.inl h2
  · exact Or.inr (c02inter_modifiersP_interCore s h2)
  · right; rw [modifiersP_noop _ (noModAhead_at h)]; rfl

theorem parseAlias_indGA_loc (c : String) (toks : List Tok) (off : Nat)
    (h : Gen.EXT_COMPONENT_ALIAS ∈ G ∨ toks.any (fun t => t.kind == .or) = false) :
    IndGA G (parseAlias (α := α) c toks off) := by
  rcases h with h | h
  · exact parseAlias_indGA h c toks off
  · exact IndGA.of_indA (parseAlias_indA c toks off h)

/-- what the clauses give for the body `comp_body` returns, wherever it started -/
theorem local_body {cs : CharSpec} {ts : List Tok} (h : LocalTo G cs ts) {s : BP α} (hs : s.toks = ts)
    {b : Body} (hb : (compBody s).1 = some b) :
    (Gen.EXT_COMPONENT_ALIAS ∈ G ∨ b.name.any (fun t => t.kind == .or) = false) ∧
    (∀ qt, b.quantity = some qt →
      (Gen.EXT_RANGE_VALUES ∈ G ∨ noMinus qt = true) ∧ (Gen.EXT_ADVANCED_UNITS ∈ G ∨ advNone qt = true)) := by
  rcases compBody_fact s b hb with hl | ⟨hl, hq, hn, hne⟩
  · refine ⟨?_, ?_⟩
    · rcases h.alias with ha | ha
      · exact Or.inl ha
      · right
        have := allPos_rest (α := α) ha s hs
        rw [hl] at this
        simpa using this
    · intro qt hqt
      refine ⟨?_, ?_⟩
      · rcases h.range with hr | hr
        · exact Or.inl hr
        · right
          have := allPos_rest (α := α) (p := fun r => match longBody r with
            | some (_, some q) => noMinus q
            | _ => true) hr s hs
          rw [hl, hqt] at this
          exact this
      · rcases h.adv with hr | hr
        · exact Or.inl hr
        · right
          have := allPos_rest (α := α) (p := fun r => match longBody r with
            | some (_, some q) => advNone q
            | _ => true) hr s hs
          rw [hl, hqt] at this
          exact this
  · refine ⟨Or.inr ?_, ?_⟩
    · rw [List.any_eq_false]
      intro x hx
      rw [hn] at hx
      have hall := List.all_takeWhile (l := s.rest) (p := fun t => isShortTok t.kind)
      have := List.all_eq_true.mp hall x hx
      revert this
      unfold isShortTok
      cases x.kind <;> simp
    · intro qt hqt; rw [hq] at hqt; cases hqt

/-- a timer that satisfies the TIMER_REQUIRES_TIME clause has a quantity -/
theorem timerHasQ_body {s : BP α} (hc : timerHasQ s.rest = true) {b : Body} (hb : (compBody s).1 = some b) :
    b.quantity ≠ none := by
  unfold timerHasQ at hc
  simp only [Bool.and_eq_true] at hc
  obtain ⟨-, hc⟩ := hc
  rcases compBody_fact s b hb with hl | ⟨hl, hq, hn, hne⟩
  · rw [hl] at hc
    intro hq; rw [hq] at hc; cases hc
  · rw [hl] at hc
    intro _
    cases hr : s.rest with
    | nil => rw [hr] at hn; exact hne (by rw [hn]; rfl)
    | cons t r =>
      rw [hr] at hc hn
      simp only [List.head?_cons, Bool.not_eq_true'] at hc
      rw [List.takeWhile_cons, hc] at hn
      exact hne (by rw [hn]; rfl)

/-- the clauses at a marker token -/
theorem local_after_marker {cs : CharSpec} {s : BP α} {t : Tok} (h : LocalTo G cs s.toks)
    (ht : s.toks[s.cur]? = some t) (hm : isMarker t.kind = true) :
    ((Gen.EXT_COMPONENT_MODIFIERS ∈ G ∧ (Gen.EXT_INTERMEDIATE_PREPARATIONS ∈ G ∨ interCore s.toks = true)) ∨
      noModAhead ({ s with cur := s.cur + 1 } : BP α).rest = true) ∧
    (t.kind = .tilde → Gen.EXT_TIMER_REQUIRES_TIME ∈ G ∨ timerHasQ ({ s with cur := s.cur + 1 } : BP α).rest = true) := by
  refine ⟨?_, ?_⟩
  · rcases h.mods with hg | hg
    · exact Or.inl hg
    · exact Or.inr (markerAll_at hg ht hm)
  · intro hk
    rcases h.timer with hg | hg
    · exact Or.inl hg
    · right
      have := markerAll_at hg ht hm
      rw [hk] at this
      simpa [BP.rest] using this

/-- the rest of `timer` after `comp_body`, cut into pieces (verbatim) -/
def timerQtyL (quantity : Option (List Tok)) : P α (Option (Loc (PQuantity α))) :=
  match quantity with
  | some qt => do
    let q ← parseQuantity qt
    if q.quantity.val.unit.isNone then
      perr "timer-missing-unit" [Span.pos q.quantity.val.value.value.span.stop]
    pure (some q.quantity)
  | none => pure none

def timerFinishL (start stop nameOffset : Nat) (close : Option Span) (name : Text) (cs : CharSpec)
    (quantity0 : Option (Loc (PQuantity α))) : P α (Option (Ev α)) := do
  let mut quantity := quantity0
  if quantity.isNone && (← hasExt Gen.EXT_TIMER_REQUIRES_TIME) then
    let span := close.getD (Span.pos name.span.stop)
    perr "timer-missing-quantity" [span]
    quantity := some recoverPQuantity
  let nameO := if name.isTextEmpty cs then none else some name
  if nameO.isNone && quantity.isNone then
    let span : Span := match close with
      | some s => ⟨nameOffset, s.stop⟩
      | none => Span.pos nameOffset
    perr "timer-neither-name-nor-quantity" [span]
    quantity := some recoverPQuantity
  return some (.timer ⟨⟨nameO, quantity⟩, ⟨start, stop⟩⟩)

def timerTailL (start stop nameOffset : Nat) (mtoks name : List Tok) (close : Option Span)
    (quantity : Option (List Tok)) : P α (Option (Ev α)) := do
  if !mtoks.isEmpty then perr "modifiers-not-allowed:timer" [tokensSpan mtoks]
  if ← hasExt Gen.EXT_COMPONENT_ALIAS then
    match name.findIdx? (fun t => t.kind == .or) with
    | some i =>
      let sep := (name[i]?).getD dummyTok
      perr "alias-not-allowed:timer" [⟨sep.start, ((name.getLast?).getD sep).stop⟩]
    | none => pure ()
  checkNoteTimer
  let nm ← bpText nameOffset name
  let cs := (← get).cs
  let q ← timerQtyL quantity
  timerFinishL start stop nameOffset close nm cs q

theorem timerQtyL_some (quantity : Option (List Tok)) (h : quantity ≠ none) (s : BP α) :
    ((timerQtyL (α := α) quantity) s).1.isNone = false := by
  cases quantity with
  | none => exact absurd rfl h
  | some qt =>
    unfold timerQtyL
    dsimp only
    rw [P_bind_run]
    split <;> rfl

theorem timerFinishL_indGA (start stop nameOffset : Nat) (close : Option Span) (name : Text) (cs : CharSpec)
    (q : Option (Loc (PQuantity α))) (h : Gen.EXT_TIMER_REQUIRES_TIME ∈ G ∨ q.isNone = false) :
    IndGA G (timerFinishL start stop nameOffset close name cs q) := by
  unfold timerFinishL
  refine IndGA.hasExtBind' ?_ ?_
  · rcases h with h | h
    · exact Or.inl h
    · right; intro b; simp only [h, Bool.false_and]
  · intro b
    indg_auto

theorem timerTailL_indGA (start stop nameOffset : Nat) (mtoks name : List Tok) (close : Option Span)
    (quantity : Option (List Tok))
    (hor : Gen.EXT_COMPONENT_ALIAS ∈ G ∨ name.any (fun t => t.kind == .or) = false)
    (hqc : ∀ qt, quantity = some qt →
      (Gen.EXT_RANGE_VALUES ∈ G ∨ noMinus qt = true) ∧ (Gen.EXT_ADVANCED_UNITS ∈ G ∨ advNone qt = true))
    (hqn : Gen.EXT_TIMER_REQUIRES_TIME ∈ G ∨ quantity ≠ none) :
    IndGA G (timerTailL (α := α) start stop nameOffset mtoks name close quantity) := by
  have hq : IndGA G (timerQtyL (α := α) quantity) := by
    unfold timerQtyL
    cases quantity with
    | none => exact IndGA.pure _
    | some qt =>
      have a4 := parseQuantity_indGA_loc (α := α) qt (hqc qt rfl).1 (hqc qt rfl).2
      dsimp only
      indg_auto
  have rest : IndGA G (do
      checkNoteTimer
      let nm ← bpText nameOffset name
      let cs := (← get).cs
      let q ← timerQtyL (α := α) quantity
      timerFinishL start stop nameOffset close nm cs q) := by
    apply IndGA.bind (IndGA.of_indA checkNoteTimer_indA); intro _
    apply IndGA.bind (IndGA.of_indA (bpText_indA _ _)); intro nm
    refine IndGA.getBind (by intro _ _; rfl) ?_; intro st
    rcases hqn with hg | hg
    · apply IndGA.bind hq; intro q
      exact timerFinishL_indGA _ _ _ _ _ _ _ (Or.inl hg)
    · refine IndGA.bindR (fun a => a.isNone = false) hq (timerQtyL_some quantity hg) ?_
      intro q hqq
      exact timerFinishL_indGA _ _ _ _ _ _ _ (Or.inr hqq)
  unfold timerTailL
  dsimp only
  split
  all_goals (try (apply IndGA.bind (IndGA.of_indA (perr_indA _ _)); intro _))
  all_goals
    refine IndGA.hasExtBind' ?_ ?_
    · rcases hor with h | h
      · exact Or.inl h
      · right; intro b
        cases b
        · rfl
        · simp only [findIdx_none_of_any_false h, ite_self]
    · intro b
      split
      · split
        · apply IndGA.bind (IndGA.of_indA (perr_indA _ _)); intro _
          exact rest
        · exact rest
      · exact rest

theorem ingredientP_indG_loc (s : BP α) (h : LocalTo G s.cs s.toks) : IndG G (ingredientP (α := α)) s := by
  unfold ingredientP
  refine IndG.bindRO currentOffset_indA (by rw [currentOffset_run]) ?_
  intro start
  refine IndG.bindS (IndG.of_ind ((consumeK_indA _).all s)) (consumeK_fact .at s) ?_
  intro r s1 ht1 _ _ hq
  cases r with
  | none => exact IndG.pure _ _
  | some t =>
    obtain ⟨htok, hk, rfl⟩ := hq
    have hmk := (local_after_marker h htok (by rw [hk]; rfl)).1
    dsimp only
    refine IndG.bindRO currentOffset_indA (by rw [currentOffset_run]) ?_
    intro modPos
    refine IndG.bindS (modifiersP_indG_loc _ hmk)
      (Q := fun r _ => Gen.EXT_INTERMEDIATE_PREPARATIONS ∈ G ∨ interCore r = true) ?_ ?_
    · exact modifiersP_sat_loc _ hmk
    intro mtoks s2 ht2 _ _ hmt
    refine IndG.bindRO currentOffset_indA (by rw [currentOffset_run]) ?_
    intro nameOffset
    refine IndG.bindS (IndG.of_ind (compBody_indA.all s2)) (Q := fun r _ => r = (compBody s2).1) rfl ?_
    intro r s3 ht3 _ _ hr
    cases r with
    | none => exact IndG.pure _ _
    | some body =>
      obtain ⟨hor, hqc⟩ := local_body h (s := s2) ht2 hr.symm
      have a2 := fun pos => parseModifiers_indGA_loc (α := α) mtoks pos hmt
      obtain ⟨name, close, quantity⟩ := body
      dsimp only at hor hqc ⊢
      have a3 := fun c off => parseAlias_indGA_loc (α := α) (G := G) c name off hor
      cases quantity with
      | none =>
        dsimp only
        refine (?_ : IndGA G _).all s3
        indg_auto
        all_goals first | exact a2 _ | exact a3 _ _
      | some qt =>
        have a4 := parseQuantity_indGA_loc (α := α) qt (hqc qt rfl).1 (hqc qt rfl).2
        dsimp only
        refine (?_ : IndGA G _).all s3
        indg_auto
        all_goals first | exact a2 _ | exact a3 _ _ | exact a4

theorem cookwareP_indG_loc (s : BP α) (h : LocalTo G s.cs s.toks) : IndG G (cookwareP (α := α)) s := by
  unfold cookwareP
  refine IndG.bindRO currentOffset_indA (by rw [currentOffset_run]) ?_
  intro start
  refine IndG.bindS (IndG.of_ind ((consumeK_indA _).all s)) (consumeK_fact .hash s) ?_
  intro r s1 ht1 _ _ hq
  cases r with
  | none => exact IndG.pure _ _
  | some t =>
    obtain ⟨htok, hk, rfl⟩ := hq
    have hmk := (local_after_marker h htok (by rw [hk]; rfl)).1
    dsimp only
    refine IndG.bindRO currentOffset_indA (by rw [currentOffset_run]) ?_
    intro modPos
    refine IndG.bindS (modifiersP_indG_loc _ hmk)
      (Q := fun r _ => Gen.EXT_INTERMEDIATE_PREPARATIONS ∈ G ∨ interCore r = true) ?_ ?_
    · exact modifiersP_sat_loc _ hmk
    intro mtoks s2 ht2 _ _ hmt
    refine IndG.bindRO currentOffset_indA (by rw [currentOffset_run]) ?_
    intro nameOffset
    refine IndG.bindS (IndG.of_ind (compBody_indA.all s2)) (Q := fun r _ => r = (compBody s2).1) rfl ?_
    intro r s3 ht3 _ _ hr
    cases r with
    | none => exact IndG.pure _ _
    | some body =>
      obtain ⟨hor, hqc⟩ := local_body h (s := s2) ht2 hr.symm
      have a2 := fun pos => parseModifiers_indGA_loc (α := α) mtoks pos hmt
      obtain ⟨name, close, quantity⟩ := body
      dsimp only at hor hqc ⊢
      have a3 := fun c off => parseAlias_indGA_loc (α := α) (G := G) c name off hor
      cases quantity with
      | none =>
        dsimp only
        refine (?_ : IndGA G _).all s3
        indg_auto
        all_goals first | exact a2 _ | exact a3 _ _
      | some qt =>
        have a4 := parseQuantity_indGA_loc (α := α) qt (hqc qt rfl).1 (hqc qt rfl).2
        dsimp only
        refine (?_ : IndGA G _).all s3
        indg_auto
        all_goals first | exact a2 _ | exact a3 _ _ | exact a4


theorem timerP_indG_loc (s : BP α) (h : LocalTo G s.cs s.toks) : IndG G (timerP (α := α)) s := by
  unfold timerP
  refine IndG.bindRO currentOffset_indA (by rw [currentOffset_run]) ?_
  intro start
  refine IndG.bindS (IndG.of_ind ((consumeK_indA _).all s)) (consumeK_fact .tilde s) ?_
  intro r s1 ht1 _ _ hq
  cases r with
  | none => exact IndG.pure _ _
  | some t =>
    obtain ⟨htok, hk, rfl⟩ := hq
    obtain ⟨hmk, htm⟩ := local_after_marker h htok (by rw [hk]; rfl)
    have htm := htm hk
    dsimp only
    refine IndG.bindS (modifiersP_indG_loc _ hmk)
      (Q := fun r s' => Gen.EXT_TIMER_REQUIRES_TIME ∈ G ∨ timerHasQ s'.rest = true) ?_ ?_
    · unfold Sat
      rcases htm with hg | hg
      · exact Or.inl hg
      · right
        unfold timerHasQ at hg
        simp only [Bool.and_eq_true] at hg
        rw [modifiersP_noop _ (noModAhead_at hg.1)]
        unfold timerHasQ
        simp only [Bool.and_eq_true]
        exact hg
    intro mtoks s2 ht2 _ _ hmt
    refine IndG.bindRO currentOffset_indA (by rw [currentOffset_run]) ?_
    intro nameOffset
    refine IndG.bindS (IndG.of_ind (compBody_indA.all s2)) (Q := fun r _ => r = (compBody s2).1) rfl ?_
    intro r s3 ht3 _ _ hr
    cases r with
    | none => exact IndG.pure _ _
    | some body =>
      obtain ⟨hor, hqc⟩ := local_body h (s := s2) ht2 hr.symm
      have hqn : Gen.EXT_TIMER_REQUIRES_TIME ∈ G ∨ body.quantity ≠ none := by
        rcases hmt with hg | hg
        · exact Or.inl hg
        · exact Or.inr (timerHasQ_body hg hr.symm)
      obtain ⟨name, close, quantity⟩ := body
      dsimp only at hor hqc hqn ⊢
      refine (?_ : IndGA G _).all s3
      apply IndGA.bind (IndGA.of_indA currentOffset_indA); intro stop
      exact timerTailL_indGA start stop nameOffset mtoks name close quantity hor hqc hqn

end comp

/-! ### the step loop, `parse_block`, one block -/
section block
variable {G : List Nat}

theorem stepOne_indG_loc (s : BP α) (h : LocalTo G s.cs s.toks) : IndG G (stepOne (α := α)) s := by
  unfold stepOne
  refine IndG.bind (m := (do
    match ← peekK with
    | some .at => withRecover ingredientP
    | some .hash => withRecover cookwareP
    | some .tilde => withRecover timerP
    | _ => return none : P α (Option (Ev α)))) ?_ ?_
  · refine IndG.bindRO peekK_indA rfl ?_
    intro k
    split
    · exact IndG.withRecover (ingredientP_indG_loc s h)
    · exact IndG.withRecover (cookwareP_indG_loc s h)
    · exact IndG.withRecover (timerP_indG_loc s h)
    · exact IndG.pure _ _
  · refine (IndGA.of_indA (?_ : IndA _)).all _
    ind_auto

theorem stepLoop_indG_loc (fuel : Nat) (s : BP α) (h : LocalTo G s.cs s.toks) :
    IndG G (stepLoop (α := α) fuel) s := by
  induction fuel generalizing s with
  | zero =>
    unfold stepLoop
    refine (IndGA.of_indA (?_ : IndA _)).all _
    ind_auto
  | succ fuel ih =>
    unfold stepLoop
    refine IndG.bindRO restToks_indA rfl ?_
    intro r
    split
    · exact IndG.pure _ _
    · refine IndG.bindS (stepOne_indG_loc s h) (Q := fun _ _ => True) trivial ?_
      intro _ s1 ht1 hcs1 _ _
      exact ih s1 (by rw [ht1, hcs1]; exact h)

theorem parseStep_indG_loc (s : BP α) (h : LocalTo G s.cs s.toks) : IndG G (parseStep (α := α)) s := by
  unfold parseStep
  refine IndG.bindS (IndG.of_ind ((pushEv_indA _).all s)) (Q := fun _ _ => True) trivial ?_
  intro _ s1 ht1 hcs1 _ _
  refine IndG.bindRO restToks_indA rfl ?_
  intro r
  refine IndG.bind (stepLoop_indG_loc _ s1 (by rw [ht1, hcs1]; exact h)) ?_
  exact IndG.of_ind ((pushEv_indA _).all _)

theorem parseMultilineBlock_indG_loc (s : BP α) (h : LocalTo G s.cs s.toks) :
    IndG G (parseMultilineBlock (α := α)) s := by
  unfold parseMultilineBlock
  refine IndG.bindRO allToks_indA rfl ?_
  intro all
  split
  · refine (IndGA.of_indA (?_ : IndA _)).all _
    ind_auto
  · refine IndG.bindRO peekK_indA rfl ?_
    intro k
    split
    · exact IndG.of_ind (parseTextBlock_indA.all s)
    · exact parseStep_indG_loc s h

theorem parseBlock_indG_loc (oldStyle : Bool) (s : BP α) (hc : s.cur = 0) (h : LocalTo G s.cs s.toks) :
    IndG G (parseBlock (α := α) oldStyle) s := by
  unfold parseBlock
  refine IndG.bindS (Q := fun _ _ => True) (m := (do
    match ← peekK with
    | some .metaStart => withRecover do
      match ← metadataEntry with
      | some (.metadata key value) =>
        let cs := (← get).cs
        let modes ← hasExt Gen.EXT_MODES
        if (isConfigKey cs key && modes) || oldStyle then return some (.metadata key value) else return none
      | _ => return none
    | some .eq => withRecover sectionP
    | _ => return none : P α (Option (Ev α)))) ?_ trivial ?_
  · rcases h.modes with h7 | hm
    · refine (?_ : IndGA G _).all s
      indg_auto
    · apply IndG.of_ind
      refine Ind.bindRO peekK_indA rfl ?_
      intro k
      split
      · apply Ind.withRecover
        refine Ind.bindS' (metadataEntry_indA.all s) (Q := fun r _ => r = (metadataEntry s).1) rfl ?_
        intro r s1 ht1 hcs hr
        split
        · rename_i key value
          have hkey := metadataEntry_key s hc key value hr.symm
          have hnc : isConfigKey s1.cs key = false := by
            unfold metaKeyCore at hm
            rw [hkey] at hm
            rw [hcs]
            simpa using hm
          refine Ind.getBind (fun _ => rfl) ?_
          dsimp only
          refine Ind.hasExtBind ?_ ?_
          · intro b e
            simp only [hnc, Bool.false_and]
          · refine (?_ : IndA _).all _
            ind_auto
        · exact Ind.pure _ _
      · exact Ind.withRecover (sectionP_indA.all s)
      · exact Ind.pure _ _
  · intro r s1 ht1 hcs1 _ _
    cases r with
    | some ev => exact IndG.of_ind ((pushEv_indA _).all _)
    | none => exact parseMultilineBlock_indG_loc s1 (by rw [ht1, hcs1]; exact h)

/-- Locality of the parser flags, one block: if for every parser flag outside `G` the block does not
    contain the syntax that flag reinterprets (`LocalTo`), two extension sets that agree on the
    flags of `G` give the same events and panic flag, whatever events came before. -/
theorem runBlock_local (cs : CharSpec) (e₁ e₂ : Ext) (oldStyle : Bool) (block : List Tok)
    (evs : Array (Ev α)) (p : Option String) (ha : AgreeOn G e₁ e₂) (h : LocalTo G cs block) :
    runBlock cs e₁ oldStyle block evs p = runBlock cs e₂ oldStyle block evs p :=
  runBlock_of_indG cs e₁ e₂ oldStyle block evs p ha
    (runBlockBody_indG oldStyle ⟨block, 0, e₁, cs, evs, p⟩ rfl
      (fun s1 hc1 ht1 hcs1 => parseBlock_indG_loc oldStyle s1 hc1 (by rw [ht1, hcs1]; exact h)))

end block

end Cook
