import CookModel.Lemmas.ExtLawsLocal
/-
  C02, single-flag locality in the PARSER, with the other extensions' constructs present.

  `LocalTo G cs block`: for every parser flag that is NOT in `G` the syntax that flag reinterprets does
  not occur in the block (one token-level clause per flag).  Then two extension sets that agree on
  the flags of `G` give the same events on the block (`runBlock_local`).  With `G` = all parser
  flags but one this is the locality of that one flag: toggling it changes nothing on a block that
  does not contain ITS trigger, whatever other extension syntax the block contains.
-/
set_option linter.unusedSectionVars false
set_option linter.unusedSimpArgs false
set_option linter.unusedVariables false
namespace Cook

variable {α : Type} [Arith α]

/-! ### more rules for `IndG` -/
section rules
variable {β γ : Type} {G : List Nat}

theorem IndG.pure (a : β) (s : BP α) : IndG G (Pure.pure a : P α β) s := IndG.of_ind (Ind.pure a s)

theorem IndG.bindS {m : P α β} {k : β → P α γ} {s : BP α} {Q : β → BP α → Prop} (hm : IndG G m s)
    (hq : Sat m s Q)
    (hk : ∀ a s', s'.toks = s.toks → s'.cs = s.cs → s'.ext = s.ext → Q a s' → IndG G (k a) s') :
    IndG G (m >>= k) s :=
  IndG.bind hm (hk _ _ hm.toks hm.cs hm.extEq hq)

theorem IndG.bindRO {m : P α β} {k : β → P α γ} {s : BP α} (hm : IndA m) (hro : (m s).2 = s)
    (hk : ∀ a, IndG G (k a) s) : IndG G (m >>= k) s := by
  refine IndG.bind (IndG.of_ind (hm.all s)) ?_
  rw [hro]; exact hk _

/-- bind after a part that returns `a` and leaves the state alone under every extension set -/
theorem IndG.bindEq {m : P α β} {k : β → P α γ} {s : BP α} {a : β}
    (hm : ∀ e, m (s.withExt e) = (a, s.withExt e)) (hk : IndG G (k a) s) : IndG G (m >>= k) s := by
  have h0 : m s = (a, s) := hm s.ext
  constructor
  · intro e he
    rw [P_bind_run, hm e, P_bind_run, h0]
    exact hk.ext e he
  · rw [P_bind_run, h0]; exact hk.toks
  · rw [P_bind_run, h0]; exact hk.cs
  · rw [P_bind_run, h0]; exact hk.extEq

/-- reading a flag of `G`, at one state -/
theorem IndG.hasExtIn {g : Nat} {k : Bool → P α β} {s : BP α} (hg : g ∈ G) (hk : ∀ b, IndG G (k b) s) :
    IndG G (hasExt g >>= k) s := by
  have run : ∀ s' : BP α, (hasExt g >>= k) s' = k (s'.ext.has g) s' := fun _ => rfl
  constructor
  · intro e he
    rw [run, run]
    have : (s.withExt e).ext.has g = s.ext.has g := (he g hg).symm
    rw [this]
    exact (hk _).ext e he
  · rw [run]; exact (hk _).toks
  · rw [run]; exact (hk _).cs
  · rw [run]; exact (hk _).extEq

/-- reading a flag that is in `G`, or whose value does not matter for the continuation -/
theorem IndGA.hasExtBind' {g : Nat} {k : Bool → P α β} (h : g ∈ G ∨ ∀ b, k b = k false)
    (hk : ∀ b, IndGA G (k b)) : IndGA G (hasExt g >>= k) := by
  rcases h with h | h
  · exact IndGA.hasExtBind h hk
  · constructor
    intro s
    have run : ∀ s' : BP α, (hasExt g >>= k) s' = k false s' := fun s' => by
      show k (s'.ext.has g) s' = _
      rw [h]
    constructor
    · intro e he
      rw [run, run]
      exact ((hk false).all s).ext e he
    · rw [run]; exact ((hk false).all s).toks
    · rw [run]; exact ((hk false).all s).cs
    · rw [run]; exact ((hk false).all s).extEq

/-- bind with a fact about the result of the first part that holds from every state -/
theorem IndGA.bindR {m : P α β} {k : β → P α γ} (R : β → Prop) (hm : IndGA G m)
    (hr : ∀ s, R (m s).1) (hk : ∀ a, R a → IndGA G (k a)) : IndGA G (m >>= k) :=
  ⟨fun s => IndG.bind (hm.all s) ((hk _ (hr s)).all _)⟩

end rules

/-! ### the token-level clauses, one per flag -/

/-- `p` holds for the tokens from every position of the block to its end -/
def allPos (ts : List Tok) (p : List Tok → Bool) : Bool :=
  (List.range (ts.length + 1)).all (fun c => p (ts.drop c))

theorem allPos_rest {ts : List Tok} {p : List Tok → Bool} (h : allPos ts p = true) (s : BP α)
    (hs : s.toks = ts) : p s.rest = true := by
  unfold allPos at h
  rw [List.all_eq_true] at h
  unfold BP.rest
  rw [hs]
  by_cases hc : s.cur ≤ ts.length
  · exact h s.cur (List.mem_range.mpr (by omega))
  · have h1 : ts.drop s.cur = ts.drop ts.length := by
      rw [List.drop_eq_nil_of_le (by omega), List.drop_eq_nil_of_le (Nat.le_refl _)]
    rw [h1]
    exact h ts.length (List.mem_range.mpr (by omega))

/-- COMPONENT_ALIAS: there is no `|` among the name tokens of a long-form body `name{…}`, wherever
    the name is taken to start (i.e. no `|` between a `{` and the nearest marker or `{` before it;
    the single-word form cannot contain a `|`) -/
def aliasCore (ts : List Tok) : Bool :=
  allPos ts (fun r => match longBody r with
    | some (name, _) => !(name.any (fun t => t.kind == .or))
    | none => true)

/-- `p` holds for the tokens between the braces of every long-form body `name{quantity}` -/
def quantAll (p : List Tok → Bool) (ts : List Tok) : Bool :=
  allPos ts (fun r => match longBody r with
    | some (_, some q) => p q
    | _ => true)

def noMinus (q : List Tok) : Bool := !(q.any (fun t => t.kind == .minus))

/-- RANGE_VALUES: no `-` between the braces of a quantity -/
def rangeCore (ts : List Tok) : Bool := quantAll noMinus ts

/-- ADVANCED_UNITS: every quantity is one the advanced-units parser declines (`advNone`: it contains
    a `%`, or the tokens before the first word do not end in whitespace) -/
def advCore (ts : List Tok) : Bool := quantAll advNone ts

/-- `p kind rest` holds for every marker token of the block and the tokens after it -/
def markerAll (p : TK → List Tok → Bool) : List Tok → Bool
  | [] => true
  | t :: rest => (!isMarker t.kind || p t.kind rest) && markerAll p rest

theorem markerAll_at {p : TK → List Tok → Bool} {ts : List Tok} (h : markerAll p ts = true) {i : Nat} {t : Tok}
    (ht : ts[i]? = some t) (hm : isMarker t.kind = true) : p t.kind (ts.drop (i + 1)) = true := by
  induction ts generalizing i with
  | nil => simp at ht
  | cons a ts ih =>
    unfold markerAll at h
    simp only [Bool.and_eq_true, Bool.or_eq_true, Bool.not_eq_true'] at h
    cases i with
    | zero =>
      simp only [List.getElem?_cons_zero, Option.some.injEq] at ht
      subst ht
      rcases h.1 with h1 | h1
      · rw [hm] at h1; cases h1
      · simpa using h1
    | succ i =>
      simp only [List.getElem?_cons_succ] at ht
      simpa using ih h.2 ht

def noModAhead (rest : List Tok) : Bool :=
  match rest.head? with
  | some t => !isModStart t.kind
  | none => true

/-- COMPONENT_MODIFIERS / INTERMEDIATE_PREPARATIONS: no marker is followed by one of `@ & ? + -` -/
def modsCore (ts : List Tok) : Bool := markerAll (fun _ rest => noModAhead rest) ts

/-- a `~` followed by `rest` starts a timer WITH a quantity, or no timer at all -/
def timerHasQ (rest : List Tok) : Bool :=
  noModAhead rest &&
  (match longBody rest with
   | some (_, q) => q.isSome
   | none =>
     match rest.head? with
     | some t => !isShortTok t.kind
     | none => true)

/-- TIMER_REQUIRES_TIME: every timer has a quantity (and no modifier character after the `~`) -/
def timerCore (ts : List Tok) : Bool := markerAll (fun k rest => k != .tilde || timerHasQ rest) ts

/-- for every parser flag outside `G`, the block does not contain the syntax that flag reinterprets -/
structure LocalTo (G : List Nat) (cs : CharSpec) (ts : List Tok) : Prop where
  mods : (Gen.EXT_COMPONENT_MODIFIERS ∈ G ∧ Gen.EXT_INTERMEDIATE_PREPARATIONS ∈ G) ∨ modsCore ts = true
  alias : Gen.EXT_COMPONENT_ALIAS ∈ G ∨ aliasCore ts = true
  range : Gen.EXT_RANGE_VALUES ∈ G ∨ rangeCore ts = true
  adv : Gen.EXT_ADVANCED_UNITS ∈ G ∨ advCore ts = true
  timer : Gen.EXT_TIMER_REQUIRES_TIME ∈ G ∨ timerCore ts = true
  modes : Gen.EXT_MODES ∈ G ∨ metaKeyCore cs ts = true

/-! ### RANGE_VALUES inside the advanced-units parser -/

theorem mem_of_trimRev {p : Tok → Bool} {vt : List Tok} :
    ∀ t ∈ (vt.reverse.dropWhile p).reverse, t ∈ vt := by
  intro t ht
  rw [List.mem_reverse] at ht
  exact List.mem_reverse.mp ((List.dropWhile_sublist p).subset ht)

theorem parseAdvancedQuantity_ind (s : BP α) (h : s.toks.any (fun t => t.kind == .minus) = false) :
    Ind (parseAdvancedQuantity (α := α)) s := by
  unfold parseAdvancedQuantity
  refine Ind.bindRO allToks_indA rfl ?_
  intro all
  split
  · exact Ind.pure _ _
  · refine Ind.bindS (scalingLock_indA.all s) (Q := fun _ _ => True) trivial ?_
    intro lock s1 ht1 _
    refine Ind.bindS (wsComments_indA.all s1) (Q := fun _ _ => True) trivial ?_
    intro _ s2 ht2 _
    refine Ind.bindS ((consumeWhile_indA _).all s2) (Q := fun r _ => ∀ t ∈ r, t ∈ s2.toks)
      (consumeWhile_mem _ s2) ?_
    intro vt s3 ht3 hvt
    have hm : ((vt.reverse.dropWhile (fun t => t.kind == TK.ws || t.kind == TK.blockComment)).reverse).any
        (fun t => t.kind == .minus) = false := by
      apply any_false_of_subset h
      intro t ht
      rw [← ht1, ← ht2]
      exact hvt t (mem_of_trimRev t ht)
    refine (?_ : IndA _).all s3
    split
    · exact IndA.pure _
    · split
      · exact IndA.pure _
      · dsimp only
        split
        all_goals (try (apply IndA.bind (panicWith_indA _); intro _))
        all_goals
          apply IndA.bind consumeRest_indA; intro ut
          split
          · exact IndA.pure _
          · refine IndA.hasExtBind ?_ ?_
            · intro b; simp only [numOrRange_noMinus _ hm b]
            · ind_auto

/-! ### `parse_quantity`, each of its two gates either in `G` or irrelevant -/
section quantity
variable {G : List Nat}

theorem parseQuantityInner_indG_loc (s : BP α) (hc : s.cur = 0)
    (hr : Gen.EXT_RANGE_VALUES ∈ G ∨ noMinus s.toks = true)
    (ha : Gen.EXT_ADVANCED_UNITS ∈ G ∨ advNone s.toks = true) : IndG G (parseQuantityInner (α := α)) s := by
  have hreg : ∀ s1 : BP α, s1.toks = s.toks → IndG G (parseRegularQuantity (α := α)) s1 := by
    intro s1 h1
    rcases hr with hr | hr
    · exact (parseRegularQuantity_indGA hr).all s1
    · exact IndG.of_ind (parseRegularQuantity_ind s1 (by rw [h1]; simpa [noMinus] using hr))
  have hadvq : IndG G (withRecover (parseAdvancedQuantity (α := α))) s := by
    rcases hr with hr | hr
    · exact (IndGA.withRecover (parseAdvancedQuantity_indGA hr)).all s
    · exact IndG.of_ind (Ind.withRecover (parseAdvancedQuantity_ind s (by simpa [noMinus] using hr)))
  unfold parseQuantityInner
  rcases ha with ha | ha
  · refine IndG.bindS (Q := fun _ _ => True) ?_ trivial ?_
    · refine IndG.hasExtIn ha ?_
      intro b
      cases b
      · exact IndG.pure _ _
      · exact hadvq
    · intro r s1 ht1 _ _ _
      cases r with
      | some q => exact IndG.pure _ _
      | none => exact hreg s1 ht1
  · refine IndG.bindEq (a := none) ?_ (hreg s rfl)
    intro e
    rw [P_bind_run]
    have hx : hasExt (α := α) Gen.EXT_ADVANCED_UNITS (s.withExt e) = (e.has Gen.EXT_ADVANCED_UNITS, s.withExt e) := rfl
    rw [hx]
    cases e.has Gen.EXT_ADVANCED_UNITS
    · rfl
    · simp only [if_true]
      exact withRecover_none (parseAdvancedQuantity_declines (s.withExt e) hc ha)

theorem parseQuantity_indGA_loc (q : List Tok) (hr : Gen.EXT_RANGE_VALUES ∈ G ∨ noMinus q = true)
    (ha : Gen.EXT_ADVANCED_UNITS ∈ G ∨ advNone q = true) : IndGA G (parseQuantity (α := α) q) := by
  have hp : IndA (if q.isEmpty then panicWith "parse_quantity: empty tokens" else pure () : P α Unit) := by
    ind_auto
  have hi : ∀ s0 : BP α, IndG G (parseQuantityInner (α := α)) ({ s0 with toks := q, cur := 0 } : BP α) :=
    fun s0 => parseQuantityInner_indG_loc _ rfl hr ha
  constructor
  intro s
  constructor
  · intro e he
    rw [parseQuantity_run, parseQuantity_run]
    dsimp only
    rw [(hp.all s).ext e]
    dsimp only
    have := (hi ((if q.isEmpty then panicWith "parse_quantity: empty tokens" else pure () : P α Unit) s).2).ext e (by
      show AgreeOn G ((if q.isEmpty then panicWith "parse_quantity: empty tokens" else pure () : P α Unit) s).2.ext e
      rw [(hp.all s).ext_eq]; exact he)
    have e1 : ∀ s0 : BP α, ({ s0.withExt e with toks := q, cur := 0 } : BP α) =
        ({ s0 with toks := q, cur := 0 } : BP α).withExt e := fun _ => rfl
    rw [e1, this]
    rfl
  · rw [parseQuantity_run]
    exact (hp.all s).toks
  · rw [parseQuantity_run]
    exact ((hi _).cs).trans (hp.all s).cs
  · rw [parseQuantity_run]
    exact ((hi _).extEq).trans (hp.all s).ext_eq

end quantity

end Cook
