import CookModel.Side.StdMetaSpec
/-
  Model vs Spec for locale, tags and servings.
-/
namespace Cook.SM
open Cook Spec

/-! ### generic -/

theorem mapOpt_eq_some {α β : Type} (f : α → Option β) (R : α → β → Prop)
    (hf : ∀ a b, f a = some b ↔ R a b) (as : List α) (bs : List β) :
    mapOpt f as = some bs ↔ Forall2 R as bs := by
  induction as generalizing bs with
  | nil => cases bs <;> simp [mapOpt, Forall2]
  | cons a as ih =>
    cases hfa : f a with
    | none =>
      simp only [mapOpt, hfa]
      cases bs with
      | nil => simp [Forall2]
      | cons b bs =>
        simp only [Forall2]
        constructor
        · intro h; exact absurd h (by simp)
        · intro h; have := (hf a b).mpr h.1; rw [hfa] at this; exact absurd this (by simp)
    | some b0 =>
      simp only [mapOpt, hfa]
      cases hm : mapOpt f as with
      | none =>
        cases bs with
        | nil => simp [Forall2]
        | cons b bs =>
          simp only [Forall2]
          constructor
          · intro h; exact absurd h (by simp)
          · intro h; have := (ih bs).mpr h.2; rw [hm] at this; exact absurd this (by simp)
      | some bs0 =>
        cases bs with
        | nil => simp [Forall2]
        | cons b bs =>
          simp only [Forall2, Option.some.injEq, List.cons.injEq]
          constructor
          · rintro ⟨rfl, rfl⟩
            exact ⟨(hf a b0).mp hfa, (ih bs0).mp hm⟩
          · rintro ⟨h1, h2⟩
            have e1 := (hf a b).mpr h1
            have e2 := (ih bs).mpr h2
            rw [hfa] at e1; rw [hm] at e2
            simp at e1 e2
            exact ⟨e1, e2⟩

/-! ### digits -/

theorem foldl_digits (a : Nat) (ds : Str) :
    ds.foldl (fun a c => 10 * a + digitVal c) a = a * 10 ^ ds.length + decVal ds := by
  induction ds generalizing a with
  | nil => simp [decVal]
  | cons c cs ih =>
    simp only [List.foldl, ih, decVal, List.length_cons]
    rw [Nat.pow_succ]
    have : (10 * a + digitVal c) * 10 ^ cs.length = a * (10 ^ cs.length * 10) + digitVal c * 10 ^ cs.length := by
      rw [Nat.add_mul]; congr 1
      rw [Nat.mul_comm 10 a, Nat.mul_assoc, Nat.mul_comm 10]
    omega

theorem natOfDigits_eq (ds : Str) : natOfDigits ds = decVal ds := by
  unfold natOfDigits
  rw [foldl_digits]; simp

theorem allDigits_iff (t : Str) : t.all isDigit = true ↔ AllDigits t := by
  simp [AllDigits, List.all_eq_true]

theorem plus_not_digit : isDigit '+' = false := by decide

/-- the syntax of `u32::from_str` is `NatLit` -/
theorem parseNatLit_iff (s : Str) (n : Nat) : parseNatLit s = some n ↔ NatLit s n := by
  unfold parseNatLit NatLit
  constructor
  · intro h
    split at h
    · rename_i hc
      simp only [Bool.and_eq_true, Bool.not_eq_true', List.isEmpty_eq_false_iff] at hc
      simp only [Option.some.injEq] at h
      refine ⟨stripPlus s, hc.1, (allDigits_iff _).mp hc.2, ?_, by rw [← h, natOfDigits_eq]⟩
      cases s with
      | nil => simp [stripPlus] at hc
      | cons c t =>
        by_cases hp : c = '+'
        · subst hp; right; simp [stripPlus]
        · left; simp [stripPlus, hp]
    · exact absurd h (by simp)
  · rintro ⟨ds, hne, hd, hs, hv⟩
    have hsp : stripPlus s = ds := by
      cases ds with
      | nil => exact absurd rfl hne
      | cons c t =>
        rcases hs with hs | hs
        · have : c ≠ '+' := by
            intro hc; subst hc
            have := hd '+' (by simp)
            rw [plus_not_digit] at this; exact absurd this (by simp)
          rw [hs]; simp [stripPlus, this]
        · rw [hs]; simp [stripPlus]
    rw [hsp]
    have h1 : (!ds.isEmpty && ds.all isDigit) = true := by
      simp only [Bool.and_eq_true, Bool.not_eq_true', List.isEmpty_eq_false_iff]
      exact ⟨hne, (allDigits_iff _).mpr hd⟩
    rw [if_pos h1, natOfDigits_eq, hv]

theorem parseU32_iff (s : Str) (n : Nat) : parseU32 s = some n ↔ NatLit s n ∧ n < u32Bound := by
  unfold parseU32
  cases h : parseNatLit s with
  | none =>
    simp
    intro hn
    have := (parseNatLit_iff s n).mpr hn
    rw [h] at this; exact absurd this (by simp)
  | some k =>
    have hm : u32Max = 4294967295 := rfl
    have hb : u32Bound = 4294967296 := rfl
    by_cases hle : k ≤ u32Max
    · simp only [hle, if_true, Option.some.injEq]
      constructor
      · rintro rfl; exact ⟨(parseNatLit_iff s k).mp h, by omega⟩
      · rintro ⟨hn, -⟩
        have := (parseNatLit_iff s n).mpr hn
        rw [h] at this; simpa using this
    · simp only [hle, if_false]
      constructor
      · intro h2; exact absurd h2 (by simp)
      · rintro ⟨hn, hlt⟩
        have := (parseNatLit_iff s n).mpr hn
        rw [h] at this
        simp at this; subst this
        omega

/-! ### locale -/

theorem utf8Size_asciiAlpha {c : Char} (h : isAsciiAlpha c = true) : c.utf8Size = 1 := by
  rw [Char.utf8Size_eq_one_iff, UInt32.le_iff_toNat_le]
  simp only [isAsciiAlpha, Bool.or_eq_true, Bool.and_eq_true, decide_eq_true_eq] at h
  have : c.val.toNat = c.toNat := rfl
  rw [this]
  have : (127 : UInt32).toNat = 127 := rfl
  omega

theorem utf8Len_asciiAlpha {s : Str} (h : ∀ c ∈ s, isAsciiAlpha c = true) : utf8Len s = s.length := by
  induction s with
  | nil => rfl
  | cons c cs ih =>
    simp only [utf8Len, List.map_cons, List.sum_cons, List.length_cons] at ih ⊢
    rw [utf8Size_asciiAlpha (h c (by simp)), ih (fun d hd => h d (by simp [hd]))]
    omega

theorem validateLocalePart_iff (s : Str) : validateLocalePart s = true ↔ Letter2 s := by
  unfold validateLocalePart Letter2
  simp only [Bool.and_eq_true, beq_iff_eq, List.all_eq_true]
  constructor
  · rintro ⟨h1, h2⟩
    rw [utf8Len_asciiAlpha h2] at h1
    match s, h1, h2 with
    | [a, b], _, h2 => exact ⟨a, b, rfl, h2 a (by simp), h2 b (by simp)⟩
  · rintro ⟨a, b, rfl, ha, hb⟩
    have hall : ∀ c ∈ [a, b], isAsciiAlpha c = true := by
      intro c hc; simp at hc; rcases hc with rfl | rfl <;> assumption
    exact ⟨by rw [utf8Len_asciiAlpha hall]; rfl, hall⟩

theorem underscore_not_alpha : isAsciiAlpha '_' = false := by decide

theorem letter2_no_underscore {l : Str} (h : Letter2 l) : NoneSat isUnderscore l := by
  obtain ⟨a, b, rfl, ha, hb⟩ := h
  intro c hc
  simp at hc
  simp only [isUnderscore, decide_eq_false_iff_not]
  rcases hc with rfl | rfl <;> (intro h; subst h; simp [underscore_not_alpha] at *)

theorem valueAsLocale_iff (v : Y) (r : Str × Option Str) : valueAsLocale v = some r ↔ Spec.Locale v r := by
  obtain ⟨l, d⟩ := r
  cases v with
  | str s =>
    simp only [valueAsLocale]
    cases hso : splitOnce isUnderscore s with
    | some ab =>
      obtain ⟨a, b⟩ := ab
      obtain ⟨c, hs, hc, ha⟩ := splitOnce_some.mp hso
      have hc' : c = '_' := by simpa [isUnderscore] using hc
      subst hc'
      simp only
      cases d with
      | none =>
        simp only [Spec.Locale]
        constructor
        · intro h; split at h <;> simp at h
        · rintro ⟨rfl, hl⟩
          have := letter2_no_underscore hl '_' (by simp [hs])
          simp [isUnderscore] at this
      | some d =>
        simp only [Spec.Locale]
        constructor
        · intro h
          split at h
          · rename_i hv
            simp only [Bool.and_eq_true, validateLocalePart_iff] at hv
            simp at h
            obtain ⟨rfl, rfl⟩ := h
            exact ⟨hs, hv.1, hv.2⟩
          · exact absurd h (by simp)
        · rintro ⟨hs', hl, hd⟩
          have h2 : splitOnce isUnderscore s = some (l, d) :=
            splitOnce_some.mpr ⟨'_', hs', by simp [isUnderscore], letter2_no_underscore hl⟩
          rw [hso] at h2
          simp at h2
          obtain ⟨rfl, rfl⟩ := h2
          have : (validateLocalePart a && validateLocalePart b) = true := by
            simp only [Bool.and_eq_true, validateLocalePart_iff]; exact ⟨hl, hd⟩
          rw [if_pos this]
    | none =>
      have hno := splitOnce_none.mp hso
      simp only
      cases d with
      | none =>
        simp only [Spec.Locale]
        constructor
        · intro h
          split at h
          · rename_i hv
            simp at h; subst h
            exact ⟨rfl, (validateLocalePart_iff _).mp hv⟩
          · exact absurd h (by simp)
        · rintro ⟨rfl, hl⟩
          rw [if_pos ((validateLocalePart_iff _).mpr hl)]
      | some d =>
        simp only [Spec.Locale]
        constructor
        · intro h; split at h <;> simp at h
        · rintro ⟨rfl, -, -⟩
          have := hno '_' (by simp)
          simp [isUnderscore] at this
  | null => cases d <;> simp [valueAsLocale, Spec.Locale]
  | bool => cases d <;> simp [valueAsLocale, Spec.Locale]
  | num n => cases d <;> simp [valueAsLocale, Spec.Locale]
  | seq l' => cases d <;> simp [valueAsLocale, Spec.Locale]
  | map m => cases d <;> simp [valueAsLocale, Spec.Locale]
  | tagged => cases d <;> simp [valueAsLocale, Spec.Locale]

/-! ### tags -/

theorem filter_firstOccurrences (p : Str → Bool) (l : List Str) :
    firstOccurrences (l.filter p) = (firstOccurrences l).filter p := by
  induction l with
  | nil => rfl
  | cons x xs ih =>
    by_cases hp : p x = true
    · simp only [List.filter_cons, hp, if_true, firstOccurrences, ih]
      congr 1
      rw [List.filter_filter, List.filter_filter]
      congr 1; funext y; exact Bool.and_comm _ _
    · have hp' : p x = false := by simpa using hp
      simp only [List.filter_cons, hp', Bool.false_eq_true, if_false, firstOccurrences]
      rw [List.filter_filter, ih]
      apply List.filter_congr
      intro y _
      by_cases hy : y = x
      · subst hy; simp [hp]
      · simp [hy]

theorem tagLoop_eq (acc es : List Str) :
    tagLoop acc es = acc ++ firstOccurrences (es.filter (fun t => !(t.isEmpty || acc.contains t))) := by
  induction es generalizing acc with
  | nil => simp [tagLoop, firstOccurrences]
  | cons t ts ih =>
    by_cases h : (t.isEmpty || acc.contains t) = true
    · simp only [tagLoop, h, if_true, List.filter_cons, Bool.not_true, Bool.false_eq_true, if_false]
      exact ih acc
    · have h' : (t.isEmpty || acc.contains t) = false := by simpa using h
      simp only [tagLoop, h', Bool.false_eq_true, if_false, List.filter_cons, Bool.not_false, if_true, firstOccurrences]
      rw [ih (acc ++ [t]), ← filter_firstOccurrences, List.filter_filter, List.append_assoc]
      have hf : (fun t_1 : Str => !(t_1.isEmpty || (acc ++ [t]).contains t_1)) =
          (fun a => decide (a ≠ t) && !(a.isEmpty || acc.contains a)) := by
        funext y
        by_cases hy : y = t
        · subst hy; simp
        · have : (y == t) = false := by simpa using hy
          simp [hy]
      rw [hf]; rfl

theorem tagLoop_nil (es : List Str) : tagLoop [] es = firstOccurrences (es.filter (fun e => e ≠ [])) := by
  rw [tagLoop_eq]
  simp only [List.nil_append, List.contains_nil, Bool.or_false]
  congr 1
  apply List.filter_congr
  intro y _
  cases y <;> simp

theorem asStrLike_iff (y : Y) (t : Str) : asStrLike y = some t ↔ StrLike y t := by
  cases y <;> simp [asStrLike, StrLike, eq_comm]

theorem isComma_eq : isComma = fun c => decide (c = ',') := rfl
theorem isPipe_eq : isPipe = fun c => decide (c = '|') := rfl

theorem valueAsTags_iff (v : Y) (l : List Str) : valueAsTags v = some l ↔ Spec.Tags v l := by
  cases v with
  | str s =>
    simp only [valueAsTags, Spec.Tags, Option.some.injEq, tagLoop_nil]
    constructor
    · intro h
      exact ⟨split isComma s, (split_char_spec ',' s _).mp (by rw [isComma_eq]), h.symm⟩
    · rintro ⟨es, hes, rfl⟩
      have := (split_char_spec ',' s es).mpr hes
      rw [isComma_eq, this]
  | seq ys =>
    simp only [valueAsTags, Spec.Tags]
    cases hm : mapOpt asStrLike ys with
    | none =>
      simp
      intro es hes
      have := (mapOpt_eq_some asStrLike StrLike asStrLike_iff ys es).mpr hes
      rw [hm] at this; exact absurd this (by simp)
    | some es =>
      have hes := (mapOpt_eq_some asStrLike StrLike asStrLike_iff ys es).mp hm
      simp only [Option.some.injEq, tagLoop_nil]
      constructor
      · intro h; exact ⟨es, hes, h.symm⟩
      · rintro ⟨es', hes', rfl⟩
        have := (mapOpt_eq_some asStrLike StrLike asStrLike_iff ys es').mpr hes'
        rw [hm] at this; simp at this; rw [this]
  | null => simp [valueAsTags, Spec.Tags]
  | bool => simp [valueAsTags, Spec.Tags]
  | num n => simp [valueAsTags, Spec.Tags]
  | map m => simp [valueAsTags, Spec.Tags]
  | tagged => simp [valueAsTags, Spec.Tags]

theorem mem_firstOccurrences (l : List Str) (x : Str) : x ∈ firstOccurrences l ↔ x ∈ l := by
  induction l with
  | nil => simp [firstOccurrences]
  | cons y ys ih =>
    simp only [firstOccurrences, List.mem_cons, List.mem_filter, ih, decide_eq_true_eq]
    by_cases h : x = y <;> simp [h]

theorem nodup_firstOccurrences (l : List Str) : (firstOccurrences l).Nodup := by
  induction l with
  | nil => simp [firstOccurrences]
  | cons y ys ih =>
    simp only [firstOccurrences, List.nodup_cons, List.mem_filter, decide_eq_true_eq]
    exact ⟨fun h => h.2 rfl, ih.filter _⟩

theorem sublist_firstOccurrences (l : List Str) : (firstOccurrences l).Sublist l := by
  induction l with
  | nil => simp [firstOccurrences]
  | cons y ys ih =>
    simp only [firstOccurrences]
    exact ((List.filter_sublist).trans ih).cons_cons y

/-! ### servings -/

theorem digit_is_alnum {c : Char} (h : isDigit c = true) : isAsciiAlnum c = true := by
  simp [isAsciiAlnum, h]

theorem plus_not_alnum : isAsciiAlnum '+' = false := by decide

theorem extractValue_iff (s : Str) (n : Nat) : extractValue s = some n ↔ LeadNat s n ∧ n < u32Bound := by
  unfold extractValue
  rw [parseU32_iff]
  constructor
  · rintro ⟨⟨ds, hne, hd, hs, hv⟩, hlt⟩
    refine ⟨⟨s.takeWhile isAsciiAlnum, s.dropWhile isAsciiAlnum, List.takeWhile_append_dropWhile.symm, ?_, ?_,
      dropWhile_stops s, ?_⟩, hlt⟩
    all_goals
      rcases hs with hs | hs
      · first
        | (rw [hs]; exact hne)
        | (rw [hs]; exact hd)
        | (rw [hs]; exact hv)
      · exfalso
        have := takeWhile_all (p := isAsciiAlnum) s '+' (by rw [hs]; simp)
        rw [plus_not_alnum] at this; exact absurd this (by simp)
  · rintro ⟨⟨p, r, rfl, hne, hd, hr, hv⟩, hlt⟩
    rw [takeWhile_append_stop (fun c hc => digit_is_alnum (hd c hc)) hr]
    exact ⟨⟨p, hne, hd, Or.inl rfl, hv⟩, hlt⟩

theorem asU32_iff (y : Y) (n : Nat) : asU32 y = some n ↔ ∃ k, y = .num k ∧ k.u64 = some n ∧ n < u32Bound := by
  have hm : u32Max = 4294967295 := rfl
  have hb : u32Bound = 4294967296 := rfl
  cases y with
  | num k =>
    simp only [asU32]
    cases hk : k.u64 with
    | none => simp [hk]
    | some j =>
      simp only [Y.num.injEq, exists_eq_left', hk, Option.some.injEq]
      by_cases hle : j ≤ u32Max
      · simp only [hle, if_true, Option.some.injEq]
        constructor
        · rintro rfl; exact ⟨rfl, by omega⟩
        · rintro ⟨h, -⟩; exact h
      · simp only [hle, if_false]
        constructor
        · intro h; exact absurd h (by simp)
        · rintro ⟨rfl, hlt⟩; omega
  | null => simp [asU32]
  | bool => simp [asU32]
  | str s => simp [asU32]
  | seq l => simp [asU32]
  | map m => simp [asU32]
  | tagged => simp [asU32]

theorem servingOfElem_iff (y : Y) (n : Nat) : servingOfElem y = some n ↔ ServingElem y n := by
  unfold servingOfElem
  cases y with
  | num k =>
    cases ha : asU32 (.num k) with
    | none =>
      simp only [ServingElem]
      constructor
      · intro h; exact absurd h (by simp)
      · rintro ⟨h1, h2⟩
        have := (asU32_iff (.num k) n).mpr ⟨k, rfl, h1, h2⟩
        rw [ha] at this; exact absurd this (by simp)
    | some j =>
      obtain ⟨k', hk, h1, h2⟩ := (asU32_iff _ _).mp ha
      simp at hk; subst hk
      simp only [ServingElem, Option.some.injEq]
      constructor
      · rintro rfl; exact ⟨h1, h2⟩
      · rintro ⟨h3, -⟩; rw [h1] at h3; simpa using h3
  | str s => simp [asU32, ServingElem, extractValue_iff]
  | null => simp [asU32, ServingElem]
  | bool => simp [asU32, ServingElem]
  | seq l => simp [asU32, ServingElem]
  | map m => simp [asU32, ServingElem]
  | tagged => simp [asU32, ServingElem]

/-! duplicates: `sort; dedup; len` against `Nodup` -/

theorem dedupAdj_cons_cons (a b : Nat) (t : List Nat) :
    dedupAdj (a :: b :: t) = if a = b then dedupAdj (b :: t) else a :: dedupAdj (b :: t) := by
  rw [dedupAdj]

theorem dedupAdj_length_le (l : List Nat) : (dedupAdj l).length ≤ l.length := by
  induction l with
  | nil => simp [dedupAdj]
  | cons a t ih =>
    cases t with
    | nil => simp [dedupAdj]
    | cons b t' =>
      rw [dedupAdj_cons_cons]
      split
      · simp only [List.length_cons] at ih ⊢; omega
      · simp only [List.length_cons] at ih ⊢; omega

theorem dedupAdj_length_eq_iff (l : List Nat) (hs : l.Pairwise (· ≤ ·)) :
    (dedupAdj l).length = l.length ↔ l.Nodup := by
  induction l with
  | nil => simp [dedupAdj]
  | cons a t ih =>
    cases t with
    | nil => simp [dedupAdj]
    | cons b t' =>
      have hs' := (List.pairwise_cons.mp hs)
      have iht := ih hs'.2
      have hle := dedupAdj_length_le (b :: t')
      rw [dedupAdj_cons_cons]
      by_cases hab : a = b
      · subst hab
        simp only [if_true]
        constructor
        · intro h; simp only [List.length_cons] at h hle; omega
        · intro h; simp at h
      · simp only [hab, if_false, List.length_cons, Nat.add_right_cancel_iff]
        simp only [List.length_cons] at iht
        rw [iht, List.nodup_cons (a := a)]
        constructor
        · intro h
          refine ⟨?_, h⟩
          intro hmem
          have hab' : a ≤ b := hs'.1 b (by simp)
          have hb := (List.pairwise_cons.mp hs'.2).1
          simp at hmem
          rcases hmem with rfl | hmem
          · exact hab rfl
          · have := hb a hmem
            omega
        · intro h; exact h.2

theorem dedupLen_eq_iff (l : List Nat) : dedupLen l = l.length ↔ l.Nodup := by
  unfold dedupLen
  have hp := List.mergeSort_perm l (fun a b => decide (a ≤ b))
  have hsorted : (l.mergeSort (fun a b => decide (a ≤ b))).Pairwise (· ≤ ·) := by
    have := List.pairwise_mergeSort (le := fun a b : Nat => decide (a ≤ b))
      (by intro a b c; simp; omega) (by intro a b; simp; omega) l
    simpa using this
  rw [← hp.length_eq, dedupAdj_length_eq_iff _ hsorted, hp.nodup_iff]

theorem valueAsServings_iff (v : Y) (l : List Nat) : valueAsServings v = some l ↔ Spec.Servings v l := by
  have hraw : ∀ l, rawServings v = some l ↔
      (match v with
       | .num k => ∃ n, k.u64 = some n ∧ n < u32Bound ∧ l = [n]
       | .str s => ∃ es, SplitBy '|' s es ∧ Forall2 (fun e n => LeadNat (trim e) n ∧ n < u32Bound) es l
       | .seq ys => Forall2 ServingElem ys l
       | _ => False) := by
    intro l
    unfold rawServings
    cases v with
    | num k =>
      cases ha : asU32 (.num k) with
      | none =>
        simp
        intro n h1 h2
        have := (asU32_iff (.num k) n).mpr ⟨k, rfl, h1, h2⟩
        rw [ha] at this; exact absurd this (by simp)
      | some j =>
        obtain ⟨k', hk, h1, h2⟩ := (asU32_iff _ _).mp ha
        simp at hk; subst hk
        simp only [Option.some.injEq]
        constructor
        · rintro rfl; exact ⟨j, h1, h2, rfl⟩
        · rintro ⟨n, h3, -, rfl⟩; rw [h1] at h3; simp at h3; rw [h3]
    | str s =>
      simp only [asU32]
      rw [mapOpt_eq_some _ (fun e n => LeadNat (trim e) n ∧ n < u32Bound) (fun a b => extractValue_iff (trim a) b)]
      constructor
      · intro h; exact ⟨_, (split_char_spec '|' s _).mp (by rw [isPipe_eq]), h⟩
      · rintro ⟨es, hes, h⟩
        have := (split_char_spec '|' s es).mpr hes
        rw [isPipe_eq, this]; exact h
    | seq ys =>
      simp only [asU32]
      exact mapOpt_eq_some _ _ servingOfElem_iff ys l
    | null => simp [asU32]
    | bool => simp [asU32]
    | map m => simp [asU32]
    | tagged => simp [asU32]
  unfold valueAsServings
  cases hr : rawServings v with
  | none =>
    have hn : ∀ l, ¬ (rawServings v = some l) := by intro l h; rw [hr] at h; exact absurd h (by simp)
    cases v with
    | num k =>
      simp only [Spec.Servings]
      constructor
      · intro h; exact absurd h (by simp)
      · rintro ⟨n, h⟩; exact absurd ((hraw l).mpr ⟨n, h⟩) (hn l)
    | str s =>
      simp only [Spec.Servings]
      constructor
      · intro h; exact absurd h (by simp)
      · rintro ⟨es, h1, h2, -⟩; exact absurd ((hraw l).mpr ⟨es, h1, h2⟩) (hn l)
    | seq ys =>
      simp only [Spec.Servings]
      constructor
      · intro h; exact absurd h (by simp)
      · rintro ⟨h1, -⟩; exact absurd ((hraw l).mpr h1) (hn l)
    | null => simp [Spec.Servings]
    | bool => simp [Spec.Servings]
    | map m => simp [Spec.Servings]
    | tagged => simp [Spec.Servings]
  | some l0 =>
    have h0 := (hraw l0).mp hr
    have huniq : ∀ l, rawServings v = some l → l = l0 := by intro l h; rw [hr] at h; simp at h; exact h.symm
    have hdup : (l0.length != dedupLen l0) = true ↔ ¬ l0.Nodup := by
      rw [← dedupLen_eq_iff, bne_iff_ne]
      constructor <;> intro h h2 <;> exact h h2.symm
    simp only
    constructor
    · intro h
      split at h
      · exact absurd h (by simp)
      · rename_i hd
        simp at h; subst h
        have hnd : l0.Nodup := Classical.byContradiction fun hc => hd (hdup.mpr hc)
        cases v with
        | num k =>
          obtain ⟨n, h1, h2, rfl⟩ := h0
          exact ⟨n, h1, h2, rfl⟩
        | str s => obtain ⟨es, h1, h2⟩ := h0; exact ⟨es, h1, h2, hnd⟩
        | seq ys => exact ⟨h0, hnd⟩
        | null => exact h0
        | bool => exact h0
        | map m => exact h0
        | tagged => exact h0
    · intro h
      have hl : l = l0 ∧ l.Nodup := by
        cases v with
        | num k =>
          obtain ⟨n, h1, h2, rfl⟩ := h
          exact ⟨huniq _ ((hraw _).mpr ⟨n, h1, h2, rfl⟩), by simp⟩
        | str s =>
          obtain ⟨es, h1, h2, h3⟩ := h
          exact ⟨huniq _ ((hraw _).mpr ⟨es, h1, h2⟩), h3⟩
        | seq ys => exact ⟨huniq _ ((hraw _).mpr h.1), h.2⟩
        | null => exact absurd h (by simp [Spec.Servings])
        | bool => exact absurd h (by simp [Spec.Servings])
        | map m => exact absurd h (by simp [Spec.Servings])
        | tagged => exact absurd h (by simp [Spec.Servings])
      obtain ⟨rfl, hnd⟩ := hl
      have : ¬ ((l.length != dedupLen l) = true) := fun hc => (hdup.mp hc) hnd
      rw [if_neg this]

end Cook.SM
