import CookModel.Lemmas.DiagPlaceInter
import CookModel.Lemmas.DiagPlaceDocName
/-
  C07, arbitrary placement: `inter-ref-not-allowed:cookware` as a placement piece (`c07j_` prefix, wave 10).  The
  existing `cookwareTail_inter` is membership only; here the EXACT tail for a cookware item whose modifier tokens are
  one ACCEPTED group `&( … )` (the data reader returns data and pushes nothing), then the piece `#&(n)name{}` in
  context (cut `c07i_cut` of wave 9) and on every actual block spelling specification tokens.
-/
set_option linter.unusedSectionVars false
set_option linter.unusedSimpArgs false
set_option linter.unusedVariables false
namespace Cook

variable {α : Type} [Arith α]

/-- `parse_modifiers` on `&` `(` inner `)` with INTERMEDIATE_PREPARATIONS, when the data reader answers `d` without
    pushing anything: nothing is pushed, the flags are `&`, the data is `d` -/
theorem c07j_parseModifiers_quiet (amp op cp : Tok) (inner : List Tok) (pos : Nat) (d : Option (Loc InterData))
    (s : BP α) (hamp : amp.kind = .and) (he : s.ext.has Gen.EXT_INTERMEDIATE_PREPARATIONS = true)
    (hPI : ∀ s0 : BP α, parseInterRef (α := α) (op :: (inner ++ cp :: [])) s0 = ((d, []), s0)) :
    Sat (parseModifiers (α := α) (amp :: op :: (inner ++ [cp])) pos) s (fun r s' =>
      Pushed [] s s' ∧
      r = ⟨⟨Modifiers.empty.insert Modifiers.REF, tokensSpan (amp :: op :: (inner ++ [cp]))⟩, d⟩) := by
  unfold parseModifiers
  simp only [List.isEmpty_cons, Bool.false_eq_true, if_false]
  refine Sat.bind (Sat.hasExt ?_)
  rw [he]
  apply Sat.bind
  apply Sat.mono (Q := fun (r : Modifiers × Option (Loc InterData)) s' => Pushed [] s s' ∧
    r = (Modifiers.empty.insert Modifiers.REF, d))
  · unfold parseModifiersLoop
    have hf : modifierFlag amp.kind = some Modifiers.REF := by rw [hamp]; rfl
    simp only [hf]
    refine Sat.bind (Sat.pure ?_)
    have hc : (amp.kind == TK.and && true) = true := by rw [hamp]; rfl
    simp only [hc, if_true]
    refine Sat.bind (Sat.of_eq2 (hPI s) ?_)
    have hnc : (decide (Modifiers.REF ≠ 0) && Modifiers.empty.contains Modifiers.REF) = false := by decide
    simp only [hnc, Bool.false_eq_true, if_false]
    unfold parseModifiersLoop
    exact Sat.pure ⟨Pushed.refl _, rfl⟩
  · rintro r s1 ⟨p1, rfl⟩
    exact Sat.pure ⟨p1, rfl⟩

/-- a cookware item without quantity, with a non-blank name without alias separator, whose modifiers are an accepted
    group `&( … )` with data `dd`: EXACTLY `inter-ref-not-allowed:cookware` on the data's span is pushed -/
theorem c07j_cookwareTail_inter (start stop modPos nameOffset : Nat) (amp op cp : Tok) (inner : List Tok)
    (body : Body) (note : Option Text) (dd : Loc InterData) (s : BP α)
    (hamp : amp.kind = .and) (he : s.ext.has Gen.EXT_INTERMEDIATE_PREPARATIONS = true)
    (hPI : ∀ s0 : BP α, parseInterRef (α := α) (op :: (inner ++ cp :: [])) s0 = ((some dd, []), s0))
    (hq : body.quantity = none)
    (ha : s.ext.has Gen.EXT_COMPONENT_ALIAS = false ∨ ∀ t ∈ body.name, t.kind ≠ .or)
    (hn : (buildText nameOffset body.name).isTextEmpty s.cs = false) :
    Sat (cookwareTail (α := α) start stop modPos nameOffset (amp :: op :: (inner ++ [cp])) body note) s
      (fun r s' => Pushed [.error ⟨.error, .parse, "inter-ref-not-allowed:cookware", [dd.span]⟩] s s' ∧
        r = some (.cookware ⟨⟨⟨Modifiers.empty.insert Modifiers.REF, tokensSpan (amp :: op :: (inner ++ [cp]))⟩,
          buildText nameOffset body.name, none, none, note⟩, ⟨start, stop⟩⟩)) := by
  unfold cookwareTail
  refine Sat.bind (Sat.mono (parseAlias_quiet "cookware" body.name nameOffset s ha) ?_)
  rintro ⟨name, alias⟩ s5 ⟨q5, heq⟩
  cases heq
  dsimp only
  refine Sat.bind ?_
  unfold checkEmptyName
  refine Sat.bind (Sat.get ?_)
  rw [q5.1, hn]
  simp only [Bool.false_eq_true, if_false]
  refine Sat.pure ?_
  refine Sat.bind ?_
  unfold cookwareQty
  rw [hq]
  refine Sat.pure ?_
  refine Sat.bind (Sat.mono (c07j_parseModifiers_quiet amp op cp inner modPos (some dd) s5 hamp
    (by rw [q5.2.1]; exact he) hPI) ?_)
  rintro pm s6 ⟨p6, rfl⟩
  dsimp only
  refine Sat.bind (Sat.perrE ?_)
  have hcc : (Modifiers.empty.insert Modifiers.REF).contains Modifiers.RECIPE = false := by decide
  simp only [hcc, Bool.false_eq_true, if_false]
  refine Sat.bind (Sat.pure ?_)
  exact Sat.pure ⟨((q5.pushed.trans p6).trans (Pushed.one _ _)).cast (by simp), rfl⟩

/-- **A cookware item `#&( inner )name{}` whose group is ACCEPTED with data `dd`, wherever it stands**: exactly
    `inter-ref-not-allowed:cookware` (error, parse; the data's span), then the item with the `&` flag on the byte range
    of the construct. -/
theorem c07j_cookware_inter_piece (T A rest : List Tok) (cs : CharSpec) (e : Ext) (tm tand top : Tok)
    (inner : List Tok) (tcp : Tok) (nameT : List Tok) (tob : Tok) (Q : List Tok) (tcb : Tok)
    (hT : T = A ++ (c07p_comp tm (c07i_mods [] tand top inner tcp []) nameT tob Q tcb ++ rest)) (hw : WF T)
    (sh : PlShapeI e .hash tm [] tand top inner tcp [] nameT tob Q tcb rest)
    (hQ : ∀ t ∈ Q, isPadK t = true)
    (ha : e.has Gen.EXT_COMPONENT_ALIAS = false ∨ ∀ t ∈ nameT, t.kind ≠ .or)
    (hname : (buildText (offAt T (A.length + 1 + (c07i_mods [] tand top inner tcp []).length)) nameT).isTextEmpty cs
      = false)
    (dd : Loc InterData)
    (hPI : ∀ s0 : BP α, parseInterRef (α := α) (top :: (inner ++ tcp :: [])) s0 = ((some dd, []), s0)) :
    PlPieceAt (α := α) T cs e A ⟨c07p_comp tm (c07i_mods [] tand top inner tcp []) nameT tob Q tcb, fun evs =>
      evs = [.error ⟨.error, .parse, "inter-ref-not-allowed:cookware", [dd.span]⟩,
        .cookware ⟨⟨⟨Modifiers.empty.insert Modifiers.REF, tokensSpan (tand :: top :: (inner ++ [tcp]))⟩,
          buildText (offAt T (A.length + 1 + (c07i_mods [] tand top inner tcp []).length)) nameT, none, none, none⟩,
        ⟨offAt T A.length,
         offAt T (A.length + (c07p_comp tm (c07i_mods [] tand top inner tcp []) nameT tob Q tcb).length)⟩⟩]⟩ := by
  apply c07p_piece_of_cookware T A _ rest cs e hT hw tm _ rfl sh.hk
  intro s h1 h2 h3 h4 h5
  subst h1 h2 h3
  obtain ⟨hcut, hnote⟩ := c07i_cut .hash s A tm [] tand top inner tcp [] nameT tob Q tcb rest sh hT h5
  have hrun' : cookwareP s = cookwareTail (offAt s.toks A.length)
      (offAt s.toks (A.length + (c07p_comp tm (c07i_mods [] tand top inner tcp []) nameT tob Q tcb).length))
      (offAt s.toks (A.length + 1)) (offAt s.toks (A.length + 1 + (c07i_mods [] tand top inner tcp []).length))
      (tand :: top :: (inner ++ [tcp])) (c07p_body nameT tob Q tcb) none
      { s with cur := A.length + (c07p_comp tm (c07i_mods [] tand top inner tcp []) nameT tob Q tcb).length } := by
    have := cookwareP_cut hcut hnote
    rw [this]
    simp only [curOff, h5]
    rfl
  have hbody := c07p_body_qty_none nameT tob Q tcb hQ
  have ht := c07j_cookwareTail_inter (α := α) (offAt s.toks A.length)
    (offAt s.toks (A.length + (c07p_comp tm (c07i_mods [] tand top inner tcp []) nameT tob Q tcb).length))
    (offAt s.toks (A.length + 1)) (offAt s.toks (A.length + 1 + (c07i_mods [] tand top inner tcp []).length))
    tand top tcp inner (c07p_body nameT tob Q tcb) none dd
    ({ s with cur := A.length + (c07p_comp tm (c07i_mods [] tand top inner tcp []) nameT tob Q tcb).length } : BP α)
    sh.hand sh.hint hPI hbody ha hname
  unfold Sat at ht
  rw [← hrun'] at ht
  obtain ⟨hpu, hr⟩ := ht
  refine ⟨[_], _, hr, hpu, ?_, ?_⟩
  · rw [hrun']
    exact (c07p_indep_fields (Indep.cookwareTail ..) _).1
  · simp [c07p_body]

end Cook
