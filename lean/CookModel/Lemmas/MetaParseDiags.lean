import CookModel.Lemmas.MetaAgree
/-
  C14, PARSE-stage diagnostics about metadata (`metadata-invalid`, `empty-metadata-key`,
  `empty-metadata-value`): only `metadata_entry` pushes a diagnostic of one of these kinds.  Third
  clone of the sweep of `ParserMeta.lean`, with the filter "metadata-carrying event OR error/warning
  event of one of the three kinds" (`Ev.isTrace`): every other block parser leaves the trace of the
  event queue unchanged.
-/
set_option linter.unusedSectionVars false
namespace Cook
variable {α : Type} [Arith α]

/-- the kinds of the parse-stage diagnostics about `>>` metadata lines (src/parser/metadata.rs) -/
def parseMetaKind (k : String) : Bool :=
  k == "metadata-invalid" || k == "empty-metadata-key" || k == "empty-metadata-value"

/-- a parse-stage diagnostic about a metadata line -/
def Diag.isParseMeta (d : Diag) : Bool := d.stage == .parse && parseMetaKind d.kind

/-- an event of the metadata trace: `Metadata`, front matter, or an error/warning event whose
    diagnostic is of one of the three metadata kinds -/
def Ev.isTrace : Ev α → Bool
  | .metadata _ _ => true
  | .frontMatter _ => true
  | .error d => parseMetaKind d.kind
  | .warning d => parseMetaKind d.kind
  | _ => false

/-- the metadata trace of an event queue, in order -/
def traceOf (evs : Array (Ev α)) : List (Ev α) := evs.toList.filter Ev.isTrace

theorem traceOf_push (evs : Array (Ev α)) (e : Ev α) :
    traceOf (evs.push e) = traceOf evs ++ (if e.isTrace then [e] else []) := by
  unfold traceOf
  rw [Array.toList_push, List.filter_append]
  cases h : e.isTrace <;> simp [List.filter, h]

/-! ### kinds built by string interpolation, kinds of the number reader -/

theorem mpd_pfx_ne (p c k : String) (hp : ¬ p.toList <+: k.toList) : (p ++ c == k) = false := by
  rw [beq_eq_false_iff_ne]
  intro e
  apply hp
  rw [← e]
  simp [String.toList_append]

/-- a kind `s!"<prefix>{c}"` whose prefix is not a prefix of any of the three kinds -/
theorem mpd_pfx_kind (p c : String) (h1 : ¬ p.toList <+: "metadata-invalid".toList)
    (h2 : ¬ p.toList <+: "empty-metadata-key".toList) (h3 : ¬ p.toList <+: "empty-metadata-value".toList) :
    parseMetaKind (p ++ c) = false := by
  simp only [parseMetaKind, Bool.or_eq_false_iff]
  exact ⟨⟨mpd_pfx_ne _ _ _ h1, mpd_pfx_ne _ _ _ h2⟩, mpd_pfx_ne _ _ _ h3⟩

/-- a result whose error (if any) is not a metadata diagnostic -/
def NK {β : Type} (r : Except Diag β) : Prop := ∀ e, r = .error e → parseMetaKind e.kind = false

theorem mpd_parseU32 (t : Tok) : NK (parseU32 t) := by
  intro e h
  unfold parseU32 at h
  dsimp only at h
  split at h
  · cases h
  · cases h; show parseMetaKind "int-parse" = false; decide

theorem mpd_fracNum (a b : Tok) : NK (fracNum (α := α) a b) := by
  intro e h
  unfold fracNum at h
  split at h
  · rename_i e' h1; cases h; exact mpd_parseU32 a e h1
  · split at h
    · rename_i e' h2; cases h; exact mpd_parseU32 b e h2
    · split at h
      · cases h; show parseMetaKind "division-by-zero" = false; decide
      · cases h

theorem mpd_mixedNum (i a b : Tok) : NK (mixedNum (α := α) i a b) := by
  intro e h
  unfold mixedNum at h
  split at h
  · rename_i e' h1; cases h; exact mpd_parseU32 i e h1
  · split at h
    · rename_i e' h2; cases h; exact mpd_fracNum a b e h2
    · cases h
    · cases h

theorem mpd_map_number {r : Except Diag (Number α)} (h : NK r) : NK (r.map Value.number) := by
  intro e he
  cases r with
  | error e' => simp [Except.map] at he; subst he; exact h e' rfl
  | ok v => simp [Except.map] at he

/-- an optional result whose error (if any) is not a metadata diagnostic -/
def NKO {β : Type} (r : Option (Except Diag β)) : Prop := ∀ e, r = some (.error e) → parseMetaKind e.kind = false

theorem nko_none {β : Type} : NKO (none : Option (Except Diag β)) := by intro e h; cases h
theorem nko_some {β : Type} {r : Except Diag β} (h : NK r) : NKO (some r) := by
  intro e he; cases he; exact h e rfl
theorem nko_ok {β : Type} (v : β) : NKO (some (.ok v : Except Diag β)) := by intro e h; cases h

theorem mpd_numericValue (ts : List Tok) : NKO (numericValue (α := α) ts) := by
  unfold numericValue
  dsimp only
  repeat' (first
    | exact nko_none
    | exact nko_ok _
    | exact nko_some (mpd_map_number (mpd_fracNum _ _))
    | exact nko_some (mpd_map_number (mpd_mixedNum _ _ _))
    | split)

theorem mpd_rangeValue (r : Bool) (ts : List Tok) : NKO (rangeValue (α := α) r ts) := by
  unfold rangeValue
  dsimp only
  repeat' (first
    | exact nko_none
    | exact nko_ok _
    | (rename_i e h; exact nko_some (fun e' he' => by cases he'; exact mpd_numericValue _ e h))
    | split)

theorem mpd_numOrRange (r : Bool) (ts : List Tok) : NKO (numOrRange (α := α) r ts) := by
  unfold numOrRange
  split
  · rename_i x h; rw [← h]; exact mpd_rangeValue r ts
  · exact mpd_numericValue ts

/-! ### the sweep -/

/-- `f` adds no metadata event to the queue, and its result satisfies `Q` -/
structure TF {β : Type} (Q : β → Prop) (f : P α β) : Prop where
  run : ∀ s, traceOf (f s).2.evs = traceOf s.evs ∧ Q (f s).1

theorem TF.pure {β : Type} {Q : β → Prop} (a : β) (h : Q a) : TF (α := α) Q (pure a) :=
  ⟨fun _ => ⟨rfl, h⟩⟩

theorem TF.bind {β γ : Type} {Q : β → Prop} {R : γ → Prop} {f : P α β} {g : β → P α γ}
    (hf : TF Q f) (hg : ∀ a, Q a → TF R (g a)) : TF R (f >>= g) := by
  refine ⟨fun s => ?_⟩
  have h1 := hf.run s
  have h2 := (hg (f s).1 h1.2).run (f s).2
  exact ⟨h2.1.trans h1.1, h2.2⟩

theorem TF.bind0 {β γ : Type} {R : γ → Prop} {f : P α β} {g : β → P α γ}
    (hf : TF (fun _ => True) f) (hg : ∀ a, TF R (g a)) : TF R (f >>= g) :=
  TF.bind hf (fun a _ => hg a)

theorem TF.weaken {β : Type} {Q R : β → Prop} {f : P α β} (hf : TF Q f) (h : ∀ a, Q a → R a) : TF R f :=
  ⟨fun s => ⟨(hf.run s).1, h _ (hf.run s).2⟩⟩

theorem TF.triv {β : Type} {Q : β → Prop} {f : P α β} (hf : TF Q f) : TF (fun _ => True) f :=
  hf.weaken (fun _ _ => trivial)

theorem TF.get : TF (α := α) (fun _ => True) (get : P α (BP α)) := ⟨fun _ => ⟨rfl, trivial⟩⟩

theorem TF.modify (k : BP α → BP α) (h : ∀ s, (k s).evs = s.evs) :
    TF (α := α) (fun _ => True) (modify k : P α Unit) := ⟨fun s => ⟨by show traceOf (k s).evs = _; rw [h], trivial⟩⟩

syntax "tf_leaf" : tactic
macro_rules | `(tactic| tf_leaf) => `(tactic| with_reducible exact TF.get)
macro_rules | `(tactic| tf_leaf) => `(tactic| with_reducible exact TF.pure _ trivial)
macro_rules | `(tactic| tf_leaf) => `(tactic| assumption)

/-- structural decomposition of a `do` block -/
macro "tf" : tactic => `(tactic| repeat' (first
  | intro _
  | tf_leaf
  | dsimp only
  | with_reducible apply TF.bind0
  | split))

theorem tf_panicWith (site : String) : TF (α := α) (fun _ => True) (panicWith site) := by
  unfold panicWith
  apply TF.modify
  intro s; split <;> rfl
macro_rules | `(tactic| tf_leaf) => `(tactic| with_reducible exact tf_panicWith _)

theorem tf_pushEv (e : Ev α) (h : e.isTrace = false) : TF (α := α) (fun _ => True) (pushEv e) := by
  refine ⟨fun s => ⟨?_, trivial⟩⟩
  show traceOf (s.evs.push e) = _
  rw [traceOf_push, h]; simp

/-- an error / a warning of another kind leaves the trace alone -/
theorem tf_perr (k : String) (l : List Span) (hk : parseMetaKind k = false) :
    TF (α := α) (fun _ => True) (perr k l) := tf_pushEv _ hk
theorem tf_pwarn (k : String) (l : List Span) (hk : parseMetaKind k = false) :
    TF (α := α) (fun _ => True) (pwarn k l) := tf_pushEv _ hk
macro_rules | `(tactic| tf_leaf) => `(tactic| with_reducible exact tf_perr _ _ (by decide))
macro_rules | `(tactic| tf_leaf) => `(tactic| with_reducible exact tf_pwarn _ _ (by decide))
macro_rules | `(tactic| tf_leaf) => `(tactic| with_reducible exact tf_perr _ _ (mpd_pfx_kind _ _ (by decide) (by decide) (by decide)))
/-- the error of the number reader -/
theorem tf_pushNumErr (r : Bool) (ts : List Tok) (e : Diag) (h : numOrRange (α := α) r ts = some (.error e)) :
    TF (α := α) (fun _ => True) (pushEv (.error e)) := tf_pushEv _ (mpd_numOrRange r ts e h)
macro_rules | `(tactic| tf_leaf) => `(tactic| with_reducible exact tf_pushNumErr _ _ _ ‹_›)

theorem tf_hasExt (f : Nat) : TF (α := α) (fun _ => True) (hasExt f) := by unfold hasExt; tf
macro_rules | `(tactic| tf_leaf) => `(tactic| with_reducible exact tf_hasExt _)
theorem tf_restToks : TF (α := α) (fun _ => True) restToks := by unfold restToks; tf
macro_rules | `(tactic| tf_leaf) => `(tactic| with_reducible exact tf_restToks)
theorem tf_allToks : TF (α := α) (fun _ => True) allToks := by unfold allToks; tf
macro_rules | `(tactic| tf_leaf) => `(tactic| with_reducible exact tf_allToks)
theorem tf_getCur : TF (α := α) (fun _ => True) getCur := by unfold getCur; tf
macro_rules | `(tactic| tf_leaf) => `(tactic| with_reducible exact tf_getCur)
theorem tf_setCur (c : Nat) : TF (α := α) (fun _ => True) (setCur c) := by
  unfold setCur; exact TF.modify _ (fun _ => rfl)
macro_rules | `(tactic| tf_leaf) => `(tactic| with_reducible exact tf_setCur _)
theorem tf_tokensSpanP (site : String) (ts : List Tok) : TF (α := α) (fun _ => True) (tokensSpanP site ts) := by
  unfold tokensSpanP; tf
macro_rules | `(tactic| tf_leaf) => `(tactic| with_reducible exact tf_tokensSpanP _ _)
theorem tf_baseOffset : TF (α := α) (fun _ => True) baseOffset := by unfold baseOffset; tf
macro_rules | `(tactic| tf_leaf) => `(tactic| with_reducible exact tf_baseOffset)
theorem tf_currentOffset : TF (α := α) (fun _ => True) currentOffset := by unfold currentOffset; tf
macro_rules | `(tactic| tf_leaf) => `(tactic| with_reducible exact tf_currentOffset)
theorem tf_bpSpan : TF (α := α) (fun _ => True) bpSpan := by unfold bpSpan; tf
macro_rules | `(tactic| tf_leaf) => `(tactic| with_reducible exact tf_bpSpan)
theorem tf_peekK : TF (α := α) (fun _ => True) peekK := by unfold peekK; tf
macro_rules | `(tactic| tf_leaf) => `(tactic| with_reducible exact tf_peekK)
theorem tf_atK (k : TK) : TF (α := α) (fun _ => True) (atK k) := by unfold atK; tf
macro_rules | `(tactic| tf_leaf) => `(tactic| with_reducible exact tf_atK _)

theorem tf_nextToken : TF (α := α) (fun _ => True) nextToken := by
  refine ⟨fun s => ⟨?_, trivial⟩⟩
  simp only [nextToken, bind, StateT.bind, get, getThe, MonadStateOf.get, StateT.get, set, pure]
  cases s.toks[s.cur]? <;> rfl
macro_rules | `(tactic| tf_leaf) => `(tactic| with_reducible exact tf_nextToken)

theorem tf_bumpAny : TF (α := α) (fun _ => True) bumpAny := by unfold bumpAny; tf
macro_rules | `(tactic| tf_leaf) => `(tactic| with_reducible exact tf_bumpAny)
theorem tf_bump (k : TK) : TF (α := α) (fun _ => True) (bump k) := by unfold bump; tf
macro_rules | `(tactic| tf_leaf) => `(tactic| with_reducible exact tf_bump _)

theorem tf_modCur (k : BP α → Nat) : TF (α := α) (fun _ => True) (modify fun s => { s with cur := k s } : P α Unit) :=
  TF.modify _ (fun _ => rfl)

theorem tf_untilK (f : TK → Bool) : TF (α := α) (fun _ => True) (untilK f) := by
  unfold untilK; tf
  exact TF.modify _ (fun _ => rfl)
macro_rules | `(tactic| tf_leaf) => `(tactic| with_reducible exact tf_untilK _)
theorem tf_consumeWhile (f : TK → Bool) : TF (α := α) (fun _ => True) (consumeWhile f) := by
  unfold consumeWhile; tf
  exact TF.modify _ (fun _ => rfl)
macro_rules | `(tactic| tf_leaf) => `(tactic| with_reducible exact tf_consumeWhile _)
theorem tf_wsComments : TF (α := α) (fun _ => True) wsComments := tf_consumeWhile _
macro_rules | `(tactic| tf_leaf) => `(tactic| with_reducible exact tf_wsComments)
theorem tf_consumeK (k : TK) : TF (α := α) (fun _ => True) (consumeK k) := by unfold consumeK; tf
macro_rules | `(tactic| tf_leaf) => `(tactic| with_reducible exact tf_consumeK _)
theorem tf_consumeRest : TF (α := α) (fun _ => True) consumeRest := by
  unfold consumeRest; tf
  exact TF.modify _ (fun _ => rfl)
macro_rules | `(tactic| tf_leaf) => `(tactic| with_reducible exact tf_consumeRest)

theorem tf_withRecover {β : Type} {Q : Option β → Prop} {f : P α (Option β)} (hf : TF Q f) :
    TF Q (withRecover f) := by
  unfold withRecover
  apply TF.bind0 tf_getCur
  intro old
  apply TF.bind hf
  intro r hr
  dsimp only
  split
  · apply TF.bind0 (tf_setCur _)
    intro _; exact TF.pure _ hr
  · exact TF.pure _ hr
macro_rules | `(tactic| tf_leaf) => `(tactic| with_reducible apply tf_withRecover)

theorem tf_bpText (o : Nat) (ts : List Tok) : TF (α := α) (fun _ => True) (bpText o ts) := by unfold bpText; tf
macro_rules | `(tactic| tf_leaf) => `(tactic| with_reducible exact tf_bpText _ _)

theorem tf_scalingLock : TF (α := α) (fun _ => True) scalingLock := by unfold scalingLock; tf
macro_rules | `(tactic| tf_leaf) => `(tactic| with_reducible exact tf_scalingLock)
theorem tf_textValue (ts : List Tok) (o : Nat) : TF (α := α) (fun _ => True) (textValue (α := α) ts o) := by
  unfold textValue; tf
macro_rules | `(tactic| tf_leaf) => `(tactic| with_reducible exact tf_textValue _ _)

macro_rules | `(tactic| tf_leaf) => `(tactic| (with_reducible refine tf_pushEv _ ?_) <;> rfl)

theorem tf_get_set {β : Type} {Q : β → Prop} (upd : BP α → BP α) (hupd : ∀ s, (upd s).evs = s.evs)
    (g : BP α → PUnit → P α β) (hg : ∀ o u, TF Q (g o u)) :
    TF Q ((get : P α (BP α)) >>= fun o => (set (upd o) : P α PUnit) >>= g o) := by
  refine ⟨fun s => ?_⟩
  have := (hg s ⟨⟩).run (upd s)
  rw [hupd] at this
  exact this

theorem tf_parseValue (ts : List Tok) : TF (α := α) (fun _ => True) (parseValue (α := α) ts) := by
  unfold parseValue; tf
macro_rules | `(tactic| tf_leaf) => `(tactic| with_reducible exact tf_parseValue _)
theorem tf_qvalue : TF (α := α) (fun _ => True) (qvalue (α := α)) := by unfold qvalue; tf
macro_rules | `(tactic| tf_leaf) => `(tactic| with_reducible exact tf_qvalue)
theorem tf_parseRegularQuantity : TF (α := α) (fun _ => True) (parseRegularQuantity (α := α)) := by
  unfold parseRegularQuantity; tf
macro_rules | `(tactic| tf_leaf) => `(tactic| with_reducible exact tf_parseRegularQuantity)
theorem tf_parseAdvancedQuantity : TF (α := α) (fun _ => True) (parseAdvancedQuantity (α := α)) := by
  unfold parseAdvancedQuantity; tf
macro_rules | `(tactic| tf_leaf) => `(tactic| with_reducible exact tf_parseAdvancedQuantity)

theorem tf_parseQuantity (ts : List Tok) : TF (α := α) (fun _ => True) (parseQuantity (α := α) ts) := by
  unfold parseQuantity
  dsimp only
  split
  · apply TF.bind0 (tf_panicWith _)
    intro _
    apply tf_get_set (upd := fun o => { o with toks := ts, cur := 0 }) (fun _ => rfl)
    intro o u
    tf
    exact TF.modify _ (fun _ => rfl)
  · apply tf_get_set (upd := fun o => { o with toks := ts, cur := 0 }) (fun _ => rfl)
    intro o u
    tf
    exact TF.modify _ (fun _ => rfl)
macro_rules | `(tactic| tf_leaf) => `(tactic| with_reducible exact tf_parseQuantity _)

theorem tf_compBodyLong : TF (α := α) (fun _ => True) (compBodyLong (α := α)) := by unfold compBodyLong; tf
macro_rules | `(tactic| tf_leaf) => `(tactic| with_reducible exact tf_compBodyLong)
theorem tf_compBodyShort : TF (α := α) (fun _ => True) (compBodyShort (α := α)) := by unfold compBodyShort; tf
macro_rules | `(tactic| tf_leaf) => `(tactic| with_reducible exact tf_compBodyShort)
theorem tf_compBody : TF (α := α) (fun _ => True) (compBody (α := α)) := by unfold compBody; tf
macro_rules | `(tactic| tf_leaf) => `(tactic| with_reducible exact tf_compBody)

theorem tf_modifiersLoop (inter : Bool) (fuel : Nat) : TF (α := α) (fun _ => True) (modifiersLoop (α := α) inter fuel) := by
  induction fuel with
  | zero => unfold modifiersLoop; tf
  | succ n ih => unfold modifiersLoop; tf
macro_rules | `(tactic| tf_leaf) => `(tactic| with_reducible exact tf_modifiersLoop _ _)
theorem tf_modifiersP : TF (α := α) (fun _ => True) (modifiersP (α := α)) := by unfold modifiersP; tf
macro_rules | `(tactic| tf_leaf) => `(tactic| with_reducible exact tf_modifiersP)
theorem tf_noteP : TF (α := α) (fun _ => True) (noteP (α := α)) := by unfold noteP; tf
macro_rules | `(tactic| tf_leaf) => `(tactic| with_reducible exact tf_noteP)
theorem tf_parseInterRef (ts : List Tok) : TF (α := α) (fun _ => True) (parseInterRef (α := α) ts) := by
  unfold parseInterRef; tf
macro_rules | `(tactic| tf_leaf) => `(tactic| with_reducible exact tf_parseInterRef _)

theorem tf_parseModifiersLoop (span : Span) (ie : Bool) (fuel : Nat) : ∀ (ts : List Tok) (m : Modifiers) (d : Option (Loc InterData)),
    TF (α := α) (fun _ => True) (parseModifiersLoop (α := α) span ie fuel ts m d) := by
  induction fuel with
  | zero => intro ts m d; unfold parseModifiersLoop; tf
  | succ n ih =>
    intro ts m d
    cases ts with
    | nil => unfold parseModifiersLoop; tf
    | cons t r =>
      unfold parseModifiersLoop; tf
      all_goals exact ih _ _ _
macro_rules | `(tactic| tf_leaf) => `(tactic| with_reducible exact tf_parseModifiersLoop _ _ _ _ _ _)
theorem tf_parseModifiers (ts : List Tok) (pos : Nat) : TF (α := α) (fun _ => True) (parseModifiers (α := α) ts pos) := by
  unfold parseModifiers; tf
macro_rules | `(tactic| tf_leaf) => `(tactic| with_reducible exact tf_parseModifiers _ _)
theorem tf_parseAlias (c : String) (ts : List Tok) (o : Nat) : TF (α := α) (fun _ => True) (parseAlias (α := α) c ts o) := by
  unfold parseAlias; tf
macro_rules | `(tactic| tf_leaf) => `(tactic| with_reducible exact tf_parseAlias _ _ _)
theorem tf_checkEmptyName (c : String) (n : Text) : TF (α := α) (fun _ => True) (checkEmptyName (α := α) c n) := by
  unfold checkEmptyName; tf
macro_rules | `(tactic| tf_leaf) => `(tactic| with_reducible exact tf_checkEmptyName _ _)

/-- an optional event that is not a metadata event -/
def NT (r : Option (Ev α)) : Prop := ∀ ev, r = some ev → ev.isTrace = false

macro_rules | `(tactic| tf_leaf) => `(tactic| (with_reducible refine TF.pure _ ?_) <;> (intro ev h; cases h <;> rfl))

theorem tf_ingredientP : TF (α := α) NT (ingredientP (α := α)) := by unfold ingredientP; tf
theorem tf_cookwareP : TF (α := α) NT (cookwareP (α := α)) := by unfold cookwareP; tf
theorem tf_checkNoteTimer : TF (α := α) (fun _ => True) (checkNoteTimer (α := α)) := by unfold checkNoteTimer; tf
macro_rules | `(tactic| tf_leaf) => `(tactic| with_reducible exact tf_checkNoteTimer)
theorem tf_timerP : TF (α := α) NT (timerP (α := α)) := by unfold timerP; tf
macro_rules | `(tactic| tf_leaf) => `(tactic| with_reducible exact tf_ingredientP)
macro_rules | `(tactic| tf_leaf) => `(tactic| with_reducible exact tf_cookwareP)
macro_rules | `(tactic| tf_leaf) => `(tactic| with_reducible exact tf_timerP)

theorem tf_stepOne : TF (α := α) (fun _ => True) (stepOne (α := α)) := by
  unfold stepOne
  apply TF.bind (Q := NT)
  · tf
  · intro comp hc
    split
    · rename_i ev
      exact tf_pushEv _ (hc ev rfl)
    · tf
macro_rules | `(tactic| tf_leaf) => `(tactic| with_reducible exact tf_stepOne)

theorem tf_stepLoop (fuel : Nat) : TF (α := α) (fun _ => True) (stepLoop (α := α) fuel) := by
  induction fuel with
  | zero => unfold stepLoop; tf
  | succ n ih => unfold stepLoop; tf
macro_rules | `(tactic| tf_leaf) => `(tactic| with_reducible exact tf_stepLoop _)
theorem tf_parseStep : TF (α := α) (fun _ => True) (parseStep (α := α)) := by unfold parseStep; tf
macro_rules | `(tactic| tf_leaf) => `(tactic| with_reducible exact tf_parseStep)

theorem tf_textBlockLoop (fuel : Nat) : TF (α := α) (fun _ => True) (textBlockLoop (α := α) fuel) := by
  induction fuel with
  | zero => unfold textBlockLoop; tf
  | succ n ih => unfold textBlockLoop; tf
macro_rules | `(tactic| tf_leaf) => `(tactic| with_reducible exact tf_textBlockLoop _)
theorem tf_parseTextBlock : TF (α := α) (fun _ => True) (parseTextBlock (α := α)) := by unfold parseTextBlock; tf
macro_rules | `(tactic| tf_leaf) => `(tactic| with_reducible exact tf_parseTextBlock)

theorem tf_sectionP : TF (α := α) NT (sectionP (α := α)) := by unfold sectionP; tf
macro_rules | `(tactic| tf_leaf) => `(tactic| with_reducible exact tf_sectionP)
theorem tf_parseMultilineBlock : TF (α := α) (fun _ => True) (parseMultilineBlock (α := α)) := by
  unfold parseMultilineBlock; tf
macro_rules | `(tactic| tf_leaf) => `(tactic| with_reducible exact tf_parseMultilineBlock)


/-! ### what `metadata_entry` pushes depends only on the block

  `SE f f'`: on states with the same core (tokens, cursor, extensions, character tables) `f` and `f'`
  return the same value, end in the same core and APPEND THE SAME EVENTS to their queues. -/

structure SE {β : Type} (f f' : P α β) : Prop where
  run : ∀ s s', s.core = s'.core → (f s).1 = (f' s').1 ∧ (f s).2.core = (f' s').2.core ∧
    ∃ new : List (Ev α), (f s).2.evs.toList = s.evs.toList ++ new ∧ (f' s').2.evs.toList = s'.evs.toList ++ new

theorem SE.pure {β : Type} (a : β) : SE (α := α) (pure a) (pure a) :=
  ⟨fun _ _ h => ⟨rfl, h, [], by simp [Pure.pure, StateT.pure], by simp [Pure.pure, StateT.pure]⟩⟩

theorem SE.bind {β γ : Type} {f f' : P α β} {g g' : β → P α γ}
    (hf : SE f f') (hg : ∀ a, SE (g a) (g' a)) : SE (f >>= g) (f' >>= g') := by
  refine ⟨fun s s' h => ?_⟩
  obtain ⟨r1, c1, n1, a1, b1⟩ := hf.run s s' h
  obtain ⟨r2, c2, n2, a2, b2⟩ := (hg (f s).1).run (f s).2 (f' s').2 c1
  have e1 : (f >>= g) s = g (f s).1 (f s).2 := rfl
  have e2 : (f' >>= g') s' = g' (f' s').1 (f' s').2 := rfl
  rw [e1, e2, ← r1]
  refine ⟨r2, c2, n1 ++ n2, ?_, ?_⟩
  · rw [a2, a1, List.append_assoc]
  · rw [b2, b1, List.append_assoc]

theorem SE.get_bind {γ : Type} {g g' : BP α → P α γ}
    (hg : ∀ s0 s0', s0.core = s0'.core → SE (g s0) (g' s0')) :
    SE ((get : P α (BP α)) >>= g) ((get : P α (BP α)) >>= g') :=
  ⟨fun s s' h => (hg s s' h).run s s' h⟩

theorem SE.modify (k : BP α → BP α) (h : ∀ s s', s.core = s'.core → (k s).core = (k s').core)
    (he : ∀ s, (k s).evs = s.evs) :
    SE (α := α) (modify k : P α Unit) (modify k : P α Unit) :=
  ⟨fun s s' hc => ⟨rfl, h s s' hc, [], by show (k s).evs.toList = _; rw [he]; simp,
    by show (k s').evs.toList = _; rw [he]; simp⟩⟩

syntax "se_leaf" : tactic
macro_rules | `(tactic| se_leaf) => `(tactic| with_reducible exact SE.pure _)
macro_rules | `(tactic| se_leaf) => `(tactic| assumption)

macro "se" : tactic => `(tactic| repeat' (first
  | intro _
  | se_leaf
  | dsimp only
  | with_reducible apply SE.bind
  | split))

theorem se_panicWith (site : String) : SE (α := α) (panicWith site) (panicWith site) := by
  unfold panicWith
  apply SE.modify
  · intro s s' h
    have e : ∀ s : BP α, (if s.panic.isNone then { s with panic := some site } else s).core = s.core := by
      intro s; split <;> rfl
    rw [e, e]; exact h
  · intro s; split <;> rfl
macro_rules | `(tactic| se_leaf) => `(tactic| with_reducible exact se_panicWith _)

theorem se_pushEv (e : Ev α) : SE (α := α) (pushEv e) (pushEv e) :=
  ⟨fun s s' h => ⟨rfl, h, [e], by show (s.evs.push e).toList = _; simp,
    by show (s'.evs.push e).toList = _; simp⟩⟩
theorem se_perr (k : String) (l : List Span) : SE (α := α) (perr k l) (perr k l) := se_pushEv _
theorem se_pwarn (k : String) (l : List Span) : SE (α := α) (pwarn k l) (pwarn k l) := se_pushEv _
macro_rules | `(tactic| se_leaf) => `(tactic| with_reducible exact se_perr _ _)
macro_rules | `(tactic| se_leaf) => `(tactic| with_reducible exact se_pwarn _ _)

theorem se_restToks : SE (α := α) restToks restToks := by
  unfold restToks
  apply SE.get_bind
  intro s0 s0' h
  obtain ⟨h1, h2, _, _⟩ := core_eq h
  rw [h1, h2]; exact SE.pure _
macro_rules | `(tactic| se_leaf) => `(tactic| with_reducible exact se_restToks)

theorem se_peekK : SE (α := α) peekK peekK := by
  unfold peekK
  apply SE.get_bind
  intro s0 s0' h
  obtain ⟨h1, h2, _, _⟩ := core_eq h
  rw [h1, h2]; exact SE.pure _
macro_rules | `(tactic| se_leaf) => `(tactic| with_reducible exact se_peekK)
theorem se_atK (k : TK) : SE (α := α) (atK k) (atK k) := by unfold atK; se
macro_rules | `(tactic| se_leaf) => `(tactic| with_reducible exact se_atK _)

theorem se_nextToken : SE (α := α) nextToken nextToken := by
  refine ⟨fun s s' h => ?_⟩
  obtain ⟨h1, h2, h3, h4⟩ := core_eq h
  simp only [nextToken, bind, StateT.bind, get, getThe, MonadStateOf.get, StateT.get, set, pure]
  rw [← h1, ← h2]
  cases s.toks[s.cur]? with
  | none => exact ⟨rfl, h, [], by rw [List.append_nil]; rfl, by rw [List.append_nil]; rfl⟩
  | some t =>
    refine ⟨rfl, ?_, [], by rw [List.append_nil]; rfl, by rw [List.append_nil]; rfl⟩
    simp [BP.core, StateT.bind, StateT.set, StateT.pure, h3, h4]
    exact ⟨rfl, rfl, rfl, rfl⟩
macro_rules | `(tactic| se_leaf) => `(tactic| with_reducible exact se_nextToken)

theorem se_bumpAny : SE (α := α) bumpAny bumpAny := by unfold bumpAny; se
macro_rules | `(tactic| se_leaf) => `(tactic| with_reducible exact se_bumpAny)
theorem se_bump (k : TK) : SE (α := α) (bump k) (bump k) := by unfold bump; se
macro_rules | `(tactic| se_leaf) => `(tactic| with_reducible exact se_bump _)
theorem se_consumeK (k : TK) : SE (α := α) (consumeK k) (consumeK k) := by unfold consumeK; se
macro_rules | `(tactic| se_leaf) => `(tactic| with_reducible exact se_consumeK _)

theorem se_addCur (n : Nat) : SE (α := α) (modify fun s => { s with cur := s.cur + n } : P α Unit)
    (modify fun s => { s with cur := s.cur + n }) := by
  apply SE.modify
  · core_tac
  · intro s; rfl
macro_rules | `(tactic| se_leaf) => `(tactic| with_reducible exact se_addCur _)

theorem se_untilK (f : TK → Bool) : SE (α := α) (untilK f) (untilK f) := by unfold untilK; se
macro_rules | `(tactic| se_leaf) => `(tactic| with_reducible exact se_untilK _)
theorem se_consumeRest : SE (α := α) consumeRest consumeRest := by unfold consumeRest; se
macro_rules | `(tactic| se_leaf) => `(tactic| with_reducible exact se_consumeRest)
theorem se_tokensSpanP (site : String) (ts : List Tok) : SE (α := α) (tokensSpanP site ts) (tokensSpanP site ts) := by
  unfold tokensSpanP; se
macro_rules | `(tactic| se_leaf) => `(tactic| with_reducible exact se_tokensSpanP _ _)

theorem se_baseOffset : SE (α := α) baseOffset baseOffset := by
  unfold baseOffset
  apply SE.get_bind
  intro s0 s0' h
  obtain ⟨h1, _, _, _⟩ := core_eq h
  rw [h1]; exact SE.pure _
macro_rules | `(tactic| se_leaf) => `(tactic| with_reducible exact se_baseOffset)

theorem se_currentOffset : SE (α := α) currentOffset currentOffset := by
  unfold currentOffset
  apply SE.get_bind
  intro s0 s0' h
  obtain ⟨h1, h2, _, _⟩ := core_eq h
  rw [h1, h2]; se
macro_rules | `(tactic| se_leaf) => `(tactic| with_reducible exact se_currentOffset)

theorem se_bpSpan : SE (α := α) bpSpan bpSpan := by
  unfold bpSpan
  apply SE.get_bind
  intro s0 s0' h
  obtain ⟨h1, _, _, _⟩ := core_eq h
  rw [h1]; se
macro_rules | `(tactic| se_leaf) => `(tactic| with_reducible exact se_bpSpan)

theorem se_bpText (o : Nat) (ts : List Tok) : SE (α := α) (bpText o ts) (bpText o ts) := by unfold bpText; se
macro_rules | `(tactic| se_leaf) => `(tactic| with_reducible exact se_bpText _ _)

theorem se_metadataEntry : SE (α := α) (metadataEntry (α := α)) metadataEntry := by
  unfold metadataEntry
  repeat' (first
    | intro _
    | se_leaf
    | dsimp only
    | (with_reducible apply SE.get_bind
       intro s0 s0' h
       have hcs := (core_eq h).2.2.2
       simp only [hcs])
    | with_reducible apply SE.bind
    | split)

/-! ### one block -/

/-- the events `metadata_entry` pushes while it parses a block (a function of the block alone) -/
def entryEvs (cs : CharSpec) (ext : Ext) (b : List Tok) : List (Ev α) :=
  (metadataEntry (α := α) ⟨b, 0, ext, cs, #[], none⟩).2.evs.toList

/-- what a `>>` block contributes to the metadata trace: the metadata diagnostics `metadata_entry`
    pushes, then the entry itself (if one was parsed) -/
def entryTrace (cs : CharSpec) (ext : Ext) (b : List Tok) : List (Ev α) :=
  (entryEvs (α := α) cs ext b).filter Ev.isTrace ++ (entryOf (α := α) cs ext b).toList

theorem entryEvs_indep (cs : CharSpec) (ext : Ext) (b : List Tok) (evs : Array (Ev α)) (p : Option String) :
    (metadataEntry (α := α) ⟨b, 0, ext, cs, evs, p⟩).2.evs.toList = evs.toList ++ entryEvs cs ext b := by
  obtain ⟨_, _, new, h1, h2⟩ := se_metadataEntry.run (⟨b, 0, ext, cs, evs, p⟩ : BP α) ⟨b, 0, ext, cs, #[], none⟩ rfl
  have : new = entryEvs (α := α) cs ext b := by
    unfold entryEvs; rw [h2]; simp
  rw [← this]; exact h1

theorem traceOf_of_toList (a b : Array (Ev α)) (new : List (Ev α)) (h : a.toList = b.toList ++ new) :
    traceOf a = traceOf b ++ new.filter Ev.isTrace := by
  unfold traceOf; rw [h, List.filter_append]

/-- `metadata_entry` returns a `Metadata` event or nothing (any state) -/
theorem metadataEntry_ret (s : BP α) : ∀ ev, (metadataEntry (α := α) s).1 = some ev → ∃ k v, ev = .metadata k v :=
  ((mf_metadataEntry_ret (α := α)).run s).2

theorem runMetaBlock_trace (cs : CharSpec) (ext : Ext) (b : List Tok) (evs : Array (Ev α)) (p : Option String)
    (hb : b ≠ []) :
    traceOf (runMetaBlock (α := α) cs ext b evs p).1 = traceOf evs ++ entryTrace (α := α) cs ext b := by
  have hne : b.isEmpty = false := by cases b with | nil => contradiction | cons _ _ => rfl
  have hevs := entryEvs_indep (α := α) cs ext b evs p
  have hret := metadataEntry_ret (α := α) ⟨b, 0, ext, cs, evs, p⟩
  unfold entryTrace
  rw [← entry_indep cs ext b evs p]
  unfold runMetaBlock
  simp only [hne, Bool.false_eq_true, if_false, bind, StateT.bind, pure]
  rcases hme : metadataEntry (α := α) ⟨b, 0, ext, cs, evs, p⟩ with ⟨r, s1⟩
  rw [hme] at hevs hret
  cases r with
  | none =>
    simp only [Option.toList, List.append_nil]
    exact traceOf_of_toList _ _ _ hevs
  | some ev =>
    obtain ⟨k, v, rfl⟩ := hret _ rfl
    have : ∀ s : BP α, ((StateT.bind (pushEv (.metadata k v)) fun _ => StateT.bind get fun s : BP α =>
        if s.cur ≠ s.toks.length then panicWith "Block tokens not parsed" else StateT.pure ()) s).2.evs
        = s.evs.push (.metadata k v) := by
      intro s
      show ((if s.cur ≠ s.toks.length then panicWith "Block tokens not parsed" else StateT.pure ())
        ({ s with evs := s.evs.push (.metadata k v) } : BP α)).2.evs = _
      split
      · exact panicWith_evs _ _
      · rfl
    simp only [this, traceOf_push, Option.toList]
    rw [traceOf_of_toList _ _ _ hevs, List.append_assoc]
    rfl

/-- in the full parser with `old_style_metadata`, a block starting with `>>` adds to the trace what
    `metadata_entry` pushed and the entry it returned; if it returned none, the block is parsed again
    as a step / text block, which adds nothing to the trace -/
theorem parseBlock_meta_head_trace (s0 : BP α) (hk : (s0.toks[s0.cur]?).map (·.kind) = some .metaStart) :
    traceOf (parseBlock (α := α) true s0).2.evs =
      traceOf (metadataEntry (α := α) s0).2.evs ++ (metadataEntry (α := α) s0).1.toList := by
  unfold parseBlock
  simp only [bind, StateT.bind, peekK_run, hk]
  have hret := metadataEntry_ret (α := α) s0
  rcases hme : metadataEntry (α := α) s0 with ⟨e, s1⟩
  rw [hme] at hret
  have hother : ∀ s : BP α, traceOf s.evs = traceOf s1.evs →
      traceOf ((match ((none : Option (Ev α)), s) with
        | (a, s) => (match a with
          | some ev => pushEv ev
          | none => parseMultilineBlock) s).2.evs) = traceOf s1.evs := by
    intro s hs
    exact ((tf_parseMultilineBlock (α := α)).run s).1.trans hs
  cases e with
  | none =>
    rw [withRecover_none_ma (s2 := s1)]
    · simpa [Option.toList] using hother { s1 with cur := s0.cur } rfl
    · simp only [StateT.bind, hme]; rfl
  | some ev =>
    obtain ⟨k, v, rfl⟩ := hret ev rfl
    rw [withRecover_some_ma (s2 := s1) (a := .metadata k v)]
    · show traceOf (s1.evs.push (.metadata k v)) = _
      rw [traceOf_push]; rfl
    · simp only [StateT.bind, hme, Bool.or_true, if_true]; rfl

theorem parseBlock_tail_notrace (X : P α (Option (Ev α))) (hX : TF NT X) (s0 : BP α) :
    traceOf ((match X s0 with
      | (a, s) => (match a with
        | some ev => pushEv ev
        | none => parseMultilineBlock) s).2.evs) = traceOf s0.evs := by
  obtain ⟨h1, h2⟩ := hX.run s0
  rcases hx : X s0 with ⟨a, s⟩
  rw [hx] at h1 h2
  cases a with
  | none => exact ((tf_parseMultilineBlock (α := α)).run s).1.trans h1
  | some ev => exact ((tf_pushEv ev (h2 ev rfl)).run s).1.trans h1

/-- a block that does not start with `>>` (step, text, section) adds nothing to the trace -/
theorem parseBlock_other_head_trace (o : Bool) (s0 : BP α)
    (hk : (s0.toks[s0.cur]?).map (·.kind) ≠ some .metaStart) :
    traceOf (parseBlock (α := α) o s0).2.evs = traceOf s0.evs := by
  unfold parseBlock
  simp only [bind, StateT.bind, peekK_run]
  generalize (s0.toks[s0.cur]?).map (·.kind) = k0 at hk
  have hnone : TF (α := α) NT (pure (none : Option (Ev α))) := TF.pure _ (by intro ev h; cases h)
  cases k0 with
  | none => exact parseBlock_tail_notrace _ hnone s0
  | some k =>
    cases k <;> first
      | exact absurd rfl hk
      | exact parseBlock_tail_notrace _ (tf_withRecover tf_sectionP) s0
      | exact parseBlock_tail_notrace _ hnone s0

theorem runBlock_trace (cs : CharSpec) (ext : Ext) (b : List Tok) (evs : Array (Ev α)) (p : Option String)
    (hb : b ≠ []) :
    traceOf (runBlock (α := α) cs ext true b evs p).1 =
      traceOf evs ++ (if isMetaBlock b then entryTrace (α := α) cs ext b else []) := by
  rw [runBlock_evs cs ext true b evs p hb]
  cases hm : isMetaBlock b with
  | true =>
    obtain ⟨t, r, e, hk⟩ := isMetaBlock_true b hm
    subst e
    rw [parseBlock_meta_head_trace _ (by simp [hk]), entry_indep,
      traceOf_of_toList _ _ _ (entryEvs_indep (α := α) cs ext (t :: r) evs p), List.append_assoc]
    rfl
  | false =>
    rw [parseBlock_other_head_trace]
    · simp
    · cases b with
      | nil => contradiction
      | cons t r =>
        have : t.kind ≠ .metaStart := by
          intro hk; simp [isMetaBlock, hk] at hm
        simpa using this

theorem fold_trace_agree (cs : CharSpec) (ext : Ext) : ∀ (bs : List (List Tok)), (∀ b ∈ bs, b ≠ []) →
    ∀ (acc acc' : Array (Ev α) × Option String), traceOf acc.1 = traceOf acc'.1 →
    traceOf (bs.foldl (fun acc b => runBlock (α := α) cs ext true b acc.1 acc.2) acc).1 =
    traceOf ((bs.filter isMetaBlock).foldl (fun acc b => runMetaBlock (α := α) cs ext b acc.1 acc.2) acc').1 := by
  intro bs
  induction bs with
  | nil => intro _ acc acc' h; exact h
  | cons b bs ih =>
    intro hne acc acc' h
    have hb : b ≠ [] := hne b (List.mem_cons_self ..)
    have hbs : ∀ b' ∈ bs, b' ≠ [] := fun b' hb' => hne b' (List.mem_cons_of_mem _ hb')
    simp only [List.foldl_cons, List.filter_cons]
    have h1 := runBlock_trace cs ext b acc.1 acc.2 hb
    cases hm : isMetaBlock b with
    | true =>
      simp only [if_true, List.foldl_cons]
      apply ih hbs
      rw [h1, hm, runMetaBlock_trace cs ext b acc'.1 acc'.2 hb, h]
      rfl
    | false =>
      simp only [Bool.false_eq_true, if_false]
      apply ih hbs
      rw [h1, hm]
      simpa using h

/-- without front matter, the metadata trace — `Metadata` events AND error/warning events of the
    kinds `metadata-invalid`, `empty-metadata-key`, `empty-metadata-value`, interleaved as emitted —
    of the full pull parser is exactly the one of the metadata-only pull parser -/
theorem metadata_trace_agree (cs : CharSpec) (ext : Ext) (input : List Char)
    (h : parseFrontmatter cs input = none) :
    traceOf (pullEvents (α := α) cs ext input).1 = traceOf (pullMetaEvents (α := α) cs ext input).1 := by
  unfold pullEvents pullMetaEvents
  simp only [h]
  have e := blocks_meta_eq (lex cs input).length (lex cs input) (Nat.le_refl _)
  unfold metaBlocksOf at e
  rw [e]
  apply fold_trace_agree
  · intro b hb
    exact (blocks_all_infix _ _ b hb).1
  · rfl

end Cook
