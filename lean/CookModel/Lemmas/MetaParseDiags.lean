import CookModel.Lemmas.MetaAgree
/-
  C14, PARSE-stage diagnostics about metadata (`metadata-invalid`, `empty-metadata-key`,
  `empty-metadata-value`): only `metadata_entry` pushes a diagnostic of one of these kinds.  Third
  clone of the sweep of `ParserMeta.lean`, with the filter "metadata-carrying event OR error/warning
  event of one of the three kinds" (`Ev.isTrace`): every other block parser leaves the trace of the
  event queue unchanged.
-/
set_option linter.unusedSectionVars false
namespace Cook
variable {α : Type} [Arith α]

/-- the kinds of the parse-stage diagnostics about `>>` metadata lines (src/parser/metadata.rs) -/
def parseMetaKind (k : String) : Bool :=
  k == "metadata-invalid" || k == "empty-metadata-key" || k == "empty-metadata-value"

/-- a parse-stage diagnostic about a metadata line -/
def Diag.isParseMeta (d : Diag) : Bool := d.stage == .parse && parseMetaKind d.kind

/-- an event of the metadata trace: `Metadata`, front matter, or an error/warning event whose
    diagnostic is of one of the three metadata kinds -/
def Ev.isTrace : Ev α → Bool
  | .metadata _ _ => true
  | .frontMatter _ => true
  | .error d => parseMetaKind d.kind
  | .warning d => parseMetaKind d.kind
  | _ => false

/-- the metadata trace of an event queue, in order -/
def traceOf (evs : Array (Ev α)) : List (Ev α) := evs.toList.filter Ev.isTrace

theorem traceOf_push (evs : Array (Ev α)) (e : Ev α) :
    traceOf (evs.push e) = traceOf evs ++ (if e.isTrace then [e] else []) := by
  unfold traceOf
  rw [Array.toList_push, List.filter_append]
  cases h : e.isTrace <;> simp [List.filter, h]

/-! ### kinds built by string interpolation, kinds of the number reader -/

theorem mpd_pfx_ne (p c k : String) (hp : ¬ p.toList <+: k.toList) : (p ++ c == k) = false := by
  rw [beq_eq_false_iff_ne]
  intro e
  apply hp
  rw [← e]
  simp [String.toList_append]

/-- a kind `s!"<prefix>{c}"` whose prefix is not a prefix of any of the three kinds -/
theorem mpd_pfx_kind (p c : String) (h1 : ¬ p.toList <+: "metadata-invalid".toList)
    (h2 : ¬ p.toList <+: "empty-metadata-key".toList) (h3 : ¬ p.toList <+: "empty-metadata-value".toList) :
    parseMetaKind (p ++ c) = false := by
  simp only [parseMetaKind, Bool.or_eq_false_iff]
  exact ⟨⟨mpd_pfx_ne _ _ _ h1, mpd_pfx_ne _ _ _ h2⟩, mpd_pfx_ne _ _ _ h3⟩

/-- a result whose error (if any) is not a metadata diagnostic -/
def NK {β : Type} (r : Except Diag β) : Prop := ∀ e, r = .error e → parseMetaKind e.kind = false

theorem mpd_parseU32 (t : Tok) : NK (parseU32 t) := by
  intro e h
  unfold parseU32 at h
  dsimp only at h
  split at h
  · cases h
  · cases h; show parseMetaKind "int-parse" = false; decide

theorem mpd_fracNum (a b : Tok) : NK (fracNum (α := α) a b) := by
  intro e h
  unfold fracNum at h
  split at h
  · rename_i e' h1; cases h; exact mpd_parseU32 a e h1
  · split at h
    · rename_i e' h2; cases h; exact mpd_parseU32 b e h2
    · split at h
      · cases h; show parseMetaKind "division-by-zero" = false; decide
      · cases h

theorem mpd_mixedNum (i a b : Tok) : NK (mixedNum (α := α) i a b) := by
  intro e h
  unfold mixedNum at h
  split at h
  · rename_i e' h1; cases h; exact mpd_parseU32 i e h1
  · split at h
    · rename_i e' h2; cases h; exact mpd_fracNum a b e h2
    · cases h
    · cases h

theorem mpd_map_number {r : Except Diag (Number α)} (h : NK r) : NK (r.map Value.number) := by
  intro e he
  cases r with
  | error e' => simp [Except.map] at he; subst he; exact h e' rfl
  | ok v => simp [Except.map] at he

/-- an optional result whose error (if any) is not a metadata diagnostic -/
def NKO {β : Type} (r : Option (Except Diag β)) : Prop := ∀ e, r = some (.error e) → parseMetaKind e.kind = false

theorem nko_none {β : Type} : NKO (none : Option (Except Diag β)) := by intro e h; cases h
theorem nko_some {β : Type} {r : Except Diag β} (h : NK r) : NKO (some r) := by
  intro e he; cases he; exact h e rfl
theorem nko_ok {β : Type} (v : β) : NKO (some (.ok v : Except Diag β)) := by intro e h; cases h

theorem mpd_numericValue (ts : List Tok) : NKO (numericValue (α := α) ts) := by
  unfold numericValue
  dsimp only
  repeat' (first
    | exact nko_none
    | exact nko_ok _
    | exact nko_some (mpd_map_number (mpd_fracNum _ _))
    | exact nko_some (mpd_map_number (mpd_mixedNum _ _ _))
    | split)

theorem mpd_rangeValue (r : Bool) (ts : List Tok) : NKO (rangeValue (α := α) r ts) := by
  unfold rangeValue
  dsimp only
  repeat' (first
    | exact nko_none
    | exact nko_ok _
    | (rename_i e h; exact nko_some (fun e' he' => by cases he'; exact mpd_numericValue _ e h))
    | split)

theorem mpd_numOrRange (r : Bool) (ts : List Tok) : NKO (numOrRange (α := α) r ts) := by
  unfold numOrRange
  split
  · rename_i x h; rw [← h]; exact mpd_rangeValue r ts
  · exact mpd_numericValue ts

/-! ### the sweep -/

/-- `f` adds no metadata event to the queue, and its result satisfies `Q` -/
structure TF {β : Type} (Q : β → Prop) (f : P α β) : Prop where
  run : ∀ s, traceOf (f s).2.evs = traceOf s.evs ∧ Q (f s).1

theorem TF.pure {β : Type} {Q : β → Prop} (a : β) (h : Q a) : TF (α := α) Q (pure a) :=
  ⟨fun _ => ⟨rfl, h⟩⟩

theorem TF.bind {β γ : Type} {Q : β → Prop} {R : γ → Prop} {f : P α β} {g : β → P α γ}
    (hf : TF Q f) (hg : ∀ a, Q a → TF R (g a)) : TF R (f >>= g) := by
  refine ⟨fun s => ?_⟩
  have h1 := hf.run s
  have h2 := (hg (f s).1 h1.2).run (f s).2
  exact ⟨h2.1.trans h1.1, h2.2⟩

theorem TF.bind0 {β γ : Type} {R : γ → Prop} {f : P α β} {g : β → P α γ}
    (hf : TF (fun _ => True) f) (hg : ∀ a, TF R (g a)) : TF R (f >>= g) :=
  TF.bind hf (fun a _ => hg a)

theorem TF.weaken {β : Type} {Q R : β → Prop} {f : P α β} (hf : TF Q f) (h : ∀ a, Q a → R a) : TF R f :=
  ⟨fun s => ⟨(hf.run s).1, h _ (hf.run s).2⟩⟩

theorem TF.triv {β : Type} {Q : β → Prop} {f : P α β} (hf : TF Q f) : TF (fun _ => True) f :=
  hf.weaken (fun _ _ => trivial)

theorem TF.get : TF (α := α) (fun _ => True) (get : P α (BP α)) := ⟨fun _ => ⟨rfl, trivial⟩⟩

theorem TF.modify (k : BP α → BP α) (h : ∀ s, (k s).evs = s.evs) :
    TF (α := α) (fun _ => True) (modify k : P α Unit) := ⟨fun s => ⟨by show traceOf (k s).evs = _; rw [h], trivial⟩⟩

syntax "tf_leaf" : tactic
macro_rules | `(tactic| tf_leaf) => `(tactic| with_reducible exact TF.get)
macro_rules | `(tactic| tf_leaf) => `(tactic| with_reducible exact TF.pure _ trivial)
macro_rules | `(tactic| tf_leaf) => `(tactic| assumption)

/-- structural decomposition of a `do` block -/
macro "tf" : tactic => `(tactic| repeat' (first
  | intro _
  | tf_leaf
  | dsimp only
  | with_reducible apply TF.bind0
  | split))

theorem tf_panicWith (site : String) : TF (α := α) (fun _ => True) (panicWith site) := by
  unfold panicWith
  apply TF.modify
  intro s; split <;> rfl
macro_rules | `(tactic| tf_leaf) => `(tactic| with_reducible exact tf_panicWith _)

theorem tf_pushEv (e : Ev α) (h : e.isTrace = false) : TF (α := α) (fun _ => True) (pushEv e) := by
  refine ⟨fun s => ⟨?_, trivial⟩⟩
  show traceOf (s.evs.push e) = _
  rw [traceOf_push, h]; simp

/-- an error / a warning of another kind leaves the trace alone -/
theorem tf_perr (k : String) (l : List Span) (hk : parseMetaKind k = false) :
    TF (α := α) (fun _ => True) (perr k l) := tf_pushEv _ hk
theorem tf_pwarn (k : String) (l : List Span) (hk : parseMetaKind k = false) :
    TF (α := α) (fun _ => True) (pwarn k l) := tf_pushEv _ hk
macro_rules | `(tactic| tf_leaf) => `(tactic| with_reducible exact tf_perr _ _ (by decide))
macro_rules | `(tactic| tf_leaf) => `(tactic| with_reducible exact tf_pwarn _ _ (by decide))
macro_rules | `(tactic| tf_leaf) => `(tactic| with_reducible exact tf_perr _ _ (mpd_pfx_kind _ _ (by decide) (by decide) (by decide)))
/-- the error of the number reader -/
theorem tf_pushNumErr (r : Bool) (ts : List Tok) (e : Diag) (h : numOrRange (α := α) r ts = some (.error e)) :
    TF (α := α) (fun _ => True) (pushEv (.error e)) := tf_pushEv _ (mpd_numOrRange r ts e h)
macro_rules | `(tactic| tf_leaf) => `(tactic| with_reducible exact tf_pushNumErr _ _ _ ‹_›)

theorem tf_hasExt (f : Nat) : TF (α := α) (fun _ => True) (hasExt f) := by unfold hasExt; tf
macro_rules | `(tactic| tf_leaf) => `(tactic| with_reducible exact tf_hasExt _)
theorem tf_restToks : TF (α := α) (fun _ => True) restToks := by unfold restToks; tf
macro_rules | `(tactic| tf_leaf) => `(tactic| with_reducible exact tf_restToks)
theorem tf_allToks : TF (α := α) (fun _ => True) allToks := by unfold allToks; tf
macro_rules | `(tactic| tf_leaf) => `(tactic| with_reducible exact tf_allToks)
theorem tf_getCur : TF (α := α) (fun _ => True) getCur := by unfold getCur; tf
macro_rules | `(tactic| tf_leaf) => `(tactic| with_reducible exact tf_getCur)
theorem tf_setCur (c : Nat) : TF (α := α) (fun _ => True) (setCur c) := by
  unfold setCur; exact TF.modify _ (fun _ => rfl)
macro_rules | `(tactic| tf_leaf) => `(tactic| with_reducible exact tf_setCur _)
theorem tf_tokensSpanP (site : String) (ts : List Tok) : TF (α := α) (fun _ => True) (tokensSpanP site ts) := by
  unfold tokensSpanP; tf
macro_rules | `(tactic| tf_leaf) => `(tactic| with_reducible exact tf_tokensSpanP _ _)
theorem tf_baseOffset : TF (α := α) (fun _ => True) baseOffset := by unfold baseOffset; tf
macro_rules | `(tactic| tf_leaf) => `(tactic| with_reducible exact tf_baseOffset)
theorem tf_currentOffset : TF (α := α) (fun _ => True) currentOffset := by unfold currentOffset; tf
macro_rules | `(tactic| tf_leaf) => `(tactic| with_reducible exact tf_currentOffset)
theorem tf_bpSpan : TF (α := α) (fun _ => True) bpSpan := by unfold bpSpan; tf
macro_rules | `(tactic| tf_leaf) => `(tactic| with_reducible exact tf_bpSpan)
theorem tf_peekK : TF (α := α) (fun _ => True) peekK := by unfold peekK; tf
macro_rules | `(tactic| tf_leaf) => `(tactic| with_reducible exact tf_peekK)
theorem tf_atK (k : TK) : TF (α := α) (fun _ => True) (atK k) := by unfold atK; tf
macro_rules | `(tactic| tf_leaf) => `(tactic| with_reducible exact tf_atK _)

theorem tf_nextToken : TF (α := α) (fun _ => True) nextToken := by
  refine ⟨fun s => ⟨?_, trivial⟩⟩
  simp only [nextToken, bind, StateT.bind, get, getThe, MonadStateOf.get, StateT.get, set, pure]
  cases s.toks[s.cur]? <;> rfl
macro_rules | `(tactic| tf_leaf) => `(tactic| with_reducible exact tf_nextToken)

theorem tf_bumpAny : TF (α := α) (fun _ => True) bumpAny := by unfold bumpAny; tf
macro_rules | `(tactic| tf_leaf) => `(tactic| with_reducible exact tf_bumpAny)
theorem tf_bump (k : TK) : TF (α := α) (fun _ => True) (bump k) := by unfold bump; tf
macro_rules | `(tactic| tf_leaf) => `(tactic| with_reducible exact tf_bump _)

theorem tf_modCur (k : BP α → Nat) : TF (α := α) (fun _ => True) (modify fun s => { s with cur := k s } : P α Unit) :=
  TF.modify _ (fun _ => rfl)

theorem tf_untilK (f : TK → Bool) : TF (α := α) (fun _ => True) (untilK f) := by
  unfold untilK; tf
  exact TF.modify _ (fun _ => rfl)
macro_rules | `(tactic| tf_leaf) => `(tactic| with_reducible exact tf_untilK _)
theorem tf_consumeWhile (f : TK → Bool) : TF (α := α) (fun _ => True) (consumeWhile f) := by
  unfold consumeWhile; tf
  exact TF.modify _ (fun _ => rfl)
macro_rules | `(tactic| tf_leaf) => `(tactic| with_reducible exact tf_consumeWhile _)
theorem tf_wsComments : TF (α := α) (fun _ => True) wsComments := tf_consumeWhile _
macro_rules | `(tactic| tf_leaf) => `(tactic| with_reducible exact tf_wsComments)
theorem tf_consumeK (k : TK) : TF (α := α) (fun _ => True) (consumeK k) := by unfold consumeK; tf
macro_rules | `(tactic| tf_leaf) => `(tactic| with_reducible exact tf_consumeK _)
theorem tf_consumeRest : TF (α := α) (fun _ => True) consumeRest := by
  unfold consumeRest; tf
  exact TF.modify _ (fun _ => rfl)
macro_rules | `(tactic| tf_leaf) => `(tactic| with_reducible exact tf_consumeRest)

theorem tf_withRecover {β : Type} {Q : Option β → Prop} {f : P α (Option β)} (hf : TF Q f) :
    TF Q (withRecover f) := by
  unfold withRecover
  apply TF.bind0 tf_getCur
  intro old
  apply TF.bind hf
  intro r hr
  dsimp only
  split
  · apply TF.bind0 (tf_setCur _)
    intro _; exact TF.pure _ hr
  · exact TF.pure _ hr
macro_rules | `(tactic| tf_leaf) => `(tactic| with_reducible apply tf_withRecover)

theorem tf_bpText (o : Nat) (ts : List Tok) : TF (α := α) (fun _ => True) (bpText o ts) := by unfold bpText; tf
macro_rules | `(tactic| tf_leaf) => `(tactic| with_reducible exact tf_bpText _ _)

theorem tf_scalingLock : TF (α := α) (fun _ => True) scalingLock := by unfold scalingLock; tf
macro_rules | `(tactic| tf_leaf) => `(tactic| with_reducible exact tf_scalingLock)
theorem tf_textValue (ts : List Tok) (o : Nat) : TF (α := α) (fun _ => True) (textValue (α := α) ts o) := by
  unfold textValue; tf
macro_rules | `(tactic| tf_leaf) => `(tactic| with_reducible exact tf_textValue _ _)

macro_rules | `(tactic| tf_leaf) => `(tactic| (with_reducible refine tf_pushEv _ ?_) <;> rfl)

theorem tf_get_set {β : Type} {Q : β → Prop} (upd : BP α → BP α) (hupd : ∀ s, (upd s).evs = s.evs)
    (g : BP α → PUnit → P α β) (hg : ∀ o u, TF Q (g o u)) :
    TF Q ((get : P α (BP α)) >>= fun o => (set (upd o) : P α PUnit) >>= g o) := by
  refine ⟨fun s => ?_⟩
  have := (hg s ⟨⟩).run (upd s)
  rw [hupd] at this
  exact this

theorem tf_parseValue (ts : List Tok) : TF (α := α) (fun _ => True) (parseValue (α := α) ts) := by
  unfold parseValue; tf
macro_rules | `(tactic| tf_leaf) => `(tactic| with_reducible exact tf_parseValue _)
theorem tf_qvalue : TF (α := α) (fun _ => True) (qvalue (α := α)) := by unfold qvalue; tf
macro_rules | `(tactic| tf_leaf) => `(tactic| with_reducible exact tf_qvalue)
theorem tf_parseRegularQuantity : TF (α := α) (fun _ => True) (parseRegularQuantity (α := α)) := by
  unfold parseRegularQuantity; tf
macro_rules | `(tactic| tf_leaf) => `(tactic| with_reducible exact tf_parseRegularQuantity)
theorem tf_parseAdvancedQuantity : TF (α := α) (fun _ => True) (parseAdvancedQuantity (α := α)) := by
  unfold parseAdvancedQuantity; tf
macro_rules | `(tactic| tf_leaf) => `(tactic| with_reducible exact tf_parseAdvancedQuantity)

theorem tf_parseQuantity (ts : List Tok) : TF (α := α) (fun _ => True) (parseQuantity (α := α) ts) := by
  unfold parseQuantity
  dsimp only
  split
  · apply TF.bind0 (tf_panicWith _)
    intro _
    apply tf_get_set (upd := fun o => { o with toks := ts, cur := 0 }) (fun _ => rfl)
    intro o u
    tf
    exact TF.modify _ (fun _ => rfl)
  · apply tf_get_set (upd := fun o => { o with toks := ts, cur := 0 }) (fun _ => rfl)
    intro o u
    tf
    exact TF.modify _ (fun _ => rfl)
macro_rules | `(tactic| tf_leaf) => `(tactic| with_reducible exact tf_parseQuantity _)

theorem tf_compBodyLong : TF (α := α) (fun _ => True) (compBodyLong (α := α)) := by unfold compBodyLong; tf
macro_rules | `(tactic| tf_leaf) => `(tactic| with_reducible exact tf_compBodyLong)
theorem tf_compBodyShort : TF (α := α) (fun _ => True) (compBodyShort (α := α)) := by unfold compBodyShort; tf
macro_rules | `(tactic| tf_leaf) => `(tactic| with_reducible exact tf_compBodyShort)
theorem tf_compBody : TF (α := α) (fun _ => True) (compBody (α := α)) := by unfold compBody; tf
macro_rules | `(tactic| tf_leaf) => `(tactic| with_reducible exact tf_compBody)

theorem tf_modifiersLoop (inter : Bool) (fuel : Nat) : TF (α := α) (fun _ => True) (modifiersLoop (α := α) inter fuel) := by
  induction fuel with
  | zero => unfold modifiersLoop; tf
  | succ n ih => unfold modifiersLoop; tf
macro_rules | `(tactic| tf_leaf) => `(tactic| with_reducible exact tf_modifiersLoop _ _)
theorem tf_modifiersP : TF (α := α) (fun _ => True) (modifiersP (α := α)) := by unfold modifiersP; tf
macro_rules | `(tactic| tf_leaf) => `(tactic| with_reducible exact tf_modifiersP)
theorem tf_noteP : TF (α := α) (fun _ => True) (noteP (α := α)) := by unfold noteP; tf
macro_rules | `(tactic| tf_leaf) => `(tactic| with_reducible exact tf_noteP)
theorem tf_parseInterRef (ts : List Tok) : TF (α := α) (fun _ => True) (parseInterRef (α := α) ts) := by
  unfold parseInterRef; tf
macro_rules | `(tactic| tf_leaf) => `(tactic| with_reducible exact tf_parseInterRef _)

theorem tf_parseModifiersLoop (span : Span) (ie : Bool) (fuel : Nat) : ∀ (ts : List Tok) (m : Modifiers) (d : Option (Loc InterData)),
    TF (α := α) (fun _ => True) (parseModifiersLoop (α := α) span ie fuel ts m d) := by
  induction fuel with
  | zero => intro ts m d; unfold parseModifiersLoop; tf
  | succ n ih =>
    intro ts m d
    cases ts with
    | nil => unfold parseModifiersLoop; tf
    | cons t r =>
      unfold parseModifiersLoop; tf
      all_goals exact ih _ _ _
macro_rules | `(tactic| tf_leaf) => `(tactic| with_reducible exact tf_parseModifiersLoop _ _ _ _ _ _)
theorem tf_parseModifiers (ts : List Tok) (pos : Nat) : TF (α := α) (fun _ => True) (parseModifiers (α := α) ts pos) := by
  unfold parseModifiers; tf
macro_rules | `(tactic| tf_leaf) => `(tactic| with_reducible exact tf_parseModifiers _ _)
theorem tf_parseAlias (c : String) (ts : List Tok) (o : Nat) : TF (α := α) (fun _ => True) (parseAlias (α := α) c ts o) := by
  unfold parseAlias; tf
macro_rules | `(tactic| tf_leaf) => `(tactic| with_reducible exact tf_parseAlias _ _ _)
theorem tf_checkEmptyName (c : String) (n : Text) : TF (α := α) (fun _ => True) (checkEmptyName (α := α) c n) := by
  unfold checkEmptyName; tf
macro_rules | `(tactic| tf_leaf) => `(tactic| with_reducible exact tf_checkEmptyName _ _)

/-- an optional event that is not a metadata event -/
def NT (r : Option (Ev α)) : Prop := ∀ ev, r = some ev → ev.isTrace = false

macro_rules | `(tactic| tf_leaf) => `(tactic| (with_reducible refine TF.pure _ ?_) <;> (intro ev h; cases h <;> rfl))

theorem tf_ingredientP : TF (α := α) NT (ingredientP (α := α)) := by unfold ingredientP; tf
theorem tf_cookwareP : TF (α := α) NT (cookwareP (α := α)) := by unfold cookwareP; tf
theorem tf_checkNoteTimer : TF (α := α) (fun _ => True) (checkNoteTimer (α := α)) := by unfold checkNoteTimer; tf
macro_rules | `(tactic| tf_leaf) => `(tactic| with_reducible exact tf_checkNoteTimer)
theorem tf_timerP : TF (α := α) NT (timerP (α := α)) := by unfold timerP; tf
macro_rules | `(tactic| tf_leaf) => `(tactic| with_reducible exact tf_ingredientP)
macro_rules | `(tactic| tf_leaf) => `(tactic| with_reducible exact tf_cookwareP)
macro_rules | `(tactic| tf_leaf) => `(tactic| with_reducible exact tf_timerP)

theorem tf_stepOne : TF (α := α) (fun _ => True) (stepOne (α := α)) := by
  unfold stepOne
  apply TF.bind (Q := NT)
  · tf
  · intro comp hc
    split
    · rename_i ev
      exact tf_pushEv _ (hc ev rfl)
    · tf
macro_rules | `(tactic| tf_leaf) => `(tactic| with_reducible exact tf_stepOne)

theorem tf_stepLoop (fuel : Nat) : TF (α := α) (fun _ => True) (stepLoop (α := α) fuel) := by
  induction fuel with
  | zero => unfold stepLoop; tf
  | succ n ih => unfold stepLoop; tf
macro_rules | `(tactic| tf_leaf) => `(tactic| with_reducible exact tf_stepLoop _)
theorem tf_parseStep : TF (α := α) (fun _ => True) (parseStep (α := α)) := by unfold parseStep; tf
macro_rules | `(tactic| tf_leaf) => `(tactic| with_reducible exact tf_parseStep)

theorem tf_textBlockLoop (fuel : Nat) : TF (α := α) (fun _ => True) (textBlockLoop (α := α) fuel) := by
  induction fuel with
  | zero => unfold textBlockLoop; tf
  | succ n ih => unfold textBlockLoop; tf
macro_rules | `(tactic| tf_leaf) => `(tactic| with_reducible exact tf_textBlockLoop _)
theorem tf_parseTextBlock : TF (α := α) (fun _ => True) (parseTextBlock (α := α)) := by unfold parseTextBlock; tf
macro_rules | `(tactic| tf_leaf) => `(tactic| with_reducible exact tf_parseTextBlock)

theorem tf_sectionP : TF (α := α) NT (sectionP (α := α)) := by unfold sectionP; tf
macro_rules | `(tactic| tf_leaf) => `(tactic| with_reducible exact tf_sectionP)
theorem tf_parseMultilineBlock : TF (α := α) (fun _ => True) (parseMultilineBlock (α := α)) := by
  unfold parseMultilineBlock; tf
macro_rules | `(tactic| tf_leaf) => `(tactic| with_reducible exact tf_parseMultilineBlock)

end Cook
