import CookModel.Lemmas.RecipeSimComp
/-
  C17, the lift through the analysis pass (3): step text, blocks, metadata, one event.
-/
set_option linter.unusedSectionVars false
set_option linter.unusedVariables false
set_option linter.unusedSimpArgs false
set_option linter.unnecessarySimpa false
namespace Cook
variable {α : Type} [Arith α] {uws : Char → Bool}

theorem inStepTextStep_arel (env : Env) {t' t : Text} (h : TextSim env.cs.uws t' t) (items : List Item) :
    ARel (α := α) uws (fun _ _ => True) (inStepTextStep env t' items) (inStepTextStep env t items) := by
  unfold inStepTextStep
  apply ARel.bind ARel.get
  intro s' s hs
  simp only [h.text, hs.defineMode, hs.inlineQ]
  apply ARel.ite
  · arel
  · apply ARel.ite
    · apply ARel.modify
      intro c' c hc
      colsim hc
    · apply ARel.modify
      intro c' c hc
      colsim hc

theorem inStepText_arel (env : Env) {t' t : Text} (h : TextSim env.cs.uws t' t) :
    ARel (α := α) uws (fun _ _ => True) (inStepText env t') (inStepText env t) := by
  unfold inStepText
  apply ARel.bind ARel.get
  intro s' s hs
  simp only [h.text, hs.block]
  cases s.block with
  | none => exact ARel.apanic _ _
  | some buf =>
    cases buf with
    | step items => exact inStepTextStep_arel env h items
    | text b =>
      dsimp only
      apply ARel.modify
      intro c' c hc
      colsim hc

theorem pushItem_arel (it : Item) : ARel (α := α) uws (fun _ _ => True) (pushItem it) (pushItem it) := by
  unfold pushItem
  apply ARel.bind ARel.get
  intro s' s hs
  simp only [hs.block]
  cases s.block with
  | none => exact ARel.apanic _ _
  | some buf =>
    cases buf with
    | step items =>
      dsimp only
      apply ARel.set
      colsim hs
    | text b => exact ARel.apanic _ _

def Ev.isComp : Ev α → Bool
  | .ingredient _ | .cookware _ | .timer _ => true
  | _ => false

theorem inStepComponent_arel (env : Env) (input' input : Str) {ev' ev : Ev α} (h : EvSim env.cs.uws ev' ev) :
    ARel (α := α) env.cs.uws (fun _ _ => True) (inStepComponent env input' ev') (inStepComponent env input ev) := by
  unfold inStepComponent
  cases ev' <;> cases ev <;> try (first | exact ARel.apanic _ _ | (exfalso; simp [EvSim] at h; done))
  · apply ARel.bind (ingredientA_arel env input' input (by simpa [EvSim] using h))
    intro i' i hi
    subst hi
    exact pushItem_arel _
  · apply ARel.bind (cookwareA_arel env input' input (by simpa [EvSim] using h))
    intro i' i hi
    subst hi
    exact pushItem_arel _
  · apply ARel.bind (timerA_arel env (by simpa [EvSim] using h))
    intro i' i hi
    subst hi
    exact pushItem_arel _

/-- a component event inside a block, when the open block is not a text buffer (the text-mode
    branch `inTextComponent` copies a slice of the SOURCE, which is not determined by the events) -/
theorem inBlockComponent_sim (env : Env) (input' input : Str) {ev' ev : Ev α} (h : EvSim env.cs.uws ev' ev)
    {c' c : Col α} (hc : ColSim env.cs.uws c' c) (hnt : ∀ buf, c.block ≠ some (.text buf)) :
    ColSim env.cs.uws (inBlockComponent env input' ev' c').2 (inBlockComponent env input ev c).2 := by
  unfold inBlockComponent
  simp only [A_bind, A_get, hc.block]
  cases hb : c.block with
  | none => exact ((ARel.apanic (uws := env.cs.uws) _ _).out c' c hc).2
  | some buf =>
    cases buf with
    | step items => exact ((inStepComponent_arel env input' input h).out c' c hc).2
    | text b => exact absurd hb (hnt b)

/-! ### metadata -/

theorem insertionSort_length (l : List Span) : (insertionSort l).length = l.length := by
  unfold insertionSort
  suffices h : ∀ (acc : List Span), (l.foldl (fun acc x =>
      (acc.takeWhile (fun y => !(x.start < y.start || (x.start == y.start && x.stop < y.stop)))) ++ [x] ++
      (acc.dropWhile (fun y => !(x.start < y.start || (x.start == y.start && x.stop < y.stop))))) acc).length =
      acc.length + l.length by simpa using h []
  induction l with
  | nil => intro acc; rfl
  | cons x l ih =>
    intro acc
    simp only [List.foldl_cons]
    rw [ih]
    have := congrArg List.length (List.takeWhile_append_dropWhile
      (p := fun y => !(x.start < y.start || (x.start == y.start && x.stop < y.stop))) (l := acc))
    simp only [List.length_append, List.length_cons, List.length_nil] at this ⊢
    omega

theorem metaLocs_find_isSome {l' l : List (StdKey × Span)} (h : l'.map (·.1) = l.map (·.1)) (k : StdKey) :
    (l'.find? (fun p => p.1 == k)).isSome = (l.find? (fun p => p.1 == k)).isSome := by
  rw [Bool.eq_iff_iff, List.find?_isSome, List.find?_isSome]
  have e : ∀ m : List (StdKey × Span), (∃ x, x ∈ m ∧ (x.1 == k) = true) ↔ k ∈ m.map (·.1) := by
    intro m
    simp only [List.mem_map, beq_iff_eq]
  simp only [e, h]

theorem metaLocs_locs_length {l' l : List (StdKey × Span)} (h : l'.map (·.1) = l.map (·.1)) (keys : List StdKey) :
    (keys.filterMap (fun k => (l'.find? (fun p => p.1 == k)).map (·.2))).length =
    (keys.filterMap (fun k => (l.find? (fun p => p.1 == k)).map (·.2))).length := by
  induction keys with
  | nil => rfl
  | cons k ks ih =>
    have hk := metaLocs_find_isSome h k
    simp only [List.filterMap_cons]
    cases h1 : l'.find? (fun p => p.1 == k) <;> cases h2 : l.find? (fun p => p.1 == k) <;>
      simp [h1, h2] at hk ⊢ <;> exact ih

theorem metaLocs_filter {l' l : List (StdKey × Span)} (h : l'.map (·.1) = l.map (·.1)) (q : StdKey → Bool) :
    (l'.filter (fun p => q p.1)).map (·.1) = (l.filter (fun p => q p.1)).map (·.1) := by
  induction l' generalizing l with
  | nil => cases l with
    | nil => rfl
    | cons _ _ => simp at h
  | cons a l' ih => cases l with
    | nil => simp at h
    | cons b l =>
      simp only [List.map_cons, List.cons.injEq] at h
      simp only [List.filter_cons, h.1]
      split
      · simp only [List.map_cons, h.1, ih h.2]
      · exact ih h.2

theorem isEmpty_eq_of_length_eq {β γ : Type} {l' : List β} {l : List γ} (h : l'.length = l.length) :
    l'.isEmpty = l.isEmpty := by
  cases l' <;> cases l <;> simp_all

theorem timeOverrideCheck_arel (new : StdKey) :
    ARel (α := α) uws (fun _ _ => True) (timeOverrideCheck new) (timeOverrideCheck new) := by
  unfold timeOverrideCheck
  apply ARel.bind ARel.get
  intro s' s hs
  dsimp only
  apply ARel.panicIfK
  apply ARel.bind (R := fun _ _ => True)
  · apply ARel.modify
    intro c' c hc
    colsim hc
    exact metaLocs_filter hc.metaLocs (fun k => !(if new == .time then [StdKey.prepTime, .cookTime] else [.time]).contains k)
  intro _ _ _
  have hl := metaLocs_locs_length hs.metaLocs (if new == .time then [StdKey.prepTime, .cookTime] else [.time])
  have hl2 := (insertionSort_length _).trans (hl.trans (insertionSort_length _).symm)
  rw [isEmpty_eq_of_length_eq hl2]
  apply ARel.ite
  · exact ARel.pure trivial
  · exact ARel.awarn _ (by rw [List.length_append, List.length_append, hl2]; rfl)

/-- `do modify f; pure ()` with the same `f` on both sides, all compared fields rewritten alike -/
macro "amod" : tactic => `(tactic|
  (apply ARel.bind (R := fun _ _ => True) (ARel.modify (by intro c' c hc; colsim hc)); intro _ _ _; exact ARel.pure trivial))
macro "aerrp" : tactic => `(tactic|
  (apply ARel.bind (R := fun _ _ => True) (ARel.aerr _ (by rfl)); intro _ _ _; exact ARel.pure trivial))

/-- the part of `metadata` after the entry was stored: the standard-key checks -/
theorem metadataStd_arel (env : Env) (sk : StdKey) (val : Str) (a' a : Span) (l' l : List Span)
    (hl : l'.length = l.length) :
    ARel (α := α) uws (fun _ _ => True)
      (match env.stdCheck sk val with
        | .rejected => do awarn "std-unsupported-value" l'; pure ()
        | .servings sv => do
          modify fun s => { s with servings := some sv }
          modify fun s => { s with metaLocs := (s.metaLocs.filter (fun p => p.1 != sk)) ++ [(sk, a')] }
          if stdKeyIsTime sk then timeOverrideCheck sk else pure ()
        | .ok => do
          modify fun s => { s with metaLocs := (s.metaLocs.filter (fun p => p.1 != sk)) ++ [(sk, a')] }
          if stdKeyIsTime sk then timeOverrideCheck sk else pure ())
      (match env.stdCheck sk val with
        | .rejected => do awarn "std-unsupported-value" l; pure ()
        | .servings sv => do
          modify fun s => { s with servings := some sv }
          modify fun s => { s with metaLocs := (s.metaLocs.filter (fun p => p.1 != sk)) ++ [(sk, a)] }
          if stdKeyIsTime sk then timeOverrideCheck sk else pure ()
        | .ok => do
          modify fun s => { s with metaLocs := (s.metaLocs.filter (fun p => p.1 != sk)) ++ [(sk, a)] }
          if stdKeyIsTime sk then timeOverrideCheck sk else pure ()) := by
  have hml : ARel (α := α) uws (fun _ _ => True)
      (modify fun s => { s with metaLocs := (s.metaLocs.filter (fun p => p.1 != sk)) ++ [(sk, a')] })
      (modify fun s => { s with metaLocs := (s.metaLocs.filter (fun p => p.1 != sk)) ++ [(sk, a)] }) := by
    apply ARel.modify
    intro c' c hc
    colsim hc
    show ((c'.metaLocs.filter (fun p => p.1 != sk)) ++ [(sk, a')]).map (·.1) =
      ((c.metaLocs.filter (fun p => p.1 != sk)) ++ [(sk, a)]).map (·.1)
    rw [List.map_append, List.map_append, metaLocs_filter hc.metaLocs (fun k => k != sk)]
    rfl
  have htail : ARel (α := α) uws (fun _ _ => True)
      (if stdKeyIsTime sk then timeOverrideCheck sk else pure ())
      (if stdKeyIsTime sk then timeOverrideCheck sk else pure ()) := by
    apply ARel.ite
    · exact timeOverrideCheck_arel sk
    · exact ARel.pure trivial
  cases env.stdCheck sk val with
  | rejected =>
    dsimp only
    apply ARel.bind (ARel.awarn _ hl)
    intro _ _ _
    exact ARel.pure trivial
  | servings sv =>
    dsimp only
    apply ARel.bind (R := fun _ _ => True) (ARel.modify (by intro c' c hc; colsim hc))
    intro _ _ _
    apply ARel.bind hml
    intro _ _ _
    exact htail
  | ok =>
    dsimp only
    apply ARel.bind hml
    intro _ _ _
    exact htail

theorem metadataA_arel (env : Env) {k' k v' v : Text} (hk : TextSim env.cs.uws k' k) (hv : TextSim env.cs.uws v' v) :
    ARel (α := α) uws (fun _ _ => True) (metadataA env k' v') (metadataA env k v) := by
  unfold metadataA
  simp only [hk.trimmed, hv.outerTrimmed]
  apply ARel.bind ARel.get
  intro s' s hs
  simp only [hs.oldStyle]
  have hstore : ARel (α := α) uws (fun _ _ => True)
      (modify fun s => { s with oldStyleUsed := s.oldStyleUsed ++ [⟨k'.span.start, v'.span.stop⟩],
                                metaMap := metaInsert s.metaMap (k.trimmed env.cs) (v.outerTrimmed env.cs) })
      (modify fun s => { s with oldStyleUsed := s.oldStyleUsed ++ [⟨k.span.start, v.span.stop⟩],
                                metaMap := metaInsert s.metaMap (k.trimmed env.cs) (v.outerTrimmed env.cs) }) := by
    apply ARel.modify
    intro c' c hc
    colsim hc
    show (c'.oldStyleUsed ++ [_]).length = (c.oldStyleUsed ++ [_]).length
    simp [hc.oldStyleUsed]
  have hrest : ARel (α := α) uws (fun _ _ => True)
      (match StdKey.ofStr (String.ofList (k.trimmed env.cs)) with
        | none => pure ()
        | some sk =>
          match env.stdCheck sk (v.outerTrimmed env.cs) with
          | .rejected => do awarn "std-unsupported-value" [v'.span, k'.span]; pure ()
          | .servings sv => do
            modify fun s => { s with servings := some sv }
            modify fun s => { s with metaLocs := (s.metaLocs.filter (fun p => p.1 != sk)) ++ [(sk, ⟨k'.span.start, v'.span.stop⟩)] }
            if stdKeyIsTime sk then timeOverrideCheck sk else pure ()
          | .ok => do
            modify fun s => { s with metaLocs := (s.metaLocs.filter (fun p => p.1 != sk)) ++ [(sk, ⟨k'.span.start, v'.span.stop⟩)] }
            if stdKeyIsTime sk then timeOverrideCheck sk else pure ())
      (match StdKey.ofStr (String.ofList (k.trimmed env.cs)) with
        | none => pure ()
        | some sk =>
          match env.stdCheck sk (v.outerTrimmed env.cs) with
          | .rejected => do awarn "std-unsupported-value" [v.span, k.span]; pure ()
          | .servings sv => do
            modify fun s => { s with servings := some sv }
            modify fun s => { s with metaLocs := (s.metaLocs.filter (fun p => p.1 != sk)) ++ [(sk, ⟨k.span.start, v.span.stop⟩)] }
            if stdKeyIsTime sk then timeOverrideCheck sk else pure ()
          | .ok => do
            modify fun s => { s with metaLocs := (s.metaLocs.filter (fun p => p.1 != sk)) ++ [(sk, ⟨k.span.start, v.span.stop⟩)] }
            if stdKeyIsTime sk then timeOverrideCheck sk else pure ()) := by
    cases StdKey.ofStr (String.ofList (k.trimmed env.cs)) with
    | none => exact ARel.pure trivial
    | some sk => exact metadataStd_arel env sk _ _ _ _ _ rfl
  apply ARel.ite
  · apply ARel.ite
    · apply ARel.ite
      amod
      apply ARel.ite
      amod
      apply ARel.ite
      amod
      apply ARel.ite
      amod
      aerrp
    · apply ARel.ite
      · apply ARel.ite
        amod
        apply ARel.ite
        amod
        aerrp
      · apply ARel.bind (ARel.awarn _ (by rfl))
        intro _ _ _
        apply ARel.ite
        amod
        exact ARel.pure trivial
  · apply ARel.ite
    · apply ARel.bind (ARel.apanic _ _)
      intro _ _ _
      apply ARel.bind hstore
      intro _ _ _
      exact hrest
    · apply ARel.bind hstore
      intro _ _ _
      exact hrest

/-! ### blocks and the event step -/

theorem endBlockContent_arel (kind : BlockKind) :
    ARel (α := α) uws Eq (endBlockContent kind) (endBlockContent kind) := by
  unfold endBlockContent
  apply ARel.bind ARel.get
  intro s' s hs
  simp only [hs.block, hs.stepCounter, hs.defineMode]
  cases s.block with
  | none => dsimp only; arel
  | some buf => cases buf <;> dsimp only <;> arel

theorem pushContent_arel (c : Content) : ARel (α := α) uws (fun _ _ => True) (pushContent c) (pushContent c) := by
  unfold pushContent
  apply ARel.bind ARel.get
  intro s' s hs
  simp only [hs.defineMode]
  apply ARel.ite
  · apply ARel.modify
    intro c' c hc
    colsim hc
  · exact ARel.pure trivial

theorem endBlock_arel (kind : BlockKind) : ARel (α := α) uws (fun _ _ => True) (endBlock kind) (endBlock kind) := by
  unfold endBlock
  apply ARel.bind (endBlockContent_arel kind)
  intro r' r hr
  subst hr
  have hm : ARel (α := α) uws (fun _ _ => True) (modify fun s => { s with block := none })
      (modify fun s => { s with block := none }) := by
    apply ARel.modify
    intro c' c hc
    colsim hc
  cases r' with
  | none => exact hm
  | some c =>
    dsimp only
    apply ARel.bind (pushContent_arel c)
    intro _ _ _
    exact hm

/-- a component event meets an open text buffer (text define mode): the one place where the
    analysis copies a piece of the source text instead of reading the event -/
def TextModeSliceAt (ev : Ev α) (c : Col α) : Prop := ev.isComp = true ∧ ∃ buf, c.block = some (.text buf)

/-- **one event**: `EvSim`-related events take `ColSim`-related states to `ColSim`-related states,
    for any two source texts, unless the event is a component inside a text-mode block -/
theorem processEvent_sim (env : Env) (input' input : Str) {ev' ev : Ev α} (h : EvSim env.cs.uws ev' ev)
    {c' c : Col α} (hc : ColSim env.cs.uws c' c) (hns : ¬ TextModeSliceAt ev c) :
    ColSim env.cs.uws (processEvent env input' ev' c').2 (processEvent env input ev c).2 := by
  have hnt : ev.isComp = true → ∀ buf, c.block ≠ some (.text buf) := fun h1 buf h2 => hns ⟨h1, buf, h2⟩
  cases ev' <;> cases ev <;> try (exfalso; simp [EvSim] at h; done)
  case frontMatter.frontMatter t' t =>
    simp only [processEvent, A_modify]
    colsim hc
    show FmSim env.cs.uws t' t
    unfold FmSim
    simpa [EvSim] using h
  case metadata.metadata k' v' k v =>
    simp only [processEvent]
    have h2 : TextSim env.cs.uws k' k ∧ TextSim env.cs.uws v' v := by simpa [EvSim] using h
    exact ((metadataA_arel env h2.1 h2.2).out c' c hc).2
  case «section».«section» n' n =>
    have h2 : OptRel (TextSim env.cs.uws) n' n := by simpa [EvSim] using h
    have h3 := optTrimmed_eq h2
    simp only [processEvent, A_modify, h3]
    colsim hc
  case start.start k' k =>
    simp only [processEvent, A_modify]
    have h2 : k' = k := by simpa [EvSim] using h
    subst h2
    colsim hc
  case stop.stop k' k =>
    simp only [processEvent]
    have h2 : k' = k := by simpa [EvSim] using h
    subst h2
    exact ((endBlock_arel k').out c' c hc).2
  case text.text t' t =>
    simp only [processEvent]
    exact ((inStepText_arel env (by simpa [EvSim] using h)).out c' c hc).2
  case ingredient.ingredient i' i =>
    simp only [processEvent]
    exact inBlockComponent_sim env input' input h hc (hnt rfl)
  case cookware.cookware i' i =>
    simp only [processEvent]
    exact inBlockComponent_sim env input' input h hc (hnt rfl)
  case timer.timer i' i =>
    simp only [processEvent]
    exact inBlockComponent_sim env input' input h hc (hnt rfl)
  case error.error d' d =>
    simp only [processEvent]
    exact hc
  case warning.warning d' d =>
    simp only [processEvent, A_modify]
    exact hc.pushDiag (by simpa [EvSim] using h)

end Cook
