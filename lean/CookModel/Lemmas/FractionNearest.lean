import CookModel.Num.Fraction
import CookModel.Lemmas.ArithRat
import CookModel.Lemmas.Fraction
/-
  Which fraction `FractionLookupTable::lookup` / `Number::new_approx` (src/quantity.rs) picks.  Prefix `fn_`.

  The lookup works on FIXED-POINT keys (`(val * 1e4) as i16`): among the table entries whose denominator is allowed it
  returns one whose key is nearest to the key of the value; of two equally near ones the lower one iff its denominator is
  not larger.  Everything here is specification-side (no model of code is added).
-/
namespace Cook
open Arith

/-- distance in fixed-point key space -/
def keyDist (fixed : Int) (e : FracEntry) : Nat := (e.key - fixed).natAbs

theorem fn_keysSorted_pairwise : ∀ t : List FracEntry, keysSorted t = true → t.Pairwise (fun a b => a.key < b.key)
  | [], _ => List.Pairwise.nil
  | [a], _ => by simp
  | a :: b :: rest, h => by
    simp only [keysSorted, Bool.and_eq_true, decide_eq_true_eq] at h
    have ih := fn_keysSorted_pairwise (b :: rest) h.2
    refine List.pairwise_cons.mpr ⟨?_, ih⟩
    intro x hx
    rcases List.mem_cons.mp hx with rfl | hx
    · exact h.1
    · exact Int.lt_trans h.1 ((List.pairwise_cons.mp ih).1 x hx)

theorem fn_reverse_find {β : Type} (p : β → Bool) (l : List β) (e : β) :
    l.reverse.find? p = some e ↔ p e = true ∧ ∃ pre post, l = pre ++ e :: post ∧ ∀ x ∈ post, p x = false := by
  rw [List.find?_eq_some_iff_append]
  constructor
  · rintro ⟨hp, as, bs, hl, has⟩
    refine ⟨hp, bs.reverse, as.reverse, ?_, ?_⟩
    · have := congrArg List.reverse hl
      simpa using this
    · intro x hx
      have := has x (List.mem_reverse.mp hx)
      simpa using this
  · rintro ⟨hp, pre, post, hl, hpost⟩
    refine ⟨hp, post.reverse, pre.reverse, ?_, ?_⟩
    · rw [hl]; simp
    · intro x hx
      have := hpost x (List.mem_reverse.mp hx)
      simp [this]

theorem fn_mem_takeWhile {β : Type} (p : β → Bool) : ∀ (l : List β) (x : β), x ∈ l.takeWhile p → p x = true
  | [], _, h => by simp at h
  | a :: l, x, h => by
    simp only [List.takeWhile_cons] at h
    split at h
    · rcases List.mem_cons.mp h with rfl | h'
      · assumption
      · exact fn_mem_takeWhile p l x h'
    · simp at h

/-- the split of a sorted table at `fixed`: strictly below / not below -/
theorem fn_split (t : List FracEntry) (hs : t.Pairwise (fun a b => a.key < b.key)) (fixed : Int) :
    t = t.takeWhile (fun e => decide (e.key < fixed)) ++ t.dropWhile (fun e => decide (e.key < fixed)) ∧
    (∀ x ∈ t.takeWhile (fun e => decide (e.key < fixed)), x.key < fixed) ∧
    (∀ x ∈ t.dropWhile (fun e => decide (e.key < fixed)), fixed ≤ x.key) := by
  refine ⟨List.takeWhile_append_dropWhile.symm, ?_, ?_⟩
  · intro x hx
    have := fn_mem_takeWhile _ t x hx
    simpa using this
  · intro x hx
    have hsub : (t.dropWhile (fun e => decide (e.key < fixed))).Pairwise (fun a b => a.key < b.key) :=
      hs.sublist (List.dropWhile_sublist _)
    cases hd : t.dropWhile (fun e => decide (e.key < fixed)) with
    | nil => rw [hd] at hx; cases hx
    | cons h tl =>
      have hh : ¬ (h.key < fixed) := by
        have := List.head?_dropWhile_not (fun e : FracEntry => decide (e.key < fixed)) t
        rw [hd] at this
        simpa using this
      rw [hd] at hx hsub
      rcases List.mem_cons.mp hx with rfl | hx
      · omega
      · have := (List.pairwise_cons.mp hsub).1 x hx
        omega

/-- the first allowed entry of the upper part is the nearest allowed one of the upper part -/
theorem fn_high_nearest (hi : List FracEntry) (hs : hi.Pairwise (fun a b => a.key < b.key)) (fixed : Int)
    (hge : ∀ x ∈ hi, fixed ≤ x.key) (maxDen : Nat) :
    (∀ f, hi.find? (fun e => decide (e.den ≤ maxDen)) = some f →
      f ∈ hi ∧ f.den ≤ maxDen ∧ ∀ e' ∈ hi, e'.den ≤ maxDen → e' = f ∨ f.key < e'.key) ∧
    (hi.find? (fun e => decide (e.den ≤ maxDen)) = none → ∀ e' ∈ hi, ¬ e'.den ≤ maxDen) := by
  constructor
  · intro f hf
    obtain ⟨hp, as, bs, hl, has⟩ := List.find?_eq_some_iff_append.mp hf
    refine ⟨List.mem_of_find?_eq_some hf, by simpa using hp, ?_⟩
    intro e' he' hd
    rw [hl] at he' hs
    rcases List.mem_append.mp he' with h | h
    · have := has e' h
      simp [hd] at this
    · rcases List.mem_cons.mp h with rfl | h
      · exact Or.inl rfl
      · exact Or.inr ((List.pairwise_cons.mp (List.pairwise_append.mp hs).2.1).1 e' h)
  · intro hn e' he'
    have := List.find?_eq_none.mp hn e' he'
    simpa using this

/-- the last allowed entry of the lower part is the nearest allowed one of the lower part -/
theorem fn_low_nearest (lo : List FracEntry) (hs : lo.Pairwise (fun a b => a.key < b.key)) (maxDen : Nat) :
    (∀ f, lo.reverse.find? (fun e => decide (e.den ≤ maxDen)) = some f →
      f ∈ lo ∧ f.den ≤ maxDen ∧ ∀ e' ∈ lo, e'.den ≤ maxDen → e' = f ∨ e'.key < f.key) ∧
    (lo.reverse.find? (fun e => decide (e.den ≤ maxDen)) = none → ∀ e' ∈ lo, ¬ e'.den ≤ maxDen) := by
  constructor
  · intro f hf
    obtain ⟨hp, pre, post, hl, hpost⟩ := (fn_reverse_find _ _ _).mp hf
    refine ⟨by rw [hl]; simp, by simpa using hp, ?_⟩
    intro e' he' hd
    rw [hl] at he' hs
    rcases List.mem_append.mp he' with h | h
    · exact Or.inr ((List.pairwise_append.mp hs).2.2 e' h f (by simp))
    · rcases List.mem_cons.mp h with rfl | h
      · exact Or.inl rfl
      · have := hpost e' h
        simp [hd] at this
  · intro hn e' he'
    have := List.find?_eq_none.mp hn e' (List.mem_reverse.mpr he')
    simpa using this

/-- the tie rule of `lookup`: `e` was preferred to the equally near `e'` -/
def tiePrefers (e e' : FracEntry) : Prop :=
  e' = e ∨ (e.key < e'.key ∧ e.den ≤ e'.den) ∨ (e'.key < e.key ∧ e.den < e'.den)

/-- `e` is an allowed entry nearest to `fixed` in key space among the allowed entries of `l`, ties by the code's rule -/
def NearestIn (l : List FracEntry) (fixed : Int) (maxDen : Nat) (e : FracEntry) : Prop :=
  e ∈ l ∧ e.den ≤ maxDen ∧ ∀ e' ∈ l, e'.den ≤ maxDen →
    keyDist fixed e ≤ keyDist fixed e' ∧ (keyDist fixed e = keyDist fixed e' → tiePrefers e e')

theorem fn_pick_nearest (fixed : Int) (maxDen : Nat) (lo hi : List FracEntry)
    (hlo : lo.Pairwise (fun a b => a.key < b.key)) (hhi : hi.Pairwise (fun a b => a.key < b.key))
    (hlt : ∀ x ∈ lo, x.key < fixed) (hge : ∀ x ∈ hi, fixed ≤ x.key) :
    (∀ e, pickNeighbour fixed maxDen lo hi = some e → NearestIn (lo ++ hi) fixed maxDen e) ∧
    (pickNeighbour fixed maxDen lo hi = none → ∀ e' ∈ lo ++ hi, ¬ e'.den ≤ maxDen) := by
  have L := fn_low_nearest lo hlo maxDen
  have H := fn_high_nearest hi hhi fixed hge maxDen
  unfold pickNeighbour
  simp only
  cases hl : lo.reverse.find? (fun e => decide (e.den ≤ maxDen)) with
  | none =>
    cases hh : hi.find? (fun e => decide (e.den ≤ maxDen)) with
    | none =>
      refine ⟨(by intro e h; cases h), ?_⟩
      intro _ e' he'
      rcases List.mem_append.mp he' with h | h
      · exact L.2 hl e' h
      · exact H.2 hh e' h
    | some f =>
      refine ⟨?_, by intro h; cases h⟩
      intro e he
      simp only [Option.some.injEq] at he; subst he
      obtain ⟨hm, hd, hn⟩ := H.1 f hh
      refine ⟨List.mem_append_right _ hm, hd, ?_⟩
      intro e' he' hd'
      rcases List.mem_append.mp he' with h | h
      · exact absurd hd' (L.2 hl e' h)
      · have h1 := hge f hm
        have h2 := hge e' h
        unfold keyDist tiePrefers
        rcases hn e' h hd' with rfl | hk
        · exact ⟨Nat.le_refl _, fun _ => Or.inl rfl⟩
        · refine ⟨by omega, fun heq => ?_⟩
          omega
  | some a =>
    obtain ⟨ham, had, han⟩ := L.1 a hl
    have ha1 := hlt a ham
    cases hh : hi.find? (fun e => decide (e.den ≤ maxDen)) with
    | none =>
      refine ⟨?_, by intro h; cases h⟩
      intro e he
      simp only [Option.some.injEq] at he; subst he
      refine ⟨List.mem_append_left _ ham, had, ?_⟩
      intro e' he' hd'
      rcases List.mem_append.mp he' with h | h
      · have h2 := hlt e' h
        unfold keyDist tiePrefers
        rcases han e' h hd' with rfl | hk
        · exact ⟨Nat.le_refl _, fun _ => Or.inl rfl⟩
        · refine ⟨by omega, fun heq => ?_⟩
          omega
      · exact absurd hd' (H.2 hh e' h)
    | some b =>
      obtain ⟨hbm, hbd, hbn⟩ := H.1 b hh
      have hb1 := hge b hbm
      refine ⟨?_, (by intro h; simp only at h; split at h <;> cases h)⟩
      intro e he
      simp only at he
      split at he
      · rename_i hc
        simp only [Option.some.injEq] at he; subst he
        refine ⟨List.mem_append_left _ ham, had, ?_⟩
        intro e' he' hd'
        unfold keyDist tiePrefers
        rcases List.mem_append.mp he' with h | h
        · have h2 := hlt e' h
          rcases han e' h hd' with rfl | hk
          · exact ⟨Nat.le_refl _, fun _ => Or.inl rfl⟩
          · refine ⟨by omega, fun heq => ?_⟩
            omega
        · have h2 := hge e' h
          rcases hbn e' h hd' with rfl | hk
          · refine ⟨by omega, fun heq => ?_⟩
            right; left
            omega
          · refine ⟨by omega, fun heq => ?_⟩
            omega
      · rename_i hc
        simp only [Option.some.injEq] at he; subst he
        refine ⟨List.mem_append_right _ hbm, hbd, ?_⟩
        intro e' he' hd'
        unfold keyDist tiePrefers
        rcases List.mem_append.mp he' with h | h
        · have h2 := hlt e' h
          rcases han e' h hd' with rfl | hk
          · refine ⟨by omega, fun heq => ?_⟩
            right; right
            omega
          · refine ⟨by omega, fun heq => ?_⟩
            omega
        · have h2 := hge e' h
          rcases hbn e' h hd' with rfl | hk
          · exact ⟨Nat.le_refl _, fun _ => Or.inl rfl⟩
          · refine ⟨by omega, fun heq => ?_⟩
            omega

/-- **`lookup` returns a nearest allowed entry (in fixed-point key space), ties by the stated rule; it returns nothing
    only if no entry is allowed.**  For every table with strictly increasing keys. -/
theorem fn_lookupKey_nearest (t : List FracEntry) (hs : keysSorted t = true) (fixed : Int) (maxDen : Nat) :
    (∀ e, lookupKey t fixed maxDen = some e → NearestIn t fixed maxDen e) ∧
    (lookupKey t fixed maxDen = none → ∀ e' ∈ t, ¬ e'.den ≤ maxDen) := by
  have hp := fn_keysSorted_pairwise t hs
  obtain ⟨hsplit, hlt, hge⟩ := fn_split t hp fixed
  have hlo : (t.takeWhile (fun e => decide (e.key < fixed))).Pairwise (fun a b => a.key < b.key) :=
    hp.sublist (List.takeWhile_sublist _)
  have hhi : (t.dropWhile (fun e => decide (e.key < fixed))).Pairwise (fun a b => a.key < b.key) :=
    hp.sublist (List.dropWhile_sublist _)
  have P := fn_pick_nearest fixed maxDen _ _ hlo hhi hlt hge
  rw [← hsplit] at P
  unfold lookupKey
  simp only
  split
  · rename_i e0 rest heq
    split
    · rename_i hc
      refine ⟨?_, by intro h; cases h⟩
      intro e he
      simp only [Option.some.injEq] at he; subst he
      have hm : e0 ∈ t := by rw [hsplit, heq]; simp
      refine ⟨hm, hc.2, ?_⟩
      intro e' he' hd'
      unfold keyDist tiePrefers
      refine ⟨by omega, fun heq' => ?_⟩
      left
      -- distance 0: same key, hence the same entry of a table with distinct keys
      have hk : e'.key = e0.key := by omega
      rcases List.mem_iff_append.mp hm with ⟨l1, l2, hl⟩
      rw [hl] at he' hp
      rcases List.mem_append.mp he' with h | h
      · have := (List.pairwise_append.mp hp).2.2 e' h e0 (by simp); omega
      · rcases List.mem_cons.mp h with rfl | h
        · rfl
        · have := (List.pairwise_cons.mp (List.pairwise_append.mp hp).2.1).1 e' h; omega
    · exact P
  · exact P

/-! ### from key space to the rationals: `Number::new_approx` over ℚ with the table of the source -/

theorem fn_natAbs_cast (k : Int) : ((k.natAbs : Nat) : Rat) = Rat.abs (k : Rat) := by
  rcases Int.le_total 0 k with h | h
  · have h1 : ((k.natAbs : Nat) : Int) = k := Int.natAbs_of_nonneg h
    have h2 : (0:Rat) ≤ (k:Rat) := by exact_mod_cast h
    rw [Rat.abs_of_nonneg h2]
    exact_mod_cast h1
  · have h1 : ((k.natAbs : Nat) : Int) = -k := by omega
    have h2 : (k:Rat) ≤ 0 := by exact_mod_cast h
    rw [Rat.abs_of_nonpos h2]
    exact_mod_cast h1

/-- truncation to keys moves a distance by less than one key unit -/
theorem fn_abs_floor_diff (x y : Rat) :
    Rat.abs (y - x) < ((y.floor - x.floor).natAbs : Rat) + 1 ∧
    ((y.floor - x.floor).natAbs : Rat) - 1 < Rat.abs (y - x) := by
  rw [fn_natAbs_cast]
  have ha := Rat.floor_le x
  have ha' := Rat.lt_floor_add_one x
  have hb := Rat.floor_le y
  have hb' := Rat.lt_floor_add_one y
  push_cast at ha' hb' ⊢
  rw [← rat_abs_eq, ← rat_abs_eq]
  constructor <;> split <;> split <;> grind

theorem fn_fix_ratio : Gen.FIX_RATIO.rat = 10000 := by decide +kernel

/-- the fixed-point key of a value in `[0, 1)` is `⌊value · 10⁴⌋` (no saturation) -/
theorem fn_fixedKey {x : Rat} (h0 : 0 ≤ x) (h1 : x < 1) : fixedKey x = (x * 10000).floor := by
  unfold fixedKey
  simp only [rat_toI16, rat_mul, rat_const, fn_fix_ratio]
  have hx : 0 ≤ x * 10000 := Rat.mul_nonneg h0 (by decide)
  rw [ratTrunc_nonneg hx]
  have hf0 := floor_nonneg hx
  have hf1 : (x * 10000).floor < 10000 := by
    rw [Rat.floor_lt_iff]
    have : x * 10000 < 1 * 10000 := (Rat.mul_lt_mul_right (by decide)).mpr h1
    simpa using this
  unfold clampInt
  split
  · omega
  · split <;> omega

theorem fn_abs_mul_const (a : Rat) : Rat.abs (a * 10000) = Rat.abs a * 10000 := by
  rw [← rat_abs_eq, ← rat_abs_eq]
  split <;> split <;> grind

/-- nearer (or equally near) in key space ⇒ nearer up to two key units (2·10⁻⁴) in ℚ -/
theorem fn_key_to_rat {x y y' : Rat} (hx0 : 0 ≤ x) (hx1 : x < 1) (hy0 : 0 ≤ y) (hy1 : y < 1) (hy0' : 0 ≤ y')
    (hy1' : y' < 1) (e e' : FracEntry) (he : e.key = fixedKey y) (he' : e'.key = fixedKey y')
    (h : keyDist (fixedKey x) e ≤ keyDist (fixedKey x) e') :
    Rat.abs (x - y) * 10000 < Rat.abs (x - y') * 10000 + 2 := by
  unfold keyDist at h
  rw [he, he', fn_fixedKey hx0 hx1, fn_fixedKey hy0 hy1, fn_fixedKey hy0' hy1'] at h
  have h1 := (fn_abs_floor_diff (x * 10000) (y * 10000)).1
  have h2 := (fn_abs_floor_diff (x * 10000) (y' * 10000)).2
  have hc : (((y * 10000).floor - (x * 10000).floor).natAbs : Rat) ≤
      (((y' * 10000).floor - (x * 10000).floor).natAbs : Rat) := by exact_mod_cast h
  have e1 : Rat.abs (y * 10000 - x * 10000) = Rat.abs (x - y) * 10000 := by
    rw [← fn_abs_mul_const]
    rw [← rat_abs_eq, ← rat_abs_eq]
    split <;> split <;> grind
  have e2 : Rat.abs (y' * 10000 - x * 10000) = Rat.abs (x - y') * 10000 := by
    rw [← fn_abs_mul_const]
    rw [← rat_abs_eq, ← rat_abs_eq]
    split <;> split <;> grind
  rw [e1] at h1
  rw [e2] at h2
  grind

/-- every entry of the source's table carries the key of its own fraction, and every fraction `n/d` with a supported
    denominator is in the table, in lowest available terms (same value, denominator not larger) — decided on the table
    generated from `DENOMS` and `FIX_RATIO` -/
def tableCovers (denoms : List Nat) (t : List FracEntry) : Bool :=
  t.all (fun e => decide (e.key = fixedKey ((e.num : Rat) / (e.den : Rat)))) &&
  denoms.all (fun d => (List.range' 1 (d - 1)).all (fun n =>
    t.any (fun e => decide (e.key = fixedKey ((n : Rat) / (d : Rat))) && decide (e.den ≤ d) &&
      decide ((e.num : Rat) / (e.den : Rat) = (n : Rat) / (d : Rat)))))

theorem fn_ratTable_covers : tableCovers Gen.DENOMS ratTable = true := by decide +kernel

theorem fn_covers_entry {denoms : List Nat} {t : List FracEntry} (h : tableCovers denoms t = true) {e : FracEntry}
    (he : e ∈ t) : e.key = fixedKey ((e.num : Rat) / (e.den : Rat)) := by
  simp only [tableCovers, Bool.and_eq_true, List.all_eq_true, decide_eq_true_eq] at h
  exact h.1 e he

theorem fn_covers_frac {denoms : List Nat} {t : List FracEntry} (h : tableCovers denoms t = true) {n d : Nat}
    (hd : d ∈ denoms) (hn0 : 0 < n) (hnd : n < d) :
    ∃ e ∈ t, e.key = fixedKey ((n : Rat) / (d : Rat)) ∧ e.den ≤ d ∧
      (e.num : Rat) / (e.den : Rat) = (n : Rat) / (d : Rat) := by
  simp only [tableCovers, Bool.and_eq_true, List.all_eq_true, List.any_eq_true, decide_eq_true_eq] at h
  have hmem : n ∈ List.range' 1 (d - 1) := by
    rw [List.mem_range'_1]; omega
  obtain ⟨e, he, hk⟩ := h.2 d hd n hmem
  exact ⟨e, he, hk.1.1, hk.1.2, hk.2⟩

theorem fn_frac_range {n d : Nat} (hn0 : 0 < n) (hnd : n < d) :
    (0 : Rat) ≤ (n : Rat) / (d : Rat) ∧ (n : Rat) / (d : Rat) < 1 := by
  have hd : (0 : Rat) < (d : Rat) := by exact_mod_cast (by omega : 0 < d)
  have hn : (0 : Rat) ≤ (n : Rat) := by exact_mod_cast (Nat.zero_le n)
  have hlt : (n : Rat) < (d : Rat) := by exact_mod_cast hnd
  have hne : (d : Rat) ≠ 0 := by intro h; rw [h] at hd; exact absurd hd (by decide)
  constructor
  · rw [Rat.div_def]; exact Rat.mul_nonneg hn (Rat.le_of_lt (Rat.inv_pos.mpr hd))
  · have : (n : Rat) / (d : Rat) * (d : Rat) < 1 * (d : Rat) := by
      rw [Rat.div_mul_cancel hne, Rat.one_mul]; exact hlt
    exact (Rat.mul_lt_mul_right hd).mp this

/-! ### `new_approx` -/

theorem fn_decimal_range {v : Rat} (hv : 0 < v) :
    0 ≤ v - (ratTrunc v : Rat) ∧ v - (ratTrunc v : Rat) < 1 := by
  rw [ratTrunc_nonneg (Rat.le_of_lt hv)]
  have h1 := Rat.floor_le v
  have h2 := Rat.lt_floor_add_one v
  push_cast at h2
  constructor <;> grind

theorem fn_whole_cast {v : Rat} (hv : 0 < v) (hne : wholeOf v ≠ u32Max) :
    ((wholeOf v : Nat) : Rat) = (ratTrunc v : Rat) := by
  rw [ratTrunc_nonneg (Rat.le_of_lt hv)]
  have := toU32_trunc_exact (Rat.le_of_lt hv) hne
  unfold wholeOf
  exact_mod_cast this

/-- the comparison of the looked-up entry `e` with any other admissible fraction `n'/d'`, in ℚ -/
theorem fn_lookup_vs (v : Rat) (hv : 0 < v) (hne : wholeOf v ≠ u32Max) (maxDen : Nat) (e : FracEntry)
    (hl : lookup ratTable (v - (ratTrunc v : Rat)) maxDen = some e)
    (n' d' : Nat) (hd : d' ∈ Gen.DENOMS) (hdm : d' ≤ maxDen) (hn0 : 0 < n') (hnd : n' < d') :
    Rat.abs (v - ((wholeOf v : Rat) + (e.num : Rat) / (e.den : Rat))) * 10000 <
      Rat.abs (v - ((wholeOf v : Rat) + (n' : Rat) / (d' : Rat))) * 10000 + 2 := by
  have hsorted : keysSorted ratTable = true := by decide +kernel
  have hok : tableOK Gen.DENOMS ratTable = true := by decide +kernel
  unfold lookup at hl
  obtain ⟨hmem, hden, hnear⟩ := (fn_lookupKey_nearest ratTable hsorted _ maxDen).1 e hl
  obtain ⟨e', he'm, he'k, he'd, he'v⟩ := fn_covers_frac fn_ratTable_covers hd hn0 hnd
  have hdist := (hnear e' he'm (Nat.le_trans he'd hdm)).1
  have hek := fn_covers_entry fn_ratTable_covers hmem
  have heok := (List.all_eq_true.mp hok) e hmem
  simp only [entryOK, Bool.and_eq_true, decide_eq_true_eq] at heok
  obtain ⟨hx0, hx1⟩ := fn_decimal_range hv
  obtain ⟨hy0, hy1⟩ := fn_frac_range heok.1.1 heok.1.2
  obtain ⟨hy0', hy1'⟩ := fn_frac_range hn0 hnd
  have := fn_key_to_rat hx0 hx1 hy0 hy1 hy0' hy1' e e' hek he'k hdist
  rw [fn_whole_cast hv hne]
  have e1 : v - ((ratTrunc v : Rat) + (e.num : Rat) / (e.den : Rat)) =
      v - (ratTrunc v : Rat) - (e.num : Rat) / (e.den : Rat) := by grind
  have e2 : v - ((ratTrunc v : Rat) + (n' : Rat) / (d' : Rat)) =
      v - (ratTrunc v : Rat) - (n' : Rat) / (d' : Rat) := by grind
  rw [e1, e2]; exact this

/-- **Nearest admissible table fraction.**  A result of `new_approx` with a fractional part (`num ≠ 0`: it came from the
    table, the rounding-to-an-integer branch was not taken) has as whole part the truncation of the value, and its
    error is smaller than the error of EVERY other admissible fraction `whole + n'/d'` (supported denominator
    `d' ≤ max_den`, `0 < n' < d'`) up to two fixed-point units: `|err| < |v − (whole + n'/d')| + 2·10⁻⁴`.
    (Exactly nearest in fixed-point key space: `fn_lookupKey_nearest`; the slack is real, see the examples in
    Props/C12.lean.) -/
theorem fn_newApprox_nearest (v acc : Rat) (maxDen maxWhole w n d : Nat) (err : Rat)
    (h : newApprox ratTable v acc maxDen maxWhole = some (.fraction w n d err)) (hn : n ≠ 0) :
    w = wholeOf v ∧ ∀ n' d', d' ∈ Gen.DENOMS → d' ≤ maxDen → 0 < n' → n' < d' →
      Rat.abs err * 10000 < Rat.abs (v - ((w : Rat) + (n' : Rat) / (d' : Rat))) * 10000 + 2 := by
  obtain ⟨hv, _, hne, hc⟩ := newApprox_cases ratTable v acc maxDen maxWhole _ h
  rcases hc with ⟨h1, _⟩ | ⟨h1, _⟩ | ⟨e, hl, h1, _⟩
  · cases h1
  · cases h1; exact absurd rfl hn
  · cases h1
    refine ⟨rfl, ?_⟩
    intro n' d' hd hdm hn0 hnd
    exact fn_lookup_vs v hv hne maxDen e hl n' d' hd hdm hn0 hnd

/-- why `new_approx` returns nothing for a positive value whose whole part is within the limit -/
theorem fn_newApprox_none_cases (t : List FracEntry) (v acc : Rat) (maxDen maxWhole : Nat)
    (h : newApprox t v acc maxDen maxWhole = none) (hv : 0 < v) (hw : wholeOf v ≤ maxWhole)
    (hne : wholeOf v ≠ u32Max) :
    ¬ (v - (ratTrunc v : Rat) < Gen.APPROX_EPS.rat) ∧
    ¬ (Rat.abs (v - (ratRound v : Rat)) < acc * v ∧ 0 < roundedOf v ∧ roundedOf v ≤ maxWhole) ∧
    (lookup t (v - (ratTrunc v : Rat)) maxDen = none ∨
      ∃ e, lookup t (v - (ratTrunc v : Rat)) maxDen = some e ∧
        acc * v < Rat.abs (v - ((wholeOf v : Rat) + (e.num : Rat) / (e.den : Rat)))) := by
  unfold newApprox at h
  simp only [rat_le, rat_isFinite, rat_ofNat, rat_lt, rat_toU32, rat_trunc, rat_fract, rat_const,
    rat_round, rat_sub, rat_mul, rat_abs, rat_add, rat_div, rat_abs_eq, ratTrunc_intCast,
    decide_eq_true_eq, Bool.or_eq_true, Bool.and_eq_true, Bool.not_true] at h
  split at h
  · rename_i h0
    exfalso
    have : v ≤ 0 := by simpa using h0
    grind
  split at h
  · rename_i h1
    exfalso
    have : wholeOf v > maxWhole ∨ wholeOf v = u32Max := by simpa [wholeOf] using h1
    omega
  split at h
  · cases h
  rename_i h2
  split at h
  · cases h
  rename_i h3
  refine ⟨by simpa using h2, ?_, ?_⟩
  · intro hc
    exact h3 ⟨⟨hc.1, hc.2.1⟩, hc.2.2⟩
  · split at h
    · rename_i hl; exact Or.inl hl
    · rename_i e hl
      split at h
      · rename_i h5; exact Or.inr ⟨e, hl, by simpa [wholeOf] using h5⟩
      · cases h

/-- **Completeness, as far as it holds.**  For a positive value whose whole part is within the limit, `new_approx`
    declines only if the value is not an integer (up to 1e-10), rounding to an integer is not within the accuracy, and
    NO admissible fraction `whole + n'/d'` is within the accuracy less two fixed-point units:
    `accuracy·v < |v − (whole + n'/d')| + 2·10⁻⁴` for every one of them. -/
theorem fn_newApprox_complete (v acc : Rat) (maxDen maxWhole : Nat)
    (h : newApprox ratTable v acc maxDen maxWhole = none) (hv : 0 < v) (hw : wholeOf v ≤ maxWhole)
    (hne : wholeOf v ≠ u32Max) :
    ¬ (v - (ratTrunc v : Rat) < Gen.APPROX_EPS.rat) ∧
    ¬ (Rat.abs (v - (ratRound v : Rat)) < acc * v ∧ 0 < roundedOf v ∧ roundedOf v ≤ maxWhole) ∧
    ∀ n' d', d' ∈ Gen.DENOMS → d' ≤ maxDen → 0 < n' → n' < d' →
      acc * v * 10000 < Rat.abs (v - ((wholeOf v : Rat) + (n' : Rat) / (d' : Rat))) * 10000 + 2 := by
  obtain ⟨h1, h2, h3⟩ := fn_newApprox_none_cases ratTable v acc maxDen maxWhole h hv hw hne
  refine ⟨h1, h2, ?_⟩
  intro n' d' hd hdm hn0 hnd
  rcases h3 with hl | ⟨e, hl, herr⟩
  · exfalso
    have hsorted : keysSorted ratTable = true := by decide +kernel
    unfold lookup at hl
    have hnone := (fn_lookupKey_nearest ratTable hsorted _ maxDen).2 hl
    obtain ⟨e', he'm, _, he'd, _⟩ := fn_covers_frac fn_ratTable_covers hd hn0 hnd
    exact hnone e' he'm (Nat.le_trans he'd hdm)
  · have := fn_lookup_vs v hv hne maxDen e hl n' d' hd hdm hn0 hnd
    have h4 : acc * v * 10000 <
        Rat.abs (v - ((wholeOf v : Rat) + (e.num : Rat) / (e.den : Rat))) * 10000 :=
      (Rat.mul_lt_mul_right (by decide)).mpr herr
    grind

end Cook
