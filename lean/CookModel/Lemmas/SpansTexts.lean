import CookModel.Lemmas.SpansFrag
import CookModel.Lemmas.SpansOrder
/-
  C04, rows 5a/5b, the statements read by Props/C04.lean: the texts an event carries (`Ev.texts`), what
  `EvSpansOKO` says about each of them, and that `Ev.srcSpanF` of an event with good spans is a good span.
-/
set_option linter.unusedSectionVars false
set_option linter.unusedVariables false
namespace Cook

variable {α : Type} [Arith α] {off : Nat} {w : List Char}

def optText : Option Text → List Text
  | none => []
  | some t => [t]

/-- the unit text of a located quantity, if any -/
def qtyUnitTexts (q : Option (Loc (PQuantity α))) : List Text :=
  match q with
  | none => []
  | some q => optText q.val.unit

/-- every `Text` an event carries: the YAML text of the front matter, metadata key and value, section name,
    step / text-block text, the name, alias, note and unit of an ingredient, the name, alias and note of a
    cookware item, the name and unit of a timer -/
def Ev.texts : Ev α → List Text
  | .frontMatter t => [t]
  | .metadata k v => [k, v]
  | .«section» n => optText n
  | .text t => [t]
  | .ingredient i => i.val.name :: (optText i.val.alias ++ optText i.val.note ++ qtyUnitTexts i.val.quantity)
  | .cookware c => c.val.name :: (optText c.val.alias ++ optText c.val.note)
  | .timer t => optText t.val.name ++ qtyUnitTexts t.val.quantity
  | _ => []

theorem spansT_optText {p : Text → Prop} {o : Option Text} (h : OptOK p o) : ∀ t ∈ optText o, p t := by
  cases o with
  | none => intro t ht; cases ht
  | some x =>
    intro t ht
    simp only [optText, List.mem_singleton] at ht
    subst ht; exact h

theorem spansT_qtyUnit {q : Option (Loc (PQuantity α))} (h : OptOK (LocQOKO off w) q) :
    ∀ t ∈ qtyUnitTexts q, TextOKO off w t := by
  cases q with
  | none => intro t ht; cases ht
  | some q => exact spansT_optText (p := TextOKO off w) h.2.2

/-- every text of an event with good spans is `TextOKO`: span of boundaries, fragments faithful, ordered,
    disjoint, non-empty -/
theorem EvSpansOKO.texts {ev : Ev α} (h : EvSpansOKO off w ev) : ∀ t ∈ ev.texts, TextOKO off w t := by
  cases ev with
  | frontMatter t => intro x hx; simp only [Ev.texts, List.mem_singleton] at hx; subst hx; exact h
  | metadata k v =>
    intro x hx
    simp only [Ev.texts, List.mem_cons, List.not_mem_nil, or_false] at hx
    rcases hx with rfl | rfl
    · exact h.1
    · exact h.2.1
  | «section» n => exact spansT_optText (p := TextOKO off w) h
  | start k => intro x hx; cases hx
  | stop k => intro x hx; cases hx
  | text t => intro x hx; simp only [Ev.texts, List.mem_singleton] at hx; subst hx; exact h
  | ingredient i =>
    intro x hx
    simp only [Ev.texts, List.mem_cons, List.mem_append] at hx
    rcases hx with rfl | (hx | hx) | hx
    · exact h.2.2.2.1
    · exact spansT_optText (p := TextOKO off w) h.2.2.2.2.1 x hx
    · exact spansT_optText (p := TextOKO off w) h.2.2.2.2.2.2 x hx
    · exact spansT_qtyUnit h.2.2.2.2.2.1 x hx
  | cookware c =>
    intro x hx
    simp only [Ev.texts, List.mem_cons, List.mem_append] at hx
    rcases hx with rfl | hx | hx
    · exact h.2.2.1
    · exact spansT_optText (p := TextOKO off w) h.2.2.2.1 x hx
    · exact spansT_optText (p := TextOKO off w) h.2.2.2.2.2 x hx
  | timer t =>
    intro x hx
    simp only [Ev.texts, List.mem_append] at hx
    rcases hx with hx | hx
    · exact spansT_optText (p := TextOKO off w) h.2.1 x hx
    · exact spansT_qtyUnit h.2.2 x hx
  | error d => intro x hx; cases hx
  | warning d => intro x hx; cases hx

/-- what `TextOKO` says, spelled out -/
theorem TextOKO.spelled {t : Text} (h : TextOKO off w t) :
    SpanOK off w t.span ∧
    t.frags.Pairwise (fun f g => f.stop ≤ g.offset) ∧
    ∀ f ∈ t.frags, f.text ≠ [] ∧ SliceAt off w f.offset f.text ∧ t.span.start ≤ f.offset ∧ f.stop ≤ t.span.stop :=
  ⟨h.1, h.2.2.1, fun f hf => ⟨h.2.2.2 f hf, h.2.1 f hf, h.2.2.frag_in_span f hf⟩⟩

/-- the source span of a content event (front matter included) of an event with good spans is a good span -/
theorem EvSpansOK.srcSpanF {ev : Ev α} (h : EvSpansOK off w ev) : ∀ sp, ev.srcSpanF = some sp → SpanOK off w sp := by
  intro sp hsp
  cases ev with
  | frontMatter t => simp only [Ev.srcSpanF, Option.some.injEq] at hsp; subst hsp; exact h.1
  | metadata k v =>
    simp only [Ev.srcSpanF, Ev.srcSpan, Option.some.injEq] at hsp; subst hsp
    obtain ⟨hk, hv, hkv⟩ := h
    exact ⟨hk.1.1, hv.1.2.1, by have := hk.1.2.2; have := hv.1.2.2; show k.span.start ≤ v.span.stop; omega⟩
  | «section» n =>
    cases n with
    | none => simp [Ev.srcSpanF, Ev.srcSpan] at hsp
    | some n => simp only [Ev.srcSpanF, Ev.srcSpan, Option.some.injEq] at hsp; subst hsp; exact h.1
  | start k => simp [Ev.srcSpanF, Ev.srcSpan] at hsp
  | stop k => simp [Ev.srcSpanF, Ev.srcSpan] at hsp
  | text t => simp only [Ev.srcSpanF, Ev.srcSpan, Option.some.injEq] at hsp; subst hsp; exact h.1
  | ingredient i => simp only [Ev.srcSpanF, Ev.srcSpan, Option.some.injEq] at hsp; subst hsp; exact h.1
  | cookware c => simp only [Ev.srcSpanF, Ev.srcSpan, Option.some.injEq] at hsp; subst hsp; exact h.1
  | timer t => simp only [Ev.srcSpanF, Ev.srcSpan, Option.some.injEq] at hsp; subst hsp; exact h.1
  | error d => simp [Ev.srcSpanF, Ev.srcSpan] at hsp
  | warning d => simp [Ev.srcSpanF, Ev.srcSpan] at hsp

end Cook
