import CookModel.Lemmas.CollectorFold
/-
  No `apanic` site of the analysis pass (`Analysis/Collector.lean`) is reachable on the events of
  the parser.  `PFAt m s`: running `m` from `s` leaves the panic flag as it was.  One lemma per
  function; the conditional ones state under which facts of the state their sites are unreachable.
-/
set_option linter.unusedSectionVars false
set_option linter.unusedVariables false
set_option linter.unusedSimpArgs false
namespace Cook
variable {α : Type} [Arith α]

/-- running `m` from `s` does not change the panic flag -/
def PFAt {β : Type} (m : A α β) (s : Col α) : Prop := (m s).2.panic = s.panic

/-- `m` never changes the panic flag -/
structure PFp {β : Type} (m : A α β) : Prop where
  at_ : ∀ s, PFAt m s

namespace PFAt
variable {β γ : Type}

theorem pure (a : β) (s : Col α) : PFAt (Pure.pure a : A α β) s := rfl
theorem get (s : Col α) : PFAt (get : A α (Col α)) s := rfl
theorem aerr (k : String) (l : List Span) (s : Col α) : PFAt (aerr (α := α) k l) s := rfl
theorem awarn (k : String) (l : List Span) (s : Col α) : PFAt (awarn (α := α) k l) s := rfl
theorem modify (f : Col α → Col α) (s : Col α) (h : (f s).panic = s.panic) : PFAt (modify f : A α PUnit) s := h
theorem set (s' s : Col α) (h : s'.panic = s.panic) : PFAt (set s' : A α PUnit) s := h

/-- general sequencing: the continuation is run from the state `m` leaves -/
theorem bind {m : A α β} {f : β → A α γ} {s : Col α} (h1 : PFAt m s) (h2 : PFAt (f (m s).1) (m s).2) :
    PFAt (m >>= f) s := by
  unfold PFAt at *
  rw [A_bind, h2, h1]

theorem bind_get {f : Col α → A α γ} {s : Col α} (h : PFAt (f s) s) : PFAt ((MonadState.get : A α (Col α)) >>= f) s := h

theorem bind_modify {g : Col α → Col α} {f : PUnit → A α γ} {s : Col α} (h1 : (g s).panic = s.panic)
    (h2 : PFAt (f ⟨⟩) (g s)) : PFAt ((_root_.modify g : A α PUnit) >>= f) s := by
  unfold PFAt at *
  rw [A_bind, A_modify, h2, h1]

/-- sequencing after a piece that only touches `diags` (and, as we show, not `panic`): the
    continuation is run from `s` with other diagnostics -/
theorem bind_diag {m : A α β} {f : β → A α γ} {s : Col α} (hd : DiagOnly m) (h1 : PFAt m s)
    (h2 : ∀ d, PFAt (f (m s).1) { s with diags := d }) : PFAt (m >>= f) s := by
  obtain ⟨d, p, hp⟩ := hd.out s
  have hpp : p = s.panic := by
    have := h1; unfold PFAt at this; rw [hp] at this; exact this
  apply bind h1
  rw [hp, hpp]
  exact h2 d

theorem ite {c : Prop} [Decidable c] {a b : A α β} {s : Col α} (ha : c → PFAt a s) (hb : ¬c → PFAt b s) :
    PFAt (if c then a else b) s := by
  split
  · exact ha ‹_›
  · exact hb ‹_›

theorem forIn {δ : Type} (l : List δ) (init : γ) (f : δ → γ → A α (ForInStep γ)) (s : Col α)
    (hd : ∀ b c, DiagOnly (f b c)) (h : ∀ b ∈ l, ∀ c d, PFAt (f b c) { s with diags := d }) :
    ∀ d, PFAt (forIn l init f) { s with diags := d } := by
  induction l generalizing init with
  | nil => intro d; simp only [List.forIn_nil]; exact PFAt.pure _ _
  | cons x xs ih =>
    intro d
    simp only [List.forIn_cons]
    refine bind_diag (hd x init) (h x (by simp) init d) (fun d' => ?_)
    split
    · exact PFAt.pure _ _
    · exact ih _ (fun b hb => h b (List.mem_cons_of_mem _ hb)) d'

end PFAt

theorem PFp.pfAt {β : Type} {m : A α β} (h : PFp m) (s : Col α) : PFAt m s := h.at_ s

/-- leaves of `pf_at` -/
syntax "pfp_leaf" : tactic
macro_rules | `(tactic| pfp_leaf) => `(tactic| first
  | with_reducible exact PFAt.pure _ _
  | with_reducible exact PFAt.get _
  | with_reducible exact PFAt.aerr _ _ _
  | with_reducible exact PFAt.awarn _ _ _
  | ((with_reducible apply PFAt.modify) <;> rfl)
  | ((with_reducible apply PFAt.set) <;> rfl)
  | with_reducible assumption)

/-- decomposes a `PFAt` goal along the `do` block; goals at `apanic` sites are left to be refuted -/
macro "pf_at" : tactic => `(tactic|
  repeat' (first
    | intro _
    | pfp_leaf
    | with_reducible apply PFAt.bind_get
    | ((with_reducible apply PFAt.bind_modify) <;> first | rfl | skip)
    | with_reducible apply PFAt.bind_diag (by diag_leaf)
    | with_reducible apply PFAt.bind
    | split
    | dsimp only))

section pieces

theorem valueOf_pf (env : Env) (v : PQValue α) (b : Bool) : PFp (valueOf env v b) := by
  constructor; intro s; unfold valueOf; pf_at
macro_rules | `(tactic| pfp_leaf) => `(tactic| with_reducible exact (valueOf_pf ..).pfAt _)

theorem quantityOf_pf (env : Env) (q : Loc (PQuantity α)) (b : Bool) : PFp (quantityOf env q b) := by
  constructor; intro s; unfold quantityOf; pf_at
macro_rules | `(tactic| pfp_leaf) => `(tactic| with_reducible exact (quantityOf_pf ..).pfAt _)

theorem resolveReference_pf (env : Env) (container : String) (inherit : Nat) (existing : List (Str × Modifiers)) (name : Str) (mods : Modifiers) (location modLoc : Span) : PFp (resolveReference (α := α) env container inherit existing name mods location modLoc) := by
  constructor; intro s; unfold resolveReference; pf_at
macro_rules | `(tactic| pfp_leaf) => `(tactic| with_reducible exact (resolveReference_pf ..).pfAt _)

theorem optQuantityOf_pf (env : Env) (q : Option (Loc (PQuantity α))) (b : Bool) : PFp (optQuantityOf env q b) := by
  constructor; intro s; unfold optQuantityOf; pf_at
macro_rules | `(tactic| pfp_leaf) => `(tactic| with_reducible exact (optQuantityOf_pf ..).pfAt _)

theorem optValueOf_pf (env : Env) (q : Option (Loc (PQValue α))) : PFp (optValueOf env q) := by
  constructor; intro s; unfold optValueOf; pf_at
macro_rules | `(tactic| pfp_leaf) => `(tactic| with_reducible exact (optValueOf_pf ..).pfAt _)

theorem noteReferenceError_pf (input : Str) (a b : Span) (c : Option Span) : PFp (noteReferenceError (α := α) input a b c) := by
  constructor; intro s; unfold noteReferenceError; pf_at
macro_rules | `(tactic| pfp_leaf) => `(tactic| with_reducible exact (noteReferenceError_pf ..).pfAt _)

theorem timerQuantityChecks_pf (env : Env) (q : Loc (PQuantity α)) (r : Quantity (ScalableValue α)) : PFp (timerQuantityChecks env q r) := by
  constructor; intro s; unfold timerQuantityChecks; pf_at
macro_rules | `(tactic| pfp_leaf) => `(tactic| with_reducible exact (timerQuantityChecks_pf ..).pfAt _)

theorem timerQuantity_pf (env : Env) (q : Option (Loc (PQuantity α))) : PFp (timerQuantity env q) := by
  constructor; intro s; unfold timerQuantity; pf_at
macro_rules | `(tactic| pfp_leaf) => `(tactic| with_reducible exact (timerQuantity_pf ..).pfAt _)

theorem timerA_pf (env : Env) (lt : Loc (PTimer α)) : PFp (timerA env lt) := by
  constructor; intro s; unfold timerA; pf_at
macro_rules | `(tactic| pfp_leaf) => `(tactic| with_reducible exact (timerA_pf ..).pfAt _)

theorem inStepTextStep_pf (env : Env) (t : Text) (items : List Item) : PFp (inStepTextStep (α := α) env t items) := by
  constructor; intro s; unfold inStepTextStep; pf_at
macro_rules | `(tactic| pfp_leaf) => `(tactic| with_reducible exact (inStepTextStep_pf ..).pfAt _)

theorem pushContent_pf (c : Content) : PFp (pushContent (α := α) c) := by
  constructor; intro s; unfold pushContent; pf_at
macro_rules | `(tactic| pfp_leaf) => `(tactic| with_reducible exact (pushContent_pf ..).pfAt _)

/-! ### the conditional pieces -/

theorem resolveInterRef_pfAt (d : Loc InterData) (s : Col α) (h : 0 ≤ d.val.val) : PFAt (resolveInterRef d) s := by
  unfold resolveInterRef
  pf_at
  all_goals (exfalso; omega)
macro_rules | `(tactic| pfp_leaf) => `(tactic| with_reducible exact resolveInterRef_pfAt _ _ (by assumption))

theorem ingrInterChecks_pfAt (i : PIngredient α) (igr : Ingredient (ScalableValue α)) (s : Col α)
    (h : igr.modifiers.contains Modifiers.REF = true) : PFAt (ingrInterChecks i igr) s := by
  unfold ingrInterChecks
  pf_at
  rename_i hc
  rw [h] at hc; cases hc
macro_rules | `(tactic| pfp_leaf) => `(tactic| with_reducible exact ingrInterChecks_pfAt _ _ _ (by assumption))

theorem ingrInter_pfAt (i : PIngredient α) (igr : Ingredient (ScalableValue α)) (d : Loc InterData) (s : Col α)
    (h : igr.modifiers.contains Modifiers.REF = true) (hd : 0 ≤ d.val.val) : PFAt (ingrInter i igr d) s := by
  unfold ingrInter
  pf_at

/-- the unit checks of a reference: every index is in range of both tables, and an entry with a
    quantity has a located quantity -/
theorem ingrUnitChecks_pfAt (env : Env) (i : PIngredient α) (newQ : Quantity (ScalableValue α)) (idxs : List Nat)
    (s : Col α)
    (hr : ∀ idx ∈ idxs, idx < s.ingredients.size ∧ idx < s.locIngr.size)
    (hq : ∀ (idx : Nat) (ig : Ingredient (ScalableValue α)) (li : Loc (PIngredient α)),
      s.ingredients[idx]? = some ig → s.locIngr[idx]? = some li →
      ig.quantity.isSome = true → li.val.quantity.isSome = true) :
    PFAt (ingrUnitChecks env i newQ idxs) s := by
  unfold ingrUnitChecks
  apply PFAt.bind_get
  dsimp only
  refine PFAt.forIn _ _ _ s ?_ ?_ s.diags
  · intro b c; diag_only
  · intro idx hidx c d
    obtain ⟨h1, h2⟩ := hr idx hidx
    pf_at
    · rename_i other otherLoc ho hl _ q hq' _ _ _ hn
      have := hq idx other otherLoc ho hl (by rw [hq']; rfl)
      exfalso
      revert hn this
      cases otherLoc.val.quantity <;> simp
    · rename_i hne
      exfalso
      exact hne _ _ (Array.getElem?_eq_getElem h1) (Array.getElem?_eq_getElem h2)

/-- an ingredient with a quantity has a located quantity (`locations.ingredients` is pushed in
    lock-step with `ingredients`) -/
def QLinkI (ings : Array (Ingredient (ScalableValue α))) (locs : Array (Loc (PIngredient α))) : Prop :=
  ∀ (idx : Nat) (ig : Ingredient (ScalableValue α)) (li : Loc (PIngredient α)),
    ings[idx]? = some ig → locs[idx]? = some li → ig.quantity.isSome = true → li.val.quantity.isSome = true

def QLinkC (cws : Array (Cookware (ScalableValue α))) (locs : Array (Loc (PCookware α))) : Prop :=
  ∀ (idx : Nat) (cw : Cookware (ScalableValue α)) (lc : Loc (PCookware α)),
    cws[idx]? = some cw → locs[idx]? = some lc → cw.quantity.isSome = true → lc.val.quantity.isSome = true

theorem ingrRefChecks_pfAt (env : Env) (input : Str) (li : Loc (PIngredient α)) (igr : Ingredient (ScalableValue α))
    (refTo : Nat) (defn : Ingredient (ScalableValue α)) (defLoc : Loc (PIngredient α)) (s : Col α)
    (hdef : defn.relation.relation.isReference = false)
    (hr : ∀ idx ∈ refTo :: defn.relation.relation.referencedFrom, idx < s.ingredients.size ∧ idx < s.locIngr.size)
    (hq : QLinkI s.ingredients s.locIngr)
    (hdq : defn.quantity.isSome = true → defLoc.val.quantity.isSome = true) :
    PFAt (ingrRefChecks env input li igr refTo defn defLoc) s := by
  unfold ingrRefChecks
  extract_lets i dis rl dl jp3 jp2 jp1 jp0
  have h3 : ∀ r d, PFAt (jp3 r) { s with diags := d } := by
    intro r d; simp only [jp3]; pf_at
    rename_i rq dq hrq hdq' _ hn
    exfalso
    have := hdq (by rw [hdq']; rfl)
    revert hn this
    cases defLoc.val.quantity <;> simp
  clear_value jp3
  have h2 : ∀ r d, PFAt (jp2 r) { s with diags := d } := by
    intro r d; simp only [jp2]; pf_at
    all_goals exact h3 _ _
  clear_value jp2
  have h1 : ∀ r d, PFAt (jp1 r) { s with diags := d } := by
    intro r d; simp only [jp1]; pf_at
    all_goals exact h2 _ _
  clear_value jp1
  have h0 : ∀ r d, PFAt (jp0 r) { s with diags := d } := by
    intro r d; simp only [jp0]; pf_at
    all_goals first | exact h1 _ _ | exact ingrUnitChecks_pfAt _ _ _ _ _ hr hq
  clear_value jp0
  split
  · rename_i hc
    rw [hdef] at hc; cases hc
  · exact h0 _ s.diags

theorem ingrSetReferencedFrom_pfAt (refTo newIndex : Nat) (defn : Ingredient (ScalableValue α)) (s : Col α)
    (hdef : defn.relation.relation.isReference = false) : PFAt (ingrSetReferencedFrom refTo newIndex defn) s := by
  unfold ingrSetReferencedFrom
  split
  · exact PFAt.modify _ _ rfl
  · rename_i h; rw [h] at hdef; cases hdef

/-- the regular branch of `ingredient`: the reference target found by `rposition` is in range of both
    tables and is a definition; its back-links are in range -/
theorem ingrRegular_pfAt (env : Env) (input : Str) (li : Loc (PIngredient α)) (igr0 : Ingredient (ScalableValue α))
    (s : Col α) (hloc : s.locIngr.size = s.ingredients.size) (htab : IngrTable env s.ingredients)
    (hq : QLinkI s.ingredients s.locIngr) : PFAt (ingrRegular env input li igr0) s := by
  unfold ingrRegular
  apply PFAt.bind_get
  dsimp only
  have hout := resolveReference_out (α := α) env "ingredient"
    (Modifiers.HIDDEN ||| Modifiers.OPT ||| Modifiers.RECIPE) (s.ingredients.toList.map (fun x => (x.name, x.modifiers)))
    igr0.name igr0.modifiers li.span li.val.modifiers.span s
  refine PFAt.bind_diag (by diag_leaf) ((resolveReference_pf ..).pfAt _) (fun d => ?_)
  generalize resolveReference (α := α) env "ingredient"
    (Modifiers.HIDDEN ||| Modifiers.OPT ||| Modifiers.RECIPE) (s.ingredients.toList.map (fun x => (x.name, x.modifiers)))
    igr0.name igr0.modifiers li.span li.val.modifiers.span s = rr at hout ⊢
  cases ho : rr.1.2 with
  | none => exact PFAt.pure _ _
  | some o =>
    obtain ⟨hsn, hREF⟩ := hout o ho
    obtain ⟨n, m, hex, hmREF, hname⟩ := sameNameIdx_spec _ _ _ _ hsn
    simp only [List.getElem?_map, Array.getElem?_toList, Option.map_eq_some_iff, Prod.mk.injEq] at hex
    obtain ⟨defn, hdefn, rfl, rfl⟩ := hex
    have hlt : o.refTo < s.ingredients.size := lt_size_of_getElem? hdefn
    obtain ⟨defLoc, hdefLoc⟩ : ∃ dl, s.locIngr[o.refTo]? = some dl :=
      ⟨s.locIngr[o.refTo]'(by omega), Array.getElem?_eq_getElem _⟩
    obtain ⟨rf, b, hrel⟩ := htab.nonREF_def _ _ hdefn hmREF
    have hisdef : defn.relation.relation.isReference = false := by rw [hrel]; rfl
    dsimp only
    apply PFAt.bind_get
    dsimp only
    rw [hdefn, hdefLoc]
    dsimp only
    with_reducible refine PFAt.bind_diag (by diag_leaf) ?_ (fun d' => ?_)
    · refine ingrRefChecks_pfAt _ _ _ _ _ _ _ _ hisdef ?_ hq ?_
      · intro idx hidx
        simp only [List.mem_cons] at hidx
        rcases hidx with rfl | hidx
        · exact ⟨hlt, by show o.refTo < s.locIngr.size; omega⟩
        · have := htab.rfBound _ _ hdefn idx hidx
          exact ⟨this, by show idx < s.locIngr.size; omega⟩
      · exact hq _ _ _ hdefn hdefLoc
    · with_reducible apply PFAt.bind
      · exact ingrSetReferencedFrom_pfAt _ _ _ _ hisdef
      · exact PFAt.pure _ _

/-- what the events must satisfy for the analysis not to panic on them: `EvOK` plus a non-negative
    intermediate reference value -/
def EvOK' : Ev α → Prop
  | .ingredient i => (i.val.inter.isSome = true → i.val.modifiers.val.contains Modifiers.REF = true) ∧
      ∀ d, i.val.inter = some d → 0 ≤ d.val.val
  | .timer t => t.val.name.isSome = true ∨ t.val.quantity.isSome = true
  | _ => True

theorem EvOK'.evOK {ev : Ev α} (h : EvOK' ev) : EvOK ev := by
  cases ev <;> first | trivial | exact h | exact h.1

theorem ingrBuild_pfAt (env : Env) (input : Str) (li : Loc (PIngredient α)) (igr0 : Ingredient (ScalableValue α))
    (s : Col α) (hloc : s.locIngr.size = s.ingredients.size) (htab : IngrTable env s.ingredients)
    (hq : QLinkI s.ingredients s.locIngr)
    (hev : EvOK' (.ingredient li)) (hm : igr0.modifiers = li.val.modifiers.val) :
    PFAt (ingrBuild env input li igr0) s := by
  unfold ingrBuild
  with_reducible apply PFAt.bind
  · split
    · rename_i d hd
      exact ingrInter_pfAt _ _ _ _ (by rw [hm]; exact hev.1 (by rw [hd]; rfl)) (hev.2 d hd)
    · exact ingrRegular_pfAt env input li igr0 s hloc htab hq
  · pf_at

theorem ingredientA_pfAt (env : Env) (input : Str) (li : Loc (PIngredient α))
    (s : Col α) (hloc : s.locIngr.size = s.ingredients.size) (htab : IngrTable env s.ingredients)
    (hq : QLinkI s.ingredients s.locIngr) (hev : EvOK' (.ingredient li)) :
    PFAt (ingredientA env input li) s := by
  unfold ingredientA
  dsimp only
  with_reducible refine PFAt.bind_diag (by diag_leaf) ((optQuantityOf_pf ..).pfAt _) (fun d => ?_)
  apply PFAt.bind_get
  exact ingrBuild_pfAt env input li _ _ hloc htab hq hev rfl

theorem cwRefChecks_pfAt (input : Str) (lc : Loc (PCookware α)) (cw : Cookware (ScalableValue α))
    (defn : Cookware (ScalableValue α)) (defLoc : Loc (PCookware α)) (s : Col α)
    (hdef : defn.relation.isReference = false)
    (hdq : defn.quantity.isSome = true → defLoc.val.quantity.isSome = true) :
    PFAt (cwRefChecks input lc cw defn defLoc) s := by
  unfold cwRefChecks
  extract_lets c dis rl dl jp2 jp1 jp0
  have h2 : ∀ r d, PFAt (jp2 r) { s with diags := d } := by
    intro r d; simp only [jp2]; pf_at
    rename_i rq dq hrq hdq' _ hn
    exfalso
    have := hdq (by rw [hdq']; rfl)
    revert hn this
    cases defLoc.val.quantity <;> simp
  clear_value jp2
  have h1 : ∀ r d, PFAt (jp1 r) { s with diags := d } := by
    intro r d; simp only [jp1]; pf_at
    all_goals exact h2 _ _
  clear_value jp1
  have h0 : ∀ r d, PFAt (jp0 r) { s with diags := d } := by
    intro r d; simp only [jp0]; pf_at
    all_goals exact h1 _ _
  clear_value jp0
  split
  · rename_i hc
    rw [hdef] at hc; cases hc
  · exact h0 _ s.diags

theorem cwSetReferencedFrom_pfAt (refTo newIndex : Nat) (defn : Cookware (ScalableValue α)) (s : Col α)
    (hdef : defn.relation.isReference = false) : PFAt (cwSetReferencedFrom refTo newIndex defn) s := by
  unfold cwSetReferencedFrom
  split
  · exact PFAt.modify _ _ rfl
  · rename_i h; rw [h] at hdef; cases hdef

theorem cwResolve_pfAt (env : Env) (input : Str) (lc : Loc (PCookware α)) (cw0 : Cookware (ScalableValue α))
    (s : Col α) (hloc : s.locCw.size = s.cookware.size) (htab : CwTable env s.cookware)
    (hq : QLinkC s.cookware s.locCw) : PFAt (cwResolve env input lc cw0) s := by
  unfold cwResolve
  apply PFAt.bind_get
  dsimp only
  have hout := resolveReference_out (α := α) env "cookware item"
    (Modifiers.HIDDEN ||| Modifiers.OPT) (s.cookware.toList.map (fun x => (x.name, x.modifiers)))
    cw0.name cw0.modifiers lc.span lc.val.modifiers.span s
  refine PFAt.bind_diag (by diag_leaf) ((resolveReference_pf ..).pfAt _) (fun d => ?_)
  generalize resolveReference (α := α) env "cookware item"
    (Modifiers.HIDDEN ||| Modifiers.OPT) (s.cookware.toList.map (fun x => (x.name, x.modifiers)))
    cw0.name cw0.modifiers lc.span lc.val.modifiers.span s = rr at hout ⊢
  cases ho : rr.1.2 with
  | none => exact PFAt.pure _ _
  | some o =>
    obtain ⟨hsn, hREF⟩ := hout o ho
    obtain ⟨n, m, hex, hmREF, hname⟩ := sameNameIdx_spec _ _ _ _ hsn
    simp only [List.getElem?_map, Array.getElem?_toList, Option.map_eq_some_iff, Prod.mk.injEq] at hex
    obtain ⟨defn, hdefn, rfl, rfl⟩ := hex
    have hlt : o.refTo < s.cookware.size := lt_size_of_getElem? hdefn
    obtain ⟨defLoc, hdefLoc⟩ : ∃ dl, s.locCw[o.refTo]? = some dl :=
      ⟨s.locCw[o.refTo]'(by omega), Array.getElem?_eq_getElem _⟩
    obtain ⟨rf, b, hrel⟩ := htab.nonREF_def _ _ hdefn hmREF
    have hisdef : defn.relation.isReference = false := by rw [hrel]; rfl
    dsimp only
    apply PFAt.bind_get
    dsimp only
    rw [hdefn, hdefLoc]
    dsimp only
    with_reducible refine PFAt.bind_diag (by diag_leaf) ?_ (fun d' => ?_)
    · exact cwRefChecks_pfAt _ _ _ _ _ _ hisdef (hq _ _ _ hdefn hdefLoc)
    · with_reducible apply PFAt.bind
      · exact cwSetReferencedFrom_pfAt _ _ _ _ hisdef
      · exact PFAt.pure _ _

theorem cwBuild_pfAt (env : Env) (input : Str) (lc : Loc (PCookware α)) (cw0 : Cookware (ScalableValue α))
    (s : Col α) (hloc : s.locCw.size = s.cookware.size) (htab : CwTable env s.cookware)
    (hq : QLinkC s.cookware s.locCw) : PFAt (cwBuild env input lc cw0) s := by
  unfold cwBuild
  with_reducible apply PFAt.bind
  · exact cwResolve_pfAt env input lc cw0 s hloc htab hq
  · pf_at

theorem cookwareA_pfAt (env : Env) (input : Str) (lc : Loc (PCookware α))
    (s : Col α) (hloc : s.locCw.size = s.cookware.size) (htab : CwTable env s.cookware)
    (hq : QLinkC s.cookware s.locCw) : PFAt (cookwareA env input lc) s := by
  unfold cookwareA
  dsimp only
  with_reducible refine PFAt.bind_diag (by diag_leaf) ((optValueOf_pf ..).pfAt _) (fun d => ?_)
  apply PFAt.bind_get
  exact cwBuild_pfAt env input lc _ _ hloc htab hq

theorem insertionSort_singleton (x : Span) : insertionSort [x] = [x] := rfl

/-- `time_override_check` right after the key was inserted: `locs[new]` has its entry -/
theorem timeOverrideCheck_pfAt (new : StdKey) (s : Col α)
    (h : ∃ p, s.metaLocs.find? (fun p => p.1 == new) = some p) : PFAt (timeOverrideCheck new) s := by
  obtain ⟨p, hp⟩ := h
  unfold timeOverrideCheck
  pf_at
  all_goals (
    rename_i hn
    exfalso
    simp only [List.filterMap_cons, hp, Option.map_some, List.filterMap_nil, insertionSort_singleton] at hn
    simp at hn)

/-- a one-character key cannot both start with `[` and end with `]` -/
theorem config_key_absurd (m : Bool) (k : Str)
    (h1 : ¬(m && k.head? == some '[' && k.getLast? == some ']' && decide (k.length ≥ 2)) = true)
    (h2 : (m && k.head? == some '[' && k.getLast? == some ']') = true) : False := by
  simp only [Bool.and_eq_true, beq_iff_eq, decide_eq_true_eq] at h1 h2
  obtain ⟨⟨hm, hh⟩, hl⟩ := h2
  have hlen : ¬ k.length ≥ 2 := fun hge => h1 ⟨⟨⟨hm, hh⟩, hl⟩, hge⟩
  cases k with
  | nil => cases hh
  | cons c t =>
    cases t with
    | nil =>
      simp only [List.head?_cons, Option.some.injEq] at hh
      simp only [List.getLast?_singleton, Option.some.injEq] at hl
      rw [hh] at hl; cases hl
    | cons c' t' => simp at hlen

theorem find?_filter_append_last (l : List (StdKey × Span)) (sk : StdKey) (sp : Span) :
    (List.filter (fun p => p.1 != sk) l ++ [(sk, sp)]).find? (fun p => p.1 == sk) = some (sk, sp) := by
  rw [List.find?_append]
  have : (List.filter (fun p => p.1 != sk) l).find? (fun p => p.1 == sk) = none := by
    rw [List.find?_eq_none]
    intro x hx
    simp only [List.mem_filter] at hx
    simpa using hx.2
  rw [this]
  simp

/-- `>>` metadata: neither the key slice nor `time_override_check`'s index can panic -/
theorem metadataA_pfAt (env : Env) (key value : Text) (s : Col α) : PFAt (metadataA env key value) s := by
  unfold metadataA
  pf_at
  all_goals first
    | exact timeOverrideCheck_pfAt _ _ ⟨_, find?_filter_append_last _ _ _⟩
    | (exfalso; apply config_key_absurd <;> assumption)

end pieces

end Cook
