import CookModel.Lemmas.AisleShape
import CookModel.Lemmas.AisleWF
import CookModel.Lemmas.AisleRoundtrip
/-
  When does `parse` succeed?  Exactly when the classified lines of the file (`classify`, from the text
  of a line alone) have no ingredient line before the first category, no `|` in a category name, no
  category name twice and no ingredient name twice (`FileOK`).  The "only if" half follows from the shape
  and well-formedness lemmas; the "if" half is a progress proof over the loop.
-/
namespace Cook.Aisle

/-- the category names of the classified lines, in file order -/
def catNamesOf : List LineKind → List (List Char)
  | [] => []
  | .blank :: ks => catNamesOf ks
  | .igr _ :: ks => catNamesOf ks
  | .cat n :: ks => n :: catNamesOf ks

/-- the ingredient names of the classified lines, in file order -/
def igrNamesOf : List LineKind → List (List Char)
  | [] => []
  | .blank :: ks => igrNamesOf ks
  | .igr ns :: ks => ns ++ igrNamesOf ks
  | .cat _ :: ks => igrNamesOf ks

/-- what `parse` accepts, said of the classified lines of the file -/
structure FileOK (ks : List LineKind) : Prop where
  /-- no ingredient line before the first category -/
  noOrphan : (groupR ks).1 = []
  /-- no category name contains `|` -/
  catNoBar : ∀ n ∈ catNamesOf ks, '|' ∉ n
  /-- no category name occurs twice -/
  catsNodup : (catNamesOf ks).Nodup
  /-- no ingredient name occurs twice (in a line or in the file) -/
  namesNodup : (igrNamesOf ks).Nodup

theorem complete_groupR_catNames (ks : List LineKind) : (groupR ks).2.map (·.name) = catNamesOf ks := by
  induction ks with
  | nil => rfl
  | cons k ks ih => cases k <;> simp [groupR, catNamesOf, ih]

theorem complete_groupR_names (ks : List LineKind) :
    (groupR ks).1.flatMap (·.names) ++ allNames (groupR ks).2 = igrNamesOf ks := by
  induction ks with
  | nil => rfl
  | cons k ks ih =>
    cases k with
    | blank => simpa [groupR, igrNamesOf] using ih
    | igr ns => simp only [groupR, igrNamesOf, List.flatMap_cons, List.append_assoc, ih]
    | cat n =>
      simp only [groupR, igrNamesOf, List.flatMap_nil, List.nil_append, allNames, List.flatMap_cons]
      simpa [allNames] using ih

/-- "only if": a file that parses is `FileOK` -/
theorem complete_fileOK_of_parse (s : List Char) (c : Conf) (h : parse s = .ok c) :
    FileOK ((lineTexts s).map classify) := by
  obtain ⟨hcats, horph⟩ := parse_shape s c h
  have hwf := parse_wf s c h
  refine ⟨horph, ?_, ?_, ?_⟩
  · intro n hn
    rw [← complete_groupR_catNames, ← hcats] at hn
    obtain ⟨cat, hcat, rfl⟩ := List.mem_map.1 hn
    exact (hwf.cats cat hcat).name.noBar
  · rw [← complete_groupR_catNames, ← hcats]; exact hwf.catsNodup
  · rw [← complete_groupR_names, horph, ← hcats]; simpa using hwf.namesNodup

/-! ### progress of one iteration, by the kind of the line -/

theorem complete_classify_cat {raw n : List Char} (h : classify raw = .cat n) :
    isCatLine (trimChars (stripCommentChars raw)) = true ∧ n = innerChars (trimChars (stripCommentChars raw)) := by
  unfold classify at h
  split at h
  · rename_i hc; cases h; exact ⟨hc, rfl⟩
  · split at h <;> cases h

theorem complete_classify_blank {raw : List Char} (h : classify raw = .blank) :
    isCatLine (trimChars (stripCommentChars raw)) = false ∧ (trimChars (stripCommentChars raw)).isEmpty = true := by
  unfold classify at h
  split at h
  · cases h
  · rename_i hc
    split at h
    · rename_i he; exact ⟨by simpa using hc, he⟩
    · cases h

theorem complete_classify_igr {raw : List Char} {ns : List (List Char)} (h : classify raw = .igr ns) :
    isCatLine (trimChars (stripCommentChars raw)) = false ∧ (trimChars (stripCommentChars raw)).isEmpty = false ∧
      ns = (pieces '|' (trimChars (stripCommentChars raw))).map trimChars := by
  unfold classify at h
  split at h
  · cases h
  · rename_i hc
    split at h
    · cases h
    · rename_i he; cases h; exact ⟨by simpa using hc, by simpa using he, rfl⟩

theorem complete_stepLine_blank (inLen : Nat) (st : St) (raw : Slice) (h : classify raw.chars = .blank) :
    stepLine inLen st raw = .ok st := by
  obtain ⟨h1, h2⟩ := complete_classify_blank h
  unfold stepLine
  rw [line_chars, h1, h2]
  rfl

theorem complete_stepLine_cat (inLen : Nat) (st : St) (raw : Slice) (n : List Char)
    (h : classify raw.chars = .cat n) (hbar : '|' ∉ n) (hfresh : n ∉ st.usedCats.map (·.chars)) :
    ∃ st', stepLine inLen st raw = .ok st' ∧ st'.cur.isSome = true ∧
      st'.usedCats.map (·.chars) = n :: st.usedCats.map (·.chars) ∧ st'.usedNames = st.usedNames := by
  obtain ⟨h1, h2⟩ := complete_classify_cat h
  have hlen := isCatLine_length h1
  have hin : (inner (trim (stripComment raw))).chars = n := by
    simp only [inner, line_chars]; exact h2.symm
  refine ⟨⟨pushCur st, some ⟨(inner (trim (stripComment raw))).chars, []⟩,
      inner (trim (stripComment raw)) :: st.usedCats, st.usedNames⟩, ?_, rfl, by simp [hin], rfl⟩
  unfold stepLine
  rw [line_chars, h1, if_pos rfl]
  unfold catLine
  rw [if_neg (by rw [line_chars]; omega), hin, if_neg (by simpa using hbar), findUsed_none_of hfresh]

theorem complete_stepLine_igr (inLen : Nat) (st : St) (raw : Slice) (ns : List (List Char))
    (h : classify raw.chars = .igr ns) (hcur : st.cur.isSome = true) (hnd : ns.Nodup)
    (hfresh : ∀ n ∈ ns, n ∉ st.usedNames.map (·.chars)) :
    ∃ st', stepLine inLen st raw = .ok st' ∧ st'.cur.isSome = true ∧ st'.usedCats = st.usedCats ∧
      st'.usedNames.map (·.chars) = ns.reverse ++ st.usedNames.map (·.chars) := by
  obtain ⟨h1, h2, h3⟩ := complete_classify_igr h
  have hsegs : ((slicesFrom (trim (stripComment raw)).off (pieces '|' (trim (stripComment raw)).chars)).map
      fun s => trimChars s.chars) = ns := by
    rw [slicesFrom_map_trim, line_chars]; exact h3.symm
  obtain ⟨used', hu1, hu2⟩ := addNames_fresh inLen
    (slicesFrom (trim (stripComment raw)).off (pieces '|' (trim (stripComment raw)).chars)) st.usedNames
    (by rw [hsegs]; exact hnd) (by rw [hsegs]; exact hfresh)
  cases hc : st.cur with
  | none => rw [hc] at hcur; cases hcur
  | some cat =>
    refine ⟨⟨st.cats, some ⟨cat.name, cat.ingredients ++ [⟨(pieces '|' (trim (stripComment raw)).chars).map trimChars⟩]⟩,
      st.usedCats, used'⟩, ?_, rfl, rfl, by rw [hu2, hsegs]⟩
    unfold stepLine
    rw [line_chars, h1, if_neg (by simp), h2]
    simp only [Bool.not_false, if_true]
    unfold igrLine
    rw [← line_chars, hu1]
    simp only [hc]

/-! ### progress of the loop -/

theorem complete_parseLines_progress (inLen : Nat) (ls : List Slice) (st : St)
    (hcur : st.cur = none → (groupR (ls.map (classify ·.chars))).1 = [])
    (hbar : ∀ n ∈ catNamesOf (ls.map (classify ·.chars)), '|' ∉ n)
    (hcats : (catNamesOf (ls.map (classify ·.chars))).Nodup)
    (hcfresh : ∀ n ∈ catNamesOf (ls.map (classify ·.chars)), n ∉ st.usedCats.map (·.chars))
    (hnames : (igrNamesOf (ls.map (classify ·.chars))).Nodup)
    (hnfresh : ∀ n ∈ igrNamesOf (ls.map (classify ·.chars)), n ∉ st.usedNames.map (·.chars)) :
    ∃ st', parseLines inLen st ls = .ok st' := by
  induction ls generalizing st with
  | nil => exact ⟨st, rfl⟩
  | cons l ls ih =>
    simp only [List.map_cons] at hcur hbar hcats hcfresh hnames hnfresh
    cases hk : classify l.chars with
    | blank =>
      rw [hk] at hcur hbar hcats hcfresh hnames hnfresh
      simp only [groupR, catNamesOf, igrNamesOf] at hcur hbar hcats hcfresh hnames hnfresh
      obtain ⟨st', h'⟩ := ih st hcur hbar hcats hcfresh hnames hnfresh
      exact ⟨st', by unfold parseLines; rw [complete_stepLine_blank inLen st l hk]; exact h'⟩
    | cat n =>
      rw [hk] at hcur hbar hcats hcfresh hnames hnfresh
      simp only [groupR, catNamesOf, igrNamesOf, List.mem_cons, forall_eq_or_imp, List.nodup_cons] at hcur hbar hcats hcfresh hnames hnfresh
      obtain ⟨st1, hs1, hc1, huc1, hun1⟩ := complete_stepLine_cat inLen st l n hk hbar.1 hcfresh.1
      obtain ⟨st', h'⟩ := ih st1 (by intro hn; rw [hn] at hc1; cases hc1) hbar.2 hcats.2
        (by
          intro m hm
          rw [huc1]
          simp only [List.mem_cons, not_or]
          exact ⟨fun e => hcats.1 (e ▸ hm), hcfresh.2 m hm⟩)
        hnames (by rw [hun1]; exact hnfresh)
      exact ⟨st', by unfold parseLines; rw [hs1]; exact h'⟩
    | igr ns =>
      rw [hk] at hcur hbar hcats hcfresh hnames hnfresh
      simp only [groupR, catNamesOf, igrNamesOf, List.mem_append] at hcur hbar hcats hcfresh hnames hnfresh
      have hsome : st.cur.isSome = true := by
        cases hc : st.cur with
        | none => exact absurd (hcur hc) (by simp)
        | some _ => rfl
      obtain ⟨hnd1, hnd2, hdisj⟩ := List.nodup_append.1 hnames
      obtain ⟨st1, hs1, hc1, huc1, hun1⟩ := complete_stepLine_igr inLen st l ns hk hsome hnd1
        (fun m hm => hnfresh m (Or.inl hm))
      obtain ⟨st', h'⟩ := ih st1 (by intro hn; rw [hn] at hc1; cases hc1) hbar hcats
        (by rw [huc1]; exact hcfresh) hnd2
        (by
          intro m hm
          rw [hun1]
          simp only [List.mem_append, List.mem_reverse, not_or]
          exact ⟨fun hmn => hdisj m hmn m hm rfl, hnfresh m (Or.inr hm)⟩)
      exact ⟨st', by unfold parseLines; rw [hs1]; exact h'⟩

/-- "if": a `FileOK` file parses -/
theorem complete_parse_of_fileOK (s : List Char) (h : FileOK ((lineTexts s).map classify)) :
    ∃ c, parse s = .ok c := by
  have hmap : (lines s).map (classify ·.chars) = (lineTexts s).map classify := by
    simp [lineTexts, List.map_map, Function.comp_def]
  obtain ⟨st', hst⟩ := complete_parseLines_progress (utf8Len s) (lines s) St.init
    (by intro _; rw [hmap]; exact h.noOrphan)
    (by rw [hmap]; exact h.catNoBar) (by rw [hmap]; exact h.catsNodup)
    (by intro n _; simp [St.init])
    (by rw [hmap]; exact h.namesNodup) (by intro n _; simp [St.init])
  exact ⟨⟨pushCur st'⟩, by unfold parse; rw [hst]⟩

end Cook.Aisle
