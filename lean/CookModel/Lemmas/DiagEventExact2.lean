import CookModel.Lemmas.DiagEventExact
import CookModel.Lemmas.Collector
import CookModel.Lemmas.ClosingFold
/-
  C07, analysis stage, EVENT level, part 2 (prefix `c07v_`): the composition.  `ingrRegular` / `ingrBuild` /
  `ingredientA` and `cwResolve` / `cwBuild` / `cookwareA` append exactly `c07v_ingredientEventDiags` /
  `c07v_cookwareEventDiags`; per-kind equivalences; every event only appends diagnostics, and the diagnostics
  of an event placed anywhere in an error-free event list are a contiguous block of the final report.
-/
namespace Cook
variable {α : Type} [Arith α]
set_option linter.unusedSectionVars false
set_option linter.unusedSimpArgs false
set_option linter.unusedVariables false

/-- the modifiers `resolve_reference` inherits from an ingredient definition -/
def c07v_ingrInherit : Nat := Modifiers.HIDDEN ||| Modifiers.OPT ||| Modifiers.RECIPE

/-- the reference checks of an ingredient whose `resolve_reference` result is `r`: nothing when it stays a
    definition; `c07r_ingrRefDiags` against the table entry it resolved to -/
def c07v_ingrRefCheckDiags (env : Env) (input : Str) (li : Loc (PIngredient α)) (igr0 : Ingredient (ScalableValue α))
    (ings : Array (Ingredient (ScalableValue α))) (locs : Array (Loc (PIngredient α)))
    (r : Modifiers × Option RefOutcome) : List Diag :=
  match r.2 with
  | none => []
  | some o =>
    match ings[o.refTo]?, locs[o.refTo]? with
    | some defn, some defLoc =>
      c07r_ingrRefDiags env input li
        { igr0 with modifiers := r.1, relation := ⟨.reference o.refTo, some .ingredient⟩ } o.refTo defn defLoc ings locs
    | _, _ => []

/-- what the regular branch of `ingredient` pushes: `refDiags`, then the reference checks -/
def c07v_ingrRegularDiags (env : Env) (input : Str) (li : Loc (PIngredient α)) (igr0 : Ingredient (ScalableValue α))
    (ings : Array (Ingredient (ScalableValue α))) (locs : Array (Loc (PIngredient α)))
    (dm : DefineMode) (dup : DuplicateMode) : List Diag :=
  refDiags env c07v_ingrInherit (ings.toList.map (fun x => (x.name, x.modifiers)))
      igr0.name igr0.modifiers li.span li.val.modifiers.span dm dup ++
  c07v_ingrRefCheckDiags env input li igr0 ings locs
    (c07v_refResult env c07v_ingrInherit (ings.toList.map (fun x => (x.name, x.modifiers)))
      igr0.name igr0.modifiers dm dup)

theorem c07v_ingrSetReferencedFrom_diags (refTo newIndex : Nat) (defn : Ingredient (ScalableValue α)) (s : Col α) :
    (ingrSetReferencedFrom refTo newIndex defn s).2.diags = s.diags := by
  unfold ingrSetReferencedFrom
  cases defn.relation.relation with
  | definition rf b => rfl
  | reference r => exact (c07v_apanic_frame _ s).2

theorem c07v_ingrRegular_exact (env : Env) (input : Str) (li : Loc (PIngredient α))
    (igr0 : Ingredient (ScalableValue α)) (s : Col α) :
    (ingrRegular env input li igr0 s).2.diags.toList = s.diags.toList ++
      c07v_ingrRegularDiags env input li igr0 s.ingredients s.locIngr s.defineMode s.duplicateMode := by
  unfold ingrRegular c07v_ingrRegularDiags c07v_ingrRefCheckDiags c07v_ingrInherit
  simp +instances only [A_bind, A_get]
  obtain ⟨h1, h2⟩ := c07a_resolveReference_exact (α := α) env "ingredient"
    (Modifiers.HIDDEN ||| Modifiers.OPT ||| Modifiers.RECIPE) (s.ingredients.toList.map (fun x => (x.name, x.modifiers)))
    igr0.name igr0.modifiers li.span li.val.modifiers.span s
  have h3 := c07v_resolveReference_val (α := α) env "ingredient"
    (Modifiers.HIDDEN ||| Modifiers.OPT ||| Modifiers.RECIPE) (s.ingredients.toList.map (fun x => (x.name, x.modifiers)))
    igr0.name igr0.modifiers li.span li.val.modifiers.span s
  rcases hrr : resolveReference (α := α) env "ingredient"
    (Modifiers.HIDDEN ||| Modifiers.OPT ||| Modifiers.RECIPE) (s.ingredients.toList.map (fun x => (x.name, x.modifiers)))
    igr0.name igr0.modifiers li.span li.val.modifiers.span s with ⟨r, s'⟩
  rw [hrr] at h1 h2 h3
  simp only at h1 h2 h3
  simp only [hrr]
  rw [← h3]
  generalize hdg : s'.diags = dg at h1 h2
  subst h2
  cases ho : r.2 with
  | none => simp only [A_pure, h1, List.append_nil]
  | some o =>
    simp +instances only [A_get]
    cases hd : s.ingredients[o.refTo]? with
    | none =>
      simp +instances only [hd, A_bind, A_pure, A_get, (c07v_apanic_frame _ _).2, h1, List.append_nil]
    | some defn =>
      cases hL : s.locIngr[o.refTo]? with
      | none => simp +instances only [hd, hL, A_bind, A_pure, A_get, (c07v_apanic_frame _ _).2, h1, List.append_nil]
      | some defLoc =>
        simp +instances only [hd, hL, A_bind, A_pure, A_get, c07v_ingrSetReferencedFrom_diags, c07r_ingrRefChecks_exact, h1,
          List.append_assoc]

/-- what `ingrBuild` pushes: the intermediate-reference branch (modifier check, then `interRefDiags`) when the
    ingredient carries intermediate data `&(…)`, the regular branch otherwise -/
def c07v_ingrBuildDiags (env : Env) (input : Str) (li : Loc (PIngredient α)) (igr0 : Ingredient (ScalableValue α))
    (ings : Array (Ingredient (ScalableValue α))) (locs : Array (Loc (PIngredient α)))
    (dm : DefineMode) (dup : DuplicateMode) (content : List Content) (nSections : Nat) : List Diag :=
  match li.val.inter with
  | some d => c07v_interCheckDiags li.val igr0.modifiers ++ interRefDiags content nSections d
  | none => c07v_ingrRegularDiags env input li igr0 ings locs dm dup

theorem c07v_ingrBuild_exact (env : Env) (input : Str) (li : Loc (PIngredient α))
    (igr0 : Ingredient (ScalableValue α)) (s : Col α) :
    (ingrBuild env input li igr0 s).2.diags.toList = s.diags.toList ++
      c07v_ingrBuildDiags env input li igr0 s.ingredients s.locIngr s.defineMode s.duplicateMode
        s.cur.content s.sections.length := by
  unfold ingrBuild c07v_ingrBuildDiags
  cases hi : li.val.inter with
  | none =>
    simp +instances only [A_bind, A_pure, A_get, A_modify]
    exact c07v_ingrRegular_exact env input li igr0 s
  | some d =>
    simp +instances only [A_bind, A_pure, A_get, A_modify]
    exact c07v_ingrInter_exact li.val igr0 d s

/-- the ingredient record `ingredient` builds before resolving references (name trimmed and, for a `./path`
    name, reduced to its last component; alias, note, unit trimmed; quantity converted) -/
def c07v_igr0 (env : Env) (li : Loc (PIngredient α)) (dm : DefineMode) : Ingredient (ScalableValue α) :=
  ⟨(match parseReference (li.val.name.trimmed env.cs) with
     | some r => r.name
     | none => li.val.name.trimmed env.cs),
   li.val.alias.map (·.trimmed env.cs), c07v_ingrQuantity env li.val.quantity, li.val.note.map (·.trimmed env.cs),
   parseReference (li.val.name.trimmed env.cs), ⟨.definition [] (dm != .components), none⟩, li.val.modifiers.val⟩

/-- **everything an ingredient event pushes**, in order: the scaling-lock warning of its quantity; then, with
    intermediate data, the modifier check and the intermediate-reference error; otherwise the diagnostics of
    `resolve_reference` followed (when it resolved to a definition) by the reference checks -/
def c07v_ingredientEventDiags (env : Env) (input : Str) (li : Loc (PIngredient α))
    (ings : Array (Ingredient (ScalableValue α))) (locs : Array (Loc (PIngredient α)))
    (dm : DefineMode) (dup : DuplicateMode) (content : List Content) (nSections : Nat) : List Diag :=
  c07v_ingrLockDiags li.val.quantity ++
  c07v_ingrBuildDiags env input li (c07v_igr0 env li dm) ings locs dm dup content nSections

/-- **the ingredient event, exactly**: from every collector state `ingredientA` appends exactly
    `c07v_ingredientEventDiags` (read off the tables, modes and current section of that state) -/
theorem c07v_ingredientA_exact (env : Env) (input : Str) (li : Loc (PIngredient α)) (s : Col α) :
    (ingredientA env input li s).2.diags.toList = s.diags.toList ++
      c07v_ingredientEventDiags env input li s.ingredients s.locIngr s.defineMode s.duplicateMode
        s.cur.content s.sections.length := by
  unfold ingredientA c07v_ingredientEventDiags c07v_igr0
  obtain ⟨q1, q2, q3⟩ := c07v_optQuantityOf_exact env li.val.quantity s
  simp +instances only [A_bind, A_get]
  rw [c07v_ingrBuild_exact, q3]
  generalize hdg : (optQuantityOf env li.val.quantity true s).2.diags = dg at q1 q2
  rw [q2]
  simp only [q1, List.append_assoc]
  rfl

/-! ### the cookware event -/

/-- the modifiers `resolve_reference` inherits from a cookware definition -/
def c07v_cwInherit : Nat := Modifiers.HIDDEN ||| Modifiers.OPT

/-- the reference checks of a cookware item whose `resolve_reference` result is `r` -/
def c07v_cwRefCheckDiags (input : Str) (lc : Loc (PCookware α)) (cw0 : Cookware (ScalableValue α))
    (cws : Array (Cookware (ScalableValue α))) (locs : Array (Loc (PCookware α)))
    (r : Modifiers × Option RefOutcome) : List Diag :=
  match r.2 with
  | none => []
  | some o =>
    match cws[o.refTo]?, locs[o.refTo]? with
    | some defn, some defLoc =>
      c07r_cwRefDiags input lc { cw0 with modifiers := r.1, relation := .reference o.refTo } defn defLoc
    | _, _ => []

/-- what `cwResolve` pushes: `refDiags`, then the reference checks -/
def c07v_cwResolveDiags (env : Env) (input : Str) (lc : Loc (PCookware α)) (cw0 : Cookware (ScalableValue α))
    (cws : Array (Cookware (ScalableValue α))) (locs : Array (Loc (PCookware α)))
    (dm : DefineMode) (dup : DuplicateMode) : List Diag :=
  refDiags env c07v_cwInherit (cws.toList.map (fun x => (x.name, x.modifiers)))
      cw0.name cw0.modifiers lc.span lc.val.modifiers.span dm dup ++
  c07v_cwRefCheckDiags input lc cw0 cws locs
    (c07v_refResult env c07v_cwInherit (cws.toList.map (fun x => (x.name, x.modifiers)))
      cw0.name cw0.modifiers dm dup)

theorem c07v_cwSetReferencedFrom_diags (refTo newIndex : Nat) (defn : Cookware (ScalableValue α)) (s : Col α) :
    (cwSetReferencedFrom refTo newIndex defn s).2.diags = s.diags := by
  unfold cwSetReferencedFrom
  cases defn.relation with
  | definition rf b => rfl
  | reference r => exact (c07v_apanic_frame _ s).2

theorem c07v_cwResolve_exact (env : Env) (input : Str) (lc : Loc (PCookware α))
    (cw0 : Cookware (ScalableValue α)) (s : Col α) :
    (cwResolve env input lc cw0 s).2.diags.toList = s.diags.toList ++
      c07v_cwResolveDiags env input lc cw0 s.cookware s.locCw s.defineMode s.duplicateMode := by
  unfold cwResolve c07v_cwResolveDiags c07v_cwRefCheckDiags c07v_cwInherit
  simp +instances only [A_bind, A_get]
  obtain ⟨h1, h2⟩ := c07a_resolveReference_exact (α := α) env "cookware item"
    (Modifiers.HIDDEN ||| Modifiers.OPT) (s.cookware.toList.map (fun x => (x.name, x.modifiers)))
    cw0.name cw0.modifiers lc.span lc.val.modifiers.span s
  have h3 := c07v_resolveReference_val (α := α) env "cookware item"
    (Modifiers.HIDDEN ||| Modifiers.OPT) (s.cookware.toList.map (fun x => (x.name, x.modifiers)))
    cw0.name cw0.modifiers lc.span lc.val.modifiers.span s
  rcases hrr : resolveReference (α := α) env "cookware item"
    (Modifiers.HIDDEN ||| Modifiers.OPT) (s.cookware.toList.map (fun x => (x.name, x.modifiers)))
    cw0.name cw0.modifiers lc.span lc.val.modifiers.span s with ⟨r, s'⟩
  rw [hrr] at h1 h2 h3
  simp only at h1 h2 h3
  simp only [hrr]
  rw [← h3]
  generalize hdg : s'.diags = dg at h1 h2
  subst h2
  cases ho : r.2 with
  | none => simp only [A_pure, h1, List.append_nil]
  | some o =>
    simp +instances only [A_get]
    cases hd : s.cookware[o.refTo]? with
    | none =>
      simp +instances only [hd, A_bind, A_pure, A_get, (c07v_apanic_frame _ _).2, h1, List.append_nil]
    | some defn =>
      cases hL : s.locCw[o.refTo]? with
      | none => simp +instances only [hd, hL, A_bind, A_pure, A_get, (c07v_apanic_frame _ _).2, h1, List.append_nil]
      | some defLoc =>
        simp +instances only [hd, hL, A_bind, A_pure, A_get, c07v_cwSetReferencedFrom_diags, c07r_cwRefChecks_exact, h1,
          List.append_assoc]

theorem c07v_cwBuild_exact (env : Env) (input : Str) (lc : Loc (PCookware α))
    (cw0 : Cookware (ScalableValue α)) (s : Col α) :
    (cwBuild env input lc cw0 s).2.diags.toList = s.diags.toList ++
      c07v_cwResolveDiags env input lc cw0 s.cookware s.locCw s.defineMode s.duplicateMode := by
  unfold cwBuild
  simp +instances only [A_bind, A_pure, A_get, A_modify]
  exact c07v_cwResolve_exact env input lc cw0 s

/-- the cookware record `cookware` builds before resolving references -/
def c07v_cw0 (env : Env) (lc : Loc (PCookware α)) (dm : DefineMode) : Cookware (ScalableValue α) :=
  ⟨lc.val.name.trimmed env.cs, lc.val.alias.map (·.trimmed env.cs), c07v_cwQuantity lc.val.quantity,
   lc.val.note.map (·.trimmed env.cs), .definition [] (dm != .components), lc.val.modifiers.val⟩

/-- **everything a cookware event pushes**, in order: the scaling-lock warning of its amount (raised whenever
    the amount carries `=`: a lock never has an effect on cookware), the diagnostics of `resolve_reference`, and
    (when it resolved to a definition) the reference checks -/
def c07v_cookwareEventDiags (env : Env) (input : Str) (lc : Loc (PCookware α))
    (cws : Array (Cookware (ScalableValue α))) (locs : Array (Loc (PCookware α)))
    (dm : DefineMode) (dup : DuplicateMode) : List Diag :=
  c07v_cwLockDiags lc.val.quantity ++
  c07v_cwResolveDiags env input lc (c07v_cw0 env lc dm) cws locs dm dup

/-- **the cookware event, exactly** -/
theorem c07v_cookwareA_exact (env : Env) (input : Str) (lc : Loc (PCookware α)) (s : Col α) :
    (cookwareA env input lc s).2.diags.toList = s.diags.toList ++
      c07v_cookwareEventDiags env input lc s.cookware s.locCw s.defineMode s.duplicateMode := by
  unfold cookwareA c07v_cookwareEventDiags c07v_cw0
  obtain ⟨q1, q2, q3⟩ := c07v_optValueOf_exact env lc.val.quantity s
  simp +instances only [A_bind, A_get]
  rw [c07v_cwBuild_exact, q3]
  generalize hdg : (optValueOf env lc.val.quantity s).2.diags = dg at q1 q2
  rw [q2]
  simp only [q1, List.append_assoc]

/-! ### which kinds each part can raise -/

theorem c07v_none_of_kinds {L : List Diag} {K : List String} (h : ∀ d ∈ L, d.kind ∈ K) {k : String} (hk : k ∉ K) :
    (∃ d ∈ L, d.kind = k) ↔ False := by
  constructor
  · rintro ⟨d, hd, rfl⟩; exact hk (h d hd)
  · exact False.elim

theorem c07v_lockDiags_kinds (v : PQValue α) (b : Bool) :
    ∀ d ∈ c07v_lockDiags v b, d.kind ∈ ["unnecessary-scaling-lock"] := by
  unfold c07v_lockDiags
  split <;> simp [adiag]

theorem c07v_ingrLockDiags_kinds (q : Option (Loc (PQuantity α))) :
    ∀ d ∈ c07v_ingrLockDiags q, d.kind ∈ ["unnecessary-scaling-lock"] := by
  unfold c07v_ingrLockDiags
  cases q with
  | none => simp
  | some q => exact c07v_lockDiags_kinds _ _

theorem c07v_cwLockDiags_kinds (q : Option (Loc (PQValue α))) :
    ∀ d ∈ c07v_cwLockDiags q, d.kind ∈ ["unnecessary-scaling-lock"] := by
  unfold c07v_cwLockDiags
  cases q with
  | none => simp
  | some q => exact c07v_lockDiags_kinds _ _

theorem c07v_interCheckDiags_kinds (i : PIngredient α) (m : Modifiers) :
    ∀ d ∈ c07v_interCheckDiags i m, d.kind ∈ ["inter-ref-conflicting-modifiers"] := by
  unfold c07v_interCheckDiags
  split <;> simp [adiag]

theorem c07v_interRefTarget_kinds (content : List Content) (n : Nat) (d : InterData) (k : String)
    (h : interRefTarget content n d = .error k) : k ∈ ["inter-ref-self", "inter-ref-zero", "inter-ref-bounds"] := by
  unfold interRefTarget at h
  dsimp only at h
  repeat' split at h
  all_goals first
    | (cases h; done)
    | (injection h with h; subst h; simp; done)
    | (injection h with h; subst h; split <;> simp)

theorem c07v_interRefDiags_kinds (content : List Content) (n : Nat) (d : Loc InterData) :
    ∀ x ∈ interRefDiags content n d, x.kind ∈ ["inter-ref-self", "inter-ref-zero", "inter-ref-bounds"] := by
  unfold interRefDiags
  cases h : interRefTarget content n d.val with
  | ok r => simp
  | error k =>
    intro x hx
    simp only [List.mem_singleton] at hx
    subst hx
    exact c07v_interRefTarget_kinds content n d.val k h

theorem c07v_refDiags_allkinds (env : Env) (inherit : Nat) (existing : List (Str × Modifiers)) (name : Str)
    (mods : Modifiers) (location modLoc : Span) (dm : DefineMode) (dup : DuplicateMode) :
    ∀ d ∈ refDiags env inherit existing name mods location modLoc dm dup,
      d.kind ∈ ["ref-conflicting-modifiers", "redundant-new", "redundant-ref", "reference-not-found"] := by
  rw [c07a_refDiags_eq_CB]
  unfold refDiagsCB
  intro d hd
  repeat' split at hd
  all_goals simp only [adiag, List.mem_append, List.mem_singleton, List.not_mem_nil, or_false, false_or] at hd
  all_goals first
    | (cases hd; done)
    | (subst hd; simp; done)
    | (rcases hd with hd | hd <;> subst hd <;> simp)

theorem c07v_ingrRefDiags_allkinds (env : Env) (input : Str) (li : Loc (PIngredient α)) (igr : Ingredient (ScalableValue α))
    (refTo : Nat) (defn : Ingredient (ScalableValue α)) (defLoc : Loc (PIngredient α))
    (ings : Array (Ingredient (ScalableValue α))) (locs : Array (Loc (PIngredient α))) :
    ∀ d ∈ c07r_ingrRefDiags env input li igr refTo defn defLoc ings locs,
      d.kind ∈ ["incompatible-units", "note-in-reference", "conflicting-ref-quantity", "text-value-in-ref"] := by
  unfold c07r_ingrRefDiags
  intro d hd
  simp only [List.mem_append] at hd
  rcases hd with h | h | h | h
  · rw [c07r_unitDiags_kind _ _ _ _ _ _ d h]; simp
  · rw [(c07r_noteDiags_spec _ _ _ _).1 d h]; simp
  · rw [(c07r_qtyDiags_spec _ _ _ _ _).1 d h]; simp
  · rw [(c07r_textDiags_spec _ _ _ _).1 d h]; simp

theorem c07v_cwRefDiags_allkinds (input : Str) (lc : Loc (PCookware α)) (cw : Cookware (ScalableValue α))
    (defn : Cookware (ScalableValue α)) (defLoc : Loc (PCookware α)) :
    ∀ d ∈ c07r_cwRefDiags input lc cw defn defLoc,
      d.kind ∈ ["incompatible-units", "note-in-reference", "conflicting-ref-quantity", "text-value-in-ref"] := by
  unfold c07r_cwRefDiags
  intro d hd
  simp only [List.mem_append] at hd
  rcases hd with h | h | h
  · rw [(c07r_noteDiags_spec _ _ _ _).1 d h]; simp
  · rw [(c07r_qtyDiags_spec _ _ _ _ _).1 d h]; simp
  · rw [(c07r_textDiags_spec _ _ _ _).1 d h]; simp

theorem c07v_ingrRefCheckDiags_allkinds (env : Env) (input : Str) (li : Loc (PIngredient α))
    (igr0 : Ingredient (ScalableValue α)) (ings : Array (Ingredient (ScalableValue α)))
    (locs : Array (Loc (PIngredient α))) (r : Modifiers × Option RefOutcome) :
    ∀ d ∈ c07v_ingrRefCheckDiags env input li igr0 ings locs r,
      d.kind ∈ ["incompatible-units", "note-in-reference", "conflicting-ref-quantity", "text-value-in-ref"] := by
  unfold c07v_ingrRefCheckDiags
  intro d hd
  repeat' split at hd
  all_goals first
    | (cases hd; done)
    | exact c07v_ingrRefDiags_allkinds _ _ _ _ _ _ _ _ _ d hd

theorem c07v_cwRefCheckDiags_allkinds (input : Str) (lc : Loc (PCookware α))
    (cw0 : Cookware (ScalableValue α)) (cws : Array (Cookware (ScalableValue α)))
    (locs : Array (Loc (PCookware α))) (r : Modifiers × Option RefOutcome) :
    ∀ d ∈ c07v_cwRefCheckDiags input lc cw0 cws locs r,
      d.kind ∈ ["incompatible-units", "note-in-reference", "conflicting-ref-quantity", "text-value-in-ref"] := by
  unfold c07v_cwRefCheckDiags
  intro d hd
  repeat' split at hd
  all_goals first
    | (cases hd; done)
    | exact c07v_cwRefDiags_allkinds _ _ _ _ _ d hd

/-! the same as rewrite rules: a kind outside the part's kind list is not raised by the part -/

theorem c07v_ingrLock_no (k : String) (hk : k ∉ ["unnecessary-scaling-lock"]) (q : Option (Loc (PQuantity α))) :
    (∃ d ∈ c07v_ingrLockDiags q, d.kind = k) ↔ False := c07v_none_of_kinds (c07v_ingrLockDiags_kinds q) hk
theorem c07v_cwLock_no (k : String) (hk : k ∉ ["unnecessary-scaling-lock"]) (q : Option (Loc (PQValue α))) :
    (∃ d ∈ c07v_cwLockDiags q, d.kind = k) ↔ False := c07v_none_of_kinds (c07v_cwLockDiags_kinds q) hk
theorem c07v_interCheck_no (k : String) (hk : k ∉ ["inter-ref-conflicting-modifiers"]) (i : PIngredient α)
    (m : Modifiers) : (∃ d ∈ c07v_interCheckDiags i m, d.kind = k) ↔ False :=
  c07v_none_of_kinds (c07v_interCheckDiags_kinds i m) hk
theorem c07v_interRef_no (k : String) (hk : k ∉ ["inter-ref-self", "inter-ref-zero", "inter-ref-bounds"])
    (content : List Content) (n : Nat) (d : Loc InterData) :
    (∃ x ∈ interRefDiags content n d, x.kind = k) ↔ False :=
  c07v_none_of_kinds (c07v_interRefDiags_kinds content n d) hk
theorem c07v_refDiags_no (k : String)
    (hk : k ∉ ["ref-conflicting-modifiers", "redundant-new", "redundant-ref", "reference-not-found"])
    (env : Env) (inherit : Nat) (existing : List (Str × Modifiers)) (name : Str)
    (mods : Modifiers) (location modLoc : Span) (dm : DefineMode) (dup : DuplicateMode) :
    (∃ d ∈ refDiags env inherit existing name mods location modLoc dm dup, d.kind = k) ↔ False :=
  c07v_none_of_kinds (c07v_refDiags_allkinds env inherit existing name mods location modLoc dm dup) hk
theorem c07v_ingrRefCheck_no (k : String)
    (hk : k ∉ ["incompatible-units", "note-in-reference", "conflicting-ref-quantity", "text-value-in-ref"])
    (env : Env) (input : Str) (li : Loc (PIngredient α))
    (igr0 : Ingredient (ScalableValue α)) (ings : Array (Ingredient (ScalableValue α)))
    (locs : Array (Loc (PIngredient α))) (r : Modifiers × Option RefOutcome) :
    (∃ d ∈ c07v_ingrRefCheckDiags env input li igr0 ings locs r, d.kind = k) ↔ False :=
  c07v_none_of_kinds (c07v_ingrRefCheckDiags_allkinds env input li igr0 ings locs r) hk
theorem c07v_cwRefCheck_no (k : String)
    (hk : k ∉ ["incompatible-units", "note-in-reference", "conflicting-ref-quantity", "text-value-in-ref"])
    (input : Str) (lc : Loc (PCookware α))
    (cw0 : Cookware (ScalableValue α)) (cws : Array (Cookware (ScalableValue α)))
    (locs : Array (Loc (PCookware α))) (r : Modifiers × Option RefOutcome) :
    (∃ d ∈ c07v_cwRefCheckDiags input lc cw0 cws locs r, d.kind = k) ↔ False :=
  c07v_none_of_kinds (c07v_cwRefCheckDiags_allkinds input lc cw0 cws locs r) hk

/-! ### per-kind equivalences for the whole event -/

theorem c07v_igr0_modifiers (env : Env) (li : Loc (PIngredient α)) (dm : DefineMode) :
    (c07v_igr0 env li dm).modifiers = li.val.modifiers.val := rfl

/-- **`reference-not-found` on an ingredient event, exactly**: it is among the diagnostics of the event IFF the
    ingredient has no intermediate data, is not `+`, is `&` or the define mode is `steps`, and no earlier
    non-reference ingredient has the same folded name; it is then the error labelled with the component's span -/
theorem c07v_ingredientEvent_notfound_iff (env : Env) (input : Str) (li : Loc (PIngredient α))
    (ings : Array (Ingredient (ScalableValue α))) (locs : Array (Loc (PIngredient α)))
    (dm : DefineMode) (dup : DuplicateMode) (content : List Content) (n : Nat) :
    ((∃ d ∈ c07v_ingredientEventDiags env input li ings locs dm dup content n, d.kind = "reference-not-found") ↔
      (li.val.inter = none ∧ li.val.modifiers.val.contains Modifiers.NEW = false ∧
       sameNameIdx env (ings.toList.map (fun x => (x.name, x.modifiers))) (c07v_igr0 env li dm).name = none ∧
       (li.val.modifiers.val.contains Modifiers.REF = true ∨ dm = .steps))) ∧
    (∀ d ∈ c07v_ingredientEventDiags env input li ings locs dm dup content n, d.kind = "reference-not-found" →
      d = adiag .error "reference-not-found" [li.span]) := by
  unfold c07v_ingredientEventDiags c07v_ingrBuildDiags
  have kl := c07v_ingrLockDiags_kinds li.val.quantity
  cases hi : li.val.inter with
  | some dd =>
    have k1 := c07v_interCheckDiags_kinds li.val (c07v_igr0 env li dm).modifiers
    have k2 := c07v_interRefDiags_kinds content n dd
    constructor
    · simp only [c07r_exists_append, c07v_none_of_kinds kl (k := "reference-not-found") (by decide),
        c07v_none_of_kinds k1 (k := "reference-not-found") (by decide),
        c07v_none_of_kinds k2 (k := "reference-not-found") (by decide)]
      simp
    · intro d hd hk
      exfalso
      simp only [List.mem_append] at hd
      rcases hd with h | h | h
      · exact ((c07v_none_of_kinds kl (k := "reference-not-found") (by decide)).1 ⟨d, h, hk⟩)
      · exact ((c07v_none_of_kinds k1 (k := "reference-not-found") (by decide)).1 ⟨d, h, hk⟩)
      · exact ((c07v_none_of_kinds k2 (k := "reference-not-found") (by decide)).1 ⟨d, h, hk⟩)
  | none =>
    unfold c07v_ingrRegularDiags
    have k3 := c07v_ingrRefCheckDiags_allkinds env input li (c07v_igr0 env li dm) ings locs
      (c07v_refResult env c07v_ingrInherit (ings.toList.map (fun x => (x.name, x.modifiers)))
        (c07v_igr0 env li dm).name (c07v_igr0 env li dm).modifiers dm dup)
    obtain ⟨r1, -, r3⟩ := c07a_refDiags_kinds env c07v_ingrInherit (ings.toList.map (fun x => (x.name, x.modifiers)))
      (c07v_igr0 env li dm).name (c07v_igr0 env li dm).modifiers li.span li.val.modifiers.span dm dup
    simp only [c07v_igr0_modifiers] at k3 r1 r3 ⊢
    constructor
    · simp only [c07r_exists_append, c07v_none_of_kinds kl (k := "reference-not-found") (by decide),
        c07v_none_of_kinds k3 (k := "reference-not-found") (by decide), r1]
      simp
    · intro d hd hk
      simp only [List.mem_append] at hd
      rcases hd with h | h | h
      · exact ((c07v_none_of_kinds kl (k := "reference-not-found") (by decide)).1 ⟨d, h, hk⟩).elim
      · exact (r3 d h).1 hk
      · exact ((c07v_none_of_kinds k3 (k := "reference-not-found") (by decide)).1 ⟨d, h, hk⟩).elim

/-- a diagnostic of kind `k` is raised by the ingredient event iff it is raised by one of its parts (the part
    that runs: intermediate-reference branch iff there is intermediate data) -/
theorem c07v_ingredientEvent_split (env : Env) (input : Str) (li : Loc (PIngredient α))
    (ings : Array (Ingredient (ScalableValue α))) (locs : Array (Loc (PIngredient α)))
    (dm : DefineMode) (dup : DuplicateMode) (content : List Content) (n : Nat) (p : Diag → Prop) :
    (∃ d ∈ c07v_ingredientEventDiags env input li ings locs dm dup content n, p d) ↔
      ((∃ d ∈ c07v_ingrLockDiags li.val.quantity, p d) ∨
       (∃ dd, li.val.inter = some dd ∧
          ((∃ d ∈ c07v_interCheckDiags li.val li.val.modifiers.val, p d) ∨
           (∃ d ∈ interRefDiags content n dd, p d))) ∨
       (li.val.inter = none ∧
          ((∃ d ∈ refDiags env c07v_ingrInherit (ings.toList.map (fun x => (x.name, x.modifiers)))
              (c07v_igr0 env li dm).name li.val.modifiers.val li.span li.val.modifiers.span dm dup, p d) ∨
           (∃ d ∈ c07v_ingrRefCheckDiags env input li (c07v_igr0 env li dm) ings locs
              (c07v_refResult env c07v_ingrInherit (ings.toList.map (fun x => (x.name, x.modifiers)))
                (c07v_igr0 env li dm).name li.val.modifiers.val dm dup), p d)))) := by
  unfold c07v_ingredientEventDiags c07v_ingrBuildDiags c07v_ingrRegularDiags
  cases hi : li.val.inter with
  | some dd => simp only [c07r_exists_append, c07v_igr0_modifiers]; simp
  | none => simp only [c07r_exists_append, c07v_igr0_modifiers]; simp

theorem c07v_cw0_modifiers (env : Env) (lc : Loc (PCookware α)) (dm : DefineMode) :
    (c07v_cw0 env lc dm).modifiers = lc.val.modifiers.val := rfl
theorem c07v_cw0_name (env : Env) (lc : Loc (PCookware α)) (dm : DefineMode) :
    (c07v_cw0 env lc dm).name = lc.val.name.trimmed env.cs := rfl

/-- the same for the cookware event -/
theorem c07v_cookwareEvent_split (env : Env) (input : Str) (lc : Loc (PCookware α))
    (cws : Array (Cookware (ScalableValue α))) (locs : Array (Loc (PCookware α)))
    (dm : DefineMode) (dup : DuplicateMode) (p : Diag → Prop) :
    (∃ d ∈ c07v_cookwareEventDiags env input lc cws locs dm dup, p d) ↔
      ((∃ d ∈ c07v_cwLockDiags lc.val.quantity, p d) ∨
       (∃ d ∈ refDiags env c07v_cwInherit (cws.toList.map (fun x => (x.name, x.modifiers)))
          (lc.val.name.trimmed env.cs) lc.val.modifiers.val lc.span lc.val.modifiers.span dm dup, p d) ∨
       (∃ d ∈ c07v_cwRefCheckDiags input lc (c07v_cw0 env lc dm) cws locs
          (c07v_refResult env c07v_cwInherit (cws.toList.map (fun x => (x.name, x.modifiers)))
            (lc.val.name.trimmed env.cs) lc.val.modifiers.val dm dup), p d)) := by
  unfold c07v_cookwareEventDiags c07v_cwResolveDiags
  simp only [c07r_exists_append, c07v_cw0_modifiers, c07v_cw0_name]

/-- **`reference-not-found` on a cookware event, exactly** -/
theorem c07v_cookwareEvent_notfound_iff (env : Env) (input : Str) (lc : Loc (PCookware α))
    (cws : Array (Cookware (ScalableValue α))) (locs : Array (Loc (PCookware α)))
    (dm : DefineMode) (dup : DuplicateMode) :
    ((∃ d ∈ c07v_cookwareEventDiags env input lc cws locs dm dup, d.kind = "reference-not-found") ↔
      (lc.val.modifiers.val.contains Modifiers.NEW = false ∧
       sameNameIdx env (cws.toList.map (fun x => (x.name, x.modifiers))) (lc.val.name.trimmed env.cs) = none ∧
       (lc.val.modifiers.val.contains Modifiers.REF = true ∨ dm = .steps))) ∧
    (∀ d ∈ c07v_cookwareEventDiags env input lc cws locs dm dup, d.kind = "reference-not-found" →
      d = adiag .error "reference-not-found" [lc.span]) := by
  have kl := c07v_cwLockDiags_kinds lc.val.quantity
  have k3 := c07v_cwRefCheckDiags_allkinds input lc (c07v_cw0 env lc dm) cws locs
    (c07v_refResult env c07v_cwInherit (cws.toList.map (fun x => (x.name, x.modifiers)))
      (lc.val.name.trimmed env.cs) lc.val.modifiers.val dm dup)
  obtain ⟨r1, -, r3⟩ := c07a_refDiags_kinds env c07v_cwInherit (cws.toList.map (fun x => (x.name, x.modifiers)))
    (lc.val.name.trimmed env.cs) lc.val.modifiers.val lc.span lc.val.modifiers.span dm dup
  constructor
  · rw [c07v_cookwareEvent_split]
    simp only [c07v_none_of_kinds kl (k := "reference-not-found") (by decide),
      c07v_none_of_kinds k3 (k := "reference-not-found") (by decide), r1, false_or, or_false]
  · intro d hd hk
    have := (c07v_cookwareEvent_split env input lc cws locs dm dup (fun x => x = d)).1 ⟨d, hd, rfl⟩
    rcases this with ⟨x, hx, rfl⟩ | ⟨x, hx, rfl⟩ | ⟨x, hx, rfl⟩
    · exact ((c07v_none_of_kinds kl (k := "reference-not-found") (by decide)).1 ⟨x, hx, hk⟩).elim
    · exact (r3 x hx).1 hk
    · exact ((c07v_none_of_kinds k3 (k := "reference-not-found") (by decide)).1 ⟨x, hx, hk⟩).elim

/-- **`unnecessary-scaling-lock` on an ingredient / cookware event, exactly**: on an ingredient IFF the quantity
    carries `=` on a text value; on a cookware item IFF the amount carries `=` -/
theorem c07v_event_lock_iff (env : Env) (input : Str) :
    (∀ (li : Loc (PIngredient α)) ings locs dm dup content n,
      (∃ d ∈ c07v_ingredientEventDiags env input li ings locs dm dup content n, d.kind = "unnecessary-scaling-lock") ↔
        ∃ q, li.val.quantity = some q ∧ q.val.value.lock.isSome = true ∧ q.val.value.value.val.isText = true) ∧
    (∀ (lc : Loc (PCookware α)) cws locs dm dup,
      (∃ d ∈ c07v_cookwareEventDiags env input lc cws locs dm dup, d.kind = "unnecessary-scaling-lock") ↔
        ∃ q, lc.val.quantity = some q ∧ q.val.lock.isSome = true) := by
  constructor
  · intro li ings locs dm dup content n
    rw [c07v_ingredientEvent_split]
    simp only [c07v_interCheck_no "unnecessary-scaling-lock" (by decide),
      c07v_interRef_no "unnecessary-scaling-lock" (by decide),
      c07v_refDiags_no "unnecessary-scaling-lock" (by decide),
      c07v_ingrRefCheck_no "unnecessary-scaling-lock" (by decide),
      or_false, and_false, exists_false]
    unfold c07v_ingrLockDiags c07v_lockDiags
    cases li.val.quantity with
    | none => simp
    | some q =>
      cases hl : q.val.value.lock.isSome <;> cases ht : q.val.value.value.val.isText <;> simp [adiag, hl, ht]
  · intro lc cws locs dm dup
    rw [c07v_cookwareEvent_split]
    simp only [c07v_refDiags_no "unnecessary-scaling-lock" (by decide),
      c07v_cwRefCheck_no "unnecessary-scaling-lock" (by decide), or_false]
    unfold c07v_cwLockDiags c07v_lockDiags
    cases lc.val.quantity with
    | none => simp
    | some q => cases hl : q.val.lock.isSome <;> simp [adiag, hl]

/-! ### every event only appends diagnostics -/

theorem c07v_DG_modify (f : Col α → Col α) (hf : ∀ s, (f s).diags = s.diags) : DG (modify f : A α PUnit) :=
  ⟨fun s => ⟨[], by rw [A_modify]; simp [hf s]⟩⟩

theorem c07v_DG_pushItem (it : Item) : DG (pushItem (α := α) it) := by
  constructor
  intro s
  refine ⟨[], ?_⟩
  unfold pushItem
  simp +instances only [A_bind, A_get]
  cases hb : s.block with
  | none => simp only [hb, (c07v_apanic_frame _ s).2, List.append_nil]
  | some b =>
    cases b with
    | step items => simp [A_set]
    | text t => simp only [(c07v_apanic_frame _ s).2, List.append_nil]

syntax "c07v_dg_leaf" : tactic
macro_rules | `(tactic| c07v_dg_leaf) => `(tactic| first
  | with_reducible exact DG.pure _
  | with_reducible exact DG.get
  | with_reducible exact DG.apanic _
  | with_reducible exact DG.aerr _ _
  | with_reducible exact DG.awarn _ _
  | ((with_reducible apply c07v_DG_modify); intro s; rfl)
  | assumption)

/-- decomposes a `DG` goal along the `do` block (as `fr_ok` does for `Fr`) -/
macro "c07v_dg" : tactic => `(tactic|
  repeat' (first
    | c07v_dg_leaf
    | with_reducible apply DG.bind
    | with_reducible apply DG.ite
    | intro _
    | (show DG _; dsimp only; show DG _)
    | (show DG _; split)))

theorem c07v_DG_inStepText (env : Env) (t : Text) : DG (inStepText (α := α) env t) := by
  unfold inStepText inStepTextStep
  c07v_dg

theorem c07v_DG_ingredientA (env : Env) (input : Str) (li : Loc (PIngredient α)) : DG (ingredientA env input li) :=
  ⟨fun s => ⟨_, c07v_ingredientA_exact env input li s⟩⟩
theorem c07v_DG_cookwareA (env : Env) (input : Str) (lc : Loc (PCookware α)) : DG (cookwareA env input lc) :=
  ⟨fun s => ⟨_, c07v_cookwareA_exact env input lc s⟩⟩
theorem c07v_DG_timerA (env : Env) (lt : Loc (PTimer α)) : DG (timerA env lt) :=
  ⟨fun s => ⟨_, c07i_timerA_exact env lt s⟩⟩
theorem c07v_DG_metadataA (env : Env) (k v : Text) : DG (metadataA (α := α) env k v) :=
  ⟨fun s => ⟨_, c07i_metadataA_exact env k v s⟩⟩

theorem c07v_DG_inStepComponent (env : Env) (input : Str) (ev : Ev α) : DG (inStepComponent env input ev) := by
  unfold inStepComponent
  split
  · exact DG.bind (c07v_DG_ingredientA env input _) (fun _ => c07v_DG_pushItem _)
  · exact DG.bind (c07v_DG_cookwareA env input _) (fun _ => c07v_DG_pushItem _)
  · exact DG.bind (c07v_DG_timerA env _) (fun _ => c07v_DG_pushItem _)
  · exact DG.apanic _

theorem c07v_DG_inTextComponent (input : Str) (ev : Ev α) (buf : Str) : DG (inTextComponent input ev buf) := by
  unfold inTextComponent
  c07v_dg

theorem c07v_DG_inBlockComponent (env : Env) (input : Str) (ev : Ev α) : DG (inBlockComponent env input ev) := by
  unfold inBlockComponent
  apply DG.bind DG.get
  intro s
  split
  · exact c07v_DG_inStepComponent env input ev
  · exact c07v_DG_inTextComponent input ev _
  · exact DG.apanic _

theorem c07v_DG_endBlock (kind : BlockKind) : DG (endBlock (α := α) kind) := by
  unfold endBlock endBlockContent pushContent
  c07v_dg

/-- **every event only appends to the diagnostics** (all eleven event kinds) -/
theorem c07v_DG_processEvent (env : Env) (input : Str) (ev : Ev α) : DG (processEvent env input ev) := by
  unfold processEvent
  cases ev with
  | frontMatter t => exact c07v_DG_modify _ (fun s => rfl)
  | metadata k v => exact c07v_DG_metadataA env k v
  | «section» name => exact c07v_DG_modify _ (fun s => rfl)
  | start kind => exact c07v_DG_modify _ (fun s => rfl)
  | stop kind => exact c07v_DG_endBlock kind
  | text t => exact c07v_DG_inStepText env t
  | ingredient i => exact c07v_DG_inBlockComponent env input _
  | cookware c => exact c07v_DG_inBlockComponent env input _
  | timer t => exact c07v_DG_inBlockComponent env input _
  | error d => exact DG.pure _
  | warning d => exact ⟨fun s => ⟨[d], by simp [A_modify]⟩⟩

/-! ### placement in the event loop -/

/-- the collector state after the events `evs` have been processed from `s` (the fold of `processEvent`;
    this is what `parse_events` has done when it reaches the next event, as long as no `Error` event occurred) -/
def c07v_runEvents (env : Env) (input : Str) (evs : List (Ev α)) (s : Col α) : Col α :=
  evs.foldl (fun st ev => (processEvent env input ev st).2) s

theorem c07v_loop_append (env : Env) (input : Str) (evs1 rest : List (Ev α)) (s : Col α)
    (h : ∀ d, Ev.error d ∉ evs1) :
    parseEventsLoop env input (evs1 ++ rest) s = parseEventsLoop env input rest (c07v_runEvents env input evs1 s) := by
  induction evs1 generalizing s with
  | nil => rfl
  | cons ev evs ih =>
    have he : ¬ ∃ d0, ev = .error d0 := by
      rintro ⟨d0, rfl⟩
      exact h d0 List.mem_cons_self
    rw [List.cons_append, parseEventsLoop_cons_nonerror env input ev _ s he,
      ih _ (fun d hd => h d (List.mem_cons_of_mem _ hd))]
    rfl

theorem c07v_runEvents_appends (env : Env) (input : Str) (evs : List (Ev α)) (s : Col α) :
    ∃ l, (c07v_runEvents env input evs s).diags.toList = s.diags.toList ++ l := by
  induction evs generalizing s with
  | nil => exact ⟨[], by simp [c07v_runEvents]⟩
  | cons ev evs ih =>
    obtain ⟨l1, h1⟩ := (c07v_DG_processEvent env input ev).out s
    obtain ⟨l2, h2⟩ := ih (processEvent env input ev s).2
    refine ⟨l1 ++ l2, ?_⟩
    show (c07v_runEvents env input evs (processEvent env input ev s).2).diags.toList = _
    rw [h2, h1, List.append_assoc]

/-- the end of the loop appends at most the `meta-deprecated` warning -/
theorem c07v_loop_nil (env : Env) (input : Str) (s : Col α) :
    (parseEventsLoop env input [] s).diags.toList = s.diags.toList ++
      (if !s.oldStyleUsed.isEmpty then [adiag .warning "meta-deprecated" s.oldStyleUsed] else []) := by
  unfold parseEventsLoop
  cases h1 : s.cur.isEmpty <;> cases h2 : s.oldStyleUsed.isEmpty <;> simp [h1, h2, adiag]

/-- **placement**: in an event list without `Error` events, whatever list `l` the event `ev` appends at the
    state reached after the events before it is a contiguous block of the final diagnostics, after everything
    the earlier events (and the initial state) contributed and before everything the later ones add -/
theorem c07v_event_placement (env : Env) (input : Str) (evs1 evs2 : List (Ev α)) (ev : Ev α) (s : Col α) (l : List Diag)
    (hne : ∀ d, Ev.error d ∉ evs1 ++ ev :: evs2)
    (hl : (processEvent env input ev (c07v_runEvents env input evs1 s)).2.diags.toList =
      (c07v_runEvents env input evs1 s).diags.toList ++ l) :
    ∃ pre post, (c07v_runEvents env input evs1 s).diags.toList = s.diags.toList ++ pre ∧
      (parseEventsLoop env input (evs1 ++ ev :: evs2) s).diags.toList = s.diags.toList ++ pre ++ l ++ post := by
  have h1 : ∀ d, Ev.error d ∉ evs1 := fun d hd => hne d (List.mem_append_left _ hd)
  have h2 : ∀ d, Ev.error d ∉ evs2 := fun d hd => hne d (List.mem_append_right _ (List.mem_cons_of_mem _ hd))
  have he : ¬ ∃ d0, ev = .error d0 := by
    rintro ⟨d0, rfl⟩
    exact hne d0 (List.mem_append_right _ List.mem_cons_self)
  obtain ⟨pre, hpre⟩ := c07v_runEvents_appends env input evs1 s
  rw [c07v_loop_append env input evs1 _ s h1, parseEventsLoop_cons_nonerror env input ev _ _ he]
  have h3 := c07v_loop_append env input evs2 [] (processEvent env input ev (c07v_runEvents env input evs1 s)).2 h2
  rw [List.append_nil] at h3
  rw [h3]
  obtain ⟨p1, hp1⟩ := c07v_runEvents_appends env input evs2 (processEvent env input ev (c07v_runEvents env input evs1 s)).2
  have hp2 := c07v_loop_nil env input
    (c07v_runEvents env input evs2 (processEvent env input ev (c07v_runEvents env input evs1 s)).2)
  generalize (if (!(c07v_runEvents env input evs2
    (processEvent env input ev (c07v_runEvents env input evs1 s)).2).oldStyleUsed.isEmpty) = true then _ else _ : List Diag) = p2 at hp2
  refine ⟨pre, p1 ++ p2, hpre, ?_⟩
  rw [hp2, hp1, hl, hpre]
  simp only [List.append_assoc]

/-! ### component events inside a step block, and a dangling reference placed anywhere -/

theorem c07v_pushItem_diags (it : Item) (s : Col α) : (pushItem it s).2.diags = s.diags := by
  unfold pushItem
  simp +instances only [A_bind, A_get]
  cases hb : s.block with
  | none => simp only [hb, (c07v_apanic_frame _ s).2]
  | some b =>
    cases b with
    | step items => simp [A_set]
    | text t => simp only [(c07v_apanic_frame _ s).2]

/-- the name under which an ingredient is looked up: trimmed, and for a `./path` name its last component -/
def c07v_ingrName (env : Env) (li : Loc (PIngredient α)) : Str :=
  match parseReference (li.val.name.trimmed env.cs) with
  | some r => r.name
  | none => li.val.name.trimmed env.cs

theorem c07v_igr0_name (env : Env) (li : Loc (PIngredient α)) (dm : DefineMode) :
    (c07v_igr0 env li dm).name = c07v_ingrName env li := rfl

/-- inside a step block an ingredient event appends exactly `c07v_ingredientEventDiags` -/
theorem c07v_processEvent_ingredient_step (env : Env) (input : Str) (li : Loc (PIngredient α)) (s : Col α)
    (items : List Item) (hb : s.block = some (.step items)) :
    (processEvent env input (.ingredient li) s).2.diags.toList = s.diags.toList ++
      c07v_ingredientEventDiags env input li s.ingredients s.locIngr s.defineMode s.duplicateMode
        s.cur.content s.sections.length := by
  unfold processEvent inBlockComponent
  simp +instances only [A_bind, A_get, hb]
  unfold inStepComponent
  simp +instances only [A_bind, c07v_pushItem_diags]
  exact c07v_ingredientA_exact env input li s

/-- inside a step block a cookware event appends exactly `c07v_cookwareEventDiags` -/
theorem c07v_processEvent_cookware_step (env : Env) (input : Str) (lc : Loc (PCookware α)) (s : Col α)
    (items : List Item) (hb : s.block = some (.step items)) :
    (processEvent env input (.cookware lc) s).2.diags.toList = s.diags.toList ++
      c07v_cookwareEventDiags env input lc s.cookware s.locCw s.defineMode s.duplicateMode := by
  unfold processEvent inBlockComponent
  simp +instances only [A_bind, A_get, hb]
  unfold inStepComponent
  simp +instances only [A_bind, c07v_pushItem_diags]
  exact c07v_cookwareA_exact env input lc s

/-- inside a step block a timer event appends exactly `c07i_timerEventDiags` -/
theorem c07v_processEvent_timer_step (env : Env) (input : Str) (lt : Loc (PTimer α)) (s : Col α)
    (items : List Item) (hb : s.block = some (.step items)) :
    (processEvent env input (.timer lt) s).2.diags.toList = s.diags.toList ++ c07i_timerEventDiags env lt := by
  unfold processEvent inBlockComponent
  simp +instances only [A_bind, A_get, hb]
  unfold inStepComponent
  simp +instances only [A_bind, c07v_pushItem_diags]
  exact c07i_timerA_exact env lt s

/-- **a dangling ingredient reference placed anywhere in a step.**  The event list `evs1 ++ ingredient :: evs2`
    has no `Error` event; after `evs1` the collector is inside a step block; the ingredient has no intermediate
    data, is not `+`, is `&` (or the define mode reached is `steps`) and no non-reference ingredient collected so far
    has the same folded name.  Then the final diagnostics are: what the initial state and `evs1` contributed, then
    EXACTLY the event's list `c07v_ingredientEventDiags` (read at the state after `evs1`), then what `evs2` and the
    end of the loop add; and `reference-not-found` (error, analysis, labelled with the component's span) is in the
    event's list, hence in the final report. -/
theorem c07v_reference_not_found_anywhere (env : Env) (input : Str) (evs1 evs2 : List (Ev α))
    (li : Loc (PIngredient α)) (s : Col α) (items : List Item)
    (hne : ∀ d, Ev.error d ∉ evs1 ++ Ev.ingredient li :: evs2)
    (hb : (c07v_runEvents env input evs1 s).block = some (.step items))
    (hi : li.val.inter = none) (hnew : li.val.modifiers.val.contains Modifiers.NEW = false)
    (href : li.val.modifiers.val.contains Modifiers.REF = true ∨
      (c07v_runEvents env input evs1 s).defineMode = .steps)
    (hnone : ∀ (k : Nat) (ig : Ingredient (ScalableValue α)),
      (c07v_runEvents env input evs1 s).ingredients[k]? = some ig →
      ig.modifiers.contains Modifiers.REF = false → nameEq env (c07v_ingrName env li) ig.name = false) :
    (∃ pre post, (parseEventsLoop env input (evs1 ++ Ev.ingredient li :: evs2) s).diags.toList =
      s.diags.toList ++ pre ++
        c07v_ingredientEventDiags env input li (c07v_runEvents env input evs1 s).ingredients
          (c07v_runEvents env input evs1 s).locIngr (c07v_runEvents env input evs1 s).defineMode
          (c07v_runEvents env input evs1 s).duplicateMode (c07v_runEvents env input evs1 s).cur.content
          (c07v_runEvents env input evs1 s).sections.length ++ post) ∧
    adiag .error "reference-not-found" [li.span] ∈
      (parseEventsLoop env input (evs1 ++ Ev.ingredient li :: evs2) s).diags.toList := by
  obtain ⟨pre, post, -, h⟩ := c07v_event_placement env input evs1 evs2 (.ingredient li) s _ hne
    (c07v_processEvent_ingredient_step env input li _ items hb)
  refine ⟨⟨pre, post, h⟩, ?_⟩
  have hsn : sameNameIdx env ((c07v_runEvents env input evs1 s).ingredients.toList.map (fun x => (x.name, x.modifiers)))
      (c07v_igr0 env li (c07v_runEvents env input evs1 s).defineMode).name = none := by
    rw [c07v_igr0_name]
    apply sameNameIdx_none
    intro k nm m hk hm
    simp only [List.getElem?_map, Array.getElem?_toList, Option.map_eq_some_iff, Prod.mk.injEq] at hk
    obtain ⟨ig, hig, rfl, rfl⟩ := hk
    exact hnone k ig hig hm
  obtain ⟨k1, k2⟩ := c07v_ingredientEvent_notfound_iff env input li (c07v_runEvents env input evs1 s).ingredients
    (c07v_runEvents env input evs1 s).locIngr (c07v_runEvents env input evs1 s).defineMode
    (c07v_runEvents env input evs1 s).duplicateMode (c07v_runEvents env input evs1 s).cur.content
    (c07v_runEvents env input evs1 s).sections.length
  obtain ⟨d, hd, hk⟩ := k1.2 ⟨hi, hnew, hsn, href⟩
  have := k2 d hd hk
  subst this
  rw [h]
  simp only [List.mem_append]
  exact Or.inl (Or.inr hd)

/-! ### component and text events keep the collector inside its step block -/

local macro_rules | `(tactic| pres_leaf) => `(tactic| first
  | ((with_reducible apply Pres.ofDiag (optQuantityOf_diagOnly ..)) <;> (intro _ _ _; rfl))
  | ((with_reducible apply Pres.ofDiag (optValueOf_diagOnly ..)) <;> (intro _ _ _; rfl))
  | ((with_reducible apply Pres.ofDiag (ingrRefChecks_diagOnly ..)) <;> (intro _ _ _; rfl))
  | ((with_reducible apply Pres.ofDiag (cwRefChecks_diagOnly ..)) <;> (intro _ _ _; rfl))
  | ((with_reducible apply Pres.ofDiag (ingrInter_diagOnly ..)) <;> (intro _ _ _; rfl))
  | ((with_reducible apply Pres.ofDiag (DiagOnly.apanic _)) <;> (intro _ _ _; rfl)))

theorem c07v_ingredientA_block (env : Env) (input : Str) (li : Loc (PIngredient α)) :
    Pres (fun s : Col α => s.block) (ingredientA env input li) := by
  unfold ingredientA ingrBuild ingrRegular ingrSetReferencedFrom; pres

theorem c07v_cookwareA_block (env : Env) (input : Str) (lc : Loc (PCookware α)) :
    Pres (fun s : Col α => s.block) (cookwareA env input lc) := by
  unfold cookwareA cwBuild cwResolve cwSetReferencedFrom; pres

/-- the events that occur inside a step: text and the three components -/
def c07v_isStepInner : Ev α → Bool
  | .text _ | .ingredient _ | .cookware _ | .timer _ => true
  | _ => false

/-- a text or component event processed inside a step block leaves the collector inside a step block -/
theorem c07v_processEvent_keeps_step (env : Env) (input : Str) (ev : Ev α) (s : Col α) (items : List Item)
    (hev : c07v_isStepInner ev = true) (hb : s.block = some (.step items)) :
    ∃ items', (processEvent env input ev s).2.block = some (.step items') := by
  cases ev with
  | text t =>
    unfold processEvent inStepText
    simp +instances only [A_bind, A_get, hb]
    exact inStepTextStep_block env t items s hb
  | ingredient li =>
    have hk : (ingredientA env input li s).2.block = some (.step items) :=
      ((c07v_ingredientA_block env input li).out s).trans hb
    unfold processEvent inBlockComponent
    simp +instances only [A_bind, A_get, hb]
    unfold inStepComponent
    simp only [A_bind]
    rw [pushItem_step _ items _ hk]
    exact ⟨_, rfl⟩
  | cookware lc =>
    have hk : (cookwareA env input lc s).2.block = some (.step items) :=
      ((c07v_cookwareA_block env input lc).out s).trans hb
    unfold processEvent inBlockComponent
    simp +instances only [A_bind, A_get, hb]
    unfold inStepComponent
    simp only [A_bind]
    rw [pushItem_step _ items _ hk]
    exact ⟨_, rfl⟩
  | timer lt =>
    have hk : (timerA env lt s).2.block = some (.step items) := by
      have := (timerA_pres env lt).out s
      simp only [Prod.mk.injEq] at this
      exact this.2.2.trans hb
    unfold processEvent inBlockComponent
    simp +instances only [A_bind, A_get, hb]
    unfold inStepComponent
    simp only [A_bind]
    rw [pushItem_step _ items _ hk]
    exact ⟨_, rfl⟩
  | _ => cases hev

theorem c07v_runEvents_append (env : Env) (input : Str) (a b : List (Ev α)) (s : Col α) :
    c07v_runEvents env input (a ++ b) s = c07v_runEvents env input b (c07v_runEvents env input a s) := by
  unfold c07v_runEvents
  rw [List.foldl_append]

theorem c07v_runEvents_keeps_step (env : Env) (input : Str) (evs : List (Ev α)) (s : Col α) (items : List Item)
    (hall : ∀ ev ∈ evs, c07v_isStepInner ev = true) (hb : s.block = some (.step items)) :
    ∃ items', (c07v_runEvents env input evs s).block = some (.step items') := by
  induction evs generalizing s items with
  | nil => exact ⟨items, hb⟩
  | cons ev evs ih =>
    obtain ⟨it1, h1⟩ := c07v_processEvent_keeps_step env input ev s items (hall ev List.mem_cons_self) hb
    exact ih (processEvent env input ev s).2 it1 (fun e he => hall e (List.mem_cons_of_mem _ he)) h1

/-- **being inside a step**: after any events `pre` that leave the define mode other than `text`, a `Start(Step)`
    event and then any text / component events, the collector is inside a step block -/
theorem c07v_inside_step (env : Env) (input : Str) (pre inner : List (Ev α)) (s : Col α)
    (hdm : (c07v_runEvents env input pre s).defineMode ≠ .text)
    (hall : ∀ ev ∈ inner, c07v_isStepInner ev = true) :
    ∃ items, (c07v_runEvents env input (pre ++ Ev.start .step :: inner) s).block = some (.step items) := by
  rw [c07v_runEvents_append]
  have h0 : (processEvent env input (Ev.start .step) (c07v_runEvents env input pre s)).2.block = some (.step []) := by
    have hd : ((c07v_runEvents env input pre s).defineMode == DefineMode.text) = false := by
      cases h : (c07v_runEvents env input pre s).defineMode <;> first | rfl | exact absurd h hdm
    unfold processEvent
    simp +instances only [A_modify, hd, Bool.false_eq_true, if_false]
  exact c07v_runEvents_keeps_step env input inner _ [] hall h0

end Cook
