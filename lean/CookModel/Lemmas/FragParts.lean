import CookModel.Lemmas.FragComp
/-
  C05 at fragment level: the parts of a component (body, note, alias, modifiers) and the ingredient and
  cookware parsers.
-/
set_option linter.unusedSectionVars false
set_option linter.unusedSimpArgs false
set_option linter.unusedVariables false
namespace Cook

variable {α : Type} [Arith α]
variable {off : Nat} {w : List Char} {Pv : Array (Ev α) → Prop} {ts : List Tok} {e : Ext} {s : BP α}
  {cs : CharSpec}

/-- what `comp_body` consumed between the cursors `c` and `c'`: the name tokens `ts[c..c1]`, then nothing
    (single-word form) or `{`, the quantity tokens, `}` — and a content token between the braces makes
    the quantity present -/
def BodyFrag (cs : CharSpec) (ts : List Tok) (c c' : Nat) (b : Body) : Prop :=
  ∃ c1, c ≤ c1 ∧ c1 ≤ c' ∧ b.name = slice ts c c1 ∧
    ∀ i t, c1 ≤ i → i < c' → ts[i]? = some t → CoreTok cs t → ∃ q, b.quantity = some q ∧ t ∈ q

theorem compBodyLong_fc (h : G ts e s) :
    Sat (compBodyLong (α := α)) s (fun r s' => ∀ b, r = some b → BodyFrag cs ts s.cur s'.cur b) := by
  unfold compBodyLong
  apply withRecover_sat
  refine Sat.bind (Sat.mono (untilK_sat _ h) ?_)
  rintro r1 s1 ⟨g1, h1⟩
  cases r1 with
  | none => exact Sat.pure (fun _ hb => by cases hb)
  | some name =>
    obtain ⟨c1, hname, -, -⟩ := h1
    refine Sat.bind (Sat.mono (consumeK_sat _ g1) ?_)
    rintro r2 s2 ⟨g2, h2⟩
    cases r2 with
    | none => exact Sat.pure (fun _ hb => by cases hb)
    | some ob =>
      obtain ⟨hob, hobk, c2⟩ := h2
      refine Sat.bind (Sat.mono (untilK_sat _ g2) ?_)
      rintro r3 s3 ⟨g3, h3⟩
      cases r3 with
      | none => exact Sat.pure (fun _ hb => by cases hb)
      | some q =>
        obtain ⟨c3, hq, ⟨t, ht, hk⟩, -⟩ := h3
        refine Sat.bind (Sat.mono (bump_sat g3 ht (by simpa using hk)) ?_)
        rintro cb s4 ⟨rfl, g4, c4⟩
        refine Sat.pure ?_
        intro b hb
        simp only [Option.some.injEq] at hb; subst hb
        refine ⟨s1.cur, c1, by omega, hname, ?_⟩
        intro i u a b hu hc
        by_cases a1 : i = s1.cur
        · subst a1; rw [hob] at hu; cases hu; exact absurd hobk (hc.kindNe (by decide))
        by_cases a2 : i < s3.cur
        · have hm : u ∈ q := by rw [hq]; exact cover_mem_slice (by omega) a2 hu
          have hany : q.any (fun t => !(t.kind == .ws || t.kind == .blockComment)) = true := by
            rw [List.any_eq_true]
            refine ⟨u, hm, ?_⟩
            have := hc.1.notWsComment
            simp only [isWsComment, Bool.or_eq_false_iff] at this
            simp [this.1.1, this.2]
          refine ⟨q, ?_, hm⟩
          show (if q.any (fun t => !(t.kind == .ws || t.kind == .blockComment)) = true then some q else none) = some q
          rw [if_pos hany]
        · have : i = s3.cur := by omega
          subst this; rw [ht] at hu; cases hu
          exact absurd (by simpa using hk) (hc.kindNe (k := .closeBrace) (by decide))

theorem compBodyShort_fc (h : G ts e s) :
    Sat (compBodyShort (α := α)) s (fun r s' => ∀ b, r = some b → BodyFrag cs ts s.cur s'.cur b) := by
  unfold compBodyShort
  apply withRecover_sat
  refine Sat.bind (Sat.mono (consumeWhile_sat _ h) ?_)
  rintro toks s1 ⟨g1, c1, htoks, -, -⟩
  split
  · refine Sat.bind (restToks_sat g1 ?_)
    refine Sat.bind (atK_sat g1 ?_)
    split
    · refine Sat.bind (currentOffset_sat g1 ?_)
      refine Sat.bind (Sat.pwarn ?_)
      intro evs
      exact Sat.pure (fun _ hb => by cases hb)
    · exact Sat.pure (fun _ hb => by cases hb)
  · refine Sat.pure ?_
    intro b hb
    simp only [Option.some.injEq] at hb; subst hb
    exact ⟨s1.cur, c1, Nat.le_refl _, htoks, fun i u a b => by omega⟩

theorem compBody_fc (hw : WFI off w ts) (h : G ts e s) :
    Sat (compBody (α := α)) s (fun r s' => ∀ b, r = some b → BodyFrag cs ts s.cur s'.cur b) := by
  have hc : Ctx off w (fun _ : Array (Ev α) => True) ts := ⟨hw, fun _ _ _ _ => ⟨trivial, trivial⟩⟩
  have hge : GE (fun _ : Array (Ev α) => True) ts e s := ⟨h, trivial⟩
  unfold compBody
  refine Sat.bind (Sat.mono ((compBodyLong_ev hc hge).covBoth (compBodyLong_fc (cs := cs) h)) ?_)
  rintro r s1 ⟨⟨g1, h1⟩, hb⟩
  cases r with
  | some b => exact Sat.pure hb
  | none =>
    dsimp only at h1
    refine Sat.mono (compBodyShort_fc (cs := cs) g1.g) ?_
    intro r s2 hq b hb'
    rw [← h1]; exact hq b hb'

theorem noteP_fc (hw : WFI off w ts) (h : G ts e s) :
    Sat (noteP (α := α)) s (fun r s' => ∀ i t, s.cur ≤ i → i < s'.cur → ts[i]? = some t → CoreTok cs t →
      OptHolds r (tokBodyStart t) t.stop) := by
  unfold noteP
  apply withRecover_sat
  refine Sat.bind (Sat.mono (consumeK_sat _ h) ?_)
  rintro r1 s1 ⟨g1, h1⟩
  cases r1 with
  | none => exact Sat.pure (fun i t a b => absurd a (Nat.not_le.2 b))
  | some o =>
    obtain ⟨ho, hok, c1⟩ := h1
    refine Sat.bind (currentOffset_sat g1 ?_)
    refine Sat.bind (Sat.mono (untilK_sat _ g1) ?_)
    rintro r2 s2 ⟨g2, h2⟩
    cases r2 with
    | none => exact Sat.pure (fun i t a b => absurd a (Nat.not_le.2 b))
    | some n =>
      obtain ⟨c2, hn, ⟨c, hcl, hck⟩, -⟩ := h2
      refine Sat.bind (Sat.mono (bump_sat g2 hcl (by simpa using hck)) ?_)
      rintro _ s3 ⟨-, g3, c3⟩
      have hr : RunAt (offAt ts s1.cur) n := by rw [hn]; exact slice_runAt hw.wf.run c2
      refine Sat.bind (bpText_sat hr ?_)
      refine Sat.pure ?_
      intro i t a b ht hc
      by_cases a1 : i = s.cur
      · subst a1; rw [ho] at ht; cases ht; exact absurd hok (hc.kindNe (by decide))
      by_cases a2 : i < s2.cur
      · have hm : t ∈ n := by rw [hn]; exact cover_mem_slice (by omega) a2 ht
        exact ⟨_, rfl, frag_run hr hm (hc.hasBody hw.wf.run.2 (List.mem_of_getElem? ht))⟩
      · have hb : i < s3.cur := b
        have : i = s2.cur := by omega
        subst this; rw [hcl] at ht; cases ht
        exact absurd (by simpa using hck) (hc.kindNe (k := .closeParen) (by decide))

/-- `parse_alias`: every content token of the name tokens is in a fragment of the name or of the alias,
    or the alias was dropped with an error (`multiple-aliases`, `empty-alias`) -/
theorem parseAlias_fc (hup : UpP Pv) (container : String) {toks : List Tok} {o : Nat}
    (hr : RunAt o toks) (h : GE Pv ts e s) :
    Sat (parseAlias (α := α) container toks o) s (fun r s' => GE Pv ts e s' ∧ s'.cur = s.cur ∧
      ∀ t ∈ toks, CoreTok cs t → HasErrEv s'.evs ∨ r.1.holds (tokBodyStart t) t.stop ∨
        OptHolds r.2 (tokBodyStart t) t.stop) := by
  unfold parseAlias
  refine Sat.bind (hasExt_sat h.g ?_)
  dsimp only
  split
  · refine Sat.bind (bpText_sat hr ?_)
    refine Sat.pure ⟨h, rfl, ?_⟩
    intro t ht hc
    exact Or.inr (Or.inl (frag_run hr ht (hc.hasBody hr.2 ht)))
  · rename_i i hi
    have hfi : toks.findIdx? (fun t => t.kind == .or) = some i := by
      split at hi
      · exact hi
      · cases hi
    rw [List.findIdx?_eq_some_iff_getElem] at hfi
    obtain ⟨hlt, hsepk, -⟩ := hfi
    have hget : toks[i]? = some toks[i] := List.getElem?_eq_getElem hlt
    have e1 : toks = toks.take i ++ (toks[i] :: toks.drop (i + 1)) := by
      have h1 : toks.drop i = toks[i] :: toks.drop (i + 1) := List.drop_eq_getElem_cons hlt
      rw [← h1, List.take_append_drop]
    have hr' := hr
    rw [e1, runAt_append] at hr'
    obtain ⟨hr1, hr2'⟩ := hr'
    have hr2 : RunAt toks[i].stop (toks.drop (i + 1)) := by
      obtain ⟨⟨-, k2⟩, k3⟩ := hr2'
      exact ⟨k2, fun t ht => k3 t (List.mem_cons_of_mem _ ht)⟩
    simp only [hget, Option.getD_some]
    refine Sat.bind (bpText_sat hr2 ?_)
    refine Sat.bind (Sat.get ?_)
    apply Sat.bind
    apply Sat.mono (Q := fun r s' => GE Pv ts e s' ∧ s'.cur = s.cur ∧
      ∀ t ∈ toks.drop (i + 1), CoreTok cs t → HasErrEv s'.evs ∨ OptHolds r (tokBodyStart t) t.stop)
    · split
      · refine Sat.bind (Sat.perrE ?_)
        exact Sat.pure ⟨h.pushUp hup _, rfl, fun t _ _ => Or.inl (HasErrEv.pushed _ _)⟩
      · split
        · refine Sat.bind (Sat.perrE ?_)
          exact Sat.pure ⟨h.pushUp hup _, rfl, fun t _ _ => Or.inl (HasErrEv.pushed _ _)⟩
        · exact Sat.pure ⟨h, rfl, fun t ht hc => Or.inr ⟨_, rfl, frag_run hr2 ht (hc.hasBody hr2.2 ht)⟩⟩
    rintro alias s1 ⟨g1, c1, ha⟩
    refine Sat.bind (bpText_sat hr1 ?_)
    refine Sat.pure ⟨g1, c1, ?_⟩
    intro t ht hc
    rw [e1] at ht
    simp only [List.mem_append, List.mem_cons] at ht
    rcases ht with h1 | rfl | h3
    · exact Or.inr (Or.inl (frag_run hr1 h1 (hc.hasBody hr1.2 h1)))
    · exact absurd (by simpa using hsepk) (hc.kindNe (k := .or) (by decide))
    · rcases ha t h3 hc with h' | h'
      · exact Or.inl h'
      · exact Or.inr (Or.inr h')

theorem checkEmptyName_up (hup : UpP Pv) (container : String) (name : Text) (h : GE Pv ts e s) :
    Sat (checkEmptyName (α := α) container name) s (fun _ s' => GE Pv ts e s' ∧ s'.cur = s.cur) := by
  unfold checkEmptyName
  refine Sat.bind (Sat.get ?_)
  split
  · exact Sat.perrE ⟨h.pushUp hup _, rfl⟩
  · exact Sat.pure ⟨h, rfl⟩

/-- the span of the parsed modifiers is the span of the modifier tokens -/
theorem parseModifiers_span (mtoks : List Tok) (pos : Nat) (s : BP α) :
    Sat (parseModifiers (α := α) mtoks pos) s (fun r _ => mtoks ≠ [] → r.flags.span = tokensSpan mtoks) := by
  unfold parseModifiers
  split
  · rename_i hemp
    refine Sat.pure ?_
    intro hne
    exfalso; apply hne
    simpa using hemp
  · dsimp only
    refine Sat.bind (Sat.hasExt ?_)
    refine Sat.bind ?_
    exact fun _ => rfl

/-- the modifier tokens lie inside the span of the parsed modifiers -/
theorem frag_mods_hold {mtoks : List Tok} {o : Nat} (hr : RunAt o mtoks) {sp : Span}
    (hsp : mtoks ≠ [] → sp = tokensSpan mtoks) {t : Tok} (ht : t ∈ mtoks) :
    sp.holds (tokBodyStart t) t.stop := by
  have hne : mtoks ≠ [] := List.ne_nil_of_mem ht
  rw [hsp hne, tokensSpan_chain hr.1 hne]
  exact frag_span_run hr.1 ht

/-! ### ingredient -/

theorem ingredientP_fc (hup : UpP Pv) (hw : WFI off w ts) (h : GE Pv ts e s) (hcs : s.cs = cs) :
    Sat (ingredientP (α := α)) s (fun r s' => GE Pv ts e s' ∧ ∀ ev, r = some ev →
      ∀ i t, s.cur ≤ i → i < s'.cur → ts[i]? = some t → CoreTok cs t →
        HasErrEv s'.evs ∨ ev.carries cs (tokBodyStart t) t.stop) := by
  have hc : Ctx off w Pv ts := upCtx hw hup
  unfold ingredientP
  refine Sat.bind (currentOffset_sat h.g ?_)
  refine Sat.bind (Sat.mono ((consumeK_ge _ h).fragCs (IndGA.of_indA (consumeK_indA _))) ?_)
  rintro r1 s1 ⟨⟨g1, h1⟩, cs1⟩
  cases r1 with
  | none => exact Sat.pure ⟨g1, fun _ hev => by cases hev⟩
  | some m =>
    obtain ⟨hm, hmk, c1⟩ := h1
    refine Sat.bind (currentOffset_sat g1.g ?_)
    refine Sat.bind (Sat.mono ((modifiersP_ev g1).fragCs (modifiersP_indGA fragFlags_1 fragFlags_2)) ?_)
    rintro mtoks s2 ⟨⟨g2, c2, hmseq, hmt⟩, cs2⟩
    have hrm : RunIn off w (offAt ts s1.cur) mtoks := by rw [hmt]; exact hw.slice c2
    refine Sat.bind (currentOffset_sat g2.g ?_)
    refine Sat.bind (Sat.mono (((compBody_ev hc g2).covBoth (compBody_fc (cs := cs) hw g2.g)).fragCs
      (IndGA.of_indA compBody_indA)) ?_)
    rintro r3 s3 ⟨⟨⟨g3, h3⟩, hbf⟩, cs3⟩
    cases r3 with
    | none => exact Sat.pure ⟨g3, fun _ hev => by cases hev⟩
    | some body =>
      obtain ⟨c3, hname, hq, -⟩ := h3
      obtain ⟨cn, cn1, cn2, hbn, hbq⟩ := hbf body rfl
      refine Sat.bind (Sat.mono (((noteP_ev hc g3).covBoth (noteP_fc (cs := cs) hw g3.g)).fragCs
        (IndGA.of_indA noteP_indA)) ?_)
      rintro note s4 ⟨⟨⟨g4, c4, -⟩, hnf⟩, cs4⟩
      refine Sat.bind (currentOffset_sat g4.g ?_)
      refine Sat.bind (Sat.mono ((parseAlias_fc (cs := cs) hup "ingredient" hname.run g4).fragCs
        (parseAlias_indGA fragFlags_3 _ _ _)) ?_)
      rintro ⟨name, alias⟩ s5 ⟨⟨g5, c5, hal⟩, cs5⟩
      dsimp only at hal ⊢
      have hup' := hup.kept s5.evs
      have hc' := upCtx hw hup'
      refine Sat.bind (Sat.mono ((checkEmptyName_up hup' "ingredient" name g5.keep).fragCs
        (IndGA.of_indA (checkEmptyName_indA _ _))) ?_)
      rintro _ s6 ⟨⟨g6, c6⟩, cs6⟩
      refine Sat.bind (Sat.mono (((parseModifiers_ev hc' mtoks _ g6 hmseq hrm (hw.offAt _)).covBoth
        (parseModifiers_span mtoks _ s6)).fragCs (parseModifiers_indGA fragFlags_2 _ _)) ?_)
      rintro pm s7 ⟨⟨⟨g7, c7, -⟩, hpsp⟩, cs7⟩
      have hcs7 : s7.cs = cs := by rw [cs7, cs6, cs5, cs4, cs3, cs2, cs1, hcs]
      apply Sat.bind
      apply Sat.mono (Q := fun (r : Option (Loc (PQuantity α))) s' => GE (ErrKept s5.evs Pv) ts e s' ∧
        s'.cur = s7.cur ∧ ∀ qt, body.quantity = some qt → ∀ t ∈ qt, CoreTok cs t →
          ∃ lq, r = some lq ∧ QtyHolds cs lq.val (tokBodyStart t) t.stop)
      · split
        · rename_i qt hqt
          refine Sat.bind (Sat.mono (parseQuantity_fc hup' hw (hq qt hqt) g7 hcs7) ?_)
          rintro q s8 ⟨g8, c8, hqr⟩
          refine Sat.pure ⟨g8, c8, ?_⟩
          intro qt' hqt' t ht hc
          rw [hqt] at hqt'; cases hqt'
          exact ⟨_, rfl, hqr t ht hc⟩
        · rename_i hnone
          refine Sat.pure ⟨g7, rfl, ?_⟩
          intro qt' hqt'
          rw [hnone] at hqt'; cases hqt'
      rintro quantity s8 ⟨g8, c8, hqo⟩
      refine Sat.pure ⟨g8.unkeep, ?_⟩
      intro ev hev i t a b ht hc
      simp only [Option.some.injEq] at hev; subst hev
      have herr : HasErrEv s5.evs → HasErrEv s8.evs := g8.evs.2
      have hb : i < s8.cur := b
      by_cases a1 : i < s1.cur
      · have : i = s.cur := by omega
        subst this; rw [hm] at ht; cases ht; exact absurd hmk (hc.kindNe (by decide))
      by_cases a2 : i < s2.cur
      · have hmm : t ∈ mtoks := by rw [hmt]; exact cover_mem_slice (by omega) a2 ht
        exact Or.inr (Or.inl (frag_mods_hold hrm.run hpsp hmm))
      by_cases a3 : i < cn
      · have hmn : t ∈ body.name := by rw [hbn]; exact cover_mem_slice (by omega) a3 ht
        rcases hal t hmn hc with h' | h' | h'
        · exact Or.inl (herr h')
        · exact Or.inr (Or.inr (Or.inl h'))
        · exact Or.inr (Or.inr (Or.inr (Or.inl h')))
      by_cases a4 : i < s3.cur
      · obtain ⟨qt, hqt, hmq⟩ := hbq i t (by omega) a4 ht hc
        obtain ⟨lq, hlq, hh⟩ := hqo qt hqt t hmq hc
        exact Or.inr (Or.inr (Or.inr (Or.inr (Or.inr ⟨lq, hlq, hh⟩))))
      · exact Or.inr (Or.inr (Or.inr (Or.inr (Or.inl (hnf i t (by omega) (by omega) ht hc)))))

/-! ### cookware -/

theorem cookwareP_fc (hup : UpP Pv) (hw : WFI off w ts) (h : GE Pv ts e s) (hcs : s.cs = cs) :
    Sat (cookwareP (α := α)) s (fun r s' => GE Pv ts e s' ∧ ∀ ev, r = some ev →
      ∀ i t, s.cur ≤ i → i < s'.cur → ts[i]? = some t → CoreTok cs t →
        HasErrEv s'.evs ∨ ev.carries cs (tokBodyStart t) t.stop) := by
  have hc : Ctx off w Pv ts := upCtx hw hup
  unfold cookwareP
  refine Sat.bind (currentOffset_sat h.g ?_)
  refine Sat.bind (Sat.mono ((consumeK_ge _ h).fragCs (IndGA.of_indA (consumeK_indA _))) ?_)
  rintro r1 s1 ⟨⟨g1, h1⟩, cs1⟩
  cases r1 with
  | none => exact Sat.pure ⟨g1, fun _ hev => by cases hev⟩
  | some m =>
    obtain ⟨hm, hmk, c1⟩ := h1
    refine Sat.bind (currentOffset_sat g1.g ?_)
    refine Sat.bind (Sat.mono ((modifiersP_ev g1).fragCs (modifiersP_indGA fragFlags_1 fragFlags_2)) ?_)
    rintro mtoks s2 ⟨⟨g2, c2, hmseq, hmt⟩, cs2⟩
    have hrm : RunIn off w (offAt ts s1.cur) mtoks := by rw [hmt]; exact hw.slice c2
    refine Sat.bind (currentOffset_sat g2.g ?_)
    refine Sat.bind (Sat.mono (((compBody_ev hc g2).covBoth (compBody_fc (cs := cs) hw g2.g)).fragCs
      (IndGA.of_indA compBody_indA)) ?_)
    rintro r3 s3 ⟨⟨⟨g3, h3⟩, hbf⟩, cs3⟩
    cases r3 with
    | none => exact Sat.pure ⟨g3, fun _ hev => by cases hev⟩
    | some body =>
      obtain ⟨c3, hname, hq, -⟩ := h3
      obtain ⟨cn, cn1, cn2, hbn, hbq⟩ := hbf body rfl
      refine Sat.bind (Sat.mono (((noteP_ev hc g3).covBoth (noteP_fc (cs := cs) hw g3.g)).fragCs
        (IndGA.of_indA noteP_indA)) ?_)
      rintro note s4 ⟨⟨⟨g4, c4, -⟩, hnf⟩, cs4⟩
      refine Sat.bind (currentOffset_sat g4.g ?_)
      refine Sat.bind (Sat.mono ((parseAlias_fc (cs := cs) hup "cookware" hname.run g4).fragCs
        (parseAlias_indGA fragFlags_3 _ _ _)) ?_)
      rintro ⟨name, alias⟩ s5 ⟨⟨g5, c5, hal⟩, cs5⟩
      dsimp only at hal ⊢
      have hup' := hup.kept s5.evs
      refine Sat.bind (Sat.mono ((checkEmptyName_up hup' "cookware" name g5.keep).fragCs
        (IndGA.of_indA (checkEmptyName_indA _ _))) ?_)
      rintro _ s6 ⟨⟨g6, c6⟩, cs6⟩
      have hcs6 : s6.cs = cs := by rw [cs6, cs5, cs4, cs3, cs2, cs1, hcs]
      apply Sat.bind
      apply Sat.mono (Q := fun (r : Option (Loc (PQValue α))) s' => GE (ErrKept s5.evs Pv) ts e s' ∧
        s'.cur = s6.cur ∧ ∀ qt, body.quantity = some qt → ∀ t ∈ qt, CoreTok cs t →
          HasErrEv s'.evs ∨ ∃ lq, r = some lq ∧ ValHolds cs lq.val.value (tokBodyStart t) t.stop)
      · split
        · rename_i qt hqt
          refine Sat.bind (Sat.mono (parseQuantity_fc hup' hw (hq qt hqt) g6 hcs6) ?_)
          rintro q s7 ⟨g7, c7, hqr⟩
          split
          · refine Sat.bind (Sat.perrE ?_)
            exact Sat.pure ⟨g7.pushUp hup' _, c7, fun _ _ _ _ _ => Or.inl (HasErrEv.pushed _ _)⟩
          · rename_i hun
            refine Sat.pure ⟨g7, c7, ?_⟩
            intro qt' hqt' t ht hc
            rw [hqt] at hqt'; cases hqt'
            rcases hqr t ht hc with h' | ⟨u, hu, -⟩
            · exact Or.inr ⟨_, rfl, h'⟩
            · rw [hun] at hu; cases hu
        · rename_i hnone
          refine Sat.pure ⟨g6, rfl, ?_⟩
          intro qt' hqt'
          rw [hnone] at hqt'; cases hqt'
      rintro quantity s7 ⟨g7, c7, hqo⟩
      have hup'' := hup'.kept s7.evs
      have hc'' := upCtx hw hup''
      refine Sat.bind (Sat.mono ((parseModifiers_ev hc'' mtoks _ g7.keep hmseq hrm (hw.offAt _)).covBoth
        (parseModifiers_span mtoks _ s7)) ?_)
      rintro pm s8 ⟨⟨g8, c8, hrec, -, -⟩, hpsp⟩
      have fin : ∀ s9 : BP α, GE (ErrKept s7.evs (ErrKept s5.evs Pv)) ts e s9 → s9.cur = s8.cur →
          Sat (pure (some (Ev.cookware ⟨⟨pm.flags, name, alias, quantity, note⟩,
              ⟨offAt ts s.cur, offAt ts s4.cur⟩⟩)) : P α (Option (Ev α))) s9
            (fun r s' => GE Pv ts e s' ∧ ∀ ev, r = some ev →
              ∀ i t, s.cur ≤ i → i < s'.cur → ts[i]? = some t → CoreTok cs t →
                HasErrEv s'.evs ∨ ev.carries cs (tokBodyStart t) t.stop) := by
        intro s9 g9 c9
        refine Sat.pure ⟨g9.unkeep.unkeep, ?_⟩
        intro ev hev i t a b ht hc
        simp only [Option.some.injEq] at hev; subst hev
        have herr7 : HasErrEv s7.evs → HasErrEv s9.evs := g9.evs.2
        have herr5 : HasErrEv s5.evs → HasErrEv s9.evs := g9.evs.1.2
        have hb : i < s9.cur := b
        by_cases a1 : i < s1.cur
        · have : i = s.cur := by omega
          subst this; rw [hm] at ht; cases ht; exact absurd hmk (hc.kindNe (by decide))
        by_cases a2 : i < s2.cur
        · have hmm : t ∈ mtoks := by rw [hmt]; exact cover_mem_slice (by omega) a2 ht
          exact Or.inr (Or.inl (frag_mods_hold hrm.run hpsp hmm))
        by_cases a3 : i < cn
        · have hmn : t ∈ body.name := by rw [hbn]; exact cover_mem_slice (by omega) a3 ht
          rcases hal t hmn hc with h' | h' | h'
          · exact Or.inl (herr5 h')
          · exact Or.inr (Or.inr (Or.inl h'))
          · exact Or.inr (Or.inr (Or.inr (Or.inl h')))
        by_cases a4 : i < s3.cur
        · obtain ⟨qt, hqt, hmq⟩ := hbq i t (by omega) a4 ht hc
          rcases hqo qt hqt t hmq hc with h' | ⟨lq, hlq, hh⟩
          · exact Or.inl (herr7 h')
          · exact Or.inr (Or.inr (Or.inr (Or.inr (Or.inr ⟨lq, hlq, hh⟩))))
        · exact Or.inr (Or.inr (Or.inr (Or.inr (Or.inl (hnf i t (by omega) (by omega) ht hc)))))
      have hrcp : ∀ s9 : BP α, GE (ErrKept s7.evs (ErrKept s5.evs Pv)) ts e s9 → s9.cur = s8.cur →
          Sat (do
            if pm.flags.val.contains Modifiers.RECIPE then
              match mtoks.find? (fun t => t.kind == .at) with
              | some t => perr "cookware-recipe-modifier" [⟨t.start, t.stop⟩]
              | none => panicWith "no recipe token in modifiers with recipe"
            return some (Ev.cookware ⟨⟨pm.flags, name, alias, quantity, note⟩,
              ⟨offAt ts s.cur, offAt ts s4.cur⟩⟩) : P α (Option (Ev α))) s9
            (fun r s' => GE Pv ts e s' ∧ ∀ ev, r = some ev →
              ∀ i t, s.cur ≤ i → i < s'.cur → ts[i]? = some t → CoreTok cs t →
                HasErrEv s'.evs ∨ ev.carries cs (tokBodyStart t) t.stop) := by
        intro s9 g9 c9
        split
        · rename_i hcc
          obtain ⟨t, htm, htk⟩ := hrec hcc
          split
          · rename_i t' hfind
            refine Sat.bind (Sat.perrE ?_)
            exact fin _ (g9.pushUp hup'' _) c9
          · rename_i hnone
            exfalso
            rw [List.find?_eq_none] at hnone
            exact hnone t htm (by simp [htk])
        · exact Sat.bind (Sat.pure (fin _ g9 c9))
      split
      · rename_i d hd
        refine Sat.bind (Sat.perrE ?_)
        exact hrcp _ (g8.pushUp hup'' _) rfl
      · exact Sat.bind (Sat.pure (hrcp _ g8 rfl))

end Cook
