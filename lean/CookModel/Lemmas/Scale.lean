import CookModel.Num.Scale
import CookModel.Lemmas.Convert
/-
  Lemmas about the scaling model at `α := Rat`.
-/
namespace Cook
open Arith

/-! ### which values are `Linear` -/

theorem mkScalable_linear_iff (isIngredient hasLock : Bool) (v w : Value Rat) :
    mkScalable isIngredient hasLock v = .linear w ↔
      (isIngredient = true ∧ v.isText = false ∧ hasLock = false ∧ w = v) := by
  unfold mkScalable
  cases isIngredient <;> cases hasLock <;> cases h : v.isText <;> simp [eq_comm]

theorem mkScalable_val (isIngredient hasLock : Bool) (v : Value Rat) :
    (mkScalable isIngredient hasLock v).val = v := by
  unfold mkScalable; split <;> rfl

/-! ### `linear_scale` -/

theorem linearScale_parts {v v' : Value Rat} {f : Rat} (h : linearScale v f = some v') :
    v'.parts = v.parts.map (fun x => x * f) := by
  cases v with
  | number n => simp only [linearScale, Option.some.injEq] at h; subst h; simp [Value.parts, Number.value]
  | range s e => simp only [linearScale, Option.some.injEq] at h; subst h; simp [Value.parts, Number.value]
  | text t => simp [linearScale] at h

theorem linearScale_some {v : Value Rat} (f : Rat) (h : v.isText = false) :
    ∃ v', linearScale v f = some v' ∧ v'.isText = false := by
  cases v with
  | number n => exact ⟨_, rfl, rfl⟩
  | range s e => exact ⟨_, rfl, rfl⟩
  | text t => simp [Value.isText] at h

theorem linearScale_none {v : Value Rat} (f : Rat) (h : v.isText = true) : linearScale v f = none := by
  cases v with
  | number n => simp [Value.isText] at h
  | range s e => simp [Value.isText] at h
  | text t => rfl

/-- the outcome that names the case of a scalable value -/
def outcomeOf : Option (ScalableValue Rat) → ScaleOutcome
  | none => .noQuantity
  | some (.fixed _) => .fixed
  | some (.linear v) => if v.isText then .error else .scaled

theorem scale_outcome (sv : ScalableValue Rat) (f : Rat) : (sv.scale f).2 = outcomeOf (some sv) := by
  cases sv with
  | fixed v => rfl
  | linear v =>
    simp only [ScalableValue.scale, outcomeOf]
    cases h : v.isText with
    | true => rw [linearScale_none f h]; rfl
    | false => obtain ⟨v', hv', _⟩ := linearScale_some f h; rw [hv']; rfl

theorem scaleOptQuantity_outcome (q : Option (Quantity (ScalableValue Rat))) (f : Rat) :
    (scaleOptQuantity q f).2 = outcomeOf (q.map (·.value)) := by
  cases q with
  | none => rfl
  | some q => simp [scaleOptQuantity, scaleQuantity, scale_outcome]

/-! ### fitting after scaling restates the quantity -/

theorem tryFraction_text (c : Converter Rat) (q : SQuantity Rat) (t : Str) (h : q.value = .text t) :
    tryFraction c q = (q, false) := by
  unfold tryFraction
  split
  · rfl
  · split
    · rfl
    · simp [h]

theorem fitFraction_text (c : Converter Rat) (q : SQuantity Rat) (u : Unit Rat) (target : Option System)
    (t : Str) (h : q.value = .text t) :
    fitFraction c q u target = (q, .ok false) ∨ fitFraction c q u target = (q, .error (.textValue t)) := by
  unfold fitFraction
  cases target with
  | none => left; simp [tryFraction_text c q t h]
  | some s => right; simp [h]

/-- a text value is never touched by `fit` -/
theorem fit_text (c : Converter Rat) (q : SQuantity Rat) (t : Str) (h : q.value = .text t) :
    (fit c q).1 = q := by
  unfold fit
  cases hu : unitInfo c q with
  | none => rfl
  | some u =>
    simp only
    have hconv := convertImpl_text c q .sameSystem u t hu h
    split
    · rcases fitFraction_text c q u u.system t h with hf | hf
      · rw [hf]; simp only; rw [hconv]
      · rw [hf]
    · rw [hconv]

/-- whatever `fit` returns, the quantity afterwards is the same one or a restatement of it -/
theorem fit_restates {c : Converter Rat} (hc : c.Sound) (q : SQuantity Rat) :
    (unitInfo c q = none ∧ (fit c q).1 = q) ∨
    ∃ u nu, unitInfo c q = some u ∧ Restated c q u (fit c q).1 nu := by
  have h := fit_spec hc q
  generalize fit c q = r at h
  cases h with
  | unknown hu => exact Or.inl ⟨hu, rfl⟩
  | failed e he =>
    cases hu : unitInfo c q with
    | none => exact Or.inl ⟨rfl, rfl⟩
    | some u => exact Or.inr ⟨u, u, rfl, Restated.refl hu⟩
  | fitted q' u nu hu hr _ => exact Or.inr ⟨u, nu, hu, hr⟩

/-! ### per-component scaling -/

theorem scaleIngredient_fields (c : Converter Rat) (f : Rat) (i : Ingredient (ScalableValue Rat)) :
    (scaleIngredient c f i).1.name = i.name ∧ (scaleIngredient c f i).1.alias = i.alias ∧
    (scaleIngredient c f i).1.note = i.note ∧ (scaleIngredient c f i).1.reference = i.reference ∧
    (scaleIngredient c f i).1.relation = i.relation ∧ (scaleIngredient c f i).1.modifiers = i.modifiers :=
  ⟨rfl, rfl, rfl, rfl, rfl, rfl⟩

theorem scaleCookware_fields (f : Rat) (k : Cookware (ScalableValue Rat)) :
    (scaleCookware f k).1.name = k.name ∧ (scaleCookware f k).1.alias = k.alias ∧
    (scaleCookware f k).1.note = k.note ∧ (scaleCookware f k).1.relation = k.relation ∧
    (scaleCookware f k).1.modifiers = k.modifiers := by
  unfold scaleCookware; split <;> exact ⟨rfl, rfl, rfl, rfl, rfl⟩

theorem scaleCookware_outcome (f : Rat) (k : Cookware (ScalableValue Rat)) :
    (scaleCookware f k).2 = outcomeOf k.quantity := by
  unfold scaleCookware
  cases hq : k.quantity with
  | none => rfl
  | some v => simp [scale_outcome]

/-- the quantity of a scaled component: scaled (or kept) value in the written unit, then fitted -/
theorem scaled_quantity_eq (c : Converter Rat) (f : Rat) (q : Quantity (ScalableValue Rat)) :
    fitOpt c (scaleOptQuantity (some q) f).1 = some (fit c ⟨(q.value.scale f).1, q.unit⟩).1 := rfl

theorem scale_fixed_value (v : Value Rat) (f : Rat) : ((ScalableValue.fixed v).scale f).1 = v := rfl

theorem scale_linear_value {v : Value Rat} (f : Rat) (h : v.isText = false) :
    ∃ v', ((ScalableValue.linear v).scale f).1 = v' ∧ v'.parts = v.parts.map (fun x => x * f) ∧
      v'.isText = false := by
  obtain ⟨v', hv', ht⟩ := linearScale_some f h
  refine ⟨v', ?_, linearScale_parts hv', ht⟩
  simp [ScalableValue.scale, hv']

theorem amounts_map (ps : List Rat) (g : Rat → Rat) (u : Unit Rat) :
    amounts (ps.map g) u = ps.map (fun x => amount (g x) u) := by
  simp [amounts, List.map_map, Function.comp_def]

/-- for a unit without offset, scaling the value scales the amount -/
theorem amount_mul (x f : Rat) (u : Unit Rat) (h : u.difference = 0) :
    amount (x * f) u = f * amount x u := by
  rw [amount_rat, amount_rat, h]; grind

end Cook
