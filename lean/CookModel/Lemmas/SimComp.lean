import CookModel.Lemmas.SimQty
/-
  The component parsers (src/parser/step.rs) on related token blocks (`LRel TokSim`): component
  bodies, modifiers, intermediate references, aliases, notes, and the three component parsers
  `ingredient`, `cookware`, `timer`.  Results are related by `PIngredientSim` / `PCookwareSim` /
  `PTimerSim` (same content, spans not compared).
-/
set_option linter.unusedSectionVars false
set_option linter.unusedVariables false
set_option linter.unusedSimpArgs false
namespace Cook

variable {α : Type} [Arith α]

/-- component bodies over related tokens -/
structure BodySim (b' b : Body) : Prop where
  name : LRel TokSim b'.name b.name
  close : b'.close.isSome = b.close.isSome
  quantity : OptRel (LRel TokSim) b'.quantity b.quantity

/-- the accepted shapes of `parse_intermediate_ref_data` (after dropping blanks): the `Int` token,
    relative?, section? -/
def interGood (f : List Tok) : Option (Tok × Bool × Bool) :=
  match f with
  | [i] => if i.kind == .int then some (i, false, false) else none
  | [a, i] =>
    if a.kind == .tilde && i.kind == .int then some (i, true, false)
    else if a.kind == .eq && i.kind == .int then some (i, false, true) else none
  | [a, b, i] => if a.kind == .eq && b.kind == .tilde && i.kind == .int then some (i, true, true) else none
  | _ => none

def InterGoodSim (g' g : Tok × Bool × Bool) : Prop := TokSim g'.1 g.1 ∧ g.1.kind = .int ∧ g'.2 = g.2

theorem interGood_sim {f' f : List Tok} (h : LRel TokSim f' f) : OptRel InterGoodSim (interGood f') (interGood f) := by
  rcases h with _ | ⟨hx, _ | ⟨hy, _ | ⟨hz, _ | ⟨hw, hr⟩⟩⟩⟩ <;> try exact OptRel.none_none
  · unfold interGood
    simp only [hx.kind]
    split
    · rename_i hc
      exact OptRel.some_some ⟨hx, by simpa using hc, rfl⟩
    · exact OptRel.none_none
  · unfold interGood
    simp only [hx.kind, hy.kind]
    split
    · rename_i hc
      simp only [Bool.and_eq_true, beq_iff_eq] at hc
      exact OptRel.some_some ⟨hy, hc.2, rfl⟩
    · split
      · rename_i hc
        simp only [Bool.and_eq_true, beq_iff_eq] at hc
        exact OptRel.some_some ⟨hy, hc.2, rfl⟩
      · exact OptRel.none_none
  · unfold interGood
    simp only [hx.kind, hy.kind, hz.kind]
    split
    · rename_i hc
      simp only [Bool.and_eq_true, beq_iff_eq] at hc
      exact OptRel.some_some ⟨hz, hc.2, rfl⟩
    · exact OptRel.none_none

/-- `parse_intermediate_ref_data` with the shape test named -/
theorem parseInterRef_eq (toks : List Tok) :
    parseInterRef (α := α) toks = (do
      match toks with
      | [] => return (none, toks)
      | t0 :: _ =>
        if t0.kind != .openParen then return (none, toks)
        match toks.findIdx? (fun t => t.kind == .closeParen) with
        | none =>
          panicWith "No closing paren in intermediate preparation reference"
          return (none, [])
        | some endPos =>
          let slice := toks.take (endPos + 1)
          let restM := toks.drop (endPos + 1)
          let inner := (slice.drop 1).take (slice.length - 2)
          let f := inner.filter (fun t => !(t.kind == .ws || t.kind == .blockComment))
          let sliceSpan := tokensSpan slice
          let ks := f.map (·.kind)
          match interGood f with
          | some (i, rel, sec) =>
            let n := digitsToNat i.text
            if n ≤ 32767 then return (some ⟨⟨rel, sec, n⟩, sliceSpan⟩, restM)
            else
              perr "int-parse" [⟨i.start, i.stop⟩]
              return (none, restM)
          | none =>
            if f.isEmpty then
              perr "inter-ref-empty" [sliceSpan]
            else if ks == [.tilde, .eq, .int] then
              perr "inter-ref-wrong-order" (f.take 2 |>.map (fun t => ⟨t.start, t.stop⟩))
            else
              let n := f.length
              let signed := n ≥ 2 && (f[n-1]?.map (·.kind)) == some .int &&
                ((f[n-2]?.map (·.kind)) == some .minus || (f[n-2]?.map (·.kind)) == some .plus)
              if signed then
                perr "inter-ref-sign" ((f[n-2]?.map (fun t => [(⟨t.start, t.stop⟩ : Span)])).getD [])
              else
                let sp ← tokensSpanP "inter-ref inner" inner
                perr "inter-ref-invalid" [sp]
            return (none, restM)) := by
  unfold parseInterRef interGood
  rfl

section rel
variable {cs : CharSpec} {ts' ts : List Tok}
variable (hu : UwsNL cs) (hts : LRel TokSim ts' ts)
include hu hts

theorem compBodyLong_rel : Rel cs ts' ts (compBodyLong (α := α)) compBodyLong (OptRel BodySim) := by
  unfold compBodyLong
  apply withRecover_rel
  refine Rel.bind (untilK_rel hts _) fun n' n hn => ?_
  rcases hn.elim with ⟨rfl, rfl⟩ | ⟨n', n, rfl, rfl, hn⟩
  · exact Rel.pure (α := α) OptRel.none_none
  dsimp only
  refine Rel.bind (consumeK_rel hts _) fun ob' ob hob => ?_
  rcases hob.elim with ⟨rfl, rfl⟩ | ⟨ob', ob, rfl, rfl, hob⟩
  · exact Rel.pure (α := α) OptRel.none_none
  dsimp only
  refine Rel.bind (untilK_rel hts _) fun q' q hq => ?_
  rcases hq.elim with ⟨rfl, rfl⟩ | ⟨q', q, rfl, rfl, hq⟩
  · exact Rel.pure (α := α) OptRel.none_none
  dsimp only
  refine Rel.bind (bump_rel hts _) fun cb' cb hcb => ?_
  rw [hq.any (tokSim_kindPres.agree (fun k => !(k == .ws || k == .blockComment)))]
  refine Rel.pure (α := α) (OptRel.some_some (A := BodySim) ⟨hn, rfl, ?_⟩)
  dsimp only
  split
  · exact OptRel.some_some hq
  · exact OptRel.none_none

theorem compBodyShort_rel : Rel cs ts' ts (compBodyShort (α := α)) compBodyShort (OptRel BodySim) := by
  unfold compBodyShort
  apply withRecover_rel
  refine Rel.bind (consumeWhile_rel hts _) fun t' t ht => ?_
  rw [ht.isEmpty]
  split
  · refine Rel.bind (restToks_rel hts) fun r' r hr => ?_
    refine Rel.bind (atK_rel hts _) fun a' a ha => ?_
    subst ha
    rw [hr.isEmpty]
    split
    · refine Rel.bind currentOffset_rel fun _ _ _ => ?_
      exact Rel.bind (pwarn_rel _ rfl) fun _ _ _ => Rel.pure (α := α) OptRel.none_none
    · exact Rel.pure (α := α) OptRel.none_none
  · exact Rel.pure (α := α) (OptRel.some_some (A := BodySim) ⟨ht, rfl, OptRel.none_none⟩)

theorem compBody_rel : Rel cs ts' ts (compBody (α := α)) compBody (OptRel BodySim) := by
  unfold compBody
  refine Rel.bind (compBodyLong_rel hu hts) fun b' b hb => ?_
  rcases hb.elim with ⟨rfl, rfl⟩ | ⟨b', b, rfl, rfl, hb⟩
  · exact compBodyShort_rel hu hts
  · exact Rel.pure (α := α) (OptRel.some_some hb)

theorem modifiersLoop_rel (inter : Bool) (fuel : Nat) :
    Rel cs ts' ts (modifiersLoop (α := α) inter fuel) (modifiersLoop inter fuel) (fun _ _ => True) := by
  induction fuel with
  | zero => exact Rel.pure (α := α) (A := fun _ _ => True) trivial
  | succ fuel ih =>
    unfold modifiersLoop
    refine Rel.bind (peekK_rel hts) fun a' a ha => ?_
    obtain ⟨rfl, -⟩ := ha
    cases a' with
    | none => exact Rel.pure (α := α) (A := fun _ _ => True) trivial
    | some k =>
      dsimp only
      split
      · exact Rel.bind (bumpAny_rel hts) fun _ _ _ => ih
      · split
        · refine Rel.bind (bumpAny_rel hts) fun _ _ _ => ?_
          cases inter
          · exact ih
          · try dsimp only
            refine Rel.bind (A := OptRel (fun _ _ => True)) (withRecover_rel ?_) fun _ _ _ => ih
            refine Rel.bind (consumeK_rel hts _) fun o' o ho => ?_
            rcases ho.elim with ⟨rfl, rfl⟩ | ⟨o', o, rfl, rfl, ho⟩
            · exact Rel.pure (α := α) OptRel.none_none
            dsimp only
            refine Rel.bind (untilK_rel hts _) fun q' q hq => ?_
            rcases hq.elim with ⟨rfl, rfl⟩ | ⟨q', q, rfl, rfl, hq⟩
            · exact Rel.pure (α := α) OptRel.none_none
            dsimp only
            exact Rel.bind (bump_rel hts _) fun _ _ _ =>
              Rel.pure (α := α) (OptRel.some_some (A := fun _ _ => True) trivial)
        · exact Rel.pure (α := α) (A := fun _ _ => True) trivial

theorem modifiersP_rel : Rel cs ts' ts (modifiersP (α := α)) modifiersP (LRel TokSim) := by
  unfold modifiersP
  refine Rel.bind (hasExt_rel _) fun r' r hr => ?_
  subst hr
  split
  · exact Rel.pure (α := α) .nil
  refine Rel.bind getCur_rel fun c' c hc => ?_
  subst hc
  refine Rel.bind (hasExt_rel _) fun i' i hi => ?_
  subst hi
  refine Rel.bind (restToks_rel hts) fun r' r hr => ?_
  rw [hr.length_eq]
  refine Rel.bind (modifiersLoop_rel hu hts _ _) fun _ _ _ => ?_
  refine Rel.bind Rel.get fun g' g hg => ?_
  refine Rel.pure (α := α) ?_
  rw [hg.toks', hg.toks, hg.cur]
  exact (hts.take _).drop _

theorem noteP_rel : Rel cs ts' ts (noteP (α := α)) noteP (OptRel (TextSim cs.uws)) := by
  unfold noteP
  apply withRecover_rel
  refine Rel.bind (consumeK_rel hts _) fun o' o ho => ?_
  rcases ho.elim with ⟨rfl, rfl⟩ | ⟨o', o, rfl, rfl, ho⟩
  · exact Rel.pure (α := α) OptRel.none_none
  dsimp only
  refine Rel.bind currentOffset_rel fun _ _ _ => ?_
  refine Rel.bind (untilK_rel hts _) fun q' q hq => ?_
  rcases hq.elim with ⟨rfl, rfl⟩ | ⟨q', q, rfl, rfl, hq⟩
  · exact Rel.pure (α := α) OptRel.none_none
  dsimp only
  refine Rel.bind (bump_rel hts _) fun _ _ _ => ?_
  refine Rel.bind (bpText_rel hu hq _ _) fun t' t ht => ?_
  exact Rel.pure (α := α) (OptRel.some_some ht)

/-- result of `parse_intermediate_ref_data`: the same data, related remaining modifier tokens -/
def InterRefSim (r' r : Option (Loc InterData) × List Tok) : Prop :=
  OptRel (LocSim Eq) r'.1 r.1 ∧ LRel TokSim r'.2 r.2

theorem parseInterRef_rel {l' l : List Tok} (h : LRel TokSim l' l) :
    Rel cs ts' ts (parseInterRef (α := α) l') (parseInterRef l) InterRefSim := by
  rw [parseInterRef_eq, parseInterRef_eq]
  cases h with
  | nil => exact Rel.pure (α := α) (A := InterRefSim) ⟨OptRel.none_none, .nil⟩
  | cons h0 hr =>
    rename_i a b l' l
    have hfull : LRel TokSim (a :: l') (b :: l) := .cons h0 hr
    dsimp only
    rw [h0.kind]
    split
    · exact Rel.pure (α := α) (A := InterRefSim) ⟨OptRel.none_none, hfull⟩
    rw [hfull.findIdx? (tokSim_kindPres.agree (fun k => k == .closeParen))]
    cases (b :: l).findIdx? (fun t => t.kind == .closeParen) with
    | none =>
      exact Rel.bind (panicWith_rel _ _) fun _ _ _ => Rel.pure (α := α) (A := InterRefSim) ⟨OptRel.none_none, .nil⟩
    | some endPos =>
      dsimp only
      have hslice := hfull.take (endPos + 1)
      have hrest := hfull.drop (endPos + 1)
      generalize List.take (endPos + 1) (a :: l') = slice' at hslice
      generalize List.take (endPos + 1) (b :: l) = slice at hslice
      generalize List.drop (endPos + 1) (a :: l') = restM' at hrest
      generalize List.drop (endPos + 1) (b :: l) = restM at hrest
      have hinner := (hslice.drop 1).take (slice.length - 2)
      rw [hslice.length_eq]
      generalize List.take (slice.length - 2) (List.drop 1 slice') = inner' at hinner
      generalize List.take (slice.length - 2) (List.drop 1 slice) = inner at hinner
      have hf := hinner.filter (tokSim_kindPres.agree (fun k => !(k == .ws || k == .blockComment)))
      generalize List.filter (fun t => !(t.kind == .ws || t.kind == .blockComment)) inner' = f' at hf
      generalize List.filter (fun t => !(t.kind == .ws || t.kind == .blockComment)) inner = f at hf
      have hg := interGood_sim hf
      rcases hg.elim with ⟨e', e⟩ | ⟨g', g, e', e, hgg⟩
      · rw [e', e]
        dsimp only
        have hks : f'.map (fun t => t.kind) = f.map (fun t => t.kind) :=
          hf.map_eq (fun t : Tok => t.kind) (fun t : Tok => t.kind) (fun _ _ h => h.kind)
        have hget : ∀ n : Nat, (f'[n]?.map (fun t : Tok => t.kind)) = (f[n]?.map (fun t : Tok => t.kind)) := by
          intro n
          rcases hf.getElem? n with ⟨h1, h2⟩ | ⟨x, y, h1, h2, hxy⟩
          · rw [h1, h2]
          · rw [h1, h2]; simp [hxy.kind]
        have hlast : Rel cs ts' ts (Pure.pure ((none : Option (Loc InterData)), restM') : P α _)
            (Pure.pure (none, restM)) InterRefSim :=
          Rel.pure (α := α) (A := InterRefSim) ⟨OptRel.none_none, hrest⟩
        rw [hf.isEmpty, hks, hf.length_eq, hget, hget]
        split
        · exact Rel.bind (perr_rel _ rfl) fun _ _ _ => hlast
        · split
          · refine Rel.bind (perr_rel _ ?_) fun _ _ _ => hlast
            simp only [List.length_map, List.length_take, hf.length_eq]
          · split
            · refine Rel.bind (perr_rel _ ?_) fun _ _ _ => hlast
              rcases hf.getElem? (f.length - 2) with ⟨h1, h2⟩ | ⟨x, y, h1, h2, hxy⟩
              · rw [h1, h2]
              · rw [h1, h2]; rfl
            · exact Rel.bind (tokensSpanP_rel _ _ _ _) fun _ _ _ => Rel.bind (perr_rel _ rfl) fun _ _ _ => hlast
      · rw [e', e]
        obtain ⟨i', rel', sec'⟩ := g'
        obtain ⟨i, rel, sec⟩ := g
        obtain ⟨hi, hik, hrs⟩ := hgg
        simp only [Prod.mk.injEq] at hrs
        obtain ⟨rfl, rfl⟩ := hrs
        dsimp only
        rw [hi.text_int hik]
        split
        · exact Rel.pure (α := α) (A := InterRefSim) ⟨OptRel.some_some (LocSim.mk rfl _ _), hrest⟩
        · exact Rel.bind (perr_rel _ rfl) fun _ _ _ =>
            Rel.pure (α := α) (A := InterRefSim) ⟨OptRel.none_none, hrest⟩

/-- result of `parse_modifiers`' loop: the same flags, the same reference data -/
def ModsSim (r' r : Modifiers × Option (Loc InterData)) : Prop := r'.1 = r.1 ∧ OptRel (LocSim Eq) r'.2 r.2

theorem parseModifiersLoop_rel (sp' sp : Span) (interExt : Bool) (fuel : Nat) :
    ∀ {l' l : List Tok}, LRel TokSim l' l → ∀ (m : Modifiers) {d' d : Option (Loc InterData)},
      OptRel (LocSim Eq) d' d →
      Rel cs ts' ts (parseModifiersLoop (α := α) sp' interExt fuel l' m d')
        (parseModifiersLoop sp interExt fuel l m d) ModsSim := by
  induction fuel with
  | zero =>
    intro l' l h m d' d hd
    unfold parseModifiersLoop
    exact Rel.pure (α := α) (A := ModsSim) ⟨rfl, hd⟩
  | succ fuel ih =>
    intro l' l h m d' d hd
    cases h with
    | nil =>
      unfold parseModifiersLoop
      exact Rel.pure (α := α) (A := ModsSim) ⟨rfl, hd⟩
    | cons h0 hr =>
      rename_i a b l' l
      unfold parseModifiersLoop
      rw [h0.kind]
      refine Rel.bind (A := Eq) ?_ ?_
      · cases modifierFlag b.kind with
        | none => exact Rel.bind (panicWith_rel _ _) fun _ _ _ => Rel.pure (α := α) rfl
        | some f => exact Rel.pure (α := α) rfl
      · rintro flag' flag rfl
        dsimp only
        split
        · refine Rel.bind (parseInterRef_rel hu hts hr) fun r' r hrr => ?_
          split
          · exact Rel.bind (perr_rel _ rfl) fun _ _ _ => ih hrr.2 m hrr.1
          · exact ih hrr.2 _ hrr.1
        · split
          · exact Rel.bind (perr_rel _ rfl) fun _ _ _ => ih hr m hd
          · exact ih hr _ hd

theorem parseModifiers_rel {l' l : List Tok} (h : LRel TokSim l' l) (p' p : Nat) :
    Rel cs ts' ts (parseModifiers (α := α) l' p') (parseModifiers l p)
      (fun r' r => r'.flags.val = r.flags.val ∧ OptRel (LocSim Eq) r'.inter r.inter) := by
  unfold parseModifiers
  rw [h.isEmpty]
  split
  · exact Rel.pure (α := α) (A := fun (r' r : ParsedModifiers) => r'.flags.val = r.flags.val ∧ OptRel (LocSim Eq) r'.inter r.inter)
      ⟨rfl, OptRel.none_none⟩
  dsimp only
  refine Rel.bind (hasExt_rel _) fun i' i hi => ?_
  subst hi
  rw [h.length_eq]
  refine Rel.bind (parseModifiersLoop_rel hu hts _ _ _ _ h _ OptRel.none_none) fun r' r hr => ?_
  exact Rel.pure (α := α) (A := fun (r' r : ParsedModifiers) => r'.flags.val = r.flags.val ∧ OptRel (LocSim Eq) r'.inter r.inter)
    ⟨hr.1, hr.2⟩

theorem parseAlias_rel (container : String) {l' l : List Tok} (h : LRel TokSim l' l) (o' o : Nat) :
    Rel cs ts' ts (parseAlias (α := α) container l' o') (parseAlias container l o)
      (fun r' r => TextSim cs.uws r'.1 r.1 ∧ OptRel (TextSim cs.uws) r'.2 r.2) := by
  unfold parseAlias
  refine Rel.bind (hasExt_rel _) fun a' a ha => ?_
  subst ha
  dsimp only
  rw [h.findIdx? (tokSim_kindPres.agree (fun k => k == .or))]
  generalize (if a' = true then List.findIdx? (fun t => t.kind == TK.or) l else none) = sepIdx
  cases sepIdx with
  | none =>
    dsimp only
    refine Rel.bind (bpText_rel hu h _ _) fun t' t ht => ?_
    exact Rel.pure (α := α) (A := fun (r' r : Text × Option Text) => TextSim cs.uws r'.1 r.1 ∧ OptRel (TextSim cs.uws) r'.2 r.2)
      ⟨ht, OptRel.none_none⟩
  | some i =>
    dsimp only
    have hal := h.drop (i + 1)
    refine Rel.bind (bpText_rel hu hal _ _) fun at' at_ hat => ?_
    refine Rel.bind Rel.get fun g' g hg => ?_
    refine Rel.bind (A := OptRel (TextSim cs.uws)) ?_ ?_
    · rw [hal.any (tokSim_kindPres.agree (fun k => k == .or)), hg.csL, hg.csR, hat.isTextEmpty]
      split
      · exact Rel.bind (perr_rel _ rfl) fun _ _ _ => Rel.pure (α := α) OptRel.none_none
      · split
        · exact Rel.bind (perr_rel _ rfl) fun _ _ _ => Rel.pure (α := α) OptRel.none_none
        · exact Rel.pure (α := α) (OptRel.some_some hat)
    · intro al' al hal2
      refine Rel.bind (bpText_rel hu (h.take i) _ _) fun t' t ht => ?_
      exact Rel.pure (α := α) (A := fun (r' r : Text × Option Text) => TextSim cs.uws r'.1 r.1 ∧ OptRel (TextSim cs.uws) r'.2 r.2)
        ⟨ht, hal2⟩

theorem checkEmptyName_rel (container : String) {n' n : Text} (h : TextSim cs.uws n' n) :
    Rel cs ts' ts (checkEmptyName (α := α) container n') (checkEmptyName container n) (fun _ _ => True) := by
  unfold checkEmptyName
  refine Rel.bind Rel.get fun g' g hg => ?_
  rw [hg.csL, hg.csR, h.isTextEmpty]
  split
  · exact perr_rel _ rfl
  · exact Rel.pure (α := α) (A := fun _ _ => True) trivial

omit hu hts in
theorem LRel.find?_rel {β γ : Type} {R : β → γ → Prop} {p : β → Bool} {q : γ → Bool} (hp : PredAgree R p q)
    {l : List β} {m : List γ} (h : LRel R l m) : OptRel R (l.find? p) (m.find? q) := by
  induction h with
  | nil => exact OptRel.none_none
  | cons h1 _ ih =>
    simp only [List.find?_cons, hp _ _ h1]
    split
    · exact OptRel.some_some h1
    · exact ih

theorem ingredientP_rel : Rel cs ts' ts (ingredientP (α := α)) ingredientP (OptRel (EvSim cs.uws)) := by
  unfold ingredientP
  refine Rel.bind currentOffset_rel fun st' st _ => ?_
  refine Rel.bind (consumeK_rel hts _) fun a' a ha => ?_
  rcases ha.elim with ⟨rfl, rfl⟩ | ⟨a', a, rfl, rfl, ha⟩
  · exact Rel.pure (α := α) OptRel.none_none
  dsimp only
  refine Rel.bind currentOffset_rel fun mp' mp _ => ?_
  refine Rel.bind (modifiersP_rel hu hts) fun mt' mt hmt => ?_
  refine Rel.bind currentOffset_rel fun no' no _ => ?_
  refine Rel.bind (compBody_rel hu hts) fun b' b hb => ?_
  rcases hb.elim with ⟨rfl, rfl⟩ | ⟨b', b, rfl, rfl, hb⟩
  · exact Rel.pure (α := α) OptRel.none_none
  dsimp only
  refine Rel.bind (noteP_rel hu hts) fun n' n hn => ?_
  refine Rel.bind currentOffset_rel fun sp' sp _ => ?_
  refine Rel.bind (parseAlias_rel hu hts _ hb.name _ _) fun na' na hna => ?_
  obtain ⟨name', alias'⟩ := na'
  obtain ⟨name, alias⟩ := na
  dsimp only
  refine Rel.bind (checkEmptyName_rel hu hts _ hna.1) fun _ _ _ => ?_
  refine Rel.bind (parseModifiers_rel hu hts hmt _ _) fun pm' pm hpm => ?_
  refine Rel.bind (A := OptRel (LocSim (PQuantitySim cs.uws))) ?_ ?_
  · rcases hb.quantity.elim with ⟨e', e⟩ | ⟨q', q, e', e, hq⟩
    · rw [e', e]; exact Rel.pure (α := α) OptRel.none_none
    · rw [e', e]
      dsimp only
      exact Rel.bind (parseQuantity_rel hu hq) fun r' r hr => Rel.pure (α := α) (OptRel.some_some hr)
  · intro q' q hq
    exact Rel.pure (α := α) (OptRel.some_some (EvSim.mk_ingredient ⟨hpm.1, hpm.2, hna.1, hna.2, hq, hn⟩))

theorem cookwareP_rel : Rel cs ts' ts (cookwareP (α := α)) cookwareP (OptRel (EvSim cs.uws)) := by
  unfold cookwareP
  refine Rel.bind currentOffset_rel fun st' st _ => ?_
  refine Rel.bind (consumeK_rel hts _) fun a' a ha => ?_
  rcases ha.elim with ⟨rfl, rfl⟩ | ⟨a', a, rfl, rfl, ha⟩
  · exact Rel.pure (α := α) OptRel.none_none
  dsimp only
  refine Rel.bind currentOffset_rel fun mp' mp _ => ?_
  refine Rel.bind (modifiersP_rel hu hts) fun mt' mt hmt => ?_
  refine Rel.bind currentOffset_rel fun no' no _ => ?_
  refine Rel.bind (compBody_rel hu hts) fun b' b hb => ?_
  rcases hb.elim with ⟨rfl, rfl⟩ | ⟨b', b, rfl, rfl, hb⟩
  · exact Rel.pure (α := α) OptRel.none_none
  dsimp only
  refine Rel.bind (noteP_rel hu hts) fun n' n hn => ?_
  refine Rel.bind currentOffset_rel fun sp' sp _ => ?_
  refine Rel.bind (parseAlias_rel hu hts _ hb.name _ _) fun na' na hna => ?_
  obtain ⟨name', alias'⟩ := na'
  obtain ⟨name, alias⟩ := na
  dsimp only
  refine Rel.bind (checkEmptyName_rel hu hts _ hna.1) fun _ _ _ => ?_
  refine Rel.bind (A := OptRel (LocSim PQValueSim)) ?_ ?_
  · rcases hb.quantity.elim with ⟨e', e⟩ | ⟨q', q, e', e, hq⟩
    · rw [e', e]; exact Rel.pure (α := α) OptRel.none_none
    · rw [e', e]
      dsimp only
      refine Rel.bind (parseQuantity_rel hu hq) fun r' r hr => ?_
      have hres : OptRel (LocSim (PQValueSim (α := α)))
          (some ⟨r'.quantity.val.value, r'.quantity.span⟩) (some ⟨r.quantity.val.value, r.quantity.span⟩) :=
        OptRel.some_some hr.1
      rcases hr.2.elim with ⟨e', e⟩ | ⟨u', u, e', e, huu⟩
      · rw [e', e]; exact Rel.pure (α := α) hres
      · rw [e', e]
        dsimp only
        exact Rel.bind (perr_rel _ rfl) fun _ _ _ => Rel.pure (α := α) hres
  · intro q' q hq
    refine Rel.bind (parseModifiers_rel hu hts hmt _ _) fun pm' pm hpm => ?_
    have hres : OptRel (EvSim (α := α) cs.uws)
        (some (.cookware ⟨⟨pm'.flags, name', alias', q', n'⟩, ⟨st', sp'⟩⟩))
        (some (.cookware ⟨⟨pm.flags, name, alias, q, n⟩, ⟨st, sp⟩⟩)) :=
      OptRel.some_some (EvSim.mk_cookware ⟨hpm.1, hna.1, hna.2, hq, hn⟩)
    have hrecipe : Rel (α := α) cs ts' ts
        (if pm'.flags.val.contains Modifiers.RECIPE = true then
          match List.find? (fun t => t.kind == TK.at) mt' with
          | some t => do
            perr "cookware-recipe-modifier" [{ start := t.start, stop := t.stop }]
            pure (some (Ev.cookware (α := α) ⟨⟨pm'.flags, name', alias', q', n'⟩, ⟨st', sp'⟩⟩))
          | none => do
            panicWith "no recipe token in modifiers with recipe"
            pure (some (Ev.cookware ⟨⟨pm'.flags, name', alias', q', n'⟩, ⟨st', sp'⟩⟩))
        else pure (some (Ev.cookware ⟨⟨pm'.flags, name', alias', q', n'⟩, ⟨st', sp'⟩⟩)))
        (if pm.flags.val.contains Modifiers.RECIPE = true then
          match List.find? (fun t => t.kind == TK.at) mt with
          | some t => do
            perr "cookware-recipe-modifier" [{ start := t.start, stop := t.stop }]
            pure (some (Ev.cookware (α := α) ⟨⟨pm.flags, name, alias, q, n⟩, ⟨st, sp⟩⟩))
          | none => do
            panicWith "no recipe token in modifiers with recipe"
            pure (some (Ev.cookware ⟨⟨pm.flags, name, alias, q, n⟩, ⟨st, sp⟩⟩))
        else pure (some (Ev.cookware ⟨⟨pm.flags, name, alias, q, n⟩, ⟨st, sp⟩⟩)))
        (OptRel (EvSim cs.uws)) := by
      rw [hpm.1]
      split
      · have hfind := LRel.find?_rel (tokSim_kindPres.agree (fun k => k == .at)) hmt
        rcases hfind.elim with ⟨e', e⟩ | ⟨t', t, e', e, ht⟩
        · rw [e', e]
          exact Rel.bind (panicWith_rel _ _) fun _ _ _ => Rel.pure (α := α) hres
        · rw [e', e]
          exact Rel.bind (perr_rel _ rfl) fun _ _ _ => Rel.pure (α := α) hres
      · exact Rel.pure (α := α) hres
    rcases hpm.2.elim with ⟨e', e⟩ | ⟨d', d, e', e, hd⟩
    · rw [e', e]; exact hrecipe
    · rw [e', e]; exact Rel.bind (perr_rel _ rfl) fun _ _ _ => hrecipe

theorem checkNoteTimer_rel : Rel cs ts' ts (checkNoteTimer (α := α)) checkNoteTimer (fun _ _ => True) := by
  unfold checkNoteTimer
  refine Rel.bind (A := OptRel (fun _ _ => True)) (withRecover_rel ?_) fun _ _ _ =>
    Rel.pure (α := α) (A := fun _ _ => True) trivial
  refine Rel.bind (consumeK_rel hts _) fun o' o ho => ?_
  rcases ho.elim with ⟨rfl, rfl⟩ | ⟨o', o, rfl, rfl, ho⟩
  · exact Rel.pure (α := α) OptRel.none_none
  dsimp only
  refine Rel.bind (untilK_rel hts _) fun q' q hq => ?_
  rcases hq.elim with ⟨rfl, rfl⟩ | ⟨q', q, rfl, rfl, hq⟩
  · exact Rel.pure (α := α) OptRel.none_none
  dsimp only
  refine Rel.bind (bump_rel hts _) fun _ _ _ => ?_
  exact Rel.bind (pwarn_rel _ rfl) fun _ _ _ => Rel.pure (α := α) OptRel.none_none

/-- `timer` after the body: the checks and the assembly of the event -/
def timerTailSim (start stop nameOffset : Nat) (mtoks : List Tok) (body : Body) : P α (Option (Ev α)) := do
  checkNoteTimer
  let name ← bpText nameOffset body.name
  let cs := (← get).cs
  let mut quantity : Option (Loc (PQuantity α)) ← (match body.quantity with
    | some qt => do
      let q ← parseQuantity qt
      if q.quantity.val.unit.isNone then
        perr "timer-missing-unit" [Span.pos q.quantity.val.value.value.span.stop]
      pure (some q.quantity)
    | none => pure none)
  if quantity.isNone && (← hasExt Gen.EXT_TIMER_REQUIRES_TIME) then
    let span := body.close.getD (Span.pos name.span.stop)
    perr "timer-missing-quantity" [span]
    quantity := some recoverPQuantity
  let nameO := if name.isTextEmpty cs then none else some name
  if nameO.isNone && quantity.isNone then
    let span : Span := match body.close with
      | some s => ⟨nameOffset, s.stop⟩
      | none => Span.pos nameOffset
    perr "timer-neither-name-nor-quantity" [span]
    quantity := some recoverPQuantity
  return some (.timer ⟨⟨nameO, quantity⟩, ⟨start, stop⟩⟩)

omit hu hts in
theorem timerP_eq : timerP (α := α) = (do
    let start ← currentOffset
    match ← consumeK .tilde with
    | none => return none
    | some _ =>
      let mtoks ← modifiersP
      let nameOffset ← currentOffset
      match ← compBody with
      | none => return none
      | some body =>
        let stop ← currentOffset
        if !mtoks.isEmpty then perr "modifiers-not-allowed:timer" [tokensSpan mtoks]
        if ← hasExt Gen.EXT_COMPONENT_ALIAS then
          match body.name.findIdx? (fun t => t.kind == .or) with
          | some i =>
            let sep := (body.name[i]?).getD dummyTok
            perr "alias-not-allowed:timer" [⟨sep.start, ((body.name.getLast?).getD sep).stop⟩]
          | none => pure ()
        timerTailSim start stop nameOffset mtoks body) := by
  unfold timerP timerTailSim
  rfl

theorem timerTail_rel (st' st sp' sp no' no : Nat) {mt' mt : List Tok} {b' b : Body} (hb : BodySim b' b) :
    Rel cs ts' ts (timerTailSim (α := α) st' sp' no' mt' b') (timerTailSim st sp no mt b) (OptRel (EvSim cs.uws)) := by
  unfold timerTailSim
  refine Rel.bind (checkNoteTimer_rel hu hts) fun _ _ _ => ?_
  refine Rel.bind (bpText_rel hu hb.name _ _) fun n' n hn => ?_
  refine Rel.bind Rel.get fun g' g hg => ?_
  refine Rel.bind (A := OptRel (LocSim (PQuantitySim cs.uws))) ?_ ?_
  · rcases hb.quantity.elim with ⟨e', e⟩ | ⟨q', q, e', e, hq⟩
    · rw [e', e]; exact Rel.pure (α := α) OptRel.none_none
    · rw [e', e]
      dsimp only
      refine Rel.bind (parseQuantity_rel hu hq) fun r' r hr => ?_
      have hres : OptRel (LocSim (PQuantitySim (α := α) cs.uws)) (some r'.quantity) (some r.quantity) :=
        OptRel.some_some hr
      rw [hr.2.isNone]
      split
      · exact Rel.bind (perr_rel _ rfl) fun _ _ _ => Rel.pure (α := α) hres
      · exact Rel.pure (α := α) hres
  · intro q' q hq
    refine Rel.bind (hasExt_rel _) fun x' x hx => ?_
    subst hx
    have hnameO : OptRel (TextSim cs.uws) (if n'.isTextEmpty g'.cs then none else some n')
        (if n.isTextEmpty g.cs then none else some n) := by
      rw [hg.csL, hg.csR, hn.isTextEmpty]
      split
      · exact OptRel.none_none
      · exact OptRel.some_some hn
    have hrec : OptRel (LocSim (PQuantitySim (α := α) cs.uws)) (some recoverPQuantity) (some recoverPQuantity) :=
      OptRel.some_some ⟨⟨rfl, rfl⟩, OptRel.none_none⟩
    dsimp only
    generalize (if Text.isTextEmpty g'.cs n' = true then none else some n') = nameO' at hnameO ⊢
    generalize (if Text.isTextEmpty g.cs n = true then none else some n) = nameO at hnameO ⊢
    have hfin : ∀ {Q' Q : Option (Loc (PQuantity α))}, OptRel (LocSim (PQuantitySim cs.uws)) Q' Q →
        OptRel (EvSim cs.uws) (some (Ev.timer ⟨⟨nameO', Q'⟩, ⟨st', sp'⟩⟩)) (some (Ev.timer ⟨⟨nameO, Q⟩, ⟨st, sp⟩⟩)) :=
      fun h => OptRel.some_some (EvSim.mk_timer ⟨hnameO, h⟩)
    rw [hq.isNone, hnameO.isNone]
    split
    · refine Rel.bind (perr_rel _ rfl) fun _ _ _ => ?_
      split
      · exact Rel.bind (perr_rel _ rfl) fun _ _ _ => Rel.pure (α := α) (hfin hrec)
      · exact Rel.pure (α := α) (hfin hrec)
    · split
      · exact Rel.bind (perr_rel _ rfl) fun _ _ _ => Rel.pure (α := α) (hfin hrec)
      · exact Rel.pure (α := α) (hfin hq)

theorem timerP_rel : Rel cs ts' ts (timerP (α := α)) timerP (OptRel (EvSim cs.uws)) := by
  rw [timerP_eq]
  refine Rel.bind currentOffset_rel fun st' st _ => ?_
  refine Rel.bind (consumeK_rel hts _) fun a' a ha => ?_
  rcases ha.elim with ⟨rfl, rfl⟩ | ⟨a', a, rfl, rfl, ha⟩
  · exact Rel.pure (α := α) OptRel.none_none
  dsimp only
  refine Rel.bind (modifiersP_rel hu hts) fun mt' mt hmt => ?_
  refine Rel.bind currentOffset_rel fun no' no _ => ?_
  refine Rel.bind (compBody_rel hu hts) fun b' b hb => ?_
  rcases hb.elim with ⟨rfl, rfl⟩ | ⟨b', b, rfl, rfl, hb⟩
  · exact Rel.pure (α := α) OptRel.none_none
  dsimp only
  refine Rel.bind currentOffset_rel fun sp' sp _ => ?_
  have htail := timerTail_rel (α := α) hu hts st' st sp' sp no' no (mt' := mt') (mt := mt) hb
  have halias : Rel cs ts' ts
      (do
        let x ← hasExt (α := α) Gen.EXT_COMPONENT_ALIAS
        if x = true then
          match List.findIdx? (fun t => t.kind == TK.or) b'.name with
          | some i => do
            perr "alias-not-allowed:timer"
                [{ start := (b'.name[i]?.getD dummyTok).start,
                    stop := (b'.name.getLast?.getD (b'.name[i]?.getD dummyTok)).stop }]
            timerTailSim st' sp' no' mt' b'
          | none => timerTailSim st' sp' no' mt' b'
        else timerTailSim st' sp' no' mt' b')
      (do
        let x ← hasExt (α := α) Gen.EXT_COMPONENT_ALIAS
        if x = true then
          match List.findIdx? (fun t => t.kind == TK.or) b.name with
          | some i => do
            perr "alias-not-allowed:timer"
                [{ start := (b.name[i]?.getD dummyTok).start,
                    stop := (b.name.getLast?.getD (b.name[i]?.getD dummyTok)).stop }]
            timerTailSim st sp no mt b
          | none => timerTailSim st sp no mt b
        else timerTailSim st sp no mt b)
      (OptRel (EvSim cs.uws)) := by
    refine Rel.bind (hasExt_rel _) fun x' x hx => ?_
    subst hx
    split
    · rw [hb.name.findIdx? (tokSim_kindPres.agree (fun k => k == .or))]
      cases List.findIdx? (fun t => t.kind == TK.or) b.name with
      | none => exact htail
      | some i => exact Rel.bind (perr_rel _ rfl) fun _ _ _ => htail
    · exact htail
  rw [hmt.isEmpty]
  split
  · exact Rel.bind (perr_rel _ rfl) fun _ _ _ => halias
  · exact halias

end rel

end Cook
