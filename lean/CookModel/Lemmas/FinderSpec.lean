import CookModel.Lemmas.InlineScan
import CookModel.Lemmas.RecipeInline
/-
  What `find_inline_quantity` (src/analysis/event_consumer.rs:1341) FINDS — a specification that does not
  go through the finder.

  * `FsCand`, `fsNextCand`: the lexical candidate `skipped number gap unit after` at a scan position, a function
    of the text and the character table alone (no converter, no number type); `fs_nextCand_split`: it splits the
    text.  (A declarative grammar predicate with `fsNextCand` sound and complete for it is NOT done.)
  * `FsFinds`: the scan as a relation on the text: the FIRST candidate of the candidate sequence whose number
    reads and whose unit word the converter knows; a candidate that fails is skipped WHOLE (the scan goes on
    after its unit word — `1 2 g` offers `1 2` and then nothing: `2 g` is never a candidate).
  * `fs_find_iff`, `fs_find_none_iff`: the finder returns exactly that / `none` iff no candidate of the sequence
    is accepted.

  Specification-side vocabulary only: no model function is added or changed.
-/
set_option linter.unusedSectionVars false
set_option linter.unusedSimpArgs false
set_option linter.unusedVariables false
namespace Cook
variable {α : Type} [Arith α]

/-- a candidate `number blanks unit-word` at a scan position: the text from the position is
    `skipped ++ number ++ gap ++ unit ++ after` -/
structure FsCand where
  skipped : Str
  number : Str
  gap : Str
  unit : Str
  after : Str
deriving DecidableEq, Repr

/-- the text the candidate was read from (without the sign) -/
def FsCand.src (c : FsCand) : Str := c.number ++ c.gap ++ c.unit

/-- the candidate at a scan position, as a function of the text alone (character table, no converter) -/
def fsNextCand (cs : CharSpec) (rest : Str) : Option FsCand :=
  match rest.dropWhile (fun c => !isAsciiDigitC c) with
  | [] => none
  | d :: r' =>
    match ((d :: r').takeWhile (fun c => !cs.uws c)).findIdx?
        (fun c => !isAsciiDigitC c && c != '.' && !cs.uws c) with
    | some mid =>
      some ⟨rest.takeWhile (fun c => !isAsciiDigitC c),
        ((d :: r').takeWhile (fun c => !cs.uws c)).take mid, [],
        ((d :: r').takeWhile (fun c => !cs.uws c)).drop mid,
        (d :: r').dropWhile (fun c => !cs.uws c)⟩
    | none =>
      if ((d :: r').dropWhile (fun c => !cs.uws c)).isEmpty then none
      else if ((d :: r').dropWhile (fun c => !cs.uws c)).any (fun c => !cs.uws c) then
        some ⟨rest.takeWhile (fun c => !isAsciiDigitC c),
          (d :: r').takeWhile (fun c => !cs.uws c),
          ((d :: r').dropWhile (fun c => !cs.uws c)).takeWhile cs.uws,
          (((d :: r').dropWhile (fun c => !cs.uws c)).dropWhile cs.uws).takeWhile (fun c => !cs.uws c),
          (((d :: r').dropWhile (fun c => !cs.uws c)).dropWhile cs.uws).dropWhile (fun c => !cs.uws c)⟩
      else
        some ⟨rest.takeWhile (fun c => !isAsciiDigitC c),
          (d :: r').takeWhile (fun c => !cs.uws c), [], [],
          (d :: r').dropWhile (fun c => !cs.uws c)⟩

/-- the number the candidate stands for, if its number text reads as one AND the converter knows its unit word -/
def fsAccept (env : Env) (c : FsCand) : Option α :=
  match parseSimpleFloat (α := α) (trim env.cs.uws c.number), env.findUnit (trim env.cs.uws c.unit) with
  | some n, some _ => some n
  | _, _ => none

/-- the hit an accepted candidate gives, `p` being the text before the scan position: a `-` right before the
    number is taken out of `before` and negates the number -/
def fsHit (env : Env) (p : Str) (c : FsCand) (n : α) : InlineHit α :=
  ⟨if ((p ++ c.skipped).getLast? == some '-') = true then (p ++ c.skipped).dropLast else p ++ c.skipped,
   ⟨.number (.regular (if ((p ++ c.skipped).getLast? == some '-') = true then Arith.neg n else n)),
    some (trim env.cs.uws c.unit)⟩,
   c.after⟩

/-! ### the candidate splits the text -/

theorem fs_nextCand_split (cs : CharSpec) (rest : Str) (c : FsCand) (h : fsNextCand cs rest = some c) :
    rest = c.skipped ++ c.number ++ c.gap ++ c.unit ++ c.after ∧
    rest.dropWhile (fun c => !isAsciiDigitC c) = c.number ++ c.gap ++ c.unit ++ c.after ∧
    c.skipped = rest.takeWhile (fun c => !isAsciiDigitC c) := by
  have hsk : rest = rest.takeWhile (fun c => !isAsciiDigitC c) ++ rest.dropWhile (fun c => !isAsciiDigitC c) :=
    (List.takeWhile_append_dropWhile).symm
  unfold fsNextCand at h
  cases hr : List.dropWhile (fun c => !isAsciiDigitC c) rest with
  | nil => rw [hr] at h; cases h
  | cons d r' =>
    rw [hr] at h hsk
    dsimp only at h
    have hw1 : d :: r' = (d :: r').takeWhile (fun c => !cs.uws c) ++ (d :: r').dropWhile (fun c => !cs.uws c) :=
      (List.takeWhile_append_dropWhile).symm
    generalize hw1e : List.takeWhile (fun c => !cs.uws c) (d :: r') = w1 at hw1 h
    generalize hr1e : List.dropWhile (fun c => !cs.uws c) (d :: r') = r1 at hw1 h
    cases hf : List.findIdx? (fun c => !isAsciiDigitC c && c != '.' && !cs.uws c) w1 with
    | some mid =>
      rw [hf] at h
      simp only [Option.some.injEq] at h
      subst h
      dsimp only
      have : d :: r' = List.take mid w1 ++ [] ++ List.drop mid w1 ++ r1 := by rw [hw1]; simp
      refine ⟨?_, this, rfl⟩
      conv => lhs; rw [hsk, this]
      simp
    | none =>
      rw [hf] at h
      dsimp only at h
      by_cases he : r1.isEmpty = true
      · simp only [he, if_true] at h; cases h
      · simp only [he, if_false, Bool.false_eq_true] at h
        by_cases ha : (r1.any fun c => !cs.uws c) = true
        · simp only [ha, if_true] at h
          simp only [Option.some.injEq] at h
          subst h
          dsimp only
          have h1 : r1 = r1.takeWhile cs.uws ++ r1.dropWhile cs.uws := (List.takeWhile_append_dropWhile).symm
          have h2 : r1.dropWhile cs.uws = (r1.dropWhile cs.uws).takeWhile (fun c => !cs.uws c) ++
              (r1.dropWhile cs.uws).dropWhile (fun c => !cs.uws c) := (List.takeWhile_append_dropWhile).symm
          have : d :: r' = w1 ++ r1.takeWhile cs.uws ++ (r1.dropWhile cs.uws).takeWhile (fun c => !cs.uws c) ++
              (r1.dropWhile cs.uws).dropWhile (fun c => !cs.uws c) := by
            conv => lhs; rw [hw1]
            conv => lhs; rw [h1, h2]
            simp
          refine ⟨?_, this, rfl⟩
          conv => lhs; rw [hsk, this]
          simp
        · simp only [ha, if_false, Bool.false_eq_true] at h
          simp only [Option.some.injEq] at h
          subst h
          dsimp only
          have : d :: r' = w1 ++ [] ++ [] ++ r1 := by rw [hw1]; simp
          refine ⟨?_, this, rfl⟩
          conv => lhs; rw [hsk, this]
          simp

/-! ### one iteration of the code in terms of the candidate -/

theorem fs_if_any (r1 : Str) (ws : Char → Bool) (ha : (r1.any fun c => !ws c) = false) (hne : r1.isEmpty = false) :
    List.takeWhile (fun c => !ws c) r1 = [] ∧ List.dropWhile (fun c => !ws c) r1 = r1 := by
  cases r1 with
  | nil => simp at hne
  | cons x t =>
    simp only [List.any_cons, Bool.or_eq_false_iff, Bool.not_eq_false'] at ha
    simp [List.takeWhile_cons, List.dropWhile_cons, ha.1]

theorem fs_leaf (env : Env) (pre : Str) (c : FsCand) :
    (match parseSimpleFloat (α := α) (trim env.cs.uws c.number), env.findUnit (trim env.cs.uws c.unit) with
      | some n, some _ =>
        InlineStep.hit ⟨(if ((c.skipped.reverse ++ pre).head? == some '-') = true then (c.skipped.reverse ++ pre).drop 1
            else c.skipped.reverse ++ pre).reverse,
          ⟨.number (.regular (if ((c.skipped.reverse ++ pre).head? == some '-') = true then Arith.neg n else n)),
            some (trim env.cs.uws c.unit)⟩, c.after⟩
      | _, _ => InlineStep.retry (c.src.reverse ++ (c.skipped.reverse ++ pre)) c.after) =
    match fsAccept (α := α) env c with
    | some n => .hit (fsHit env pre.reverse c n)
    | none => .retry ((c.skipped ++ c.src).reverse ++ pre) c.after := by
  have hp : c.skipped.reverse ++ pre = (pre.reverse ++ c.skipped).reverse := by simp
  have hq : (c.skipped ++ c.src).reverse ++ pre = c.src.reverse ++ (pre.reverse ++ c.skipped).reverse := by simp
  rw [hp, hq]
  unfold fsAccept fsHit
  generalize pre.reverse ++ c.skipped = p
  have hdl : (p.reverse.drop 1).reverse = p.dropLast := by
    rw [List.drop_one, List.tail_reverse, List.reverse_reverse]
  rw [List.head?_reverse]
  have hb : (if (p.getLast? == some '-') = true then List.drop 1 p.reverse else p.reverse).reverse =
      if (p.getLast? == some '-') = true then p.dropLast else p := by
    split
    · exact hdl
    · simp
  rw [hb]
  cases parseSimpleFloat (α := α) (trim env.cs.uws c.number) <;>
    cases env.findUnit (trim env.cs.uws c.unit) <;> rfl

/-- one iteration of the code: it stops iff there is no candidate; otherwise the candidate is accepted (hit) or
    skipped whole (the scan goes on at `after`, the text before it grown by `skipped ++ number ++ gap ++ unit`) -/
theorem fs_step (env : Env) (pre rest : Str) :
    inlineStep (α := α) env pre rest =
      match fsNextCand env.cs rest with
      | none => .stop
      | some c =>
        match fsAccept (α := α) env c with
        | some n => .hit (fsHit env pre.reverse c n)
        | none => .retry ((c.skipped ++ c.src).reverse ++ pre) c.after := by
  cases hc : fsNextCand env.cs rest with
  | none =>
    unfold fsNextCand at hc
    unfold inlineStep
    dsimp only
    cases hr : List.dropWhile (fun c => !isAsciiDigitC c) rest with
    | nil => rfl
    | cons d r' =>
      rw [hr] at hc
      dsimp only at hc ⊢
      cases hf : List.findIdx? (fun c => !isAsciiDigitC c && c != '.' && !env.cs.uws c)
          (List.takeWhile (fun c => !env.cs.uws c) (d :: r')) with
      | some mid => rw [hf] at hc; cases hc
      | none =>
        rw [hf] at hc
        dsimp only at hc ⊢
        generalize List.dropWhile (fun c => !env.cs.uws c) (d :: r') = r1 at hc ⊢
        by_cases he : r1.isEmpty = true
        · cases r1 with
          | nil => simp
          | cons _ _ => simp at he
        · simp only [he, if_false, Bool.false_eq_true] at hc
          split at hc <;> cases hc
  | some c =>
    obtain ⟨hsplit, hdrop, hskip⟩ := fs_nextCand_split env.cs rest c hc
    have hcons : ((c.src ++ c.after).take ((c.src ++ c.after).length - c.after.length)) = c.src := ri_take_len _ _
    have hr : rest.dropWhile (fun c => !isAsciiDigitC c) = c.src ++ c.after := by
      rw [hdrop]; simp [FsCand.src]
    have hpre : (c.skipped.reverse ++ pre) = (pre.reverse ++ c.skipped).reverse := by simp
    have hhead : ∀ (l : Str), l.reverse.head? = l.getLast? := fun l => by simp
    have hdl : ∀ (l : Str), (l.reverse.drop 1).reverse = l.dropLast := fun l => by
      rw [List.drop_one, List.tail_reverse, List.reverse_reverse]
    unfold fsNextCand at hc
    unfold inlineStep
    dsimp only
    rw [← hskip]
    cases hr' : List.dropWhile (fun c => !isAsciiDigitC c) rest with
    | nil => rw [hr'] at hc; cases hc
    | cons d r' =>
      rw [hr'] at hc hr
      dsimp only at hc ⊢
      cases hf : List.findIdx? (fun c => !isAsciiDigitC c && c != '.' && !env.cs.uws c)
          (List.takeWhile (fun c => !env.cs.uws c) (d :: r')) with
      | some mid =>
        rw [hf] at hc
        simp only [Option.some.injEq] at hc
        dsimp only
        have e1 := congrArg FsCand.number hc
        have e2 := congrArg FsCand.unit hc
        have e3 := congrArg FsCand.after hc
        dsimp only at e1 e2 e3
        rw [e1, e2, e3, hr, hcons]
        exact fs_leaf env pre c
      | none =>
        rw [hf] at hc
        dsimp only at hc ⊢
        generalize hr1e : List.dropWhile (fun c => !env.cs.uws c) (d :: r') = r1 at hc ⊢
        by_cases he : r1.isEmpty = true
        · simp only [he, if_true] at hc; cases hc
        · simp only [he, if_false, Bool.false_eq_true] at hc
          by_cases ha : (r1.any fun c => !env.cs.uws c) = true
          · simp only [ha, if_true] at hc ⊢
            simp only [Option.some.injEq] at hc
            have e1 := congrArg FsCand.number hc
            have e2 := congrArg FsCand.unit hc
            have e3 := congrArg FsCand.after hc
            dsimp only at e1 e2 e3
            have hne : (List.dropWhile env.cs.uws r1).isEmpty = false := by
              cases hd : List.dropWhile env.cs.uws r1 with
              | nil =>
                exfalso
                have h1 : r1 = r1.takeWhile env.cs.uws ++ r1.dropWhile env.cs.uws :=
                  (List.takeWhile_append_dropWhile).symm
                rw [hd, List.append_nil] at h1
                have : r1.all env.cs.uws = true := by
                  rw [h1]; exact List.all_takeWhile
                rw [List.any_eq_true] at ha
                obtain ⟨x, hx, hx2⟩ := ha
                have := (List.all_eq_true.mp this) x hx
                simp [this] at hx2
              | cons _ _ => rfl
            simp only [hne, Bool.false_eq_true, if_false]
            rw [e1, e2, e3, hr, hcons]
            exact fs_leaf env pre c
          · simp only [ha, if_false, Bool.false_eq_true] at hc ⊢
            simp only [Option.some.injEq] at hc
            have e1 := congrArg FsCand.number hc
            have e2 := congrArg FsCand.unit hc
            have e3 := congrArg FsCand.after hc
            dsimp only at e1 e2 e3
            have hne : r1.isEmpty = false := by simpa using he
            have ha' : (r1.any fun c => !env.cs.uws c) = false := by simpa using ha
            obtain ⟨t1, t2⟩ := fs_if_any r1 env.cs.uws ha' hne
            simp only [hne, Bool.false_eq_true, if_false, t1, t2]
            rw [e1, e2, e3, hr, hcons]
            exact fs_leaf env pre c

/-! ### the scan as a relation on the text -/

/-- **what the finder finds**, on the text alone: `FsFinds env p rest h` — scanning `rest` (with `p` the text
    before it) gives the hit `h`.  `h` comes from the FIRST candidate of the candidate sequence that is accepted
    (number reads, unit word known to the converter); every candidate before it failed and was skipped whole. -/
inductive FsFinds (env : Env) : Str → Str → InlineHit α → Prop
  | here (p rest : Str) (c : FsCand) (n : α) :
      fsNextCand env.cs rest = some c → fsAccept (α := α) env c = some n → FsFinds env p rest (fsHit env p c n)
  | later (p rest : Str) (c : FsCand) (h : InlineHit α) :
      fsNextCand env.cs rest = some c → fsAccept (α := α) env c = none →
      FsFinds env (p ++ c.skipped ++ c.src) c.after h → FsFinds env p rest h

/-- no candidate of the candidate sequence from `rest` on is accepted -/
inductive FsNothing (α : Type) [Arith α] (env : Env) : Str → Prop
  | done (rest : Str) : fsNextCand env.cs rest = none → FsNothing α env rest
  | skip (rest : Str) (c : FsCand) :
      fsNextCand env.cs rest = some c → fsAccept (α := α) env c = none → FsNothing α env c.after → FsNothing α env rest

theorem fs_after_shorter (env : Env) (hd : DigitsNotWs env.cs) (rest : Str) (c : FsCand)
    (hc : fsNextCand env.cs rest = some c) : c.after.length < rest.length := by
  have hp := inlineStep_progress (α := Rat) env hd [] rest
  rw [fs_step, hc] at hp
  dsimp only at hp
  cases ha : fsAccept (α := Rat) env c with
  | some n => rw [ha] at hp; exact hp _ rfl
  | none => rw [ha] at hp; exact hp _ rfl

/-- the relation is functional: a text gives at most one hit -/
theorem fs_finds_unique (env : Env) (p rest : Str) (h1 h2 : InlineHit α)
    (a : FsFinds env p rest h1) (b : FsFinds env p rest h2) : h1 = h2 := by
  induction a with
  | here p rest c n hc ha =>
    cases b with
    | here _ _ c' n' hc' ha' =>
      rw [hc] at hc'; cases hc'
      rw [ha] at ha'; cases ha'; rfl
    | later _ _ c' _ hc' ha' _ =>
      rw [hc] at hc'; cases hc'
      rw [ha] at ha'; cases ha'
  | later p rest c h hc ha _ ih =>
    cases b with
    | here _ _ c' n' hc' ha' =>
      rw [hc] at hc'; cases hc'
      rw [ha] at ha'; cases ha'
    | later _ _ c' _ hc' ha' b' =>
      rw [hc] at hc'; cases hc'
      exact ih b'

/-- a hit and "nothing" exclude each other -/
theorem fs_finds_not_nothing (env : Env) (p rest : Str) (h : InlineHit α)
    (a : FsFinds env p rest h) : ¬ FsNothing α env rest := by
  induction a with
  | here p rest c n hc ha =>
    intro b
    cases b with
    | done _ hc' => rw [hc] at hc'; cases hc'
    | skip _ c' hc' ha' _ => rw [hc] at hc'; cases hc'; rw [ha] at ha'; cases ha'
  | later p rest c h hc ha _ ih =>
    intro b
    cases b with
    | done _ hc' => rw [hc] at hc'; cases hc'
    | skip _ c' hc' ha' b' => rw [hc] at hc'; cases hc'; exact ih b'

/-- **soundness and completeness of the finder, with any fuel above the length of the text**: it returns `some h`
    exactly when the text gives the hit `h`, and `none` exactly when no candidate of the sequence is accepted -/
theorem fs_find_spec (env : Env) (hd : DigitsNotWs env.cs) :
    ∀ (fuel : Nat) (pre rest : Str), rest.length < fuel →
      match findInlineQuantity (α := α) env fuel pre rest with
      | some h => FsFinds env pre.reverse rest h
      | none => FsNothing α env rest := by
  intro fuel
  induction fuel with
  | zero => intro pre rest h; omega
  | succ fuel ih =>
    intro pre rest hl
    rw [findInlineQuantity_succ, fs_step]
    cases hc : fsNextCand env.cs rest with
    | none => exact FsNothing.done rest hc
    | some c =>
      dsimp only
      cases ha : fsAccept (α := α) env c with
      | some n => exact FsFinds.here _ rest c n hc ha
      | none =>
        dsimp only
        have hsh := fs_after_shorter env hd rest c hc
        have := ih ((c.skipped ++ c.src).reverse ++ pre) c.after (by omega)
        cases hf : findInlineQuantity (α := α) env fuel ((c.skipped ++ c.src).reverse ++ pre) c.after with
        | none => rw [hf] at this; exact FsNothing.skip rest c hc ha this
        | some h =>
          rw [hf] at this
          refine FsFinds.later _ rest c h hc ha ?_
          have e : ((c.skipped ++ c.src).reverse ++ pre).reverse = pre.reverse ++ c.skipped ++ c.src := by simp
          rw [e] at this
          exact this

theorem fs_find_iff (env : Env) (hd : DigitsNotWs env.cs) (fuel : Nat) (pre rest : Str) (hl : rest.length < fuel)
    (h : InlineHit α) :
    findInlineQuantity (α := α) env fuel pre rest = some h ↔ FsFinds env pre.reverse rest h := by
  have hs := fs_find_spec (α := α) env hd fuel pre rest hl
  constructor
  · intro e; rw [e] at hs; exact hs
  · intro a
    cases hf : findInlineQuantity (α := α) env fuel pre rest with
    | none => rw [hf] at hs; exact absurd hs (fs_finds_not_nothing env _ rest h a)
    | some h' => rw [hf] at hs; rw [fs_finds_unique env _ rest h' h hs a]

theorem fs_find_none_iff (env : Env) (hd : DigitsNotWs env.cs) (fuel : Nat) (pre rest : Str) (hl : rest.length < fuel) :
    findInlineQuantity (α := α) env fuel pre rest = none ↔ FsNothing α env rest := by
  have hs := fs_find_spec (α := α) env hd fuel pre rest hl
  constructor
  · intro e; rw [e] at hs; exact hs
  · intro a
    cases hf : findInlineQuantity (α := α) env fuel pre rest with
    | none => rfl
    | some h' => rw [hf] at hs; exact absurd a (fs_finds_not_nothing env _ rest h' hs)

end Cook
