import CookModel.Lemmas.LooseComp
import CookModel.Lemmas.LooseServings
import CookModel.Lemmas.LooseLine
/-
  C17, wave 5 (tag `bl17`): filler inside component bodies, from the component parsers up to the
  recipe.

  `SegF`: a segment of a step of the round-trip grammar (`SegX`), or a braces ingredient / cookware
  item / timer spelled WITH filler inside its name, alias, note or unit (`CompFiller`, `TimerFiller`).
  `SegF.clean` forgets the filler.  The step loop over the filler spelling emits events that match
  the CLEAN segments (`bl17_stepLoop_segsF`), so a step block, a document and finally the recipe are
  described by the clean document: the recipe of the source with filler inside component bodies has
  exactly the abstract description of the clean source (`bl17_parseRecipe_docF`), hence the two
  recipes have equal sections, tables, metadata, servings (`bl17_docF_same`).
-/
set_option linter.unusedSectionVars false
set_option linter.unusedSimpArgs false
set_option linter.unusedVariables false
namespace Cook

variable {α : Type} [Arith α]

inductive SegF where
  | x (s : SegX)
  | ingredient (cF c : AComp) (p : CPad)
  | cookware (cF c : AComp) (p : CPad)
  | timer (cF c : ATimer) (p : CPad)

def SegF.spell : SegF → List Tok
  | .x s => s.spell
  | .ingredient cF _ p => spellIngredient cF p
  | .cookware cF _ p => spellCookware cF p
  | .timer cF _ p => spellTimer cF p

/-- the segment without the filler -/
def SegF.clean : SegF → SegX
  | .x s => s
  | .ingredient _ c p => .ingredient c p
  | .cookware _ c p => .cookware c p
  | .timer _ c p => .timer c p

def SegF.OK (cs : CharSpec) (e : Ext) : SegF → Prop
  | .x s => s.ok cs e = true
  | .ingredient cF c p => CompFiller cF c ∧ c.wf cs e = true ∧ p.ok cs = true
  | .cookware cF c p => CompFiller cF c ∧ c.wfCookware cs e = true ∧ p.ok cs = true
  | .timer cF c p => TimerFiller cF c ∧ c.wf cs e = true ∧ p.ok cs = true

/-- a segment and what follows it, as `SegX.followOK`, read on the spelling with filler -/
def SegF.followOK : SegF → List SegF → Bool
  | .x (.text _), .x (.text _) :: _ => false
  | .x (.text _), _ => true
  | .x (.ingredient c _), rest => restOK c (rest.flatMap SegF.spell)
  | .x (.cookware c _), rest => restOK c (rest.flatMap SegF.spell)
  | .x (.timer _ _), rest => noParenNext (rest.flatMap SegF.spell)
  | .x (.ingredient1 c), rest => shortRestOK c (rest.flatMap SegF.spell)
  | .x (.cookware1 c), rest => shortRestOK c (rest.flatMap SegF.spell)
  | .x (.ingredientI _ _ _ _ c _), rest => restOK c (rest.flatMap SegF.spell)
  | .ingredient _ c _, rest => restOK c (rest.flatMap SegF.spell)
  | .cookware _ c _, rest => restOK c (rest.flatMap SegF.spell)
  | .timer _ _ _, rest => noParenNext (rest.flatMap SegF.spell)

def segsFOK (cs : CharSpec) (e : Ext) : List SegF → Prop
  | [] => True
  | seg :: rest => seg.OK cs e ∧ seg.followOK rest = true ∧ segsFOK cs e rest

/-! ### one iteration on a component with filler -/

theorem bl17_stepOne_ingredient (cF c : AComp) (hF : CompFiller cF c) (p : CPad) (s : BP α) (hsp : s.cs.uws ' ' = true)
    (hwf : c.wf s.cs s.ext = true) (hp : p.ok s.cs = true)
    (A ts rest : List Tok) (hs : Spells ts (spellIngredient cF p)) (ht : s.toks = A ++ (ts ++ rest))
    (hc : s.cur = A.length) (hrest : restOK c rest = true) (hrun : RunAt (baseOff s.toks) s.toks) :
    ∃ i : Loc (PIngredient α),
      stepOne s = ((), { s with cur := A.length + ts.length, evs := s.evs.push (.ingredient i) }) ∧
      IngrMatches s.cs c i.val := by
  obtain ⟨ing, hrunI, hm⟩ := bl17_ingredientP cF c hF p s hsp hwf hp A ts rest hs ht hc hrest hrun
  obtain ⟨tm, r, hts, htmk⟩ := comp_head hs
  have h1 := peekK_split s A (ts ++ rest) ht hc
  refine ⟨⟨ing, ⟨offAt s.toks A.length, offAt s.toks (A.length + ts.length)⟩⟩, ?_, hm⟩
  unfold stepOne
  simp only [bind, StateT.bind, h1, hts, List.cons_append, List.head?_cons, Option.map_some, htmk, tk,
    withRecover_run, hrunI, Option.isNone_some, Bool.false_eq_true, if_false, pushEv_run]

theorem bl17_stepOne_cookware (cF c : AComp) (hF : CompFiller cF c) (p : CPad) (s : BP α) (hsp : s.cs.uws ' ' = true)
    (hwf : c.wfCookware s.cs s.ext = true) (hp : p.ok s.cs = true)
    (A ts rest : List Tok) (hs : Spells ts (spellCookware cF p)) (ht : s.toks = A ++ (ts ++ rest))
    (hc : s.cur = A.length) (hrest : restOK c rest = true) (hrun : RunAt (baseOff s.toks) s.toks) :
    ∃ i : Loc (PCookware α),
      stepOne s = ((), { s with cur := A.length + ts.length, evs := s.evs.push (.cookware i) }) ∧
      CwMatches s.cs c i.val := by
  obtain ⟨cw, hrunI, hm⟩ := bl17_cookwareP cF c hF p s hsp hwf hp A ts rest hs ht hc hrest hrun
  obtain ⟨tm, r, hts, htmk⟩ := comp_head hs
  have h1 := peekK_split s A (ts ++ rest) ht hc
  refine ⟨⟨cw, ⟨offAt s.toks A.length, offAt s.toks (A.length + ts.length)⟩⟩, ?_, hm⟩
  unfold stepOne
  simp only [bind, StateT.bind, h1, hts, List.cons_append, List.head?_cons, Option.map_some, htmk, tk,
    withRecover_run, hrunI, Option.isNone_some, Bool.false_eq_true, if_false, pushEv_run]

theorem bl17_stepOne_timer (cF c : ATimer) (hF : TimerFiller cF c) (p : CPad) (s : BP α) (hsp : s.cs.uws ' ' = true)
    (hwf : c.wf s.cs s.ext = true) (hp : p.ok s.cs = true)
    (A ts rest : List Tok) (hs : Spells ts (spellTimer cF p)) (ht : s.toks = A ++ (ts ++ rest))
    (hc : s.cur = A.length) (hrest : noParenNext rest = true) (hrun : RunAt (baseOff s.toks) s.toks) :
    ∃ i : Loc (PTimer α),
      stepOne s = ((), { s with cur := A.length + ts.length, evs := s.evs.push (.timer i) }) ∧
      TimerMatches s.cs c i.val := by
  obtain ⟨tmr, hrunI, hm⟩ := bl17_timerP cF c hF p s hsp hwf hp A ts rest hs ht hc hrest hrun
  obtain ⟨tm, r, hts, htmk⟩ := timer_head hs
  have h1 := peekK_split s A (ts ++ rest) ht hc
  refine ⟨⟨tmr, ⟨offAt s.toks A.length, offAt s.toks (A.length + ts.length)⟩⟩, ?_, hm⟩
  unfold stepOne
  simp only [bind, StateT.bind, h1, hts, List.cons_append, List.head?_cons, Option.map_some, htmk,
    withRecover_run, hrunI, Option.isNone_some, Bool.false_eq_true, if_false, pushEv_run]

/-- every component segment starts with a marker -/
theorem bl17_segF_head_marker {seg : SegF} {tsg : List Tok} (hs : Spells tsg seg.spell)
    (hnt : ∀ l, seg ≠ .x (.text l)) : ∃ tm r, tsg = tm :: r ∧ isMarker tm.kind = true := by
  cases seg with
  | x s => exact segX_head_marker hs (fun l he => hnt l (by rw [he]))
  | ingredient cF c p => obtain ⟨tm, r, h, hk⟩ := comp_head hs; exact ⟨tm, r, h, by rw [hk]; rfl⟩
  | cookware cF c p => obtain ⟨tm, r, h, hk⟩ := comp_head hs; exact ⟨tm, r, h, by rw [hk]; rfl⟩
  | timer cF c p => obtain ⟨tm, r, h, hk⟩ := timer_head hs; exact ⟨tm, r, h, by rw [hk]; rfl⟩

/-- **the step loop over segments with filler**: one event per segment, in order, matching the CLEAN
    segments -/
theorem bl17_stepLoop_segsF : ∀ (segs : List SegF) (fuel : Nat) (s : BP α) (A tsegs : List Tok),
    Spells tsegs (segs.flatMap SegF.spell) → s.toks = A ++ tsegs → s.cur = A.length →
    RunAt (baseOff s.toks) s.toks → s.cs.uws ' ' = true → segsFOK s.cs s.ext segs → tsegs.length ≤ fuel →
    ∃ (evs : List (Ev α)) (arr : Array (Ev α)),
      stepLoop fuel s = ((), { s with cur := A.length + tsegs.length, evs := arr }) ∧
      arr.toList = s.evs.toList ++ evs ∧ SegsXEvs s.cs (segs.map SegF.clean) evs := by
  intro segs
  induction segs with
  | nil =>
    intro fuel s A tsegs hs ht hc hrun hsp hok hf
    simp only [List.flatMap_nil] at hs
    have := hs.nil_inv; subst this
    have hd : s.toks.drop s.cur = [] := by rw [ht, hc]; simp
    refine ⟨[], s.evs, ?_, by simp, SegsXEvs.nil⟩
    cases fuel with
    | zero =>
      unfold stepLoop
      simp only [bind, StateT.bind, restToks_run, hd, List.isEmpty_nil, Bool.not_true, Bool.false_eq_true, if_false,
        List.length_nil, Nat.add_zero, ← hc]
      rfl
    | succ f =>
      unfold stepLoop
      simp only [bind, StateT.bind, restToks_run, hd, List.isEmpty_nil, if_true, List.length_nil, Nat.add_zero, ← hc]
      rfl
  | cons seg rest ih =>
    intro fuel s A tsegs hs ht hc hrun hsp hok hf
    simp only [List.flatMap_cons] at hs
    obtain ⟨tseg, trest, rfl, hseg, hrest⟩ := hs.append_inv
    obtain ⟨hsok, hfol, hrok⟩ := hok
    have key : ∀ (ev : Ev α), tseg ≠ [] →
        stepOne s = ((), { s with cur := A.length + tseg.length, evs := s.evs.push ev }) → SegXEv s.cs seg.clean ev →
        ∃ (evs : List (Ev α)) (arr : Array (Ev α)),
          stepLoop fuel s = ((), { s with cur := A.length + (tseg ++ trest).length, evs := arr }) ∧
          arr.toList = s.evs.toList ++ evs ∧ SegsXEvs s.cs ((seg :: rest).map SegF.clean) evs := by
      intro ev hne hstep hev
      have hpos : 0 < tseg.length := List.length_pos_iff.mpr hne
      obtain ⟨f, rfl⟩ : ∃ f, fuel = f + 1 := by
        cases tseg with
        | nil => exact absurd rfl hne
        | cons t r => exact ⟨fuel - 1, by simp at hf; omega⟩
      obtain ⟨evs', arr', hl, harr, hall⟩ := ih f ({ s with cur := A.length + tseg.length, evs := s.evs.push ev } : BP α)
        (A ++ tseg) trest hrest (by simp [ht]) (by simp) hrun hsp hrok
        (by simp only [List.length_append] at hf; omega)
      refine ⟨ev :: evs', arr', ?_, by rw [harr]; simp, by simp only [List.map_cons]; exact SegsXEvs.cons hev hall⟩
      have hd : (s.toks.drop s.cur).isEmpty = false := by
        rw [ht, hc, List.drop_left]
        cases tseg with
        | nil => exact absurd rfl hne
        | cons t r => rfl
      unfold stepLoop
      simp only [bind, StateT.bind, restToks_run, hd, Bool.false_eq_true, if_false, hstep, hl]
      congr 2
      simp only [List.length_append]; omega
    cases seg with
    | ingredient cF c p =>
      obtain ⟨hF, hwf, hp⟩ := hsok
      simp only [SegF.spell] at hseg
      simp only [SegF.followOK] at hfol
      obtain ⟨i, hstep, hm⟩ := bl17_stepOne_ingredient cF c hF p s hsp hwf hp A tseg trest hseg ht hc
        (restOK_transfer hrest hfol) hrun
      obtain ⟨tm, r, hts, -⟩ := comp_head hseg
      exact key (.ingredient i) (by rw [hts]; simp) hstep hm
    | cookware cF c p =>
      obtain ⟨hF, hwf, hp⟩ := hsok
      simp only [SegF.spell] at hseg
      simp only [SegF.followOK] at hfol
      obtain ⟨i, hstep, hm⟩ := bl17_stepOne_cookware cF c hF p s hsp hwf hp A tseg trest hseg ht hc
        (restOK_transfer hrest hfol) hrun
      obtain ⟨tm, r, hts, -⟩ := comp_head hseg
      exact key (.cookware i) (by rw [hts]; simp) hstep hm
    | timer cF c p =>
      obtain ⟨hF, hwf, hp⟩ := hsok
      simp only [SegF.spell] at hseg
      simp only [SegF.followOK] at hfol
      obtain ⟨i, hstep, hm⟩ := bl17_stepOne_timer cF c hF p s hsp hwf hp A tseg trest hseg ht hc
        (noParenNext_transfer hrest hfol) hrun
      obtain ⟨tm, r, hts, -⟩ := timer_head hseg
      exact key (.timer i) (by rw [hts]; simp) hstep hm
    | x sx =>
      have hsok' : sx.ok s.cs s.ext = true := hsok
      cases sx with
      | text l =>
        simp only [SegX.ok, Bool.and_eq_true, Bool.not_eq_true', List.isEmpty_eq_false_iff, List.all_eq_true] at hsok'
        obtain ⟨⟨hlne, hlm⟩, hlv⟩ := hsok'
        simp only [SegF.spell, SegX.spell] at hseg
        cases tseg with
        | nil => have := hseg.length; simp at this; exact absurd (List.length_eq_zero_iff.mp this.symm) hlne
        | cons t0 tl =>
          have hnm : ∀ t ∈ t0 :: tl, isMarker t.kind = false := by
            intro t ht'
            obtain ⟨u, hu, hk, -⟩ := hseg.mem ht'
            rw [hk]; simpa using hlm u hu
          have hC : ∀ t, trest.head? = some t → isMarker t.kind = true := by
            intro t ht'
            cases rest with
            | nil => simp only [List.flatMap_nil] at hrest; rw [hrest.nil_inv] at ht'; simp at ht'
            | cons sg rest' =>
              simp only [List.flatMap_cons] at hrest
              obtain ⟨tsg, r', rfl, hsg, -⟩ := hrest.append_inv
              have hnt : ∀ l', sg ≠ .x (.text l') := by
                intro l' he; subst he; simp [SegF.followOK] at hfol
              obtain ⟨tm, r, rfl, hk⟩ := bl17_segF_head_marker hsg hnt
              simp at ht'; subst ht'; exact hk
          have hvis : (t0 :: tl).flatMap vis ≠ [] := by
            rw [hseg.vis_eq]; intro h0; rw [h0] at hlv; simp at hlv
          obtain ⟨t, hstep, htx⟩ := stepOne_text s A t0 tl trest ht hc (hnm t0 (by simp))
            (fun x hx => hnm x (by simp [hx])) hC hvis hrun
          exact key (.text t) (by simp) hstep (by simp only [SegF.clean, SegXEv]; rw [htx, hseg.vis_eq])
      | ingredient c p =>
        simp only [SegX.ok, Bool.and_eq_true] at hsok'
        simp only [SegF.spell, SegX.spell] at hseg
        simp only [SegF.followOK] at hfol
        obtain ⟨i, hstep, hm⟩ := stepOne_ingredient c p s hsok'.1 hsok'.2 A tseg trest hseg ht hc
          (restOK_transfer hrest hfol) hrun
        obtain ⟨tm, r, hts, -⟩ := comp_head hseg
        exact key (.ingredient i) (by rw [hts]; simp) hstep hm
      | cookware c p =>
        simp only [SegX.ok, Bool.and_eq_true] at hsok'
        simp only [SegF.spell, SegX.spell] at hseg
        simp only [SegF.followOK] at hfol
        obtain ⟨i, hstep, hm⟩ := stepOne_cookware c p s hsok'.1 hsok'.2 A tseg trest hseg ht hc
          (restOK_transfer hrest hfol) hrun
        obtain ⟨tm, r, hts, -⟩ := comp_head hseg
        exact key (.cookware i) (by rw [hts]; simp) hstep hm
      | timer c p =>
        simp only [SegX.ok, Bool.and_eq_true] at hsok'
        simp only [SegF.spell, SegX.spell] at hseg
        simp only [SegF.followOK] at hfol
        obtain ⟨i, hstep, hm⟩ := stepOne_timer c p s hsok'.1 hsok'.2 A tseg trest hseg ht hc
          (noParenNext_transfer hrest hfol) hrun
        obtain ⟨tm, r, hts, -⟩ := timer_head hseg
        exact key (.timer i) (by rw [hts]; simp) hstep hm
      | ingredient1 c =>
        simp only [SegX.ok] at hsok'
        simp only [SegF.spell, SegX.spell] at hseg
        simp only [SegF.followOK] at hfol
        obtain ⟨i, hstep, hm⟩ := stepOne_ingredient1 c s hsok' A tseg trest hseg ht hc
          (shortRestOK_transfer hrest hfol) hrun
        obtain ⟨tm, r, hts, -⟩ := short_head hseg
        exact key (.ingredient i) (by rw [hts]; simp) hstep hm
      | cookware1 c =>
        simp only [SegX.ok] at hsok'
        simp only [SegF.spell, SegX.spell] at hseg
        simp only [SegF.followOK] at hfol
        obtain ⟨i, hstep, hm⟩ := stepOne_cookware1 c s hsok' A tseg trest hseg ht hc
          (shortRestOK_transfer hrest hfol) hrun
        obtain ⟨tm, r, hts, -⟩ := short_head hseg
        exact key (.cookware i) (by rw [hts]; simp) hstep hm
      | ingredientI pre post i ip c p =>
        simp only [SegX.ok, Bool.and_eq_true] at hsok'
        simp only [SegF.spell, SegX.spell] at hseg
        simp only [SegF.followOK] at hfol
        obtain ⟨ing, hstep, hm⟩ := stepOne_ingredientI pre post i ip c p s hsok'.1.1 hsok'.1.2 hsok'.2 A tseg trest hseg ht hc
          (restOK_transfer hrest hfol) hrun
        obtain ⟨tm, r, hts, -⟩ := inter_head hseg
        exact key (.ingredient ing) (by rw [hts]; simp) hstep hm

theorem bl17_parseStepF (segs : List SegF) (s : BP α) (ts : List Tok) (hs : Spells ts (segs.flatMap SegF.spell))
    (ht : s.toks = ts) (hc : s.cur = 0) (hrun : RunAt (baseOff ts) ts) (hsp : s.cs.uws ' ' = true)
    (hok : segsFOK s.cs s.ext segs) :
    ∃ (evs : List (Ev α)) (arr : Array (Ev α)),
      parseStep s = ((), { s with cur := ts.length, evs := arr }) ∧
      arr.toList = s.evs.toList ++ [.start .step] ++ evs ++ [.stop .step] ∧ SegsXEvs s.cs (segs.map SegF.clean) evs := by
  subst ht
  obtain ⟨evs, arr, hl, harr, hall⟩ := bl17_stepLoop_segsF segs s.toks.length
    ({ s with evs := s.evs.push (.start .step) } : BP α) [] s.toks hs (by simp) (by simpa using hc) hrun hsp hok
    (Nat.le_refl _)
  refine ⟨evs, arr.push (.stop .step), ?_, by simp [harr], hall⟩
  unfold parseStep
  have hd : (s.toks.drop s.cur).length = s.toks.length := by rw [hc]; simp
  simp only [bind, StateT.bind, pushEv_run, restToks_run, hd, hl]
  simp

/-- a step block spelled with filler inside component bodies, through `parse_block` -/
theorem bl17_runBlock_stepF (segs : List SegF) (cs : CharSpec) (ext : Ext) (oldStyle : Bool) (ts : List Tok)
    (evs0 : Array (Ev α)) (panic : Option String) (hsp : cs.uws ' ' = true)
    (hs : Spells ts (segs.flatMap SegF.spell)) (hrun : RunAt (baseOff ts) ts)
    (hok : segsFOK cs ext segs) (hb : stepBlockOK ts = true) :
    ∃ (evs : List (Ev α)) (arr : Array (Ev α)),
      runBlock cs ext oldStyle ts evs0 panic = (arr, panic) ∧
      arr.toList = evs0.toList ++ [.start .step] ++ evs ++ [.stop .step] ∧ SegsXEvs cs (segs.map SegF.clean) evs := by
  simp only [stepBlockOK, Bool.and_eq_true] at hb
  obtain ⟨hhead, hany⟩ := hb
  obtain ⟨evs, arr, hstep, harr, hall⟩ := bl17_parseStepF segs (⟨ts, 0, ext, cs, evs0, panic⟩ : BP α) ts hs rfl rfl hrun hsp hok
  refine ⟨evs, arr, ?_, harr, hall⟩
  have hne : ts.isEmpty = false := by
    cases ts with
    | nil => simp at hany
    | cons _ _ => rfl
  have hpk := peekK_split (⟨ts, 0, ext, cs, evs0, panic⟩ : BP α) [] ts rfl rfl
  have hall' : ts.all (fun t => isEmptyTok t.kind) = false := by
    rw [Bool.eq_false_iff]
    intro hall'
    rw [List.any_eq_true] at hany
    obtain ⟨t, ht, hk⟩ := hany
    rw [List.all_eq_true] at hall'
    have := hall' t ht
    rw [this] at hk; cases hk
  obtain ⟨t0, tr, rfl⟩ : ∃ t0 tr, ts = t0 :: tr := by
    cases ts with
    | nil => simp at hne
    | cons a b => exact ⟨a, b, rfl⟩
  simp only [List.head?_cons, Option.all_some, Bool.and_eq_true, bne_iff_ne, ne_eq] at hhead
  obtain ⟨⟨hk1, hk2⟩, hk3⟩ := hhead
  unfold runBlock
  simp only [hne, Bool.false_eq_true, if_false, bind, StateT.bind, pure, StateT.pure]
  have hpb : parseBlock (α := α) oldStyle ⟨t0 :: tr, 0, ext, cs, evs0, panic⟩ =
      ((), { (⟨t0 :: tr, 0, ext, cs, evs0, panic⟩ : BP α) with cur := (t0 :: tr).length, evs := arr }) := by
    unfold parseBlock
    simp only [bind, StateT.bind, hpk, List.head?_cons, Option.map_some]
    have hml : parseMultilineBlock (α := α) ⟨t0 :: tr, 0, ext, cs, evs0, panic⟩ =
        ((), { (⟨t0 :: tr, 0, ext, cs, evs0, panic⟩ : BP α) with cur := (t0 :: tr).length, evs := arr }) := by
      unfold parseMultilineBlock
      simp only [bind, StateT.bind, allToks, get, getThe, MonadStateOf.get, StateT.get, pure, StateT.pure, hall',
        Bool.false_eq_true, if_false, hpk, List.head?_cons, Option.map_some]
      have : (some t0.kind == some TK.textStep) = false := by simp [hk3]
      simp only [this, Bool.false_eq_true, if_false]
      exact hstep
    cases hk : t0.kind <;> simp [hk] at hk1 hk2 <;> simp only [pure, StateT.pure, hml]
  rw [hpb]
  simp only [get, getThe, MonadStateOf.get, StateT.get, ne_eq, not_true_eq_false, if_false, pure, StateT.pure]

/-! ### documents -/

/-- a block of a document: a step with filler inside component bodies, or any block of the grammar -/
inductive DocItemF where
  | stepF (segs : List SegF)
  | other (d : DocItem)
  /-- a section line with a trailing line comment `lc` -/
  | sectionLC (name : Option (List Tok)) (p : SPad) (lc : Tok)
  /-- a `>>` line with a trailing line comment `lc` -/
  | metaLC (key value : List Tok) (p : MPad) (lc : Tok)

def DocItemF.spell : DocItemF → List Tok
  | .stepF segs => segs.flatMap SegF.spell
  | .other d => d.spell
  | .sectionLC name p lc => spellSection name p ++ [lc]
  | .metaLC k v p lc => spellMeta k v p ++ [lc]

def DocItemF.clean : DocItemF → DocItem
  | .stepF segs => .step (segs.map SegF.clean)
  | .other d => d
  | .sectionLC name p _ => .sectionLine name p
  | .metaLC k v p _ => .metaLine k v p

/-- side conditions of a block with filler: those of its segments, and the shape of a multi-line
    block (read on the spelling with filler); the clean block satisfies the round-trip conditions -/
def DocItemF.OK (cs : CharSpec) (ext : Ext) : DocItemF → Prop
  | .stepF segs => segsFOK cs ext segs ∧ stepBlockOK (segs.flatMap SegF.spell) = true ∧
      stepShape (segs.flatMap SegF.spell) = true
  | .other d => d.ok cs ext = true
  | .sectionLC name p lc => sectionOK cs name p = true ∧ lc.kind = .lineComment
  | .metaLC k v p lc => metaOK cs k v p = true ∧ lc.kind = .lineComment

theorem bl17_runBlock_itemF (cs : CharSpec) (ext : Ext) (hsp : cs.uws ' ' = true) (d : DocItemF) (h : d.OK cs ext)
    (ts : List Tok) (hs : Spells ts d.spell) (hrun : RunAt (baseOff ts) ts) (evs0 : Array (Ev α)) (panic : Option String) :
    ∃ (evs : List (Ev α)) (arr : Array (Ev α)), runBlock cs ext true ts evs0 panic = (arr, panic) ∧
      arr.toList = evs0.toList ++ evs ∧ DocItemEvs cs d.clean evs := by
  cases d with
  | stepF segs =>
    obtain ⟨h1, h2, h3⟩ := h
    obtain ⟨e, arr, g1, g2, g3⟩ := bl17_runBlock_stepF (α := α) segs cs ext true ts evs0 panic hsp hs hrun h1
      (stepBlockOK_transfer hs h2)
    exact ⟨[.start .step] ++ e ++ [.stop .step], arr, g1, by rw [g2]; simp, e, rfl, g3⟩
  | other d => exact rtd_runBlock_item cs ext d h ts hs hrun evs0 panic
  | sectionLC name p lc =>
    obtain ⟨ev, h1, h2⟩ := bl17_runBlock_section_lc (α := α) name p lc h.2 cs ext true ts evs0 panic h.1 hs hrun
    exact ⟨[ev], _, h1, by simp, ev, rfl, h2⟩
  | metaLC k v p lc =>
    obtain ⟨ev, h1, h2⟩ := bl17_runBlock_meta_lc (α := α) k v p lc h.2 cs ext ts evs0 panic h.1 hs hrun
    exact ⟨[ev], _, h1, by simp, ev, rfl, h2⟩

theorem bl17_singleShape_snoc (l : List Tok) (t : Tok) (h : singleShape l = true) (ht : t.kind ≠ .newline) :
    singleShape (l ++ [t]) = true := by
  unfold singleShape singleShapeK at *
  simp only [Bool.and_eq_true, List.map_append, List.map_cons, List.map_nil, List.all_append, List.all_cons, List.all_nil,
    Bool.and_true] at h ⊢
  refine ⟨?_, h.2, by simpa using ht⟩
  cases l with
  | nil => simp at h
  | cons a r => simpa using h.1

theorem bl17_itemF_shape (cs : CharSpec) (ext : Ext) (d : DocItemF) (h : d.OK cs ext) : blockShape d.spell = true := by
  cases d with
  | stepF segs =>
    obtain ⟨-, -, h3⟩ := h
    simp only [blockShape, DocItemF.spell, h3, Bool.or_true]
  | other d => exact rtd_item_shape cs ext d h
  | sectionLC name p lc =>
    have h1 := rtd_section_shape cs name p h.1
    simp only [blockShape, DocItemF.spell, bl17_singleShape_snoc _ lc h1 (by rw [h.2]; decide), Bool.true_or]
  | metaLC k v p lc =>
    have h1 := rtd_meta_shape cs k v p h.1
    simp only [blockShape, DocItemF.spell, bl17_singleShape_snoc _ lc h1 (by rw [h.2]; decide), Bool.true_or]

theorem bl17_fold_itemsF (cs : CharSpec) (ext : Ext) (hsp : cs.uws ' ' = true) (doc : List (DocItemF × List Tok))
    (tds : List (List Tok × List Tok))
    (hF : All2 (fun (td : List Tok × List Tok) (d : DocItemF × List Tok) =>
      Spells td.1 d.1.spell ∧ Spells td.2 d.2) tds doc)
    (hok : ∀ d ∈ doc, d.1.OK cs ext) (hrun : ∀ td ∈ tds, RunAt (baseOff td.1) td.1) :
    ∀ (evs0 : Array (Ev α)) (panic : Option String), ∃ (evss : List (List (Ev α))) (arr : Array (Ev α)),
      (tds.map (·.1)).foldl (fun acc b => runBlock cs ext true b acc.1 acc.2) (evs0, panic) = (arr, panic) ∧
      arr.toList = evs0.toList ++ evss.flatten ∧
      All2 (fun (d : DocItem × List Tok) evs => DocItemEvs cs d.1 evs) (doc.map (fun d => (d.1.clean, d.2))) evss := by
  induction hF with
  | nil => intro evs0 panic; exact ⟨[], evs0, rfl, by simp, All2.nil⟩
  | @cons td d tds' doc' hd htl ih =>
    intro evs0 panic
    obtain ⟨evs, arr1, h1, h2, h3⟩ := bl17_runBlock_itemF cs ext hsp d.1 (hok d (by simp)) td.1 hd.1
      (hrun td (by simp)) evs0 panic
    obtain ⟨evss, arr, g1, g2, g3⟩ := ih (fun x hx => hok x (by simp [hx])) (fun x hx => hrun x (by simp [hx])) arr1 panic
    refine ⟨evs :: evss, arr, ?_, ?_, All2.cons h3 g3⟩
    · simp only [List.map_cons, List.foldl_cons, h1]; exact g1
    · rw [g2, h2]; simp

/-- the token list a document with filler is printed from -/
def docSpecF (doc : List (DocItemF × List Tok)) : List Tok := docToks (doc.map (fun d => (d.1.spell, d.2)))

/-- the clean document -/
def docCleanF (doc : List (DocItemF × List Tok)) : List (DocItem × List Tok) := doc.map (fun d => (d.1.clean, d.2))

/-- **Document level, filler inside component bodies.**  The events of the source with filler match the
    items of the CLEAN document, block by block. -/
theorem bl17_pullEvents_docF (cs : CharSpec) (ext : Ext) (hsp : cs.uws ' ' = true) (pre : List Tok)
    (doc : List (DocItemF × List Tok))
    (hpre : blankLinesOK pre = true) (hok : ∀ d ∈ doc, d.1.OK cs ext)
    (hseps : sepsOK (doc.map (·.2)) = true) (hw : WellSpelled cs (pre ++ docSpecF doc))
    (hfm : parseFrontmatter cs (render (pre ++ docSpecF doc)) = none) :
    ∃ (evss : List (List (Ev α))) (arr : Array (Ev α)),
      pullEvents (α := α) cs ext (render (pre ++ docSpecF doc)) = (arr, none) ∧
      arr.toList = evss.flatten ∧
      All2 (fun (d : DocItem × List Tok) evs => DocItemEvs cs d.1 evs) (docCleanF doc) evss := by
  obtain ⟨hsp', hrun⟩ := rtin_lex_spells cs 0 (pre ++ docSpecF doc) hw
  generalize hts : lexFrom cs 0 (render (pre ++ docSpecF doc)) = ts at hsp' hrun
  have hlex : lex cs (render (pre ++ docSpecF doc)) = ts := hts
  obtain ⟨tpre, tdoc, rfl, hsp1, hsp2⟩ := hsp'.append_inv
  obtain ⟨tds, rfl, hF⟩ := rtd_spells_doc (fun d : DocItemF × List Tok => (d.1.spell, d.2)) doc tdoc hsp2
  have hdoc : docOK tds = true := by
    rw [rtd_docOK_transfer _ tds doc hF]
    apply rtd_docOK_intro (doc.map (fun d : DocItemF × List Tok => (d.1.spell, d.2)))
    · intro d hd
      obtain ⟨x, hx, rfl⟩ := List.mem_map.1 hd
      exact bl17_itemF_shape cs ext x.1 (hok x hx)
    · simpa [List.map_map, Function.comp_def] using hseps
  have hbl : BlankLines tpre := rtd_blankLinesOK_facts tpre (by rw [rtd_blankLinesOK_transfer hsp1]; exact hpre)
  have hall := rtd_allBlocks_doc tds hdoc tpre hbl
  have hruns := rtd_doc_runs tds 0 tpre hrun
  obtain ⟨evss, arr, g1, g2, g3⟩ := bl17_fold_itemsF (α := α) cs ext hsp doc tds hF hok hruns #[] none
  refine ⟨evss, arr, ?_, by simpa using g2, g3⟩
  unfold pullEvents
  simp only [hfm, hlex, hall]
  exact g1

/-- well-formedness of a document with filler: the conditions of the round trip, read on the spelling
    with filler where they are about tokens and on the clean document where they are about content -/
structure DocWFF (α : Type) [Arith α] (env : Env) (pre : List Tok) (doc : List (DocItemF × List Tok)) : Prop where
  hpre : blankLinesOK pre = true
  ok : ∀ d ∈ doc, d.1.OK env.cs env.ext
  cleanOk : ∀ d ∈ docCleanF doc, d.1.ok env.cs env.ext = true
  simple : ∀ d ∈ docCleanF doc, d.1.simple = true
  plain : ∀ d ∈ docCleanF doc, d.1.plain env
  ext : ∀ d ∈ docCleanF doc, d.1.extOK α env
  seps : sepsOK (doc.map (·.2)) = true
  spelled : WellSpelled env.cs (pre ++ docSpecF doc)
  noFront : parseFrontmatter env.cs (render (pre ++ docSpecF doc)) = none

/-- **End to end with filler inside component bodies**: the recipe of the source with filler has the
    abstract description of the CLEAN document (as `rtx_parseRecipe_doc` has for the clean source) -/
theorem bl17_parseRecipe_docF (env : Env) (hsp : env.cs.uws ' ' = true) (pre : List Tok) (doc : List (DocItemF × List Tok))
    (h : DocWFF α env pre doc) :
    ∃ (c : Col α) (spans : List Span),
      parseRecipe env (render (pre ++ docSpecF doc)) = ⟨some c, c.diags, none⟩ ∧
      c.sections = absDocSecs [] ⟨none, []⟩ 1 ((docCleanF doc).map (·.1)) ∧
      c.ingredients.toList = ((absDocSegs ((docCleanF doc).map (·.1))).filterMap SegX.ingr?).map absIngr ∧
      c.cookware.toList = ((absDocSegs ((docCleanF doc).map (·.1))).filterMap SegX.cw?).map absCw ∧
      c.timers.toList = ((absDocSegs ((docCleanF doc).map (·.1))).filterMap SegX.timer?).map absTimer ∧
      c.metaMap = absDocMeta [] ((docCleanF doc).map (·.1)) ∧
      c.diags = deprecation spans ∧ spans.length = (((docCleanF doc).map (·.1)).filter DocItem.isMeta).length ∧
      c.inlineQ = #[] ∧ c.frontMatter = none ∧ c.servings = absDocServings env none ((docCleanF doc).map (·.1)) := by
  obtain ⟨evss, arr, hpe, harr, hevs⟩ :=
    bl17_pullEvents_docF (α := α) env.cs env.ext hsp pre doc h.hpre h.ok h.seps h.spelled h.noFront
  obtain ⟨blocks, e1, e2, e3⟩ := rtx_doc_blocks env (docCleanF doc) evss hevs h.cleanOk h.simple h.plain h.ext
  obtain ⟨c, h1, h2, h3, h4, h5, h6, h7, h8, h9⟩ :=
    rts_parseEvents_doc env (render (pre ++ docSpecF doc)) blocks e2
  have hs' : ∀ i ∈ (docCleanF doc).map (·.1), i.simple = true := by
    intro i hi
    obtain ⟨d, hd, rfl⟩ := List.mem_map.1 hi
    exact h.simple d hd
  obtain ⟨a1, a2, a3, a4, a5⟩ := rtx_abs env ((docCleanF doc).map (·.1)) blocks e3 hs' [] [] ⟨none, []⟩ 1 [] All2.nil rfl
  simp only [List.nil_append] at a2 a3
  obtain ⟨t1, t2, t3⟩ := rtr_tables env _ _ a2 a3
  have hpr : parseRecipe env (render (pre ++ docSpecF doc)) = ⟨some c, c.diags, none⟩ := by
    unfold parseRecipe
    simp only [hpe, harr, e1]
    exact h1
  have h0 : ({} : Col α) = stOfX env {} [] [] 1 none := by simp [stOfX, ingrsOf, cwsOf, timersOf]
  have hserv : c.servings = absDocServings env none ((docCleanF doc).map (·.1)) := by
    have hc : (parseEventsLoop env (render (pre ++ docSpecF doc)) (blocks.flatMap SBlock.events)
        (stOfX env {} [] [] 1 none)).output = some c := by
      have := h1
      unfold parseEvents at this
      rw [h0] at this
      rw [this]
    rw [bl17_loop_servings env _ blocks e2 {} ⟨rfl, rfl⟩ [] [] 1 c hc, bl17_abs_servings env _ _ e3]
  exact ⟨c, docSpans (docEntries blocks), hpr, by rw [h2, a1], by rw [h3, t1], by rw [h4, t2], by rw [h5, t3],
    by rw [h6, a4], h7, by simp [docSpans, a5], h8, h9, hserv⟩

/-- a block without the blank padding of a section / `>>` line (the recipe does not depend on it) -/
def DocItem.core : DocItem → DocItem
  | .sectionLine name _ => .sectionLine name {}
  | .metaLine k v _ => .metaLine k v {}
  | d => d

theorem bl17_absDocSecs_core : ∀ (items : List DocItem) (b : List SegX) (cur : Section) (n : Nat),
    absDocSecs b cur n (items.map DocItem.core) = absDocSecs b cur n items := by
  intro items
  induction items with
  | nil => intro b cur n; rfl
  | cons d r ih => intro b cur n; cases d <;> simp only [List.map_cons, DocItem.core, absDocSecs, ih]

theorem bl17_absDocSegs_core (items : List DocItem) : absDocSegs (items.map DocItem.core) = absDocSegs items := by
  induction items with
  | nil => rfl
  | cons d r ih => cases d <;> simp only [List.map_cons, DocItem.core, absDocSegs, ih]

theorem bl17_absDocMeta_core : ∀ (items : List DocItem) (m : List (Str × Str)),
    absDocMeta m (items.map DocItem.core) = absDocMeta m items := by
  intro items
  induction items with
  | nil => intro m; rfl
  | cons d r ih => intro m; cases d <;> simp only [List.map_cons, DocItem.core, absDocMeta, ih]

theorem bl17_absDocServings_core (env : Env) : ∀ (items : List DocItem) (sv : Option (List Nat)),
    absDocServings env sv (items.map DocItem.core) = absDocServings env sv items := by
  intro items
  induction items with
  | nil => intro sv; rfl
  | cons d r ih => intro sv; cases d <;> simp only [List.map_cons, DocItem.core, absDocServings, ih]

theorem bl17_isMeta_core (items : List DocItem) :
    ((items.map DocItem.core).filter DocItem.isMeta).length = (items.filter DocItem.isMeta).length := by
  induction items with
  | nil => rfl
  | cons d r ih => cases d <;> simp [List.filter_cons, DocItem.core, DocItem.isMeta, ih]

/-- **Filler inside component bodies / trailing line comments on single-line blocks: the same recipe.**
    A well-formed document with filler inside names, aliases, notes and units of its braces
    components / timers and with line comments at the end of section and `>>` lines, against a clean
    document with the same blocks up to the blank padding of its section / `>>` lines (any separators,
    any leading blank lines): the two recipes have EQUAL sections (steps, items, paragraphs),
    ingredient / cookware / timer tables, metadata map, inline quantities, front matter, servings, and
    diagnostics of the same kinds. -/
theorem bl17_docF_same (env : Env) (hsp : env.cs.uws ' ' = true) (pre' pre : List Tok) (docF : List (DocItemF × List Tok))
    (doc : List (DocItem × List Tok)) (hF : DocWFF α env pre' docF) (h : DocWF α env pre doc)
    (hclean : ((docCleanF docF).map (·.1)).map DocItem.core = (doc.map (·.1)).map DocItem.core) :
    ∃ c' c : Col α,
      parseRecipe env (render (pre' ++ docSpecF docF)) = ⟨some c', c'.diags, none⟩ ∧
      parseRecipe env (render (pre ++ docSpec doc)) = ⟨some c, c.diags, none⟩ ∧
      c'.sections = c.sections ∧ c'.ingredients.toList = c.ingredients.toList ∧
      c'.cookware.toList = c.cookware.toList ∧ c'.timers.toList = c.timers.toList ∧ c'.metaMap = c.metaMap ∧
      c'.inlineQ = c.inlineQ ∧ c'.frontMatter = c.frontMatter ∧ c'.servings = c.servings ∧
      c'.diags.toList.map (fun d => (d.sev, d.stage, d.kind, d.labels.length)) =
        c.diags.toList.map (fun d => (d.sev, d.stage, d.kind, d.labels.length)) := by
  obtain ⟨c', sp', p', s', i', w', t', m', d', n', q', f', v'⟩ := bl17_parseRecipe_docF (α := α) env hsp pre' docF hF
  obtain ⟨c, sp, p, s, i, w, t, m, d, n, q, f⟩ :=
    rtx_parseRecipe_doc (α := α) env pre doc h.hpre h.ok h.simple h.plain h.ext h.seps h.spelled h.noFront
  have v : c.servings = absDocServings env none (doc.map (·.1)) :=
    bl17_parseRecipe_doc_servings env pre doc h.hpre h.ok h.simple h.plain h.ext h.seps h.spelled h.noFront c (by rw [p])
  rw [← bl17_absDocSecs_core, hclean, bl17_absDocSecs_core] at s'
  rw [← bl17_absDocSegs_core, hclean, bl17_absDocSegs_core] at i' w' t'
  rw [← bl17_absDocMeta_core, hclean, bl17_absDocMeta_core] at m'
  rw [← bl17_isMeta_core, hclean, bl17_isMeta_core] at n'
  rw [← bl17_absDocServings_core, hclean, bl17_absDocServings_core] at v'
  refine ⟨c', c, p', p, by rw [s', s], by rw [i', i], by rw [w', w], by rw [t', t], by rw [m', m], by rw [q', q],
    by rw [f', f], by rw [v', v], ?_⟩
  have hl : sp'.length = sp.length := by rw [n', n]
  rw [d', d]
  unfold deprecation
  cases sp' with
  | nil =>
    cases sp with
    | nil => rfl
    | cons _ _ => simp at hl
  | cons a r =>
    cases sp with
    | nil => simp at hl
    | cons b r2 => simpa using hl

theorem bl17_core_simple {d d0 : DocItem} (h : d.core = d0.core) : d.simple = d0.simple := by
  cases d <;> cases d0 <;> simp only [DocItem.core] at h <;> first | rfl | (cases h; rfl) | cases h

theorem bl17_core_plain (env : Env) {d d0 : DocItem} (h : d.core = d0.core) (h0 : d0.plain env) : d.plain env := by
  cases d <;> cases d0 <;> simp only [DocItem.core] at h <;> first | trivial | (cases h; exact h0) | cases h

theorem bl17_core_extOK (env : Env) {d d0 : DocItem} (h : d.core = d0.core) (h0 : d0.extOK α env) : d.extOK α env := by
  cases d <;> cases d0 <;> simp only [DocItem.core] at h <;> first | trivial | (cases h; exact h0) | cases h

theorem bl17_core_step {segs : List SegX} {d0 : DocItem} (h : (DocItem.step segs).core = d0.core) : d0 = .step segs := by
  cases d0 <;> simp only [DocItem.core] at h <;> first | (cases h; rfl) | cases h

/-- the well-formedness of a document with filler from that of the clean document and the token-level
    conditions on the spelling with filler -/
theorem DocWFF.of_clean (env : Env) (pre' pre : List Tok) (docF : List (DocItemF × List Tok)) (doc : List (DocItem × List Tok))
    (h : DocWF α env pre doc)
    (hclean : ((docCleanF docF).map (·.1)).map DocItem.core = (doc.map (·.1)).map DocItem.core)
    (hpre' : blankLinesOK pre' = true) (hok : ∀ d ∈ docF, d.1.OK env.cs env.ext)
    (hseps : sepsOK (docF.map (·.2)) = true) (hw : WellSpelled env.cs (pre' ++ docSpecF docF))
    (hfm : parseFrontmatter env.cs (render (pre' ++ docSpecF docF)) = none) : DocWFF α env pre' docF := by
  have hmem : ∀ d ∈ docCleanF docF, ∃ d0 ∈ doc, d.1.core = d0.1.core := by
    intro d hd
    have : d.1.core ∈ ((docCleanF docF).map (·.1)).map DocItem.core :=
      List.mem_map_of_mem (List.mem_map_of_mem hd)
    rw [hclean] at this
    obtain ⟨x, hx, e⟩ := List.mem_map.1 this
    obtain ⟨d0, hd0, e0⟩ := List.mem_map.1 hx
    exact ⟨d0, hd0, by rw [e0, e]⟩
  refine ⟨hpre', hok, ?_, ?_, ?_, ?_, hseps, hw, hfm⟩
  · intro d hd
    obtain ⟨dF, hdF, rfl⟩ := List.mem_map.1 hd
    have hO := hok dF hdF
    cases hdd : dF.1 with
    | stepF segs =>
      obtain ⟨d0, hd0, e⟩ := hmem _ hd
      simp only [hdd, DocItemF.clean] at e ⊢
      have := bl17_core_step e
      rw [← this]; exact h.ok d0 hd0
    | other d' => rw [hdd] at hO; exact hO
    | sectionLC name p lc => rw [hdd] at hO; exact hO.1
    | metaLC k v p lc => rw [hdd] at hO; exact hO.1
  · intro d hd
    obtain ⟨d0, hd0, e⟩ := hmem d hd
    rw [bl17_core_simple e]; exact h.simple d0 hd0
  · intro d hd
    obtain ⟨d0, hd0, e⟩ := hmem d hd
    exact bl17_core_plain env e (h.plain d0 hd0)
  · intro d hd
    obtain ⟨d0, hd0, e⟩ := hmem d hd
    exact bl17_core_extOK env e (h.ext d0 hd0)

end Cook
