import CookModel.Lemmas.RecipeSoft
import CookModel.Lemmas.ClosingStream
import CookModel.Lemmas.FragAll
import CookModel.Lemmas.ParserBlocks
import CookModel.Lemmas.ExtLawsEvents
/-
  C05, soft line breaks lifted to the event stream (wave 8).

  Only two sites push a `Text` event: `stepOne` and `textBlockLoop`, both as `bpText start (slice of s.toks)`.
  Queue invariant `AllQ SoftEv`: every `Text` event of the queue has only line breaks (LF / CR LF) as soft
  fragments.  It is carried through the block parsers with the `Keeps` layer of `Lemmas/ClosingKeeps.lean`
  (for everything that pushes no text) plus "the token list of the state is unchanged" (`IndGA`), under the
  hypothesis that the newline tokens of the block are spelled LF or CR LF (`NlSpelled`), which the lexer
  guarantees.
-/
set_option linter.unusedSectionVars false
set_option linter.unusedVariables false
set_option linter.unusedSimpArgs false
namespace Cook

variable {α : Type} [Arith α]

/-- every soft fragment of the text holds only the characters of a line break -/
def SoftLB (t : Text) : Prop := ∀ f ∈ t.frags, f.soft = true → f.text = ['\n'] ∨ f.text = ['\r', '\n']

/-- every newline token of the list is spelled LF or CR LF -/
def NlSpelled (ts : List Tok) : Prop :=
  ∀ tok ∈ ts, tok.kind = .newline → tok.text = ['\n'] ∨ tok.text = ['\r', '\n']

/-- a `Text` event has only line breaks as soft fragments -/
def SoftEv : Ev α → Prop
  | .text t => SoftLB t
  | _ => True

instance : DiagQ (SoftEv (α := α)) := ⟨fun _ => trivial, fun _ => trivial⟩

theorem rkse_lexed (cs : CharSpec) (o : Nat) (s : List Char) : NlSpelled (lexFrom cs o s) := by
  intro tok hm hk
  obtain ⟨nx, hsp⟩ := lexFrom_kind_text cs o s tok hm
  rw [hk] at hsp
  unfold spellOK at hsp
  cases htx : tok.text with
  | nil => rw [htx] at hsp; simp at hsp
  | cons c r =>
    rw [htx] at hsp
    simp only [Bool.or_eq_true, Bool.and_eq_true, beq_iff_eq, List.isEmpty_iff] at hsp
    rcases hsp with ⟨rfl, rfl⟩ | ⟨rfl, rfl⟩
    · exact Or.inl rfl
    · exact Or.inr rfl

theorem NlSpelled.sub {ts ts' : List Tok} (h : NlSpelled ts) (hs : ∀ x ∈ ts', x ∈ ts) : NlSpelled ts' :=
  fun tok hm hk => h tok (hs tok hm) hk

theorem rkse_buildText {ts sl : List Tok} (h : NlSpelled ts) (hs : ∀ x ∈ sl, x ∈ ts) (off : Nat) :
    SoftLB (buildText off sl) := by
  intro f hf hsoft
  obtain ⟨tok, hm, hk, ht, -⟩ := rks_buildText off sl f hf hsoft
  rw [ht]
  exact h tok (hs tok hm) hk

theorem rkse_slice_sub (ts : List Tok) (a b : Nat) : ∀ x ∈ (ts.take a).drop b, x ∈ ts :=
  fun x hx => List.mem_of_mem_take (List.mem_of_mem_drop hx)

local notation "ISoft" => AllQ (SoftEv (α := α))

/-- `m`, from a state whose tokens have well-spelled newlines and whose queue satisfies `I`, leaves such a
    state and returns a result satisfying `R` -/
def KeepsN {β : Type} (m : P α β) (R : β → Prop) : Prop :=
  ∀ s : BP α, NlSpelled s.toks → ISoft s.evs → NlSpelled (m s).2.toks ∧ ISoft (m s).2.evs ∧ R (m s).1

namespace KeepsN
variable {β γ : Type} {G : List Nat}

theorem of {m : P α β} {R : β → Prop} (hk : Keeps ISoft m R) (hi : IndGA G m) : KeepsN m R := by
  intro s hn hI
  refine ⟨?_, (hk.run s hI).1, (hk.run s hI).2⟩
  rw [(hi.all s).toks]; exact hn

theorem ofA {m : P α β} {R : β → Prop} (hk : Keeps ISoft m R) (hi : IndA m) : KeepsN m R :=
  of hk (IndGA.of_indA (G := []) hi)

theorem bind {m : P α β} {k : β → P α γ} {R : β → Prop} {R' : γ → Prop}
    (hm : KeepsN m R) (hk : ∀ a, R a → KeepsN (k a) R') : KeepsN (m >>= k) R' := by
  intro s hn hI
  obtain ⟨h1, h2, h3⟩ := hm s hn hI
  exact hk _ h3 _ h1 h2

theorem get_bind {k : BP α → P α γ} {R' : γ → Prop}
    (h : ∀ s0 : BP α, NlSpelled s0.toks → KeepsN (k s0) R') : KeepsN (get >>= k) R' :=
  fun s hn hI => h s hn s hn hI

theorem pure {a : β} {R : β → Prop} (h : R a) : KeepsN (Pure.pure a : P α β) R :=
  fun s hn hI => ⟨hn, hI, h⟩

theorem pushEv {ev : Ev α} (h : SoftEv ev) : KeepsN (Cook.pushEv ev) (fun _ => True) :=
  fun s hn hI => ⟨hn, hI.push h, trivial⟩

theorem weaken {m : P α β} {R : β → Prop} (h : KeepsN m R) : KeepsN m (fun _ => True) :=
  fun s hn hI => ⟨(h s hn hI).1, (h s hn hI).2.1, trivial⟩

end KeepsN

/-- `bpText` over tokens of the state: the text has only line breaks as soft fragments -/
theorem rkse_bpText {ts sl : List Tok} (h : NlSpelled ts) (hs : ∀ x ∈ sl, x ∈ ts) (off : Nat) :
    KeepsN (bpText (α := α) off sl) SoftLB := by
  intro s hn hI
  have h1 := (KeepsN.ofA (bpText_keeps (α := α) (I := ISoft) off sl) (bpText_indA off sl)) s hn hI
  refine ⟨h1.1, h1.2.1, ?_⟩
  rw [bpText_fst]
  exact rkse_buildText h hs off

/-! ### the three components return no text -/

/-- the result, if any, is not a `Text` event with a bad soft fragment -/
def RSoft (r : Option (Ev α)) : Prop := ∀ ev, r = some ev → SoftEv ev

theorem rkse_ingredientP : Keeps ISoft (ingredientP (α := α)) RSoft := by
  unfold ingredientP
  keeps
  all_goals (refine Keeps.pure ?_; intro ev h; first | (cases h; done) | (cases h; exact True.intro))

theorem rkse_cookwareP : Keeps ISoft (cookwareP (α := α)) RSoft := by
  unfold cookwareP
  keeps
  all_goals (refine Keeps.pure ?_; intro ev h; first | (cases h; done) | (cases h; exact True.intro))

theorem rkse_timerP : Keeps ISoft (timerP (α := α)) RSoft := by
  unfold timerP
  keeps
  all_goals (refine Keeps.pure ?_; intro ev h; first | (cases h; done) | (cases h; exact True.intro))

/-- the extension flags read by the block parsers -/
def rkseFlags : List Nat := Gen.EXT_MODES :: fragFlags

theorem rkse_f1 : Gen.EXT_COMPONENT_MODIFIERS ∈ rkseFlags := by simp [rkseFlags, fragFlags]
theorem rkse_f2 : Gen.EXT_INTERMEDIATE_PREPARATIONS ∈ rkseFlags := by simp [rkseFlags, fragFlags]
theorem rkse_f3 : Gen.EXT_COMPONENT_ALIAS ∈ rkseFlags := by simp [rkseFlags, fragFlags]
theorem rkse_f4 : Gen.EXT_RANGE_VALUES ∈ rkseFlags := by simp [rkseFlags, fragFlags]
theorem rkse_f5 : Gen.EXT_ADVANCED_UNITS ∈ rkseFlags := by simp [rkseFlags, fragFlags]
theorem rkse_f6 : Gen.EXT_TIMER_REQUIRES_TIME ∈ rkseFlags := by simp [rkseFlags, fragFlags]
theorem rkse_f7 : Gen.EXT_MODES ∈ rkseFlags := by simp [rkseFlags]

theorem rkse_ingredientP_G : IndGA rkseFlags (ingredientP (α := α)) :=
  ingredientP_indGA rkse_f1 rkse_f2 rkse_f3 rkse_f4 rkse_f5
theorem rkse_cookwareP_G : IndGA rkseFlags (cookwareP (α := α)) :=
  cookwareP_indGA rkse_f1 rkse_f2 rkse_f3 rkse_f4 rkse_f5
theorem rkse_timerP_G : IndGA rkseFlags (timerP (α := α)) :=
  timerP_indGA rkse_f1 rkse_f2 rkse_f3 rkse_f4 rkse_f5 rkse_f6

/-! ### steps -/

theorem rkse_stepOne : KeepsN (stepOne (α := α)) (fun _ => True) := by
  unfold stepOne
  refine KeepsN.bind (R := RSoft) ?_ ?_
  · refine KeepsN.bind (KeepsN.ofA (peekK_keeps (I := ISoft)) peekK_indA) (fun k _ => ?_)
    split
    · exact KeepsN.of (Keeps.withRecover rkse_ingredientP) (IndGA.withRecover rkse_ingredientP_G)
    · exact KeepsN.of (Keeps.withRecover rkse_cookwareP) (IndGA.withRecover rkse_cookwareP_G)
    · exact KeepsN.of (Keeps.withRecover rkse_timerP) (IndGA.withRecover rkse_timerP_G)
    · exact KeepsN.pure (fun ev h => by cases h)
  · intro comp hc
    split
    · rename_i ev
      exact KeepsN.pushEv (hc ev rfl)
    · refine KeepsN.bind (KeepsN.ofA (currentOffset_keeps (I := ISoft)) currentOffset_indA) (fun start _ => ?_)
      refine KeepsN.bind (KeepsN.ofA (Keeps.getCur (I := ISoft)) getCur_indA) (fun c0 _ => ?_)
      refine KeepsN.bind (KeepsN.ofA (bumpAny_keeps (I := ISoft)) bumpAny_indA) (fun _ _ => ?_)
      refine KeepsN.bind (KeepsN.ofA (consumeWhile_keeps (I := ISoft) _) (consumeWhile_indA _)) (fun _ _ => ?_)
      refine KeepsN.get_bind (fun s0 hn0 => ?_)
      dsimp only
      refine KeepsN.bind (rkse_bpText hn0 (rkse_slice_sub _ _ _) _) (fun text ht => ?_)
      split
      · exact KeepsN.pushEv ht
      · exact KeepsN.pure trivial

theorem rkse_stepLoop (fuel : Nat) : KeepsN (stepLoop (α := α) fuel) (fun _ => True) := by
  induction fuel with
  | zero =>
    unfold stepLoop
    refine KeepsN.bind (KeepsN.ofA (restToks_keeps (I := ISoft)) restToks_indA) (fun r _ => ?_)
    split
    · exact KeepsN.ofA (Keeps.panicWith _) (panicWith_indA _)
    · exact KeepsN.pure trivial
  | succ fuel ih =>
    unfold stepLoop
    refine KeepsN.bind (KeepsN.ofA (restToks_keeps (I := ISoft)) restToks_indA) (fun r _ => ?_)
    split
    · exact KeepsN.pure trivial
    · exact KeepsN.bind rkse_stepOne (fun _ _ => ih)

theorem rkse_parseStep : KeepsN (parseStep (α := α)) (fun _ => True) := by
  unfold parseStep
  refine KeepsN.bind (KeepsN.pushEv trivial) (fun _ _ => ?_)
  refine KeepsN.bind (KeepsN.ofA (restToks_keeps (I := ISoft)) restToks_indA) (fun r _ => ?_)
  refine KeepsN.bind (rkse_stepLoop _) (fun _ _ => ?_)
  exact KeepsN.pushEv trivial

/-! ### text blocks -/

theorem rkse_textBlockLoop (fuel : Nat) : KeepsN (textBlockLoop (α := α) fuel) (fun _ => True) := by
  induction fuel with
  | zero =>
    unfold textBlockLoop
    refine KeepsN.bind (KeepsN.ofA (restToks_keeps (I := ISoft)) restToks_indA) (fun r _ => ?_)
    split
    · exact KeepsN.ofA (Keeps.panicWith _) (panicWith_indA _)
    · exact KeepsN.pure trivial
  | succ fuel ih =>
    unfold textBlockLoop
    refine KeepsN.bind (KeepsN.ofA (restToks_keeps (I := ISoft)) restToks_indA) (fun r _ => ?_)
    split
    · exact KeepsN.pure trivial
    · refine KeepsN.bind (KeepsN.ofA (consumeK_keeps (I := ISoft) _) (consumeK_indA _)) (fun r _ => ?_)
      dsimp only
      have rest : KeepsN (α := α) (do
          let start ← currentOffset
          let c0 ← getCur
          let _ ← consumeWhile (fun k => k != .newline)
          let _ ← consumeK .newline
          let s ← get
          let toks := (s.toks.take s.cur).drop c0
          let text ← bpText start toks
          if !text.isTextEmpty s.cs then pushEv (.text text)
          textBlockLoop fuel) (fun _ => True) := by
        refine KeepsN.bind (KeepsN.ofA (currentOffset_keeps (I := ISoft)) currentOffset_indA) (fun start _ => ?_)
        refine KeepsN.bind (KeepsN.ofA (Keeps.getCur (I := ISoft)) getCur_indA) (fun c0 _ => ?_)
        refine KeepsN.bind (KeepsN.ofA (consumeWhile_keeps (I := ISoft) _) (consumeWhile_indA _)) (fun _ _ => ?_)
        refine KeepsN.bind (KeepsN.ofA (consumeK_keeps (I := ISoft) _) (consumeK_indA _)) (fun _ _ => ?_)
        refine KeepsN.get_bind (fun s0 hn0 => ?_)
        dsimp only
        refine KeepsN.bind (rkse_bpText hn0 (rkse_slice_sub _ _ _) _) (fun text ht => ?_)
        split
        · exact KeepsN.bind (KeepsN.pushEv ht) (fun _ _ => ih)
        · exact ih
      split
      · exact KeepsN.bind (KeepsN.ofA (consumeK_keeps (I := ISoft) _) (consumeK_indA _)) (fun _ _ => rest)
      · exact rest

theorem rkse_parseTextBlock : KeepsN (parseTextBlock (α := α)) (fun _ => True) := by
  unfold parseTextBlock
  refine KeepsN.bind (KeepsN.pushEv trivial) (fun _ _ => ?_)
  refine KeepsN.bind (KeepsN.ofA (restToks_keeps (I := ISoft)) restToks_indA) (fun r _ => ?_)
  refine KeepsN.bind (rkse_textBlockLoop _) (fun _ _ => ?_)
  exact KeepsN.pushEv trivial

/-! ### blocks -/

theorem rkse_parseMultilineBlock : KeepsN (parseMultilineBlock (α := α)) (fun _ => True) := by
  unfold parseMultilineBlock
  refine KeepsN.bind (KeepsN.ofA (allToks_keeps (I := ISoft)) allToks_indA) (fun all _ => ?_)
  split
  · exact KeepsN.bind (KeepsN.ofA (consumeRest_keeps (I := ISoft)) consumeRest_indA) (fun _ _ => KeepsN.pure trivial)
  · refine KeepsN.bind (KeepsN.ofA (peekK_keeps (I := ISoft)) peekK_indA) (fun k _ => ?_)
    split
    · exact rkse_parseTextBlock
    · exact rkse_parseStep

theorem rkse_blockHead (oldStyle : Bool) : KeepsN (blockHead (α := α) oldStyle) RSoft := by
  refine KeepsN.of (G := rkseFlags) ?_ ?_
  · have h1 := (closing_sectionP_keeps (α := α) (I := ISoft)).mono (R' := RSoft)
      (fun r hr ev he => by obtain ⟨n, rfl⟩ := hr ev he; trivial)
    have h2 := closing_metadataEntry_keeps (α := α) (I := ISoft)
    unfold blockHead
    keeps
    all_goals (refine Keeps.pure ?_; intro ev he; first | (cases he; done) | (cases he; trivial))
  · have h7 := rkse_f7
    unfold blockHead
    indg_auto

theorem rkse_parseBlock (oldStyle : Bool) : KeepsN (parseBlock (α := α) oldStyle) (fun _ => True) := by
  rw [parseBlock_eq]
  refine KeepsN.bind (rkse_blockHead oldStyle) (fun r hr => ?_)
  split
  · rename_i ev
    exact KeepsN.pushEv (hr ev rfl)
  · exact rkse_parseMultilineBlock

/-- **one block**: when the newline tokens of the block are spelled LF / CR LF, the queue invariant is kept -/
theorem rkse_runBlock (cs : CharSpec) (ext : Ext) (oldStyle : Bool) (b : List Tok) (evs : Array (Ev α))
    (p : Option String) (hn : NlSpelled b) (hI : ISoft evs) : ISoft (runBlock cs ext oldStyle b evs p).1 := by
  rw [runBlock_eq]
  have key : KeepsN (runBlockBody (α := α) oldStyle b) (fun _ => True) := by
    unfold runBlockBody
    refine KeepsN.bind (R := fun _ => True) ?_ (fun _ _ => ?_)
    · split
      · exact KeepsN.ofA (Keeps.panicWith _) (panicWith_indA _)
      · exact KeepsN.pure trivial
    refine KeepsN.bind (rkse_parseBlock oldStyle) (fun _ _ => ?_)
    refine KeepsN.get_bind (fun s0 _ => ?_)
    split
    · exact KeepsN.ofA (Keeps.panicWith _) (panicWith_indA _)
    · exact KeepsN.pure trivial
  exact (key ⟨b, 0, ext, cs, evs, p⟩ hn hI).2.1

theorem rkse_foldl_runBlock (cs : CharSpec) (ext : Ext) (oldStyle : Bool) (blocks : List (List Tok))
    (hb : ∀ b ∈ blocks, NlSpelled b) (acc : Array (Ev α) × Option String) (h : ISoft acc.1) :
    ISoft (blocks.foldl (fun acc b => runBlock (α := α) cs ext oldStyle b acc.1 acc.2) acc).1 := by
  induction blocks generalizing acc with
  | nil => exact h
  | cons b bs ih =>
    rw [List.foldl_cons]
    exact ih (fun b' hb' => hb b' (List.mem_cons_of_mem _ hb')) _
      (rkse_runBlock cs ext oldStyle b acc.1 acc.2 (hb b List.mem_cons_self) h)

/-- **every `Text` event of the pull parser has only line breaks (LF or CR LF) as soft fragments** -/
theorem rkse_pullEvents (cs : CharSpec) (ext : Ext) (input : List Char) :
    ∀ ev ∈ (pullEvents (α := α) cs ext input).1.toList, SoftEv ev := by
  unfold pullEvents
  cases hp : parseFrontmatter cs input with
  | none =>
    simp only
    apply rkse_foldl_runBlock
    · intro b hb
      exact (rkse_lexed cs 0 input).sub (allBlocks_mem _ _ b hb)
    · intro ev hev
      simp at hev
  | some fm =>
    simp only
    apply rkse_foldl_runBlock
    · intro b hb
      exact (rkse_lexed cs _ _).sub (allBlocks_mem _ _ b hb)
    · intro ev hev
      simp only [List.mem_singleton] at hev
      subst hev; trivial

theorem rkse_pullEvents_text (cs : CharSpec) (ext : Ext) (input : List Char) (t : Text)
    (ht : Ev.text t ∈ (pullEvents (α := α) cs ext input).1.toList) : SoftLB t :=
  rkse_pullEvents cs ext input _ ht

end Cook
