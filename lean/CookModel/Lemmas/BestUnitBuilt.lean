import CookModel.Lemmas.BestUnit
import CookModel.Props.C16
/-
  The invariant of the best lists (`Converter.BestOK`, Lemmas/BestUnit.lean) for EVERY converter the builder makes
  (`Bld.BuiltAs`): sortedness is `C16_best_sorted`, the thresholds are `C16_best_thresholds`, carried through the
  translation `convOfBuilt`.  Prefix `bub_`.
-/
namespace Cook
open Bld Arith

theorem bub_entries_mem (units : List (Bld.Unit Rat)) (l : List (Rat × Nat)) :
    ∀ x ∈ (bestOfBuilt units l).entries, ∃ e ∈ l, ∃ u, units[e.2]? = some u ∧ x = (e.1, unitOfBuilt e.2 u) := by
  intro x hx
  simp only [bestOfBuilt, List.mem_filterMap, Option.map_eq_some_iff] at hx
  obtain ⟨e, he, u, hu, rfl⟩ := hx
  exact ⟨e, he, u, hu, rfl⟩

theorem bub_entries_sorted (units : List (Bld.Unit Rat)) (l : List (Rat × Nat))
    (h : l.Pairwise (fun a b => ∀ ua ub, units[a.2]? = some ua → units[b.2]? = some ub → ua.ratio ≤ ub.ratio)) :
    (bestOfBuilt units l).entries.Pairwise (fun a b => a.2.ratio ≤ b.2.ratio) := by
  unfold bestOfBuilt
  refine List.Pairwise.filterMap _ ?_ h
  intro a a' hR b hb b' hb'
  simp only [Option.map_eq_some_iff] at hb hb'
  obtain ⟨u, hu, rfl⟩ := hb
  obtain ⟨u', hu', rfl⟩ := hb'
  exact hR u u' hu hu'

theorem bub_entries_cons (units : List (Bld.Unit Rat)) (t : Rat) (base : Nat) (ts : List (Rat × Nat))
    (ub : Bld.Unit Rat) (hub : units[base]? = some ub) :
    (bestOfBuilt units ((t, base) :: ts)).entries = (t, unitOfBuilt base ub) :: (bestOfBuilt units ts).entries := by
  simp [bestOfBuilt, hub]

/-- every best list of a built converter is sorted by ratio and carries the thresholds `BestConversions::new` computes -/
theorem bub_built_bestOK {files : List (Bld.UnitsFile Rat)} {c : Converter Rat} (h : Bld.BuiltAs files c) :
    c.BestOK := by
  obtain ⟨conv, hb, _, rfl⟩ := h
  intro q s
  obtain ⟨st, l, hst, hall, _, heq, _⟩ := bridge_best_entries (bridge_builtOK files conv hb) q s
  have hl : l ∈ st.lists := by
    cases st with
    | unified l0 => exact hall (fun x => x ∈ [l0]) (by simp [BestStore.AllLists])
    | bySystem m i => exact hall (fun x => x ∈ [m, i]) (by simp [BestStore.AllLists])
  have hsorted := C16_best_sorted files conv hb (pqTo q) st l hst hl
  obtain ⟨base, ub, ts, hl', hub, hts⟩ := C16_best_thresholds files conv hb (pqTo q) st l hst hl
  rw [heq]
  refine ⟨bub_entries_sorted _ _ hsorted, ?_⟩
  intro b0 rest he
  rw [hl', bub_entries_cons _ _ _ _ ub hub] at he
  simp only [List.cons.injEq] at he
  obtain ⟨rfl, rfl⟩ := he
  refine ⟨by simp, ?_⟩
  intro x hx
  obtain ⟨e, he, u, hu, rfl⟩ := bub_entries_mem _ _ x hx
  obtain ⟨u', hu', hconv⟩ := hts e he
  rw [hu] at hu'; cases hu'
  unfold convertF at hconv
  split at hconv
  · cases hconv
  · simp only [Except.ok.injEq] at hconv
    rw [← hconv, convertF64Raw_rat]
    simp only [unitOfBuilt]
    rfl

end Cook
