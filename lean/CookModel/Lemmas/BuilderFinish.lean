import CookModel.Lemmas.BuilderExtend
import CookModel.Lemmas.ArithRat
/- C16 — the second half of `finish`: best lists, fractions, packaging; `build` never panics. -/
namespace Cook.Bld
open Cook

/-! ## Best lists -/

/-- `id` is a unit of quantity `q` with ratio `r` -/
def HasRatio {α : Type} (c : Core α) (q : PQ) (e : α × Nat) : Prop :=
  ∃ u, c.units[e.2]? = some u ∧ u.unit.quantity = q ∧ u.unit.ratio = e.1

theorem resolveBest_good {α : Type} (c : Core α) (hinv : Inv c) (q : PQ) (ks : List Key) :
    Good (fun ids => ks.map (idxGet c.index) = ids.map some ∧
        ∀ id, id ∈ ids → ∃ u, c.units[id]? = some u ∧ u.unit.quantity = q) (resolveBest c q ks) := by
  induction ks with
  | nil => simp [resolveBest, Good]
  | cons k ks ih =>
    unfold resolveBest
    split
    · simp [Good, Err.isPanic]
    · rename_i id hid
      obtain ⟨_, u, hu, _⟩ := hinv.sound _ _ hid
      rw [hu]; simp only
      split
      · simp [Good, Err.isPanic]
      · rename_i hq
        split
        · rename_i e he; rw [he] at ih; exact ih
        · rename_i ids hids; rw [hids] at ih
          refine ⟨by simp [hid, ih.1], ?_⟩
          intro j hj
          rcases List.mem_cons.mp hj with rfl | hj
          · exact ⟨u, hu, by simpa using hq⟩
          · exact ih.2 j hj

theorem withRatios_ok {α : Type} (c : Core α) (q : PQ) (ids : List Nat)
    (h : ∀ id, id ∈ ids → ∃ u, c.units[id]? = some u ∧ u.unit.quantity = q) :
    ∃ rs, withRatios c ids = .ok rs ∧ rs.map (·.2) = ids ∧ ∀ e, e ∈ rs → HasRatio c q e := by
  induction ids with
  | nil => exact ⟨[], rfl, rfl, by simp⟩
  | cons id ids ih =>
    obtain ⟨u, hu, hq⟩ := h id (by simp)
    obtain ⟨rs, h1, h2, h3⟩ := ih (fun j hj => h j (by simp [hj]))
    refine ⟨(u.unit.ratio, id) :: rs, ?_, by simp [h2], ?_⟩
    · unfold withRatios; rw [hu]; simp only [h1]
    · intro e he
      rcases List.mem_cons.mp he with rfl | he
      · exact ⟨u, hu, hq, rfl⟩
      · exact h3 e he

theorem insertByRatio_perm {α : Type} [Arith α] (x : α × Nat) (l : List (α × Nat)) : (insertByRatio x l).Perm (x :: l) := by
  induction l with
  | nil => simp [insertByRatio]
  | cons y ys ih =>
    unfold insertByRatio
    split
    · exact (List.Perm.cons y ih).trans (List.Perm.swap x y ys)
    · exact List.Perm.refl _

theorem sortByRatio_perm {α : Type} [Arith α] (l : List (α × Nat)) : (sortByRatio l).Perm l := by
  induction l with
  | nil => simp [sortByRatio]
  | cons x xs ih =>
    unfold sortByRatio
    exact (insertByRatio_perm x _).trans (List.Perm.cons x ih)

theorem thresholds_ok {α : Type} [Arith α] (c : Core α) (q : PQ) (base : UnitB α) (hb : base.unit.quantity = q) (ids : List Nat)
    (h : ∀ id, id ∈ ids → ∃ u, c.units[id]? = some u ∧ u.unit.quantity = q) :
    ∃ ts, thresholds c base ids = .ok ts ∧ ts.map (·.2) = ids ∧
      ∀ e, e ∈ ts → ∃ u, c.units[e.2]? = some u ∧ convertF (Arith.ofNat 1) u.unit base.unit = .ok e.1 := by
  induction ids with
  | nil => exact ⟨[], rfl, rfl, by simp⟩
  | cons id ids ih =>
    obtain ⟨u, hu, hq⟩ := h id (by simp)
    obtain ⟨ts, h1, h2, h3⟩ := ih (fun j hj => h j (by simp [hj]))
    have hconv : ∃ v, convertF (Arith.ofNat 1 : α) u.unit base.unit = .ok v := by
      unfold convertF; simp [hq, hb]
    obtain ⟨v, hv⟩ := hconv
    refine ⟨(v, id) :: ts, ?_, by simp [h2], ?_⟩
    · unfold thresholds; rw [hu]; simp only [hv, h1]
    · intro e he
      rcases List.mem_cons.mp he with rfl | he
      · exact ⟨u, hu, hv⟩
      · exact h3 e he

/-- what `BestConversions::new` returns for the names `names` of quantity `q` -/
structure BestSpec {α : Type} [Arith α] (c : Core α) (q : PQ) (names : List Key) (l : List (α × Nat)) : Prop where
  /-- the ids are the named units, stably sorted by ratio; all are units of `q` -/
  ids : ∃ rs : List (α × Nat), names.map (idxGet c.index) = rs.map (fun e => some e.2)
        ∧ (∀ e, e ∈ rs → HasRatio c q e) ∧ l.map (·.2) = (sortByRatio rs).map (·.2)
  /-- the first entry is the base with threshold 1; the others carry `convert_f64(1, unit, base)` -/
  shape : ∃ base ub ts, l = (Arith.ofNat 1, base) :: ts ∧ c.units[base]? = some ub ∧
        ∀ e, e ∈ ts → ∃ u, c.units[e.2]? = some u ∧ convertF (Arith.ofNat 1) u.unit ub.unit = .ok e.1

theorem bestConversions_good {α : Type} [Arith α] (c : Core α) (hinv : Inv c) (q : PQ) (names : List Key) (hne : names ≠ []) :
    Good (BestSpec c q names) (bestConversions c q names) := by
  unfold bestConversions
  have h1 := resolveBest_good c hinv q names
  split
  · rename_i e he; rw [he] at h1; exact h1
  · rename_i ids hids; rw [hids] at h1
    obtain ⟨hf, hv⟩ := h1
    obtain ⟨rs, hrs, hmap, hrat⟩ := withRatios_ok c q ids hv
    rw [hrs]; simp only
    have hperm := sortByRatio_perm rs
    have hvalid : ∀ id, id ∈ (sortByRatio rs).map (·.2) → ∃ u, c.units[id]? = some u ∧ u.unit.quantity = q := by
      intro id hid
      obtain ⟨e, he, rfl⟩ := List.mem_map.mp hid
      obtain ⟨u, hu, hq, _⟩ := hrat e (hperm.mem_iff.mp he)
      exact ⟨u, hu, hq⟩
    split
    · rename_i hnil
      exfalso
      have hl : ((sortByRatio rs).map (·.2)).length = names.length := by
        have := congrArg List.length hf
        simp only [List.length_map] at this
        rw [List.length_map, hperm.length_eq, ← List.length_map (f := (·.2)), hmap]; exact this.symm
      rw [hnil] at hl
      cases names with
      | nil => exact hne rfl
      | cons _ _ => simp at hl
    · rename_i baseId rest hsplit
      obtain ⟨ub, hub, hubq⟩ := hvalid baseId (by rw [hsplit]; simp)
      rw [hub]; simp only
      obtain ⟨ts, hts, htsmap, htsv⟩ := thresholds_ok c q ub hubq rest (fun j hj => hvalid j (by rw [hsplit]; simp [hj]))
      rw [hts]
      refine ⟨⟨rs, by rw [hf, ← hmap, List.map_map]; rfl, hrat, ?_⟩, ⟨baseId, ub, ts, rfl, hub, htsv⟩⟩
      simp [htsmap, hsplit]

/-- the lists of a `BestStore` with the names they were built from -/
def StoreSpec {α : Type} [Arith α] (c : Core α) (q : PQ) : BestDecl → BestStore α → Prop
  | .unified names, .unified l => BestSpec c q names l
  | .bySystem mn im, .bySystem lm li => BestSpec c q mn lm ∧ BestSpec c q im li
  | _, _ => False

theorem bestStore_good {α : Type} [Arith α] (c : Core α) (hinv : Inv c) (q : PQ) (bd : BestDecl) (hne : bestDeclEmpty bd = false) :
    Good (StoreSpec c q bd) (bestStore c q bd) := by
  unfold bestStore
  cases bd with
  | unified names =>
    simp only
    have h1 := bestConversions_good c hinv q names (by simpa [bestDeclEmpty] using hne)
    split
    · rename_i e he; rw [he] at h1; exact h1
    · rename_i l hl; rw [hl] at h1; exact h1
  | bySystem m i =>
    simp only
    simp only [bestDeclEmpty, Bool.or_eq_false_iff, List.isEmpty_eq_false_iff] at hne
    have h1 := bestConversions_good c hinv q m hne.1
    split
    · rename_i e he; rw [he] at h1; exact h1
    · rename_i lm hlm; rw [hlm] at h1
      have h2 := bestConversions_good c hinv q i hne.2
      split
      · rename_i e he; rw [he] at h2; exact h2
      · rename_i li hli; rw [hli] at h2; exact ⟨h1, h2⟩

theorem bestAll_good {α : Type} [Arith α] (c : Core α) (hinv : Inv c) (best : PQ → Option BestDecl)
    (hb : ∀ q bd, best q = some bd → bestDeclEmpty bd = false) (qs : List PQ) :
    Good (fun l => l.map (·.1) = qs ∧ ∀ e, e ∈ l → ∃ bd, best e.1 = some bd ∧ StoreSpec c e.1 bd e.2) (bestAll c best qs) := by
  induction qs with
  | nil => simp [bestAll, Good]
  | cons q qs ih =>
    unfold bestAll
    split
    · simp [Good, Err.isPanic]
    · rename_i bd hbd
      have h1 := bestStore_good c hinv q bd (hb q bd hbd)
      split
      · rename_i e he; rw [he] at h1; exact h1
      · rename_i s hs; rw [hs] at h1
        split
        · rename_i e he; rw [he] at ih; exact ih
        · rename_i rest hrest; rw [hrest] at ih
          refine ⟨by simp [ih.1], ?_⟩
          intro e he
          rcases List.mem_cons.mp he with rfl | he
          · exact ⟨bd, hbd, h1⟩
          · exact ih.2 e he

/-! ## Fractions -/

theorem unitLayer_good {α : Type} [Arith α] (c : Core α) (hinv : Inv c) (inh : Unit α → Option (FracH α))
    (l : List (Key × FracW α)) (m : List (Nat × FracCfg α)) : Good (fun _ => True) (unitLayer c inh l m) := by
  induction l generalizing m with
  | nil => simp [unitLayer, Good]
  | cons kw rest ih =>
    unfold unitLayer
    split
    · simp [Good, Err.isPanic]
    · rename_i id hid
      obtain ⟨_, u, hu, _⟩ := hinv.sound _ _ hid
      rw [hu]; exact ih _

theorem unitLayers_good {α : Type} [Arith α] (c : Core α) (hinv : Inv c) (inh : Unit α → Option (FracH α))
    (fs : List (FractionsDecl α)) (m : List (Nat × FracCfg α)) : Good (fun _ => True) (unitLayers c inh fs m) := by
  induction fs generalizing m with
  | nil => simp [unitLayers, Good]
  | cons f fs ih =>
    unfold unitLayers
    have h1 := unitLayer_good c hinv inh f.unit m
    split
    · rename_i e he; rw [he] at h1; exact h1
    · exact ih _

theorem buildFractions_good {α : Type} [Arith α] (c : Core α) (hinv : Inv c) (fs : List (FractionsDecl α)) :
    Good (fun _ => True) (buildFractions c fs) := by
  unfold buildFractions
  simp only
  have h1 := unitLayers_good c hinv
    (inheritOf (quantityLayers fs fun _ => none) (lastLayer (·.metric) fs none) (lastLayer (·.imperial) fs none) (lastLayer (·.all) fs none)) fs []
  split
  · rename_i e he; rw [he] at h1; exact h1
  · trivial

/-! ## `finish` and `build` -/

/-- the converter is the packaged core: same units, same index, best lists as specified -/
structure Packaged {α : Type} [Arith α] (b : Builder α) (c : Core α) (conv : Converter α) : Prop where
  units : conv.units = c.units.map (·.unit)
  index : conv.index = c.index
  qidx : conv.quantityIndex = quantityIds c.units
  best_keys : conv.best.map (·.1) = PQ.all
  best : ∀ e, e ∈ conv.best → ∃ bd, b.best e.1 = some bd ∧ StoreSpec c e.1 bd e.2
  dflt : conv.defaultSystem = b.defaultSystem

theorem package_good {α : Type} [Arith α] (b : Builder α) (c : Core α) (hinv : Inv c)
    (hb : ∀ q bd, b.best q = some bd → bestDeclEmpty bd = false) : Good (Packaged b c) (package b c) := by
  unfold package
  have h1 := bestAll_good c hinv b.best hb PQ.all
  split
  · rename_i e he; rw [he] at h1; exact h1
  · rename_i best hbest; rw [hbest] at h1
    have h2 := buildFractions_good c hinv b.fractions
    split
    · rename_i e he; rw [he] at h2; exact h2
    · exact ⟨rfl, rfl, rfl, h1.1, h1.2, rfl⟩

/-- every successful build went through a core state satisfying the invariant -/
theorem build_good {α : Type} [Arith α] (files : List (UnitsFile α)) :
    Good (fun conv => ∃ b c, buildCore files = .ok (b, c) ∧ Ready c ∧ Packaged b c conv) (build files) := by
  unfold build buildCore
  have h1 := addFiles_good files Builder.empty BOK.empty
  split
  · rename_i e he; rw [he] at h1; exact h1
  · rename_i b hb; rw [hb] at h1
    unfold finish
    have h2 := finishCore_good b h1.1
    split
    · rename_i e he; rw [he] at h2; exact h2
    · rename_i c hc; rw [hc] at h2
      refine (package_good b c h2.1 h1.2).mono ?_
      intro conv hp
      exact ⟨b, c, rfl, h2, hp⟩

end Cook.Bld

namespace Cook.Bld
open Cook

/-! ## Order of the best lists (exact arithmetic) -/

theorem mem_insertByRatio {α : Type} [Arith α] (x e : α × Nat) (l : List (α × Nat)) :
    e ∈ insertByRatio x l ↔ e = x ∨ e ∈ l := by
  rw [(insertByRatio_perm x l).mem_iff]; simp

theorem insertByRatio_sorted (x : Rat × Nat) (l : List (Rat × Nat)) (h : l.Pairwise (fun a b => a.1 ≤ b.1)) :
    (insertByRatio x l).Pairwise (fun a b => a.1 ≤ b.1) := by
  induction l with
  | nil => simp [insertByRatio]
  | cons y ys ih =>
    unfold insertByRatio
    have hc := List.pairwise_cons.mp h
    split
    · rename_i hlt
      simp only [rat_lt, decide_eq_true_eq] at hlt
      refine List.pairwise_cons.mpr ⟨?_, ih hc.2⟩
      intro e he
      rcases (mem_insertByRatio x e ys).mp he with rfl | he
      · exact Rat.le_of_lt hlt
      · exact hc.1 e he
    · rename_i hlt
      simp only [rat_lt, decide_eq_true_eq] at hlt
      have hxy : x.1 ≤ y.1 := Rat.not_lt.mp hlt
      refine List.pairwise_cons.mpr ⟨?_, h⟩
      intro e he
      rcases List.mem_cons.mp he with rfl | he
      · exact hxy
      · exact Rat.le_trans hxy (hc.1 e he)

theorem sortByRatio_sorted (l : List (Rat × Nat)) : (sortByRatio l).Pairwise (fun a b => a.1 ≤ b.1) := by
  induction l with
  | nil => simp [sortByRatio]
  | cons x xs ih => unfold sortByRatio; exact insertByRatio_sorted x _ ih

end Cook.Bld

namespace Cook.Bld
open Cook

/-- `i` is not a larger unit than `j` -/
def RatioLe (c : Core Rat) (i j : Nat) : Prop :=
  ∀ ua ub, c.units[i]? = some ua → c.units[j]? = some ub → ua.unit.ratio ≤ ub.unit.ratio

/-- a best list is in non-decreasing ratio order -/
theorem BestSpec.sorted {c : Core Rat} {q : PQ} {names : List Key} {l : List (Rat × Nat)} (h : BestSpec c q names l) :
    l.Pairwise (fun a b => RatioLe c a.2 b.2) := by
  obtain ⟨rs, _, hrat, hmap⟩ := h.ids
  have hperm := sortByRatio_perm rs
  have h1 : (sortByRatio rs).Pairwise (fun a b => RatioLe c a.2 b.2) := by
    refine (sortByRatio_sorted rs).imp_of_mem ?_
    intro a b ha hb hab ua ub hua hub
    obtain ⟨u1, h1, _, r1⟩ := hrat a (hperm.mem_iff.mp ha)
    obtain ⟨u2, h2, _, r2⟩ := hrat b (hperm.mem_iff.mp hb)
    rw [hua] at h1; cases h1; rw [hub] at h2; cases h2
    rw [r1, r2]; exact hab
  have h2 : ((sortByRatio rs).map (·.2)).Pairwise (RatioLe c) := List.pairwise_map.mpr h1
  rw [← hmap] at h2
  exact List.pairwise_map.mp h2

/-- every entry of a best list is a unit of the list's quantity -/
theorem BestSpec.quantity {α : Type} [Arith α] {c : Core α} {q : PQ} {names : List Key} {l : List (α × Nat)} (h : BestSpec c q names l) :
    ∀ e, e ∈ l → ∃ u, c.units[e.2]? = some u ∧ u.unit.quantity = q := by
  obtain ⟨rs, _, hrat, hmap⟩ := h.ids
  intro e he
  have : e.2 ∈ (sortByRatio rs).map (·.2) := by rw [← hmap]; exact List.mem_map.mpr ⟨e, he, rfl⟩
  obtain ⟨e', he', heq⟩ := List.mem_map.mp this
  obtain ⟨u, hu, hq, _⟩ := hrat e' ((sortByRatio_perm rs).mem_iff.mp he')
  exact ⟨u, by rw [← heq]; exact hu, hq⟩

/-- a best list holds exactly the units its names resolve to (as a multiset) -/
theorem BestSpec.members {α : Type} [Arith α] {c : Core α} {q : PQ} {names : List Key} {l : List (α × Nat)} (h : BestSpec c q names l) :
    ((l.map (·.2)).map some).Perm (names.map (idxGet c.index)) := by
  obtain ⟨rs, hres, _, hmap⟩ := h.ids
  rw [hmap, hres, List.map_map]
  exact (sortByRatio_perm rs).map _

end Cook.Bld
