import CookModel.Lemmas.BuilderExpand
/- C16 — extend blocks keep the invariant and never panic. -/
namespace Cook.Bld
open Cook

/-! ## Moving between partial invariants -/

theorem PInv.congr {α : Type} {R R' : Nat → Prop} {c : Core α} (h : PInv R c) (hrr : ∀ i, R i ↔ R' i) : PInv R' c := by
  refine ⟨?_, ?_, h.struct⟩
  · intro k id hk
    obtain ⟨a, b⟩ := h.sound k id hk
    exact ⟨fun hr => a ((hrr id).mpr hr), b⟩
  · intro id u hr hu k hk
    exact h.complete id u (fun x => hr ((hrr id).mp x)) hu k hk

/-- a unit whose keys are out of the index may be replaced freely -/
theorem PInv.set_in_R {α : Type} {R : Nat → Prop} {c : Core α} {j : Nat} {x : UnitB α} (h : PInv R c) (hR : R j)
    (hs : SInv (c.units.set j x)) : PInv R { c with units := c.units.set j x } := by
  refine ⟨?_, ?_, hs⟩
  · intro k id hk
    obtain ⟨a, u0, h0, hk0⟩ := h.sound k id hk
    refine ⟨a, u0, ?_, hk0⟩
    show (c.units.set j x)[id]? = some u0
    have : j ≠ id := fun e => a (e ▸ hR)
    rw [getElem?_set']; simp [this, h0]
  · intro id u hr hu k hk
    change (c.units.set j x)[id]? = some u at hu
    have : j ≠ id := fun e => hr (e ▸ hR)
    rw [getElem?_set'] at hu; simp [this] at hu
    exact h.complete id u hr hu k hk

/-- putting the keys of unit `j` (back) into the index -/
theorem PInv.fill {α : Type} {R : Nat → Prop} {c : Core α} {j : Nat} {x : UnitB α} {idx' : Index} (h : PInv R c)
    (hj : c.units[j]? = some x) (hadd : indexAddUnit c.index x.unit j = .ok idx') :
    PInv (fun i => R i ∧ i ≠ j) { c with index := idx' } := by
  obtain ⟨hget, hfresh, _, _, _⟩ := indexAddUnit_ok hadd
  refine ⟨?_, ?_, h.struct⟩
  · intro k id hk
    change idxGet idx' k = some id at hk
    rw [hget] at hk
    split at hk
    · cases hk; exact ⟨fun hh => hh.2 rfl, x, hj, by assumption⟩
    · obtain ⟨a, b⟩ := h.sound k id hk
      exact ⟨fun hh => a hh.1, b⟩
  · intro id u hr hu k hk
    change idxGet idx' k = some id
    change c.units[id]? = some u at hu
    rw [hget]
    by_cases hid : id = j
    · subst hid; rw [hj] at hu; cases hu; simp [hk]
    · have hnr : ¬ R id := fun hh => hr ⟨hh, hid⟩
      have hold := h.complete id u hnr hu k hk
      split
      · rename_i hmem; rw [hfresh k hmem] at hold; cases hold
      · exact hold

/-! ## Replacing a unit by one with the same SI flags -/

def SameFlags {α : Type} (a b : UnitB α) : Prop :=
  a.expanded = b.expanded ∧ a.isExpanded = b.isExpanded ∧ a.expandSi = b.expandSi

theorem IsChild.sameFlags {α : Type} {a b : UnitB α} (ha : IsChild a) (hb : IsChild b) : SameFlags a b := by
  obtain ⟨a1, a2, a3⟩ := ha; obtain ⟨b1, b2, b3⟩ := hb
  exact ⟨by rw [a1, b1], by rw [a2, b2], by rw [a3, b3]⟩

theorem getElem?_set_sameFlags {α : Type} {units : List (UnitB α)} {j : Nat} {old y : UnitB α} (hold : units[j]? = some old)
    (hf : SameFlags y old) {i : Nat} {x : UnitB α} (hx : (units.set j y)[i]? = some x) :
    ∃ x0, units[i]? = some x0 ∧ SameFlags x x0 := by
  rw [getElem?_set'] at hx
  by_cases hji : j = i
  · subst hji
    have := lt_of_getElem?_some hold
    simp [this] at hx; subst hx; exact ⟨old, hold, hf⟩
  · simp [hji] at hx; exact ⟨x, hx, rfl, rfl, rfl⟩

theorem getElem?_set_sameFlags' {α : Type} {units : List (UnitB α)} {j : Nat} {old y : UnitB α} (hold : units[j]? = some old)
    (hf : SameFlags y old) {i : Nat} {x0 : UnitB α} (hx : units[i]? = some x0) :
    ∃ x, (units.set j y)[i]? = some x ∧ SameFlags x x0 := by
  rw [getElem?_set']
  by_cases hji : j = i
  · subst hji
    have := lt_of_getElem?_some hold
    rw [hold] at hx; cases hx
    exact ⟨y, by simp [this], hf⟩
  · exact ⟨x0, by simp [hji, hx], rfl, rfl, rfl⟩

theorem SInv.set_sameFlags {α : Type} {units : List (UnitB α)} {j : Nat} {old y : UnitB α} (h : SInv units)
    (hold : units[j]? = some old) (hf : SameFlags y old) : SInv (units.set j y) := by
  refine ⟨?_, ?_, ?_, ?_⟩
  · intro id u m hu hm p
    obtain ⟨u0, hu0, f1, _, _⟩ := getElem?_set_sameFlags hold hf hu
    obtain ⟨ch, hch, c1, c2, c3⟩ := h.children id u0 m hu0 (by rw [← f1]; exact hm) p
    obtain ⟨ch', hch', g1, g2, g3⟩ := getElem?_set_sameFlags' hold hf hch
    exact ⟨ch', hch', by rw [g1]; exact c1, by rw [g2]; exact c2, by rw [g3]; exact c3⟩
  · intro id u m hu hm p q hpq
    obtain ⟨u0, hu0, f1, _, _⟩ := getElem?_set_sameFlags hold hf hu
    exact h.inj id u0 m hu0 (by rw [← f1]; exact hm) p q hpq
  · intro id u hu hx
    obtain ⟨u0, hu0, f1, f2, f3⟩ := getElem?_set_sameFlags hold hf hu
    have := h.flag id u0 hu0 (by rw [← f2]; exact hx)
    exact ⟨by rw [f3]; exact this.1, by rw [f1]; exact this.2⟩
  · intro id u hu hx
    obtain ⟨u0, hu0, f1, _, f3⟩ := getElem?_set_sameFlags hold hf hu
    rw [f3]; exact h.parent id u0 hu0 (by rw [← f1]; exact hx)

theorem AllExpanded.set_sameFlags {α : Type} {units : List (UnitB α)} {j : Nat} {old y : UnitB α} (h : AllExpanded units)
    (hold : units[j]? = some old) (hf : SameFlags y old) : AllExpanded (units.set j y) := by
  intro id u hu hex
  obtain ⟨u0, hu0, f1, _, f3⟩ := getElem?_set_sameFlags hold hf hu
  rw [f1]; exact h id u0 hu0 (by rw [← f3]; exact hex)

/-! ## `remove_unit_rec` -/

/-- the keys of the expansions recorded by `m` -/
def childKeys {α : Type} (units : List (UnitB α)) (m : SIPrefix → Nat) (ps : List SIPrefix) : List Key :=
  ps.flatMap (fun p => match units[m p]? with | some ch => ch.unit.keys | none => [])

theorem mem_childKeys {α : Type} {units : List (UnitB α)} {m : SIPrefix → Nat} {ps : List SIPrefix} {k : Key} :
    k ∈ childKeys units m ps ↔ ∃ p ∈ ps, ∃ ch, units[m p]? = some ch ∧ k ∈ ch.unit.keys := by
  unfold childKeys
  simp only [List.mem_flatMap]
  constructor
  · rintro ⟨p, hp, hk⟩
    split at hk
    · rename_i ch hch; exact ⟨p, hp, ch, hch, hk⟩
    · simp at hk
  · rintro ⟨p, hp, ch, hch, hk⟩
    exact ⟨p, hp, by rw [hch]; exact hk⟩

theorem removeUnitRec_leaf {α : Type} (units : List (UnitB α)) (fuel : Nat) (idx : Index) (u : UnitB α) (hu : u.expanded = none) :
    removeUnitRec units (fuel + 1) idx u = .ok (indexRemoveKeys idx u.unit.keys) := by
  unfold removeUnitRec; rw [hu]

theorem removeChildren_spec {α : Type} (units : List (UnitB α)) (fuel : Nat) (m : SIPrefix → Nat) (ps : List SIPrefix) (idx : Index)
    (hch : ∀ p, p ∈ ps → ∃ ch, units[m p]? = some ch ∧ ch.expanded = none) :
    ∃ idx', removeChildren (fun i ch => removeUnitRec units (fuel + 1) i ch) units m ps idx = .ok idx' ∧
      ∀ k, idxGet idx' k = if k ∈ childKeys units m ps then none else idxGet idx k := by
  induction ps generalizing idx with
  | nil => exact ⟨idx, rfl, by simp [childKeys]⟩
  | cons p ps ih =>
    obtain ⟨ch, hc, hnone⟩ := hch p (by simp)
    unfold removeChildren
    rw [hc]
    simp only [removeUnitRec_leaf units fuel idx ch hnone]
    obtain ⟨idx', h1, h2⟩ := ih (indexRemoveKeys idx ch.unit.keys) (fun q hq => hch q (by simp [hq]))
    refine ⟨idx', h1, ?_⟩
    intro k
    rw [h2, idxGet_removeKeys]
    have : k ∈ childKeys units m (p :: ps) ↔ k ∈ ch.unit.keys ∨ k ∈ childKeys units m ps := by
      simp [childKeys, hc]
    by_cases a : k ∈ ch.unit.keys <;> by_cases b : k ∈ childKeys units m ps <;> simp [this, a, b]

/-- all keys `remove_unit_rec` takes out of the index -/
def removedKeys {α : Type} (units : List (UnitB α)) (u : UnitB α) : List Key :=
  (match u.expanded with | none => [] | some m => childKeys units m SIPrefix.all) ++ u.unit.keys

theorem removeUnitRec_spec {α : Type} {units : List (UnitB α)} (hs : SInv units) {id : Nat} {u : UnitB α}
    (hu : units[id]? = some u) (idx : Index) :
    ∃ idx', removeUnitRec units (units.length + 1) idx u = .ok idx' ∧
      ∀ k, idxGet idx' k = if k ∈ removedKeys units u then none else idxGet idx k := by
  have hlen := lt_of_getElem?_some hu
  obtain ⟨l, hl⟩ : ∃ l, units.length = l + 1 := ⟨units.length - 1, by omega⟩
  rw [hl]
  unfold removeUnitRec removedKeys
  cases hm : u.expanded with
  | none =>
    refine ⟨_, rfl, ?_⟩
    intro k; rw [idxGet_removeKeys]; simp
  | some m =>
    obtain ⟨idx', h1, h2⟩ := removeChildren_spec units l m SIPrefix.all idx
      (fun p _ => by obtain ⟨ch, a, b, _⟩ := hs.children id u m hu hm p; exact ⟨ch, a, b⟩)
    simp only [h1]
    refine ⟨_, rfl, ?_⟩
    intro k
    rw [idxGet_removeKeys, h2]
    by_cases a : k ∈ u.unit.keys <;> by_cases b : k ∈ childKeys units m SIPrefix.all <;> simp [a, b]

/-- the units whose keys `remove_unit_rec` takes out -/
def Rof {α : Type} (id : Nat) (u : UnitB α) (ps : List SIPrefix) : Nat → Prop :=
  fun j => j = id ∨ ∃ m, u.expanded = some m ∧ ∃ p, p ∈ ps ∧ j = m p

theorem PInv_after_remove {α : Type} {c : Core α} (hinv : Inv c) {id : Nat} {u : UnitB α} (hu : c.units[id]? = some u)
    {idx' : Index} (hget : ∀ k, idxGet idx' k = if k ∈ removedKeys c.units u then none else idxGet c.index k) :
    PInv (Rof id u SIPrefix.all) { c with index := idx' } := by
  have hmem : ∀ k, k ∈ removedKeys c.units u ↔
      k ∈ u.unit.keys ∨ ∃ m, u.expanded = some m ∧ ∃ p, ∃ ch, c.units[m p]? = some ch ∧ k ∈ ch.unit.keys := by
    intro k
    unfold removedKeys
    cases hm : u.expanded with
    | none => simp
    | some m =>
      simp only [List.mem_append, mem_childKeys, Option.some.injEq, exists_eq_left']
      constructor
      · rintro (⟨p, _, ch, h1, h2⟩ | h); exact Or.inr ⟨p, ch, h1, h2⟩; exact Or.inl h
      · rintro (h | ⟨p, ch, h1, h2⟩); exact Or.inr h; exact Or.inl ⟨p, SIPrefix.mem_all p, ch, h1, h2⟩
  refine ⟨?_, ?_, hinv.struct⟩
  · intro k j hk
    change idxGet idx' k = some j at hk
    rw [hget] at hk
    split at hk
    · cases hk
    · rename_i hnot
      obtain ⟨_, uj, huj, hkj⟩ := hinv.sound k j hk
      refine ⟨?_, uj, huj, hkj⟩
      rintro (rfl | ⟨m, hm, p, _, rfl⟩)
      · rw [hu] at huj; cases huj
        exact hnot ((hmem k).mpr (Or.inl hkj))
      · exact hnot ((hmem k).mpr (Or.inr ⟨m, hm, p, uj, huj, hkj⟩))
  · intro j uj hr huj k hk
    change idxGet idx' k = some j
    change c.units[j]? = some uj at huj
    have hold := hinv.complete j uj (by simp) huj k hk
    rw [hget]
    split
    · rename_i hin
      exfalso
      rcases (hmem k).mp hin with h | ⟨m, hm, p, ch, hch, hkc⟩
      · exact hr (Or.inl (hinv.no_shared_key huj hu hk h))
      · exact hr (Or.inr ⟨m, hm, p, SIPrefix.mem_all p, hinv.no_shared_key huj hch hk hkc⟩)
    · exact hold

/-! ## `update_expanded_units` -/

/-- what the extend loops keep about the shape of the state -/
structure Shape {α : Type} (id : Nat) (u' : UnitB α) (n : Nat) (c : Core α) : Prop where
  at_id : c.units[id]? = some u'
  all : AllExpanded c.units
  len : c.units.length = n

theorem updateExpandedOne_good {α : Type} (id : Nat) (new : SIPrefix → UnitB α) (hnew : ∀ p, IsChild (new p)) (c : Core α)
    (u' : UnitB α) (m : SIPrefix → Nat) (p : SIPrefix) (ps : List SIPrefix) (n : Nat)
    (hpinv : PInv (Rof id u' (p :: ps)) c) (hsh : Shape id u' n c) (hm : u'.expanded = some m) (hnd : (p :: ps).Nodup) :
    Good (fun c' => PInv (Rof id u' ps) c' ∧ Shape id u' n c') (updateExpandedOne id new c p) := by
  unfold updateExpandedOne
  rw [hsh.at_id]; simp only [hm]
  obtain ⟨old, hold, ho⟩ := hpinv.struct.children id u' m hsh.at_id hm p
  rw [hold]; simp only
  have hnuc : IsChild ((new p).withAliases old.unit.aliases) := hnew p
  generalize hnu : (new p).withAliases old.unit.aliases = nu at hnuc
  have hg := indexAddUnit_good c.index nu.unit (m p)
  split
  · rename_i e he; rw [he] at hg; exact hg
  · rename_i idx hidx
    have hne : m p ≠ id := by
      intro e; rw [e, hsh.at_id] at hold; cases hold; rw [hm] at ho; cases ho.1
    have hsf : SameFlags nu old := hnuc.sameFlags ho
    have hlt := lt_of_getElem?_some hold
    have h1 : PInv (Rof id u' (p :: ps)) { c with units := c.units.set (m p) nu } :=
      hpinv.set_in_R (Or.inr ⟨m, hm, p, by simp, rfl⟩) (hpinv.struct.set_sameFlags hold hsf)
    have h2 := h1.fill (j := m p) (x := nu) (idx' := idx) (by show (c.units.set (m p) nu)[m p]? = some nu; simp [hlt]) hidx
    have hnd' := List.nodup_cons.mp hnd
    refine ⟨h2.congr ?_, ?_, ?_, ?_⟩
    · intro i
      constructor
      · rintro ⟨(rfl | ⟨m', hm', q, hq, rfl⟩), hni⟩
        · exact Or.inl rfl
        · rw [hm] at hm'; cases hm'
          rcases List.mem_cons.mp hq with rfl | hq
          · exact absurd rfl hni
          · exact Or.inr ⟨m, hm, q, hq, rfl⟩
      · rintro (rfl | ⟨m', hm', q, hq, rfl⟩)
        · exact ⟨Or.inl rfl, fun e => hne e.symm⟩
        · rw [hm] at hm'; cases hm'
          refine ⟨Or.inr ⟨m, hm, q, by simp [hq], rfl⟩, ?_⟩
          intro e
          have := hpinv.struct.inj id u' m hsh.at_id hm q p e
          subst this; exact hnd'.1 hq
    · show (c.units.set (m p) nu)[id]? = some u'
      rw [getElem?_set']; simp [hne, hsh.at_id]
    · exact hsh.all.set_sameFlags hold hsf
    · show (c.units.set (m p) nu).length = n
      simp [hsh.len]

theorem updateExpandedLoop_good {α : Type} (id : Nat) (new : SIPrefix → UnitB α) (hnew : ∀ p, IsChild (new p))
    (u' : UnitB α) (m : SIPrefix → Nat) (n : Nat) (hm : u'.expanded = some m) (ps : List SIPrefix) (hnd : ps.Nodup) (c : Core α)
    (hpinv : PInv (Rof id u' ps) c) (hsh : Shape id u' n c) :
    Good (fun c' => PInv (Rof id u' []) c' ∧ Shape id u' n c') (updateExpandedLoop id new ps c) := by
  induction ps generalizing c with
  | nil => exact ⟨hpinv, hsh⟩
  | cons p ps ih =>
    unfold updateExpandedLoop
    have h1 := updateExpandedOne_good id new hnew c u' m p ps n hpinv hsh hm hnd
    split
    · rename_i e he; rw [he] at h1; exact h1
    · rename_i c' hc'; rw [hc'] at h1
      exact ih (List.nodup_cons.mp hnd).2 c' h1.1 h1.2

theorem updateExpanded_good {α : Type} [Arith α] (si : SIConf) (id : Nat) (c : Core α) (u' : UnitB α) (n : Nat)
    (hpinv : PInv (Rof id u' SIPrefix.all) c) (hsh : Shape id u' n c) (hex : u'.expandSi = true) :
    Good (fun c' => PInv (Rof id u' []) c' ∧ Shape id u' n c') (updateExpanded si id c) := by
  unfold updateExpanded
  rw [hsh.at_id]; simp only
  have hg := expandSi_good u' si hex
  split
  · rename_i e he; rw [he] at hg; exact hg
  · rename_i new hnew
    obtain ⟨pfx, sym, _, _, rfl⟩ := expandSi_ok hnew
    have hsome := hsh.all id u' hsh.at_id hex
    obtain ⟨m, hm⟩ := Option.isSome_iff_exists.mp hsome
    exact updateExpandedLoop_good id _ (expandOne_isChild u' pfx sym) u' m n hm SIPrefix.all SIPrefix.all_nodup c hpinv hsh

/-! ## One entry of an extend block -/

theorem applyExtendOne_good {α : Type} [Arith α] (si : SIConf) (pr : Prec) (c : Core α) (ie : Nat × ExtendEntry α)
    (hc : Ready c) (hid : ie.1 < c.units.length) :
    Good (fun c' => Ready c' ∧ c'.units.length = c.units.length) (applyExtendOne si pr c ie) := by
  unfold applyExtendOne
  split
  · rename_i hnone; rw [List.getElem?_eq_none_iff] at hnone; omega
  · rename_i u hu
    obtain ⟨idx, hrem, hget⟩ := removeUnitRec_spec hc.1.struct hu c.index
    rw [hrem]; simp only
    have h0 := PInv_after_remove hc.1 hu hget
    have hsf0 : SameFlags (u.edit pr ie.2) u := ⟨rfl, rfl, rfl⟩
    generalize hu' : u.edit pr ie.2 = u' at hsf0
    have hsf : SameFlags u' u := hsf0
    have hRcongr : ∀ ps i, Rof ie.1 u ps i ↔ Rof ie.1 u' ps i := by
      intro ps i; unfold Rof; rw [hsf.1]
    have h1 : PInv (Rof ie.1 u' SIPrefix.all) { units := c.units.set ie.1 u', index := idx } :=
      (PInv.set_in_R (c := { c with index := idx }) h0 (Or.inl rfl) (hc.1.struct.set_sameFlags hu hsf)).congr (hRcongr _)
    have hsh : Shape ie.1 u' c.units.length { units := c.units.set ie.1 u', index := idx } :=
      ⟨by show (c.units.set ie.1 u')[ie.1]? = some u'; simp [hid], hc.2.set_sameFlags hu hsf, by simp⟩
    have h2 : Good (fun c2 => PInv (Rof ie.1 u' []) c2 ∧ Shape ie.1 u' c.units.length c2)
        (if u'.expandSi = true then updateExpanded si ie.1 { units := c.units.set ie.1 u', index := idx }
         else .ok { units := c.units.set ie.1 u', index := idx }) := by
      split
      · rename_i hex; exact updateExpanded_good si ie.1 _ u' _ h1 hsh hex
      · rename_i hex
        refine ⟨h1.congr ?_, hsh⟩
        intro i
        constructor
        · rintro (rfl | ⟨m, hm, _⟩)
          · exact Or.inl rfl
          · exfalso
            have := h1.struct.parent ie.1 u' hsh.at_id (by rw [hm]; rfl)
            exact hex this
        · rintro (rfl | ⟨m, hm, p, hp, _⟩)
          · exact Or.inl rfl
          · simp at hp
    split
    · rename_i e he; rw [he] at h2; exact h2
    · rename_i c2 hc2; rw [hc2] at h2
      obtain ⟨hp2, hs2⟩ := h2
      rw [hs2.at_id]; simp only
      have hg := indexAddUnit_good c2.index u'.unit ie.1
      split
      · rename_i e he; rw [he] at hg; exact hg
      · rename_i idx' hidx'
        have h3 := hp2.fill hs2.at_id hidx'
        refine ⟨⟨h3.congr ?_, hs2.all⟩, hs2.len⟩
        intro i
        constructor
        · rintro ⟨(rfl | ⟨m, _, p, hp, _⟩), hne⟩
          · exact absurd rfl hne
          · simp at hp
        · intro h; exact absurd h (by simp)

theorem applyExtendList_good {α : Type} [Arith α] (si : SIConf) (pr : Prec) (l : List (Nat × ExtendEntry α)) (c : Core α)
    (hc : Ready c) (hid : ∀ ie, ie ∈ l → ie.1 < c.units.length) :
    Good (fun c' => Ready c' ∧ c'.units.length = c.units.length) (applyExtendList si pr l c) := by
  induction l generalizing c with
  | nil => exact ⟨hc, rfl⟩
  | cons ie rest ih =>
    unfold applyExtendList
    have h1 := applyExtendOne_good si pr c ie hc (hid ie (by simp))
    split
    · rename_i e he; rw [he] at h1; exact h1
    · rename_i c' hc'; rw [hc'] at h1
      refine (ih c' h1.1 (fun x hx => by rw [h1.2]; exact hid x (by simp [hx]))).mono ?_
      intro c'' h; exact ⟨h.1, by rw [h.2, h1.2]⟩

theorem resolveExtend_good {α : Type} (c : Core α) (hinv : Inv c) (l : List (Key × ExtendEntry α)) (acc : List (Nat × ExtendEntry α))
    (hacc : ∀ ie, ie ∈ acc → ie.1 < c.units.length) :
    Good (fun r => ∀ ie, ie ∈ r → ie.1 < c.units.length) (resolveExtend c l acc) := by
  induction l generalizing acc with
  | nil => exact hacc
  | cons ke rest ih =>
    unfold resolveExtend
    split
    · simp [Good, Err.isPanic]
    · rename_i id hid
      obtain ⟨_, u, hu, _⟩ := hinv.sound _ _ hid
      split
      · simp [Good, Err.isPanic]
      · rw [hu]; simp only
        split
        · simp [Good, Err.isPanic]
        · apply ih
          intro ie hie
          rcases List.mem_append.mp hie with h | h
          · exact hacc ie h
          · simp at h; subst h; exact lt_of_getElem?_some hu

theorem applyExtendGroup_good {α : Type} [Arith α] (si : SIConf) (c : Core α) (g : Extend α) (hc : Ready c) :
    Good Ready (applyExtendGroup si c g) := by
  unfold applyExtendGroup
  have h1 := resolveExtend_good c hc.1 g.units [] (by simp)
  split
  · rename_i e he; rw [he] at h1; exact h1
  · rename_i upd hupd; rw [hupd] at h1
    exact (applyExtendList_good si g.precedence upd c hc h1).mono (fun _ h => h.1)

theorem applyExtendGroups_good {α : Type} [Arith α] (si : SIConf) (gs : List (Extend α)) (c : Core α) (hc : Ready c) :
    Good Ready (applyExtendGroups si gs c) := by
  induction gs generalizing c with
  | nil => exact hc
  | cons g gs ih =>
    unfold applyExtendGroups
    have h1 := applyExtendGroup_good si c g hc
    split
    · rename_i e he; rw [he] at h1; exact h1
    · rename_i c' hc'; rw [hc'] at h1; exact ih c' h1

theorem finishCore_good {α : Type} [Arith α] (b : Builder α) (hc : CoreOK b.core) : Good Ready (finishCore b) := by
  unfold finishCore
  have h1 := expandAll_good b.si b.core hc
  split
  · rename_i e he; rw [he] at h1; exact h1
  · rename_i c hc'; rw [hc'] at h1; exact applyExtendGroups_good b.si b.extend c h1

end Cook.Bld
