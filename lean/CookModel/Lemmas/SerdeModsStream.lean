import CookModel.Lemmas.ClosingStream
import CookModel.Lemmas.SerdeMods
/-
  C15 — `RecipeModsKnown` for parsed recipes, parser side: every ingredient / cookware event of the pull
  parser carries modifier bits among the five declared flags (`bits < 32`).  Only `parse_modifiers` writes the
  field (`audit_parseModifiers_bits`, Lemmas/SerdeMods.lean); `ingredientP` / `cookwareP` copy its result into
  the event; everything else is the frame property of Lemmas/ClosingKeeps.lean (events are only appended).
-/
set_option linter.unusedSectionVars false
set_option linter.unusedVariables false
set_option linter.unusedSimpArgs false
namespace Cook

variable {α : Type} [Arith α] {I : Array (Ev α) → Prop} [DiagStable I]

/-- the modifiers of a component event are among the five declared flags -/
def EvModsOK : Ev α → Prop
  | .ingredient i => i.val.modifiers.val.bits < 32
  | .cookware c => c.val.modifiers.val.bits < 32
  | _ => True

instance : DiagQ (EvModsOK (α := α)) := ⟨fun _ => trivial, fun _ => trivial⟩

/-- a component parser result: the event, if any, has declared modifiers only -/
def RMods (r : Option (Ev α)) : Prop := ∀ ev, r = some ev → EvModsOK ev

theorem RMods.none : RMods (α := α) Option.none := fun ev h => by cases h
theorem RMods.some {ev : Ev α} (h : EvModsOK ev) : RMods (Option.some ev) :=
  fun ev' h' => by cases h'; exact h

section comps
-- in this section the result of `parseModifiers` is described by its bits (not by `ClosingInterOK`)
local macro_rules | `(tactic| keeps_leaf) => `(tactic| with_reducible exact audit_parseModifiers_bits ..)
local macro_rules | `(tactic| keeps_leaf) => `(tactic| ((with_reducible refine Keeps.pure ?_) <;> exact RMods.none))

theorem mods_ingredientP_keeps : Keeps I (ingredientP (α := α)) RMods := by
  unfold ingredientP
  keeps
  rename_i hpm _ _
  exact Keeps.pure (RMods.some hpm)

theorem mods_cookwareP_keeps : Keeps I (cookwareP (α := α)) RMods := by
  unfold cookwareP
  keeps
  all_goals (refine Keeps.pure (RMods.some ?_); show _ < 32; assumption)

theorem mods_timerP_keeps : Keeps I (timerP (α := α)) RMods := by
  unfold timerP
  keeps
  all_goals exact Keeps.pure (RMods.some trivial)

end comps

/-- invariants that survive pushing any event with declared modifiers -/
class ModsStable (I : Array (Ev α) → Prop) : Prop where
  push : ∀ evs ev, EvModsOK ev → I evs → I (evs.push ev)

instance : ModsStable (AllQ (EvModsOK (α := α))) := ⟨fun evs ev hc h => h.push hc⟩

instance [ModsStable I] : TextStable I := ⟨fun evs t h => ModsStable.push evs _ trivial h⟩

theorem mods_stepOne_keeps [ModsStable I] : Keeps I (stepOne (α := α)) (fun _ => True) := by
  unfold stepOne
  apply Keeps.bind (R := RMods)
  · have h1 := mods_ingredientP_keeps (α := α) (I := I)
    have h2 := mods_cookwareP_keeps (α := α) (I := I)
    have h3 := mods_timerP_keeps (α := α) (I := I)
    keeps
    all_goals exact Keeps.pure RMods.none
  · intro comp hc
    split
    · rename_i ev
      exact Keeps.pushEv (fun evs h => ModsStable.push evs ev (hc ev rfl) h)
    · keeps

theorem mods_stepLoop_keeps [ModsStable I] (fuel : Nat) : Keeps I (stepLoop (α := α) fuel) (fun _ => True) := by
  have h1 := mods_stepOne_keeps (α := α) (I := I)
  induction fuel with
  | zero => unfold stepLoop; keeps
  | succ fuel ih => unfold stepLoop; keeps

section stream
local macro_rules | `(tactic| keeps_leaf) => `(tactic| with_reducible exact mods_stepLoop_keeps _)
local notation "IM" => AllQ (EvModsOK (α := α))

theorem mods_parseBlock_keeps (oldStyle : Bool) : Keeps IM (parseBlock (α := α) oldStyle) (fun _ => True) := by
  have hstart : ∀ k, Keeps IM (pushEv (α := α) (.start k)) (fun _ => True) :=
    fun k => Keeps.pushEv (fun _ h => h.push trivial)
  have hstop : ∀ k, Keeps IM (pushEv (α := α) (.stop k)) (fun _ => True) :=
    fun k => Keeps.pushEv (fun _ h => h.push trivial)
  have hstep : Keeps IM (parseStep (α := α)) (fun _ => True) := by
    have h1 := hstart .step
    have h2 := hstop .step
    unfold parseStep; keeps
  have htext : Keeps IM (parseTextBlock (α := α)) (fun _ => True) := by
    have h1 := hstart .text
    have h2 := hstop .text
    unfold parseTextBlock; keeps
  have hmulti : Keeps IM (parseMultilineBlock (α := α)) (fun _ => True) := by
    unfold parseMultilineBlock; keeps
  unfold parseBlock
  apply Keeps.bind (R := RMods)
  · have h1 := (closing_sectionP_keeps (α := α) (I := IM)).mono
      (R' := RMods) (fun r hr ev he => by obtain ⟨n, rfl⟩ := hr ev he; trivial)
    have h2 := closing_metadataEntry_keeps (α := α) (I := IM)
    keeps
    all_goals (refine Keeps.pure ?_; intro ev he; first | (cases he; done) | (cases he; trivial))
  · intro r hr
    split
    · rename_i ev
      exact Keeps.pushEv (fun _ h => h.push (hr ev rfl))
    · exact hmulti

theorem mods_runBlock (cs : CharSpec) (ext : Ext) (oldStyle : Bool) (b : List Tok)
    (evs : Array (Ev α)) (panic : Option String) (h : IM evs) :
    IM (runBlock cs ext oldStyle b evs panic).1 := by
  have key : Keeps IM (do
      if b.isEmpty then panicWith "BlockParser::new: empty tokens"
      parseBlock (α := α) oldStyle
      let s ← get
      if s.cur ≠ s.toks.length then panicWith "Block tokens not parsed") (fun _ => True) := by
    have := mods_parseBlock_keeps (α := α) oldStyle
    keeps
  exact (key.run ⟨b, 0, ext, cs, evs, panic⟩ h).1

theorem mods_foldl_runBlock (cs : CharSpec) (ext : Ext) (oldStyle : Bool) (blocks : List (List Tok))
    (acc : Array (Ev α) × Option String) (h : IM acc.1) :
    IM (blocks.foldl (fun acc b => runBlock (α := α) cs ext oldStyle b acc.1 acc.2) acc).1 := by
  induction blocks generalizing acc with
  | nil => exact h
  | cons b bs ih =>
    rw [List.foldl_cons]
    exact ih _ (mods_runBlock cs ext oldStyle b acc.1 acc.2 h)

/-- **every ingredient / cookware event of the pull parser carries declared modifier flags only** -/
theorem pullEvents_modsOK (cs : CharSpec) (ext : Ext) (input : List Char) :
    ∀ ev ∈ (pullEvents (α := α) cs ext input).1.toList, EvModsOK ev := by
  unfold pullEvents
  split
  rename_i toks evs0 oldStyle heq
  apply mods_foldl_runBlock
  split at heq
  · simp only [Prod.mk.injEq] at heq
    rw [← heq.2.1]
    intro ev hev
    simp only [List.mem_singleton] at hev
    subst hev; trivial
  · simp only [Prod.mk.injEq] at heq
    rw [← heq.2.1]
    intro ev hev
    simp at hev

end stream

end Cook
