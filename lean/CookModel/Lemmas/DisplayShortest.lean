import CookModel.Lemmas.DisplayText
/-
  The digit search of the model's `Display for f64` (`shortestFrom`, Num/Display.lean) — wave `w6numeric`: what the loop
  structure alone gives about "shortest" and "closest", for every finite double and without the fuel alternative.
  Prefix `dsh_`.
-/
namespace Cook

/-- the truncated `j`-digit candidate: `⌊num/den · 10^(j-k)⌋` -/
def dshLo (num den : Nat) (k : Int) (j : Nat) : Nat :=
  scaledNum num ((j : Int) - k) / scaledDen den ((j : Int) - k)

/-- the remainder of that truncation (in units of `1 / scaledDen`) -/
def dshRem (num den : Nat) (k : Int) (j : Nat) : Nat :=
  scaledNum num ((j : Int) - k) % scaledDen den ((j : Int) - k)

/-- **The search, described.**  It stops at a digit count `m` with `n ≤ m ≤ n + fuel`; the result is the truncated
    `m`-digit candidate or its successor; at no smaller digit count does either candidate read back; a successor is
    returned only if it reads back and the truncation does not or is not closer; a truncation returned before the fuel is
    out reads back, and if the successor does too the truncation is strictly closer. -/
theorem dsh_shortestFrom_spec (mb : UInt64) (num den : Nat) (k : Int) (fuel n : Nat) :
    ∃ m : Nat, n ≤ m ∧ m ≤ n + fuel ∧
      (shortestFrom mb num den k fuel n).2 = (m : Int) - k ∧
      ((shortestFrom mb num den k fuel n).1 = dshLo num den k m ∨
        (shortestFrom mb num den k fuel n).1 = dshLo num den k m + 1) ∧
      (∀ j, n ≤ j → j < m → bitsOfDecimal (dshLo num den k j) ((j : Int) - k) ≠ mb ∧
        bitsOfDecimal (dshLo num den k j + 1) ((j : Int) - k) ≠ mb) ∧
      ((shortestFrom mb num den k fuel n).1 = dshLo num den k m + 1 →
        bitsOfDecimal (dshLo num den k m + 1) ((m : Int) - k) = mb ∧
        (bitsOfDecimal (dshLo num den k m) ((m : Int) - k) = mb →
          2 * dshRem num den k m ≥ scaledDen den ((m : Int) - k))) ∧
      ((shortestFrom mb num den k fuel n).1 = dshLo num den k m → m < n + fuel →
        bitsOfDecimal (dshLo num den k m) ((m : Int) - k) = mb ∧
        (bitsOfDecimal (dshLo num den k m + 1) ((m : Int) - k) = mb →
          2 * dshRem num den k m < scaledDen den ((m : Int) - k))) := by
  induction fuel generalizing n with
  | zero =>
    refine ⟨n, Nat.le_refl _, Nat.le_refl _, rfl, Or.inl rfl, ?_, ?_, ?_⟩
    · intro j h1 h2; omega
    · intro h
      simp only [shortestFrom, dshLo] at h
      omega
    · intro _ h; omega
  | succ fuel ih =>
    unfold shortestFrom
    simp only
    split
    · rename_i h
      simp only [Bool.and_eq_true, Bool.or_eq_true, Bool.not_eq_true', beq_iff_eq, beq_eq_false_iff_ne,
        decide_eq_true_eq] at h
      refine ⟨n, Nat.le_refl _, by omega, rfl, Or.inr rfl, ?_, ?_, ?_⟩
      · intro j h1 h2; omega
      · intro _
        refine ⟨h.1, ?_⟩
        intro hd
        rcases h.2 with h2 | h2
        · exact absurd hd h2
        · exact h2
      · intro hh
        simp only [dshLo] at hh
        omega
    · rename_i h1
      split
      · rename_i h2
        simp only [beq_iff_eq] at h2
        refine ⟨n, Nat.le_refl _, by omega, rfl, Or.inl rfl, ?_, ?_, ?_⟩
        · intro j h1 h2; omega
        · intro hh
          simp only [dshLo] at hh
          omega
        · intro _ _
          refine ⟨h2, ?_⟩
          intro hu
          simp only [Bool.and_eq_true, Bool.or_eq_true, Bool.not_eq_true', beq_iff_eq, beq_eq_false_iff_ne,
            decide_eq_true_eq, not_and, not_or] at h1
          have := (h1 hu).2
          simp only [dshRem]
          omega
      · rename_i h2
        simp only [beq_iff_eq] at h2
        have hup : bitsOfDecimal (dshLo num den k n + 1) ((n : Int) - k) ≠ mb := by
          intro hu
          simp only [Bool.and_eq_true, Bool.or_eq_true, Bool.not_eq_true', beq_iff_eq, beq_eq_false_iff_ne,
            decide_eq_true_eq, not_and, not_or] at h1
          exact (h1 hu).1 h2
        obtain ⟨m, hm1, hm2, hs, hc, hshort, hA, hB⟩ := ih (n + 1)
        refine ⟨m, by omega, by omega, hs, hc, ?_, hA, ?_⟩
        · intro j hj1 hj2
          by_cases hjn : j = n
          · subst hjn; exact ⟨h2, hup⟩
          · exact hshort j (by omega) hj2
        · intro hr hlt
          exact hB hr (by omega)

/-- a result that is the truncation or its successor is within one unit of the last place of the exact value -/
theorem dsh_within_one (num den : Nat) (k : Int) (m c : Nat) (hden : 0 < den)
    (h : c = dshLo num den k m ∨ c = dshLo num den k m + 1) :
    c * scaledDen den ((m : Int) - k) ≤ scaledNum num ((m : Int) - k) + scaledDen den ((m : Int) - k) ∧
    scaledNum num ((m : Int) - k) < (c + 1) * scaledDen den ((m : Int) - k) := by
  have hsd : 0 < scaledDen den ((m : Int) - k) := by
    unfold scaledDen
    split
    · exact hden
    · exact Nat.mul_pos hden (Nat.pow_pos (by decide))
  have h1 : dshLo num den k m * scaledDen den ((m : Int) - k) ≤ scaledNum num ((m : Int) - k) :=
    Nat.div_mul_le_self _ _
  have h2 : scaledNum num ((m : Int) - k) < (dshLo num den k m + 1) * scaledDen den ((m : Int) - k) := by
    have := Nat.lt_mul_div_succ (scaledNum num ((m : Int) - k)) hsd
    simp only [dshLo]
    rw [Nat.mul_comm]; exact this
  rcases h with rfl | rfl
  · constructor
    · omega
    · exact h2
  · constructor
    · rw [Nat.add_mul, Nat.one_mul]; omega
    · have : (dshLo num den k m + 1 + 1) * scaledDen den ((m : Int) - k) =
          (dshLo num den k m + 1) * scaledDen den ((m : Int) - k) + scaledDen den ((m : Int) - k) := by
        rw [Nat.add_mul (dshLo num den k m + 1) 1, Nat.one_mul]
      omega

theorem dsh_f64Den_pos (b : Nat) : 0 < f64Den b := by
  unfold f64Den
  split
  · decide
  · exact Nat.pow_pos (by decide)

end Cook
