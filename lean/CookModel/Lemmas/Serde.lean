import CookModel.Side.Serde
/-
  Round-trip lemmas for the serde model (Side/Serde.lean), type by type.
-/
namespace Cook.Serde
open Cook

/-! ## spellings -/

theorem Tag.ofStr_str (t : Tag) : Tag.ofStr t.str = some t := by
  cases t <;> decide

theorem Tag.str_injective {a b : Tag} (h : a.str = b.str) : a = b := by
  have := Tag.ofStr_str a
  rw [h, Tag.ofStr_str] at this
  exact (Option.some.inj this).symm

/-- no two field names of the Rust types are spelled the same: the enumeration `Key` does not hide
    a collision (in particular none between the flattened relation and `reference_target`) -/
theorem Key.str_injective_known :
    Key.known.all (fun k => Key.known.all (fun k' => !(k.str == k'.str) || k == k')) = true := by
  decide +kernel

@[simp] theorem strTag_str (t : Tag) : strTag (.str t.str) = some t := Tag.ofStr_str t

/-! ## generic pieces -/

theorem mapOpt_map {β γ : Type} (enc : β → γ) (dec : γ → Option β) (l : List β)
    (h : ∀ x ∈ l, dec (enc x) = some x) : mapOpt dec (l.map enc) = some l := by
  induction l with
  | nil => rfl
  | cons x rest ih =>
    simp only [List.map_cons, mapOpt, h x (by simp), ih (fun y hy => h y (by simp [hy]))]

theorem decList_encList {β : Type} (enc : β → Json) (dec : Json → Option β) (l : List β)
    (h : ∀ x ∈ l, dec (enc x) = some x) : decList dec (encList enc l) = some l := by
  simp only [encList, decList]; exact mapOpt_map enc dec l h

theorem decOpt_encOpt {β : Type} (enc : β → Json) (dec : Json → Option β) (o : Option β)
    (h : ∀ x, o = some x → dec (enc x) = some x) (hn : ∀ x, o = some x → enc x ≠ .null) :
    decOpt dec (encOpt enc o) = some o := by
  cases o with
  | none => rfl
  | some x =>
    have h1 := h x rfl
    have h2 := hn x rfl
    simp only [encOpt]
    cases he : enc x <;> simp_all [decOpt]

@[simp] theorem decNat_encNat (n : Nat) : decNat (encNat n) = some n := by
  simp [encNat, decNat]

@[simp] theorem decStr_encStr (s : Str) : decStr (encStr s) = some s := rfl
@[simp] theorem decStr_str (s : Str) : decStr (.str s) = some s := rfl
@[simp] theorem decBool_encBool (b : Bool) : decBool (encBool b) = some b := rfl

theorem decOpt_str (o : Option Str) : decOpt decStr (encOpt encStr o) = some o :=
  decOpt_encOpt encStr decStr o (fun _ _ => rfl) (fun _ _ => by simp [encStr])

theorem decList_nat (l : List Nat) : decList decNat (encList encNat l) = some l :=
  decList_encList encNat decNat l (fun _ _ => decNat_encNat _)

theorem decList_str (l : List Str) : decList decStr (encList encStr l) = some l :=
  decList_encList encStr decStr l (fun _ _ => rfl)

section Types
variable {α : Type} [Arith α] (c : NumCodec α)

theorem decF64_encF64 (hc : c.RoundTrips) (x : α) (hx : Arith.isFinite x = true) :
    decF64 c (encF64 c x) = some x := by
  simp [encF64, decF64, hx, hc x hx]

theorem encF64_ne_null (x : α) (hx : Arith.isFinite x = true) : encF64 c x ≠ .null := by
  simp [encF64, hx]

/-! ## values -/

theorem decNumber_encNumber (hc : c.RoundTrips) (n : Number α) (hn : numberFinite n) :
    decNumber c (encNumber c n) = some n := by
  cases n with
  | regular v =>
    simp [encNumber, decNumber, adj, Json.tagOf, Json.field, lookup, decF64_encF64 c hc v hn]
  | fraction w nn d e =>
    simp [encNumber, decNumber, decFraction, adj, Json.tagOf, Json.field, lookup, decF64_encF64 c hc e hn]

theorem decValue_encValue (hc : c.RoundTrips) (v : Value α) (hv : valueFinite v) :
    decValue c (encValue c v) = some v := by
  cases v with
  | number n =>
    simp [encValue, decValue, adj, Json.tagOf, Json.field, lookup, decNumber_encNumber c hc n hv]
  | range s e =>
    simp [encValue, decValue, decRange, adj, Json.tagOf, Json.field, lookup,
      decNumber_encNumber c hc s hv.1, decNumber_encNumber c hc e hv.2]
  | text t => simp [encValue, decValue, adj, Json.tagOf, Json.field, lookup]

theorem decScalable_encScalable (hc : c.RoundTrips) (v : ScalableValue α) (hv : scalableFinite v) :
    decScalable c (encScalable c v) = some v := by
  cases v with
  | fixed v => simp [encScalable, decScalable, adj, Json.tagOf, Json.field, lookup, decValue_encValue c hc v hv]
  | linear v => simp [encScalable, decScalable, adj, Json.tagOf, Json.field, lookup, decValue_encValue c hc v hv]

theorem encValue_ne_null (v : Value α) : encValue c v ≠ .null := by
  cases v <;> simp [encValue, adj]
theorem encScalable_ne_null (v : ScalableValue α) : encScalable c v ≠ .null := by
  cases v <;> simp [encScalable, adj]

theorem decQuantity_encQuantity {V} (ev : V → Json) (dv : Json → Option V) (q : Quantity V)
    (h : dv (ev q.value) = some q.value) : decQuantity dv (encQuantity ev q) = some q := by
  simp [encQuantity, decQuantity, Json.field, lookup, h, decOpt_str]

/-! ## sections -/

theorem decItem_encItem (i : Item) : decItem (encItem i) = some i := by
  cases i <;> simp [encItem, decItem, Json.tagOf, Json.field, lookup]

theorem decStep_encStep (s : Step) : decStep (encStep s) = some s := by
  simp [encStep, decStep, Json.field, lookup, decList_encList encItem decItem s.items (fun _ _ => decItem_encItem _)]

theorem decContent_encContent (ct : Content) : decContent (encContent ct) = some ct := by
  cases ct with
  | step s => simp [encContent, decContent, adj, Json.tagOf, Json.field, lookup, decStep_encStep]
  | text t => simp [encContent, decContent, adj, Json.tagOf, Json.field, lookup]

theorem decSection_encSection (s : Section) : decSection (encSection s) = some s := by
  simp [encSection, decSection, Json.field, lookup, decOpt_str,
    decList_encList encContent decContent s.content (fun _ _ => decContent_encContent _)]

/-! ## relations -/

theorem decRelation_relFields (r : ComponentRelation) (extra : List (Key × Json)) :
    decRelation (.obj (relFields r ++ extra)) = some r := by
  cases r with
  | definition rf b => simp [relFields, decRelation, Json.tagOf, Json.field, lookup, decList_nat]
  | reference t => simp [relFields, decRelation, Json.tagOf, Json.field, lookup]

theorem decRelation_encRelation (r : ComponentRelation) : decRelation (encRelation r) = some r := by
  have := decRelation_relFields r []
  simpa [encRelation] using this

theorem decTarget_encTarget (t : RefTarget) : decTarget (encTarget t) = some t := by
  cases t <;> simp [encTarget, decTarget]

theorem encTarget_ne_null (t : RefTarget) : encTarget t ≠ .null := by
  cases t <;> simp [encTarget]

/-- the flattened relation's keys do not shadow `reference_target` -/
theorem field_referenceTarget (r : ComponentRelation) (v : Json) :
    Json.field (.obj (relFields r ++ [(.referenceTarget, v)])) .referenceTarget = some v := by
  cases r <;> simp [relFields, Json.field, lookup]

theorem decIngRelation_encIngRelation (r : IngredientRelation) :
    decIngRelation (encIngRelation r) = some r := by
  obtain ⟨rel, tgt⟩ := r
  simp only [encIngRelation, decIngRelation, decRelation_relFields, field_referenceTarget, Option.bind_some,
    decOpt_encOpt encTarget decTarget tgt (fun _ _ => decTarget_encTarget _) (fun _ _ => encTarget_ne_null _)]

theorem decReference_encReference (r : RecipeReference) : decReference (encReference r) = some r := by
  simp [encReference, decReference, Json.field, lookup, decList_str]

theorem encReference_ne_null (r : RecipeReference) : encReference r ≠ .null := by simp [encReference]

/-! ## modifiers -/

theorem decModsStr_encModsStr_all :
    (List.range 32).all (fun b => decModsStr (encModsStr ⟨b⟩) == some ⟨b⟩) = true := by
  decide +kernel

theorem decMods_encMods (m : Modifiers) (h : m.bits < 32) : decMods (encMods m) = some m := by
  have := decModsStr_encModsStr_all
  rw [List.all_eq_true] at this
  have := this m.bits (by simp [h])
  simpa [encMods, decMods] using this

/-! ## components -/

theorem encQuantity_ne_null {V} (ev : V → Json) (q : Quantity V) : encQuantity ev q ≠ .null := by
  simp [encQuantity]

theorem decOptQuantity {V} (ev : V → Json) (dv : Json → Option V) (fin : V → Prop)
    (hv : ∀ v, fin v → dv (ev v) = some v) (q : Option (Quantity V)) (hq : optFinite (fun q => fin q.value) q) :
    decOpt (decQuantity dv) (encOpt (encQuantity ev) q) = some q :=
  decOpt_encOpt _ _ q
    (fun x hx => decQuantity_encQuantity ev dv x (hv _ (by subst hx; exact hq)))
    (fun x _ => encQuantity_ne_null ev x)

theorem decIngredient_encIngredient {V} (ev : V → Json) (dv : Json → Option V) (fin : V → Prop)
    (hv : ∀ v, fin v → dv (ev v) = some v) (i : Ingredient V)
    (hq : optFinite (fun q => fin q.value) i.quantity) (hm : i.modifiers.bits < 32) :
    decIngredient dv (encIngredient ev i) = some i := by
  simp [encIngredient, decIngredient, Json.field, lookup, decOpt_str, decOptQuantity ev dv fin hv i.quantity hq,
    decOpt_encOpt encReference decReference i.reference (fun _ _ => decReference_encReference _)
      (fun _ _ => encReference_ne_null _),
    decIngRelation_encIngRelation, decMods_encMods i.modifiers hm]

theorem decCookware_encCookware {V} (ev : V → Json) (dv : Json → Option V) (fin : V → Prop)
    (hv : ∀ v, fin v → dv (ev v) = some v) (hnn : ∀ v, ev v ≠ .null) (i : Cookware V)
    (hq : optFinite fin i.quantity) (hm : i.modifiers.bits < 32) :
    decCookware dv (encCookware ev i) = some i := by
  have h1 : decOpt dv (encOpt ev i.quantity) = some i.quantity :=
    decOpt_encOpt ev dv i.quantity (fun x hx => hv x (by rw [hx] at hq; exact hq)) (fun x _ => hnn x)
  simp [encCookware, decCookware, Json.field, lookup, decOpt_str, h1, decRelation_encRelation,
    decMods_encMods i.modifiers hm]

theorem decTimer_encTimer {V} (ev : V → Json) (dv : Json → Option V) (fin : V → Prop)
    (hv : ∀ v, fin v → dv (ev v) = some v) (t : Timer V)
    (hq : optFinite (fun q => fin q.value) t.quantity) :
    decTimer dv (encTimer ev t) = some t := by
  simp [encTimer, decTimer, Json.field, lookup, decOpt_str, decOptQuantity ev dv fin hv t.quantity hq]

/-! ## metadata, scaling data -/

theorem decMetadata_encMetadata (m : Metadata) : decMetadata (encMetadata m) = some m := by
  simp only [encMetadata, decMetadata, Json.field, lookup, if_true]
  exact mapOpt_map (fun p : Str × Json => (Key.other p.1, p.2)) decMetaEntry m (fun _ _ => rfl)

theorem decServings_encServings (s : Servings) : decServings (encServings s) = some s :=
  decOpt_encOpt _ _ s (fun x _ => decList_nat x) (fun x _ => by simp [encList])

theorem decOutcome_encOutcome (o : ScaleOutcome) : decOutcome (encOutcome o) = some o.normalize := by
  cases o <;> simp [encOutcome, decOutcome, ScaleOutcome.normalize]

theorem encOutcome_normalize (o : ScaleOutcome) : encOutcome o.normalize = encOutcome o := by
  cases o <;> rfl

theorem mapOpt_map' {β γ δ : Type} (enc : β → γ) (dec : γ → Option δ) (f : β → δ) (l : List β)
    (h : ∀ x ∈ l, dec (enc x) = some (f x)) : mapOpt dec (l.map enc) = some (l.map f) := by
  induction l with
  | nil => rfl
  | cons x rest ih =>
    simp only [List.map_cons, mapOpt, h x (by simp), ih (fun y hy => h y (by simp [hy]))]

theorem decList_outcomes (l : List ScaleOutcome) :
    decList decOutcome (encList encOutcome l) = some (l.map ScaleOutcome.normalize) := by
  simp only [encList, decList]
  exact mapOpt_map' encOutcome decOutcome ScaleOutcome.normalize l (fun _ _ => decOutcome_encOutcome _)

theorem decScaled_encScaled (hc : c.RoundTrips) (d : Scaled α) (hd : scaledFinite d) :
    decScaled c (encScaled c d) = some d.normalize := by
  cases d with
  | defaultScaling => simp [encScaled, decScaled, Json.tagOf, Json.field, lookup, Scaled.normalize]
  | scaled f i cw t =>
    simp [encScaled, decScaled, Json.tagOf, Json.field, lookup, Scaled.normalize, decList_outcomes,
      decF64_encF64 c hc f hd]

theorem encScaled_normalize (d : Scaled α) : encScaled c d.normalize = encScaled c d := by
  cases d with
  | defaultScaling => rfl
  | scaled f i cw t =>
    simp only [Scaled.normalize, encScaled, encList, List.map_map]
    have : (encOutcome ∘ ScaleOutcome.normalize) = encOutcome := by
      funext o; exact encOutcome_normalize o
    simp [this]

/-! ## the whole recipe -/

theorem decRecipe_encRecipe {V D} (hc : c.RoundTrips) (ev : V → Json) (dv : Json → Option V)
    (ed : D → Json) (dd : Json → Option D) (fin : V → Prop) (norm : D → D)
    (hv : ∀ v, fin v → dv (ev v) = some v) (hnn : ∀ v, ev v ≠ .null)
    (r : FullRecipe α V D) (hd : dd (ed r.data) = some (norm r.data))
    (hfin : RecipeFinite fin r.recipe) (hm : RecipeModsKnown r.recipe) :
    decRecipe c dv dd (encRecipe c ev ed r) = some { r with data := norm r.data } := by
  have h1 := decList_encList encSection decSection r.recipe.sections (fun _ _ => decSection_encSection _)
  have h2 := decList_encList (encIngredient ev) (decIngredient dv) r.recipe.ingredients
    (fun i hi => decIngredient_encIngredient ev dv fin hv i (hfin.ingredients i hi) (hm.1 i hi))
  have h3 := decList_encList (encCookware ev) (decCookware dv) r.recipe.cookware
    (fun i hi => decCookware_encCookware ev dv fin hv hnn i (hfin.cookware i hi) (hm.2 i hi))
  have h4 := decList_encList (encTimer ev) (decTimer dv) r.recipe.timers
    (fun i hi => decTimer_encTimer ev dv fin hv i (hfin.timers i hi))
  have h5 := decList_encList (encQuantity (encValue c)) (decQuantity (decValue c)) r.recipe.inlineQuantities
    (fun q hq => decQuantity_encQuantity _ _ q (decValue_encValue c hc q.value (hfin.inlineQuantities q hq)))
  simp [encRecipe, decRecipe, Json.field, lookup, decMetadata_encMetadata, h1, h2, h3, h4, h5, hd]

end Types
end Cook.Serde
