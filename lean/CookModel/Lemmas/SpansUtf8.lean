import CookModel.Lemmas.SpansBytes
/-
  The last byte-level link of C04: Lean core's `UInt8.IsUTF8FirstByte` against the test Rust's
  `str::is_char_boundary` performs on a byte, `(b as i8) >= -0x40`, i.e. "`b` is not a continuation
  byte `10xxxxxx`".

  On arbitrary bytes the two differ (`0xF8 ..= 0xFF` are neither continuation bytes nor first bytes of
  any character).  On the bytes of an encoded string (`List.utf8Encode`, the bytes of `String.ofList`)
  they coincide: every byte of the encoding of a character after the first one has the form
  `x &&& 0x3f ||| 0x80`, and the first one is a first byte.
-/
namespace Cook

/-- "continuation byte" `10xxxxxx` -/
def isContByte (b : UInt8) : Bool := b &&& 0xC0 == 0x80

/-- the test of `u8::is_utf8_char_boundary` (core::num): `(self as i8) >= -0x40` -/
def rustIsBoundaryByte (b : UInt8) : Bool := decide (b.toInt8 ≥ -0x40)

theorem utf8b_all_bytes (P : UInt8 → Prop) (h : ∀ n, n < 256 → P (UInt8.ofNat n)) : ∀ b : UInt8, P b := by
  intro b
  have := h b.toNat b.toNat_lt
  simpa using this

/-- on every byte: Rust's signed comparison is "not `10xxxxxx`", is "`< 0x80` or `≥ 0xC0`" -/
theorem utf8b_rust_iff_not_cont : ∀ b : UInt8,
    rustIsBoundaryByte b = !isContByte b ∧ (isContByte b = true ↔ 0x80 ≤ b ∧ b < 0xC0) := by
  apply utf8b_all_bytes
  set_option maxRecDepth 100000 in decide

/-- a first byte is never a continuation byte (all 256 bytes) -/
theorem utf8b_first_not_cont : ∀ b : UInt8, b.IsUTF8FirstByte → isContByte b = false := by
  apply utf8b_all_bytes
  set_option maxRecDepth 100000 in decide

/-- the form of the non-first bytes of every encoded character is a continuation byte -/
theorem utf8b_cont_form : ∀ x : UInt8, isContByte (x &&& 0x3f ||| 0x80) = true := by
  apply utf8b_all_bytes
  set_option maxRecDepth 100000 in decide

/-- the bytes of one encoded character after the first are continuation bytes -/
theorem utf8b_char_tail_cont (c : Char) (i : Nat) (hi : i < (String.utf8EncodeChar c).length) (h0 : i ≠ 0) :
    isContByte ((String.utf8EncodeChar c)[i]) = true := by
  rcases c.utf8Size_eq with h | h | h | h
  · have := String.length_utf8EncodeChar c; omega
  · have e := String.utf8EncodeChar_eq_cons_cons h
    have hl : i < 2 := by rw [String.length_utf8EncodeChar] at hi; omega
    have hi1 : i = 1 := by omega
    subst hi1
    simp only [e, List.getElem_cons_succ, List.getElem_cons_zero]
    exact utf8b_cont_form _
  · have e := String.utf8EncodeChar_eq_cons_cons_cons h
    have hl : i < 3 := by rw [String.length_utf8EncodeChar] at hi; omega
    have hi1 : i = 1 ∨ i = 2 := by omega
    rcases hi1 with rfl | rfl <;>
    · simp only [e, List.getElem_cons_succ, List.getElem_cons_zero]
      exact utf8b_cont_form _
  · have e := String.utf8EncodeChar_eq_cons_cons_cons_cons h
    have hl : i < 4 := by rw [String.length_utf8EncodeChar] at hi; omega
    have hi1 : i = 1 ∨ i = 2 ∨ i = 3 := by omega
    rcases hi1 with rfl | rfl | rfl <;>
    · simp only [e, List.getElem_cons_succ, List.getElem_cons_zero]
      exact utf8b_cont_form _

/-- **on the bytes of an encoded string, "first byte of a character" is exactly "not a continuation byte"** -/
theorem utf8b_first_iff_not_cont (l : List Char) (p : Nat) (h : p < l.utf8Encode.size) :
    (l.utf8Encode[p]'h).IsUTF8FirstByte ↔ isContByte (l.utf8Encode[p]'h) = false := by
  refine ⟨utf8b_first_not_cont _, ?_⟩
  induction l generalizing p with
  | nil => simp at h
  | cons c t ih =>
    intro hc
    have hsz : [c].utf8Encode.size = (String.utf8EncodeChar c).length := by
      simp [List.utf8Encode_singleton]
    have hg : ∀ (q : Nat) (hq : q < ([c].utf8Encode ++ t.utf8Encode).size),
        ([c].utf8Encode ++ t.utf8Encode)[q]'hq = ((c :: t).utf8Encode[q]'(by rw [List.utf8Encode_cons]; exact hq)) := by
      intro q hq
      congr 1
      exact List.utf8Encode_cons.symm
    have hp' : p < ([c].utf8Encode ++ t.utf8Encode).size := by rw [← List.utf8Encode_cons]; exact h
    rw [← hg p hp'] at hc ⊢
    by_cases hlt : p < [c].utf8Encode.size
    · rw [ByteArray.getElem_append_left hlt] at hc ⊢
      have e : ([c].utf8Encode[p]'hlt) = (String.utf8EncodeChar c)[p]'(by rw [← hsz]; exact hlt) := by
        simp [List.utf8Encode_singleton]
      rw [e] at hc ⊢
      by_cases h0 : p = 0
      · subst h0; simp
      · rw [utf8b_char_tail_cont c p _ h0] at hc; cases hc
    · have hge : [c].utf8Encode.size ≤ p := Nat.le_of_not_lt hlt
      rw [ByteArray.getElem_append_right hge] at hc ⊢
      exact ih _ _ hc

/-- `Boundary 0 input p` is literally Rust's `str::is_char_boundary(p)`:
    `p == 0 || (p >= len ? p == len : (bytes[p] as i8) >= -0x40)`, on the bytes of the encoded string -/
theorem utf8b_boundary_iff_rust (l : List Char) (p : Nat) :
    Boundary 0 l p ↔
      p = 0 ∨ (if h : p < l.utf8Encode.size then rustIsBoundaryByte (l.utf8Encode[p]'h) = true
               else p = l.utf8Encode.size) := by
  rw [spansBytes_boundary_iff_first_byte]
  constructor
  · rintro (h | ⟨h, hb⟩)
    · right; rw [dif_neg (by omega)]; exact h
    · right; rw [dif_pos h, (utf8b_rust_iff_not_cont _).1, (utf8b_first_iff_not_cont l p h).1 hb]; rfl
  · rintro (h | h)
    · subst h
      by_cases hz : 0 < l.utf8Encode.size
      · right
        refine ⟨hz, ?_⟩
        cases l with
        | nil => simp at hz
        | cons c t =>
          have := spansBytes_boundary_iff_first_byte (c :: t) 0
          have hb : Boundary 0 (c :: t) 0 := Boundary.first
          rcases this.1 hb with h | ⟨_, h⟩
          · omega
          · exact h
      · left; omega
    · split at h
      · rename_i hlt
        right
        refine ⟨hlt, (utf8b_first_iff_not_cont l p hlt).2 ?_⟩
        rw [(utf8b_rust_iff_not_cont _).1] at h
        simpa using h
      · left; exact h

end Cook
