import CookModel.Lemmas.BindingsCombine
/-
  `merge_grouped_quantities` with a `right` of any size and `merge_ingredient_lists`
  (bindings/src/model.rs; public, not exported over the FFI): for kind-consistent maps neither panics and
  the result holds, under every (name, key), the stored value with the values of `right` added in
  iteration order.
-/
namespace Cook.Ffi
open Cook

variable {α : Type} [Arith α]
set_option linter.unusedSectionVars false

/-- the values `right` holds under `k`, in iteration order (at most one when `right` is a map) -/
def valuesAt (right : GroupedQuantity α) (k : GKey) : List (FValue α) :=
  (right.filter (fun p => decide (p.1 = k))).map (·.2)

theorem bmerge_valuesAt_cons (key : GKey) (value : FValue α) (rest : GroupedQuantity α) (k : GKey) :
    valuesAt ((key, value) :: rest) k = if key = k then value :: valuesAt rest k else valuesAt rest k := by
  unfold valuesAt
  by_cases h : key = k <;> simp [h]

theorem bmerge_grouped_spec (right : GroupedQuantity α) : ∀ (left : GroupedQuantity α),
    KindOK left → KindOK right →
    ∃ g', mergeGroupedQuantities left right = .ok g' ∧ KindOK g' ∧
      ((AList.keys left).Nodup → (AList.keys g').Nodup) ∧
      ∀ k, AList.get g' k = (valuesAt right k).foldl accum (AList.get left k) := by
  induction right with
  | nil => intro left hl _; exact ⟨left, rfl, hl, id, fun k => by simp [valuesAt]⟩
  | cons p rest ih =>
    intro left hl hr
    obtain ⟨key, value⟩ := p
    have hv : value.kind = key.unitType := hr (key, value) (by simp)
    have hrest : KindOK rest := fun q hq => hr q (by simp [hq])
    obtain ⟨l, hl1, hl2, hl3, hl4⟩ := entryModify_spec left key value hl hv
    obtain ⟨g', hg1, hg2, hg3, hg4⟩ := ih l hl2 hrest
    refine ⟨g', ?_, hg2, ?_, ?_⟩
    · simp only [mergeGroupedQuantities, hl1, bind, Except.bind]; exact hg1
    · intro h; apply hg3
      show (AList.keys l).Nodup
      rw [hl3]; exact nodup_keys_step _ _ h
    · intro k
      rw [hg4, hl4, bmerge_valuesAt_cons]
      by_cases h : key = k
      · subst h; simp
      · have h' : ¬ k = key := fun e => h e.symm
        simp [h, h']

theorem bmerge_entry_spec (m : IngredientList α) (name : Str) (q : GroupedQuantity α)
    (hm : AllKindOK m) (hq : KindOK q) :
    ∃ m', entryOrDefaultMerge m name q = .ok m' ∧ AllKindOK m' ∧
      ∀ n k, IngredientList.value m' n k =
        if n = name then (valuesAt q k).foldl accum (IngredientList.value m name k)
        else IngredientList.value m n k := by
  induction m with
  | nil =>
    obtain ⟨g, hg1, hg2, _, hg4⟩ := bmerge_grouped_spec q ([] : GroupedQuantity α) (fun p hp => by simp at hp) hq
    refine ⟨[(name, g)], by simp [entryOrDefaultMerge, hg1, Except.map], ?_, ?_⟩
    · intro p hp; simp at hp; subst hp; exact hg2
    · intro n k
      by_cases hn : n = name
      · subst hn
        simp [IngredientList.value, AList.get, hg4]
      · have : ¬ name = n := fun e => hn e.symm
        simp [IngredientList.value, AList.get, hn, this]
  | cons p rest ih =>
    obtain ⟨n0, g⟩ := p
    have hrest : AllKindOK rest := fun p hp => hm p (by simp [hp])
    have hg : KindOK g := hm (n0, g) (by simp)
    by_cases hn0 : n0 = name
    · subst hn0
      obtain ⟨g', hg1, hg2, _, hg4⟩ := bmerge_grouped_spec q g hg hq
      refine ⟨(n0, g') :: rest, by simp [entryOrDefaultMerge, hg1, Except.map], ?_, ?_⟩
      · intro p hp
        simp at hp
        rcases hp with rfl | hp
        · exact hg2
        · exact hrest p hp
      · intro n k
        simp only [value_cons, if_true]
        by_cases hn : n0 = n
        · subst hn; simp [hg4]
        · have : ¬ n = n0 := fun e => hn e.symm
          simp [hn, this]
    · obtain ⟨r', hr1, hr2, hr4⟩ := ih hrest
      refine ⟨(n0, g) :: r', by simp [entryOrDefaultMerge, hn0, hr1, Except.map], ?_, ?_⟩
      · intro p hp
        simp at hp
        rcases hp with rfl | hp
        · exact hg
        · exact hr2 p hp
      · intro n k
        simp only [value_cons, hr4, hn0, if_false]
        by_cases hn : n0 = n
        · subst hn
          have : ¬ n0 = name := hn0
          simp [this]
        · simp [hn]

/-- the values `right` holds under (`n`, `k`), in iteration order -/
def allValuesAt (right : IngredientList α) (n : Str) (k : GKey) : List (FValue α) :=
  (right.filter (fun p => decide (p.1 = n))).flatMap (fun p => valuesAt p.2 k)

theorem bmerge_lists_spec (right : IngredientList α) : ∀ (left : IngredientList α),
    AllKindOK left → AllKindOK right →
    ∃ m, mergeIngredientLists left right = .ok m ∧ AllKindOK m ∧
      ∀ n k, IngredientList.value m n k = (allValuesAt right n k).foldl accum (IngredientList.value left n k) := by
  induction right with
  | nil => intro left hl _; exact ⟨left, rfl, hl, fun n k => by simp [allValuesAt]⟩
  | cons p rest ih =>
    intro left hl hr
    obtain ⟨name, g⟩ := p
    have hg : KindOK g := hr (name, g) (by simp)
    have hrest : AllKindOK rest := fun q hq => hr q (by simp [hq])
    obtain ⟨l, hl1, hl2, hl4⟩ := bmerge_entry_spec left name g hl hg
    obtain ⟨m, hm1, hm2, hm4⟩ := ih l hl2 hrest
    refine ⟨m, ?_, hm2, ?_⟩
    · simp only [mergeIngredientLists, hl1, bind, Except.bind]; exact hm1
    · intro n k
      rw [hm4, hl4]
      unfold allValuesAt
      by_cases h : name = n
      · subst h
        simp [List.foldl_append]
      · have h' : ¬ n = name := fun e => h e.symm
        simp [h, h']

/-! ### when `right` is a map -/

theorem bmerge_valuesAt_of_nodup (g : GroupedQuantity α) (k : GKey) (h : (AList.keys g).Nodup) :
    valuesAt g k = (AList.get g k).toList := by
  induction g with
  | nil => rfl
  | cons p rest ih =>
    obtain ⟨k0, v⟩ := p
    simp only [AList.keys, List.map_cons, List.nodup_cons] at h
    rw [bmerge_valuesAt_cons]
    by_cases hk : k0 = k
    · subst hk
      have hnone : valuesAt rest k0 = [] := by
        rw [ih h.2, (AList.get_eq_none_iff rest k0).mpr h.1]; rfl
      simp [AList.get, hnone]
    · simp only [hk, if_false, AList.get]
      exact ih h.2

theorem bmerge_allValuesAt_of_map (right : IngredientList α) (n : Str) (k : GKey)
    (h : IngredientList.IsMap right) :
    allValuesAt right n k = (IngredientList.value right n k).toList := by
  obtain ⟨h1, h2⟩ := h
  induction right with
  | nil => rfl
  | cons p rest ih =>
    obtain ⟨n0, g⟩ := p
    simp only [List.map_cons, List.nodup_cons] at h1
    have hrest := ih h1.2 (fun q hq => h2 q (by simp [hq]))
    have hg : (AList.keys g).Nodup := h2 (n0, g) (by simp)
    unfold allValuesAt at hrest ⊢
    rw [value_cons]
    by_cases hn : n0 = n
    · subst hn
      have hnone : rest.filter (fun p => decide (p.1 = n0)) = [] := by
        rw [List.filter_eq_nil_iff]
        intro q hq
        simp only [decide_eq_true_eq]
        intro e
        exact h1.1 (List.mem_map.2 ⟨q, hq, e⟩)
      simp [hnone, bmerge_valuesAt_of_nodup g k hg]
    · simp only [List.filter_cons, hn, decide_false, if_false]
      exact hrest

/-- the value under a key after merging: left alone, right alone, or the stored value plus the added one -/
def mergedValue (l r : Option (FValue α)) : Option (FValue α) :=
  match l, r with
  | l, none => l
  | none, some v => some v
  | some s, some v => some (plus s v)

theorem bmerge_lists_map (left right : IngredientList α) (hl : AllKindOK left) (hr : AllKindOK right)
    (hmap : IngredientList.IsMap right) :
    ∃ m, mergeIngredientLists left right = .ok m ∧ AllKindOK m ∧
      ∀ n k, IngredientList.value m n k =
        mergedValue (IngredientList.value left n k) (IngredientList.value right n k) := by
  obtain ⟨m, h1, h2, h3⟩ := bmerge_lists_spec right left hl hr
  refine ⟨m, h1, h2, fun n k => ?_⟩
  rw [h3, bmerge_allValuesAt_of_map right n k hmap]
  cases IngredientList.value right n k <;> cases IngredientList.value left n k <;>
    simp [mergedValue, accum]

end Cook.Ffi
