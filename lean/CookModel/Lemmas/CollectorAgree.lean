import CookModel.Lemmas.CollectorMeta
import CookModel.Lemmas.MetaAgree
/-
  C14 at the level of the analysis result: without front matter, whenever both `parse` and
  `parse_metadata` have output, the metadata parts of the two results are equal.
-/
set_option linter.unusedSectionVars false
namespace Cook
variable {α : Type} [Arith α]

theorem pf_processEvent (m : MS) (env : Env) (input : Str) (ev : Ev α) (h : ev.isKey = false) :
    PF (α := α) m (processEvent env input ev) := by
  unfold processEvent
  cases ev <;> first
    | (simp [Ev.isKey] at h; done)
    | pf

def Ev.isErr : Ev α → Bool
  | .error _ => true
  | _ => false

/-- the state after processing all events (no early exit) -/
def finalOf (env : Env) (input : Str) (l : List (Ev α)) (s : Col α) : Col α :=
  l.foldl (fun s ev => (processEvent env input ev s).2) s

theorem loop_output (env : Env) (input : Str) : ∀ (l : List (Ev α)) (s r : Col α),
    (parseEventsLoop env input l s).output = some r →
    (∀ ev ∈ l, ev.isErr = false) ∧ r.ms = (finalOf env input l s).ms := by
  intro l
  induction l with
  | nil =>
    intro s r h
    simp only [parseEventsLoop, Option.some.injEq] at h
    refine ⟨by simp, ?_⟩
    rw [← h]
    simp only [finalOf, List.foldl_nil]
    split <;> split <;> rfl
  | cons ev rest ih =>
    intro s r h
    cases ev with
    | error d => simp [parseEventsLoop] at h
    | _ =>
      simp only [parseEventsLoop] at h
      obtain ⟨h1, h2⟩ := ih _ r h
      refine ⟨?_, by simpa [finalOf] using h2⟩
      intro e he
      simp only [List.mem_cons] at he
      rcases he with rfl | he
      · rfl
      · exact h1 e he

theorem final_keys (env : Env) (input : Str) : ∀ (l : List (Ev α)) (s s' : Col α), s.ms = s'.ms →
    (∀ ev ∈ l, ev.isKey = true → ∃ k v, ev = .metadata k v) →
    (finalOf env input l s).ms = (finalOf env input (l.filter Ev.isKey) s').ms := by
  intro l
  induction l with
  | nil => intro s s' h _; exact h
  | cons ev rest ih =>
    intro s s' h hk
    have hk' : ∀ e ∈ rest, e.isKey = true → ∃ k v, e = .metadata k v :=
      fun e he => hk e (List.mem_cons_of_mem _ he)
    simp only [finalOf, List.foldl_cons, List.filter_cons]
    cases hkey : ev.isKey with
    | true =>
      obtain ⟨k, v, rfl⟩ := hk ev (List.mem_cons_self ..) hkey
      simp only [if_true, List.foldl_cons]
      apply ih _ _ _ hk'
      have : processEvent (α := α) env input (.metadata k v) = metadataA env k v := rfl
      rw [this]
      exact ((sm_metadataA env k v).run s s' h).2
    | false =>
      simp only [Bool.false_eq_true, if_false]
      apply ih _ _ _ hk'
      exact ((pf_processEvent s.ms env input ev hkey).run s rfl).trans h

theorem events_agree (env : Env) (input : Str) (l1 l2 : List (Ev α))
    (hk : l1.filter Ev.isKey = l2.filter Ev.isKey)
    (hm : ∀ ev ∈ l2, ev.isKey = true → ∃ k v, ev = .metadata k v)
    (r1 r2 : Col α) (h1 : (parseEvents env input l1).output = some r1)
    (h2 : (parseEvents env input l2).output = some r2) : r1.ms = r2.ms := by
  unfold parseEvents at h1 h2
  obtain ⟨_, e1⟩ := loop_output env input l1 _ r1 h1
  obtain ⟨_, e2⟩ := loop_output env input l2 _ r2 h2
  have hm1 : ∀ ev ∈ l1, ev.isKey = true → ∃ k v, ev = .metadata k v := by
    intro ev he hkey
    have : ev ∈ l1.filter Ev.isKey := List.mem_filter.2 ⟨he, hkey⟩
    rw [hk] at this
    exact hm ev (List.mem_filter.1 this).1 hkey
  rw [e1, e2, final_keys env input l1 _ _ rfl hm1, final_keys env input l2 _ _ rfl hm, hk]

theorem entryOf_shape (cs : CharSpec) (ext : Ext) (b : List Tok) :
    ∀ ev, entryOf (α := α) cs ext b = some ev → ∃ k v, ev = .metadata k v :=
  ((mf_metadataEntry_ret (α := α)).run _).2

theorem newOf_shape (r : Option (Ev α)) (h : ∀ ev, r = some ev → ∃ k v, ev = .metadata k v) :
    ∀ ev ∈ newOf r, ∃ k v, ev = .metadata k v := by
  intro ev hev
  cases r with
  | none => simp [newOf] at hev
  | some e =>
    obtain ⟨k, v, rfl⟩ := h e rfl
    simp [newOf, Ev.isKey] at hev
    exact ⟨k, v, hev⟩

theorem fold_meta_shape (cs : CharSpec) (ext : Ext) : ∀ (bs : List (List Tok)), (∀ b ∈ bs, b ≠ []) →
    ∀ (acc : Array (Ev α) × Option String), (∀ ev ∈ metaOf acc.1, ∃ k v, ev = .metadata k v) →
    ∀ ev ∈ metaOf (bs.foldl (fun acc b => runMetaBlock (α := α) cs ext b acc.1 acc.2) acc).1,
      ∃ k v, ev = .metadata k v := by
  intro bs
  induction bs with
  | nil => intro _ acc h; exact h
  | cons b bs ih =>
    intro hne acc h
    simp only [List.foldl_cons]
    apply ih (fun b' hb' => hne b' (List.mem_cons_of_mem _ hb'))
    intro ev hev
    rw [runMetaBlock_meta cs ext b acc.1 acc.2 (hne b (List.mem_cons_self ..))] at hev
    rcases List.mem_append.1 hev with hev | hev
    · exact h ev hev
    · exact newOf_shape _ (entryOf_shape cs ext b) ev hev

theorem pullMeta_keys_shape (cs : CharSpec) (ext : Ext) (input : List Char)
    (h : parseFrontmatter cs input = none) :
    ∀ ev ∈ (pullMetaEvents (α := α) cs ext input).1.toList, ev.isKey = true → ∃ k v, ev = .metadata k v := by
  intro ev hev hkey
  have hm : ev ∈ metaOf (pullMetaEvents (α := α) cs ext input).1 := List.mem_filter.2 ⟨hev, hkey⟩
  revert hm
  unfold pullMetaEvents
  simp only [h]
  have e := blocks_meta_eq (lex cs input).length (lex cs input) (Nat.le_refl _)
  unfold metaBlocksOf at e
  rw [e]
  apply fold_meta_shape
  · intro b hb
    exact (blocks_all_infix _ _ b (List.mem_filter.1 hb).1).1
  · intro ev hev; simp [metaOf] at hev

/-- without front matter: whenever both analyses have output, their metadata parts are equal -/
theorem analysis_agree (env : Env) (input : Str) (h : parseFrontmatter env.cs input = none)
    (r1 r2 : Col α) (h1 : (parseRecipe (α := α) env input).output = some r1)
    (h2 : (parseMetadata (α := α) env input).output = some r2) : r1.ms = r2.ms := by
  unfold parseRecipe at h1
  unfold parseMetadata at h2
  simp only at h1 h2
  exact events_agree env input _ _ (metadata_events_agree env.cs env.ext input h)
    (pullMeta_keys_shape env.cs env.ext input h) r1 r2 h1 h2

end Cook
