import CookModel.Lemmas.Serde
/- C15 — lemmas added by the clause audit (notes/audit-C15.md): the default payload is a fixed point of reading back;
   over exact rationals every number is finite. -/
namespace Cook.Serde
open Cook

theorem ScaleOutcome.normalize_idem (o : ScaleOutcome) : o.normalize.normalize = o.normalize := by
  cases o <;> rfl

theorem Scaled.normalize_idem {α : Type} (d : Scaled α) : d.normalize.normalize = d.normalize := by
  cases d with
  | defaultScaling => rfl
  | scaled f i cw t =>
    simp only [Scaled.normalize, List.map_map]
    have : (ScaleOutcome.normalize ∘ ScaleOutcome.normalize) = ScaleOutcome.normalize := by
      funext o; exact ScaleOutcome.normalize_idem o
    rw [this]

theorem scaledFinite_normalize {α : Type} [Arith α] (d : Scaled α) (h : scaledFinite d) : scaledFinite d.normalize := by
  cases d <;> exact h

/-- over exact rationals every number is finite -/
theorem recipeFinite_rat {V : Type} (fin : V → Prop) (hfin : ∀ v, fin v) (r : Recipe Rat V) : RecipeFinite fin r := by
  have hv : ∀ v : Value Rat, valueFinite v := by
    intro v
    cases v with
    | number n => cases n <;> simp [valueFinite, numberFinite, Arith.isFinite]
    | range s e => cases s <;> cases e <;> simp [valueFinite, numberFinite, Arith.isFinite]
    | text t => trivial
  constructor
  · intro i _; cases i.quantity <;> simp [optFinite, hfin]
  · intro i _; cases i.quantity <;> simp [optFinite, hfin]
  · intro i _; cases i.quantity <;> simp [optFinite, hfin]
  · intro q _; exact hv q.value

theorem valueFinite_rat (v : Value Rat) : valueFinite v := by
  cases v with
  | number n => cases n <;> simp [valueFinite, numberFinite, Arith.isFinite]
  | range s e => cases s <;> cases e <;> simp [valueFinite, numberFinite, Arith.isFinite]
  | text t => trivial

theorem scalableFinite_rat (v : ScalableValue Rat) : scalableFinite v := by
  cases v <;> exact valueFinite_rat _

theorem scaledFinite_rat (d : Scaled Rat) : scaledFinite d := by
  cases d <;> simp [scaledFinite, Arith.isFinite]

end Cook.Serde
