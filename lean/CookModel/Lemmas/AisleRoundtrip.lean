import CookModel.Lemmas.AisleWF
/-
  `WF c → parse (write c) = .ok c`.
  The written text is a list of lines (header, ingredient lines, blank) per category; each
  of them is re-read by one iteration of the loop exactly as it was written.
-/
namespace Cook.Aisle

/-! ### joined names -/

theorem head?_joinSep (sep c : Char) (ps : List (List Char)) (h : (joinSep sep ps).head? = some c) :
    c = sep ∨ ∃ p ∈ ps, p.head? = some c := by
  induction ps with
  | nil => simp [joinSep] at h
  | cons p qs ih =>
    cases qs with
    | nil => exact Or.inr ⟨p, by simp, by simpa [joinSep] using h⟩
    | cons q qs =>
      rw [joinSep] at h
      cases p with
      | nil => simp at h; exact Or.inl h.symm
      | cons x xs => exact Or.inr ⟨x :: xs, by simp, by simpa using h⟩

theorem getLast?_joinSep (sep c : Char) (ps : List (List Char)) (h : (joinSep sep ps).getLast? = some c) :
    c = sep ∨ ∃ p ∈ ps, p.getLast? = some c := by
  induction ps with
  | nil => simp [joinSep] at h
  | cons p qs ih =>
    cases qs with
    | nil => exact Or.inr ⟨p, by simp, by simpa [joinSep] using h⟩
    | cons q qs =>
      rw [joinSep, getLast?_append_cons] at h
      cases hj : joinSep sep (q :: qs) with
      | nil => rw [hj] at h; simp at h; exact Or.inl h.symm
      | cons y ys =>
        rw [hj, List.getLast?_cons_cons, ← hj] at h
        rcases ih h with h' | ⟨p', hp', hl⟩
        · exact Or.inl h'
        · exact Or.inr ⟨p', List.mem_cons_of_mem _ hp', hl⟩

theorem noWs_joinBar (ns : List (List Char)) (h : ∀ n ∈ ns, trimChars n = n) :
    NoWsHead (joinBar ns) ∧ NoWsLast (joinBar ns) := by
  constructor
  · intro c hc
    rcases head?_joinSep '|' c ns hc with rfl | ⟨p, hp, hh⟩
    · exact bar_not_ws
    · exact (noWs_of_trimmed p (h p hp)).1 c hh
  · intro c hc
    rcases getLast?_joinSep '|' c ns hc with rfl | ⟨p, hp, hh⟩
    · exact bar_not_ws
    · exact (noWs_of_trimmed p (h p hp)).2 c hh

theorem hasComment_joinBar (ns : List (List Char)) (h : ∀ n ∈ ns, hasComment n = false) :
    hasComment (joinBar ns) = false := by
  induction ns with
  | nil => rfl
  | cons p qs ih =>
    cases qs with
    | nil => simpa [joinSep] using h p (by simp)
    | cons q qs =>
      rw [joinBar, joinSep]
      exact hasComment_sep p _ '|' (by decide) (h p (by simp)) (ih (fun n hn => h n (List.mem_cons_of_mem _ hn)))

theorem newline_joinBar (ns : List (List Char)) (h : ∀ n ∈ ns, '\n' ∉ n) : '\n' ∉ joinBar ns := by
  induction ns with
  | nil => simp [joinSep]
  | cons p qs ih =>
    cases qs with
    | nil => simpa [joinSep] using h p (by simp)
    | cons q qs =>
      rw [joinBar, joinSep]
      have := ih (fun n hn => h n (List.mem_cons_of_mem _ hn))
      simp only [List.mem_append, List.mem_cons, not_or]
      exact ⟨h p (by simp), by decide, this⟩

/-! ### one written line, read again -/

theorem line_chars' (raw : Slice) :
    (trim (stripComment raw)).chars = trimChars (stripCommentChars raw.chars) := by
  rw [trim_chars]; rfl

/-- a line whose text is clean (no comment, trimmed) is seen by the loop as it is -/
theorem line_clean (raw : Slice) (L : List Char) (hr : raw.chars = L) (hc : hasComment L = false)
    (h1 : NoWsHead L) (h2 : NoWsLast L) : (trim (stripComment raw)).chars = L := by
  rw [line_chars', hr, strip_of_noComment L hc, trimChars_of_noWs L h1 h2]

theorem header_noComment (n : List Char) (h : hasComment n = false) : hasComment ('[' :: n ++ [']']) = false := by
  have h1 : hasComment (n ++ ']' :: []) = false := hasComment_sep n [] ']' (by decide) h rfl
  exact hasComment_sep [] (n ++ [']']) '[' (by decide) rfl h1

theorem header_noWs (n : List Char) : NoWsHead ('[' :: n ++ [']']) ∧ NoWsLast ('[' :: n ++ [']']) := by
  constructor
  · intro c hc; simp at hc; subst hc; exact lbr_not_ws
  · intro c hc
    have : ('[' :: n ++ [']']).getLast? = some ']' := by
      rw [show '[' :: n ++ [']'] = ('[' :: n) ++ ']' :: [] by simp, getLast?_append_cons]; rfl
    rw [this] at hc; cases hc; exact rbr_not_ws

theorem header_isCat (n : List Char) : isCatLine ('[' :: n ++ [']']) = true := by
  have : ('[' :: n ++ [']']).getLast? = some ']' := by
    rw [show '[' :: n ++ [']'] = ('[' :: n) ++ ']' :: [] by simp, getLast?_append_cons]; rfl
  unfold isCatLine; rw [this]; rfl

theorem header_inner (n : List Char) : innerChars ('[' :: n ++ [']']) = n := by
  simp [innerChars]

theorem stepLine_header (inLen : Nat) (st : St) (raw : Slice) (n : List Char)
    (hr : raw.chars = '[' :: n ++ [']']) (hn : CatNameOK n) (hfresh : n ∉ st.usedCats.map (·.chars)) :
    ∃ nm : Slice, nm.chars = n ∧
      stepLine inLen st raw = .ok ⟨pushCur st, some ⟨n, []⟩, nm :: st.usedCats, st.usedNames⟩ := by
  have hl := line_clean raw _ hr (header_noComment n hn.noComment) (header_noWs n).1 (header_noWs n).2
  have hin : (inner (trim (stripComment raw))).chars = n := by
    simp only [inner]; rw [hl, header_inner]
  refine ⟨inner (trim (stripComment raw)), hin, ?_⟩
  unfold stepLine
  rw [if_pos (by rw [hl]; exact header_isCat n)]
  unfold catLine
  rw [if_neg (by rw [hl]; simp)]
  rw [if_neg (by rw [hin]; simpa using hn.noBar)]
  rw [hin, findUsed_none_of hfresh]

theorem stepLine_blank (inLen : Nat) (st : St) (raw : Slice) (hr : raw.chars = []) :
    stepLine inLen st raw = .ok st := by
  have hl : (trim (stripComment raw)).chars = [] := by
    rw [line_chars', hr]; rfl
  unfold stepLine
  rw [hl]; rfl

theorem addNames_fresh (inLen : Nat) (segs used : List Slice)
    (hnd : (segs.map fun s => trimChars s.chars).Nodup)
    (hfresh : ∀ m ∈ segs.map (fun s => trimChars s.chars), m ∉ used.map (·.chars)) :
    ∃ used', addNames inLen used segs = .ok used' ∧
      used'.map (·.chars) = (segs.map fun s => trimChars s.chars).reverse ++ used.map (·.chars) := by
  induction segs generalizing used with
  | nil => exact ⟨used, rfl, by simp⟩
  | cons seg rest ih =>
    simp only [List.map_cons, List.nodup_cons] at hnd
    have hf0 : (trim seg).chars ∉ used.map (·.chars) := by
      rw [trim_chars]; exact hfresh _ (by simp)
    obtain ⟨used', h1, h2⟩ := ih (trim seg :: used) hnd.2 (by
      intro m hm
      simp only [List.map_cons, List.mem_cons, not_or]
      refine ⟨?_, hfresh m (by simp only [List.map_cons]; exact List.mem_cons_of_mem _ hm)⟩
      rw [trim_chars]; intro e; subst e; exact hnd.1 hm)
    refine ⟨used', ?_, ?_⟩
    · unfold addNames; rw [findUsed_none_of hf0]; exact h1
    · rw [h2]; simp [trim_chars]

theorem stepLine_igr (inLen : Nat) (st : St) (raw : Slice) (ns : List (List Char)) (cat : Category)
    (hr : raw.chars = joinBar ns) (hw : IgrWF ns) (hcur : st.cur = some cat)
    (hnd : ns.Nodup) (hfresh : ∀ n ∈ ns, n ∉ st.usedNames.map (·.chars)) :
    ∃ used', used'.map (·.chars) = ns.reverse ++ st.usedNames.map (·.chars) ∧
      stepLine inLen st raw =
        .ok ⟨st.cats, some ⟨cat.name, cat.ingredients ++ [⟨ns⟩]⟩, st.usedCats, used'⟩ := by
  have hnw := noWs_joinBar ns (fun n h => (hw.names n h).trimmed)
  have hl := line_clean raw _ hr (hasComment_joinBar ns (fun n h => (hw.names n h).noComment)) hnw.1 hnw.2
  have hpieces : pieces '|' (joinBar ns) = ns := pieces_joinSep '|' ns hw.nonempty (fun n h => (hw.names n h).noBar)
  have htrim : ns.map trimChars = ns := by
    conv => rhs; rw [← List.map_id ns]
    exact List.map_congr_left (fun n h => (hw.names n h).trimmed)
  have hsegs : ((slicesFrom (trim (stripComment raw)).off (pieces '|' (trim (stripComment raw)).chars)).map
      fun s => trimChars s.chars) = ns := by
    rw [slicesFrom_map_trim, hl, hpieces, htrim]
  obtain ⟨used', h1, h2⟩ := addNames_fresh inLen _ st.usedNames (by rw [hsegs]; exact hnd) (by rw [hsegs]; exact hfresh)
  rw [hsegs] at h2
  refine ⟨used', h2, ?_⟩
  unfold stepLine
  rw [if_neg (by rw [hl]; simp [hw.notCat])]
  rw [if_pos (by rw [hl]; simpa using hw.notBlank)]
  unfold igrLine
  rw [h1]
  simp only [hcur]
  rw [hl, hpieces, htrim]

/-! ### many lines -/

theorem parseLines_append (inLen : Nat) (a b : List Slice) (st st1 : St)
    (h : parseLines inLen st a = .ok st1) : parseLines inLen st (a ++ b) = parseLines inLen st1 b := by
  induction a generalizing st with
  | nil => simp only [parseLines] at h; cases h; rfl
  | cons l ls ih =>
    simp only [List.cons_append, parseLines] at h ⊢
    cases hs : stepLine inLen st l with
    | error e => rw [hs] at h; cases h
    | ok st2 => rw [hs] at h; simp only at h ⊢; exact ih st2 h

theorem parseLines_igrs (inLen : Nat) (is : List Ingredient) (ms : List Slice) (st : St) (cat : Category)
    (hm : ms.map (·.chars) = is.map fun i => joinBar i.names) (hcur : st.cur = some cat)
    (hw : ∀ i ∈ is, IgrWF i.names) (hnd : (is.flatMap (·.names)).Nodup)
    (hfresh : ∀ n ∈ is.flatMap (·.names), n ∉ st.usedNames.map (·.chars)) :
    ∃ used', used'.map (·.chars) = (is.flatMap (·.names)).reverse ++ st.usedNames.map (·.chars) ∧
      parseLines inLen st ms = .ok ⟨st.cats, some ⟨cat.name, cat.ingredients ++ is⟩, st.usedCats, used'⟩ := by
  induction is generalizing ms st cat with
  | nil =>
    simp only [List.map_nil, List.map_eq_nil_iff] at hm; subst hm
    refine ⟨st.usedNames, by simp, ?_⟩
    simp only [parseLines, List.append_nil]
    cases st; cases cat; simp_all
  | cons i is ih =>
    obtain ⟨m, ms', rfl, hm1, hm2⟩ := List.map_eq_cons_iff.1 hm
    simp only [List.flatMap_cons, List.nodup_append] at hnd
    obtain ⟨u1, hu1, hs1⟩ := stepLine_igr inLen st m i.names cat hm1 (hw i (by simp)) hcur hnd.1
      (fun n hn => hfresh n (by simp [hn]))
    obtain ⟨u2, hu2, hs2⟩ := ih ms' ⟨st.cats, some ⟨cat.name, cat.ingredients ++ [⟨i.names⟩]⟩, st.usedCats, u1⟩
      ⟨cat.name, cat.ingredients ++ [⟨i.names⟩]⟩ hm2 rfl (fun j hj => hw j (List.mem_cons_of_mem _ hj)) hnd.2.1 (by
        intro n hn; rw [hu1]
        simp only [List.mem_append, List.mem_reverse, not_or]
        exact ⟨fun h => hnd.2.2 _ h _ hn rfl, hfresh n (by simp only [List.flatMap_cons, List.mem_append]; exact Or.inr hn)⟩)
    refine ⟨u2, ?_, ?_⟩
    · rw [hu2, hu1]; simp
    · unfold parseLines; rw [hs1]; simp only; rw [hs2]; simp

/-- the lines `write` produces for one category -/
def catLines (cat : Category) : List (List Char) :=
  ('[' :: cat.name ++ [']']) :: (cat.ingredients.map fun i => joinBar i.names) ++ [[]]

theorem parseLines_cat (inLen : Nat) (cat : Category) (ls : List Slice) (st : St)
    (hl : ls.map (·.chars) = catLines cat) (hw : CatWF cat)
    (hcf : cat.name ∉ st.usedCats.map (·.chars))
    (hnd : (cat.ingredients.flatMap (·.names)).Nodup)
    (hfresh : ∀ n ∈ cat.ingredients.flatMap (·.names), n ∉ st.usedNames.map (·.chars)) :
    ∃ nm used', nm.chars = cat.name ∧
      used'.map (·.chars) = (cat.ingredients.flatMap (·.names)).reverse ++ st.usedNames.map (·.chars) ∧
      parseLines inLen st ls = .ok ⟨pushCur st, some cat, nm :: st.usedCats, used'⟩ := by
  unfold catLines at hl
  obtain ⟨hdr, rest, rfl, hh, hrest⟩ := List.map_eq_cons_iff.1 hl
  obtain ⟨ms, bl, rfl, hms, hbl⟩ := List.map_eq_append_iff.1 hrest
  obtain ⟨b, bs, rfl, hb, hbs⟩ := List.map_eq_cons_iff.1 hbl
  simp only [List.map_eq_nil_iff] at hbs; subst hbs
  obtain ⟨nm, hnm, hs0⟩ := stepLine_header inLen st hdr cat.name hh hw.name hcf
  obtain ⟨used', hu, hs1⟩ := parseLines_igrs inLen cat.ingredients ms
    ⟨pushCur st, some ⟨cat.name, []⟩, nm :: st.usedCats, st.usedNames⟩ ⟨cat.name, []⟩ hms rfl hw.igrs hnd hfresh
  refine ⟨nm, used', hnm, hu, ?_⟩
  unfold parseLines; rw [hs0]; simp only
  rw [parseLines_append inLen ms [b] _ _ hs1]
  unfold parseLines; rw [stepLine_blank inLen _ b hb]
  simp [parseLines]

theorem parseLines_cats (inLen : Nat) (cs : List Category) (ls : List Slice) (st : St)
    (hl : ls.map (·.chars) = cs.flatMap catLines) (hw : ∀ c ∈ cs, CatWF c)
    (hcn : (cs.map (·.name)).Nodup) (hcf : ∀ c ∈ cs, c.name ∉ st.usedCats.map (·.chars))
    (hnd : (allNames cs).Nodup) (hfresh : ∀ n ∈ allNames cs, n ∉ st.usedNames.map (·.chars)) :
    ∃ st', parseLines inLen st ls = .ok st' ∧ pushCur st' = pushCur st ++ cs := by
  induction cs generalizing ls st with
  | nil =>
    simp only [List.flatMap_nil, List.map_eq_nil_iff] at hl; subst hl
    exact ⟨st, rfl, by simp⟩
  | cons c cs ih =>
    simp only [List.flatMap_cons] at hl
    obtain ⟨l1, l2, rfl, h1, h2⟩ := List.map_eq_append_iff.1 hl
    simp only [List.map_cons, List.nodup_cons] at hcn
    simp only [allNames, List.flatMap_cons, List.nodup_append] at hnd
    have hfr1 : ∀ n ∈ c.ingredients.flatMap (·.names), n ∉ st.usedNames.map (·.chars) :=
      fun n hn => hfresh n (by simp only [allNames, List.flatMap_cons, List.mem_append]; exact Or.inl hn)
    obtain ⟨nm, used', hnm, hu, hp⟩ := parseLines_cat inLen c l1 st h1 (hw c (by simp)) (hcf c (by simp)) hnd.1 hfr1
    obtain ⟨st', hs', hp'⟩ := ih l2 ⟨pushCur st, some c, nm :: st.usedCats, used'⟩ h2
      (fun x hx => hw x (List.mem_cons_of_mem _ hx)) hcn.2
      (by
        intro x hx
        simp only [List.map_cons, List.mem_cons, not_or, hnm]
        refine ⟨?_, hcf x (List.mem_cons_of_mem _ hx)⟩
        intro e; exact hcn.1 (by rw [← e]; exact List.mem_map_of_mem hx))
      hnd.2.1
      (by
        intro n hn
        simp only [hu, List.mem_append, List.mem_reverse, not_or]
        refine ⟨fun h => hnd.2.2 _ h _ hn rfl, hfresh n ?_⟩
        simp only [allNames, List.flatMap_cons, List.mem_append]; exact Or.inr hn)
    refine ⟨st', ?_, ?_⟩
    · rw [parseLines_append inLen l1 l2 _ _ hp]; exact hs'
    · rw [hp']; simp [pushCur]

/-! ### the written text -/

theorem writeIgrs_eq (is : List Ingredient) (h : ∀ i ∈ is, i.names ≠ []) :
    is.flatMap writeIgr = (is.map fun i => joinBar i.names).flatMap (· ++ ['\n']) := by
  induction is with
  | nil => rfl
  | cons i is ih =>
    have hi : i.names.isEmpty = false := by simpa using h i (by simp)
    simp only [List.flatMap_cons, List.map_cons, writeIgr, hi]
    rw [ih (fun j hj => h j (List.mem_cons_of_mem _ hj))]
    simp

theorem writeCat_eq (cat : Category) (h : ∀ i ∈ cat.ingredients, i.names ≠ []) :
    writeCat cat = (catLines cat).flatMap (· ++ ['\n']) := by
  unfold writeCat catLines
  rw [writeIgrs_eq _ h]
  simp

theorem write_eq (c : Conf) (h : ∀ cat ∈ c.categories, ∀ i ∈ cat.ingredients, i.names ≠ []) :
    write c = (c.categories.flatMap catLines).flatMap (· ++ ['\n']) := by
  unfold write
  generalize c.categories = cs at h
  induction cs with
  | nil => rfl
  | cons cat cs ih =>
    simp only [List.flatMap_cons, List.flatMap_append]
    rw [writeCat_eq cat (h cat (by simp)), ih (fun x hx => h x (List.mem_cons_of_mem _ hx))]

theorem lbr_ne_newline : '\n' ≠ '[' := by decide
theorem rbr_ne_newline : '\n' ≠ ']' := by decide

theorem catLines_clean (cat : Category) (hw : CatWF cat) :
    ∀ l ∈ catLines cat, '\n' ∉ l ∧ stripCRChars l = l := by
  intro l hl
  unfold catLines at hl
  simp only [List.cons_append, List.mem_cons, List.mem_append, List.mem_map] at hl
  rcases hl with rfl | ⟨i, hi, rfl⟩ | hl
  · refine ⟨?_, stripCR_of_noWsLast _ (header_noWs cat.name).2⟩
    simp only [List.mem_cons, List.mem_append, not_or]
    exact ⟨lbr_ne_newline, hw.name.noNewline, rbr_ne_newline, by simp⟩
  · have hi' := hw.igrs i hi
    exact ⟨newline_joinBar _ (fun n hn => (hi'.names n hn).noNewline),
      stripCR_of_noWsLast _ (noWs_joinBar _ (fun n hn => (hi'.names n hn).trimmed)).2⟩
  · rcases hl with rfl | hl
    · exact ⟨by simp, rfl⟩
    · simp at hl

/-- writing a well-formed configuration and parsing the text gives the configuration back -/
theorem parse_write (c : Conf) (hw : WF c) : parse (write c) = .ok c := by
  have hne : ∀ cat ∈ c.categories, ∀ i ∈ cat.ingredients, i.names ≠ [] :=
    fun cat hc i hi => ((hw.cats cat hc).igrs i hi).nonempty
  have hclean : ∀ l ∈ c.categories.flatMap catLines, '\n' ∉ l ∧ stripCRChars l = l := by
    intro l hl
    obtain ⟨cat, hc, hl⟩ := List.mem_flatMap.1 hl
    exact catLines_clean cat (hw.cats cat hc) l hl
  have hlines : (lines (write c)).map (·.chars) = c.categories.flatMap catLines := by
    rw [write_eq c hne, lines_written _ (fun l hl => (hclean l hl).1)]
    conv => rhs; rw [← List.map_id (c.categories.flatMap catLines)]
    exact List.map_congr_left (fun l hl => (hclean l hl).2)
  obtain ⟨st', hs, hp⟩ := parseLines_cats (utf8Len (write c)) c.categories (lines (write c)) St.init hlines hw.cats
    hw.catsNodup (by simp [St.init]) hw.namesNodup (by simp [St.init])
  unfold parse
  rw [hs]
  simp only [hp]
  simp [St.init, pushCur]

end Cook.Aisle
