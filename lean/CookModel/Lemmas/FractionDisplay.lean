import CookModel.Num.Number
import CookModel.Lemmas.Fraction
/-
  Reading the printed form of a fraction back (audit of C12, clause "the printed form `w n/d`
  denotes exactly that fraction"): a small reader of the strings `w`, `n/d`, `w n/d` and the theorem
  that it returns `FracForm.denote` on every string `FracForm.render` produces.
  Specification side only (no code is modelled here).  Names carry the prefix `frd_`.
-/
namespace Cook

/-- a non-empty run of decimal digits at the front: its value and the rest -/
def readNatPrefix (cs : List Char) : Option (Nat × List Char) :=
  if cs.takeWhile Char.isDigit = [] then none
  else some (Nat.ofDigitChars 10 (cs.takeWhile Char.isDigit) 0, cs.dropWhile Char.isDigit)

/-- what a reader understands by `w`, `n/d` or `w n/d` (decimal numerals, one space, one slash,
    nothing else); `none` for every other string -/
def readFraction (cs : List Char) : Option Rat :=
  match readNatPrefix cs with
  | none => none
  | some (a, []) => some (a : Rat)
  | some (a, '/' :: r) =>
    (match readNatPrefix r with
     | some (d, []) => some ((a : Rat) / (d : Rat))
     | _ => none)
  | some (a, ' ' :: r) =>
    (match readNatPrefix r with
     | some (n, '/' :: r2) =>
       (match readNatPrefix r2 with
        | some (d, []) => some ((a : Rat) + (n : Rat) / (d : Rat))
        | _ => none)
     | _ => none)
  | some (_, _ :: _) => none

theorem frd_span (ds r : List Char) (h : ∀ c ∈ ds, c.isDigit = true)
    (hr : ∀ c ∈ r.head?, c.isDigit = false) :
    (ds ++ r).takeWhile Char.isDigit = ds ∧ (ds ++ r).dropWhile Char.isDigit = r := by
  induction ds with
  | nil =>
    cases r with
    | nil => simp
    | cons c r' =>
      have : c.isDigit = false := hr c (by simp)
      simp [this]
  | cons d ds ih =>
    have hd : d.isDigit = true := h d (by simp)
    have := ih (fun c hc => h c (by simp [hc]))
    simp [hd, this.1, this.2]

/-- the decimal numeral of `n` followed by something that does not start with a digit reads as `n` -/
theorem frd_readNat (n : Nat) (r : List Char) (hr : ∀ c ∈ r.head?, c.isDigit = false) :
    readNatPrefix (Nat.toDigits 10 n ++ r) = some (n, r) := by
  have hs := frd_span (Nat.toDigits 10 n) r
    (fun c hc => Nat.isDigit_of_mem_toDigits (by decide) (by decide) hc) hr
  unfold readNatPrefix
  rw [hs.1, hs.2]
  simp [Nat.toDigits_ne_nil]

theorem frd_render_toList (f : FracForm) :
    f.render.toList = match f with
      | .zero => ['0']
      | .frac n d => Nat.toDigits 10 n ++ '/' :: Nat.toDigits 10 d
      | .whole w => Nat.toDigits 10 w
      | .mixed w n d => Nat.toDigits 10 w ++ ' ' :: (Nat.toDigits 10 n ++ '/' :: Nat.toDigits 10 d) := by
  cases f <;> simp [FracForm.render, String.toList_append, toString]

/-- reading a printed fraction back gives what it denotes, for every print shape -/
theorem frd_read_render (f : FracForm) : readFraction f.render.toList = some f.denote := by
  rw [frd_render_toList]
  have hnil : ∀ n, readNatPrefix (Nat.toDigits 10 n) = some (n, []) := by
    intro n
    have := frd_readNat n [] (by simp)
    simpa using this
  cases f with
  | zero =>
    have : readNatPrefix ['0'] = some (0, []) := by decide
    simp [readFraction, this, FracForm.denote]
  | frac n d =>
    simp only [readFraction, frd_readNat n ('/' :: Nat.toDigits 10 d) (by simp), hnil d,
      FracForm.denote]
  | whole w =>
    simp only [readFraction, hnil w, FracForm.denote]
  | mixed w n d =>
    simp only [readFraction,
      frd_readNat w (' ' :: (Nat.toDigits 10 n ++ '/' :: Nat.toDigits 10 d)) (by simp),
      frd_readNat n ('/' :: Nat.toDigits 10 d) (by simp), hnil d, FracForm.denote]

end Cook
