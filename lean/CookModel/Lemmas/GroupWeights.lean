import CookModel.Lemmas.Group
/-
  The weights C10 is about, and the proofs that they are additive over `try_add` / `join` and
  invariant under `fit`:

    * `measure c q` classifies a numeric quantity (physical quantity of its unit / unknown unit
      text / no unit) and gives its two ends, for a known unit as amounts in the base unit;
    * `wEnd hi c cls` : the lower (`hi = false`) or upper end of `q` if `q` belongs to `cls`;
    * `wText t`       : 1 if `q` is the text quantity `t`.
-/
namespace Cook
open Arith

/-- the two ends a numeric value states (`Number::value`, fraction error included) -/
def Value.bounds : Value Rat → Option (Rat × Rat)
  | .number n => some (n.value, n.value)
  | .range s e => some (s.value, e.value)
  | .text _ => none

/-- what quantities are summed together -/
inductive QClass where
  | known (pq : PhysQ)
  | unknown (unit : Str)
  | noUnit
deriving DecidableEq, Repr

/-- class of a numeric quantity and its two ends (base-unit amounts for a known unit) -/
def measure (c : Converter Rat) (q : SQuantity Rat) : Option (QClass × Rat × Rat) :=
  match q.value.bounds with
  | none => none
  | some b =>
    match q.unit with
    | none => some (.noUnit, b.1, b.2)
    | some k =>
      match c.findUnit k with
      | some u => some (.known u.pq, amount b.1 u, amount b.2 u)
      | none => some (.unknown k, b.1, b.2)

/-- a class whose sums do not depend on the unit they are made in: the units of the physical
    quantity have no offset (every shipped quantity except temperature) -/
def LinearClass (c : Converter Rat) : QClass → Prop
  | .known pq => ∀ u, u ∈ c.allUnits → u.pq = pq → u.difference = 0
  | _ => True

def wEnd (hi : Bool) (c : Converter Rat) (cls : QClass) (q : SQuantity Rat) : Rat :=
  match measure c q with
  | some m => if m.1 = cls then (if hi then m.2.2 else m.2.1) else 0
  | none => 0

def wText (t : SQuantity Rat) (q : SQuantity Rat) : Rat :=
  if q.value.isText = true ∧ q = t then 1 else 0

/-! ### values -/

theorem bounds_none_iff (v : Value Rat) : v.bounds = none ↔ v.isText = true := by
  cases v <;> simp [Value.bounds, Value.isText]

theorem tryAdd_bounds {a b v : Value Rat} (h : a.tryAdd b = .ok v) :
    ∃ l1 h1 l2 h2, a.bounds = some (l1, h1) ∧ b.bounds = some (l2, h2) ∧
      v.bounds = some (l1 + l2, h1 + h2) := by
  cases a <;> cases b <;> simp only [Value.tryAdd, Except.ok.injEq, reduceCtorEq] at h
  · subst h; exact ⟨_, _, _, _, rfl, rfl, by simp [Value.bounds, Number.value]⟩
  · subst h
    refine ⟨_, _, _, _, rfl, rfl, ?_⟩
    simp only [Value.bounds, Number.value, rat_add, Option.some.injEq, Prod.mk.injEq]
    constructor <;> grind
  · subst h; exact ⟨_, _, _, _, rfl, rfl, by simp [Value.bounds, Number.value]⟩
  · subst h; exact ⟨_, _, _, _, rfl, rfl, by simp [Value.bounds, Number.value]⟩

theorem tryAdd_not_text {a b v : Value Rat} (h : a.tryAdd b = .ok v) :
    a.isText = false ∧ b.isText = false ∧ v.isText = false := by
  cases a <;> cases b <;> simp only [Value.tryAdd, Except.ok.injEq, reduceCtorEq] at h <;>
    subst h <;> simp [Value.isText]

/-- amounts that agree part by part agree end by end -/
theorem bounds_of_amounts {v v' : Value Rat} {u nu : Unit Rat}
    (h : amounts v'.parts nu = amounts v.parts u) :
    (v.bounds = none ∧ v'.bounds = none) ∨
    ∃ lo hi lo' hi', v.bounds = some (lo, hi) ∧ v'.bounds = some (lo', hi') ∧
      amount lo' nu = amount lo u ∧ amount hi' nu = amount hi u := by
  cases v <;> cases v' <;> simp [Value.parts, amounts] at h
  · exact Or.inr ⟨_, _, _, _, rfl, rfl, h, h⟩
  · exact Or.inr ⟨_, _, _, _, rfl, rfl, h.1, h.2⟩
  · exact Or.inl ⟨rfl, rfl⟩

/-! ### `measure` under `try_add`, `join`, `fit` -/

theorem amount_add_linear (x y : Rat) (u : Unit Rat) (hd : u.difference = 0) :
    amount (x + y) u = amount x u + amount y u := by
  simp only [amount_rat, hd]; grind

/-- adding the values of two quantities with the same unit text -/
theorem sameUnit_measure (c : Converter Rat) {l q : SQuantity Rat} {v : Value Rat}
    (hu : l.unit = q.unit) (hv : l.value.tryAdd q.value = .ok v) :
    ∃ cl lo1 hi1 lo2 hi2 lo3 hi3, measure c l = some (cl, lo1, hi1) ∧
      measure c q = some (cl, lo2, hi2) ∧ measure c ⟨v, l.unit⟩ = some (cl, lo3, hi3) ∧
      (LinearClass c cl → lo3 = lo1 + lo2 ∧ hi3 = hi1 + hi2) := by
  obtain ⟨l1, h1, l2, h2, hb1, hb2, hb3⟩ := tryAdd_bounds hv
  unfold measure
  simp only [hb1, hb2, hb3, ← hu]
  cases hlu : l.unit with
  | none => exact ⟨_, _, _, _, _, _, _, rfl, rfl, rfl, fun _ => ⟨rfl, rfl⟩⟩
  | some k =>
    simp only
    cases hf : c.findUnit k with
    | none => exact ⟨_, _, _, _, _, _, _, rfl, rfl, rfl, fun _ => ⟨rfl, rfl⟩⟩
    | some u =>
      refine ⟨_, _, _, _, _, _, _, rfl, rfl, rfl, ?_⟩
      intro hlin
      have hd : u.difference = 0 := hlin u (findUnit_mem hf) rfl
      exact ⟨amount_add_linear _ _ _ hd, amount_add_linear _ _ _ hd⟩

/-- the three ways `compatible_unit` succeeds -/
theorem qCompatibleUnit_ok {c : Converter Rat} {l r : SQuantity Rat} {ct : Option (Unit Rat)}
    (h : qCompatibleUnit c l r = .ok ct) :
    (l.unit = none ∧ r.unit = none ∧ ct = none) ∨
    (∃ a b ua ub, l.unit = some a ∧ r.unit = some b ∧ c.findUnit a = some ua ∧
      c.findUnit b = some ub ∧ ua.pq = ub.pq ∧ ct = some ua) ∨
    (∃ a, l.unit = some a ∧ r.unit = some a ∧ c.findUnit a = none ∧ ct = none) := by
  unfold qCompatibleUnit at h
  split at h
  · rename_i hl hr
    simp only [Except.ok.injEq] at h
    exact Or.inl ⟨hl, hr, h.symm⟩
  · cases h
  · cases h
  · rename_i a b hl hr
    split at h
    · rename_i ua ub hfa hfb
      split at h
      · cases h
      · rename_i hpq
        simp only [Except.ok.injEq] at h
        exact Or.inr (Or.inl ⟨a, b, ua, ub, hl, hr, hfa, hfb, Decidable.not_not.mp hpq, h.symm⟩)
    · rename_i hnot
      split at h
      · cases h
      · rename_i hab
        have hab : a = b := Decidable.not_not.mp hab
        subst hab
        simp only [Except.ok.injEq] at h
        refine Or.inr (Or.inr ⟨a, hl, hr, ?_, h.symm⟩)
        cases hf : c.findUnit a with
        | none => rfl
        | some u => exact (hnot u u hf hf).elim

/-- a successful `try_add`: all three quantities are of one class, and in a linear class the ends
    of the sum are the sums of the ends -/
theorem tryAdd_measure {c : Converter Rat} (hc : c.Sound) {l q n : SQuantity Rat}
    (h : qTryAdd c l q = .ok n) :
    ∃ cl lo1 hi1 lo2 hi2 lo3 hi3, measure c l = some (cl, lo1, hi1) ∧
      measure c q = some (cl, lo2, hi2) ∧ measure c n = some (cl, lo3, hi3) ∧
      (LinearClass c cl → lo3 = lo1 + lo2 ∧ hi3 = hi1 + hi2) := by
  unfold qTryAdd at h
  split at h
  · cases h
  · rename_i ct hct
    split at h
    · cases h
    · rename_i hconv
      split at h
      · cases h
      · rename_i v hv
        simp only [Except.ok.injEq] at h
        subst h
        rcases qCompatibleUnit_ok hct with ⟨hl, hr, rfl⟩ | ⟨a, b, ua, ub, hl, hr, hfa, hfb, hpq, rfl⟩ |
            ⟨a, hl, hr, hfa, rfl⟩
        · simp only [convertRhs] at hv
          exact sameUnit_measure c (hl.trans hr.symm) hv
        · -- both units known, of one physical quantity: the right operand is converted first
          simp only [convertRhs] at hv hconv
          have hspec := convertImpl_spec hc q (.unit (.unit ua))
            (by intro x hx; cases hx; exact findUnit_mem hfa)
          generalize hr' : convertImpl c q (.unit (.unit ua)) = r at hspec hv hconv
          obtain ⟨q', res⟩ := r
          simp only at hv hconv
          subst hconv
          obtain ⟨u, nu, hu, hrest, _, _, hkey⟩ := hspec.ok_inv
          have hnu : nu = ua := by
            have := hkey _ rfl
            simp only [Converter.getUnit, Except.ok.injEq] at this
            exact this.symm
          subst hnu
          have hub : u = ub := by
            simp only [unitInfo, hr, hfb, Option.some.injEq] at hu
            exact hu.symm
          subst hub
          obtain ⟨l1, h1, l2', h2', hb1, hb2', hb3⟩ := tryAdd_bounds hv
          rcases bounds_of_amounts hrest.amounts with ⟨_, hnone⟩ | ⟨lo, hi, lo', hi', hbq, hbq', hlo, hhi⟩
          · rw [hnone] at hb2'; cases hb2'
          · rw [hbq'] at hb2'
            simp only [Option.some.injEq, Prod.mk.injEq] at hb2'
            obtain ⟨rfl, rfl⟩ := hb2'
            unfold measure
            simp only [hb1, hbq, hb3, hl, hr, hfa, hfb, hpq]
            refine ⟨_, _, _, _, _, _, _, rfl, rfl, rfl, ?_⟩
            intro hlin
            have hd : nu.difference = 0 := hlin nu (findUnit_mem hfa) hpq
            rw [amount_add_linear _ _ _ hd, amount_add_linear _ _ _ hd, hlo, hhi]
            exact ⟨rfl, rfl⟩
        · simp only [convertRhs] at hv
          exact sameUnit_measure c (hl.trans hr.symm) hv

theorem joinTo_measure (c : Converter Rat) {l q n : SQuantity Rat}
    (h : GroupedQuantity.joinTo l q = some n) :
    ∃ cl lo1 hi1 lo2 hi2 lo3 hi3, measure c l = some (cl, lo1, hi1) ∧
      measure c q = some (cl, lo2, hi2) ∧ measure c n = some (cl, lo3, hi3) ∧
      (LinearClass c cl → lo3 = lo1 + lo2 ∧ hi3 = hi1 + hi2) := by
  unfold GroupedQuantity.joinTo at h
  split at h
  · rename_i hu
    split at h
    · rename_i v hv
      simp only [Option.some.injEq] at h
      subst h
      exact sameUnit_measure c hu hv
    · cases h
  · cases h

/-- a restated quantity has the same class and the same ends -/
theorem Restated.measure_eq {c : Converter Rat} {q q' : SQuantity Rat} {u nu : Unit Rat}
    (hu : unitInfo c q = some u) (hr : Restated c q u q' nu) : measure c q' = measure c q := by
  obtain ⟨k, hk, hf⟩ := unitInfo_some hu
  obtain ⟨k', hk', hf'⟩ := unitInfo_some hr.info
  unfold measure
  rcases bounds_of_amounts hr.amounts with ⟨h1, h2⟩ | ⟨lo, hi, lo', hi', h1, h2, hlo, hhi⟩
  · simp [h1, h2]
  · simp [h1, h2, hk, hk', hf, hf', hr.pq, hlo, hhi]

theorem Restated.isText_eq {c : Converter Rat} {q q' : SQuantity Rat} {u nu : Unit Rat}
    (hr : Restated c q u q' nu) : q'.value.isText = q.value.isText := by
  rcases bounds_of_amounts hr.amounts with ⟨h1, h2⟩ | ⟨lo, hi, lo', hi', h1, h2, _, _⟩
  · rw [(bounds_none_iff _).mp h1, (bounds_none_iff _).mp h2]
  · cases hq : q.value <;> cases hq' : q'.value <;> simp_all [Value.bounds, Value.isText]

theorem fit_measure {c : Converter Rat} (hc : c.Sound) (q : SQuantity Rat) :
    measure c (fit c q).1 = measure c q := by
  have h := fit_spec hc q
  generalize fit c q = r at h
  cases h with
  | unknown _ => rfl
  | failed _ _ => rfl
  | fitted q' u nu hu hr _ => exact hr.measure_eq hu

theorem tryFraction_text_gw (c : Converter Rat) (q : SQuantity Rat) (t : Str) (hv : q.value = .text t) :
    tryFraction c q = (q, false) := by
  unfold tryFraction
  split
  · rfl
  · split
    · rfl
    · simp [hv]

/-- `fit` leaves a text quantity exactly as it is -/
theorem fit_text_gw (c : Converter Rat) (q : SQuantity Rat) (t : Str) (hv : q.value = .text t) :
    (fit c q).1 = q := by
  unfold fit
  cases hu : unitInfo c q with
  | none => rfl
  | some u =>
    have hconv : convertImpl c q .sameSystem = (q, .error (.textValue t)) :=
      convertImpl_text c q _ u t hu hv
    have hff : fitFraction c q u u.system = (q, .ok false) ∨
        fitFraction c q u u.system = (q, .error (.textValue t)) := by
      unfold fitFraction
      cases u.system with
      | none => simp [tryFraction_text_gw c q t hv]
      | some s => simp [hv]
    simp only
    split
    · rcases hff with h | h <;> rw [h] <;> simp [hconv]
    · rw [hconv]

theorem fit_isText {c : Converter Rat} (hc : c.Sound) (q : SQuantity Rat) :
    (fit c q).1.value.isText = q.value.isText := by
  have h := fit_spec hc q
  generalize fit c q = r at h
  cases h with
  | unknown _ => rfl
  | failed _ _ => rfl
  | fitted q' u nu hu hr _ => exact hr.isText_eq

/-! ### the weights are conserved -/

theorem wEnd_of_measure {c : Converter Rat} {cls : QClass} (hlin : LinearClass c cls) (hi : Bool)
    {l q n : SQuantity Rat}
    (h : ∃ cl lo1 hi1 lo2 hi2 lo3 hi3, measure c l = some (cl, lo1, hi1) ∧
      measure c q = some (cl, lo2, hi2) ∧ measure c n = some (cl, lo3, hi3) ∧
      (LinearClass c cl → lo3 = lo1 + lo2 ∧ hi3 = hi1 + hi2)) :
    wEnd hi c cls n = wEnd hi c cls l + wEnd hi c cls q := by
  obtain ⟨cl, lo1, hi1, lo2, hi2, lo3, hi3, h1, h2, h3, hsum⟩ := h
  unfold wEnd
  simp only [h1, h2, h3]
  by_cases hcl : cl = cls
  · subst hcl
    obtain ⟨rfl, rfl⟩ := hsum hlin
    cases hi <;> simp
  · simp only [hcl, if_false]; grind

theorem wEnd_additive {c : Converter Rat} (hc : c.Sound) {cls : QClass} (hlin : LinearClass c cls)
    (hi : Bool) : Additive c (wEnd hi c cls) :=
  fun _ _ _ h => wEnd_of_measure hlin hi (tryAdd_measure hc h)

theorem wEnd_joinAdditive {c : Converter Rat} {cls : QClass} (hlin : LinearClass c cls) (hi : Bool) :
    JoinAdditive (wEnd hi c cls) :=
  fun _ _ _ h => wEnd_of_measure hlin hi (joinTo_measure c h)

theorem wEnd_fitInvariant {c : Converter Rat} (hc : c.Sound) (cls : QClass) (hi : Bool) :
    FitInvariant c (wEnd hi c cls) := by
  intro q
  unfold wEnd
  rw [fit_measure hc q]

theorem wText_of_not_text {t q : SQuantity Rat} (h : q.value.isText = false) : wText t q = 0 := by
  simp [wText, h]

theorem qTryAdd_not_text {c : Converter Rat} {l q n : SQuantity Rat} (h : qTryAdd c l q = .ok n) :
    l.value.isText = false ∧ q.value.isText = false ∧ n.value.isText = false := by
  unfold qTryAdd at h
  split at h
  · cases h
  · rename_i ct hct
    split at h
    · cases h
    · rename_i hconv
      split at h
      · cases h
      · rename_i v hv
        simp only [Except.ok.injEq] at h
        subst h
        have h3 := tryAdd_not_text hv
        refine ⟨h3.1, ?_, h3.2.2⟩
        -- a text on the right would have failed: either in the conversion or in the addition
        cases ct with
        | none => simpa [convertRhs] using h3.2.1
        | some to =>
          cases hq : q.value with
          | text t =>
            exfalso
            simp only [convertRhs] at hconv
            unfold convertImpl at hconv
            split at hconv
            · simp at hconv
            · split at hconv
              · simp at hconv
              · simp [hq, ConvertValue.ofValue] at hconv
          | number _ => rfl
          | range _ _ => rfl

theorem wText_additive (c : Converter Rat) (t : SQuantity Rat) : Additive c (wText t) := by
  intro l q n h
  obtain ⟨h1, h2, h3⟩ := qTryAdd_not_text h
  rw [wText_of_not_text h1, wText_of_not_text h2, wText_of_not_text h3]; grind

theorem wText_joinAdditive (t : SQuantity Rat) : JoinAdditive (wText t) := by
  intro l q n h
  unfold GroupedQuantity.joinTo at h
  split at h
  · split at h
    · rename_i v hv
      simp only [Option.some.injEq] at h
      subst h
      obtain ⟨h1, h2, h3⟩ := tryAdd_not_text hv
      rw [wText_of_not_text h1, wText_of_not_text h2, wText_of_not_text (q := ⟨v, l.unit⟩) h3]; grind
    · cases h
  · cases h

theorem wText_fitInvariant {c : Converter Rat} (hc : c.Sound) (t : SQuantity Rat) :
    FitInvariant c (wText t) := by
  intro q
  cases hv : q.value with
  | text s => rw [fit_text_gw c q s hv]
  | number n =>
    have h1 : q.value.isText = false := by simp [hv, Value.isText]
    have h2 := fit_isText hc q
    rw [h1] at h2
    rw [wText_of_not_text h1, wText_of_not_text h2]
  | range s e =>
    have h1 : q.value.isText = false := by simp [hv, Value.isText]
    have h2 := fit_isText hc q
    rw [h1] at h2
    rw [wText_of_not_text h1, wText_of_not_text h2]

/-! ### totals and texts of a list of quantities -/

/-- the two ends of the total of class `cls` -/
def total (c : Converter Rat) (cls : QClass) (qs : List (SQuantity Rat)) : Rat × Rat :=
  (sumBy (wEnd false c cls) qs, sumBy (wEnd true c cls) qs)

/-- the text quantities, verbatim (value text and unit) -/
def texts (qs : List (SQuantity Rat)) : List (SQuantity Rat) := qs.filter (fun q => q.value.isText)

theorem sumBy_wText (t : SQuantity Rat) (qs : List (SQuantity Rat)) :
    sumBy (wText t) qs = ((texts qs).count t : Rat) := by
  induction qs with
  | nil => simp [texts]
  | cons q rest ih =>
    simp only [sumBy_cons, ih, texts, List.filter_cons]
    unfold wText
    cases hq : q.value.isText with
    | false => simp; grind
    | true =>
      simp only [true_and, if_true, List.count_cons, beq_iff_eq]
      by_cases hqt : q = t
      · simp only [hqt, if_true]; push_cast; grind
      · simp only [hqt, if_false]; push_cast; grind

/-- equal multiplicities of every text value = the same texts up to order -/
theorem texts_perm_of_wText {l1 l2 : List (SQuantity Rat)}
    (h : ∀ t, sumBy (wText t) l1 = sumBy (wText t) l2) : (texts l1).Perm (texts l2) := by
  rw [List.perm_iff_count]
  intro t
  have := h t
  rw [sumBy_wText, sumBy_wText] at this
  exact_mod_cast this

theorem texts_append (l1 l2 : List (SQuantity Rat)) : texts (l1 ++ l2) = texts l1 ++ texts l2 := by
  simp [texts]

theorem sumBy_wText_append_texts (t : SQuantity Rat) (l1 l2 : List (SQuantity Rat)) :
    sumBy (wText t) l1 + sumBy (wText t) l2 = ((texts l1 ++ texts l2).count t : Rat) := by
  rw [sumBy_wText, sumBy_wText, List.count_append]; push_cast; rfl

/-- the form in which the text clause is used: if every text multiplicity of `l` is the sum of
    those of `a` and `b`, the texts of `l` are those of `a` and `b` -/
theorem texts_perm_append {l a b : List (SQuantity Rat)}
    (h : ∀ t, sumBy (wText t) l = sumBy (wText t) a + sumBy (wText t) b) :
    (texts l).Perm (texts a ++ texts b) := by
  rw [← texts_append]
  apply texts_perm_of_wText
  intro t
  rw [h t, sumBy_append]

end Cook
