import CookModel.Lemmas.DiagExact
import CookModel.Lemmas.ExtLawsTimer
import CookModel.Lemmas.ExtLawsEvents
import CookModel.Lemmas.ParserNoPanic
/-
  C07, `invalid-single-word-name` lifted from `comp_body` to the component parsers and to the step loop
  (prefix `c07x_`).

  * `comp_body` declines exactly when there is no long form `name{…}` ahead (`longBody = none`) and no
    word/number token at the cursor; it then pushes `singleWordWarn` and nothing else;
  * `ingredient` / `cookware` / `timer` decline exactly when the marker is missing or `comp_body`
    declines after the marker and the modifiers; the events are those of `comp_body`;
  * the step loop then restores the cursor and reads the marker as text (`stepTail none`).
-/
set_option linter.unusedSectionVars false
set_option linter.unusedSimpArgs false
set_option linter.unusedVariables false
namespace Cook

variable {α : Type} [Arith α]

theorem c07x_isShortK_eq (k : TK) : isShortK k = isShortTok k := rfl

theorem c07x_rest_cons {s : BP α} {t : Tok} (ht : s.toks[s.cur]? = some t) :
    s.rest = t :: s.toks.drop (s.cur + 1) := by
  have hlt : s.cur < s.toks.length := by
    rcases Nat.lt_or_ge s.cur s.toks.length with h | h
    · exact h
    · rw [List.getElem?_eq_none h] at ht; cases ht
  unfold BP.rest
  rw [List.drop_eq_getElem_cons hlt]
  have : s.toks[s.cur] = t := by
    rw [List.getElem?_eq_getElem hlt] at ht
    exact Option.some.inj ht
  rw [this]

/-- `comp_body` when neither form is there: the long form declines silently, the single-word form
    pushes `singleWordWarn`; the cursor is where it was -/
theorem c07x_compBody_decline (s : BP α) (hl : longBody s.rest = none)
    (hns : ∀ t, s.toks[s.cur]? = some t → isShortK t.kind = false) :
    compBody s = (none, pushAll (singleWordWarn s) s) := by
  unfold compBody
  rw [P_bind_run, compBodyLong_none_ext s hl]
  exact compBodyShort_exact s hns

/-- `comp_body` declines EXACTLY when there is no long form ahead and no word/number token at the cursor -/
theorem c07x_compBody_none_iff (s : BP α) :
    (compBody s).1 = none ↔
      (longBody s.rest = none ∧ ∀ t, s.toks[s.cur]? = some t → isShortK t.kind = false) := by
  constructor
  · intro h
    have hl : longBody s.rest = none := by
      have h1 := compBodyLong_fst s
      cases hb : (compBodyLong s).1 with
      | none => rw [hb] at h1; exact h1.symm
      | some b =>
        exfalso
        unfold compBody at h
        rw [P_bind_run, hb] at h
        cases h
    refine ⟨hl, ?_⟩
    intro t ht
    cases hk : isShortK t.kind with
    | false => rfl
    | true =>
      exfalso
      have hk' : isShortTok t.kind = true := hk
      have hne : s.rest.takeWhile (fun t => isShortTok t.kind) ≠ [] := by
        rw [c07x_rest_cons ht, List.takeWhile_cons]
        simp only [hk', if_true]
        exact List.cons_ne_nil _ _
      rw [compBody_short_ext s hl hne] at h
      cases h
  · rintro ⟨hl, hns⟩
    rw [c07x_compBody_decline s hl hns]

/-! ### the component parsers -/

/-- the marker `k` was consumed and `modifiers()` ran: `s1` after the marker, `s2` after the modifiers -/
def Head (k : TK) (s : BP α) (mtoks : List Tok) (s1 s2 : BP α) : Prop :=
  (∃ t, consumeK k s = (some t, s1)) ∧ modifiersP s1 = (mtoks, s2)

theorem Cut.head {k : TK} {s s1 s2 s3 : BP α} {mtoks : List Tok} {body : Body}
    (hc : Cut k s mtoks body s1 s2 s3) : Head k s mtoks s1 s2 := ⟨hc.1, hc.2.1⟩

theorem Head.same {k : TK} {s s1 s2 : BP α} {mtoks : List Tok} (hh : Head k s mtoks s1 s2) : Same s s2 := by
  obtain ⟨⟨t, h1⟩, h2⟩ := hh
  exact ((FQ.consumeK k).same_of_run h1).trans (FQ.modifiersP.same_of_run h2)

theorem c07x_ingredientP_of_body_none {s s1 s2 s3 : BP α} {mtoks : List Tok} (hh : Head .at s mtoks s1 s2)
    (hb : compBody s2 = (none, s3)) : ingredientP s = (none, s3) := by
  obtain ⟨⟨t, h1⟩, h2⟩ := hh
  unfold ingredientP
  simp only [bind, StateT.bind, currentOffset_run, h1, h2, hb]
  rfl

theorem c07x_cookwareP_of_body_none {s s1 s2 s3 : BP α} {mtoks : List Tok} (hh : Head .hash s mtoks s1 s2)
    (hb : compBody s2 = (none, s3)) : cookwareP s = (none, s3) := by
  obtain ⟨⟨t, h1⟩, h2⟩ := hh
  unfold cookwareP
  simp only [bind, StateT.bind, currentOffset_run, h1, h2, hb]
  rfl

theorem c07x_timerP_of_body_none {s s1 s2 s3 : BP α} {mtoks : List Tok} (hh : Head .tilde s mtoks s1 s2)
    (hb : compBody s2 = (none, s3)) : timerP s = (none, s3) := by
  obtain ⟨⟨t, h1⟩, h2⟩ := hh
  unfold timerP
  simp only [bind, StateT.bind, currentOffset_run, h1, h2, hb]
  rfl

/-- without the marker at the cursor the component parsers decline and change nothing -/
theorem c07x_comp_nomarker (s : BP α) :
    ((∀ t, s.toks[s.cur]? = some t → t.kind ≠ .at) → ingredientP s = (none, s)) ∧
    ((∀ t, s.toks[s.cur]? = some t → t.kind ≠ .hash) → cookwareP s = (none, s)) ∧
    ((∀ t, s.toks[s.cur]? = some t → t.kind ≠ .tilde) → timerP s = (none, s)) := by
  have hck : ∀ k : TK, (∀ t, s.toks[s.cur]? = some t → t.kind ≠ k) → consumeK k s = (none, s) := by
    intro k h
    rw [consumeK_run]
    cases ht : s.toks[s.cur]? with
    | none => rfl
    | some t => simp only [h t ht, if_false]
  refine ⟨fun h => ?_, fun h => ?_, fun h => ?_⟩
  · unfold ingredientP
    simp only [bind, StateT.bind, currentOffset_run, hck _ h]
    rfl
  · unfold cookwareP
    simp only [bind, StateT.bind, currentOffset_run, hck _ h]
    rfl
  · unfold timerP
    simp only [bind, StateT.bind, currentOffset_run, hck _ h]
    rfl

/-! the tails always return a component -/

theorem c07x_ingredientTail_isSome (start stop modPos nameOffset : Nat) (mtoks : List Tok) (body : Body)
    (note : Option Text) (s : BP α) :
    Sat (ingredientTail (α := α) start stop modPos nameOffset mtoks body note) s (fun r _ => r.isSome = true) := by
  unfold ingredientTail
  repeat (first
    | (refine Sat.bind_any (α := α) ?_; intro _ _)
    | exact Sat.pure (α := α) rfl
    | split
    | dsimp only)

theorem c07x_cookwareTail_isSome (start stop modPos nameOffset : Nat) (mtoks : List Tok) (body : Body)
    (note : Option Text) (s : BP α) :
    Sat (cookwareTail (α := α) start stop modPos nameOffset mtoks body note) s (fun r _ => r.isSome = true) := by
  unfold cookwareTail
  repeat (first
    | (refine Sat.bind_any (α := α) ?_; intro _ _)
    | exact Sat.pure (α := α) rfl
    | split
    | dsimp only)

theorem c07x_timerTail_isSome (start stop nameOffset : Nat) (mtoks : List Tok) (body : Body) (s : BP α) :
    Sat (timerTail (α := α) start stop nameOffset mtoks body) s (fun r _ => r.isSome = true) := by
  unfold timerTail timerFinish
  repeat (first
    | (refine Sat.bind_any (α := α) ?_; intro _ _)
    | exact Sat.pure (α := α) rfl
    | split
    | dsimp only)

/-- after the marker and the modifiers, a component parser declines exactly when `comp_body` does -/
theorem c07x_comp_none_iff {s s1 s2 : BP α} {mtoks : List Tok} :
    (Head .at s mtoks s1 s2 → ((ingredientP s).1 = none ↔ (compBody s2).1 = none)) ∧
    (Head .hash s mtoks s1 s2 → ((cookwareP s).1 = none ↔ (compBody s2).1 = none)) ∧
    (Head .tilde s mtoks s1 s2 → ((timerP s).1 = none ↔ (compBody s2).1 = none)) := by
  refine ⟨fun hh => ⟨fun h => ?_, fun h => ?_⟩, fun hh => ⟨fun h => ?_, fun h => ?_⟩,
    fun hh => ⟨fun h => ?_, fun h => ?_⟩⟩
  · cases hb : (compBody s2).1 with
    | none => rfl
    | some body =>
      exfalso
      have hc : Cut .at s mtoks body s1 s2 (compBody s2).2 := ⟨hh.1, hh.2, Prod.ext hb rfl⟩
      have hn : noteP (compBody s2).2 = ((noteP (compBody s2).2).1, (noteP (compBody s2).2).2) := rfl
      have := c07x_ingredientTail_isSome (α := α) (curOff s) (curOff (noteP (compBody s2).2).2) (curOff s1)
        (curOff s2) mtoks body (noteP (compBody s2).2).1 (noteP (compBody s2).2).2
      unfold Sat at this
      rw [← ingredientP_cut hc hn, h] at this
      cases this
  · rw [c07x_ingredientP_of_body_none hh (s3 := (compBody s2).2) (Prod.ext h rfl)]
  · cases hb : (compBody s2).1 with
    | none => rfl
    | some body =>
      exfalso
      have hc : Cut .hash s mtoks body s1 s2 (compBody s2).2 := ⟨hh.1, hh.2, Prod.ext hb rfl⟩
      have hn : noteP (compBody s2).2 = ((noteP (compBody s2).2).1, (noteP (compBody s2).2).2) := rfl
      have := c07x_cookwareTail_isSome (α := α) (curOff s) (curOff (noteP (compBody s2).2).2) (curOff s1)
        (curOff s2) mtoks body (noteP (compBody s2).2).1 (noteP (compBody s2).2).2
      unfold Sat at this
      rw [← cookwareP_cut hc hn, h] at this
      cases this
  · rw [c07x_cookwareP_of_body_none hh (s3 := (compBody s2).2) (Prod.ext h rfl)]
  · cases hb : (compBody s2).1 with
    | none => rfl
    | some body =>
      exfalso
      have hc : Cut .tilde s mtoks body s1 s2 (compBody s2).2 := ⟨hh.1, hh.2, Prod.ext hb rfl⟩
      have := c07x_timerTail_isSome (α := α) (curOff s) (curOff (compBody s2).2) (curOff s2) mtoks body
        (compBody s2).2
      unfold Sat at this
      rw [← timerP_cut hc, h] at this
      cases this
  · rw [c07x_timerP_of_body_none hh (s3 := (compBody s2).2) (Prod.ext h rfl)]

end Cook
