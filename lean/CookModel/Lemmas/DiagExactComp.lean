import CookModel.Lemmas.DiagExact
import CookModel.Lemmas.ExtLawsTimer
import CookModel.Lemmas.ExtLawsEvents
import CookModel.Lemmas.ParserNoPanic
/-
  C07, `invalid-single-word-name` lifted from `comp_body` to the component parsers and to the step loop
  (prefix `c07x_`).

  * `comp_body` declines exactly when there is no long form `name{…}` ahead (`longBody = none`) and no
    word/number token at the cursor; it then pushes `singleWordWarn` and nothing else;
  * `ingredient` / `cookware` / `timer` decline exactly when the marker is missing or `comp_body`
    declines after the marker and the modifiers; the events are those of `comp_body`;
  * the step loop then restores the cursor and reads the marker as text (`stepTail none`).
-/
set_option linter.unusedSectionVars false
set_option linter.unusedSimpArgs false
set_option linter.unusedVariables false
namespace Cook

variable {α : Type} [Arith α]

theorem c07x_isShortK_eq (k : TK) : isShortK k = isShortTok k := rfl

theorem c07x_rest_cons {s : BP α} {t : Tok} (ht : s.toks[s.cur]? = some t) :
    s.rest = t :: s.toks.drop (s.cur + 1) := by
  have hlt : s.cur < s.toks.length := by
    rcases Nat.lt_or_ge s.cur s.toks.length with h | h
    · exact h
    · rw [List.getElem?_eq_none h] at ht; cases ht
  unfold BP.rest
  rw [List.drop_eq_getElem_cons hlt]
  have : s.toks[s.cur] = t := by
    rw [List.getElem?_eq_getElem hlt] at ht
    exact Option.some.inj ht
  rw [this]

/-- `comp_body` when neither form is there: the long form declines silently, the single-word form
    pushes `singleWordWarn`; the cursor is where it was -/
theorem c07x_compBody_decline (s : BP α) (hl : longBody s.rest = none)
    (hns : ∀ t, s.toks[s.cur]? = some t → isShortK t.kind = false) :
    compBody s = (none, pushAll (singleWordWarn s) s) := by
  unfold compBody
  rw [P_bind_run, compBodyLong_none_ext s hl]
  exact compBodyShort_exact s hns

/-- `comp_body` declines EXACTLY when there is no long form ahead and no word/number token at the cursor -/
theorem c07x_compBody_none_iff (s : BP α) :
    (compBody s).1 = none ↔
      (longBody s.rest = none ∧ ∀ t, s.toks[s.cur]? = some t → isShortK t.kind = false) := by
  constructor
  · intro h
    have hl : longBody s.rest = none := by
      have h1 := compBodyLong_fst s
      cases hb : (compBodyLong s).1 with
      | none => rw [hb] at h1; exact h1.symm
      | some b =>
        exfalso
        unfold compBody at h
        rw [P_bind_run, hb] at h
        cases h
    refine ⟨hl, ?_⟩
    intro t ht
    cases hk : isShortK t.kind with
    | false => rfl
    | true =>
      exfalso
      have hk' : isShortTok t.kind = true := hk
      have hne : s.rest.takeWhile (fun t => isShortTok t.kind) ≠ [] := by
        rw [c07x_rest_cons ht, List.takeWhile_cons]
        simp only [hk', if_true]
        exact List.cons_ne_nil _ _
      rw [compBody_short_ext s hl hne] at h
      cases h
  · rintro ⟨hl, hns⟩
    rw [c07x_compBody_decline s hl hns]

/-! ### the component parsers -/

/-- the marker `k` was consumed and `modifiers()` ran: `s1` after the marker, `s2` after the modifiers -/
def Head (k : TK) (s : BP α) (mtoks : List Tok) (s1 s2 : BP α) : Prop :=
  (∃ t, consumeK k s = (some t, s1)) ∧ modifiersP s1 = (mtoks, s2)

theorem Cut.head {k : TK} {s s1 s2 s3 : BP α} {mtoks : List Tok} {body : Body}
    (hc : Cut k s mtoks body s1 s2 s3) : Head k s mtoks s1 s2 := ⟨hc.1, hc.2.1⟩

theorem Head.same {k : TK} {s s1 s2 : BP α} {mtoks : List Tok} (hh : Head k s mtoks s1 s2) : Same s s2 := by
  obtain ⟨⟨t, h1⟩, h2⟩ := hh
  exact ((FQ.consumeK k).same_of_run h1).trans (FQ.modifiersP.same_of_run h2)

theorem c07x_ingredientP_of_body_none {s s1 s2 s3 : BP α} {mtoks : List Tok} (hh : Head .at s mtoks s1 s2)
    (hb : compBody s2 = (none, s3)) : ingredientP s = (none, s3) := by
  obtain ⟨⟨t, h1⟩, h2⟩ := hh
  unfold ingredientP
  simp only [bind, StateT.bind, currentOffset_run, h1, h2, hb]
  rfl

theorem c07x_cookwareP_of_body_none {s s1 s2 s3 : BP α} {mtoks : List Tok} (hh : Head .hash s mtoks s1 s2)
    (hb : compBody s2 = (none, s3)) : cookwareP s = (none, s3) := by
  obtain ⟨⟨t, h1⟩, h2⟩ := hh
  unfold cookwareP
  simp only [bind, StateT.bind, currentOffset_run, h1, h2, hb]
  rfl

theorem c07x_timerP_of_body_none {s s1 s2 s3 : BP α} {mtoks : List Tok} (hh : Head .tilde s mtoks s1 s2)
    (hb : compBody s2 = (none, s3)) : timerP s = (none, s3) := by
  obtain ⟨⟨t, h1⟩, h2⟩ := hh
  unfold timerP
  simp only [bind, StateT.bind, currentOffset_run, h1, h2, hb]
  rfl

/-- without the marker at the cursor the component parsers decline and change nothing -/
theorem c07x_comp_nomarker (s : BP α) :
    ((∀ t, s.toks[s.cur]? = some t → t.kind ≠ .at) → ingredientP s = (none, s)) ∧
    ((∀ t, s.toks[s.cur]? = some t → t.kind ≠ .hash) → cookwareP s = (none, s)) ∧
    ((∀ t, s.toks[s.cur]? = some t → t.kind ≠ .tilde) → timerP s = (none, s)) := by
  have hck : ∀ k : TK, (∀ t, s.toks[s.cur]? = some t → t.kind ≠ k) → consumeK k s = (none, s) := by
    intro k h
    rw [consumeK_run]
    cases ht : s.toks[s.cur]? with
    | none => rfl
    | some t => simp only [h t ht, if_false]
  refine ⟨fun h => ?_, fun h => ?_, fun h => ?_⟩
  · unfold ingredientP
    simp only [bind, StateT.bind, currentOffset_run, hck _ h]
    rfl
  · unfold cookwareP
    simp only [bind, StateT.bind, currentOffset_run, hck _ h]
    rfl
  · unfold timerP
    simp only [bind, StateT.bind, currentOffset_run, hck _ h]
    rfl

/-! the tails always return a component -/

theorem c07x_ingredientTail_isSome (start stop modPos nameOffset : Nat) (mtoks : List Tok) (body : Body)
    (note : Option Text) (s : BP α) :
    Sat (ingredientTail (α := α) start stop modPos nameOffset mtoks body note) s (fun r _ => r.isSome = true) := by
  unfold ingredientTail
  repeat (first
    | (refine Sat.bind_any (α := α) ?_; intro _ _)
    | exact Sat.pure (α := α) rfl
    | split
    | dsimp only)

theorem c07x_cookwareTail_isSome (start stop modPos nameOffset : Nat) (mtoks : List Tok) (body : Body)
    (note : Option Text) (s : BP α) :
    Sat (cookwareTail (α := α) start stop modPos nameOffset mtoks body note) s (fun r _ => r.isSome = true) := by
  unfold cookwareTail
  repeat (first
    | (refine Sat.bind_any (α := α) ?_; intro _ _)
    | exact Sat.pure (α := α) rfl
    | split
    | dsimp only)

theorem c07x_timerTail_isSome (start stop nameOffset : Nat) (mtoks : List Tok) (body : Body) (s : BP α) :
    Sat (timerTail (α := α) start stop nameOffset mtoks body) s (fun r _ => r.isSome = true) := by
  unfold timerTail timerFinish
  repeat (first
    | (refine Sat.bind_any (α := α) ?_; intro _ _)
    | exact Sat.pure (α := α) rfl
    | split
    | dsimp only)

/-- after the marker and the modifiers, a component parser declines exactly when `comp_body` does -/
theorem c07x_comp_none_iff {s s1 s2 : BP α} {mtoks : List Tok} :
    (Head .at s mtoks s1 s2 → ((ingredientP s).1 = none ↔ (compBody s2).1 = none)) ∧
    (Head .hash s mtoks s1 s2 → ((cookwareP s).1 = none ↔ (compBody s2).1 = none)) ∧
    (Head .tilde s mtoks s1 s2 → ((timerP s).1 = none ↔ (compBody s2).1 = none)) := by
  refine ⟨fun hh => ⟨fun h => ?_, fun h => ?_⟩, fun hh => ⟨fun h => ?_, fun h => ?_⟩,
    fun hh => ⟨fun h => ?_, fun h => ?_⟩⟩
  · cases hb : (compBody s2).1 with
    | none => rfl
    | some body =>
      exfalso
      have hc : Cut .at s mtoks body s1 s2 (compBody s2).2 := ⟨hh.1, hh.2, Prod.ext hb rfl⟩
      have hn : noteP (compBody s2).2 = ((noteP (compBody s2).2).1, (noteP (compBody s2).2).2) := rfl
      have := c07x_ingredientTail_isSome (α := α) (curOff s) (curOff (noteP (compBody s2).2).2) (curOff s1)
        (curOff s2) mtoks body (noteP (compBody s2).2).1 (noteP (compBody s2).2).2
      unfold Sat at this
      rw [← ingredientP_cut hc hn, h] at this
      cases this
  · rw [c07x_ingredientP_of_body_none hh (s3 := (compBody s2).2) (Prod.ext h rfl)]
  · cases hb : (compBody s2).1 with
    | none => rfl
    | some body =>
      exfalso
      have hc : Cut .hash s mtoks body s1 s2 (compBody s2).2 := ⟨hh.1, hh.2, Prod.ext hb rfl⟩
      have hn : noteP (compBody s2).2 = ((noteP (compBody s2).2).1, (noteP (compBody s2).2).2) := rfl
      have := c07x_cookwareTail_isSome (α := α) (curOff s) (curOff (noteP (compBody s2).2).2) (curOff s1)
        (curOff s2) mtoks body (noteP (compBody s2).2).1 (noteP (compBody s2).2).2
      unfold Sat at this
      rw [← cookwareP_cut hc hn, h] at this
      cases this
  · rw [c07x_cookwareP_of_body_none hh (s3 := (compBody s2).2) (Prod.ext h rfl)]
  · cases hb : (compBody s2).1 with
    | none => rfl
    | some body =>
      exfalso
      have hc : Cut .tilde s mtoks body s1 s2 (compBody s2).2 := ⟨hh.1, hh.2, Prod.ext hb rfl⟩
      have := c07x_timerTail_isSome (α := α) (curOff s) (curOff (compBody s2).2) (curOff s2) mtoks body
        (compBody s2).2
      unfold Sat at this
      rw [← timerP_cut hc, h] at this
      cases this
  · rw [c07x_timerP_of_body_none hh (s3 := (compBody s2).2) (Prod.ext h rfl)]

/-! ### no other part of a component parser pushes `invalid-single-word-name`

  `FP m`: `m` only appends events, none of which is the warning `invalid-single-word-name`. -/

def NotSW (e : Ev α) : Prop := ∀ l, e ≠ .warning ⟨.warning, .parse, "invalid-single-word-name", l⟩

structure FP {β : Type} (m : P α β) : Prop where
  out : ∀ s, ∃ l, (m s).2.evs.toList = s.evs.toList ++ l ∧ ∀ e ∈ l, NotSW e

theorem FP.of_FQ {β : Type} {m : P α β} (h : FQ m) : FP m :=
  ⟨fun s => ⟨[], by rw [(h.out s).2.2]; simp, by simp⟩⟩

theorem FP.pure {β : Type} (a : β) : FP (Pure.pure a : P α β) := FP.of_FQ (FQ.pure a)

theorem FP.bind {β γ : Type} {m : P α β} {k : β → P α γ} (hm : FP m) (hk : ∀ a, FP (k a)) : FP (m >>= k) := by
  constructor
  intro s
  obtain ⟨l1, a3, p1⟩ := hm.out s
  obtain ⟨l2, b3, p2⟩ := (hk (m s).1).out (m s).2
  refine ⟨l1 ++ l2, ?_, ?_⟩
  · show ((k (m s).1) (m s).2).2.evs.toList = _
    rw [b3, a3, List.append_assoc]
  · intro e he
    rcases List.mem_append.mp he with h | h
    · exact p1 e h
    · exact p2 e h

theorem FP.pushEv (ev : Ev α) (h : NotSW ev) : FP (Cook.pushEv ev) :=
  ⟨fun s => ⟨[ev], by simp [Cook.pushEv, modify, modifyGet, MonadStateOf.modifyGet, StateT.modifyGet, Pure.pure],
    by intro e he; simp only [List.mem_singleton] at he; subst he; exact h⟩⟩

theorem FP.pushErr (d : Diag) : FP (Cook.pushEv (α := α) (.error d)) :=
  FP.pushEv _ (fun l h => by cases h)
theorem FP.perr (k : String) (l : List Span) : FP (Cook.perr (α := α) k l) := FP.pushErr _
theorem FP.pwarn (k : String) (l : List Span) (hk : k ≠ "invalid-single-word-name") : FP (Cook.pwarn (α := α) k l) :=
  FP.pushEv _ (fun l' h => by cases h; exact hk rfl)

syntax "fp_leaf" : tactic
macro_rules | `(tactic| fp_leaf) => `(tactic| exact FP.pure _)
macro_rules | `(tactic| fp_leaf) => `(tactic| exact FP.perr _ _)
macro_rules | `(tactic| fp_leaf) => `(tactic| exact FP.pushErr _)
macro_rules | `(tactic| fp_leaf) => `(tactic| exact FP.pwarn _ _ (by decide))
macro_rules | `(tactic| fp_leaf) => `(tactic| assumption)
macro_rules | `(tactic| fp_leaf) => `(tactic| (apply FP.of_FQ; fq_leaf))

macro "fp_auto" : tactic => `(tactic|
  repeat (first
    | fp_leaf
    | apply FP.bind
    | intro _
    | dsimp only
    | split))

theorem FP.withRecover {β : Type} {f : P α (Option β)} (h : FP f) : FP (withRecover f) := by
  unfold Cook.withRecover; fp_auto

theorem FP.textValue (l : List Tok) (o : Nat) : FP (textValue (α := α) l o) := by unfold Cook.textValue; fp_auto
macro_rules | `(tactic| fp_leaf) => `(tactic| exact FP.textValue _ _)
theorem FP.parseValue (l : List Tok) : FP (parseValue (α := α) l) := by unfold Cook.parseValue; fp_auto
macro_rules | `(tactic| fp_leaf) => `(tactic| exact FP.parseValue _)
theorem FP.qvalue : FP (qvalue (α := α)) := by unfold Cook.qvalue; fp_auto
macro_rules | `(tactic| fp_leaf) => `(tactic| exact FP.qvalue)
theorem FP.parseRegularQuantity : FP (parseRegularQuantity (α := α)) := by
  unfold Cook.parseRegularQuantity; fp_auto
macro_rules | `(tactic| fp_leaf) => `(tactic| exact FP.parseRegularQuantity)
/- spelled out step by step: `fp_auto` tries every leaf lemma by unification on every goal and ran out of
   heartbeats on this body once the blank test became a `find?` (the model after the repair of F-C17-1) -/
theorem FP.parseAdvancedQuantity : FP (parseAdvancedQuantity (α := α)) := by
  unfold Cook.parseAdvancedQuantity
  refine FP.bind (FP.of_FQ FQ.allToks) fun all => ?_
  split
  · exact FP.pure _
  refine FP.bind (FP.of_FQ FQ.scalingLock) fun lock => ?_
  refine FP.bind (FP.of_FQ FQ.wsComments) fun _ => ?_
  refine FP.bind (FP.of_FQ (FQ.consumeWhile _)) fun vt => ?_
  split
  · exact FP.pure _
  split
  · exact FP.pure _
  dsimp only
  split
  · refine FP.bind (FP.of_FQ (FQ.panicWith _)) fun _ => ?_
    refine FP.bind (FP.of_FQ FQ.consumeRest) fun ut => ?_
    split
    · exact FP.pure _
    refine FP.bind (FP.of_FQ (FQ.hasExt _)) fun rangeExt => ?_
    split
    · exact FP.pure _
    refine FP.bind (α := α) ?_ fun v => ?_
    · split
      · exact FP.pure _
      · exact FP.bind (FP.pushErr _) fun _ => FP.pure _
    refine FP.bind (FP.of_FQ (FQ.bpText _ _)) fun unit => ?_
    refine FP.bind (FP.of_FQ (FQ.tokensSpanP _ _)) fun sp => ?_
    exact FP.pure _
  · refine FP.bind (FP.of_FQ FQ.consumeRest) fun ut => ?_
    split
    · exact FP.pure _
    refine FP.bind (FP.of_FQ (FQ.hasExt _)) fun rangeExt => ?_
    split
    · exact FP.pure _
    refine FP.bind (α := α) ?_ fun v => ?_
    · split
      · exact FP.pure _
      · exact FP.bind (FP.pushErr _) fun _ => FP.pure _
    refine FP.bind (FP.of_FQ (FQ.bpText _ _)) fun unit => ?_
    refine FP.bind (FP.of_FQ (FQ.tokensSpanP _ _)) fun sp => ?_
    exact FP.pure _
macro_rules | `(tactic| fp_leaf) => `(tactic| exact FP.parseAdvancedQuantity)

theorem FP.parseQuantity (q : List Tok) : FP (parseQuantity (α := α) q) := by
  have hin : ∀ outer : BP α, FP (α := α) (do
      let adv ← (do
        if ← Cook.hasExt Gen.EXT_ADVANCED_UNITS then Cook.withRecover Cook.parseAdvancedQuantity else Pure.pure none)
      let r ← (match adv with
        | some q => Pure.pure q
        | none => Cook.parseRegularQuantity)
      modify fun s => { s with toks := outer.toks, cur := outer.cur }
      Pure.pure r) := by
    intro outer
    have := FP.withRecover (FP.parseAdvancedQuantity (α := α))
    fp_auto
  have hjp : FP (α := α) (do
      let outer ← get
      set { outer with toks := q, cur := 0 }
      let adv ← (do
        if ← Cook.hasExt Gen.EXT_ADVANCED_UNITS then Cook.withRecover Cook.parseAdvancedQuantity else Pure.pure none)
      let r ← (match adv with
        | some q => Pure.pure q
        | none => Cook.parseRegularQuantity)
      modify fun s => { s with toks := outer.toks, cur := outer.cur }
      Pure.pure r) := ⟨fun s => (hin s).out { s with toks := q, cur := 0 }⟩
  unfold Cook.parseQuantity
  dsimp only
  split
  · exact FP.bind (FP.of_FQ (FQ.panicWith _)) (fun _ => hjp)
  · exact hjp
macro_rules | `(tactic| fp_leaf) => `(tactic| exact FP.parseQuantity _)

set_option maxHeartbeats 2000000 in
theorem FP.parseInterRef (l : List Tok) : FP (parseInterRef (α := α) l) := by
  unfold Cook.parseInterRef; fp_auto
macro_rules | `(tactic| fp_leaf) => `(tactic| exact FP.parseInterRef _)

theorem FP.parseModifiersLoop (span : Span) (ie : Bool) (fuel : Nat) (l : List Tok) (m : Modifiers)
    (d : Option (Loc InterData)) : FP (parseModifiersLoop (α := α) span ie fuel l m d) := by
  induction fuel generalizing l m d with
  | zero => unfold Cook.parseModifiersLoop; fp_auto
  | succ fuel ih =>
    cases l with
    | nil => unfold Cook.parseModifiersLoop; fp_auto
    | cons t r =>
      unfold Cook.parseModifiersLoop
      have ih1 := ih r m
      have ih2 := fun f => ih r (m.insert f)
      fp_auto
      all_goals first | exact ih _ _ _ | (split <;> fp_auto <;> exact ih _ _ _)
macro_rules | `(tactic| fp_leaf) => `(tactic| exact FP.parseModifiersLoop ..)

theorem FP.parseModifiers (l : List Tok) (pos : Nat) : FP (parseModifiers (α := α) l pos) := by
  unfold Cook.parseModifiers; fp_auto
macro_rules | `(tactic| fp_leaf) => `(tactic| exact FP.parseModifiers _ _)

theorem FP.parseAlias (c : String) (l : List Tok) (o : Nat) : FP (parseAlias (α := α) c l o) := by
  unfold Cook.parseAlias; fp_auto
macro_rules | `(tactic| fp_leaf) => `(tactic| exact FP.parseAlias _ _ _)

theorem FP.checkEmptyName (c : String) (t : Text) : FP (checkEmptyName (α := α) c t) := by
  unfold Cook.checkEmptyName; fp_auto
macro_rules | `(tactic| fp_leaf) => `(tactic| exact FP.checkEmptyName _ _)

theorem FP.checkNoteTimer : FP (checkNoteTimer (α := α)) := by
  unfold Cook.checkNoteTimer
  apply FP.bind
  · apply FP.withRecover
    fp_auto
  · fp_auto
macro_rules | `(tactic| fp_leaf) => `(tactic| exact FP.checkNoteTimer)

theorem FP.ingredientTail (start stop modPos nameOffset : Nat) (mtoks : List Tok) (body : Body) (note : Option Text) :
    FP (ingredientTail (α := α) start stop modPos nameOffset mtoks body note) := by
  unfold Cook.ingredientTail; fp_auto

theorem FP.cookwareTail (start stop modPos nameOffset : Nat) (mtoks : List Tok) (body : Body) (note : Option Text) :
    FP (cookwareTail (α := α) start stop modPos nameOffset mtoks body note) := by
  unfold Cook.cookwareTail Cook.cookwareQty; fp_auto

theorem FP.timerQty (body : Body) : FP (timerQty (α := α) body) := by
  unfold Cook.timerQty; fp_auto
macro_rules | `(tactic| fp_leaf) => `(tactic| exact FP.timerQty _)

theorem FP.timerFinish (start stop nameOffset : Nat) (body : Body) (name : Text) (cs : CharSpec)
    (q0 : Option (Loc (PQuantity α))) : FP (timerFinish (α := α) start stop nameOffset body name cs q0) := by
  unfold Cook.timerFinish; fp_auto
macro_rules | `(tactic| fp_leaf) => `(tactic| exact FP.timerFinish ..)

theorem FP.timerTail (start stop nameOffset : Nat) (mtoks : List Tok) (body : Body) :
    FP (timerTail (α := α) start stop nameOffset mtoks body) := by
  unfold Cook.timerTail; fp_auto

/-! ### the warning is pushed ONLY when the component parser declines on a bad single-word name -/

theorem c07x_mem_singleWordWarn {s : BP α} {sp : List Span}
    (h : Ev.warning ⟨.warning, .parse, "invalid-single-word-name", sp⟩ ∈ singleWordWarn s) :
    ∃ t, s.toks[s.cur]? = some t ∧ t.kind ≠ .ws ∧ sp = [Span.pos (curOff s)] := by
  unfold singleWordWarn at h
  cases ht : s.toks[s.cur]? with
  | none => rw [ht] at h; cases h
  | some t =>
    rw [ht] at h
    dsimp only at h
    by_cases hw : t.kind = .ws
    · rw [if_pos hw] at h; cases h
    · rw [if_neg hw] at h
      simp only [List.mem_singleton, Ev.warning.injEq, Diag.mk.injEq, true_and] at h
      exact ⟨t, rfl, hw, h⟩

theorem c07x_append_self_nil {β : Type} {a l : List β} (h : a = a ++ l) : l = [] := by
  have := congrArg List.length h
  rw [List.length_append] at this
  exact List.eq_nil_of_length_eq_zero (by omega)

/-- generic form, for a parser `compP` that behaves like `ingredient`/`cookware`/`timer` on the marker `k` -/
theorem c07x_sw_only_when (k : TK) (compP : P α (Option (Ev α))) (s : BP α)
    (hnm : (∀ t, s.toks[s.cur]? = some t → t.kind ≠ k) → compP s = (none, s))
    (hdecl : ∀ mtoks s1 s2 s3, Head k s mtoks s1 s2 → compBody s2 = (none, s3) → compP s = (none, s3))
    (hsucc : ∀ mtoks body s1 s2 s3, Cut k s mtoks body s1 s2 s3 →
      ∃ l, (compP s).2.evs.toList = s.evs.toList ++ l ∧ ∀ e ∈ l, NotSW e)
    (l' : List (Ev α)) (hl' : (compP s).2.evs.toList = s.evs.toList ++ l') (sp : List Span)
    (hmem : Ev.warning ⟨.warning, .parse, "invalid-single-word-name", sp⟩ ∈ l') :
    ∃ mtoks s1 s2, Head k s mtoks s1 s2 ∧ longBody s2.rest = none ∧
      (∃ t, s2.toks[s2.cur]? = some t ∧ t.kind ≠ .ws ∧ isShortK t.kind = false) ∧
      sp = [Span.pos (curOff s2)] ∧ compP s = (none, pushAll (singleWordWarn s2) s2) ∧
      l' = singleWordWarn s2 := by
  have hno : (∀ t, s.toks[s.cur]? = some t → t.kind ≠ k) → False := by
    intro h
    rw [hnm h] at hl'
    rw [c07x_append_self_nil hl'] at hmem
    cases hmem
  cases ht : s.toks[s.cur]? with
  | none => exact (hno (fun t h => by rw [ht] at h; cases h)).elim
  | some t =>
    by_cases hk : t.kind = k
    · have h1 : consumeK k s = (some t, { s with cur := s.cur + 1 }) := by
        rw [consumeK_run, ht]
        simp only [hk, if_true]
      have hh : Head k s (modifiersP ({ s with cur := s.cur + 1 } : BP α)).1 { s with cur := s.cur + 1 }
          (modifiersP ({ s with cur := s.cur + 1 } : BP α)).2 := ⟨⟨t, h1⟩, rfl⟩
      generalize (modifiersP ({ s with cur := s.cur + 1 } : BP α)).1 = mtoks at hh
      generalize (modifiersP ({ s with cur := s.cur + 1 } : BP α)).2 = s2 at hh
      cases hb : (compBody s2).1 with
      | none =>
        obtain ⟨hl, hns⟩ := (c07x_compBody_none_iff s2).mp hb
        have hrun := hdecl _ _ _ _ hh (c07x_compBody_decline s2 hl hns)
        have hp := pushAll_pushed (singleWordWarn s2) s2
        rw [hrun] at hl'
        have he : (pushAll (singleWordWarn s2) s2).evs.toList = s.evs.toList ++ singleWordWarn s2 := by
          rw [hp.2.2, hh.same.2.2]
        have hl'' : l' = singleWordWarn s2 := by
          have : s.evs.toList ++ l' = s.evs.toList ++ singleWordWarn s2 := by rw [← hl']; exact he
          exact List.append_cancel_left this
        rw [hl''] at hmem
        obtain ⟨t2, ht2, hw2, hsp⟩ := c07x_mem_singleWordWarn hmem
        exact ⟨mtoks, _, s2, hh, hl, ⟨t2, ht2, hw2, hns t2 ht2⟩, hsp, hrun, hl''⟩
      | some body =>
        exfalso
        have hc : Cut k s mtoks body _ s2 (compBody s2).2 := ⟨hh.1, hh.2, Prod.ext hb rfl⟩
        obtain ⟨l, h1', h2'⟩ := hsucc _ _ _ _ _ hc
        have : l' = l := by
          have : s.evs.toList ++ l' = s.evs.toList ++ l := by rw [← hl']; exact h1'
          exact List.append_cancel_left this
        rw [this] at hmem
        exact h2' _ hmem sp rfl
    · exact (hno (fun t' h => by rw [ht] at h; cases h; exact hk)).elim

theorem c07x_ingredientP_succ_notSW {s s1 s2 s3 : BP α} {mtoks : List Tok} {body : Body}
    (hc : Cut .at s mtoks body s1 s2 s3) :
    ∃ l, (ingredientP s).2.evs.toList = s.evs.toList ++ l ∧ ∀ e ∈ l, NotSW e := by
  have hn : noteP s3 = ((noteP s3).1, (noteP s3).2) := rfl
  have q4 : Same s (noteP s3).2 := hc.same.trans (noteP_same hn)
  rw [ingredientP_cut hc hn]
  obtain ⟨l, h1, h2⟩ := (FP.ingredientTail (α := α) (curOff s) (curOff (noteP s3).2) (curOff s1) (curOff s2)
    mtoks body (noteP s3).1).out (noteP s3).2
  exact ⟨l, by rw [h1, q4.2.2], h2⟩

theorem c07x_cookwareP_succ_notSW {s s1 s2 s3 : BP α} {mtoks : List Tok} {body : Body}
    (hc : Cut .hash s mtoks body s1 s2 s3) :
    ∃ l, (cookwareP s).2.evs.toList = s.evs.toList ++ l ∧ ∀ e ∈ l, NotSW e := by
  have hn : noteP s3 = ((noteP s3).1, (noteP s3).2) := rfl
  have q4 : Same s (noteP s3).2 := hc.same.trans (noteP_same hn)
  rw [cookwareP_cut hc hn]
  obtain ⟨l, h1, h2⟩ := (FP.cookwareTail (α := α) (curOff s) (curOff (noteP s3).2) (curOff s1) (curOff s2)
    mtoks body (noteP s3).1).out (noteP s3).2
  exact ⟨l, by rw [h1, q4.2.2], h2⟩

theorem c07x_timerP_succ_notSW {s s1 s2 s3 : BP α} {mtoks : List Tok} {body : Body}
    (hc : Cut .tilde s mtoks body s1 s2 s3) :
    ∃ l, (timerP s).2.evs.toList = s.evs.toList ++ l ∧ ∀ e ∈ l, NotSW e := by
  have q3 : Same s s3 := hc.same
  rw [timerP_cut hc]
  obtain ⟨l, h1, h2⟩ := (FP.timerTail (α := α) (curOff s) (curOff s3) (curOff s2) mtoks body).out s3
  exact ⟨l, by rw [h1, q3.2.2], h2⟩

/-! ### the step loop: the cursor is restored and the marker is read as text -/

theorem c07x_head_state {k : TK} {s s1 s2 : BP α} {mtoks : List Tok} (hh : Head k s mtoks s1 s2)
    (hp : s.panic = none) (hcur : s.cur ≤ s.toks.length) : ∃ c, s2 = { s with cur := c } := by
  obtain ⟨⟨t, h1⟩, h2⟩ := hh
  have hG : G s.toks s.ext s := ⟨rfl, rfl, hp, hcur⟩
  have g1 := Sat.of_run (consumeK_sat k hG) h1
  have g2 := Sat.of_run (modifiersP_sat g1.1) h2
  have q : Same s s2 := ((FQ.consumeK k).same_of_run h1).trans (FQ.modifiersP.same_of_run h2)
  refine ⟨s2.cur, ?_⟩
  obtain ⟨toks2, cur2, ext2, cs2, evs2, panic2⟩ := s2
  obtain ⟨a, b, c, d⟩ := g2.1
  obtain ⟨q1, q2, q3⟩ := q
  simp only at a b c q1 q3
  subst a b c q1 q3
  show _ = ({ toks := s.toks, cur := cur2, ext := s.ext, cs := s.cs, evs := s.evs, panic := s.panic } : BP α)
  rw [hp]

theorem c07x_pushAll_setCur (l : List (Ev α)) (s : BP α) (c : Nat) :
    pushAll l ({ s with cur := c } : BP α) = { pushAll l s with cur := c } := by
  induction l generalizing s with
  | nil => rfl
  | cons a l ih => exact ih ({ s with evs := s.evs.push a } : BP α)

theorem c07x_withRecover_decline {compP : P α (Option (Ev α))} {s s2 : BP α} {c : Nat}
    (hs2 : s2 = { s with cur := c }) (W : List (Ev α)) (h : compP s = (none, pushAll W s2)) :
    withRecover compP s = (none, pushAll W s) := by
  rw [withRecover_run_ext, h]
  simp only [Option.isNone_none, if_true]
  subst hs2
  rw [c07x_pushAll_setCur]
  have hf := (pushAll_fields W s).2.1
  generalize pushAll W s = s' at hf ⊢
  obtain ⟨toks', cur', ext', cs', evs', panic'⟩ := s'
  simp only at hf
  subst hf
  rfl

/-- the component attempt of the step loop when the component parser declines after the marker and
    the modifiers: no component, the warnings of `comp_body`, the cursor back at the marker -/
theorem c07x_stepComp_decline {s s1 s2 : BP α} {mtoks : List Tok} (hp : s.panic = none)
    (hcur : s.cur ≤ s.toks.length) (hl : longBody s2.rest = none)
    (hns : ∀ t, s2.toks[s2.cur]? = some t → isShortK t.kind = false)
    (hh : Head .at s mtoks s1 s2 ∨ Head .hash s mtoks s1 s2 ∨ Head .tilde s mtoks s1 s2) :
    stepComp s = (none, pushAll (singleWordWarn s2) s) := by
  have hpk : peekK s = ((s.toks[s.cur]?).map (·.kind), s) := rfl
  have hkind : ∀ k, Head k s mtoks s1 s2 → (s.toks[s.cur]?).map (·.kind) = some k := by
    intro k hk
    obtain ⟨⟨t, h1⟩, -⟩ := hk
    have := Sat.of_run (consumeK_fact k s) h1
    rw [this.1, Option.map_some, this.2.1]
  have hb := c07x_compBody_decline s2 hl hns
  unfold stepComp
  rw [P_bind_run, hpk]
  rcases hh with hh | hh | hh
  · obtain ⟨c, hs2⟩ := c07x_head_state hh hp hcur
    rw [hkind _ hh]
    exact c07x_withRecover_decline hs2 _ (c07x_ingredientP_of_body_none hh hb)
  · obtain ⟨c, hs2⟩ := c07x_head_state hh hp hcur
    rw [hkind _ hh]
    exact c07x_withRecover_decline hs2 _ (c07x_cookwareP_of_body_none hh hb)
  · obtain ⟨c, hs2⟩ := c07x_head_state hh hp hcur
    rw [hkind _ hh]
    exact c07x_withRecover_decline hs2 _ (c07x_timerP_of_body_none hh hb)

/-- … and the loop body is then the text branch, run from the state with the warnings pushed -/
theorem c07x_stepOne_decline {s s1 s2 : BP α} {mtoks : List Tok} (hp : s.panic = none)
    (hcur : s.cur ≤ s.toks.length) (hl : longBody s2.rest = none)
    (hns : ∀ t, s2.toks[s2.cur]? = some t → isShortK t.kind = false)
    (hh : Head .at s mtoks s1 s2 ∨ Head .hash s mtoks s1 s2 ∨ Head .tilde s mtoks s1 s2) :
    stepOne s = stepTail none (pushAll (singleWordWarn s2) s) := by
  rw [stepOne_eq, P_bind_run, c07x_stepComp_decline hp hcur hl hns hh]

end Cook
