import CookModel.Lemmas.DiagPlaceDocReport
import CookModel.Lemmas.DiagPlaceFam
/-
  C07, arbitrary placement, document level: instances (`c07d_` prefix).  A piece lemma of
  Lemmas/DiagPlaceInst.lean / DiagPlaceFam.lean is stated on ACTUAL tokens; for a document the construct is
  given by its SPECIFICATION tokens and the lexer's tokens spell them: the shape conditions read kinds only, so
  they transfer.  Written out for the timer without quantity `~ mods name { }` (five catalogue entries).
-/
set_option linter.unusedSectionVars false
set_option linter.unusedSimpArgs false
set_option linter.unusedVariables false
namespace Cook

variable {α : Type} [Arith α]

theorem PlPieceAt.mono {T : List Tok} {cs : CharSpec} {e : Ext} {A toks : List Tok} {sp1 sp2 : List (Ev α) → Prop}
    (h : PlPieceAt T cs e A ⟨toks, sp1⟩) (himp : ∀ evs, sp1 evs → sp2 evs) : PlPieceAt T cs e A ⟨toks, sp2⟩ := by
  refine ⟨h.1, fun s h1 h2 h3 h4 h5 => ?_⟩
  obtain ⟨evs, arr, g1, g2, g3⟩ := h.2 s h1 h2 h3 h4 h5
  exact ⟨evs, arr, g1, g2, himp evs g3⟩

/-- tokens spelling `marker mods name { Q }` are such a component, part by part -/
theorem c07d_comp_spells_inv {tB : List Tok} {tm : Tok} {ms nameT : List Tok} {tob : Tok} {Q : List Tok} {tcb : Tok}
    (h : Spells tB (c07p_comp tm ms nameT tob Q tcb)) :
    ∃ (tm' : Tok) (ms' nameT' : List Tok) (tob' : Tok) (Q' : List Tok) (tcb' : Tok),
      tB = c07p_comp tm' ms' nameT' tob' Q' tcb' ∧ tm'.kind = tm.kind ∧ Spells ms' ms ∧ Spells nameT' nameT ∧
      tob'.kind = tob.kind ∧ Spells Q' Q ∧ tcb'.kind = tcb.kind := by
  unfold c07p_comp at h
  obtain ⟨tm', r1, rfl, k1, -, h1⟩ := h.cons_inv
  obtain ⟨ms', r2, rfl, k2, h2⟩ := h1.append_inv
  obtain ⟨nameT', r3, rfl, k3, h3⟩ := h2.append_inv
  obtain ⟨tob', r4, rfl, k4, -, h4⟩ := h3.cons_inv
  obtain ⟨Q', r5, rfl, k5, h5⟩ := h4.append_inv
  obtain ⟨tcb', rfl, k6, -⟩ := h5.single_inv
  exact ⟨tm', ms', nameT', tob', Q', tcb', rfl, k1, k2, k3, k4, k5, k6⟩

theorem c07d_kind_of_spells {ts spec : List Tok} (h : Spells ts spec) (p : TK → Prop) (hp : ∀ u ∈ spec, p u.kind) :
    ∀ t ∈ ts, p t.kind := by
  intro t ht
  obtain ⟨u, hu, hk, -⟩ := h.mem ht
  rw [hk]; exact hp u hu

/-- the shape of a braces component reads kinds only -/
theorem c07d_shapeN_transfer {e : Ext} {k : TK} {tm tm' : Tok} {ms ms' nameT nameT' : List Tok} {tob tob' : Tok}
    {Q Q' : List Tok} {tcb tcb' : Tok} (sh : PlShapeN e k tm ms nameT tob Q tcb)
    (k1 : tm'.kind = tm.kind) (k2 : Spells ms' ms) (k3 : Spells nameT' nameT) (k4 : tob'.kind = tob.kind)
    (k5 : Spells Q' Q) (k6 : tcb'.kind = tcb.kind) : PlShapeN e k tm' ms' nameT' tob' Q' tcb' := by
  refine ⟨by rw [k1]; exact sh.hk, ?_, ?_, by rw [k4]; exact sh.hob, ?_, by rw [k6]; exact sh.hcb⟩
  · rcases sh.hm with ⟨h1, h2⟩ | ⟨h1, h2, h3⟩
    · left; subst h2; exact ⟨h1, k2.nil_inv⟩
    · right
      refine ⟨h1, c07d_kind_of_spells k2 (fun k => modKind k = true) h2, ?_⟩
      intro x hx
      cases nameT with
      | nil =>
        rw [k3.nil_inv] at hx
        simp only [List.nil_append, List.head?_cons, Option.some.injEq] at hx
        subst hx
        rw [k4]; exact h3 tob rfl
      | cons u r =>
        obtain ⟨a, r', rfl, ka, -, -⟩ := k3.cons_inv
        simp only [List.cons_append, List.head?_cons, Option.some.injEq] at hx
        subst hx
        rw [ka]; exact h3 u rfl
  · exact c07d_kind_of_spells k3 (fun k => (k == .openBrace || isMarker k) = false) sh.hn
  · exact c07d_kind_of_spells k5 (fun k => k ≠ .closeBrace) sh.hQ

/-- the events of a timer without quantity `~ mods name { }` planted in the block `T` after `tpre`, its actual
    tokens being `tB` (spelling the specification parts `msS`, `nameS`, `QS`): the head diagnostics
    (`modifiers-not-allowed:timer`? `alias-not-allowed:timer`?), the note warning iff `(` … `)` follows, then
    `timer-missing-quantity` (TIMER_REQUIRES_TIME) or else `timer-neither-name-nor-quantity` iff the name is blank,
    then the timer on the byte range of the construct -/
def c07d_timerNoQtySpec (cs : CharSpec) (e : Ext) (msS nameS QS : List Tok) (T tpre tB : List Tok)
    (evs : List (Ev α)) : Prop :=
  ∃ (tm : Tok) (ms nameT : List Tok) (tob : Tok) (Q : List Tok) (tcb : Tok),
    tB = c07p_comp tm ms nameT tob Q tcb ∧ Spells ms msS ∧ Spells nameT nameS ∧ Spells Q QS ∧
    evs = c07w_timerHeadEvs ms nameT e ++ c07w_noteEvs T (tpre.length + tB.length) ++
      c07w_timerFinishEvs (offAt T (tpre.length + 1 + ms.length)) (c07p_body nameT tob Q tcb)
        (buildText (offAt T (tpre.length + 1 + ms.length)) nameT) cs e ++
      [.timer ⟨⟨if (buildText (offAt T (tpre.length + 1 + ms.length)) nameT).isTextEmpty cs then none
          else some (buildText (offAt T (tpre.length + 1 + ms.length)) nameT),
        c07w_timerFinishQty (buildText (offAt T (tpre.length + 1 + ms.length)) nameT) cs e⟩,
        ⟨offAt T tpre.length, offAt T (tpre.length + tB.length)⟩⟩]

/-- the timer without quantity is a piece at its position on every actual block spelling it -/
theorem c07d_timer_noqty_pieceAt (cs : CharSpec) (e : Ext) (tmS : Tok) (msS nameS : List Tok) (tobS : Tok)
    (QS : List Tok) (tcbS : Tok) (sh : PlShapeN e .tilde tmS msS nameS tobS QS tcbS)
    (hQ : ∀ t ∈ QS, isPadK t = true)
    (T tpre tB tpost : List Tok) (hT : T = tpre ++ (tB ++ tpost))
    (hsB : Spells tB (c07p_comp tmS msS nameS tobS QS tcbS)) (hrun : RunAt (baseOff T) T) :
    PlPieceAt (α := α) T cs e tpre ⟨tB, c07d_timerNoQtySpec cs e msS nameS QS T tpre tB⟩ := by
  obtain ⟨tm, ms, nameT, tob, Q, tcb, rfl, k1, k2, k3, k4, k5, k6⟩ := c07d_comp_spells_inv hsB
  have sh' := c07d_shapeN_transfer sh k1 k2 k3 k4 k5 k6
  have hQ' : ∀ t ∈ Q, isPadK t = true :=
    c07d_kind_of_spells k5 (fun k => (k == .ws || k == .blockComment) = true) (fun u hu => hQ u hu)
  have hw : WF T := ⟨by rw [hT]; simp [c07p_comp], hrun⟩
  exact (c07w_timer_noqty_piece (α := α) T tpre tpost cs e tm ms nameT tob Q tcb hT hw sh' hQ').mono
    (fun evs he => ⟨tm, ms, nameT, tob, Q, tcb, rfl, k2, k3, k5, he⟩)

end Cook
