import CookModel.Lemmas.SpansDataEv
/-
  C04, derived data (wave 5), units: which tokens a unit text is assembled from.  In both quantity syntaxes the unit is
  `BlockParser::text` of ALL tokens from a start offset (just after `%`; the first word after the value with
  ADVANCED_UNITS) to the END of the quantity (`UnitAt`, `parseRegularQuantity_unit`, `parseAdvancedQuantity_unit`,
  `parseQuantity_unit`); lifted to events by `ingredientP_qty` / `timerP_qty`, which carry ANY monotone guarantee of
  `parse_quantity` to the event, and to the document by the generic sweep of SpansDataDoc.lean.  `EvAll` is everything
  C04 says about one event.
-/
set_option linter.unusedSectionVars false
set_option linter.unusedSimpArgs false
set_option linter.unusedVariables false
namespace Cook
variable {α : Type} [Arith α]
variable {ts : List Tok} {e : Ext} {s : BP α}

/-! ### units: which tokens a unit text is assembled from -/

/-- the unit of a quantity is the text `BlockParser::text` assembles from a non-empty run of adjacent tokens of `T`
    that ends where the quantity ends (everything after the `%`, or after the value in the ADVANCED_UNITS syntax) -/
def UnitAt (T : List Tok) (q : Loc (PQuantity α)) : Prop :=
  ∀ u, q.val.unit = some u → ∃ ut, ut <:+: T ∧ ut ≠ [] ∧ u = buildText (tokensSpan ut).start ut ∧
    (tokensSpan ut).stop = q.span.stop

theorem UnitAt.mono {T T' : List Tok} {q : Loc (PQuantity α)} (h : UnitAt T q) (hi : T <:+: T') : UnitAt T' q := by
  intro u hu
  obtain ⟨ut, h1, h2, h3, h4⟩ := h u hu
  exact ⟨ut, h1.trans hi, h2, h3, h4⟩

theorem sdat_suffix_span {c : Nat} (hne : slice ts c ts.length ≠ []) :
    (tokensSpan (slice ts c ts.length)).stop = (tokensSpan ts).stop := by
  rw [← drop_eq_slice] at hne ⊢
  unfold tokensSpan
  simp only
  rw [List.getLast?_drop]
  split
  · rename_i hle
    exact absurd (List.drop_eq_nil_of_le hle) hne
  · rfl

theorem sdat_head_start {o : Nat} {l : List Tok} (h : RunAt o l) (hne : l ≠ []) : (tokensSpan l).start = o := by
  cases l with
  | nil => exact absurd rfl hne
  | cons t r => simp [tokensSpan]; exact h.1.1

theorem sdat_isTextEmpty_nil (cs : CharSpec) (o : Nat) : (buildText o []).isTextEmpty cs = true := by
  simp [buildText, Text.empty, Text.isTextEmpty]

theorem parseRegularQuantity_unit (hw : WF ts) (h : G ts e s) :
    Sat (parseRegularQuantity (α := α)) s (fun r _ => UnitAt ts r.quantity) := by
  unfold parseRegularQuantity
  refine Sat.bind (Sat.mono (qvalue_sat hw h) ?_)
  rintro value s1 ⟨g1, c1⟩
  apply Sat.bind
  apply Sat.mono (Q := fun (u : Option (Span × Text)) s' => G ts e s' ∧
    ∀ p, u = some p → ∃ c, c ≤ ts.length ∧ RunAt p.1.stop (slice ts c ts.length) ∧
      p.2 = buildText p.1.stop (slice ts c ts.length))
  · refine Sat.bind (peekK_sat g1 ?_)
    split
    · rename_i hk
      obtain ⟨t, ht, -⟩ := peek_some hk
      refine Sat.bind (Sat.mono (bumpAny_sat g1 ht) ?_)
      rintro sep s2 ⟨rfl, g2, c2⟩
      refine Sat.bind (Sat.mono (consumeRest_sat g2) ?_)
      rintro ut s3 ⟨g3, c3, hut⟩
      have hr : RunAt sep.stop ut := by
        rw [hut, ← offAt_succ ht, ← c2]; exact slice_runAt hw.run g2.le
      refine Sat.bind (bpText_sat hr ?_)
      refine Sat.pure ⟨g3, ?_⟩
      intro p hp
      simp only [Option.some.injEq] at hp
      subst hp
      exact ⟨s2.cur, g2.le, by rw [← hut]; exact hr, by rw [← hut]⟩
    · exact Sat.pure ⟨g1, fun p hp => by cases hp⟩
  · intro unit s2 ⟨g2, hu⟩
    refine Sat.bind (Sat.get ?_)
    dsimp only
    have fin : ∀ (sp : Span) (ut : Text) (s' : BP α), unit = some (sp, ut) → ut.isTextEmpty s2.cs = false →
        UnitAt ts (⟨⟨value, some ut⟩, tokensSpan ts⟩ : Loc (PQuantity α)) := by
      intro sp ut s' hunit hne u hu'
      simp only [Option.some.injEq] at hu'
      subst hu'
      obtain ⟨c, hc, hrun, htext⟩ := hu _ hunit
      have hutne : slice ts c ts.length ≠ [] := by
        intro h0
        rw [h0] at htext
        simp only at htext
        rw [htext, sdat_isTextEmpty_nil] at hne
        cases hne
      refine ⟨_, sdat_slice_infix _ _ _, hutne, ?_, sdat_suffix_span hutne⟩
      rw [sdat_head_start hrun hutne]
      exact htext
    split
    · rename_i sep ut
      split
      · refine Sat.bind (Sat.pwarn ?_); intro evs
        refine Sat.bind (Sat.get ?_)
        refine Sat.bind (tokensSpanP_sat (by rw [(g2.setEvs evs).toks]; exact hw.ne) ?_)
        exact Sat.pure (fun u hu' => by cases hu')
      · rename_i hne
        refine Sat.bind (Sat.get ?_)
        refine Sat.bind (tokensSpanP_sat (by rw [g2.toks]; exact hw.ne) ?_)
        refine Sat.pure ?_
        rw [g2.toks]
        exact fin sep ut s2 rfl (by simpa using hne)
    · refine Sat.bind (Sat.get ?_)
      refine Sat.bind (tokensSpanP_sat (by rw [g2.toks]; exact hw.ne) ?_)
      refine Sat.pure (fun u hu' => ?_)
      simp at hu'

theorem parseAdvancedQuantity_unit (hw : WF ts) (h : G ts e s) :
    Sat (parseAdvancedQuantity (α := α)) s (fun r _ => ∀ pq, r = some pq → UnitAt ts pq.quantity) := by
  have none_ok : ∀ s' : BP α, Sat (pure none : P α (Option (ParsedQuantity α))) s'
      (fun r _ => ∀ pq, r = some pq → UnitAt ts pq.quantity) :=
    fun s' => Sat.pure (fun pq hpq => by cases hpq)
  unfold parseAdvancedQuantity
  refine Sat.bind (allToks_sat h ?_)
  dsimp only
  split
  · exact none_ok _
  refine Sat.bind (Sat.mono (scalingLock_sat h) ?_)
  rintro lock s1 ⟨g1, c1⟩
  unfold wsComments
  refine Sat.bind (Sat.mono (consumeWhile_sat _ g1) ?_)
  rintro _ s2 ⟨g2, c2, -, -, hend2⟩
  refine Sat.bind (Sat.mono (consumeWhile_sat _ g2) ?_)
  rintro vt s3 ⟨g3, c3, hvt, -, -⟩
  split
  · exact none_ok _
  rename_i l hl
  split
  · exact none_ok _
  have hne : (vt.reverse.dropWhile (fun t => t.kind == .ws || t.kind == .blockComment)).reverse ≠ [] := by
    cases hv : vt with
    | nil => rw [hv] at hl; simp at hl
    | cons t rest =>
      rw [hv] at hvt
      have ht := hend2 t (slice_head hvt.symm)
      apply rtrim_ne_nil _ _ t (by simp)
      simp only [isWsComment, Bool.or_eq_false_iff] at ht
      simp [ht.1.1, ht.2]
  split
  · rename_i hemp
    exfalso; apply hne
    simpa using hemp
  refine Sat.bind (Sat.mono (consumeRest_sat g3) ?_)
  rintro ut s5 ⟨g5, c5, hut⟩
  split
  · exact none_ok _
  rename_i hutne
  have hutne' : ut ≠ [] := by intro h0; rw [h0] at hutne; simp at hutne
  try dsimp only
  refine Sat.bind (hasExt_sat g5 ?_)
  split
  · exact none_ok _
  rename_i r hr
  have hrun : RunAt (offAt ts s3.cur) ut := by rw [hut]; exact slice_runAt hw.run g3.le
  apply Sat.bind
  apply Sat.mono (Q := fun _ s' => G ts e s')
  · split
    · exact Sat.pure g5
    · refine Sat.bind (Sat.pushEv ?_)
      exact Sat.pure (g5.setEvs _)
  rintro v s6 g6
  refine Sat.bind (bpText_sat (hrun.headStart 0) ?_)
  refine Sat.bind (tokensSpanP_sat hw.ne ?_)
  refine Sat.pure ?_
  intro pq hpq
  simp only [Option.some.injEq] at hpq
  subst hpq
  intro u hu
  simp only [Option.some.injEq] at hu
  subst hu
  refine ⟨ut, by rw [hut]; exact sdat_slice_infix _ _ _, hutne', ?_, by rw [hut]; exact sdat_suffix_span (by rw [← hut]; exact hutne')⟩
  cases ut with
  | nil => exact absurd rfl hutne'
  | cons t r => simp [tokensSpan]

/-- `parse_quantity`: the unit of the returned quantity is assembled from tokens of `q` up to the end of `q` -/
theorem parseQuantity_unit {q : List Tok} (hq : WF q) (h : G ts e s) :
    Sat (parseQuantity (α := α) q) s (fun r _ => UnitAt q r.quantity) := by
  unfold parseQuantity
  have hne : q.isEmpty = false := by
    have := hq.ne
    cases q <;> simp_all
  simp only [hne, Bool.false_eq_true, if_false]
  refine Sat.bind (Sat.get ?_)
  refine Sat.bind (Sat.set ?_)
  have g0 : G q e ({ s with toks := q, cur := 0 } : BP α) := ⟨rfl, h.ext, h.panic, Nat.zero_le _⟩
  apply Sat.bind
  apply Sat.mono (Q := fun r s' => G q e s' ∧ ∀ pq, r = some pq → UnitAt q pq.quantity)
  · refine Sat.bind (hasExt_sat g0 ?_)
    split
    · apply withRecover_sat
      refine Sat.mono (Sat.sdatBoth (parseAdvancedQuantity_sat hq g0) (parseAdvancedQuantity_unit hq g0)) ?_
      rintro r s1 ⟨g1, hd⟩
      cases r with
      | none => exact ⟨g1.setCur (Nat.zero_le _), fun pq hpq => by cases hpq⟩
      | some b => exact ⟨g1, hd⟩
    · exact Sat.pure ⟨g0, fun pq hpq => by cases hpq⟩
  rintro adv s1 ⟨g1, hadv⟩
  apply Sat.bind
  apply Sat.mono (Q := fun r _ => UnitAt q r.quantity)
  · split
    · rename_i pq
      exact Sat.pure (hadv pq rfl)
    · exact parseRegularQuantity_unit hq g1
  intro r s2 hr
  refine Sat.bind (Sat.modify ?_)
  exact Sat.pure hr

/-! ### a predicate on the located quantity of ingredient and timer events -/

variable {off : Nat} {w : List Char} {Pv : Array (Ev α) → Prop}

def EvQtyAll (R : Loc (PQuantity α) → Prop) : Ev α → Prop
  | .ingredient i => OptOK R i.val.quantity
  | .timer t => OptOK R t.val.quantity
  | _ => True

/-- whatever `parse_quantity` guarantees of the quantity it returns (relative to its tokens, monotone in the reference
    token list) holds of the quantity of the ingredient event -/
theorem ingredientP_qty (Rq : List Tok → Loc (PQuantity α) → Prop)
    (hmono : ∀ T T' q, Rq T q → T <:+: T' → Rq T' q)
    (hpq : ∀ (q : List Tok) (s : BP α), WF q → G ts e s → Sat (parseQuantity (α := α) q) s (fun r _ => Rq q r.quantity))
    (hc : Ctx off w Pv ts) (h : GE Pv ts e s) :
    Sat (ingredientP (α := α)) s (fun r _ => ∀ ev, r = some ev → EvQtyAll (Rq ts) ev) := by
  have none_ok : ∀ s' : BP α, Sat (pure none : P α (Option (Ev α))) s'
      (fun r _ => ∀ ev, r = some ev → EvQtyAll (Rq ts) ev) :=
    fun s' => Sat.pure (fun ev hev => by cases hev)
  unfold ingredientP
  refine Sat.bind (currentOffset_sat h.g ?_)
  refine Sat.bind (Sat.mono (consumeK_ge _ h) ?_)
  rintro r1 s1 ⟨g1, h1⟩
  cases r1 with
  | none => exact none_ok _
  | some m =>
    obtain ⟨-, -, c1⟩ := h1
    refine Sat.bind (currentOffset_sat g1.g ?_)
    refine Sat.bind (Sat.mono (modifiersP_ev g1) ?_)
    rintro mtoks s2 ⟨g2, c2, hm, hmt⟩
    have hrm : RunIn off w (offAt ts s1.cur) mtoks := by rw [hmt]; exact hc.wfi.slice c2
    refine Sat.bind (currentOffset_sat g2.g ?_)
    refine Sat.bind (Sat.mono (Sat.sdatBoth (compBody_ev hc g2) (compBody_qinfix g2.g)) ?_)
    rintro r3 s3 ⟨⟨g3, h3⟩, hqi⟩
    cases r3 with
    | none => exact none_ok _
    | some body =>
      obtain ⟨c3, hname, hq, -⟩ := h3
      refine Sat.bind (Sat.mono (noteP_ev hc g3) ?_)
      rintro note s4 ⟨g4, c4, hnote⟩
      refine Sat.bind (currentOffset_sat g4.g ?_)
      refine Sat.bind (Sat.mono (parseAlias_ev hc "ingredient" hname g4) ?_)
      rintro ⟨name, alias⟩ s5 ⟨g5, c5, hnm, hal⟩
      dsimp only at hnm hal ⊢
      refine Sat.bind (Sat.mono (checkEmptyName_ev hc "ingredient" name hnm g5) ?_)
      rintro _ s6 ⟨g6, c6⟩
      refine Sat.bind (Sat.mono (parseModifiers_ev hc mtoks _ g6 hm hrm (hc.wfi.offAt _)) ?_)
      rintro pm s7 ⟨g7, c7, -, hfsp, hint⟩
      apply Sat.bind
      apply Sat.mono (Q := fun r _ => OptOK (Rq ts) r)
      · split
        · rename_i qt hqt
          refine Sat.bind (Sat.mono (hpq qt s7 (hq qt hqt).wf g7.g) ?_)
          rintro q s8 hqd
          exact Sat.pure (hmono _ _ _ hqd (hqi body qt rfl hqt))
        · exact Sat.pure trivial
      rintro quantity s8 hqo
      refine Sat.pure ?_
      intro ev hev
      simp only [Option.some.injEq] at hev
      subst hev
      exact hqo

theorem timerP_qty (Rq : List Tok → Loc (PQuantity α) → Prop)
    (hmono : ∀ T T' q, Rq T q → T <:+: T' → Rq T' q)
    (hpq : ∀ (q : List Tok) (s : BP α), WF q → G ts e s → Sat (parseQuantity (α := α) q) s (fun r _ => Rq q r.quantity))
    (hrecq : Rq ts recoverPQuantity)
    (hc : Ctx off w Pv ts) (h : GE Pv ts e s) :
    Sat (timerP (α := α)) s (fun r _ => ∀ ev, r = some ev → EvQtyAll (Rq ts) ev) := by
  have none_ok : ∀ s' : BP α, Sat (pure none : P α (Option (Ev α))) s'
      (fun r _ => ∀ ev, r = some ev → EvQtyAll (Rq ts) ev) :=
    fun s' => Sat.pure (fun ev hev => by cases hev)
  unfold timerP
  refine Sat.bind (currentOffset_sat h.g ?_)
  refine Sat.bind (Sat.mono (consumeK_ge _ h) ?_)
  rintro r1 s1 ⟨g1, h1⟩
  cases r1 with
  | none => exact none_ok _
  | some m =>
    obtain ⟨-, -, c1⟩ := h1
    refine Sat.bind (Sat.mono (modifiersP_ev g1) ?_)
    rintro mtoks s2 ⟨g2, c2, hm, hmt⟩
    have hrm : RunIn off w (offAt ts s1.cur) mtoks := by rw [hmt]; exact hc.wfi.slice c2
    refine Sat.bind (currentOffset_sat g2.g ?_)
    refine Sat.bind (Sat.mono (Sat.sdatBoth (compBody_ev hc g2) (compBody_qinfix g2.g)) ?_)
    rintro r3 s3 ⟨⟨g3, h3⟩, hqi⟩
    cases r3 with
    | none => exact none_ok _
    | some body =>
      obtain ⟨c3, hname, hq, hclose⟩ := h3
      refine Sat.bind (currentOffset_sat g3.g ?_)
      have hnt := hname.text
      try simp -zeta only
      extract_lets +onlyGivenNames -underBinder jp1
      have hjp1 : ∀ (r : Unit) (s4 : BP α), GE Pv ts e s4 → Sat (jp1 r) s4
          (fun r _ => ∀ ev, r = some ev → EvQtyAll (Rq ts) ev) := by
        intro r s4 g4
        simp -zeta only [jp1]
        refine Sat.bind (hasExt_sat g4.g ?_)
        try simp -zeta only
        extract_lets +onlyGivenNames -underBinder jp2
        have hjp2 : ∀ (r : Unit) (s5 : BP α), GE Pv ts e s5 → Sat (jp2 r) s5
            (fun r _ => ∀ ev, r = some ev → EvQtyAll (Rq ts) ev) := by
          intro r s5 g5
          simp -zeta only [jp2]
          refine Sat.bind (Sat.mono (checkNoteTimer_ev hc g5) ?_)
          rintro _ s6 ⟨g6, c6⟩
          refine Sat.bind (bpText_sat hname.run ?_)
          refine Sat.bind (Sat.get ?_)
          try simp -zeta only
          extract_lets +onlyGivenNames -underBinder cs
          apply Sat.bind
          apply Sat.mono (Q := fun r _ => OptOK (Rq ts) r)
          · split
            · rename_i qt hqt
              refine Sat.bind (Sat.mono (hpq qt s6 (hq qt hqt).wf g6.g) ?_)
              rintro q s7 hqd
              have hqd' := hmono _ _ _ hqd (hqi body qt rfl hqt)
              dsimp only
              split
              · refine Sat.bind (Sat.perrE ?_)
                exact Sat.pure hqd'
              · exact Sat.pure hqd'
            · exact Sat.pure trivial
          rintro quantity s7 hqo
          refine Sat.bind (Sat.hasExt ?_)
          try simp -zeta only
          extract_lets +onlyGivenNames -underBinder jp3
          have hrec : OptOK (Rq ts) (some (recoverPQuantity (α := α))) := hrecq
          have hjp3 : ∀ (r : Unit) (qo : Option (Loc (PQuantity α))) (s8 : BP α), OptOK (Rq ts) qo →
              Sat (jp3 r qo) s8 (fun r _ => ∀ ev, r = some ev → EvQtyAll (Rq ts) ev) := by
            intro r qo s8 hqo8
            simp -zeta only [jp3]
            try simp -zeta only
            extract_lets +onlyGivenNames -underBinder nameO jp4
            have hjp4 : ∀ (r : Unit) (qo : Option (Loc (PQuantity α))) (s9 : BP α), OptOK (Rq ts) qo →
                Sat (jp4 r qo) s9 (fun r _ => ∀ ev, r = some ev → EvQtyAll (Rq ts) ev) := by
              intro r qo s9 hqo9
              simp -zeta only [jp4]
              refine Sat.pure ?_
              intro ev hev
              simp only [Option.some.injEq] at hev
              subst hev
              exact hqo9
            clear_value jp4 nameO
            split
            · dsimp only
              refine Sat.bind (Sat.perrE ?_)
              exact hjp4 _ _ _ hrec
            · exact hjp4 _ _ _ hqo8
          clear_value jp3
          split
          · dsimp only
            refine Sat.bind (Sat.perrE ?_)
            exact hjp3 _ _ _ hrec
          · exact hjp3 _ _ _ hqo
        clear_value jp2
        split
        · split
          · rename_i i hfi
            have hlt : i < body.name.length := by
              rw [List.findIdx?_eq_some_iff_getElem] at hfi
              exact hfi.1
            have hget : body.name[i]? = some body.name[i] := List.getElem?_eq_getElem hlt
            simp only [hget, Option.getD_some]
            refine Sat.bind (Sat.perrE ?_)
            exact hjp2 _ _ (g4.err hc (one_label (hname.sepToEnd hget)))
          · exact hjp2 _ _ g4
        · exact hjp2 _ _ g4
      clear_value jp1
      split
      · rename_i hne
        have hne' : mtoks ≠ [] := by intro h0; rw [h0] at hne; simp at hne
        refine Sat.bind (Sat.perrE ?_)
        exact hjp1 _ _ (g3.err hc (one_label (hrm.tokensSpan hne')))
      · exact hjp1 _ _ g3

theorem cookwareP_qtyAll (R : Loc (PQuantity α) → Prop) :
    Sat (cookwareP (α := α)) s (fun r _ => ∀ ev, r = some ev → EvQtyAll R ev) := by
  have hk : Keeps (fun _ => True) (cookwareP (α := α)) (fun r => ∀ ev, r = some ev → EvQtyAll R ev) := by
    unfold cookwareP
    keeps
    all_goals (refine Keeps.pure (fun ev hev => ?_); cases hev <;> trivial)
  exact (hk.run s trivial).2

/-! ### units at document level -/

/-- the unit of a quantity is the text assembled from the (adjacent, non-empty run of) tokens of `T` between some
    offset `o` and the END of the quantity -/
def UnitRead (T : List Tok) (q : Loc (PQuantity α)) : Prop :=
  ∀ u, q.val.unit = some u → ∃ o, toksIn T ⟨o, q.span.stop⟩ <:+: T ∧ toksIn T ⟨o, q.span.stop⟩ ≠ [] ∧
    tokensSpan (toksIn T ⟨o, q.span.stop⟩) = ⟨o, q.span.stop⟩ ∧ u = buildText o (toksIn T ⟨o, q.span.stop⟩)

theorem UnitAt.read {T : List Tok} {q : Loc (PQuantity α)} (hT : TokLine T) (h : UnitAt T q) : UnitRead T q := by
  intro u hu
  obtain ⟨ut, h1, h2, h3, h4⟩ := h u hu
  have hsp : tokensSpan ut = ⟨(tokensSpan ut).start, q.span.stop⟩ := by rw [← h4]
  have := toksIn_of_infix hT h1 (sp := ⟨(tokensSpan ut).start, q.span.stop⟩)
    ⟨fun _ => hsp.symm, fun h0 => absurd h0 h2⟩
  refine ⟨(tokensSpan ut).start, ?_, ?_, ?_, ?_⟩ <;> rw [this]
  · exact h1
  · exact h2
  · exact hsp
  · exact h3

theorem sdat_unit_recover (T : List Tok) : UnitAt T (recoverPQuantity (α := α)) := by
  intro u hu; cases hu

theorem EvQtyAll.imp {R R' : Loc (PQuantity α) → Prop} (h : ∀ q, R q → R' q) {ev : Ev α} (hev : EvQtyAll R ev) :
    EvQtyAll R' ev := by
  cases ev with
  | ingredient i => exact sdat_optOK_imp h hev
  | timer t => exact sdat_optOK_imp h hev
  | _ => trivial

/-- **the unit of every quantity of every event is assembled from the tokens up to the end of the quantity** -/
theorem pullEvents_unitRead (cs : CharSpec) (ext : Ext) (input : List Char) :
    ∀ ev ∈ (pullEvents (α := α) cs ext input).1.toList, EvQtyAll (UnitRead (pullToks cs input)) ev := by
  have hT := pullToks_tokLine cs input
  have hp : PlainQ (EvQtyAll (α := α) (UnitRead (pullToks cs input))) := by
    intro ev hev
    cases ev <;> first | trivial | (simp [Ev.isComponent] at hev)
  have hmono : ∀ (T T' : List Tok) (q : Loc (PQuantity α)), UnitAt T q → T <:+: T' → UnitAt T' q :=
    fun T T' q h hi => h.mono hi
  apply pullEvents_q cs ext input hp
  intro blk hB hw
  have hc := sdat_ctx (α := α) hw hp
  refine ⟨?_, ?_, ?_⟩
  · intro s h hcs
    refine Sat.mono (Sat.sdatBoth (ingredientP_data hc h)
      (ingredientP_qty (fun T q => UnitAt T q) hmono (fun q s hq g => parseQuantity_unit hq g) hc h)) ?_
    rintro r s' ⟨⟨h1, -⟩, h2⟩
    rw [hcs] at h1
    exact ⟨h1, fun ev hev => (h2 ev hev).imp (fun q hq => (hq.mono hB).read hT)⟩
  · intro s h hcs
    refine Sat.mono (Sat.sdatBoth (cookwareP_data hc h) (cookwareP_qtyAll (UnitRead (pullToks cs input)))) ?_
    rintro r s' ⟨⟨h1, -⟩, h2⟩
    rw [hcs] at h1
    exact ⟨h1, h2⟩
  · intro s h hcs
    refine Sat.mono (Sat.sdatBoth (timerP_data hc h)
      (timerP_qty (fun T q => UnitAt T q) hmono (fun q s hq g => parseQuantity_unit hq g) (sdat_unit_recover _) hc h)) ?_
    rintro r s' ⟨⟨h1, -⟩, h2⟩
    rw [hcs] at h1
    exact ⟨h1, fun ev hev => (h2 ev hev).imp (fun q hq => (hq.mono hB).read hT)⟩

/-- the located quantities (value + unit) an event carries -/
def Ev.quantities : Ev α → List (Loc (PQuantity α))
  | .ingredient i => match i.val.quantity with | some q => [q] | none => []
  | .timer t => match t.val.quantity with | some q => [q] | none => []
  | _ => []

/-- **the unit of a quantity is faithful**: there is an offset `o` — just after the `%`, or at the first word after the
    value in the ADVANCED_UNITS syntax — such that the tokens of the document between `o` and the END of the quantity
    are adjacent and not empty, spell `input[o .. quantity.end]`, the unit IS the text `BlockParser::text` assembles from
    them, and so its characters are their visible characters (comments dropped, a line break one space) -/
def UnitFaithful (cs : CharSpec) (input : List Char) (q : Loc (PQuantity α)) : Prop :=
  ∀ u, q.val.unit = some u → ∃ o,
    toksIn (pullToks cs input) ⟨o, q.span.stop⟩ <:+: pullToks cs input ∧
    toksIn (pullToks cs input) ⟨o, q.span.stop⟩ ≠ [] ∧
    SpanText input (pullToks cs input) ⟨o, q.span.stop⟩ ∧
    u = buildText o (toksIn (pullToks cs input) ⟨o, q.span.stop⟩) ∧
    u.text = (toksIn (pullToks cs input) ⟨o, q.span.stop⟩).flatMap vis

theorem sdat_run_start_boundary {input : List Char} {T ut : List Tok}
    (hemb : ∃ pre, input = pre ++ T.flatMap (·.text) ∧ Chain (utf8Len pre) T) (hi : ut <:+: T) (hne : ut ≠ []) :
    Boundary 0 input (tokensSpan ut).start := by
  obtain ⟨pre, hpre, hch⟩ := hemb
  obtain ⟨a, c, hac⟩ := hi
  rw [← hac] at hch hpre
  have c1 := (chain_append _ _ _).mp hch
  have c2 := (chain_append _ _ _).mp c1.1
  rw [tokensSpan_chain c2.2 hne]
  refine ⟨pre ++ a.flatMap (·.text), ut.flatMap (·.text) ++ c.flatMap (·.text), ?_, ?_⟩
  · rw [hpre]; simp
  · simp only; rw [chain_lastStop c2.1, utf8Len_append]; omega

theorem UnitRead.faithful {cs : CharSpec} {input : List Char} {q : Loc (PQuantity α)}
    (h : UnitRead (pullToks cs input) q) : UnitFaithful cs input q := by
  intro u hu
  obtain ⟨o, h1, h2, h3, h4⟩ := h u hu
  refine ⟨o, h1, h2, ?_, h4, by rw [h4, buildText_text]⟩
  have hsp : TokSpanOf ⟨o, q.span.stop⟩ (toksIn (pullToks cs input) ⟨o, q.span.stop⟩) :=
    ⟨fun _ => h3.symm, fun h0 => absurd h0 h2⟩
  refine spanText_of (pullToks_emb cs input) h1 hsp ?_
  have := sdat_run_start_boundary (pullToks_emb cs input) h1 h2
  rw [h3] at this
  exact this

theorem EvQtyAll.quantities {R : Loc (PQuantity α) → Prop} {ev : Ev α} (h : EvQtyAll R ev) :
    ∀ q ∈ ev.quantities, R q := by
  intro q hq
  cases ev with
  | ingredient i =>
    simp only [Ev.quantities] at hq
    split at hq
    · rename_i x hx
      simp only [List.mem_singleton] at hq; subst hq
      have h' : OptOK R i.val.quantity := h
      rw [hx] at h'; exact h'
    · cases hq
  | timer t =>
    simp only [Ev.quantities] at hq
    split at hq
    · rename_i x hx
      simp only [List.mem_singleton] at hq; subst hq
      have h' : OptOK R t.val.quantity := h
      rw [hx] at h'; exact h'
    · cases hq
  | _ => cases hq

theorem pullEvents_unitFaithful (cs : CharSpec) (ext : Ext) (input : List Char) :
    ∀ ev ∈ (pullEvents (α := α) cs ext input).1.toList, ∀ q ∈ ev.quantities, UnitFaithful cs input q :=
  fun ev hev q hq => ((pullEvents_unitRead cs ext input ev hev).quantities q hq).faithful

/-! ### everything about one event -/

/-- everything C04 says about one event: `EvFull` (valid spans, texts with ordered faithful fragments, derived data
    read from the tokens at their spans) and the units assembled from the tokens up to the end of their quantity -/
def EvAll (cs : CharSpec) (e : Ext) (input : List Char) (ev : Ev α) : Prop :=
  EvFull cs e input ev ∧ ∀ q ∈ ev.quantities, UnitFaithful cs input q

theorem pullEvents_evAll (cs : CharSpec) (ext : Ext) (input : List Char) :
    ∀ ev ∈ (pullEvents (α := α) cs ext input).1.toList, EvAll cs ext input ev :=
  fun ev hev => ⟨pullEvents_evFull cs ext input ev hev, pullEvents_unitFaithful cs ext input ev hev⟩

theorem pullMetaEvents_evAll (cs : CharSpec) (ext : Ext) (input : List Char) :
    ∀ ev ∈ (pullMetaEvents (α := α) cs ext input).1.toList, EvAll cs ext input ev := by
  have h2 : AllQ (fun ev : Ev α => ∀ q ∈ ev.quantities, UnitFaithful cs input q)
      (pullMetaEvents (α := α) cs ext input).1 := by
    apply pullMetaEvents_q
    intro ev hev q hq
    cases ev <;> first | cases hq | (simp [Ev.isComponent] at hev)
  exact fun ev hev => ⟨pullMetaEvents_evFull cs ext input ev hev, h2 ev hev⟩

end Cook
