import CookModel.Lemmas.StdMetaLists
import CookModel.Lemmas.ArithRat
/-
  The float syntax of `f64::from_str` as re-implemented in the model (`parseF64Syn`) against the
  grammar of the Spec (`FloatNum`, `DecNum`), and the value of a literal over `Rat`.
-/
namespace Cook.SM
open Cook Spec

/-! ### signs -/

theorem expSign_spec (t : Str) : ∃ sg, Sign sg (expSign t).1 ∧ t = sg ++ (expSign t).2 := by
  cases t with
  | nil => exact ⟨[], Or.inl ⟨rfl, rfl⟩, rfl⟩
  | cons c r =>
    by_cases h1 : c = '-'
    · subst h1; exact ⟨['-'], Or.inr (Or.inr ⟨rfl, by simp [expSign]⟩), by simp [expSign]⟩
    · by_cases h2 : c = '+'
      · subst h2; exact ⟨['+'], Or.inr (Or.inl ⟨rfl, by simp [expSign]⟩), by simp [expSign]⟩
      · exact ⟨[], Or.inl ⟨rfl, by simp [expSign, h1, h2]⟩, by simp [expSign, h1, h2]⟩

/-- `r` does not start with a sign character -/
def NoSignHead (r : Str) : Prop := ∀ c r', r = c :: r' → c ≠ '-' ∧ c ≠ '+'

theorem expSign_of_sign {sg r : Str} {neg : Bool} (hs : Sign sg neg) (hr : NoSignHead r) :
    expSign (sg ++ r) = (neg, r) := by
  rcases hs with ⟨rfl, rfl⟩ | ⟨rfl, rfl⟩ | ⟨rfl, rfl⟩
  · cases r with
    | nil => rfl
    | cons c r' =>
      have := hr c r' rfl
      simp [expSign, this.1, this.2]
  · simp [expSign]
  · simp [expSign]

theorem digit_not_sign {c : Char} (h : isDigit c = true) : c ≠ '-' ∧ c ≠ '+' := by
  constructor <;> (intro hc; subst hc; revert h; decide)

theorem dot_not_digit : isDigit '.' = false := by decide

theorem noSignHead_of_digits {ds r : Str} (hd : AllDigits ds) (hne : ds ≠ []) : NoSignHead (ds ++ r) := by
  intro c r' h
  cases ds with
  | nil => exact absurd rfl hne
  | cons d ds' =>
    simp at h
    rw [← h.1]
    exact digit_not_sign (hd d (by simp))

/-! ### exponent -/

theorem expPart_stops {t : Str} {k : Int} (h : ExpPart t k) :
    t = [] ∨ ∃ c r, t = c :: r ∧ (c = 'e' ∨ c = 'E') := by
  rcases h with ⟨rfl, -⟩ | ⟨c, sg, ds, neg, hc, -, -, -, rfl, -⟩
  · exact Or.inl rfl
  · exact Or.inr ⟨c, _, rfl, hc⟩

theorem e_not_digit {c : Char} (hc : c = 'e' ∨ c = 'E') : isDigit c = false ∧ c ≠ '.' ∧ isNumCh c = false := by
  rcases hc with rfl | rfl <;> decide

theorem parseExp_iff (t : Str) (k : Int) : parseExp t = some k ↔ ExpPart t k := by
  cases t with
  | nil =>
    constructor
    · intro h
      simp only [parseExp, Option.some.injEq] at h
      exact Or.inl ⟨rfl, h.symm⟩
    · rintro (⟨-, h⟩ | ⟨c, sg, ds, neg, -, -, -, -, h, -⟩)
      · simp [parseExp, h]
      · exact absurd h (by simp)
  | cons c t' =>
    simp only [parseExp, ExpPart]
    by_cases hc : (c = 'e' ∨ c = 'E')
    · have hc' : (decide (c = 'e') || decide (c = 'E')) = true := by simpa using hc
      simp only [hc', if_true]
      obtain ⟨sg, hsg, ht'⟩ := expSign_spec t'
      constructor
      · intro h
        split at h
        · rename_i hd
          simp only [Bool.and_eq_true, Bool.not_eq_true', List.isEmpty_eq_false_iff] at hd
          simp only [Option.some.injEq] at h
          right
          refine ⟨c, sg, (expSign t').2, (expSign t').1, hc, hsg, hd.1, (allDigits_iff _).mp hd.2, by rw [← ht'], ?_⟩
          rw [← h, natOfDigits_eq]
        · exact absurd h (by simp)
      · rintro (⟨h, -⟩ | ⟨c', sg', ds, neg, -, hsg', hne, hd, ht, hk⟩)
        · exact absurd h (by simp)
        · simp only [List.cons.injEq] at ht
          obtain ⟨rfl, rfl⟩ := ht
          rw [expSign_of_sign hsg' (by simpa using noSignHead_of_digits (r := []) hd hne)]
          simp only
          have h1 : (!ds.isEmpty && ds.all isDigit) = true := by
            simp only [Bool.and_eq_true, Bool.not_eq_true', List.isEmpty_eq_false_iff]
            exact ⟨hne, (allDigits_iff _).mpr hd⟩
          rw [if_pos h1, natOfDigits_eq, hk]
    · have hc' : (decide (c = 'e') || decide (c = 'E')) = false := by simpa using hc
      simp only [hc', Bool.false_eq_true, if_false]
      constructor
      · intro h; exact absurd h (by simp)
      · rintro (⟨h, -⟩ | ⟨c', sg', ds, neg, hce, -, -, -, ht, -⟩)
        · exact absurd h (by simp)
        · simp only [List.cons.injEq] at ht
          rw [← ht.1] at hce; exact absurd hce hc

/-! ### mantissa -/

/-- the text after the sign: digits, optional `.digits`, optional exponent -/
def DecBody (body i f : Str) (k : Int) : Prop :=
  ∃ ex, AllDigits i ∧ AllDigits f ∧ ExpPart ex k ∧
    ((body = i ++ ex ∧ f = [] ∧ i ≠ []) ∨ (body = i ++ '.' :: f ++ ex ∧ (i ≠ [] ∨ f ≠ [])))

theorem stopsAt_digit_exp {ex : Str} {k : Int} (h : ExpPart ex k) : StopsAt isDigit ex := by
  rcases expPart_stops h with rfl | ⟨c, r, rfl, hc⟩
  · exact Or.inl rfl
  · exact stopsAt_cons (e_not_digit hc).1

theorem fracPart_exp {ex : Str} {k : Int} (h : ExpPart ex k) : fracPart ex = ([], ex) := by
  rcases expPart_stops h with rfl | ⟨c, r, rfl, hc⟩
  · rfl
  · simp [fracPart, (e_not_digit hc).2.1]

theorem parseDecBody_iff (neg : Bool) (body : Str) (d : DecLit) :
    parseDecBody neg body = some d ↔ ∃ i f k, DecBody body i f k ∧ d = ⟨neg, i, f, k⟩ := by
  unfold parseDecBody
  constructor
  · intro h
    simp only at h
    split at h
    · exact absurd h (by simp)
    · rename_i hne
      cases hpe : parseExp (fracPart (body.dropWhile isDigit)).2 with
      | none => rw [hpe] at h; exact absurd h (by simp)
      | some k =>
        rw [hpe] at h
        simp only [Option.some.injEq] at h
        have hex := (parseExp_iff _ _).mp hpe
        have hbody : body.takeWhile isDigit ++ body.dropWhile isDigit = body := List.takeWhile_append_dropWhile
        refine ⟨body.takeWhile isDigit, (fracPart (body.dropWhile isDigit)).1, k,
          ⟨(fracPart (body.dropWhile isDigit)).2, takeWhile_all body, ?_, hex, ?_⟩, h.symm⟩
        · cases hr : body.dropWhile isDigit with
          | nil => simp [fracPart, AllDigits]
          | cons c t =>
            by_cases hc : c = '.'
            · subst hc; simp only [fracPart, if_true]; exact takeWhile_all t
            · simp [fracPart, hc, AllDigits]
        · cases hr : body.dropWhile isDigit with
          | nil =>
            rw [hr] at hbody
            have hfp : fracPart ([] : Str) = ([], []) := rfl
            rw [hr, hfp] at hne
            rw [hfp]
            refine Or.inl ⟨by simpa using hbody.symm, rfl, ?_⟩
            intro h0; rw [h0] at hne; exact hne rfl
          | cons c t =>
            rw [hr] at hbody
            by_cases hc : c = '.'
            · subst hc
              have hfp : fracPart ('.' :: t) = (t.takeWhile isDigit, t.dropWhile isDigit) := by simp [fracPart]
              rw [hr, hfp] at hne
              rw [hfp]
              refine Or.inr ⟨?_, ?_⟩
              · show body = _ ++ '.' :: (t.takeWhile isDigit) ++ t.dropWhile isDigit
                rw [List.append_assoc, List.cons_append, List.takeWhile_append_dropWhile]; exact hbody.symm
              · by_cases h0 : body.takeWhile isDigit = []
                · right
                  intro h1
                  show False
                  rw [h0] at hne
                  have h1' : List.takeWhile isDigit t = [] := h1
                  rw [h1'] at hne; exact hne rfl
                · left; exact h0
            · have hfp : fracPart (c :: t) = ([], c :: t) := by simp [fracPart, hc]
              rw [hr, hfp] at hne
              rw [hfp]
              refine Or.inl ⟨hbody.symm, rfl, ?_⟩
              intro h0; rw [h0] at hne; exact hne rfl
  · rintro ⟨i, f, k, ⟨ex, hi, hf, hex, hform⟩, rfl⟩
    have hpe := (parseExp_iff _ _).mpr hex
    rcases hform with ⟨rfl, rfl, hne⟩ | ⟨rfl, hne⟩
    · rw [takeWhile_append_stop hi (stopsAt_digit_exp hex), dropWhile_append_stop hi (stopsAt_digit_exp hex),
        fracPart_exp hex]
      simp only [hpe]
      have : (i.isEmpty && ([] : Str).isEmpty) = false := by
        cases i with
        | nil => exact absurd rfl hne
        | cons c t => rfl
      rw [this]; rfl
    · have hstop : StopsAt isDigit ('.' :: f ++ ex) := stopsAt_cons dot_not_digit
      rw [List.append_assoc, takeWhile_append_stop hi hstop, dropWhile_append_stop hi hstop]
      simp only [List.cons_append, fracPart, if_true]
      rw [takeWhile_append_stop hf (stopsAt_digit_exp hex), dropWhile_append_stop hf (stopsAt_digit_exp hex)]
      simp only [hpe]
      have : (i.isEmpty && f.isEmpty) = false := by
        rcases hne with h | h
        · cases i with
          | nil => exact absurd rfl h
          | cons c t => rfl
        · cases f with
          | nil => exact absurd rfl h
          | cons c t => simp
      rw [this]; rfl

theorem decBody_head {body i f : Str} {k : Int} (h : DecBody body i f k) : NoSignHead body ∧ body ≠ [] := by
  obtain ⟨ex, hi, hf, hex, hform⟩ := h
  rcases hform with ⟨rfl, rfl, hne⟩ | ⟨rfl, hne⟩
  · refine ⟨noSignHead_of_digits hi hne, ?_⟩
    cases i with
    | nil => exact absurd rfl hne
    | cons c t => simp
  · constructor
    · cases i with
      | nil =>
        intro c r' h
        simp at h
        rw [← h.1]; decide
      | cons c t =>
        rw [List.append_assoc]
        exact noSignHead_of_digits hi (by simp)
    · simp

theorem parseInfNan_not_dec (neg : Bool) (s : Str) (d : DecLit) : parseInfNan neg s ≠ some (.dec d) := by
  unfold parseInfNan
  simp only
  split
  · simp
  · split <;> simp

/-- a decimal literal in the float syntax of Rust: sign, mantissa, exponent -/
theorem parseF64Syn_dec_iff (t : Str) (d : DecLit) :
    parseF64Syn t = some (.dec d) ↔
      ∃ sg neg body i f k, Sign sg neg ∧ t = sg ++ body ∧ DecBody body i f k ∧ d = ⟨neg, i, f, k⟩ := by
  unfold parseF64Syn floatSign
  constructor
  · intro h
    simp only at h
    split at h
    · exact absurd h (by simp)
    · cases hp : parseDecBody (expSign t).1 (expSign t).2 with
      | none =>
        rw [hp] at h
        exact absurd h (parseInfNan_not_dec _ _ _)
      | some d' =>
        rw [hp] at h
        simp only [Option.some.injEq, F64Syn.dec.injEq] at h
        subst h
        obtain ⟨i, f, k, hb, hd⟩ := (parseDecBody_iff _ _ _).mp hp
        obtain ⟨sg, hsg, ht⟩ := expSign_spec t
        exact ⟨sg, (expSign t).1, (expSign t).2, i, f, k, hsg, ht, hb, hd⟩
  · rintro ⟨sg, neg, body, i, f, k, hsg, rfl, hb, rfl⟩
    have hh := decBody_head hb
    rw [expSign_of_sign hsg hh.1]
    simp only
    have : body.isEmpty = false := by
      cases body with
      | nil => exact absurd rfl hh.2
      | cons c r => rfl
    rw [this]
    simp only [Bool.false_eq_true, if_false]
    rw [(parseDecBody_iff neg body _).mpr ⟨i, f, k, hb, rfl⟩]

/-! ### value over `Rat` -/

theorem decVal_append (a b : Str) : decVal (a ++ b) = decVal a * 10 ^ b.length + decVal b := by
  induction a with
  | nil => simp [decVal]
  | cons c cs ih =>
    simp only [List.cons_append, decVal, ih, List.length_append]
    rw [Nat.pow_add, Nat.add_mul, Nat.mul_assoc]
    omega

theorem pow10_natCast (n : Nat) : pow10 (n : Int) = ((10 ^ n : Nat) : Rat) := by
  unfold pow10
  rw [Rat.zpow_natCast]; push_cast; rfl

theorem pow10_pos_ne (k : Int) : pow10 k ≠ 0 := by
  unfold pow10
  intro h
  have h1 : (10 : Rat) ^ (k + -k) = (10 : Rat) ^ k * (10 : Rat) ^ (-k) := Rat.zpow_add (by decide) k (-k)
  rw [h] at h1
  have h2 : k + -k = 0 := by omega
  rw [h2] at h1
  simp at h1

theorem pow10_add (a b : Int) : pow10 (a + b) = pow10 a * pow10 b := Rat.zpow_add (by decide) a b

theorem pow10_neg_natCast (n : Nat) : pow10 (-(n : Int)) = 1 / ((10 ^ n : Nat) : Rat) := by
  have h := pow10_add (n : Int) (-(n : Int))
  have h0 : pow10 ((n : Int) + -(n : Int)) = 1 := by
    have : (n : Int) + -(n : Int) = 0 := by omega
    rw [this]; unfold pow10; simp
  rw [h0, pow10_natCast] at h
  have hne : ((10 ^ n : Nat) : Rat) ≠ 0 := by
    have : (10 ^ n : Nat) ≠ 0 := Nat.ne_of_gt (Nat.pow_pos (by decide))
    exact_mod_cast this
  grind

/-- the exact value of a decimal literal -/
theorem decValue_rat (neg : Bool) (i f : Str) (k : Int) :
    decValue (α := Rat) ⟨neg, i, f, k⟩ =
      (if neg then -1 else 1) * ((decVal i : Rat) + (decVal f : Rat) / ((10 ^ f.length : Nat) : Rat)) * pow10 k := by
  unfold decValue
  simp only [natOfDigits_eq, decVal_append]
  have hne : ((10 ^ f.length : Nat) : Rat) ≠ 0 := by
    have : (10 ^ f.length : Nat) ≠ 0 := Nat.ne_of_gt (Nat.pow_pos (by decide))
    exact_mod_cast this
  have hk : pow10 k = pow10 (k - f.length) * ((10 ^ f.length : Nat) : Rat) := by
    rw [← pow10_natCast, ← pow10_add]; congr 1; omega
  have hm : (((decVal i * 10 ^ f.length + decVal f : Nat)) : Rat) =
      ((decVal i : Rat) + (decVal f : Rat) / ((10 ^ f.length : Nat) : Rat)) * ((10 ^ f.length : Nat) : Rat) := by
    push_cast; push_cast at hne; grind
  have hcore : (if 0 ≤ k - (f.length : Int)
        then (Arith.ofDecimal ((decVal i * 10 ^ f.length + decVal f) * 10 ^ (k - (f.length : Int)).toNat) 0 : Rat)
        else Arith.ofDecimal (decVal i * 10 ^ f.length + decVal f) (-(k - (f.length : Int))).toNat) =
      ((decVal i : Rat) + (decVal f : Rat) / ((10 ^ f.length : Nat) : Rat)) * pow10 k := by
    rw [hk]
    split
    · rename_i h0
      have : pow10 (k - f.length) = (((10 ^ (k - (f.length : Int)).toNat : Nat)) : Rat) := by
        rw [← pow10_natCast]; congr 1; omega
      rw [this]
      show ((((decVal i * 10 ^ f.length + decVal f) * 10 ^ (k - (f.length : Int)).toNat : Nat)) : Rat) / ((10 ^ 0 : Nat) : Rat) = _
      rw [Rat.natCast_mul, hm]
      have h1 : (((10 ^ 0 : Nat)) : Rat) = 1 := by simp
      rw [h1]
      grind
    · rename_i h0
      have : pow10 (k - f.length) = 1 / (((10 ^ (-(k - (f.length : Int))).toNat : Nat)) : Rat) := by
        rw [← pow10_neg_natCast]; congr 1; omega
      rw [this]
      show (((decVal i * 10 ^ f.length + decVal f : Nat)) : Rat) / (((10 ^ (-(k - (f.length : Int))).toNat : Nat)) : Rat) = _
      rw [hm]
      grind
  rw [hcore]
  cases neg
  · simp
  · have harith : ∀ y : Rat, (Arith.neg y : Rat) = -y := fun _ => rfl
    simp only [if_true, harith]; grind

/-- `str::parse::<f64>` gives a finite decimal value exactly on the texts of `FloatNum` -/
theorem parseF64_val_iff (t : Str) (x : Rat) : parseF64 (α := Rat) t = .val x ↔ FloatNum t x := by
  unfold parseF64
  constructor
  · intro h
    cases hp : parseF64Syn t with
    | none => rw [hp] at h; exact absurd h (by simp)
    | some syn =>
      rw [hp] at h
      cases syn with
      | nan => exact absurd h (by simp)
      | inf n => exact absurd h (by simp)
      | dec d =>
        simp only [PF.val.injEq] at h
        obtain ⟨sg, neg, body, i, f, k, hsg, ht, ⟨ex, hi, hf, hex, hform⟩, rfl⟩ := (parseF64Syn_dec_iff t d).mp hp
        rw [decValue_rat] at h
        rcases hform with ⟨rfl, rfl, hne⟩ | ⟨rfl, hne⟩
        · exact ⟨sg, i, ex, neg, _, k, hsg, ⟨i, [], hi, hf, Or.inl ⟨rfl, rfl, hne⟩, rfl⟩, hex, by rw [ht, List.append_assoc], h.symm⟩
        · exact ⟨sg, i ++ '.' :: f, ex, neg, _, k, hsg, ⟨i, f, hi, hf, Or.inr ⟨rfl, hne⟩, rfl⟩, hex,
            by rw [ht]; simp, h.symm⟩
  · rintro ⟨sg, body, ex, neg, m, k, hsg, ⟨i, f, hi, hf, hform, rfl⟩, hex, rfl, rfl⟩
    have hd : parseF64Syn (sg ++ body ++ ex) = some (.dec ⟨neg, i, f, k⟩) := by
      rw [parseF64Syn_dec_iff]
      refine ⟨sg, neg, body ++ ex, i, f, k, hsg, by simp, ⟨ex, hi, hf, hex, ?_⟩, rfl⟩
      rcases hform with ⟨rfl, rfl, hne⟩ | ⟨rfl, hne⟩
      · exact Or.inl ⟨rfl, rfl, hne⟩
      · exact Or.inr ⟨by simp, hne⟩
    rw [hd]
    simp only [PF.val.injEq]
    exact decValue_rat neg i f k

theorem decNum_numch {t : Str} {x : Rat} (h : DecNum t x) : ∀ c ∈ t, isNumCh c = true := by
  obtain ⟨i, f, hi, hf, hform, -⟩ := h
  intro c hc
  rcases hform with ⟨rfl, -, -⟩ | ⟨rfl, -⟩
  · simp [isNumCh, hi c hc]
  · simp only [List.mem_append, List.mem_cons] at hc
    rcases hc with hc | rfl | hc
    · simp [isNumCh, hi c hc]
    · decide
    · simp [isNumCh, hf c hc]

theorem decNum_floatNum {t : Str} {x : Rat} (h : DecNum t x) : FloatNum t x := by
  refine ⟨[], t, [], false, x, 0, Or.inl ⟨rfl, rfl⟩, h, Or.inl ⟨rfl, rfl⟩, by simp, ?_⟩
  simp [pow10]

/-- on a text of digits and dots the float syntax is the plain decimal number -/
theorem floatNum_numch {t : Str} {x : Rat} (h : FloatNum t x) (hn : ∀ c ∈ t, isNumCh c = true) : DecNum t x := by
  obtain ⟨sg, body, ex, neg, m, k, hsg, hbody, hex, rfl, rfl⟩ := h
  have hsg' : sg = [] ∧ neg = false := by
    rcases hsg with ⟨rfl, rfl⟩ | ⟨rfl, rfl⟩ | ⟨rfl, rfl⟩
    · exact ⟨rfl, rfl⟩
    · have := hn '+' (by simp); revert this; decide
    · have := hn '-' (by simp); revert this; decide
  obtain ⟨rfl, rfl⟩ := hsg'
  have hex' : ex = [] ∧ k = 0 := by
    rcases hex with ⟨rfl, rfl⟩ | ⟨c, sg, ds, neg, hc, -, -, -, rfl, -⟩
    · exact ⟨rfl, rfl⟩
    · have := hn c (by simp)
      rw [(e_not_digit hc).2.2] at this; exact absurd this (by simp)
  obtain ⟨rfl, rfl⟩ := hex'
  simp only [List.nil_append, List.append_nil, Bool.false_eq_true, if_false]
  have : (1 : Rat) * m * pow10 0 = m := by simp [pow10]
  rw [this]; exact hbody

theorem parseF64_numch_iff {t : Str} (hn : ∀ c ∈ t, isNumCh c = true) (x : Rat) :
    parseF64 (α := Rat) t = .val x ↔ DecNum t x := by
  rw [parseF64_val_iff]
  exact ⟨fun h => floatNum_numch h hn, decNum_floatNum⟩

end Cook.SM
