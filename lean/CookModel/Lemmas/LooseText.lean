import CookModel.Lemmas.AuditC17
/-
  C17, wave 5 (tag `bl17`): text runs that are read through `text_trimmed` / `is_text_empty`
  (component names, aliases, units, notes, text values, metadata keys, section names).

  `TextLoose cs t' t`: the two texts have the same `text_trimmed()` and the same `is_text_empty()` —
  everything the component parsers and the analysis read from such a text except its span.  The
  number of fragments is NOT compared (a comment splits a fragment), which is what makes the relation
  usable for filler (comments and blanks) inserted inside the run.

  `is_text_empty` is characterised by the characters the run shows (`bl17_buildText_isTextEmpty`),
  then the three filler laws of the audit wave are lifted from `trimmed` to `TextLoose`.
-/
set_option linter.unusedSectionVars false
set_option linter.unusedVariables false
set_option linter.unusedSimpArgs false
namespace Cook

/-- what a token contributes to the FRAGMENTS of a text run: as `vis`, but a newline token keeps
    its own characters (the soft-break fragment holds `"\n"` / `"\r\n"`) -/
def bl17Raw (t : Tok) : List Char :=
  match t.kind with
  | .newline => t.text
  | .lineComment | .blockComment => []
  | .escaped => t.text.tail
  | _ => t.text

/-- all characters held by the fragments of a text -/
def Text.bl17Chars (t : Text) : List Char := t.frags.flatMap (·.text)

theorem bl17_mem_dropWhile (ws : Char → Bool) (c : Char) (hcw : ws c = false) :
    ∀ s : List Char, c ∈ s → c ∈ s.dropWhile ws := by
  intro s
  induction s with
  | nil => intro h; exact h
  | cons a r ih =>
    intro h
    rw [List.dropWhile_cons]
    split
    · rename_i ha
      rcases List.mem_cons.1 h with rfl | h
      · rw [hcw] at ha; cases ha
      · exact ih h
    · exact h

theorem bl17_trim_isEmpty (ws : Char → Bool) (s : List Char) : (trim ws s).isEmpty = s.all ws := by
  by_cases h : s.all ws = true
  · rw [h]
    have := tsp_trim_append ws [] s h
    simp only [List.nil_append] at this
    rw [this]
    simp [trim, trimStart, trimEnd]
  · have hf : s.all ws = false := by simpa using h
    rw [hf]
    rw [List.all_eq_false] at hf
    obtain ⟨c, hc, hcw⟩ := hf
    have hcw' : ws c = false := by simpa using hcw
    have h1 : c ∈ trimStart ws s := bl17_mem_dropWhile ws c hcw' s hc
    have h2 : c ∈ trim ws s := by
      unfold trim trimEnd
      rw [List.mem_reverse]
      exact bl17_mem_dropWhile ws c hcw' _ (List.mem_reverse.2 h1)
    cases ht : trim ws s with
    | nil => rw [ht] at h2; cases h2
    | cons x r => rfl

theorem Text.bl17_isTextEmpty (cs : CharSpec) (t : Text) : t.isTextEmpty cs = t.bl17Chars.all cs.uws := by
  unfold Text.isTextEmpty Text.bl17Chars
  induction t.frags with
  | nil => rfl
  | cons f r ih =>
    simp only [List.all_cons, List.flatMap_cons, List.all_append, bl17_trim_isEmpty] at ih ⊢
    rw [ih]

theorem Text.bl17_chars_appendFrag (t : Text) (f : Frag) : (t.appendFrag f).bl17Chars = t.bl17Chars ++ f.text := by
  unfold Text.appendFrag Text.bl17Chars
  by_cases he : f.text.isEmpty
  · have : f.text = [] := by simpa using he
    simp [he, this]; split <;> rfl
  · simp [he]; split <;> simp

theorem Text.bl17_chars_appendStr (t : Text) (s : List Char) (off : Nat) :
    (t.appendStr s off).bl17Chars = t.bl17Chars ++ s := by
  unfold Text.appendStr; rw [Text.bl17_chars_appendFrag]

theorem bl17_textStep_chars (a : TextAcc) (tok : Tok) :
    (textStep a tok).t.bl17Chars ++ (textStep a tok).cur = a.t.bl17Chars ++ a.cur ++ bl17Raw tok := by
  unfold textStep bl17Raw
  cases hk : tok.kind <;> simp only [Text.bl17_chars_appendFrag, Text.bl17_chars_appendStr] <;> simp

theorem bl17_foldl_textStep_chars (ts : List Tok) (a : TextAcc) :
    (ts.foldl textStep a).t.bl17Chars ++ (ts.foldl textStep a).cur = a.t.bl17Chars ++ a.cur ++ ts.flatMap bl17Raw := by
  induction ts generalizing a with
  | nil => simp
  | cons t ts ih =>
    rw [List.foldl_cons, ih, bl17_textStep_chars]
    simp

/-- the characters held by an assembled text are the raw characters of its tokens -/
theorem bl17_buildText_chars (off : Nat) (ts : List Tok) : (buildText off ts).bl17Chars = ts.flatMap bl17Raw := by
  unfold buildText
  cases ts with
  | nil => simp [Text.empty, Text.bl17Chars]
  | cons t0 rest =>
    simp only
    have h := bl17_foldl_textStep_chars (t0 :: rest) ⟨Text.empty off, t0.start, []⟩
    have hbad : ∀ (t : Text) (b : Bool), ({ t with bad := b } : Text).bl17Chars = t.bl17Chars := by
      intro t b; rfl
    split
    · rw [Text.bl17_chars_appendStr, h]; simp [Text.empty, Text.bl17Chars]
    · rw [hbad, Text.bl17_chars_appendStr, h]; simp [Text.empty, Text.bl17Chars]

/-- **`is_text_empty` of an assembled run**: every character the tokens contribute (comments
    nothing, an escape its tail, everything else its text) is Unicode white space -/
theorem bl17_buildText_isTextEmpty (cs : CharSpec) (off : Nat) (ts : List Tok) :
    (buildText off ts).isTextEmpty cs = (ts.flatMap bl17Raw).all cs.uws := by
  rw [Text.bl17_isTextEmpty, bl17_buildText_chars]

/-- texts that read the same through `text_trimmed()` and `is_text_empty()` -/
structure TextLoose (cs : CharSpec) (t' t : Text) : Prop where
  trimmed : t'.trimmed cs = t.trimmed cs
  empty : t'.isTextEmpty cs = t.isTextEmpty cs

theorem TextLoose.refl (cs : CharSpec) (t : Text) : TextLoose cs t t := ⟨rfl, rfl⟩
theorem TextLoose.symm {cs : CharSpec} {a b : Text} (h : TextLoose cs a b) : TextLoose cs b a := ⟨h.1.symm, h.2.symm⟩
theorem TextLoose.trans {cs : CharSpec} {a b c : Text} (h1 : TextLoose cs a b) (h2 : TextLoose cs b c) :
    TextLoose cs a c := ⟨h1.1.trans h2.1, h1.2.trans h2.2⟩

theorem TextSim.loose {cs : CharSpec} {t' t : Text} (h : TextSim cs.uws t' t) : TextLoose cs t' t :=
  ⟨h.trimmed, h.isTextEmpty⟩

theorem bl17_filler_raw {cs : CharSpec} (hsp : cs.uws ' ' = true) {F : List Tok} (hF : ∀ t ∈ F, A17Filler t) :
    (F.flatMap bl17Raw).all cs.uws = true := by
  rw [List.all_eq_true]
  intro c hc
  simp only [List.mem_flatMap] at hc
  obtain ⟨t, ht, hct⟩ := hc
  rcases hF t ht with (h | h) | ⟨h, hb⟩
  · simp [bl17Raw, h] at hct
  · simp [bl17Raw, h] at hct
  · simp only [bl17Raw, h] at hct
    rw [hb c hct]; exact hsp

/-- filler anywhere in a run does not change `is_text_empty` -/
theorem bl17_isTextEmpty_filler (cs : CharSpec) (hsp : cs.uws ' ' = true) (off off' : Nat) (xs F ys : List Tok)
    (hF : ∀ t ∈ F, A17Filler t) :
    (buildText off' (xs ++ F ++ ys)).isTextEmpty cs = (buildText off (xs ++ ys)).isTextEmpty cs := by
  rw [bl17_buildText_isTextEmpty, bl17_buildText_isTextEmpty]
  simp only [List.flatMap_append, List.all_append, bl17_filler_raw hsp hF, Bool.and_true]

/-- **Filler behind a blank inside a run**: the same `text_trimmed` and `is_text_empty` -/
theorem bl17_loose_after_blank (cs : CharSpec) (hsp : cs.uws ' ' = true) (off off' : Nat)
    (xs F ys : List Tok) (w : Tok) (hw : w.kind = .ws) (hwt : w.text ≠ []) (hwb : ∀ c ∈ w.text, c = ' ')
    (hF : ∀ t ∈ F, A17Filler t) :
    TextLoose cs (buildText off' (xs ++ [w] ++ F ++ ys)) (buildText off (xs ++ [w] ++ ys)) :=
  ⟨a17_buildText_filler_after_blank cs hsp off off' xs F ys w hw hwt hwb hF,
   bl17_isTextEmpty_filler cs hsp off off' (xs ++ [w]) F ys hF⟩

/-- **Filler in front of a line break inside a run** -/
theorem bl17_loose_before_newline (cs : CharSpec) (hsp : cs.uws ' ' = true) (off off' : Nat)
    (xs F ys : List Tok) (nl : Tok) (hn : nl.kind = .newline) (hne : nl.text ≠ [])
    (hF : ∀ t ∈ F, A17Filler t) :
    TextLoose cs (buildText off' (xs ++ F ++ [nl] ++ ys)) (buildText off (xs ++ [nl] ++ ys)) := by
  refine ⟨a17_buildText_filler_before_newline cs hsp off off' xs F ys nl hn hne hF, ?_⟩
  have := bl17_isTextEmpty_filler cs hsp off off' xs F ([nl] ++ ys) hF
  simpa [List.append_assoc] using this

/-- **Filler at the end of a run** -/
theorem bl17_loose_at_end (cs : CharSpec) (hsp : cs.uws ' ' = true) (off off' : Nat)
    (xs F : List Tok) (hF : ∀ t ∈ F, A17Filler t) :
    TextLoose cs (buildText off' (xs ++ F)) (buildText off xs) := by
  refine ⟨a17_buildText_filler_at_end cs hsp off off' xs F hF, ?_⟩
  have := bl17_isTextEmpty_filler cs hsp off off' xs F [] hF
  simpa using this

/-- the same run at other offsets (every token keeps kind and text) -/
theorem bl17_loose_sameKT (cs : CharSpec) (off off' : Nat) {xs' xs : List Tok}
    (h : xs'.map (fun t => (t.kind, t.text)) = xs.map (fun t => (t.kind, t.text))) :
    TextLoose cs (buildText off' xs') (buildText off xs) := by
  have hv : xs'.flatMap vis = xs.flatMap vis := by
    have : ∀ l : List Tok, l.flatMap vis = (l.map (fun t => (t.kind, t.text))).flatMap
        (fun p => vis ⟨p.1, p.2, 0⟩) := by
      intro l; induction l with
      | nil => rfl
      | cons t r ih => simp only [List.flatMap_cons, List.map_cons, ih]; rfl
    rw [this xs', this xs, h]
  have hr : xs'.flatMap bl17Raw = xs.flatMap bl17Raw := by
    have : ∀ l : List Tok, l.flatMap bl17Raw = (l.map (fun t => (t.kind, t.text))).flatMap
        (fun p => bl17Raw ⟨p.1, p.2, 0⟩) := by
      intro l; induction l with
      | nil => rfl
      | cons t r ih => simp only [List.flatMap_cons, List.map_cons, ih]; rfl
    rw [this xs', this xs, h]
  refine ⟨?_, ?_⟩
  · rw [tsp_trimmed_eq, tsp_trimmed_eq, buildText_text, buildText_text, hv]
  · rw [bl17_buildText_isTextEmpty, bl17_buildText_isTextEmpty, hr]

end Cook
