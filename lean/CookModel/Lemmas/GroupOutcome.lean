import CookModel.Num.IngListMore
/-
  The folded scaling outcome of a definition and its references (`foldOutcome`, Num/IngListMore.lean).
  Prefix `go_`.
-/
namespace Cook

/-- is one of the outcomes at the indices `js` equal to `o`? -/
def go_anyIs (outs : List ScaleOutcome) (o : ScaleOutcome) (js : List Nat) : Bool :=
  js.any (fun j => decide (outs[j]? = some o))

theorem go_loop (outs : List ScaleOutcome) :
    ∀ (js : List Nat) (held : ScaleOutcome), (∀ j ∈ js, j < outs.length) →
      foldOutcomeLoop outs held js =
        some (if go_anyIs outs .error js then .error else if go_anyIs outs .fixed js then .fixed else held)
  | [], held, _ => by simp [foldOutcomeLoop, go_anyIs]
  | j :: rest, held, h => by
    have hj : j < outs.length := h j (List.mem_cons_self ..)
    have hrest : ∀ k ∈ rest, k < outs.length := fun k hk => h k (List.mem_cons_of_mem _ hk)
    obtain ⟨o, ho⟩ : ∃ o, outs[j]? = some o := ⟨outs[j], List.getElem?_eq_getElem hj⟩
    unfold foldOutcomeLoop
    rw [ho]
    cases o with
    | error => simp [go_anyIs, ho]
    | fixed =>
      simp only [go_loop outs rest .fixed hrest]
      simp only [go_anyIs, List.any_cons, ho]
      simp
    | scaled =>
      simp only [go_loop outs rest held hrest]
      simp [go_anyIs, List.any_cons, ho]
    | noQuantity =>
      simp only [go_loop outs rest held hrest]
      simp [go_anyIs, List.any_cons, ho]

/-- with all indices inside the outcome vector: no panic, and the folded outcome is `Error` if the definition or
    one of its references has `Error`, else `Fixed` if one of them is `Fixed`, else the definition's own -/
theorem go_foldOutcome (outs : List ScaleOutcome) (index : Nat) (refs : List Nat) (own : ScaleOutcome)
    (hown : outs[index]? = some own) (hr : ∀ j ∈ refs, j < outs.length) :
    foldOutcome outs index refs =
      some (if go_anyIs outs .error (index :: refs) then .error
            else if go_anyIs outs .fixed (index :: refs) then .fixed else own) := by
  have hi : index < outs.length := (List.getElem?_eq_some_iff.mp hown).1
  unfold foldOutcome
  rw [hown]
  exact go_loop outs (index :: refs) own (by
    intro j hj
    rcases List.mem_cons.mp hj with h | h
    · exact h ▸ hi
    · exact hr j h)

end Cook
