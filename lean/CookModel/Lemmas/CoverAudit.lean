import CookModel.Lemmas.CoverInput
/-
  C05, audit wave: an INDEPENDENT comment scanner.  `InComment` (Lemmas/CoverInput.lean) says "inside
  a comment TOKEN of the lexer model"; a lexer that made comments too long would make the
  conservation theorem weaker without anybody noticing.  `cscan` is a character-level state machine
  that knows nothing about tokens (escape, `--` to the end of the line, `[-` to the first `-]` or the
  end of the text); `cscan_agrees`: it marks exactly the characters of the comment tokens.
-/
set_option linter.unusedSectionVars false
set_option linter.unusedSimpArgs false
set_option linter.unusedVariables false
namespace Cook

/-- states of the comment scanner -/
inductive CState where
  | normal      -- outside comments
  | esc         -- after a backslash: the next character is taken literally
  | line1       -- on the second `-` of `--`
  | line        -- inside a line comment
  | block1      -- on the `-` of `[-`
  | block       -- inside a block comment
  | blockEnd    -- on the `]` of the closing `-]`
deriving Repr, DecidableEq

/-- the comment scanner: one flag per character, `true` = the character belongs to a comment.
    A backslash protects the next character; `--` starts a comment that runs up to (not including)
    the next line feed; `[-` starts a comment that runs up to and including the first `-]` after
    it, or to the end of the text. -/
def cscan : CState → List Char → List Bool
  | _, [] => []
  | .normal, c :: r =>
    if c = '\\' then false :: cscan .esc r
    else if c = '-' ∧ r.head? = some '-' then true :: cscan .line1 r
    else if c = '[' ∧ r.head? = some '-' then true :: cscan .block1 r
    else false :: cscan .normal r
  | .esc, _ :: r => false :: cscan .normal r
  | .line1, _ :: r => true :: cscan .line r
  | .line, c :: r => if c = '\n' then false :: cscan .normal r else true :: cscan .line r
  | .block1, _ :: r => true :: cscan .block r
  | .block, c :: r =>
    if c = '-' ∧ r.head? = some ']' then true :: cscan .blockEnd r else true :: cscan .block r
  | .blockEnd, _ :: r => true :: cscan .normal r

theorem cscan_length (st : CState) (s : List Char) : (cscan st s).length = s.length := by
  induction s generalizing st with
  | nil => cases st <;> rfl
  | cons c r ih =>
    cases st <;> simp only [cscan] <;> repeat' split
    all_goals simp [ih]

/-- the comment flags of a token stream: every character of a comment token is flagged -/
def isCommentKind (k : TK) : Bool := k == .lineComment || k == .blockComment

def tokMask (ts : List Tok) : List Bool := ts.flatMap (fun t => List.replicate t.text.length (isCommentKind t.kind))

/-- a character that starts neither an escape nor a comment -/
def PlainCh (c : Char) : Prop := c ≠ '\\' ∧ c ≠ '-' ∧ c ≠ '['

/-- what the scanner needs of the character tables: the lexer's white-space class (Zs, TAB) and
    its word characters contain none of backslash, `-`, `[` (`is_word_char` lists `-` and excludes
    punctuation, which backslash and `[` are).  True of the Unicode tables of the implementation. -/
structure CommentSpec (cs : CharSpec) : Prop where
  ws : ∀ c, cs.ws c = true → PlainCh c
  word : ∀ c, cs.wordChar c = true → PlainCh c

theorem cscan_normal_cons {c : Char} {r : List Char} (h1 : c ≠ '\\') (h2 : ¬ (c = '-' ∧ r.head? = some '-'))
    (h3 : ¬ (c = '[' ∧ r.head? = some '-')) : cscan .normal (c :: r) = false :: cscan .normal r := by
  simp only [cscan, h1, h2, h3, if_false]

theorem cscan_normal_plain {c : Char} (r : List Char) (h : PlainCh c) :
    cscan .normal (c :: r) = false :: cscan .normal r :=
  cscan_normal_cons h.1 (fun k => h.2.1 k.1) (fun k => h.2.2 k.1)

/-- a run of plain characters taken by `takeWhile` -/
theorem cscan_normal_takeWhile (p : Char → Bool) (hp : ∀ c, p c = true → PlainCh c) (r : List Char) :
    cscan .normal r = List.replicate (r.takeWhile p).length false ++
      cscan .normal (r.drop (r.takeWhile p).length) := by
  induction r with
  | nil => simp [cscan]
  | cons d r ih =>
    by_cases hd : p d = true
    · rw [List.takeWhile_cons_of_pos hd, cscan_normal_plain r (hp d hd)]
      simp only [List.length_cons, List.replicate_succ, List.drop_succ_cons, List.cons_append]
      rw [← ih]
    · rw [List.takeWhile_cons_of_neg hd]
      simp

theorem cscan_line (r : List Char) :
    cscan .line r = List.replicate (r.takeWhile (· ≠ '\n')).length true ++
      cscan .normal (r.drop (r.takeWhile (· ≠ '\n')).length) := by
  induction r with
  | nil => simp [cscan]
  | cons d r ih =>
    by_cases hd : d = '\n'
    · subst hd
      have : cscan .normal ('\n' :: r) = false :: cscan .normal r :=
        cscan_normal_plain r ⟨by decide, by decide, by decide⟩
      simp [cscan, this]
    · have e : (d :: r).takeWhile (· ≠ '\n') = d :: r.takeWhile (· ≠ '\n') := by
        simp [List.takeWhile_cons, hd]
      rw [e]
      simp only [cscan, hd, if_false, List.length_cons, List.replicate_succ, List.drop_succ_cons,
        List.cons_append]
      rw [← ih]

theorem cscan_block (r : List Char) :
    cscan .block r = List.replicate (blockScan r) true ++ cscan .normal (r.drop (blockScan r)) := by
  fun_induction blockScan r with
  | case1 => simp [cscan]
  | case2 t => simp [cscan]
  | case3 c t hne ih =>
    have hc : ¬ (c = '-' ∧ t.head? = some ']') := by
      rintro ⟨rfl, h2⟩
      cases t with
      | nil => simp at h2
      | cons x t' =>
        simp only [List.head?_cons, Option.some.injEq] at h2
        subst h2
        exact hne t' rfl rfl
    simp only [cscan, hc, if_false]
    rw [ih, Nat.add_comm 1, List.replicate_succ, List.drop_succ_cons, List.cons_append]

theorem plain_of_digit {c : Char} (h : isAsciiDigit c = true) : PlainCh c := by
  unfold isAsciiDigit at h
  simp only [Bool.and_eq_true, decide_eq_true_eq] at h
  refine ⟨?_, ?_, ?_⟩ <;> rintro rfl <;> revert h <;> decide

/-- one token: the scanner flags the characters of the token `lexOne` cuts off as the token's kind
    says, and is back in the normal state after it -/
theorem cscan_lexOne (cs : CharSpec) (hs : CommentSpec cs) (c : Char) (rest : List Char) :
    cscan .normal (c :: rest) =
      List.replicate (1 + (lexOne cs c rest).2) (isCommentKind (lexOne cs c rest).1) ++
        cscan .normal (rest.drop (lexOne cs c rest).2) := by
  unfold lexOne
  by_cases h1 : c = '\\'
  · subst h1
    cases rest with
    | nil => simp [cscan, isCommentKind]
    | cons d r => simp [cscan, isCommentKind]
  simp only [h1, if_false]
  by_cases h2 : c = '>'
  · subst h2
    simp only [if_true]
    have hp : PlainCh '>' := ⟨by decide, by decide, by decide⟩
    split
    · rename_i hh
      cases rest with
      | nil => simp at hh
      | cons d r =>
        simp only [List.head?_cons, Option.some.injEq] at hh
        subst hh
        rw [cscan_normal_plain _ hp, cscan_normal_plain _ hp]
        simp [isCommentKind]
    · rw [cscan_normal_plain _ hp]
      simp [isCommentKind]
  simp only [h2, if_false]
  by_cases h3 : c = '-'
  · subst h3
    simp only [if_true]
    split
    · rename_i hh
      cases rest with
      | nil => simp at hh
      | cons d r =>
        simp only [List.head?_cons, Option.some.injEq] at hh
        subst hh
        have e : ('-' :: r).takeWhile (· ≠ '\n') = '-' :: r.takeWhile (· ≠ '\n') := by
          simp [List.takeWhile_cons]
        rw [e]
        have hne : ¬ ('-' = '\\') := by decide
        simp only [cscan, hne, if_false, List.head?_cons, and_self, if_true, List.length_cons]
        rw [cscan_line r]
        rw [show 1 + ((r.takeWhile (· ≠ '\n')).length + 1) = (r.takeWhile (· ≠ '\n')).length + 1 + 1 by omega]
        simp [isCommentKind, List.replicate_succ]
    · rename_i hh
      rw [cscan_normal_cons (by decide) (fun k => hh k.2) (fun k => absurd k.1 (by decide))]
      simp [isCommentKind]
  simp only [h3, if_false]
  by_cases h4 : c = '[' ∧ rest.head? = some '-'
  · obtain ⟨rfl, hh⟩ := h4
    cases rest with
    | nil => simp at hh
    | cons d r =>
      simp only [List.head?_cons, Option.some.injEq] at hh
      subst hh
      simp only [List.head?_cons, and_self, if_true, List.tail_cons]
      have hne : ¬ ('[' = '\\') := by decide
      have hne2 : ¬ ('[' = '-') := by decide
      simp only [cscan, hne, hne2, false_and, if_false, List.head?_cons, and_self, if_true]
      rw [cscan_block r]
      rw [show List.drop (1 + blockScan r) ('-' :: r) = List.drop (blockScan r) r by
        rw [Nat.add_comm 1, List.drop_succ_cons]]
      rw [show 1 + (1 + blockScan r) = blockScan r + 1 + 1 by omega]
      simp [isCommentKind, List.replicate_succ]
  simp only [h4, if_false]
  have hbase : cscan .normal (c :: rest) = false :: cscan .normal rest :=
    cscan_normal_cons h1 (fun k => h3 k.1) h4
  by_cases h5 : c = '\n'
  · subst h5
    rw [hbase]
    simp [isCommentKind]
  simp only [h5, if_false]
  by_cases h6 : c = '\r' ∧ rest.head? = some '\n'
  · obtain ⟨rfl, hh⟩ := h6
    cases rest with
    | nil => simp at hh
    | cons d r =>
      simp only [List.head?_cons, Option.some.injEq] at hh
      subst hh
      simp only [List.head?_cons, and_self, if_true]
      rw [hbase, cscan_normal_plain r ⟨by decide, by decide, by decide⟩]
      simp [isCommentKind]
  simp only [h6, if_false]
  by_cases h7 : isAsciiDigit c = true
  · simp only [h7, if_true]
    rw [hbase, cscan_normal_takeWhile isAsciiDigit (fun d hd => plain_of_digit hd) rest]
    have : ∀ k : TK, (k = .zeroInt ∨ k = .int) → isCommentKind k = false := by
      rintro k (rfl | rfl) <;> rfl
    have hk : isCommentKind (if c = '0' ∧ (rest.takeWhile isAsciiDigit).length > 0 then TK.zeroInt else TK.int) = false := by
      split <;> rfl
    simp only [hk, Nat.add_comm 1, List.replicate_succ, List.cons_append]
  have h7' : isAsciiDigit c = false := by simpa using h7
  simp only [h7', Bool.false_eq_true, if_false]
  cases hk : singleKind c with
  | some k =>
    simp only
    have hck : isCommentKind k = false := by
      unfold singleKind at hk
      cases hf : singleTable.find? (fun p => p.1 == c) with
      | none => rw [hf] at hk; simp at hk
      | some q =>
        rw [hf] at hk
        simp only [Option.map_some, Option.some.injEq] at hk
        have hm := List.mem_of_find?_eq_some hf
        have tbl : ∀ q ∈ singleTable, isCommentKind q.2 = false := by decide
        rw [← hk]; exact tbl q hm
    rw [hbase]
    simp [hck]
  | none =>
    simp only
    split
    · rw [hbase, cscan_normal_takeWhile cs.ws hs.ws rest]
      simp [isCommentKind, Nat.add_comm 1, List.replicate_succ]
    · split
      · rw [hbase]; simp [isCommentKind]
      · rw [hbase, cscan_normal_takeWhile cs.wordChar hs.word rest]
        simp [isCommentKind, Nat.add_comm 1, List.replicate_succ]

/-- **the independent scanner agrees with the lexer**: for every text and offset, the characters the
    scanner flags are exactly the characters of the `LineComment` / `BlockComment` tokens -/
theorem cscan_agrees (cs : CharSpec) (hs : CommentSpec cs) (off : Nat) (s : List Char) :
    tokMask (lexFrom cs off s) = cscan .normal s := by
  fun_induction lexFrom cs off s with
  | case1 => rfl
  | case2 off c rest r text ih =>
    have hle := lexOne_le cs c rest
    have hlen : text.length = 1 + r.2 := by
      simp only [text, List.length_cons, List.length_take, r]
      omega
    unfold tokMask at ih ⊢
    simp only [List.flatMap_cons, ih, hlen]
    exact (cscan_lexOne cs hs c rest).symm

/-! ### conservation, restated with the independent scanner -/

variable {α : Type} [Arith α]

/-- the comment flags of a whole input, one per CHARACTER: nothing before the cooklang body (blank
    lines, fences, YAML text) is a cooklang comment; the body is scanned by `cscan` -/
def commentMask (cs : CharSpec) (input : List Char) : List Bool :=
  match parseFrontmatter cs input with
  | some fm => List.replicate (input.length - fm.cookText.length) false ++ cscan .normal fm.cookText
  | none => cscan .normal input

/-- the token that holds a given character, with its comment flag at the character's index -/
theorem cau_tok_at_char {off : Nat} {ts : List Tok} (hc : Chain off ts) {a z : List Char} {c : Char}
    (h : ts.flatMap (·.text) = a ++ c :: z) :
    ∃ t ∈ ts, ∃ a' z', t.text = a' ++ c :: z' ∧ t.start + utf8Len a' = off + utf8Len a ∧
      (tokMask ts)[a.length]? = some (isCommentKind t.kind) := by
  induction ts generalizing off a with
  | nil => simp at h
  | cons t ts ih =>
    simp only [List.flatMap_cons] at h
    obtain ⟨h1, h2⟩ := hc
    have hm : tokMask (t :: ts) = List.replicate t.text.length (isCommentKind t.kind) ++ tokMask ts := by
      simp [tokMask]
    rcases List.append_eq_append_iff.mp h with ⟨a', e1, e2⟩ | ⟨c', e1, e2⟩
    · -- a = t.text ++ a'
      obtain ⟨u, hu, x, y, k1, k2, k3⟩ := ih h2 e2
      refine ⟨u, by simp [hu], x, y, k1, ?_, ?_⟩
      · rw [k2, e1, utf8Len_append]
        simp only [Tok.stop]; omega
      · rw [hm, e1, List.length_append, List.getElem?_append_right (by simp)]
        simpa using k3
    · cases c' with
      | nil =>
        simp only [List.nil_append] at e2
        simp only [List.append_nil] at e1
        obtain ⟨u, hu, x, y, k1, k2, k3⟩ := ih (a := []) h2 (by simpa using e2.symm)
        refine ⟨u, by simp [hu], x, y, k1, ?_, ?_⟩
        · rw [k2, ← e1]
          simp only [Tok.stop, utf8Len]; simp; omega
        · rw [hm, ← e1, List.getElem?_append_right (by simp)]
          simpa using k3
      | cons d r =>
        simp only [List.cons_append, List.cons.injEq] at e2
        obtain ⟨rfl, -⟩ := e2
        refine ⟨t, by simp, a, r, e1, by omega, ?_⟩
        rw [hm, List.getElem?_append_left (by rw [e1]; simp)]
        rw [List.getElem?_replicate]
        simp [e1]

/-- a letter or digit inside a token of the body: the token is a comment, or an event covers it -/
theorem cau_body_char (cs : CharSpec) (hs : AlnumSpec cs) (ext : Ext) (input : List Char)
    {t : Tok} (ht : t ∈ bodyToks cs input) {a' z' : List Char} {c : Char} (htx : t.text = a' ++ c :: z')
    (ha : cs.alnum c = true) :
    isCommentKind t.kind = true ∨
    BytesCovered (pullEvents (α := α) cs ext input).1 (t.start + utf8Len a') (t.start + utf8Len a' + c.utf8Size) := by
  have hstop : t.start + utf8Len a' + c.utf8Size ≤ t.stop := by
    simp only [Tok.stop, htx, utf8Len_append, utf8Len_cons]; omega
  by_cases hk : t.kind = .lineComment ∨ t.kind = .blockComment
  · left
    rcases hk with hk | hk <;> simp [isCommentKind, hk]
  · right
    have hlc : t.kind ≠ .lineComment := fun h => hk (Or.inl h)
    have hbc : t.kind ≠ .blockComment := fun h => hk (Or.inr h)
    have hmem : c ∈ t.text := by rw [htx]; simp
    obtain ⟨ev, hev, sp, k1, k2, k3⟩ :=
      pullEvents_alnum_covered (α := α) cs hs ext input t ht hlc hbc c hmem ha
    refine ⟨ev, hev, sp, Ev.covSpan_of_srcSpan k1, ?_, by omega⟩
    unfold tokBodyStart at k2
    split at k2
    · rename_i hesc
      have hwsp : WellSpelled cs (bodyToks cs input) := by
        unfold bodyToks
        split
        · exact lexFrom_wellSpelled cs _ _
        · exact lexFrom_wellSpelled cs _ _
      obtain ⟨nx, hsp⟩ := wellSpelled_mem hwsp ht
      have hne : a' ≠ [] := by
        intro h0
        rw [hesc, htx, h0] at hsp
        simp only [List.nil_append, spellOK, Bool.and_eq_true, beq_iff_eq] at hsp
        exact (hs.notSyntax c ha).2.2.1 hsp.1
      have := utf8Len_pos hne
      omega
    · omega

/-- **C05, whole input, with the independent comment scanner.**  Every letter or digit of the
    input — the character `c` with `input = a ++ c :: z`, i.e. character number `a.length`, bytes
    `utf8Len a ..` — is flagged as comment by the character-level scanner (`commentMask`, which does
    not know the lexer) or lies inside the source span of an event of the pull parser. -/
theorem cau_input_conservation (cs : CharSpec) (hs : AlnumSpec cs) (hcs : CommentSpec cs) (ext : Ext)
    (input a z : List Char) (c : Char) (hin : input = a ++ c :: z) (ha : cs.alnum c = true) :
    (commentMask cs input)[a.length]? = some true ∨
    BytesCovered (pullEvents (α := α) cs ext input).1 (utf8Len a) (utf8Len a + c.utf8Size) := by
  have hnu : ¬ (cs.uws c = true ∨ c = '-') := by
    rintro (h | h)
    · rw [(hs.notWs c ha).1] at h; cases h
    · exact (hs.notSyntax c ha).2.2.2.2.2 h
  cases hp : parseFrontmatter cs input with
  | none =>
    have hb : bodyToks cs input = lexFrom cs 0 input := by unfold bodyToks lex; rw [hp]
    have htile : (lexFrom cs 0 input).flatMap (·.text) = a ++ c :: z := by
      rw [← hin]; exact lexFrom_tile cs 0 input
    obtain ⟨t, ht, a', z', k1, k2, k3⟩ := cau_tok_at_char (lexFrom_chain cs 0 input) htile
    have e : t.start + utf8Len a' = utf8Len a := by omega
    rcases cau_body_char (α := α) cs hs ext input (t := t) (by rw [hb]; exact ht) k1 ha with hc | hc
    · left
      unfold commentMask
      rw [hp]
      simp only
      rw [← cscan_agrees cs hcs 0 input, k3, hc]
    · right
      rw [e] at hc; exact hc
  | some fm =>
    have hb : bodyToks cs input = lexFrom cs fm.cookOffset fm.cookText := by unfold bodyToks; rw [hp]
    obtain ⟨pre, mid, e, o1, o2, hpre, hmid⟩ := cov_frontmatter_layout cs input fm hp
    have hsplit : a ++ c :: z = pre ++ (fm.yamlText ++ (mid ++ fm.cookText)) := by rw [← hin, e]; simp
    rcases cov_char_in_append hsplit with ⟨z', e1⟩ | ⟨a2, e1, e2⟩
    · exact absurd (hpre c (by rw [e1]; simp)) hnu
    rcases cov_char_in_append e2.symm with ⟨z', e3⟩ | ⟨a3, e3, e4⟩
    · -- inside the YAML text: the front-matter event
      right
      obtain ⟨L, hL, -⟩ := mfront_pullEvents (α := α) cs ext input fm hp
      have hmem : Ev.frontMatter (Text.fromStr fm.yamlText fm.yamlOffset) ∈
          (pullEvents (α := α) cs ext input).1.toList := by
        have : Ev.frontMatter (Text.fromStr fm.yamlText fm.yamlOffset) ∈
            metaOf (pullEvents (α := α) cs ext input).1 := by rw [hL]; simp
        unfold metaOf at this
        exact (List.mem_filter.mp this).1
      have hne : fm.yamlText ≠ [] := by rw [e3]; simp
      refine ⟨_, hmem, _, rfl, ?_, ?_⟩
      · rw [cov_fromStr_span _ _ hne, o1, e1, utf8Len_append]
        show utf8Len pre ≤ utf8Len pre + utf8Len a2
        omega
      · rw [cov_fromStr_span _ _ hne, o1, e1, utf8Len_append]
        show utf8Len pre + utf8Len a2 + c.utf8Size ≤ utf8Len pre + utf8Len fm.yamlText
        rw [e3, utf8Len_append, utf8Len_cons]
        omega
    rcases cov_char_in_append e4.symm with ⟨z', e5⟩ | ⟨a4, e5, e6⟩
    · exact absurd (hmid c (by rw [e5]; simp)) hnu
    · -- inside the body
      have htile : (lexFrom cs fm.cookOffset fm.cookText).flatMap (·.text) = a4 ++ c :: z := by
        rw [lexFrom_tile, e6]
      obtain ⟨t, ht, a', z', k1, k2, k3⟩ := cau_tok_at_char (lexFrom_chain cs fm.cookOffset fm.cookText) htile
      have e' : t.start + utf8Len a' = utf8Len a := by
        rw [k2, o2, e1, e3, e5]
        simp only [utf8Len_append]
        omega
      rcases cau_body_char (α := α) cs hs ext input (t := t) (by rw [hb]; exact ht) k1 ha with hc | hc
      · left
        unfold commentMask
        rw [hp]
        simp only
        have hlen : input.length - fm.cookText.length = (pre ++ fm.yamlText ++ mid).length := by
          rw [e]; simp only [List.length_append]; omega
        have hal : a.length = (pre ++ fm.yamlText ++ mid).length + a4.length := by
          rw [e1, e3, e5]; simp only [List.length_append]; omega
        rw [hlen, hal, List.getElem?_append_right (by simp)]
        simp only [List.length_replicate, Nat.add_sub_cancel_left]
        rw [← cscan_agrees cs hcs fm.cookOffset fm.cookText, k3, hc]
      · right
        rw [e'] at hc; exact hc

/-! ### which events cover; the statement with its premise -/

/-- the seven kinds of events the property lists: text, ingredient, cookware, timer, metadata entry,
    section (with a name) and front matter -/
def Ev.isContentKind : Ev α → Bool
  | .text _ | .ingredient _ | .cookware _ | .timer _ | .metadata _ _ | .«section» (some _)
  | .frontMatter _ => true
  | _ => false

/-- only events of the seven kinds have a covering span: diagnostics (`Error`, `Warning`), block
    markers (`Start`, `End`) and nameless sections never cover anything -/
theorem cau_covSpan_kind {ev : Ev α} {sp : Span} (h : ev.covSpan = some sp) : ev.isContentKind = true := by
  cases ev with
  | «section» n => cases n <;> simp [Ev.covSpan, Ev.srcSpan, Ev.isContentKind] at h ⊢
  | _ => first | rfl | (simp [Ev.covSpan, Ev.srcSpan] at h)

/-- no event of the stream is an `Error` -/
def ErrorFree (evs : Array (Ev α)) : Prop := ∀ ev ∈ evs.toList, ∀ d, ev ≠ .error d

/-- the bytes `[p, q)` lie inside the span of an event of one of the seven kinds (spelled out) -/
def CoveredByContent (evs : Array (Ev α)) (p q : Nat) : Prop :=
  ∃ ev ∈ evs.toList, ev.isContentKind = true ∧ ∃ sp, ev.covSpan = some sp ∧ sp.start ≤ p ∧ q ≤ sp.stop

theorem cau_covered_content {evs : Array (Ev α)} {p q : Nat} (h : BytesCovered evs p q) :
    CoveredByContent evs p q := by
  obtain ⟨ev, hev, sp, h1, h2, h3⟩ := h
  exact ⟨ev, hev, cau_covSpan_kind h1, sp, h1, h2, h3⟩

/-- the toy character table of the examples satisfies `CommentSpec` -/
theorem toyCharSpec_commentSpec : CommentSpec toyCharSpec := by
  have key : ∀ c : Char, c.isAlphanum = true → ∀ d : Char, d.isAlphanum = false → c ≠ d := by
    intro c h d hd e; subst e; rw [h] at hd; cases hd
  constructor
  · intro c h
    have h' : c = ' ' ∨ c = '\t' := by simpa [toyCharSpec] using h
    rcases h' with rfl | rfl <;> exact ⟨by decide, by decide, by decide⟩
  · intro c h
    have h' : c.isAlphanum = true := h
    exact ⟨key c h' '\\' (by decide), key c h' '-' (by decide), key c h' '[' (by decide)⟩

end Cook
