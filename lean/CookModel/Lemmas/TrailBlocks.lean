import CookModel.Lemmas.TrailLex
/-
  C17, splitter level of the insertion transformations: whitespace / comment tokens `F` inserted
  inside a line, behind a non-empty part `A` of that line (at its end for a trailing comment or
  trailing blanks, between two tokens for a block comment).  `next_block` cuts the same blocks; the
  block that contains the line has `F` inserted at the same place, all other blocks are unchanged.
-/
set_option linter.unusedSectionVars false
set_option linter.unusedVariables false
set_option linter.unusedSimpArgs false
namespace Cook

/-- whitespace and comment tokens only -/
def IsFiller (F : List Tok) : Prop := ∀ t ∈ F, isWsComment t.kind = true

theorem IsFiller.not_newline {F : List Tok} (h : IsFiller F) : ∀ t ∈ F, (t.kind != .newline) = true := by
  intro t ht
  have := h t ht
  unfold isWsComment at this
  cases hk : t.kind <;> rw [hk] at this <;> simp at this ⊢

theorem IsFiller.emptyTok {F : List Tok} (h : IsFiller F) : F.all (fun t => isEmptyTok t.kind) = true := by
  rw [List.all_eq_true]
  intro t ht
  have := h t ht
  unfold isWsComment at this
  unfold isEmptyTok
  cases hk : t.kind <;> rw [hk] at this <;> simp at this ⊢

theorem trail_getLast?_append {β : Type} (a b : List β) (h : b ≠ []) : (a ++ b).getLast? = b.getLast? := by
  rw [List.getLast?_append]
  cases hb : b.getLast? with
  | none => exact absurd (List.getLast?_eq_none_iff.1 hb) h
  | some x => rfl

/-- trailing newlines are trimmed behind a part that does not end in a newline token -/
theorem trail_trim_append (P X : List Tok) (hP : P ≠ []) (h : ∀ t, P.getLast? = some t → t.kind ≠ .newline) :
    trimTrailingNewlines (P ++ X) = P ++ trimTrailingNewlines X := by
  unfold trimTrailingNewlines
  rw [List.reverse_append, List.dropWhile_append]
  have hPr : P.reverse.dropWhile (fun t => t.kind == .newline) = P.reverse := by
    cases hr : P.reverse with
    | nil => rfl
    | cons t r =>
      have hl : P.getLast? = some t := by
        rw [List.getLast?_eq_head?_reverse, hr]; rfl
      have := h t hl
      simp [List.dropWhile_cons, this]
  split
  · rename_i he
    have : List.dropWhile (fun t : Tok => t.kind == .newline) X.reverse = [] := by simpa using he
    rw [this, hPr]; simp
  · rw [List.reverse_append, List.reverse_reverse]

section ins
variable {A F W : List Tok}

/-- the hypotheses on the insertion: `A W` is a complete line, `A` a non-empty part of it in front
    of its newline token, `F` whitespace / comment tokens -/
structure InsHyp (A F W : List Tok) : Prop where
  line : IsLine (A ++ W)
  neA : A ≠ []
  neW : W ≠ []
  filler : IsFiller F

theorem InsHyp.split (h : InsHyp A F W) :
    ∃ W0 nl, W = W0 ++ [nl] ∧ (∀ t ∈ A ++ W0, (t.kind != .newline) = true) ∧ nl.kind = .newline := by
  obtain ⟨body, nl, e, hb, hn⟩ := h.line
  rcases List.eq_nil_or_concat W with h0 | ⟨W0, nl', hW⟩
  · exact absurd h0 h.neW
  · have hW' : W = W0 ++ [nl'] := by simpa using hW
    rw [hW', ← List.append_assoc] at e
    have := List.append_inj' e (by simp)
    obtain ⟨e1, e2⟩ := this
    simp only [List.cons.injEq, and_true] at e2
    subst e2
    exact ⟨W0, nl', hW', by rw [e1]; exact hb, hn⟩

theorem InsHyp.line' (h : InsHyp A F W) : IsLine (A ++ F ++ W) := by
  obtain ⟨W0, nl, hW, hb, hn⟩ := h.split
  refine ⟨A ++ F ++ W0, nl, by rw [hW]; simp, ?_, hn⟩
  intro t ht
  simp only [List.mem_append] at ht hb
  rcases ht with (ht | ht) | ht
  · exact hb t (Or.inl ht)
  · exact h.filler.not_newline t ht
  · exact hb t (Or.inr ht)

theorem InsHyp.head (h : InsHyp A F W) : (A ++ F ++ W).head? = (A ++ W).head? := by
  cases A with
  | nil => exact absurd rfl h.neA
  | cons a r => rfl

theorem InsHyp.allEmpty (h : InsHyp A F W) :
    (A ++ F ++ W).all (fun t => isEmptyTok t.kind) = (A ++ W).all (fun t => isEmptyTok t.kind) := by
  simp only [List.all_append, h.filler.emptyTok, Bool.and_true]

theorem InsHyp.lastA (h : InsHyp A F W) : ∀ (P : List Tok) t, (P ++ A ++ F).getLast? = some t → t.kind ≠ .newline := by
  obtain ⟨W0, nl, hW, hb, hn⟩ := h.split
  intro P t ht
  have hmem : t ∈ A ++ F := by
    have hne : A ++ F ≠ [] := by simp [h.neA]
    rw [List.append_assoc, trail_getLast?_append _ _ hne] at ht
    exact List.mem_of_getLast? ht
  simp only [List.mem_append] at hmem
  rcases hmem with hm | hm
  · have := hb t (by simp [hm]); simpa using this
  · have := h.filler.not_newline t hm; simpa using this

theorem InsHyp.lastA0 (h : InsHyp A F W) : ∀ (P : List Tok) t, (P ++ A).getLast? = some t → t.kind ≠ .newline := by
  obtain ⟨W0, nl, hW, hb, hn⟩ := h.split
  intro P t ht
  rw [trail_getLast?_append _ _ h.neA] at ht
  have := hb t (by simp [List.mem_of_getLast? ht]); simpa using this

/-- the stream with the insertion against the stream without: unchanged, or `F` inserted in a
    line behind complete lines -/
inductive InsS (A F W : List Tok) : List Tok → List Tok → Prop
  | refl (Y : List Tok) : InsS A F W Y Y
  | at (L : List (List Tok)) (Z : List Tok) : (∀ l ∈ L, IsLine l) →
      InsS A F W (L.flatten ++ (A ++ F ++ W ++ Z)) (L.flatten ++ (A ++ W ++ Z))

/-- blocks: the same, or `F` inserted behind `A`; what follows `F` in the block is the rest `W` of
    the line and the further lines `N` of the block, trailing newline tokens trimmed -/
def InsB (A F W : List Tok) (b' b : List Tok) : Prop :=
  b' = b ∨ ∃ p N, b' = p ++ A ++ F ++ trimTrailingNewlines (W ++ N) ∧ b = p ++ A ++ trimTrailingNewlines (W ++ N)

def NextSimI (A F W : List Tok) : Option (List Tok × List Tok) → Option (List Tok × List Tok) → Prop
  | none, none => True
  | some (b1, r1), some (b2, r2) => InsB A F W b1 b2 ∧ InsS A F W r1 r2
  | _, _ => False

theorem NextSimI.rfl' (x : Option (List Tok × List Tok)) : NextSimI A F W x x := by
  cases x with
  | none => trivial
  | some p => exact ⟨Or.inl rfl, InsS.refl _⟩

theorem trail_moreOf_ins (h : InsHyp A F W) (Z : List Tok) :
    ∀ (L : List (List Tok)), (∀ l ∈ L, IsLine l) →
      ((moreOf (L.flatten ++ (A ++ F ++ W ++ Z))).1 = (moreOf (L.flatten ++ (A ++ W ++ Z))).1 ∧
        InsS A F W (moreOf (L.flatten ++ (A ++ F ++ W ++ Z))).2 (moreOf (L.flatten ++ (A ++ W ++ Z))).2) ∨
      (∃ M N, (moreOf (L.flatten ++ (A ++ F ++ W ++ Z))).1 = M ++ (A ++ F ++ W) ++ N ∧
        (moreOf (L.flatten ++ (A ++ W ++ Z))).1 = M ++ (A ++ W) ++ N ∧
        (moreOf (L.flatten ++ (A ++ F ++ W ++ Z))).2 = (moreOf (L.flatten ++ (A ++ W ++ Z))).2) := by
  intro L
  induction L with
  | nil =>
    intro _
    simp only [List.flatten_nil, List.nil_append]
    rw [moreOf_line h.line', moreOf_line h.line, h.head, h.allEmpty]
    by_cases hm : isSingleLineMarker (A ++ W).head? = true
    · simp only [hm, if_true]
      exact Or.inl ⟨trivial, by simpa using InsS.at (A := A) (F := F) (W := W) [] Z (by simp)⟩
    · simp only [hm, Bool.false_eq_true, if_false]
      by_cases he : (A ++ W).all (fun t => isEmptyTok t.kind) = true
      · simp only [he, if_true]
        exact Or.inl ⟨trivial, InsS.refl _⟩
      · simp only [he, Bool.false_eq_true, if_false]
        exact Or.inr ⟨[], (moreOf Z).1, by simp, by simp, trivial⟩
  | cons l L ih =>
    intro hL
    have hl : IsLine l := hL l (by simp)
    have hL' : ∀ l ∈ L, IsLine l := fun x hx => hL x (by simp [hx])
    simp only [List.flatten_cons, List.append_assoc]
    rw [moreOf_line hl, moreOf_line hl]
    by_cases hm : isSingleLineMarker l.head? = true
    · simp only [hm, if_true]
      refine Or.inl ⟨trivial, ?_⟩
      have := InsS.at (A := A) (F := F) (W := W) (l :: L) Z hL
      simpa only [List.flatten_cons, List.append_assoc] using this
    · simp only [hm, Bool.false_eq_true, if_false]
      by_cases he : l.all (fun t => isEmptyTok t.kind) = true
      · simp only [he, if_true]
        refine Or.inl ⟨trivial, ?_⟩
        have := InsS.at (A := A) (F := F) (W := W) L Z hL'
        simpa only [List.append_assoc] using this
      · simp only [he, Bool.false_eq_true, if_false]
        have ih' := ih hL'
        simp only [List.append_assoc] at ih'
        rcases ih' with ⟨h1, h2⟩ | ⟨M, N, h1, h2, h3⟩
        · exact Or.inl ⟨by rw [h1], h2⟩
        · exact Or.inr ⟨l ++ M, N, by rw [h1]; simp, by rw [h2]; simp, h3⟩

theorem trail_nextBlock_ins (h : InsHyp A F W) {Y1 Y2 : List Tok} (hi : InsS A F W Y1 Y2) :
    NextSimI A F W (nextBlock Y1) (nextBlock Y2) := by
  cases hi with
  | refl => exact NextSimI.rfl' _
  | «at» L Z hL =>
    induction L with
    | nil =>
      simp only [List.flatten_nil, List.nil_append]
      by_cases he : (A ++ W).all (fun t => isEmptyTok t.kind) = true
      · have he' : (A ++ F ++ W).all (fun t => isEmptyTok t.kind) = true := by rw [h.allEmpty]; exact he
        rw [nextBlock_of_skipOf (skipOf_empty ⟨h.line', he'⟩ Z), nextBlock_of_skipOf (skipOf_empty ⟨h.line, he⟩ Z)]
        exact NextSimI.rfl' _
      · have he0 : (A ++ W).all (fun t => isEmptyTok t.kind) = false := by simpa using he
        have he' : (A ++ F ++ W).all (fun t => isEmptyTok t.kind) = false := by rw [h.allEmpty]; exact he0
        rw [nextBlock_line_nonempty h.line' he', nextBlock_line_nonempty h.line he0, h.head]
        refine ⟨Or.inr ⟨[], (if isSingleLineMarker (A ++ W).head? = true then ([], Z) else moreOf Z).1, ?_, ?_⟩, InsS.refl _⟩
        · rw [List.append_assoc (A ++ F), trail_trim_append (A ++ F) _ (by simp [h.neA]) (by simpa using h.lastA [])]
          simp
        · rw [List.append_assoc A, trail_trim_append A _ h.neA (by simpa using h.lastA0 [])]
          simp
    | cons l L ih =>
      have hl : IsLine l := hL l (by simp)
      have hL' : ∀ l ∈ L, IsLine l := fun x hx => hL x (by simp [hx])
      simp only [List.flatten_cons, List.append_assoc]
      by_cases he : l.all (fun t => isEmptyTok t.kind) = true
      · have e1 : ∀ Z, nextBlock (l ++ Z) = nextBlock Z := fun Z =>
          nextBlock_of_skipOf (skipOf_empty ⟨hl, he⟩ Z)
        rw [e1, e1]
        have := ih hL'
        simpa only [List.append_assoc] using this
      · have he' : l.all (fun t => isEmptyTok t.kind) = false := by simpa using he
        rw [nextBlock_line_nonempty hl he', nextBlock_line_nonempty hl he']
        by_cases hm : isSingleLineMarker l.head? = true
        · simp only [hm, if_true]
          refine ⟨Or.inl rfl, ?_⟩
          have := InsS.at (A := A) (F := F) (W := W) L Z hL'
          simpa only [List.append_assoc] using this
        · simp only [hm, Bool.false_eq_true, if_false]
          have hmo := trail_moreOf_ins h Z L hL'
          simp only [List.append_assoc] at hmo
          rcases hmo with ⟨h1, h2⟩ | ⟨M, N, h1, h2, h3⟩
          · exact ⟨Or.inl (by rw [h1]), h2⟩
          · refine ⟨Or.inr ⟨l ++ M, N, ?_, ?_⟩, by rw [h3]; exact InsS.refl _⟩
            · rw [h1]
              have := trail_trim_append (l ++ M ++ A ++ F) (W ++ N) (by simp [h.neA])
                (by simpa only [List.append_assoc] using h.lastA (l ++ M))
              simpa only [List.append_assoc] using this
            · rw [h2]
              have := trail_trim_append (l ++ M ++ A) (W ++ N) (by simp [h.neA])
                (by simpa only [List.append_assoc] using h.lastA0 (l ++ M))
              simpa only [List.append_assoc] using this

theorem trail_blocksOf_ins (h : InsHyp A F W) : ∀ (n : Nat) (Y1 Y2 : List Tok), Y1.length ≤ n → InsS A F W Y1 Y2 →
    LRel (InsB A F W) (blocksOf Y1) (blocksOf Y2) := by
  intro n
  induction n with
  | zero =>
    intro Y1 Y2 hlen hi
    have h1 : Y1 = [] := List.eq_nil_of_length_eq_zero (by omega)
    subst h1
    have hn := trail_nextBlock_ins h hi
    rw [blocksOf_unfold, blocksOf_unfold]
    rw [blocks_next_nil] at hn ⊢
    cases h2 : nextBlock Y2 with
    | none => exact .nil
    | some p => rw [h2] at hn; cases p; exact hn.elim
  | succ n ih =>
    intro Y1 Y2 hlen hi
    have hn := trail_nextBlock_ins h hi
    rw [blocksOf_unfold, blocksOf_unfold]
    cases h1 : nextBlock Y1 with
    | none =>
      cases h2 : nextBlock Y2 with
      | none => exact .nil
      | some p => rw [h1, h2] at hn; cases p; exact hn.elim
    | some p1 =>
      cases h2 : nextBlock Y2 with
      | none => rw [h1, h2] at hn; cases p1; exact hn.elim
      | some p2 =>
        rw [h1, h2] at hn
        obtain ⟨b1, r1⟩ := p1
        obtain ⟨b2, r2⟩ := p2
        obtain ⟨hb, hr⟩ := hn
        obtain ⟨_, _, _, _, _, _, hl⟩ := blocks_next_some Y1 b1 r1 h1
        exact .cons hb (ih r1 r2 (by omega) hr)

/-- **Filler tokens inserted inside a line: the same blocks, `F` inserted in (at most) one.**
    The stream consists of complete lines `L`, then the line `A W` (`A` non-empty, `W` its rest with
    the newline token), then anything `Z`.  Inserting whitespace / comment tokens `F` behind `A`:
    `next_block` cuts as many blocks as before, and corresponding blocks are equal or differ by `F`
    inserted behind `A` (`InsB`). -/
theorem trail_blocks_insert (h : InsHyp A F W) (L : List (List Tok)) (hL : ∀ l ∈ L, IsLine l) (Z : List Tok) :
    LRel (InsB A F W) (blocksOf (L.flatten ++ (A ++ F ++ W ++ Z))) (blocksOf (L.flatten ++ (A ++ W ++ Z))) :=
  trail_blocksOf_ins h _ _ _ (Nat.le_refl _) (InsS.at L Z hL)

end ins

/-- relational composition on lists -/
theorem LRel.comp {β γ δ : Type} {R1 : β → γ → Prop} {R2 : γ → δ → Prop} {x : List β} {y : List γ} {z : List δ}
    (h1 : LRel R1 x y) (h2 : LRel R2 y z) : LRel (fun a c => ∃ b, R1 a b ∧ R2 b c) x z := by
  induction h1 generalizing z with
  | nil => cases h2; exact .nil
  | cons hab _ ih =>
    cases h2 with
    | cons hbc h2' => exact .cons ⟨_, hab, hbc⟩ (ih h2')

/-- … with the tokens behind the insertion shifted: `X'` is the part of the transformed stream
    behind `F`, related token by token to `W Z` by a kind-preserving relation (offsets differ).  Each
    block of the transformed stream is, up to that relation, the corresponding block of the
    original stream with `F` inserted (or without change). -/
theorem trail_blocks_insert_rel {A F W : List Tok} {R : Tok → Tok → Prop} (hR : KindPres R) (hrefl : ∀ t, R t t)
    (h : InsHyp A F W) (L : List (List Tok)) (hL : ∀ l ∈ L, IsLine l) (Z X' : List Tok) (hX : LRel R X' (W ++ Z)) :
    LRel (fun b' b => ∃ m, LRel R b' m ∧ InsB A F W m b)
      (blocksOf (L.flatten ++ (A ++ F ++ X'))) (blocksOf (L.flatten ++ (A ++ W ++ Z))) := by
  have hrel : LRel R (L.flatten ++ (A ++ F ++ X')) (L.flatten ++ (A ++ F ++ W ++ Z)) := by
    rw [List.append_assoc (A ++ F) W Z]
    exact (LRel.refl_of hrefl _).append ((LRel.refl_of hrefl _).append hX)
  have h1 : LRel (LRel R) (blocksOf (L.flatten ++ (A ++ F ++ X'))) (blocksOf (L.flatten ++ (A ++ F ++ W ++ Z))) := by
    unfold blocksOf
    rw [hrel.length_eq]
    exact sim_allBlocks hR _ hrel
  exact h1.comp (trail_blocks_insert h L hL Z)

end Cook
