import CookModel.Lemmas.DiagExact
/-
  C07, `empty-value` lifted from `parse_value` to `parse_quantity` and to the component parsers
  (prefix `c07e_`).

  The quantity tokens are `pre ++ lk ++ vt ++ [%] ++ ut`: blanks/comments `pre` (eaten by `scaling_lock`),
  an optional lock token `=` (`lk`), the value tokens `vt` (no `%`), the `%` and the unit tokens.
  When `vt` does not read as a number and its text is blank (`{ %g}`, `{=%g}`, `{= %g}`) the regular
  quantity reader pushes exactly `empty-value` (then `empty-unit` if the unit is blank as well).
-/
set_option linter.unusedSectionVars false
set_option linter.unusedSimpArgs false
set_option linter.unusedVariables false
namespace Cook

variable {α : Type} [Arith α]

/-- the error `parse_value` reports for a blank value text -/
def emptyValueEv (t : Text) : Ev α := .error ⟨.error, .parse, "empty-value", [t.span]⟩

/-- the span of an optional lock token -/
def lockSpan (lk : List Tok) : Option Span := lk.head?.map (fun e => (⟨e.start, e.stop⟩ : Span))

/-- `scaling_lock` on blanks, an optional `=`, then a token that is neither -/
theorem c07e_scalingLock_at {qt : List Tok} {s0 s : BP α} (pre lk rest : List Tok)
    (hqt : qt = pre ++ (lk ++ rest)) (h : At qt 0 s0 s)
    (hpre : ∀ t ∈ pre, isWsComment t.kind = true)
    (hlk : lk = [] ∨ ∃ e, lk = [e] ∧ e.kind = .eq)
    (hrest : lk = [] → ∀ b, rest.head? = some b → isWsComment b.kind = false ∧ b.kind ≠ .eq) :
    Sat (scalingLock (α := α)) s (fun r s' => r = lockSpan lk ∧ At qt (pre.length + lk.length) s0 s') := by
  unfold scalingLock wsComments
  have hhead : ∀ b, (lk ++ rest).head? = some b → isWsComment b.kind = false := by
    intro b hb
    rcases hlk with rfl | ⟨e, rfl, he⟩
    · exact (hrest rfl b (by simpa using hb)).1
    · simp at hb; subst hb; rw [he]; rfl
  refine Sat.bind (Sat.mono (consumeWhile_at isWsComment h pre (lk ++ rest) (by rw [hqt]; rfl) hpre hhead) ?_)
  rintro _ s1 ⟨-, h1⟩
  simp only [Nat.zero_add] at h1
  refine Sat.bind (Sat.atK ?_)
  have hget : s1.toks[s1.cur]? = (lk ++ rest).head? := by
    rw [h1.1, h1.2.1, hqt, List.getElem?_append_right (Nat.le_refl _), Nat.sub_self, List.head?_eq_getElem?]
  rcases hlk with rfl | ⟨e, rfl, he⟩
  · have hk : ((s1.toks[s1.cur]?).map (·.kind) == some TK.eq) = false := by
      rw [hget]
      cases hr : ([] ++ rest).head? with
      | none => rfl
      | some b => simpa using (hrest rfl b (by simpa using hr)).2
    rw [hk]
    simp only [Bool.false_eq_true, if_false]
    refine Sat.pure ⟨rfl, ?_⟩
    simpa using h1
  · have ht : s1.toks[s1.cur]? = some e := by rw [hget]; rfl
    have hk : ((s1.toks[s1.cur]?).map (·.kind) == some TK.eq) = true := by rw [ht]; simp [he]
    rw [hk]
    simp only [if_true]
    have hb : (bumpAny : P α Tok) s1 = (e, { s1 with cur := s1.cur + 1 }) := by
      unfold bumpAny
      simp only [bind, StateT.bind, nextToken_run, ht]
      rfl
    refine Sat.bind (Sat.of_eq hb ?_)
    refine Sat.pure ⟨rfl, h1.1, ?_, h1.2.2⟩
    show s1.cur + 1 = _
    rw [h1.2.1]; rfl

/-- `parse_value` on tokens that are no number and whose text is blank, inside the sub-parser -/
theorem c07e_parseValue_empty_at {qt : List Tok} {c : Nat} {s0 s : BP α} (h : At qt c s0 s) (vt : List Tok)
    (hnone : numOrRange (α := α) (s0.ext.has Gen.EXT_RANGE_VALUES) vt = none)
    (hemp : (buildText ((vt.head?.map (·.start)).getD (offAt qt c)) vt).isTextEmpty s0.cs = true) :
    Sat (parseValue (α := α) vt) s (fun r s' => s'.toks = qt ∧ s'.cur = c ∧
      Pushed [emptyValueEv (buildText ((vt.head?.map (·.start)).getD (offAt qt c)) vt)] s0 s' ∧
      r.span = ⟨(vt.head?.map (·.start)).getD (offAt qt c), offAt qt c⟩) := by
  unfold parseValue
  refine Sat.bind (Sat.currentOffset ?_)
  dsimp only
  refine Sat.bind (Sat.hasExt ?_)
  rw [h.2.2.2.1, hnone]
  dsimp only
  refine Sat.bind ?_
  unfold textValue
  rw [h.1, h.2.1]
  refine Sat.bind (Sat.mono (bpText_at _ _ h) ?_)
  rintro _ s1 ⟨rfl, h1⟩
  refine Sat.bind (Sat.get ?_)
  dsimp only
  rw [h1.2.2.1, hemp]
  simp only [if_true]
  refine Sat.bind (Sat.perrE ?_)
  refine Sat.pure ?_
  refine Sat.pure ⟨h1.1, h1.2.1, ?_, rfl⟩
  exact (h1.2.2.pushed.trans (Pushed.one _ _)).cast rfl

/-- the regular quantity reader on `blanks (=)? value % unit` with a blank, non-numeric value -/
theorem c07e_parseRegularQuantity_empty {s0 s : BP α} (pre lk vt ut : List Tok) (pct : Tok)
    (h : At (pre ++ (lk ++ (vt ++ pct :: ut))) 0 s0 s)
    (hpre : ∀ t ∈ pre, isWsComment t.kind = true)
    (hlk : lk = [] ∨ ∃ e, lk = [e] ∧ e.kind = .eq)
    (hhead : lk = [] → ∀ t0, vt.head? = some t0 → isWsComment t0.kind = false ∧ t0.kind ≠ .eq)
    (hvp : ∀ t ∈ vt, t.kind ≠ .percent) (hp : pct.kind = .percent)
    (hnone : numOrRange (α := α) (s0.ext.has Gen.EXT_RANGE_VALUES) vt = none)
    (hemp : (buildText ((vt.head?.map (·.start)).getD
      (offAt (pre ++ (lk ++ (vt ++ pct :: ut))) (pre.length + lk.length + vt.length))) vt).isTextEmpty s0.cs = true) :
    Sat (parseRegularQuantity (α := α)) s (fun r s' =>
      Pushed (emptyValueEv (buildText ((vt.head?.map (·.start)).getD
          (offAt (pre ++ (lk ++ (vt ++ pct :: ut))) (pre.length + lk.length + vt.length))) vt) ::
        emptyUnitEvs pct ut s0.cs) s0 s' ∧
      r.quantity.val.unit = (if (buildText pct.stop ut).isTextEmpty s0.cs then none
        else some (buildText pct.stop ut)) ∧
      r.quantity.val.value.lock = lockSpan lk) := by
  generalize hqt : pre ++ (lk ++ (vt ++ pct :: ut)) = qt at h hemp ⊢
  have hpk : pct.kind ≠ .eq := by rw [hp]; decide
  have hpw : isWsComment pct.kind = false := by rw [hp]; rfl
  unfold parseRegularQuantity qvalue
  refine Sat.bind (Sat.bind (Sat.mono (c07e_scalingLock_at pre lk (vt ++ pct :: ut) hqt.symm h hpre hlk ?_) ?_))
  · intro hl b hb
    cases vt with
    | nil => simp at hb; subst hb; exact ⟨hpw, hpk⟩
    | cons t0 vr => simp at hb; subst hb; exact hhead hl _ rfl
  rintro _ s2 ⟨rfl, h2⟩
  -- the value tokens
  have hd : qt.drop (pre.length + lk.length) = vt ++ pct :: ut := by
    rw [← hqt, ← List.append_assoc, List.drop_left' (by simp)]
  refine Sat.bind (Sat.mono (consumeWhile_at (fun k => k != .percent) h2 vt (pct :: ut) hd
    (by intro t ht; simpa using hvp t ht) (by intro b hb; simp at hb; subst hb; simp [hp])) ?_)
  rintro r3 s3 ⟨hr3, h3⟩
  subst r3
  refine Sat.bind (Sat.mono (c07e_parseValue_empty_at h3 vt hnone hemp) ?_)
  rintro v s4 ⟨ht4, hc4, p4, -⟩
  refine Sat.pure ?_
  -- the unit
  have hqt' : qt = (pre ++ lk ++ vt) ++ pct :: ut := by rw [← hqt]; simp
  have hlen : pre.length + lk.length + vt.length = (pre ++ lk ++ vt).length := by simp [Nat.add_assoc]
  apply Sat.bind
  apply Sat.mono (Q := fun (u : Option (Span × Text)) s' => Same s4 s' ∧
    u = some (⟨pct.start, pct.stop⟩, buildText pct.stop ut))
  · refine Sat.bind (Sat.peekK ?_)
    have ht : s4.toks[s4.cur]? = some pct := by
      rw [ht4, hc4, hqt', hlen]; exact getElem?_mid _ _ _
    have hpk' : (s4.toks[s4.cur]?).map (·.kind) = some TK.percent := by rw [ht]; simp [hp]
    rw [hpk']
    dsimp only
    have hb : (bumpAny : P α Tok) s4 = (pct, { s4 with cur := s4.cur + 1 }) := by
      unfold bumpAny
      simp only [bind, StateT.bind, nextToken_run, ht]
      rfl
    refine Sat.bind (Sat.of_eq hb ?_)
    have hut : s4.toks.drop (s4.cur + 1) = ut := by
      rw [ht4, hc4, hqt', hlen, List.drop_append]
      simp
    have hcr : (consumeRest : P α (List Tok)) ({ s4 with cur := s4.cur + 1 } : BP α) =
        (ut, { s4 with cur := s4.cur + 1 + ut.length }) := by
      have e : (consumeRest : P α (List Tok)) ({ s4 with cur := s4.cur + 1 } : BP α) =
        (s4.toks.drop (s4.cur + 1), { s4 with cur := s4.cur + 1 + (s4.toks.drop (s4.cur + 1)).length }) := rfl
      rw [e, hut]
    refine Sat.bind (Sat.of_eq hcr ?_)
    have h5 : At qt (s4.cur + 1 + ut.length) s4 ({ s4 with cur := s4.cur + 1 + ut.length } : BP α) :=
      ⟨ht4, rfl, Same.refl _⟩
    refine Sat.bind (Sat.mono (bpText_at pct.stop ut h5) ?_)
    rintro _ s6 ⟨rfl, h6⟩
    exact Sat.pure ⟨h6.2.2, rfl⟩
  · rintro unit s7 ⟨q7, rfl⟩
    refine Sat.bind (Sat.get ?_)
    dsimp only
    rw [q7.1, p4.1]
    cases hunit : (buildText pct.stop ut).isTextEmpty s0.cs
    · simp only [Bool.false_eq_true, if_false]
      refine Sat.bind (Sat.get ?_)
      refine Sat.bind (Sat.mono ((FQ.tokensSpanP _ _).sat s7) ?_)
      rintro sp s8 q8
      refine Sat.pure ⟨((p4.trans (q7.trans q8).pushed)).cast ?_, rfl, rfl⟩
      simp [emptyUnitEvs, hunit]
    · simp only [if_true]
      refine Sat.bind (Sat.pwarnE ?_)
      refine Sat.bind (Sat.get ?_)
      refine Sat.bind (Sat.mono ((FQ.tokensSpanP _ _).sat _) ?_)
      rintro sp s8 q8
      refine Sat.pure ⟨(((p4.trans q7.pushed).trans (Pushed.one _ _)).trans q8.pushed).cast ?_, rfl, rfl⟩
      simp [emptyUnitEvs, hunit]

/-- `parse_quantity` on `blanks (=)? value % unit` with a blank, non-numeric value: exactly
    `empty-value` (and `empty-unit` for a blank unit), under every extension set -/
theorem c07e_parseQuantity_empty (pre lk vt ut : List Tok) (pct : Tok) (s : BP α)
    (hpre : ∀ t ∈ pre, isWsComment t.kind = true)
    (hlk : lk = [] ∨ ∃ e, lk = [e] ∧ e.kind = .eq)
    (hhead : lk = [] → ∀ t0, vt.head? = some t0 → isWsComment t0.kind = false ∧ t0.kind ≠ .eq)
    (hvp : ∀ t ∈ vt, t.kind ≠ .percent) (hp : pct.kind = .percent)
    (hnone : numOrRange (α := α) (s.ext.has Gen.EXT_RANGE_VALUES) vt = none)
    (hemp : (buildText ((vt.head?.map (·.start)).getD
      (offAt (pre ++ (lk ++ (vt ++ pct :: ut))) (pre.length + lk.length + vt.length))) vt).isTextEmpty s.cs = true) :
    Sat (parseQuantity (α := α) (pre ++ (lk ++ (vt ++ pct :: ut)))) s (fun r s' =>
      Pushed (emptyValueEv (buildText ((vt.head?.map (·.start)).getD
          (offAt (pre ++ (lk ++ (vt ++ pct :: ut))) (pre.length + lk.length + vt.length))) vt) ::
        emptyUnitEvs pct ut s.cs) s s' ∧
      r.quantity.val.unit = (if (buildText pct.stop ut).isTextEmpty s.cs then none
        else some (buildText pct.stop ut)) ∧
      r.quantity.val.value.lock = lockSpan lk) := by
  unfold parseQuantity
  have hne : (pre ++ (lk ++ (vt ++ pct :: ut))).isEmpty = false := by
    cases pre <;> cases lk <;> cases vt <;> rfl
  simp only [hne, Bool.false_eq_true, if_false]
  refine Sat.bind (Sat.get ?_)
  refine Sat.bind (Sat.set ?_)
  have hat : At (pre ++ (lk ++ (vt ++ pct :: ut))) 0 s
      ({ s with toks := pre ++ (lk ++ (vt ++ pct :: ut)), cur := 0 } : BP α) := by
    unfold At Same; exact ⟨rfl, rfl, rfl, rfl, rfl⟩
  apply Sat.bind
  apply Sat.mono (Q := fun (r : Option (ParsedQuantity α)) s' => r = none ∧
    At (pre ++ (lk ++ (vt ++ pct :: ut))) 0 s s')
  · refine Sat.bind (Sat.hasExt ?_)
    split
    · apply withRecover_sat
      unfold parseAdvancedQuantity
      refine Sat.bind (Sat.allToks ?_)
      have hany : (pre ++ (lk ++ (vt ++ pct :: ut))).any (fun t => t.kind == .percent) = true := by
        simp [hp]
      simp only [hany, if_true]
      exact Sat.pure ⟨trivial, hat⟩
    · exact Sat.pure ⟨rfl, hat⟩
  · rintro adv s1 ⟨rfl, h1⟩
    dsimp only
    refine Sat.bind (Sat.mono (c07e_parseRegularQuantity_empty pre lk vt ut pct h1 hpre hlk hhead hvp hp hnone hemp) ?_)
    rintro r s2 ⟨q2, hu⟩
    refine Sat.bind (Sat.modify ?_)
    exact Sat.pure ⟨q2, hu⟩

/-! ### the component -/

/-- an ingredient with quantity tokens `qt`, no modifiers, no alias separator, a non-blank name: the tail
    pushes exactly what `parse_quantity qt` pushes -/
theorem c07e_ingredientTail_q (start stop modPos nameOffset : Nat) (body : Body) (note : Option Text) (s : BP α)
    (qt : List Tok) (hq : body.quantity = some qt)
    (ha : s.ext.has Gen.EXT_COMPONENT_ALIAS = false ∨ ∀ t ∈ body.name, t.kind ≠ .or)
    (hn : (buildText nameOffset body.name).isTextEmpty s.cs = false)
    (l : List (Ev α)) (R : ParsedQuantity α → Prop)
    (hQ : ∀ sq, Same s sq → Sat (parseQuantity (α := α) qt) sq (fun r s' => Pushed l sq s' ∧ R r)) :
    Sat (ingredientTail (α := α) start stop modPos nameOffset [] body note) s (fun r s' => Pushed l s s' ∧
      ∃ q, R q ∧ r = some (.ingredient ⟨⟨⟨Modifiers.empty, Span.pos modPos⟩, none, buildText nameOffset body.name,
        none, some q.quantity, note⟩, ⟨start, stop⟩⟩)) := by
  unfold ingredientTail
  refine Sat.bind (Sat.mono (parseAlias_quiet "ingredient" body.name nameOffset s ha) ?_)
  rintro ⟨name, alias⟩ s5 ⟨q5, heq⟩
  cases heq
  dsimp only
  refine Sat.bind ?_
  unfold checkEmptyName
  refine Sat.bind (Sat.get ?_)
  rw [q5.1, hn]
  simp only [Bool.false_eq_true, if_false]
  refine Sat.pure ?_
  refine Sat.bind ?_
  unfold parseModifiers
  simp only [List.isEmpty_nil, if_true]
  refine Sat.pure ?_
  rw [hq]
  dsimp only
  refine Sat.bind (Sat.bind (Sat.mono (hQ s5 q5) ?_))
  rintro q s6 ⟨p6, hr⟩
  refine Sat.pure ?_
  exact Sat.pure ⟨(q5.pushed.trans p6).cast (by simp), q, hr, rfl⟩

end Cook
