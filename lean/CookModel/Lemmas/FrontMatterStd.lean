import CookModel.Lemmas.FrontMatterDoc
import CookModel.Lemmas.StdMetaMap
/-
  The coupling "warning iff the accessor gives nothing" (C13) for the entries of a front-matter mapping,
  at the level of a whole document (tag `fms_`).
-/
namespace Cook
namespace FM
open SM (Y)

variable {α : Type} [Arith α]

/-- the entry `Metadata::get k` finds contributes a warning exactly when the accessor gives nothing -/
theorem fms_entryWarning_iff (fe : Env α) (yamlStart : Nat) (text : Str) (k : SM.StdKey)
    (m : List (Y × Y)) (v : Y) (hv : SM.metaGet k m = some v) :
    entryWarning fe yamlStart text (Y.str k.canon, v) ≠ [] ↔ SM.metaGives fe.conv fe.alpha k m = false := by
  have hw := SM.metaWarns_iff fe.conv fe.alpha k m v hv
  unfold entryWarning
  simp only [SM.asStr]
  by_cases he : SM.entryWarns fe.conv fe.alpha k.canon v = true
  · simp [he, hw.mp he]
  · have hg : SM.metaGives fe.conv fe.alpha k m = true := by
      cases hx : SM.metaGives fe.conv fe.alpha k m with
      | true => rfl
      | false => exact absurd (hw.mpr hx) he
    simp [he, hg]

/-- a document with front matter that decodes, default options: the stored mapping and the whole report -/
theorem fms_doc_report (env : Cook.Env) (fe : Env α) (hv : fe.validator = none) (input : Str) (fm : FrontMatter)
    (h : parseFrontmatter env.cs input = some fm) (m : List (Y × Y)) (hd : fe.decode fm.yamlText = .ok m)
    (r1 : Col α) (h1 : (parseRecipe (α := α) env input).output = some r1) :
    fullMetadata fe r1 = m ∧
    fullDiags fe (parseRecipe (α := α) env input) =
      (m.flatMap (entryWarning fe fm.yamlOffset fm.yamlText) ++ timeWarn fm.yamlOffset fm.yamlText m).toArray ++
        (parseRecipe (α := α) env input).diags := by
  obtain ⟨_, a2, a3, _⟩ := fmd_full env fe input fm h r1 h1
  have hd' : fe.decode (docYaml fm).text = .ok m := by rw [fmd_docYaml_text]; exact hd
  obtain ⟨e1, e2⟩ := fmx_entries_noValidator fe hv (docYaml fm).span.start (docYaml fm).text m
  have hp : (processFrontmatter fe (docYaml fm)).map = some m ∧
      (processFrontmatter fe (docYaml fm)).diags =
        m.flatMap (entryWarning fe fm.yamlOffset fm.yamlText) ++ timeWarn fm.yamlOffset fm.yamlText m := by
    rw [fmd_docYaml_start, fmd_docYaml_text] at e1 e2
    unfold processFrontmatter
    rw [hd']
    simp only [fmd_docYaml_start, fmd_docYaml_text, e1, e2]
    trivial
  exact ⟨by rw [a3, hp.1]; rfl, by rw [a2, hp.2]⟩

end FM
end Cook
