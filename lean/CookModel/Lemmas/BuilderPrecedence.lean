import CookModel.Lemmas.BuilderFinish
/- C16 — what an extend block does to the units it addresses and to the others (precedence semantics). -/
namespace Cook.Bld
open Cook

/-- `units'` differs from `units` only at `id` and, elsewhere, only in the names/symbols/ratio of expanded units:
    aliases and SI flags of every other unit are kept, and units that are not expansions are untouched. -/
def Frame {α : Type} (id : Nat) (units units' : List (UnitB α)) : Prop :=
  units'.length = units.length ∧
  ∀ (j : Nat), j ≠ id → ∀ (uj : UnitB α), units[j]? = some uj →
    ∃ uj' : UnitB α, units'[j]? = some uj' ∧ uj'.unit.aliases = uj.unit.aliases ∧ SameFlags uj' uj ∧ (uj.isExpanded = false → uj' = uj)

theorem Frame.refl {α : Type} (id : Nat) (units : List (UnitB α)) : Frame id units units :=
  ⟨rfl, fun _ _ uj h => ⟨uj, h, rfl, ⟨rfl, rfl, rfl⟩, fun _ => rfl⟩⟩

theorem Frame.trans {α : Type} {id : Nat} {a b c : List (UnitB α)} (h1 : Frame id a b) (h2 : Frame id b c) : Frame id a c := by
  refine ⟨h2.1.trans h1.1, ?_⟩
  intro j hj uj hu
  obtain ⟨u1, hu1, a1, f1, e1⟩ := h1.2 j hj uj hu
  obtain ⟨u2, hu2, a2, f2, e2⟩ := h2.2 j hj u1 hu1
  refine ⟨u2, hu2, a2.trans a1, ⟨f2.1.trans f1.1, f2.2.1.trans f1.2.1, f2.2.2.trans f1.2.2⟩, ?_⟩
  intro hne
  have := e1 hne; subst this
  exact e2 hne

/-- replacing an expanded unit by another expanded unit with the same aliases is a frame step -/
theorem Frame.set_child {α : Type} (id : Nat) {units : List (UnitB α)} {j : Nat} {old nu : UnitB α} (hold : units[j]? = some old)
    (ho : IsChild old) (hn : IsChild nu) (hal : nu.unit.aliases = old.unit.aliases) : Frame id units (units.set j nu) := by
  refine ⟨by simp, ?_⟩
  intro i _ ui hui
  rw [getElem?_set']
  by_cases hji : j = i
  · subst hji
    rw [hold] at hui; cases hui
    refine ⟨nu, by simp [lt_of_getElem?_some hold], hal, hn.sameFlags ho, ?_⟩
    intro hne; rw [ho.2.1] at hne; cases hne
  · exact ⟨ui, by simp [hji, hui], rfl, ⟨rfl, rfl, rfl⟩, fun _ => rfl⟩

theorem updateExpandedOne_frame {α : Type} (id : Nat) (new : SIPrefix → UnitB α) (hnew : ∀ p, IsChild (new p)) (c c' : Core α)
    (u' : UnitB α) (m : SIPrefix → Nat) (p : SIPrefix) (ps : List SIPrefix) (n : Nat)
    (hpinv : PInv (Rof id u' (p :: ps)) c) (hsh : Shape id u' n c) (hm : u'.expanded = some m)
    (h : updateExpandedOne id new c p = .ok c') : Frame id c.units c'.units := by
  unfold updateExpandedOne at h
  rw [hsh.at_id] at h; simp only [hm] at h
  obtain ⟨old, hold, ho⟩ := hpinv.struct.children id u' m hsh.at_id hm p
  rw [hold] at h; simp only at h
  split at h
  · cases h
  · cases h
    exact Frame.set_child id hold ho (hnew p) rfl

theorem updateExpandedLoop_frame {α : Type} (id : Nat) (new : SIPrefix → UnitB α) (hnew : ∀ p, IsChild (new p))
    (u' : UnitB α) (m : SIPrefix → Nat) (n : Nat) (hm : u'.expanded = some m) (ps : List SIPrefix) (hnd : ps.Nodup) (c c' : Core α)
    (hpinv : PInv (Rof id u' ps) c) (hsh : Shape id u' n c) (h : updateExpandedLoop id new ps c = .ok c') :
    Frame id c.units c'.units := by
  induction ps generalizing c with
  | nil => simp [updateExpandedLoop] at h; subst h; exact Frame.refl _ _
  | cons p ps ih =>
    unfold updateExpandedLoop at h
    have h1 := updateExpandedOne_good id new hnew c u' m p ps n hpinv hsh hm hnd
    split at h
    · cases h
    · rename_i c1 hc1; rw [hc1] at h1
      exact (updateExpandedOne_frame id new hnew c c1 u' m p ps n hpinv hsh hm hc1).trans
        (ih (List.nodup_cons.mp hnd).2 c1 h1.1 h1.2 h)

theorem updateExpanded_frame {α : Type} [Arith α] (si : SIConf) (id : Nat) (c c' : Core α) (u' : UnitB α) (n : Nat)
    (hpinv : PInv (Rof id u' SIPrefix.all) c) (hsh : Shape id u' n c) (hex : u'.expandSi = true)
    (h : updateExpanded si id c = .ok c') : Frame id c.units c'.units := by
  unfold updateExpanded at h
  rw [hsh.at_id] at h; simp only at h
  split at h
  · cases h
  · rename_i new hnew
    obtain ⟨pfx, sym, _, _, rfl⟩ := expandSi_ok hnew
    obtain ⟨m, hm⟩ := Option.isSome_iff_exists.mp (hsh.all id u' hsh.at_id hex)
    exact updateExpandedLoop_frame id _ (expandOne_isChild u' pfx sym) u' m n hm SIPrefix.all SIPrefix.all_nodup c c' hpinv hsh h

/-- one entry of an extend block: the addressed unit becomes `u.edit`, the rest is framed -/
theorem applyExtendOne_effect {α : Type} [Arith α] (si : SIConf) (pr : Prec) (c c' : Core α) (ie : Nat × ExtendEntry α) (u : UnitB α)
    (hc : Ready c) (hu : c.units[ie.1]? = some u) (h : applyExtendOne si pr c ie = .ok c') :
    c'.units[ie.1]? = some (u.edit pr ie.2) ∧ Frame ie.1 c.units c'.units := by
  have hid := lt_of_getElem?_some hu
  unfold applyExtendOne at h
  rw [hu] at h; simp only at h
  obtain ⟨idx, hrem, hget⟩ := removeUnitRec_spec hc.1.struct hu c.index
  rw [hrem] at h; simp only at h
  have h0 := PInv_after_remove hc.1 hu hget
  have hsf0 : SameFlags (u.edit pr ie.2) u := ⟨rfl, rfl, rfl⟩
  generalize hu' : u.edit pr ie.2 = u' at hsf0 h
  have hRcongr : ∀ ps i, Rof ie.1 u ps i ↔ Rof ie.1 u' ps i := by
    intro ps i; unfold Rof; rw [hsf0.1]
  have h1 : PInv (Rof ie.1 u' SIPrefix.all) { units := c.units.set ie.1 u', index := idx } :=
    (PInv.set_in_R (c := { c with index := idx }) h0 (Or.inl rfl) (hc.1.struct.set_sameFlags hu hsf0)).congr (hRcongr _)
  have hsh : Shape ie.1 u' c.units.length { units := c.units.set ie.1 u', index := idx } :=
    ⟨by show (c.units.set ie.1 u')[ie.1]? = some u'; simp [hid], hc.2.set_sameFlags hu hsf0, by simp⟩
  have hframe0 : Frame ie.1 c.units (c.units.set ie.1 u') := by
    refine ⟨by simp, ?_⟩
    intro j hj uj huj
    refine ⟨uj, ?_, rfl, ⟨rfl, rfl, rfl⟩, fun _ => rfl⟩
    rw [getElem?_set']; simp [Ne.symm hj, huj]
  split at h
  · cases h
  · rename_i c2 hc2
    have hc2' : Frame ie.1 (c.units.set ie.1 u') c2.units ∧ c2.units[ie.1]? = some u' := by
      split at hc2
      · rename_i hex
        have hg := updateExpanded_good si ie.1 _ u' _ h1 hsh hex
        rw [hc2] at hg
        exact ⟨updateExpanded_frame si ie.1 _ c2 u' _ h1 hsh hex hc2, hg.2.at_id⟩
      · cases hc2; exact ⟨Frame.refl _ _, hsh.at_id⟩
    rw [hc2'.2] at h; simp only at h
    split at h
    · cases h
    · cases h
      exact ⟨hc2'.2, hframe0.trans hc2'.1⟩

/-- what is said about a unit that no entry of the block addresses -/
def Kept {α : Type} (uj uj' : UnitB α) : Prop :=
  uj'.unit.aliases = uj.unit.aliases ∧ SameFlags uj' uj ∧ (uj.isExpanded = false → uj' = uj)

theorem applyExtendList_effect {α : Type} [Arith α] (si : SIConf) (pr : Prec) (l : List (Nat × ExtendEntry α))
    (hnd : (l.map (·.1)).Nodup) (c c' : Core α) (hc : Ready c) (hid : ∀ ie, ie ∈ l → ie.1 < c.units.length)
    (h : applyExtendList si pr l c = .ok c') :
    (∀ ie, ie ∈ l → ∀ u, c.units[ie.1]? = some u → ∃ u', c'.units[ie.1]? = some u' ∧ SameFlags u' u ∧
        u'.unit.aliases = optJoin u.unit.aliases ie.2.aliases pr ∧ (u.isExpanded = false → u' = u.edit pr ie.2)) ∧
    (∀ j, (∀ ie, ie ∈ l → ie.1 ≠ j) → ∀ uj, c.units[j]? = some uj → ∃ uj', c'.units[j]? = some uj' ∧ Kept uj uj') := by
  induction l generalizing c with
  | nil =>
    simp [applyExtendList] at h; subst h
    exact ⟨by simp, fun j _ uj huj => ⟨uj, huj, rfl, ⟨rfl, rfl, rfl⟩, fun _ => rfl⟩⟩
  | cons ie rest ih =>
    unfold applyExtendList at h
    have hg := applyExtendOne_good si pr c ie hc (hid ie (by simp))
    split at h
    · cases h
    · rename_i c1 hc1; rw [hc1] at hg
      obtain ⟨hready1, hlen1⟩ := hg
      have hnd' := List.nodup_cons.mp (by simpa using hnd : (ie.1 :: rest.map (·.1)).Nodup)
      obtain ⟨ih1, ih2⟩ := ih hnd'.2 c1 hready1 (fun x hx => by rw [hlen1]; exact hid x (by simp [hx])) h
      obtain ⟨u0, hu0⟩ : ∃ u0, c.units[ie.1]? = some u0 := ⟨c.units[ie.1]'(hid ie (by simp)), by simp [hid ie (by simp)]⟩
      obtain ⟨hat, hframe⟩ := applyExtendOne_effect si pr c c1 ie u0 hc hu0 hc1
      have hnotin : ∀ x, x ∈ rest → x.1 ≠ ie.1 := by
        intro x hx e; exact hnd'.1 (List.mem_map.mpr ⟨x, hx, e⟩)
      refine ⟨?_, ?_⟩
      · intro x hx u hu
        rcases List.mem_cons.mp hx with rfl | hx
        · rw [hu0] at hu; cases hu
          obtain ⟨u', hu', ha, hf, he⟩ := ih2 x.1 hnotin _ hat
          exact ⟨u', hu', hf, by rw [ha]; rfl, fun hne => he hne⟩
        · obtain ⟨u1, hu1, a1, f1, e1⟩ := hframe.2 x.1 (hnotin x hx) u hu
          obtain ⟨u', hu', hf', ha, he⟩ := ih1 x hx u1 hu1
          refine ⟨u', hu', ⟨hf'.1.trans f1.1, hf'.2.1.trans f1.2.1, hf'.2.2.trans f1.2.2⟩, by rw [ha, a1], ?_⟩
          intro hne
          have := e1 hne; subst this
          exact he hne
      · intro j hj uj huj
        have hji : j ≠ ie.1 := fun e => hj ie (by simp) e.symm
        obtain ⟨u1, hu1, a1, f1, e1⟩ := hframe.2 j hji uj huj
        obtain ⟨u', hu', a2, f2, e2⟩ := ih2 j (fun x hx => hj x (by simp [hx])) u1 hu1
        refine ⟨u', hu', a2.trans a1, ⟨f2.1.trans f1.1, f2.2.1.trans f1.2.1, f2.2.2.trans f1.2.2⟩, ?_⟩
        intro hne
        have := e1 hne; subst this
        exact e2 hne

/-- the first loop of `apply_extend_groups`: every key resolved with the index as it is before the block, no unit
    addressed twice, expanded units addressed only through their aliases -/
theorem resolveExtend_spec {α : Type} (c : Core α) (l : List (Key × ExtendEntry α)) (acc upd : List (Nat × ExtendEntry α))
    (hacc : (acc.map (·.1)).Nodup) (h : resolveExtend c l acc = .ok upd) :
    (upd.map (·.1)).Nodup ∧
    (∀ ke, ke ∈ l → ∃ id, idxGet c.index ke.1 = some id ∧ (id, ke.2) ∈ upd) ∧
    (∀ ie, ie ∈ upd → ie ∈ acc ∨ ∃ ke, ke ∈ l ∧ ke.2 = ie.2 ∧ idxGet c.index ke.1 = some ie.1 ∧
        ∀ u, c.units[ie.1]? = some u → u.isExpanded = true → entryTouchesBase ie.2 = false) ∧
    (∀ ie, ie ∈ acc → ie ∈ upd) := by
  induction l generalizing acc with
  | nil => simp [resolveExtend] at h; subst h; exact ⟨hacc, by simp, fun ie hie => Or.inl hie, fun _ h => h⟩
  | cons ke rest ih =>
    unfold resolveExtend at h
    split at h
    · cases h
    · rename_i id hid
      split at h
      · cases h
      · rename_i hany
        split at h
        · cases h
        · rename_i u hu
          split at h
          · cases h
          · rename_i hexp
            have hacc' : ((acc ++ [(id, ke.2)]).map (·.1)).Nodup := by
              simp only [List.map_append, List.map_cons, List.map_nil]
              refine List.nodup_append.mpr ⟨hacc, by simp, ?_⟩
              intro a ha b hb
              simp at hb; subst hb
              intro e; subst e
              apply hany
              obtain ⟨x, hx, rfl⟩ := List.mem_map.mp ha
              exact List.any_eq_true.mpr ⟨x, hx, by simp⟩
            obtain ⟨r1, r2, r3, r4⟩ := ih (acc ++ [(id, ke.2)]) hacc' h
            refine ⟨r1, ?_, ?_, ?_⟩
            · intro x hx
              rcases List.mem_cons.mp hx with rfl | hx
              · exact ⟨id, hid, r4 _ (by simp)⟩
              · exact r2 x hx
            · intro ie hie
              rcases r3 ie hie with hin | ⟨x, hx, a, b, d⟩
              · rcases List.mem_append.mp hin with hin | hin
                · exact Or.inl hin
                · simp at hin; subst hin
                  refine Or.inr ⟨ke, by simp, rfl, hid, ?_⟩
                  intro u1 hu1 hx
                  rw [hu] at hu1; cases hu1
                  simpa [hx] using hexp
              · exact Or.inr ⟨x, by simp [hx], a, b, d⟩
            · intro ie hie; exact r4 ie (by simp [hie])

/-- An extend block, applied to a consistent state: every entry `(k, e)` edits the unit `k` resolved to BEFORE the
    block.  A unit that is not an SI expansion becomes exactly `editUnit` of its old self (ratio, difference and the
    three lists joined by the block's precedence); an SI expansion gets its aliases joined.  Units that no entry
    addresses keep their aliases, and are untouched unless they are SI expansions (of an edited unit). -/
theorem applyExtendGroup_spec {α : Type} [Arith α] (si : SIConf) (c c' : Core α) (g : Extend α) (hc : Ready c)
    (h : applyExtendGroup si c g = .ok c') :
    (∀ ke, ke ∈ g.units → ∃ id u u', idxGet c.index ke.1 = some id ∧ c.units[id]? = some u ∧ c'.units[id]? = some u' ∧
        u'.unit.aliases = optJoin u.unit.aliases ke.2.aliases g.precedence ∧
        (u.isExpanded = false → u'.unit = editUnit u.unit g.precedence ke.2) ∧
        (u.isExpanded = true → entryTouchesBase ke.2 = false)) ∧
    (∀ j uj, (∀ ke, ke ∈ g.units → idxGet c.index ke.1 ≠ some j) → c.units[j]? = some uj →
        ∃ uj', c'.units[j]? = some uj' ∧ Kept uj uj') := by
  unfold applyExtendGroup at h
  split at h
  · cases h
  · rename_i upd hupd
    obtain ⟨r1, r2, r3, _⟩ := resolveExtend_spec c g.units [] upd (by simp) hupd
    have hvalid := (resolveExtend_good c hc.1 g.units [] (by simp)).of_ok hupd
    obtain ⟨e1, e2⟩ := applyExtendList_effect si g.precedence upd r1 c c' hc hvalid h
    refine ⟨?_, ?_⟩
    · intro ke hke
      obtain ⟨id, hid, hmem⟩ := r2 ke hke
      obtain ⟨_, u, hu, _⟩ := hc.1.sound _ _ hid
      obtain ⟨u', hu', _, ha, hb⟩ := e1 (id, ke.2) hmem u hu
      refine ⟨id, u, u', hid, hu, hu', ha, fun hne => by rw [hb hne]; rfl, ?_⟩
      intro hx
      rcases r3 (id, ke.2) hmem with hin | ⟨x, _, hx2, _, hx4⟩
      · simp at hin
      · exact hx4 u hu hx
    · intro j uj hj huj
      apply e2 j _ uj huj
      intro ie hie e
      rcases r3 ie hie with hin | ⟨x, hx, _, hx3, _⟩
      · simp at hin
      · exact hj x hx (by rw [hx3, e])

/-- the block spec with whole unit values (used for the uniqueness of the result) -/
theorem applyExtendGroup_spec' {α : Type} [Arith α] (si : SIConf) (c c' : Core α) (g : Extend α) (hc : Ready c)
    (h : applyExtendGroup si c g = .ok c') :
    c'.units.length = c.units.length ∧
    (∀ ke, ke ∈ g.units → ∃ id u u', idxGet c.index ke.1 = some id ∧ c.units[id]? = some u ∧ c'.units[id]? = some u' ∧
        SameFlags u' u ∧ u'.unit.aliases = optJoin u.unit.aliases ke.2.aliases g.precedence ∧
        (u.isExpanded = false → u' = u.edit g.precedence ke.2)) ∧
    (∀ j uj, (∀ ke, ke ∈ g.units → idxGet c.index ke.1 ≠ some j) → c.units[j]? = some uj →
        ∃ uj', c'.units[j]? = some uj' ∧ Kept uj uj') := by
  unfold applyExtendGroup at h
  split at h
  · cases h
  · rename_i upd hupd
    obtain ⟨r1, r2, r3, _⟩ := resolveExtend_spec c g.units [] upd (by simp) hupd
    have hvalid := (resolveExtend_good c hc.1 g.units [] (by simp)).of_ok hupd
    obtain ⟨e1, e2⟩ := applyExtendList_effect si g.precedence upd r1 c c' hc hvalid h
    refine ⟨((applyExtendList_good si g.precedence upd c hc hvalid).of_ok h).2, ?_, ?_⟩
    · intro ke hke
      obtain ⟨id, hid, hmem⟩ := r2 ke hke
      obtain ⟨_, u, hu, _⟩ := hc.1.sound _ _ hid
      obtain ⟨u', hu', hf, ha, hb⟩ := e1 (id, ke.2) hmem u hu
      exact ⟨id, u, u', hid, hu, hu', hf, ha, hb⟩
    · intro j uj hj huj
      apply e2 j _ uj huj
      intro ie hie e
      rcases r3 ie hie with hin | ⟨x, hx, _, hx3, _⟩
      · simp at hin
      · exact hj x hx (by rw [hx3, e])

end Cook.Bld
