import CookModel.Lemmas.Scale
import CookModel.Lemmas.Convert
/-
  Scaling and units with an additive offset (°C, °F) — wave `w6numeric`, audit of C08 clause 1.
  `scale` multiplies the stated NUMBER; for a unit `u` with `amount v u = (v + u.difference) · u.ratio` this multiplies
  the amount counted from the unit's own zero point (`amount 0 u`), not the absolute amount.
  Names carry the prefix `so_`.
-/
namespace Cook
open Arith

/-- what multiplying the number by `f` does to the absolute amount, for every unit -/
theorem so_amount_scale (x f : Rat) (u : Unit Rat) :
    amount (x * f) u = f * amount x u + (1 - f) * amount 0 u := by
  rw [amount_rat, amount_rat, amount_rat]; grind

/-- the amount counted from the unit's own zero point is multiplied by `f` -/
theorem so_amount_from_zero (x f : Rat) (u : Unit Rat) :
    amount (x * f) u - amount 0 u = f * (amount x u - amount 0 u) := by
  rw [so_amount_scale]; grind

/-- the absolute amount is multiplied by `f` exactly when `f = 1` or the unit's zero is the absolute zero -/
theorem so_amount_mul_iff (x f : Rat) (u : Unit Rat) :
    amount (x * f) u = f * amount x u ↔ (f = 1 ∨ amount 0 u = 0) := by
  rw [so_amount_scale]
  constructor
  · intro h
    have h2 : (1 - f) * amount 0 u = 0 := by grind
    rcases Rat.mul_eq_zero.mp h2 with h3 | h3
    · left; grind
    · right; exact h3
  · rintro (h | h)
    · subst h; grind
    · rw [h]; grind

/-- the zero point of a unit lies at `difference · ratio` -/
theorem so_amount_zero (u : Unit Rat) : amount 0 u = u.difference * u.ratio := by
  rw [amount_rat]; grind

end Cook
