import CookModel.Analysis.Collector
/-
  Frame lemmas for the analysis fold: which fields of the collector state each piece changes.
  `DiagOnly m`: `m` changes nothing but `diags` and `panic`.
-/
namespace Cook
variable {α : Type} [Arith α]
set_option linter.unusedSectionVars false

/-- `m` changes only `diags` and `panic` -/
structure DiagOnly {β : Type} (m : A α β) : Prop where
  out : ∀ s, ∃ d p, (m s).2 = { s with diags := d, panic := p }

theorem collector_bind_run {β γ : Type} (m : A α β) (f : β → A α γ) (s : Col α) :
    (m >>= f) s = f (m s).1 (m s).2 := rfl

theorem DiagOnly.pure {β : Type} (a : β) : DiagOnly (α := α) (Pure.pure a : A α β) :=
  ⟨fun s => ⟨s.diags, s.panic, rfl⟩⟩

theorem DiagOnly.bind {β γ : Type} {m : A α β} {f : β → A α γ} (hm : DiagOnly m) (hf : ∀ a, DiagOnly (f a)) :
    DiagOnly (m >>= f) := by
  constructor
  intro s
  obtain ⟨d1, p1, h1⟩ := hm.out s
  obtain ⟨d2, p2, h2⟩ := (hf (m s).1).out (m s).2
  refine ⟨d2, p2, ?_⟩
  rw [collector_bind_run, h2, h1]

theorem DiagOnly.get : DiagOnly (α := α) (get : A α (Col α)) :=
  ⟨fun s => ⟨s.diags, s.panic, rfl⟩⟩

theorem DiagOnly.ite {β : Type} {c : Prop} [Decidable c] {a b : A α β} (ha : DiagOnly a) (hb : DiagOnly b) :
    DiagOnly (if c then a else b) := by
  split <;> assumption

theorem DiagOnly.apanic (site : String) : DiagOnly (α := α) (apanic site) := by
  constructor
  intro s
  unfold Cook.apanic
  by_cases h : s.panic.isNone
  · exact ⟨s.diags, some site, by simp [modify, modifyGet, MonadStateOf.modifyGet, StateT.modifyGet, h, Pure.pure]⟩
  · exact ⟨s.diags, s.panic, by simp [modify, modifyGet, MonadStateOf.modifyGet, StateT.modifyGet, h, Pure.pure]⟩

theorem DiagOnly.aerr (k : String) (l : List Span) : DiagOnly (α := α) (aerr k l) :=
  ⟨fun s => ⟨_, s.panic, rfl⟩⟩

theorem DiagOnly.awarn (k : String) (l : List Span) : DiagOnly (α := α) (awarn k l) :=
  ⟨fun s => ⟨_, s.panic, rfl⟩⟩

theorem DiagOnly.forIn {β γ : Type} (l : List β) (init : γ) (f : β → γ → A α (ForInStep γ))
    (hf : ∀ b c, DiagOnly (f b c)) : DiagOnly (forIn l init f) := by
  induction l generalizing init with
  | nil => simp only [List.forIn_nil]; exact DiagOnly.pure _
  | cons x xs ih =>
    simp only [List.forIn_cons]
    apply DiagOnly.bind (hf x init)
    intro r
    cases r with
    | done c => exact DiagOnly.pure _
    | yield c => exact ih c

/-! running the state monad -/
theorem A_bind {β γ : Type} (m : A α β) (f : β → A α γ) (s : Col α) : (m >>= f) s = f (m s).1 (m s).2 := rfl
theorem A_pure {β : Type} (a : β) (s : Col α) : (pure a : A α β) s = (a, s) := rfl
theorem A_get (s : Col α) : (get : A α (Col α)) s = (s, s) := rfl
theorem A_set (s' s : Col α) : (set s' : A α PUnit) s = (⟨⟩, s') := rfl
theorem A_modify (f : Col α → Col α) (s : Col α) : (modify f : A α PUnit) s = (⟨⟩, f s) := rfl
theorem A_ite {β : Type} (c : Prop) [Decidable c] (a b : A α β) (s : Col α) :
    (if c then a else b) s = if c then a s else b s := by split <;> rfl

/-- leaves of `diag_only`; extended by `macro_rules` as more pieces are proved -/
syntax "diag_leaf" : tactic
macro_rules | `(tactic| diag_leaf) => `(tactic| exact DiagOnly.pure _)
macro_rules | `(tactic| diag_leaf) => `(tactic| exact DiagOnly.get)
macro_rules | `(tactic| diag_leaf) => `(tactic| exact DiagOnly.apanic _)
macro_rules | `(tactic| diag_leaf) => `(tactic| exact DiagOnly.aerr _ _)
macro_rules | `(tactic| diag_leaf) => `(tactic| exact DiagOnly.awarn _ _)
macro_rules | `(tactic| diag_leaf) => `(tactic| assumption)

/-- decomposes a `DiagOnly` goal along the structure of the `do` block -/
macro "diag_only" : tactic => `(tactic|
  repeat (first
    | diag_leaf
    | apply DiagOnly.bind
    | apply DiagOnly.ite
    | apply DiagOnly.forIn
    | intro _
    | dsimp only
    | split))

theorem valueOf_diagOnly (env : Env) (v : PQValue α) (b : Bool) : DiagOnly (valueOf env v b) := by
  unfold valueOf
  diag_only

macro_rules | `(tactic| diag_leaf) => `(tactic| exact valueOf_diagOnly ..)

theorem quantityOf_diagOnly (env : Env) (q : Loc (PQuantity α)) (b : Bool) : DiagOnly (quantityOf env q b) := by
  unfold quantityOf
  diag_only
macro_rules | `(tactic| diag_leaf) => `(tactic| exact quantityOf_diagOnly ..)

theorem resolveReference_diagOnly (env : Env) (container : String) (inherit : Nat)
    (existing : List (Str × Modifiers)) (name : Str) (mods : Modifiers) (location modLoc : Span) :
    DiagOnly (resolveReference (α := α) env container inherit existing name mods location modLoc) := by
  unfold resolveReference
  diag_only

macro_rules | `(tactic| diag_leaf) => `(tactic| exact resolveReference_diagOnly ..)

theorem resolveInterRef_diagOnly (d : Loc InterData) : DiagOnly (resolveInterRef (α := α) d) := by
  unfold resolveInterRef
  diag_only

macro_rules | `(tactic| diag_leaf) => `(tactic| exact resolveInterRef_diagOnly ..)

theorem noteReferenceError_diagOnly (input : Str) (a b : Span) (c : Option Span) :
    DiagOnly (noteReferenceError (α := α) input a b c) := by
  unfold noteReferenceError
  diag_only
macro_rules | `(tactic| diag_leaf) => `(tactic| exact noteReferenceError_diagOnly ..)

end Cook
