import CookModel.Lemmas.TableFacts
/-
  The binary searches of `Syntax/CharTable.lean` return what a linear scan of the generated lists returns:
  `realFold` is the lookup in the association list `realFoldAssoc` (so `Driver.realEnv` folds through exactly the
  kind of table `C18_fold_table_order_irrelevant` speaks about), and `classBits c` is the bits of THE range of
  the generated list that contains `c`.  Uses that the generated lists are ascending (decided by the kernel in
  `Lemmas/TableFacts.lean`) and that 64 halvings exhaust any table shorter than 2^64.
-/
namespace Cook

/-! ### the fold table -/

theorem tsr_fold_get_lt {i j : Nat} {ei ej : Nat × List Char} (hij : i < j)
    (hi : foldTable[i]? = some ei) (hj : foldTable[j]? = some ej) : ei.1 < ej.1 := by
  have hs := tbl_strictIncr_pairwise _ tbl_fold_sorted
  rw [List.pairwise_map] at hs
  have hi' : foldTable.toList[i]? = some ei := by simpa using hi
  have hj' : foldTable.toList[j]? = some ej := by simpa using hj
  obtain ⟨hil, hie⟩ := List.getElem?_eq_some_iff.1 hi'
  obtain ⟨hjl, hje⟩ := List.getElem?_eq_some_iff.1 hj'
  have h := (List.pairwise_iff_getElem.1 hs) i j hil hjl hij
  rw [hie, hje] at h
  exact h

/-- soundness and completeness of the binary search between `lo` and `hi`, given enough fuel -/
theorem tsr_foldLookupAux_spec (cp : Nat) (fuel : Nat) : ∀ (lo hi : Nat), hi ≤ foldTable.size → hi - lo < 2 ^ fuel →
    (∀ v, foldLookupAux cp lo hi fuel = some v → ∃ i, lo ≤ i ∧ i < hi ∧ foldTable[i]? = some (cp, v)) ∧
    (foldLookupAux cp lo hi fuel = none → ∀ i, lo ≤ i → i < hi → ∀ v, foldTable[i]? ≠ some (cp, v)) := by
  induction fuel with
  | zero =>
    intro lo hi _ hf
    simp only [Nat.pow_zero, Nat.lt_one_iff] at hf
    refine ⟨fun v h => by simp [foldLookupAux] at h, fun _ i h1 h2 => by omega⟩
  | succ n ih =>
    intro lo hi hsz hf
    rw [foldLookupAux]
    split
    · refine ⟨fun v h => by simp at h, fun _ i h1 h2 => by omega⟩
    · rename_i hlt
      dsimp only
      have hmid : (lo + hi) / 2 < foldTable.size := by omega
      cases hg : foldTable[(lo + hi) / 2]? with
      | none =>
        exfalso
        have := (Array.getElem?_eq_none_iff.1 hg)
        omega
      | some e =>
        obtain ⟨k, v0⟩ := e
        dsimp only
        have hp : (2:Nat) ^ (n + 1) = 2 * 2 ^ n := by rw [Nat.pow_succ]; omega
        split
        · rename_i hlt'
          obtain ⟨h1, h2⟩ := ih lo ((lo + hi) / 2) (by omega) (by omega)
          refine ⟨fun v h => ?_, fun h i hi1 hi2 v hv => ?_⟩
          · obtain ⟨i, a, b, c⟩ := h1 v h; exact ⟨i, a, by omega, c⟩
          · by_cases hc : i < (lo + hi) / 2
            · exact h2 h i hi1 hc v hv
            · rcases Nat.lt_or_ge ((lo + hi) / 2) i with hgt | hle
              · have := tsr_fold_get_lt hgt hg hv; simp at this; omega
              · have e : i = (lo + hi) / 2 := by omega
                rw [e, hg] at hv; simp at hv; omega
        · split
          · rename_i hgt'
            obtain ⟨h1, h2⟩ := ih ((lo + hi) / 2 + 1) hi hsz (by omega)
            refine ⟨fun v h => ?_, fun h i hi1 hi2 v hv => ?_⟩
            · obtain ⟨i, a, b, c⟩ := h1 v h; exact ⟨i, by omega, b, c⟩
            · by_cases hc : (lo + hi) / 2 + 1 ≤ i
              · exact h2 h i hc hi2 v hv
              · rcases Nat.lt_or_ge i ((lo + hi) / 2) with hlt2 | hge
                · have := tsr_fold_get_lt hlt2 hv hg; simp at this; omega
                · have e : i = (lo + hi) / 2 := by omega
                  rw [e, hg] at hv; simp at hv; omega
          · have e : k = cp := by omega
            subst e
            refine ⟨fun v h => ?_, fun h => by simp at h⟩
            simp only [Option.some.injEq] at h
            subst h
            exact ⟨(lo + hi) / 2, by omega, by omega, hg⟩

theorem tsr_fold_size : foldTable.size < 2 ^ 64 := by decide +kernel

/-- in an association list with pairwise different keys, an entry is what `lookup` finds -/
theorem tsr_lookup_of_mem {κ β : Type} [BEq κ] [LawfulBEq κ] : ∀ (l : List (κ × β)) (k : κ) (v : β),
    (l.map (·.1)).Nodup → (k, v) ∈ l → l.lookup k = some v
  | [], _, _, _, h => by cases h
  | (k', v') :: t, k, v, hu, h => by
    simp only [List.map_cons, List.nodup_cons] at hu
    rcases List.mem_cons.1 h with e | ht
    · cases e; simp [List.lookup]
    · have hne : (k == k') = false := by
        apply beq_false_of_ne
        intro e
        exact hu.1 (List.mem_map.2 ⟨(k, v), ht, e⟩)
      simp only [List.lookup, hne]
      exact tsr_lookup_of_mem t k v hu.2 ht

theorem tsr_lookup_none_of_not_mem {κ β : Type} [BEq κ] [LawfulBEq κ] : ∀ (l : List (κ × β)) (k : κ),
    (∀ v, (k, v) ∉ l) → l.lookup k = none
  | [], _, _ => rfl
  | (k', v') :: t, k, h => by
    have hne : (k == k') = false := by
      apply beq_false_of_ne
      intro e; subst e
      exact h v' (List.mem_cons_self ..)
    simp only [List.lookup, hne]
    exact tsr_lookup_none_of_not_mem t k (fun v hv => h v (List.mem_cons_of_mem _ hv))

/-- **`realFold` is the lookup in unicase's generated table read as an association list** (identity where the
    table has no entry): the binary search of the compiled model and the `List.lookup` the order-irrelevance
    theorem (`C18_fold_table_order_irrelevant`) speaks about are the same function -/
theorem tsr_realFold_eq_lookup (c : Char) : realFold c = (realFoldAssoc.lookup c).getD [c] := by
  unfold realFold
  obtain ⟨hs, hn⟩ := tsr_foldLookupAux_spec c.toNat 64 0 foldTable.size (Nat.le_refl _) (by have := tsr_fold_size; omega)
  have hvalid : ∀ e ∈ foldTable.toList, (Char.ofNat e.1).toNat = e.1 := fun e he => by
    simpa using List.all_eq_true.1 tbl_fold_keys_valid e he
  cases h : foldLookupAux c.toNat 0 foldTable.size 64 with
  | some v =>
    obtain ⟨i, -, -, hi⟩ := hs v h
    have hm : (c.toNat, v) ∈ foldTable.toList := by
      have : foldTable.toList[i]? = some (c.toNat, v) := by simpa using hi
      exact List.mem_of_getElem? this
    have hm' : (c, v) ∈ realFoldAssoc := by
      unfold realFoldAssoc
      refine List.mem_map.2 ⟨(c.toNat, v), hm, ?_⟩
      simp [Char.ofNat_toNat]
    rw [tsr_lookup_of_mem realFoldAssoc c v tbl_fold_nodup hm']
  | none =>
    have : realFoldAssoc.lookup c = none := by
      apply tsr_lookup_none_of_not_mem
      intro v hv
      unfold realFoldAssoc at hv
      obtain ⟨e, he, heq⟩ := List.mem_map.1 hv
      simp only [Prod.mk.injEq] at heq
      have hk : e.1 = c.toNat := by rw [← hvalid e he, heq.1]
      obtain ⟨i, hil, hie⟩ := List.getElem_of_mem he
      have hget : foldTable[i]? = some (c.toNat, v) := by
        have : foldTable.toList[i]? = some e := by rw [List.getElem?_eq_getElem hil, hie]
        have e' : e = (c.toNat, v) := by rw [← hk, ← heq.2]
        rw [← e']; simpa using this
      exact hn h i (Nat.zero_le _) (by simpa using hil) v hget
    rw [this]

/-! ### the character-class table -/

theorem tsr_chain_sorted : ∀ (l : List (Nat × Nat × Nat)) (n : Nat), tblChain n l = true →
    l.Pairwise (fun r s => r.2.1 < s.1) ∧ ∀ r ∈ l, n ≤ r.1 ∧ r.1 ≤ r.2.1
  | [], _, _ => ⟨List.Pairwise.nil, fun _ h => by cases h⟩
  | r :: t, n, h => by
    simp only [tblChain, Bool.and_eq_true, Bool.or_eq_true, beq_iff_eq, decide_eq_true_eq] at h
    obtain ⟨⟨h1, h2⟩, h3⟩ := h
    obtain ⟨ih1, ih2⟩ := tsr_chain_sorted t (r.2.1 + 1) h3
    refine ⟨List.Pairwise.cons (fun s hs => by have := (ih2 s hs).1; omega) ih1, fun s hs => ?_⟩
    rcases List.mem_cons.1 hs with rfl | hs
    · exact ⟨by omega, h2⟩
    · have := ih2 s hs; omega

/-- the chain covers every code point from `n` to the end of its last range, except surrogates -/
theorem tsr_chain_covers : ∀ (l : List (Nat × Nat × Nat)) (n : Nat), tblChain n l = true → ∀ (last : Nat × Nat × Nat),
    l.getLast? = some last → ∀ cp, n ≤ cp → cp ≤ last.2.1 → ¬ (0xD800 ≤ cp ∧ cp < 0xE000) →
    ∃ r ∈ l, r.1 ≤ cp ∧ cp ≤ r.2.1
  | [], _, _, _, hl, _, _, _, _ => by simp at hl
  | r :: t, n, h, last, hl, cp, h1, h2, hg => by
    simp only [tblChain, Bool.and_eq_true, Bool.or_eq_true, beq_iff_eq, decide_eq_true_eq] at h
    obtain ⟨⟨ha, hb⟩, hc⟩ := h
    by_cases hcp : cp ≤ r.2.1
    · exact ⟨r, List.mem_cons_self .., by omega, hcp⟩
    · cases t with
      | nil => simp at hl; subst hl; omega
      | cons r2 t2 =>
        have hl' : (r2 :: t2).getLast? = some last := by simpa [List.getLast?_cons_cons] using hl
        obtain ⟨s, hs, hs'⟩ := tsr_chain_covers (r2 :: t2) (r.2.1 + 1) hc last hl' cp (by omega) h2 hg
        exact ⟨s, List.mem_cons_of_mem _ hs, hs'⟩

theorem tsr_ranges_get_lt {i j : Nat} {ri rj : Nat × Nat × Nat} (hij : i < j)
    (hi : charRanges[i]? = some ri) (hj : charRanges[j]? = some rj) : ri.2.1 < rj.1 := by
  have hs := (tsr_chain_sorted _ 0 tbl_ranges_chain).1
  unfold charRanges at hi hj
  rw [List.getElem?_toArray] at hi hj
  obtain ⟨hil, hie⟩ := List.getElem?_eq_some_iff.1 hi
  obtain ⟨hjl, hje⟩ := List.getElem?_eq_some_iff.1 hj
  have h := (List.pairwise_iff_getElem.1 hs) i j hil hjl hij
  rw [hie, hje] at h
  exact h

theorem tsr_ranges_le {i : Nat} {r : Nat × Nat × Nat} (hi : charRanges[i]? = some r) : r.1 ≤ r.2.1 :=
  ((tsr_chain_sorted _ 0 tbl_ranges_chain).2 r (tbl_charRanges_mem hi)).2

/-- the binary search between `lo` and `hi` finds the range that contains `cp`, or returns 0 when none of them does -/
theorem tsr_classBitsAux_spec (cp : Nat) (fuel : Nat) : ∀ (lo hi : Nat), hi ≤ charRanges.size → hi - lo < 2 ^ fuel →
    (∃ i r, lo ≤ i ∧ i < hi ∧ charRanges[i]? = some r ∧ r.1 ≤ cp ∧ cp ≤ r.2.1 ∧ classBitsAux cp lo hi fuel = r.2.2) ∨
    (classBitsAux cp lo hi fuel = 0 ∧
      ∀ i r, lo ≤ i → i < hi → charRanges[i]? = some r → ¬ (r.1 ≤ cp ∧ cp ≤ r.2.1)) := by
  induction fuel with
  | zero =>
    intro lo hi _ hf
    simp only [Nat.pow_zero, Nat.lt_one_iff] at hf
    exact Or.inr ⟨rfl, fun i r h1 h2 => by omega⟩
  | succ n ih =>
    intro lo hi hsz hf
    rw [classBitsAux]
    split
    · exact Or.inr ⟨rfl, fun i r h1 h2 => by omega⟩
    · dsimp only
      cases hg : charRanges[(lo + hi) / 2]? with
      | none =>
        exfalso
        have := (Array.getElem?_eq_none_iff.1 hg)
        omega
      | some e =>
        obtain ⟨a, b, bits⟩ := e
        dsimp only
        have hp : (2:Nat) ^ (n + 1) = 2 * 2 ^ n := by rw [Nat.pow_succ]; omega
        have hab : a ≤ b := tsr_ranges_le hg
        split
        · rcases ih lo ((lo + hi) / 2) (by omega) (by omega) with ⟨i, r, h1, h2, h3⟩ | ⟨h0, hno⟩
          · exact Or.inl ⟨i, r, h1, by omega, h3⟩
          · refine Or.inr ⟨h0, fun i r hi1 hi2 hr hin => ?_⟩
            by_cases hc : i < (lo + hi) / 2
            · exact hno i r hi1 hc hr hin
            · rcases Nat.lt_or_ge ((lo + hi) / 2) i with hgt | hle
              · have := tsr_ranges_get_lt hgt hg hr; simp at this; omega
              · have e : i = (lo + hi) / 2 := by omega
                rw [e, hg] at hr; cases hr; simp at hin; omega
        · split
          · rcases ih ((lo + hi) / 2 + 1) hi hsz (by omega) with ⟨i, r, h1, h2, h3⟩ | ⟨h0, hno⟩
            · exact Or.inl ⟨i, r, by omega, h2, h3⟩
            · refine Or.inr ⟨h0, fun i r hi1 hi2 hr hin => ?_⟩
              by_cases hc : (lo + hi) / 2 + 1 ≤ i
              · exact hno i r hc hi2 hr hin
              · rcases Nat.lt_or_ge i ((lo + hi) / 2) with hlt2 | hge
                · have := tsr_ranges_get_lt hlt2 hr hg; simp at this; omega
                · have e : i = (lo + hi) / 2 := by omega
                  rw [e, hg] at hr; cases hr; simp at hin; omega
          · exact Or.inl ⟨(lo + hi) / 2, (a, b, bits), by omega, by omega, hg, by simp; omega, by simp; omega, rfl⟩

theorem tsr_ranges_size : charRanges.size < 2 ^ 64 := by decide +kernel

/-- **`classBits c` is the bits of THE range of the generated list that contains `c`**: such a range exists (the
    list covers every scalar value), it is unique (the ranges are disjoint), and the binary search of the compiled
    model returns its bits -/
theorem tsr_classBits_exact (c : Char) :
    ∃ r ∈ Gen.charRangesList, r.1 ≤ c.toNat ∧ c.toNat ≤ r.2.1 ∧ classBits c = r.2.2 ∧
      ∀ s ∈ Gen.charRangesList, s.1 ≤ c.toNat → c.toNat ≤ s.2.1 → s = r := by
  have huniq : ∀ r ∈ Gen.charRangesList, ∀ s ∈ Gen.charRangesList,
      r.1 ≤ c.toNat → c.toNat ≤ r.2.1 → s.1 ≤ c.toNat → c.toNat ≤ s.2.1 → s = r := by
    intro r hr s hs a1 a2 b1 b2
    have hsort := (tsr_chain_sorted _ 0 tbl_ranges_chain).1
    obtain ⟨i, hil, hie⟩ := List.getElem_of_mem hr
    obtain ⟨j, hjl, hje⟩ := List.getElem_of_mem hs
    rcases Nat.lt_trichotomy i j with h | h | h
    · have := (List.pairwise_iff_getElem.1 hsort) i j hil hjl h; rw [hie, hje] at this; omega
    · subst h; rw [← hie, ← hje]
    · have := (List.pairwise_iff_getElem.1 hsort) j i hjl hil h; rw [hie, hje] at this; omega
  rcases tsr_classBitsAux_spec c.toNat 64 0 charRanges.size (Nat.le_refl _) (by have := tsr_ranges_size; omega) with
    ⟨i, r, -, -, hr, h1, h2, h3⟩ | ⟨-, hno⟩
  · exact ⟨r, tbl_charRanges_mem hr, h1, h2, h3, fun s hs b1 b2 => huniq r (tbl_charRanges_mem hr) s hs h1 h2 b1 b2⟩
  · exfalso
    have hlast := tbl_ranges_last
    cases hl : Gen.charRangesList.getLast? with
    | none => rw [hl] at hlast; simp at hlast
    | some last =>
      rw [hl] at hlast
      simp only [Option.map_some, Option.some.injEq] at hlast
      have hv : c.toNat < 0xD800 ∨ (0xDFFF < c.toNat ∧ c.toNat < 0x110000) := c.valid
      obtain ⟨r, hr, h1, h2⟩ := tsr_chain_covers _ 0 tbl_ranges_chain last hl c.toNat (Nat.zero_le _) (by omega) (by omega)
      obtain ⟨i, hil, hie⟩ := List.getElem_of_mem hr
      have hget : charRanges[i]? = some r := by
        unfold charRanges
        rw [List.getElem?_toArray, List.getElem?_eq_getElem hil, hie]
      have hsz : i < charRanges.size := by unfold charRanges; simpa using hil
      exact hno i r (Nat.zero_le _) hsz hget ⟨h1, h2⟩

end Cook
