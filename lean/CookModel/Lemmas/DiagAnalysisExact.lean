import CookModel.Lemmas.DiagRefChecks
/-
  C07, analysis stage, the "only when" directions (prefix `c07a_`): the exact list of diagnostics of
  `resolve_reference`, `resolve_intermediate_ref`, the timer unit checks and the reference checks, as
  pure functions of the inputs, so that each catalogue entry "pushes X when Y" becomes "pushes X iff Y".
-/
namespace Cook
variable {α : Type} [Arith α]
set_option linter.unusedSectionVars false
set_option linter.unusedSimpArgs false
set_option linter.unusedVariables false

/-! ### `resolve_reference` -/

/-- the diagnostics `resolve_reference` pushes, in order, as a function of its arguments and of the two
    modes of the collector (`[define]`, `[duplicate]`) -/
def refDiags (env : Env) (inherit : Nat) (existing : List (Str × Modifiers)) (name : Str) (mods : Modifiers)
    (location modLoc : Span) (dm : DefineMode) (dup : DuplicateMode) : List Diag :=
  if mods.contains Modifiers.NEW && mods.contains Modifiers.REF then
    [adiag .error "ref-conflicting-modifiers" [modLoc]]
  else if mods.contains Modifiers.NEW then
    (if dm != .steps then
      (if dup == .reference && (sameNameIdx env existing name).isNone then [adiag .warning "redundant-new" [modLoc]]
       else if dup == .new then [adiag .warning "redundant-new" [modLoc]] else [])
     else [])
  else
    (if (dup == .reference || dm == .steps) && mods.contains Modifiers.REF then
      [adiag .warning "redundant-ref" [modLoc]] else []) ++
    (if mods.contains Modifiers.REF || dm == .steps ||
        (dup == .reference && (sameNameIdx env existing name).isSome) then
      (match sameNameIdx env existing name with
       | some refTo =>
         if refConflictBits mods ⟨(((existing[refTo]?).map (·.2)).getD Modifiers.empty).bits &&& inherit⟩ != 0 then
           [adiag .error "ref-conflicting-modifiers" [modLoc]] else []
       | none => [adiag .error "reference-not-found" [location]])
     else [])

/-- `resolve_reference` with the conflict-bit computation abstracted (`cbOf refTo`); verbatim otherwise -/
def resolveReferenceCB (cbOf : Nat → Nat) (env : Env) (container : String) (inherit : Nat)
    (existing : List (Str × Modifiers)) (name : Str) (mods : Modifiers)
    (location modLoc : Span) : A α (Modifiers × Option RefOutcome) := do
  let s ← get
  let sameName : Option Nat := sameNameIdx env existing name
  let _ := container
  if mods.contains Modifiers.NEW && mods.contains Modifiers.REF then
    aerr "ref-conflicting-modifiers" [modLoc]
    return (mods, none)
  if mods.contains Modifiers.NEW then
    if s.defineMode != .steps then
      if s.duplicateMode == .reference && sameName.isNone then awarn "redundant-new" [modLoc]
      else if s.duplicateMode == .new then awarn "redundant-new" [modLoc]
    return (mods, none)
  if (s.duplicateMode == .reference || s.defineMode == .steps) && mods.contains Modifiers.REF then
    awarn "redundant-ref" [modLoc]
  let treatAsRef := mods.contains Modifiers.REF || s.defineMode == .steps ||
    (s.duplicateMode == .reference && sameName.isSome)
  if !treatAsRef then return (mods, none)
  let implicit := !mods.contains Modifiers.REF
  match sameName with
  | some refTo =>
    let refMods := ((existing[refTo]?).map (·.2)).getD Modifiers.empty
    let inherited : Modifiers := ⟨refMods.bits &&& inherit⟩
    let conflictBits := cbOf refTo
    let mods' : Modifiers := ⟨mods.bits ||| inherited.bits ||| Modifiers.REF⟩
    if conflictBits != 0 then aerr "ref-conflicting-modifiers" [modLoc]
    return (mods', some ⟨refTo, implicit⟩)
  | none =>
    aerr "reference-not-found" [location]
    return (mods, none)

theorem c07a_resolveReference_eq_CB (env : Env) (container : String) (inherit : Nat)
    (existing : List (Str × Modifiers)) (name : Str) (mods : Modifiers) (location modLoc : Span) :
    resolveReference (α := α) env container inherit existing name mods location modLoc =
      resolveReferenceCB (fun refTo => refConflictBits mods
        ⟨(((existing[refTo]?).map (·.2)).getD Modifiers.empty).bits &&& inherit⟩)
        env container inherit existing name mods location modLoc := rfl

/-- `refDiags` with the conflict bits abstracted -/
def refDiagsCB (cbOf : Nat → Nat) (env : Env) (existing : List (Str × Modifiers)) (name : Str) (mods : Modifiers)
    (location modLoc : Span) (dm : DefineMode) (dup : DuplicateMode) : List Diag :=
  if mods.contains Modifiers.NEW && mods.contains Modifiers.REF then
    [adiag .error "ref-conflicting-modifiers" [modLoc]]
  else if mods.contains Modifiers.NEW then
    (if dm != .steps then
      (if dup == .reference && (sameNameIdx env existing name).isNone then [adiag .warning "redundant-new" [modLoc]]
       else if dup == .new then [adiag .warning "redundant-new" [modLoc]] else [])
     else [])
  else
    (if (dup == .reference || dm == .steps) && mods.contains Modifiers.REF then
      [adiag .warning "redundant-ref" [modLoc]] else []) ++
    (if mods.contains Modifiers.REF || dm == .steps ||
        (dup == .reference && (sameNameIdx env existing name).isSome) then
      (match sameNameIdx env existing name with
       | some refTo => if cbOf refTo != 0 then [adiag .error "ref-conflicting-modifiers" [modLoc]] else []
       | none => [adiag .error "reference-not-found" [location]])
     else [])

theorem c07a_refDiags_eq_CB (env : Env) (inherit : Nat) (existing : List (Str × Modifiers)) (name : Str)
    (mods : Modifiers) (location modLoc : Span) (dm : DefineMode) (dup : DuplicateMode) :
    refDiags env inherit existing name mods location modLoc dm dup =
      refDiagsCB (fun refTo => refConflictBits mods
        ⟨(((existing[refTo]?).map (·.2)).getD Modifiers.empty).bits &&& inherit⟩)
        env existing name mods location modLoc dm dup := rfl

theorem c07a_A_map {β γ : Type} (f : β → γ) (m : A α β) (s : Col α) : (f <$> m) s = (f (m s).1, (m s).2) := rfl

/-- sub-second proof (wave 6): one `simp` pass over the monad layer, a split on NEW, REF and the name lookup, then
    the remaining `if`s on the two modes are split on both sides and closed by `simp_all` (the pattern of
    `c07v_resolveReferenceCB_val`); no destructuring of the collector state, no heartbeat option. -/
theorem c07a_resolveReferenceCB_exact (cbOf : Nat → Nat) (env : Env) (container : String) (inherit : Nat)
    (existing : List (Str × Modifiers)) (name : Str) (mods : Modifiers) (location modLoc : Span) (s : Col α) :
    (resolveReferenceCB cbOf env container inherit existing name mods location modLoc s).2.diags.toList =
      s.diags.toList ++ refDiagsCB cbOf env existing name mods location modLoc s.defineMode s.duplicateMode ∧
    (resolveReferenceCB cbOf env container inherit existing name mods location modLoc s).2 =
      { s with diags := (resolveReferenceCB cbOf env container inherit existing name mods location modLoc s).2.diags } := by
  unfold resolveReferenceCB refDiagsCB
  simp +instances only [A_bind, A_pure, A_get, A_ite, aerr, awarn, A_modify]
  cases hn : mods.contains Modifiers.NEW <;> cases hr : mods.contains Modifiers.REF <;>
    cases hsn : sameNameIdx env existing name <;>
    simp only [Bool.false_and, Bool.true_and, Bool.and_true, Bool.and_false, Bool.false_eq_true, if_false, if_true,
      Bool.true_or, Bool.false_or, Bool.not_true, Bool.not_false, Option.isSome_none, Option.isSome_some,
      Option.isNone_none, Option.isNone_some, Bool.or_false, Bool.or_true] <;>
    (repeat' split) <;> (try simp +instances only [c07a_A_map, A_modify, A_pure, A_bind]) <;> simp_all [adiag]

/-- `resolve_reference` pushes exactly `refDiags` and changes nothing else -/
theorem c07a_resolveReference_exact (env : Env) (container : String) (inherit : Nat)
    (existing : List (Str × Modifiers)) (name : Str) (mods : Modifiers) (location modLoc : Span) (s : Col α) :
    (resolveReference env container inherit existing name mods location modLoc s).2.diags.toList =
      s.diags.toList ++ refDiags env inherit existing name mods location modLoc s.defineMode s.duplicateMode ∧
    (resolveReference env container inherit existing name mods location modLoc s).2 =
      { s with diags := (resolveReference env container inherit existing name mods location modLoc s).2.diags } := by
  rw [c07a_resolveReference_eq_CB, c07a_refDiags_eq_CB]
  exact c07a_resolveReferenceCB_exact _ env container inherit existing name mods location modLoc s

/-! which diagnostic is in the list, by kind -/

theorem c07a_refDiagsCB_kinds (cbOf : Nat → Nat) (env : Env) (existing : List (Str × Modifiers)) (name : Str)
    (mods : Modifiers) (location modLoc : Span) (dm : DefineMode) (dup : DuplicateMode) :
    ((∃ d ∈ refDiagsCB cbOf env existing name mods location modLoc dm dup, d.kind = "reference-not-found") ↔
      (mods.contains Modifiers.NEW = false ∧ sameNameIdx env existing name = none ∧
        (mods.contains Modifiers.REF = true ∨ dm = .steps))) ∧
    ((∃ d ∈ refDiagsCB cbOf env existing name mods location modLoc dm dup, d.kind = "ref-conflicting-modifiers") ↔
      ((mods.contains Modifiers.NEW = true ∧ mods.contains Modifiers.REF = true) ∨
       (mods.contains Modifiers.NEW = false ∧
        (mods.contains Modifiers.REF = true ∨ dm = .steps ∨ dup = .reference) ∧
        ∃ refTo, sameNameIdx env existing name = some refTo ∧ cbOf refTo ≠ 0))) ∧
    (∀ d ∈ refDiagsCB cbOf env existing name mods location modLoc dm dup,
      (d.kind = "reference-not-found" → d = adiag .error "reference-not-found" [location]) ∧
      (d.kind = "ref-conflicting-modifiers" → d = adiag .error "ref-conflicting-modifiers" [modLoc])) := by
  unfold refDiagsCB
  cases hsn : sameNameIdx env existing name with
  | none =>
    cases hn : mods.contains Modifiers.NEW <;> cases hr : mods.contains Modifiers.REF <;>
      cases dm <;> cases dup <;> simp [adiag]
  | some refTo =>
    cases hc : (cbOf refTo != 0) <;>
      (have hc' := hc
       simp only [bne_iff_ne, ne_eq, bne_eq_false_iff_eq] at hc'
       cases hn : mods.contains Modifiers.NEW <;> cases hr : mods.contains Modifiers.REF <;>
        cases dm <;> cases dup <;> simp [adiag, hc, hc'])

theorem c07a_refDiags_kinds (env : Env) (inherit : Nat) (existing : List (Str × Modifiers)) (name : Str)
    (mods : Modifiers) (location modLoc : Span) (dm : DefineMode) (dup : DuplicateMode) :
    ((∃ d ∈ refDiags env inherit existing name mods location modLoc dm dup, d.kind = "reference-not-found") ↔
      (mods.contains Modifiers.NEW = false ∧ sameNameIdx env existing name = none ∧
        (mods.contains Modifiers.REF = true ∨ dm = .steps))) ∧
    ((∃ d ∈ refDiags env inherit existing name mods location modLoc dm dup, d.kind = "ref-conflicting-modifiers") ↔
      ((mods.contains Modifiers.NEW = true ∧ mods.contains Modifiers.REF = true) ∨
       (mods.contains Modifiers.NEW = false ∧
        (mods.contains Modifiers.REF = true ∨ dm = .steps ∨ dup = .reference) ∧
        ∃ refTo, sameNameIdx env existing name = some refTo ∧
          refConflictBits mods ⟨(((existing[refTo]?).map (·.2)).getD Modifiers.empty).bits &&& inherit⟩ ≠ 0))) ∧
    (∀ d ∈ refDiags env inherit existing name mods location modLoc dm dup,
      (d.kind = "reference-not-found" → d = adiag .error "reference-not-found" [location]) ∧
      (d.kind = "ref-conflicting-modifiers" → d = adiag .error "ref-conflicting-modifiers" [modLoc])) := by
  rw [c07a_refDiags_eq_CB]
  exact c07a_refDiagsCB_kinds _ env existing name mods location modLoc dm dup

/-! ### `resolve_intermediate_ref` -/

/-- the diagnostic of `resolve_intermediate_ref`: none when the target exists -/
def interRefDiags (content : List Content) (nSections : Nat) (d : Loc InterData) : List Diag :=
  match interRefTarget content nSections d.val with
  | .ok _ => []
  | .error kind => [adiag .error kind [d.span]]

theorem c07a_resolveInterRef_exact (d : Loc InterData) (s : Col α) (hv : 0 ≤ d.val.val) :
    (resolveInterRef d s).2.diags.toList = s.diags.toList ++ interRefDiags s.cur.content s.sections.length d ∧
    (resolveInterRef d s).2 = { s with diags := (resolveInterRef d s).2.diags } ∧
    ((resolveInterRef d s).1 = none ↔ ∃ kind, interRefTarget s.cur.content s.sections.length d.val = .error kind) := by
  unfold resolveInterRef interRefDiags
  have hv' : ¬ d.val.val < 0 := by omega
  cases h : interRefTarget s.cur.content s.sections.length d.val <;>
    simp +instances only [A_bind, A_pure, A_get, A_ite, aerr, A_modify, h, hv', if_false] <;> simp [adiag]

end Cook
